(* Proofs/PLUFloat.v — C09 at the floating-point level: componentwise BACKWARD error of the PIVOTED
   factorisation [plu] of Model/LU.v (right-looking elimination with partial pivoting; the function behind
   decompose(pivot=true) and behind the inverse) for the binary64 instance [@plu float FNum].
   Bridge: Flocq's [B2R (Prim2B x)].

   If [plu n n A = Ok (L, U, P)], P is the permutation matrix of s (P i j = [j = s i]; such an s exists and
   is a permutation of 0..n-1: [plu_perm_exists]) and every arithmetic step behaved well, then for i, k < n
       | sum_{t<n} L_it U_tk - A_(s i)k |  <=  ((1+eps)^n - 1) * sum_{t<n} |L_it| |U_tk|,      eps = 2^-53,
   i.e. |L U - P A| <= gamma_n |L| |U| with the explicit constant (1+eps)^n - 1.  All entries of L, U finite.

   Rounding pattern: every trailing entry is updated once per step, so the stored value of entry (i,k) is the
   chain  r_0 = A_(s i)k,  r_(t+1) = r_t (-) (L_it (x) U_tk)   of length m = min i k  ([chain]); U_ik = r_m on
   or above the diagonal, L_ik = r_m (/) U_kk below it.
   Hypotheses (predicate [plu_entry_ok], on the RETURNED factors and the permuted input, checkable by
   computation): every product L_it * U_tk (t < m) is [okmul], every r_t (t <= m) is finite, and for k < i the
   division r_m / U_kk is [okdiv].

   Part A (any Num instance): the returned factors satisfy these chain recurrences entry by entry, and P is
   the matrix of a permutation ([PFinal], [plu_ok_final]); structure only, no ring laws.
   Part B: the rounding lemma for the chain.   Part C: the theorem and a computed 3x3 example that needs
   two row interchanges.                                                                               *)
From Coq Require Import ZArith List Bool Arith Reals Floats Lia Lra.
From Flocq Require Import Core Plus_error Relative BinarySingleNaN PrimFloat.
From SV Require Import Base.Num Base.Outcome Base.Mat Model.LU Proofs.LU Proofs.PLU Proofs.Gauss
                       Proofs.Stats Proofs.StatsFloat Proofs.Arr2DFloat Proofs.PolyFloat Proofs.SubstFloat
                       Proofs.LUFloat.
Import ListNotations.

(* ======================================================================================== *)
(* Part A — the recurrences of right-looking elimination with row interchanges, any Num      *)
Section Generic.
  Context {T : Type} {NT : Num T}.

  (* r_0 = a,  r_(t+1) = r_t - l_t * u_t   (in the arithmetic of T, in this order) *)
  Fixpoint chain (a : T) (l u : nat -> T) (m : nat) : T :=
    match m with
    | O => a
    | S m' => nsub (chain a l u m') (nmul (l m') (u m'))
    end.

  Lemma chain_ext a l u l' u' m :
    (forall t, t < m -> l t = l' t) -> (forall t, t < m -> u t = u' t) ->
    chain a l u m = chain a l' u' m.
  Proof.
    induction m as [|m IH]; intros Hl Hu; [reflexivity|].
    cbn [chain]. rewrite IH, Hl, Hu by (intros; try apply Hl; try apply Hu; lia). reflexivity.
  Qed.

  (* the value stored at (r,c) of the packed working matrix after i steps, in terms of the matrix
     itself: a chain of length min r c i from the (permuted) input, divided by the pivot in the L part *)
  Definition pentry (A : mat T) (s : nat -> nat) (m : mat T) (i r c : nat) : T :=
    let v := chain (A (s r) c) (fun t => m r t) (fun t => m t c) (Nat.min (Nat.min r c) i) in
    if (c <? r) && (c <? i) then ndiv v (m c c) else v.

  Lemma pentry_cong A s m i r c s' m' i' r' :
    s r = s' r' ->
    Nat.min (Nat.min r c) i = Nat.min (Nat.min r' c) i' ->
    ((c <? r) && (c <? i)) = ((c <? r') && (c <? i')) ->
    (forall t, t < Nat.min (Nat.min r c) i -> m r t = m' r' t) ->
    (forall t, t < Nat.min (Nat.min r c) i -> m t c = m' t c) ->
    (c < r -> c < i -> m c c = m' c c) ->
    pentry A s m i r c = pentry A s' m' i' r' c.
  Proof.
    intros Hs He Hb Hl Hu Hd. unfold pentry. rewrite <- He, <- Hb, <- Hs.
    rewrite (chain_ext (A (s r) c) (fun t => m r t) (fun t => m t c) (fun t => m' r' t) (fun t => m' t c))
      by assumption.
    destruct ((c <? r) && (c <? i)) eqn:Eb; [|reflexivity].
    apply andb_prop in Eb. destruct Eb as [E1 E2]. apply Nat.ltb_lt in E1, E2.
    rewrite Hd by assumption. reflexivity.
  Qed.

  Definition PGInv (n : nat) (A : mat T) (i : nat) (m : mat T) (s : nat -> nat) : Prop :=
    forall r c, r < n -> c < n -> m r c = pentry A s m i r c.

  (* p is the matrix of the permutation s of 0..n-1 *)
  Definition PPerm (n : nat) (s : nat -> nat) (p : mat T) : Prop :=
    perm_on n s /\ forall r c, r < n -> c < n -> p r c = if c =? s r then n1 else n0.

  Definition PState (n : nat) (A : mat T) (i : nat) (m p : mat T) : Prop :=
    exists s, PGInv n A i m s /\ PPerm n s p.

  Lemma PGInv_gmeq n A i m m' s : gmeq n m m' -> PGInv n A i m s -> PGInv n A i m' s.
  Proof.
    intros E H r c Hr Hc. rewrite <- E by assumption. rewrite (H r c Hr Hc).
    apply pentry_cong; try reflexivity.
    - intros t Ht. apply E; lia.
    - intros t Ht. apply E; lia.
    - intros _ _. apply E; lia.
  Qed.

  Lemma PPerm_gmeq n s p p' : gmeq n p p' -> PPerm n s p -> PPerm n s p'.
  Proof. intros E [H1 H2]. split; [exact H1|]. intros r c Hr Hc. rewrite <- E by assumption. apply H2; assumption. Qed.

  Lemma PState_init n A : PState n A 0 A midentity.
  Proof.
    exists (fun r => r). split.
    - intros r c Hr Hc. unfold pentry. rewrite Nat.min_0_r. cbn [chain].
      destruct (c <? r); reflexivity.
    - split.
      + exists (fun r => r). intros r Hr. repeat split; exact Hr.
      + intros r c Hr Hc. unfold midentity. rewrite (Nat.eqb_sym r c). reflexivity.
  Qed.

  (* ---- pivot search: the selected row lies in i..n-1 ---- *)
  Lemma gpivot_range n i (m : mat T) : i < n -> i <= fst (plu_pivot_search n i m) < n.
  Proof.
    intro Hi. unfold plu_pivot_search.
    match goal with |- context [for_range (S i) (n - S i) ?b ?s] => set (body := b); set (s0 := s) end.
    pose proof (for_range_inv (fun k (st : nat * T) => i <= fst st < k) (S i) (n - S i) body s0) as H.
    replace (S i + (n - S i)) with n in H by lia.
    apply H.
    - unfold s0. cbn [fst]. lia.
    - intros k st Hk A1. unfold body. cbv zeta. destruct (ngtb _ _); cbn [fst]; lia.
  Qed.

  (* what the conditional swap of the model does, pointwise *)
  Lemma gswap_tau (m : mat T) i q r c :
    (if q =? i then m else mswap_rows m q i) r c = m (tau i q r) c.
  Proof.
    unfold tau, mswap_rows. destruct (Nat.eqb_spec q i) as [->|Hqi].
    - destruct (Nat.eqb_spec r i) as [->|H]; reflexivity.
    - destruct (Nat.eqb_spec r q); [reflexivity|]. destruct (Nat.eqb_spec r i); reflexivity.
  Qed.

  (* ---- row interchange ---- *)
  Lemma PGInv_swap n A i m s q m1 :
    i <= q < n -> i < n -> (forall r c, m1 r c = m (tau i q r) c) ->
    PGInv n A i m s -> PGInv n A i m1 (fun r => s (tau i q r)).
  Proof.
    intros Hq Hi Hm1 H r c Hr Hc.
    rewrite Hm1. rewrite (H (tau i q r) c) by (try apply tau_lt; lia).
    assert (Tl : r < i -> tau i q r = r) by (intro; apply tau_low; lia).
    assert (Th : i <= r -> i <= tau i q r) by (intro; apply tau_high; lia).
    apply pentry_cong.
    - reflexivity.
    - destruct (le_lt_dec i r) as [Hir|Hir]; [specialize (Th Hir); lia|rewrite (Tl Hir); reflexivity].
    - destruct (le_lt_dec i r) as [Hir|Hir]; [specialize (Th Hir)|rewrite (Tl Hir); reflexivity].
      destruct (Nat.ltb_spec c i); [|rewrite !andb_false_r; reflexivity].
      rewrite !andb_true_r.
      destruct (Nat.ltb_spec c (tau i q r)); destruct (Nat.ltb_spec c r); try reflexivity; lia.
    - intros t Ht. rewrite Hm1. reflexivity.
    - intros t Ht. rewrite Hm1. rewrite (tau_low i q t) by lia. reflexivity.
    - intros _ Hci. rewrite Hm1. rewrite (tau_low i q c) by lia. reflexivity.
  Qed.

  Lemma PPerm_swap n i q s p p1 :
    i < n -> q < n -> (forall r c, p1 r c = p (tau i q r) c) ->
    PPerm n s p -> PPerm n (fun r => s (tau i q r)) p1.
  Proof.
    intros Hi Hq Hp1 [[s' Hs] Hp]. split.
    - exists (fun r => tau i q (s' r)). intros r Hr.
      assert (Ht : tau i q r < n) by (apply tau_lt; assumption).
      destruct (Hs (tau i q r) Ht) as [A1 [A2 [A3 A4]]].
      destruct (Hs r Hr) as [B1 [B2 [B3 B4]]].
      split; [exact A1|]. split; [apply tau_lt; assumption|]. split.
      + rewrite A3. apply tau_invol.
      + rewrite tau_invol. exact B4.
    - intros r c Hr Hc. rewrite Hp1. apply Hp; [apply tau_lt; assumption|exact Hc].
  Qed.

  (* ---- elimination: closed forms of the two nested loops ---- *)
  Definition grow_update_len (i k len : nat) (m : mat T) : mat T :=
    for_range (S i) len (fun j m => mset m k j (nsub (m k j) (nmul (m k i) (m i j)))) m.

  Lemma grow_update_len_spec i k len (m : mat T) :
    k <> i ->
    (forall c, S i <= c < S i + len ->
        grow_update_len i k len m k c = nsub (m k c) (nmul (m k i) (m i c))) /\
    (forall r c, ~ (r = k /\ S i <= c < S i + len) -> grow_update_len i k len m r c = m r c).
  Proof.
    intro Hki. induction len as [|len [IH1 IH2]].
    - split; [intros c Hc; lia|intros; reflexivity].
    - unfold grow_update_len in *. rewrite for_range_S.
      set (M := for_range (S i) len _ m) in *.
      split.
      + intros c Hc. destruct (Nat.eq_dec c (S i + len)) as [->|Hne].
        * rewrite mset_same. rewrite !IH2 by lia. reflexivity.
        * rewrite mset_other by (right; exact Hne). apply IH1. lia.
      + intros r c Hn. rewrite mset_other.
        * apply IH2. intros [H1 H2]. apply Hn. split; [exact H1|lia].
        * destruct (Nat.eq_dec r k) as [->|Hr]; [right|left; exact Hr].
          intro Hc. apply Hn. split; [reflexivity|lia].
  Qed.

  Definition geliminate_len (n i len : nat) (m : mat T) : mat T :=
    for_range (S i) len (fun k m => plu_row_update n i k (mset m k i (ndiv (m k i) (m i i)))) m.

  Lemma geliminate_len_spec n i len (m : mat T) :
    i < n ->
    (forall r, S i <= r < S i + len -> geliminate_len n i len m r i = ndiv (m r i) (m i i)) /\
    (forall r c, S i <= r < S i + len -> S i <= c < n ->
        geliminate_len n i len m r c = nsub (m r c) (nmul (ndiv (m r i) (m i i)) (m i c))) /\
    (forall r c, ~ (S i <= r < S i + len /\ i <= c < n) -> geliminate_len n i len m r c = m r c).
  Proof.
    intro Hi. induction len as [|len [IH1 [IH2 IH3]]].
    - split; [intros r Hr; lia|]. split; [intros r c Hr; lia|intros; reflexivity].
    - unfold geliminate_len in *. rewrite for_range_S.
      set (M := for_range (S i) len _ m) in *.
      change (plu_row_update n i (S i + len) ?x) with (grow_update_len i (S i + len) (n - S i) x).
      set (k := S i + len).
      set (M1 := mset M k i (ndiv (M k i) (M i i))).
      destruct (grow_update_len_spec i k (n - S i) M1) as [R1 R2]; [unfold k; lia|].
      replace (S i + (n - S i)) with n in R1, R2 by lia.
      assert (EMk : forall c, M k c = m k c) by (intro c; apply IH3; unfold k; lia).
      assert (EMi : forall c, M i c = m i c) by (intro c; apply IH3; lia).
      assert (E1k : M1 k i = ndiv (m k i) (m i i)).
      { unfold M1. rewrite mset_same. rewrite EMk, EMi. reflexivity. }
      split; [|split].
      + intros r Hr. rewrite R2 by lia.
        destruct (Nat.eq_dec r k) as [->|Hne]; [exact E1k|].
        unfold M1. rewrite mset_other by (left; exact Hne). apply IH1. unfold k in Hne. lia.
      + intros r c Hr Hc. destruct (Nat.eq_dec r k) as [->|Hne].
        * rewrite R1 by lia. rewrite E1k. unfold M1.
          rewrite !mset_other by (right; lia). rewrite EMk, EMi. reflexivity.
        * rewrite R2 by (intros [H1 H2]; exact (Hne H1)).
          unfold M1. rewrite mset_other by (left; exact Hne). apply IH2; [unfold k in Hne; lia|exact Hc].
      + intros r c Hn.
        assert (Hrc : ~ (r = k /\ S i <= c < n)).
        { intros [H1 H2]. apply Hn. unfold k in H1. lia. }
        rewrite R2 by exact Hrc.
        unfold M1. rewrite mset_other.
        * apply IH3. intros [H1 H2]. apply Hn. lia.
        * destruct (Nat.eq_dec r k) as [->|Hr]; [right|left; exact Hr].
          intro Hc. apply Hn. unfold k. lia.
  Qed.

  (* ---- one elimination step on the invariant ---- *)
  Lemma PGInv_elim n A i m1 s :
    i < n -> PGInv n A i m1 s -> PGInv n A (S i) (plu_eliminate n i m1) s.
  Proof.
    intros Hi H.
    change (plu_eliminate n i m1) with (geliminate_len n i (n - S i) m1).
    destruct (geliminate_len_spec n i (n - S i) m1 Hi) as [E1 [E2 E3]].
    replace (S i + (n - S i)) with n in E1, E2, E3 by lia.
    set (m2 := geliminate_len n i (n - S i) m1) in *.
    intros r c Hr Hc.
    destruct (le_lt_dec r i) as [Hri|Hri].
    - (* rows 0..i are not touched *)
      rewrite E3 by lia. rewrite (H r c Hr Hc).
      apply pentry_cong.
      + reflexivity.
      + lia.
      + destruct (Nat.ltb_spec c r); [|reflexivity]. cbn [andb].
        destruct (Nat.ltb_spec c i); destruct (Nat.ltb_spec c (S i)); try reflexivity; lia.
      + intros t Ht. rewrite E3 by lia. reflexivity.
      + intros t Ht. rewrite E3 by lia. reflexivity.
      + intros Hcr Hci. rewrite E3 by lia. reflexivity.
    - destruct (lt_eq_lt_dec c i) as [[Hci|Hci]|Hci].
      + (* columns 0..i-1 are not touched *)
        rewrite E3 by lia. rewrite (H r c Hr Hc).
        apply pentry_cong.
        * reflexivity.
        * lia.
        * destruct (Nat.ltb_spec c r); [|reflexivity]. cbn [andb].
          destruct (Nat.ltb_spec c i); destruct (Nat.ltb_spec c (S i)); try reflexivity; lia.
        * intros t Ht. rewrite E3 by lia. reflexivity.
        * intros t Ht. rewrite E3 by lia. reflexivity.
        * intros _ _. rewrite E3 by lia. reflexivity.
      + (* the multiplier *)
        subst c. rewrite E1 by lia. rewrite (H r i Hr Hc).
        unfold pentry.
        replace (Nat.min (Nat.min r i) i) with i by lia.
        replace (Nat.min (Nat.min r i) (S i)) with i by lia.
        replace (i <? i) with false by (symmetry; apply Nat.ltb_irrefl).
        replace (i <? r) with true by (symmetry; apply Nat.ltb_lt; lia).
        replace (i <? S i) with true by (symmetry; apply Nat.ltb_lt; lia).
        rewrite andb_false_r. cbn [andb].
        rewrite (E3 i i) by lia. f_equal.
        apply chain_ext; intros t Ht; rewrite E3 by lia; reflexivity.
      + (* the trailing block: one more link of the chain *)
        rewrite E2 by lia. rewrite (H r c Hr Hc). rewrite (H r i Hr Hi).
        unfold pentry.
        replace (Nat.min (Nat.min r c) i) with i by lia.
        replace (Nat.min (Nat.min r i) i) with i by lia.
        replace (Nat.min (Nat.min r c) (S i)) with (S i) by lia.
        replace (c <? i) with false by (symmetry; apply Nat.ltb_ge; lia).
        replace (c <? S i) with false by (symmetry; apply Nat.ltb_ge; lia).
        replace (i <? i) with false by (symmetry; apply Nat.ltb_irrefl).
        rewrite !andb_false_r. cbn [chain].
        f_equal.
        * apply chain_ext; intros t Ht; rewrite E3 by lia; reflexivity.
        * f_equal.
          -- rewrite E1 by lia. rewrite (H r i Hr Hi). unfold pentry.
             replace (Nat.min (Nat.min r i) i) with i by lia.
             replace (i <? i) with false by (symmetry; apply Nat.ltb_irrefl).
             rewrite andb_false_r. reflexivity.
          -- rewrite E3 by lia. reflexivity.
  Qed.

  (* ---- one outer iteration ---- *)
  Lemma plu_step_PState n A thr i m p m' p' :
    i < n -> PState n A i m p -> plu_step n thr i (Ok (m, p)) = Ok (m', p') -> PState n A (S i) m' p'.
  Proof.
    intros Hi [s [HG HP]] E. cbn [plu_step] in E. cbv zeta in E.
    pose proof (gpivot_range n i m Hi) as Hq.
    set (q := fst (plu_pivot_search n i m)) in *.
    set (m1 := if q =? i then m else mswap_rows m q i) in *.
    set (p1 := if q =? i then p else mswap_rows p q i) in *.
    destruct (nleb (nabs (m1 i i)) thr); [discriminate E|].
    injection E as <- <-.
    exists (fun r => s (tau i q r)). split.
    - apply (PGInv_gmeq n A (S i) (plu_eliminate n i m1)); [apply gmeq_retab|].
      apply PGInv_elim; [exact Hi|].
      apply (PGInv_swap n A i m s q m1); [lia|exact Hi| |exact HG].
      intros r c. unfold m1. apply gswap_tau.
    - apply (PPerm_gmeq n _ p1); [apply gmeq_retab|].
      apply (PPerm_swap n i q s p p1); [exact Hi|lia| |exact HP].
      intros r c. unfold p1. apply gswap_tau.
  Qed.

  Definition ppost (n : nat) (A : mat T) (i : nat) (acc : res (mat T * mat T)) : Prop :=
    match acc with
    | Ok (m, p) => PState n A i m p
    | _ => True
    end.

  (* the recurrences satisfied by the returned factors *)
  Record PFinal (n : nat) (A : mat T) (s : nat -> nat) (L U : mat T) : Prop := {
    pf_up : forall r c, r < n -> c < n -> r <= c ->
              U r c = chain (A (s r) c) (fun t => L r t) (fun t => U t c) r;
    pf_up0 : forall r c, r < n -> c < n -> c < r -> U r c = n0;
    pf_lo : forall r c, r < n -> c < n -> c < r ->
              L r c = ndiv (chain (A (s r) c) (fun t => L r t) (fun t => U t c) c) (U c c);
    pf_lo1 : forall r, r < n -> L r r = n1;
    pf_lo0 : forall r c, r < n -> c < n -> r < c -> L r c = n0
  }.

  Lemma plu_ok_final n (A L U P : mat T) : plu n n A = Ok (L, U, P) ->
    exists s, perm_on n s /\
      (forall r c, r < n -> c < n -> P r c = if c =? s r then n1 else n0) /\
      PFinal n A s L U.
  Proof.
    unfold plu. rewrite Nat.eqb_refl. cbn [negb]. intro E.
    pose proof (for_range_inv (ppost n A) 0 n (plu_step n (plu_threshold n A)) (Ok (A, midentity))) as H.
    cbn [Nat.add] in H.
    destruct (for_range 0 n (plu_step n (plu_threshold n A)) (Ok (A, midentity))) as [[m p]|e|w];
      try discriminate E.
    injection E as <- <- <-.
    assert (HS : PState n A n m p).
    { apply H.
      - cbn [ppost]. apply PState_init.
      - intros i acc Hi Pa. destruct acc as [[m0 p0]|e|w]; [|exact I|exact I].
        destruct (plu_step n (plu_threshold n A) i (Ok (m0, p0))) as [[m' p']|e|w] eqn:Es; [|exact I|exact I].
        cbn [ppost] in *. apply (plu_step_PState n A (plu_threshold n A) i m0 p0 m' p'); [lia|exact Pa|exact Es]. }
    destruct HS as [s [HG [Hperm HP]]]. exists s. split; [exact Hperm|]. split; [exact HP|].
    assert (Lo : forall r c, r < n -> c < n -> retab n n (plu_lower m) r c = plu_lower m r c)
      by (intros; apply retab_spec; assumption).
    assert (Up : forall r c, r < n -> c < n -> retab n n (plu_upper m) r c = plu_upper m r c)
      by (intros; apply retab_spec; assumption).
    assert (Llt : forall r t, t < r -> plu_lower m r t = m r t).
    { intros r t Ht. unfold plu_lower. destruct (Nat.eqb_spec r t); [lia|].
      destruct (Nat.ltb_spec t r); [reflexivity|lia]. }
    assert (Ule : forall t c, t <= c -> plu_upper m t c = m t c).
    { intros t c Ht. unfold plu_upper. destruct (Nat.leb_spec t c); [reflexivity|lia]. }
    constructor.
    - intros r c Hr Hc Hrc. rewrite Up, Ule by assumption. rewrite (HG r c Hr Hc). unfold pentry.
      replace (Nat.min (Nat.min r c) n) with r by lia.
      replace (c <? r) with false by (symmetry; apply Nat.ltb_ge; lia). cbn [andb].
      apply chain_ext; intros t Ht.
      + rewrite Lo, Llt by lia. reflexivity.
      + rewrite Up, Ule by lia. reflexivity.
    - intros r c Hr Hc Hcr. rewrite Up by assumption. unfold plu_upper.
      destruct (Nat.leb_spec r c); [lia|reflexivity].
    - intros r c Hr Hc Hcr. rewrite Lo, Llt by assumption. rewrite (HG r c Hr Hc). unfold pentry.
      replace (Nat.min (Nat.min r c) n) with c by lia.
      replace (c <? r) with true by (symmetry; apply Nat.ltb_lt; lia).
      replace (c <? n) with true by (symmetry; apply Nat.ltb_lt; lia). cbn [andb].
      rewrite (Up c c), (Ule c c) by lia. f_equal.
      apply chain_ext; intros t Ht.
      + rewrite Lo, Llt by lia. reflexivity.
      + rewrite Up, Ule by lia. reflexivity.
    - intros r Hr. rewrite Lo by assumption. unfold plu_lower. rewrite Nat.eqb_refl. reflexivity.
    - intros r c Hr Hc Hrc. rewrite Lo by assumption. unfold plu_lower.
      destruct (Nat.eqb_spec r c); [lia|]. destruct (Nat.ltb_spec c r); [lia|reflexivity].
  Qed.

  (* the permutation read off P exists, for every instance *)
  Lemma plu_perm_exists n (A L U P : mat T) : plu n n A = Ok (L, U, P) ->
    exists s, perm_on n s /\ forall r c, r < n -> c < n -> P r c = if c =? s r then n1 else n0.
  Proof.
    intro E. destruct (plu_ok_final n A L U P E) as [s [H1 [H2 _]]]. exists s. split; assumption.
  Qed.
End Generic.

(* ======================================================================================== *)
(* Part B — binary64: rounding of the chain                                                  *)
Local Open Scope R_scope.
Local Notation pfloat := PrimFloat.float.

(* r_m + sum_{t<m} x_t y_t  equals  a  up to (1+eps)^m - 1 relative to |r_m| + sum |x_t y_t| *)
Lemma chain_float_error (a : pfloat) (xs ys : nat -> pfloat) (m : nat) :
  (forall t, (t < m)%nat -> okmul (xs t) (ys t)) ->
  (forall t, (t <= m)%nat -> ffin (chain a xs ys t)) ->
  Rabs (FR (chain a xs ys m) + RsumN (fun t => FR (xs t) * FR (ys t)) m - FR a) <=
    ((1 + feps) ^ m - 1) * (Rabs (FR (chain a xs ys m)) + RsumN (fun t => Rabs (FR (xs t) * FR (ys t))) m).
Proof.
  induction m as [|m IH]; intros Hok Hf.
  - cbn [chain pow]. rewrite !RsumN_0.
    replace (FR a + 0 - FR a) with 0 by ring. rewrite Rabs_R0. lra.
  - assert (IH' := IH (fun t Ht => Hok t (Nat.lt_lt_succ_r _ _ Ht)) (fun t Ht => Hf t (Nat.le_le_succ_r _ _ Ht))).
    clear IH.
    change (chain a xs ys (S m)) with (PrimFloat.sub (chain a xs ys m) (PrimFloat.mul (xs m) (ys m))).
    pose proof (Hf (S m) (le_n _)) as F1.
    change (chain a xs ys (S m)) with (PrimFloat.sub (chain a xs ys m) (PrimFloat.mul (xs m) (ys m))) in F1.
    pose proof (Hf m (Nat.le_succ_diag_r m)) as F0.
    destruct (okmul_rel _ _ (Hok m (Nat.lt_succ_diag_r m))) as [Fp [e [He Ep]]].
    destruct (sub_finite_inv _ _ F0 Fp F1) as [d [Hd Ed]].
    rewrite !RsumN_S.
    set (r := FR (chain a xs ys m)) in *.
    set (r' := FR (PrimFloat.sub (chain a xs ys m) (PrimFloat.mul (xs m) (ys m)))) in *.
    set (S0 := RsumN (fun t => FR (xs t) * FR (ys t)) m) in *.
    set (AS := RsumN (fun t => Rabs (FR (xs t) * FR (ys t))) m) in *.
    set (pm := FR (xs m) * FR (ys m)) in *.
    rewrite Ep in Ed.
    assert (HAS : 0 <= AS) by (unfold AS; apply (RsumN_abs_nonneg (fun t => FR (xs t) * FR (ys t)) m)).
    pose proof feps_pos as Hu.
    pose proof (gam_nonneg m) as Hq.
    rewrite <- tech_pow_Rmult.
    set (q := (1 + feps) ^ m - 1) in *.
    replace ((1 + feps) * (1 + feps) ^ m - 1) with ((1 + feps) * (q + 1) - 1) by (unfold q; ring).
    (* r = r' (1+d) + pm (1+e) *)
    assert (Er : r = r' * (1 + d) + pm * (1 + e)) by lra.
    replace (r' + (S0 + pm) - FR a) with ((r + S0 - FR a) + (- (r' * d) + - (pm * e))) by (rewrite Er; ring).
    eapply Rle_trans; [apply Rabs_triang|].
    eapply Rle_trans; [apply Rplus_le_compat_l, Rabs_triang|].
    rewrite !Rabs_Ropp, !Rabs_mult.
    pose proof (Rabs_pos r') as Hr'. pose proof (Rabs_pos pm) as Hpm.
    pose proof (Rabs_pos d) as Hd0. pose proof (Rabs_pos e) as He0.
    assert (B1 : Rabs r <= (1 + feps) * (Rabs r' + Rabs pm)).
    { rewrite Er. eapply Rle_trans; [apply Rabs_triang|]. rewrite !Rabs_mult.
      assert (Rabs (1 + d) <= 1 + feps).
      { eapply Rle_trans; [apply Rabs_triang|]. rewrite Rabs_R1. lra. }
      assert (Rabs (1 + e) <= 1 + feps).
      { eapply Rle_trans; [apply Rabs_triang|]. rewrite Rabs_R1. lra. }
      assert (Rabs r' * Rabs (1 + d) <= Rabs r' * (1 + feps)) by (apply Rmult_le_compat_l; assumption).
      assert (Rabs pm * Rabs (1 + e) <= Rabs pm * (1 + feps)) by (apply Rmult_le_compat_l; assumption).
      lra. }
    assert (B2 : q * Rabs r <= q * ((1 + feps) * (Rabs r' + Rabs pm))) by (apply Rmult_le_compat_l; assumption).
    assert (B3 : Rabs r' * Rabs d <= Rabs r' * feps) by (apply Rmult_le_compat_l; assumption).
    assert (B4 : Rabs pm * Rabs e <= Rabs pm * feps) by (apply Rmult_le_compat_l; assumption).
    assert (B5 : 0 <= feps * (q * AS)).
    { apply Rmult_le_pos; [lra|]. apply Rmult_le_pos; assumption. }
    assert (B6 : 0 <= feps * AS) by (apply Rmult_le_pos; lra).
    lra.
Qed.

(* an entry of U: the end of the chain *)
Lemma plu_upper_entry_float_error (a : pfloat) (xs ys : nat -> pfloat) (m K : nat) :
  (m <= K)%nat ->
  (forall t, (t < m)%nat -> okmul (xs t) (ys t)) ->
  (forall t, (t <= m)%nat -> ffin (chain a xs ys t)) ->
  let u := chain a xs ys m in
  Rabs (RsumN (fun t => FR (xs t) * FR (ys t)) m + FR u - FR a) <=
    ((1 + feps) ^ K - 1) * (RsumN (fun t => Rabs (FR (xs t) * FR (ys t))) m + Rabs (FR u)).
Proof.
  intros HK Hok Hf u.
  pose proof (chain_float_error a xs ys m Hok Hf) as E. fold u in E.
  pose proof (gam_mono m K HK) as G.
  assert (HA : 0 <= RsumN (fun t => Rabs (FR (xs t) * FR (ys t))) m)
    by apply (RsumN_abs_nonneg (fun t => FR (xs t) * FR (ys t)) m).
  pose proof (Rabs_pos (FR u)) as Hu.
  rewrite (Rplus_comm _ (FR u)), (Rplus_comm _ (Rabs (FR u))).
  eapply Rle_trans; [exact E|]. apply Rmult_le_compat_r; [lra|exact G].
Qed.

(* an entry of L: the end of the chain divided by the pivot *)
Lemma plu_lower_entry_float_error (a : pfloat) (xs ys : nat -> pfloat) (m K : nat) (pivot : pfloat) :
  (m + 1 <= K)%nat ->
  (forall t, (t < m)%nat -> okmul (xs t) (ys t)) ->
  (forall t, (t <= m)%nat -> ffin (chain a xs ys t)) ->
  okdiv (chain a xs ys m) pivot ->
  let l := PrimFloat.div (chain a xs ys m) pivot in
  ffin l /\
  Rabs (RsumN (fun t => FR (xs t) * FR (ys t)) m + FR l * FR pivot - FR a) <=
    ((1 + feps) ^ K - 1) * (RsumN (fun t => Rabs (FR (xs t) * FR (ys t))) m + Rabs (FR l * FR pivot)).
Proof.
  intros HK Hok Hf Hdiv l. split; [apply Hdiv|].
  pose proof (chain_float_error a xs ys m Hok Hf) as E.
  destruct (div_finite_inv _ _ Hdiv) as [e [He Ew]]. fold l in Ew.
  set (w := FR (chain a xs ys m)) in *.
  set (S0 := RsumN (fun t => FR (xs t) * FR (ys t)) m) in *.
  set (AS := RsumN (fun t => Rabs (FR (xs t) * FR (ys t))) m) in *.
  assert (HAS : 0 <= AS) by (unfold AS; apply (RsumN_abs_nonneg (fun t => FR (xs t) * FR (ys t)) m)).
  rewrite (Rmult_comm (FR l) (FR pivot)).
  set (dx := FR pivot * FR l) in *.
  pose proof feps_pos as Hu.
  pose proof (gam_nonneg m) as Hq.
  pose proof (gam_mono (S m) K ltac:(lia)) as G. rewrite <- tech_pow_Rmult in G.
  set (q := (1 + feps) ^ m - 1) in *.
  replace ((1 + feps) * (1 + feps) ^ m - 1) with ((1 + feps) * (q + 1) - 1) in G by (unfold q; ring).
  set (GK := (1 + feps) ^ K - 1) in *.
  replace (S0 + dx - FR a) with ((w + S0 - FR a) + - (dx * e)) by (rewrite Ew; ring).
  eapply Rle_trans; [apply Rabs_triang|]. rewrite Rabs_Ropp, Rabs_mult.
  pose proof (Rabs_pos dx) as Hdx. pose proof (Rabs_pos e) as He0.
  assert (B1 : Rabs w <= (1 + feps) * Rabs dx).
  { rewrite Ew, Rabs_mult.
    assert (Rabs (1 + e) <= 1 + feps).
    { eapply Rle_trans; [apply Rabs_triang|]. rewrite Rabs_R1. lra. }
    assert (Rabs dx * Rabs (1 + e) <= Rabs dx * (1 + feps)) by (apply Rmult_le_compat_l; assumption).
    lra. }
  assert (B2 : q * Rabs w <= q * ((1 + feps) * Rabs dx)) by (apply Rmult_le_compat_l; assumption).
  assert (B3 : Rabs dx * Rabs e <= Rabs dx * feps) by (apply Rmult_le_compat_l; assumption).
  assert (B4 : ((1 + feps) * (q + 1) - 1) * (AS + Rabs dx) <= GK * (AS + Rabs dx))
    by (apply Rmult_le_compat_r; lra).
  assert (B5 : 0 <= feps * (q * AS)).
  { apply Rmult_le_pos; [lra|]. apply Rmult_le_pos; assumption. }
  assert (B6 : 0 <= feps * AS) by (apply Rmult_le_pos; lra).
  lra.
Qed.

(* ======================================================================================== *)
(* Part C — the factorisation                                                                *)

(* hypotheses on the computation of entry (i,k), stated on the returned factors L, U and on the
   row-permuted input PA (PA i k = A (s i) k): the chain of m = min i k updates, then (below the
   diagonal) the division by the pivot *)
Definition plu_entry_ok (PA L U : mat PrimFloat.float) (i k : nat) : Prop :=
  let m := Nat.min i k in
  let r := fun t => chain (PA i k) (fun j => L i j) (fun j => U j k) t in
  (forall j, (j < m)%nat -> okmul (L i j) (U j k)) /\
  (forall t, (t <= m)%nat -> is_finite (Prim2B (r t)) = true) /\
  ((k < i)%nat -> okdiv (r m) (U k k)).

Theorem plu_float_backward_error : forall (n : nat) (A L U P : mat PrimFloat.float) (s : nat -> nat),
  plu n n A = Ok (L, U, P) ->
  (forall i j, (i < n)%nat -> (j < n)%nat ->
     P i j = if (j =? s i)%nat then PrimFloat.one else PrimFloat.zero) ->
  (forall i k, (i < n)%nat -> (k < n)%nat -> plu_entry_ok (fun r c => A (s r) c) L U i k) ->
  forall i k, (i < n)%nat -> (k < n)%nat ->
    is_finite (Prim2B (L i k)) = true /\ is_finite (Prim2B (U i k)) = true /\
    Rabs (mprod n (fun r c => B2R (Prim2B (L r c))) (fun r c => B2R (Prim2B (U r c))) i k
          - B2R (Prim2B (A (s i) k)))
    <= ((1 + bpow radix2 (-53)) ^ n - 1)
       * mprod n (fun r c => Rabs (B2R (Prim2B (L r c)))) (fun r c => Rabs (B2R (Prim2B (U r c)))) i k.
Proof.
  intros n A L U P s E HP Hok i k Hi Hk.
  destruct (plu_ok_final n A L U P E) as [s0 [[s0' Hs0] [HP0 [I1 I2 I3 I4 I5]]]].
  pose proof FR_zero as [Z0 ZF]. pose proof FR_one as [O1 OF].
  (* the permutation read off P is the one followed by the algorithm *)
  assert (Es : s i = s0 i).
  { destruct (Hs0 i Hi) as [Hlt _].
    pose proof (HP i (s0 i) Hi Hlt) as E1. rewrite (HP0 i (s0 i) Hi Hlt), Nat.eqb_refl in E1.
    destruct (Nat.eqb_spec (s0 i) (s i)) as [Heq|Hne]; [symmetry; exact Heq|exfalso].
    cbn [n1 FNum] in E1. apply (f_equal FR) in E1. rewrite Z0, O1 in E1. lra. }
  change (ffin (L i k) /\ ffin (U i k) /\
          Rabs (msum 0 n (fun t => FR (L i t) * FR (U t k)) - FR (A (s i) k))
          <= ((1 + feps) ^ n - 1) * msum 0 n (fun t => Rabs (FR (L i t)) * Rabs (FR (U t k)))).
  assert (L0 : forall t, (i < t < n)%nat -> L i t = PrimFloat.zero).
  { intros t Ht. apply (I5 i t); lia. }
  assert (U0 : forall t, (k < t < n)%nat -> U t k = PrimFloat.zero).
  { intros t Ht. apply (I2 t k); lia. }
  assert (L1 : L i i = PrimFloat.one) by (apply (I4 i); lia).
  pose (xs := fun j : nat => L i j). pose (ys := fun j : nat => U j k).
  specialize (Hok i k Hi Hk). unfold plu_entry_ok in Hok. cbv zeta in Hok. cbv beta in Hok.
  rewrite Es in *.
  change (fun j : nat => L i j) with xs in Hok. change (fun j : nat => U j k) with ys in Hok.
  destruct (le_lt_dec i k) as [Hik|Hki].
  - (* on or above the diagonal *)
    rewrite (Nat.min_l i k Hik) in Hok.
    destruct Hok as [Hmul [Hf _]].
    assert (Ex : U i k = chain (A (s0 i) k) xs ys i) by exact (I1 i k Hi Hk Hik).
    pose proof (plu_upper_entry_float_error (A (s0 i) k) xs ys i n ltac:(lia) Hmul Hf) as R.
    cbv zeta in R. rewrite <- Ex in R.
    pose proof (Hf i (le_n i)) as Fu. fold (ffin (chain (A (s0 i) k) xs ys i)) in Fu. rewrite <- Ex in Fu.
    split; [|split; [exact Fu|]].
    + destruct (Nat.eq_dec i k) as [Eik|Hne]; [rewrite <- Eik, L1; exact OF|].
      rewrite (L0 k) by lia. exact ZF.
    + rewrite (msum_trunc (S i) n) by (try lia; intros t Ht; rewrite (L0 t) by lia; rewrite Z0; ring).
      rewrite (msum_trunc (S i) n (fun t => Rabs (FR (L i t)) * Rabs (FR (U t k))))
        by (try lia; intros t Ht; rewrite (L0 t) by lia; rewrite Z0, Rabs_R0; ring).
      cbn [msum]. rewrite Nat.add_0_l, L1, O1, Rabs_R1, !Rmult_1_l, !msum_RsumN.
      rewrite (RsumN_ext (fun t => Rabs (FR (L i t)) * Rabs (FR (U t k)))
                         (fun t => Rabs (FR (xs t) * FR (ys t))) i)
        by (intros t _; rewrite Rabs_mult; reflexivity).
      exact R.
  - (* below the diagonal *)
    rewrite (Nat.min_r i k ltac:(lia)) in Hok.
    destruct Hok as [Hmul [Hf Hdiv]]. specialize (Hdiv Hki).
    assert (Ex : L i k = PrimFloat.div (chain (A (s0 i) k) xs ys k) (U k k)) by exact (I3 i k Hi Hk Hki).
    destruct (plu_lower_entry_float_error (A (s0 i) k) xs ys k n (U k k) ltac:(lia) Hmul Hf Hdiv) as [Fl R].
    rewrite <- Ex in Fl, R.
    split; [exact Fl|]. split; [rewrite (I2 i k Hi Hk) by lia; exact ZF|].
    rewrite (msum_trunc (S k) n) by (try lia; intros t Ht; rewrite (U0 t) by lia; rewrite Z0; ring).
    rewrite (msum_trunc (S k) n (fun t => Rabs (FR (L i t)) * Rabs (FR (U t k))))
      by (try lia; intros t Ht; rewrite (U0 t) by lia; rewrite Z0, Rabs_R0; ring).
    cbn [msum]. rewrite Nat.add_0_l, !msum_RsumN.
    rewrite (RsumN_ext (fun t => Rabs (FR (L i t)) * Rabs (FR (U t k)))
                       (fun t => Rabs (FR (xs t) * FR (ys t))) k)
      by (intros t _; rewrite Rabs_mult; reflexivity).
    rewrite <- Rabs_mult. exact R.
Qed.

(* no row interchange: P is the identity, s = id *)
Corollary plu_float_backward_error_no_interchange : forall (n : nat) (A L U P : mat PrimFloat.float),
  plu n n A = Ok (L, U, P) ->
  (forall i j, (i < n)%nat -> (j < n)%nat ->
     P i j = if (j =? i)%nat then PrimFloat.one else PrimFloat.zero) ->
  (forall i k, (i < n)%nat -> (k < n)%nat -> plu_entry_ok A L U i k) ->
  forall i k, (i < n)%nat -> (k < n)%nat ->
    Rabs (mprod n (fun r c => B2R (Prim2B (L r c))) (fun r c => B2R (Prim2B (U r c))) i k
          - B2R (Prim2B (A i k)))
    <= ((1 + bpow radix2 (-53)) ^ n - 1)
       * mprod n (fun r c => Rabs (B2R (Prim2B (L r c)))) (fun r c => Rabs (B2R (Prim2B (U r c)))) i k.
Proof.
  intros n A L U P E HP Hok i k Hi Hk.
  exact (proj2 (proj2 (plu_float_backward_error n A L U P (fun r => r) E HP Hok i k Hi Hk))).
Qed.

(* ---- non-vacuity: A = [[1,2,3],[4,5,6],[7,8,10]]: the pivots are 7 (row 2) and 6/7 (original row 0),
   so two interchanges happen and P A = rows (2, 0, 1) of A; the multipliers 1/7, 4/7, 1/2 are inexact *)
Definition ex_plu_a : mat PrimFloat.float :=
  mat_of_lists [[0x1p+0; 0x1p+1; 0x1.8p+1]; [0x1p+2; 0x1.4p+2; 0x1.8p+2]; [0x1.cp+2; 0x1p+3; 0x1.4p+3]]%float.
Definition ex_plu_s (r : nat) : nat := match r with 0 => 2 | 1 => 0 | _ => 1 end%nat.

Example ex_plu_float_hyps : exists L U P, plu 3 3 ex_plu_a = Ok (L, U, P) /\
  (forall i j, (i < 3)%nat -> (j < 3)%nat ->
     P i j = if (j =? ex_plu_s i)%nat then PrimFloat.one else PrimFloat.zero) /\
  forall i k, (i < 3)%nat -> (k < 3)%nat -> plu_entry_ok (fun r c => ex_plu_a (ex_plu_s r) c) L U i k.
Proof.
  eexists _, _, _. split; [vm_compute; reflexivity|]. split.
  - intros i j Hi Hj.
    destruct i as [|[|[|i]]]; try lia; destruct j as [|[|[|j]]]; try lia; vm_compute; reflexivity.
  - intros i k Hi Hk.
    destruct i as [|[|[|i]]]; try lia; destruct k as [|[|[|k]]]; try lia;
    unfold plu_entry_ok; cbn [Nat.min]; cbv zeta;
    (split; [intros j Hj; destruct j as [|[|j]]; try lia; okmul_compute|]; split;
     [intros t Ht; destruct t as [|[|[|t]]]; try lia; fin_compute|intros Hlt; try lia; okdiv_compute]).
Qed.

Example ex_plu_float_error : exists L U P, plu 3 3 ex_plu_a = Ok (L, U, P) /\
  forall i k, (i < 3)%nat -> (k < 3)%nat ->
    Rabs (mprod 3 (fun r c => B2R (Prim2B (L r c))) (fun r c => B2R (Prim2B (U r c))) i k
          - B2R (Prim2B (ex_plu_a (ex_plu_s i) k)))
    <= ((1 + bpow radix2 (-53)) ^ 3 - 1)
       * mprod 3 (fun r c => Rabs (B2R (Prim2B (L r c)))) (fun r c => Rabs (B2R (Prim2B (U r c)))) i k.
Proof.
  destruct ex_plu_float_hyps as [L [U [P [E [HP H]]]]]. exists L, U, P. split; [exact E|].
  intros i k Hi Hk. exact (proj2 (proj2 (plu_float_backward_error 3 ex_plu_a L U P ex_plu_s E HP H i k Hi Hk))).
Qed.
