(* Proofs/PolyLemmasFast.v — Model/PolyFast.v computes exactly the functions of Model/Poly.v,
   for every Num instance (in particular the float instance that is extracted and run). *)
From Coq Require Import ZArith NArith List Bool Lia.
From SV Require Import Base.Num Base.Outcome Model.Poly Model.PolyFast.
Import ListNotations.

Section Fast.
  Context {T : Type} {NT : Num T}.

  Lemma deriv_coefs_fromZ_eq (cs : list T) : forall i,
    deriv_coefs_fromZ (Z.of_nat i) cs = deriv_coefs_from i cs.
  Proof.
    induction cs as [|c cs IH]; intro i; cbn [deriv_coefs_fromZ deriv_coefs_from]; [reflexivity|].
    rewrite <- Nat2Z.inj_succ, IH. reflexivity.
  Qed.

  Lemma integ_coefs_fromZ_eq (cs : list T) : forall i,
    integ_coefs_fromZ (Z.of_nat i) cs = integ_coefs_from i cs.
  Proof.
    induction cs as [|c cs IH]; intro i; cbn [integ_coefs_fromZ integ_coefs_from]; [reflexivity|].
    rewrite <- Nat2Z.inj_succ, IH. reflexivity.
  Qed.

  Lemma simple_derivative_fast_eq (p : spoly T) : simple_derivative_fast p = simple_derivative p.
  Proof.
    unfold simple_derivative_fast, simple_derivative.
    destruct (s_coefs p) as [|c cs]; [reflexivity|].
    rewrite <- (deriv_coefs_fromZ_eq cs 1). reflexivity.
  Qed.

  Lemma simple_integral_fast_eq (p : spoly T) : simple_integral_fast p = simple_integral p.
  Proof.
    unfold simple_integral_fast, simple_integral.
    rewrite <- (integ_coefs_fromZ_eq (s_coefs p) 0). reflexivity.
  Qed.

  Lemma fast_model_eq : forall (p : spoly T) (v : name),
    s_derivate_univariate_fast p = s_derivate_univariate p /\
    s_integral_univariate_fast p = s_integral_univariate p /\
    s_derivate_multivariate_fast p v = s_derivate_multivariate p v /\
    s_integral_multivariate_fast p v = s_integral_multivariate p v.
  Proof.
    intros p v.
    unfold s_derivate_univariate_fast, s_integral_univariate_fast, s_derivate_multivariate_fast,
      s_integral_multivariate_fast, s_derivate_univariate, s_integral_univariate,
      s_derivate_multivariate, s_integral_multivariate.
    rewrite simple_derivative_fast_eq, simple_integral_fast_eq. repeat split.
  Qed.
End Fast.
