(* Proofs/Deriv.v — C03: symbolic derivatives are the derivative. *)
From Coq Require Import ZArith NArith List Bool Reals Lra Lia.
From Coquelicot Require Import Coquelicot.
From SV Require Import Base.Num Base.Outcome Model.Poly Proofs.PolyLemmas.
Import ListNotations.
Local Open Scope R_scope.

Lemma c03_simple : forall (p : spoly R) (x : R),
  is_derive (eval_simple p) x (eval_simple (simple_derivative p) x).
Proof. exact simple_derive. Qed.
