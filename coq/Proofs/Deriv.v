(* Proofs/Deriv.v — C03: symbolic derivatives are the derivative, and the result
   is again a well-formed polynomial.  R instance of Model/Poly.v. *)
From Coq Require Import ZArith NArith List Bool Reals Lra Lia Permutation Sorted.
From Coquelicot Require Import Coquelicot.
From SV Require Import Base.Num Base.Outcome Model.Poly Proofs.PolyLemmas.
Import ListNotations.
Local Open Scope R_scope.

(** * Univariate type *)

Lemma c03_simple : forall (p : spoly R) (x : R),
  is_derive (eval_simple p) x (eval_simple (simple_derivative p) x).
Proof. exact simple_derive. Qed.

(* the by-name entry point: the polynomial's own variable differentiates, any other
   name returns the polynomial unchanged (the crate's documented behaviour) *)
Lemma c03_simple_wrappers : forall (p : spoly R) (v : name),
  s_derivate_univariate p = Ok (simple_derivative p) /\
  (first_char_is v (s_var p) = true -> s_derivate_multivariate p v = simple_derivative p) /\
  (first_char_is v (s_var p) = false -> s_derivate_multivariate p v = p) /\
  (forall x, s_eval_univariate p x = Ok (eval_simple p x)).
Proof.
  intros p v. unfold s_derivate_multivariate.
  repeat split; try reflexivity; intros ->; reflexivity.
Qed.

(** * Multivariate type: one term *)

(* value of the optional term returned by deriv_vars *)
Definition opt_term_val (o : option (term R)) (e : env R) : R :=
  match o with Some d => term_val d e | None => 0 end.

Lemma deriv_vars_derive (c : R) (v : name) (e : env R) (x : R) : forall vs pre,
  NoDup (keys (rev pre ++ vs)) -> ~ In v (keys pre) ->
  (forall p, In (v, p) vs -> dom_pow p x) ->
  is_derive (fun t => c * vars_prod (rev pre ++ vs) (upd e v t)) x
            (opt_term_val (deriv_vars c pre vs v) (upd e v x)).
Proof.
  induction vs as [|[k p] vs IH]; intros pre Hnd Hpre Hdom.
  - cbn [deriv_vars opt_term_val]. rewrite app_nil_r.
    replace 0 with (c * 0) by ring. apply is_derive_scal_const.
    apply vars_prod_const_derive. unfold keys. rewrite map_rev, <- in_rev. exact Hpre.
  - cbn [deriv_vars]. destruct (name_eqb k v) eqn:Ek.
    + apply name_eqb_eq in Ek. subst k.
      destruct (nodup_keys_split _ _ _ _ Hnd) as [Hv1 Hv2].
      cbn [neqb n0 nsub n1 nmul RNum].
      destruct (Reqb p 0) eqn:Ep0.
      * (* exponent 0: the term is constant in v and is dropped *)
        apply Reqb_true in Ep0. subst p. cbn [opt_term_val].
        assert (E : forall t : R, c * (vars_prod (rev pre) e * vars_prod vs e)
                                  = c * vars_prod (rev pre ++ (v, 0) :: vs) (upd e v t)).
        { intro t. rewrite vars_prod_split by assumption. rewrite Rpowf_0. ring. }
        eapply is_derive_ext; [exact E|]. apply @is_derive_const.
      * apply Reqb_false in Ep0.
        assert (Hd : dom_pow p x) by (apply Hdom; left; reflexivity).
        pose proof (vars_prod_split_derive (rev pre) vs e v p x Hv1 Hv2 Ep0 Hd) as HD.
        apply (is_derive_scal_const _ c) in HD.
        destruct (Reqb (p - 1) 0) eqn:Ep1; cbn [opt_term_val]; unfold term_val; cbn [t_coef t_vars].
        -- (* new exponent 0: the variable disappears from the term *)
           apply Reqb_true in Ep1.
           replace (c * p * vars_prod (rev pre ++ vs) (upd e v x))
             with (c * (p * vars_prod (rev pre ++ (v, p - 1) :: vs) (upd e v x))); [exact HD|].
           rewrite vars_prod_split by assumption. rewrite Ep1, Rpowf_0.
           rewrite vars_prod_app, !vars_prod_upd_absent by assumption. ring.
        -- replace (c * p * vars_prod (rev pre ++ (v, p - 1) :: vs) (upd e v x))
             with (c * (p * vars_prod (rev pre ++ (v, p - 1) :: vs) (upd e v x))) by ring.
           exact HD.
    + apply name_eqb_neq in Ek.
      assert (Eq : rev ((k, p) :: pre) ++ vs = rev pre ++ (k, p) :: vs).
      { cbn [rev]. rewrite <- app_assoc. reflexivity. }
      specialize (IH ((k, p) :: pre)). rewrite Eq in IH. apply IH.
      * exact Hnd.
      * cbn [keys map fst In]. intros [H|H]; [apply Ek; exact H|apply Hpre; exact H].
      * intros q Hq. apply Hdom. right. exact Hq.
Qed.

(* shape of the derived term *)
Lemma deriv_vars_shape (c : R) (v : name) : forall vs pre d,
  deriv_vars c pre vs v = Some d ->
  exists post1 p post2, vs = post1 ++ (v, p) :: post2 /\ ~ In v (keys post1) /\ p <> 0 /\
    t_coef d = c * p /\
    ((p - 1 = 0 /\ t_vars d = rev pre ++ post1 ++ post2) \/
     (p - 1 <> 0 /\ t_vars d = rev pre ++ post1 ++ (v, p - 1) :: post2)).
Proof.
  induction vs as [|[k p] vs IH]; intros pre d H; cbn [deriv_vars] in H; [discriminate|].
  destruct (name_eqb k v) eqn:Ek.
  - apply name_eqb_eq in Ek. subst k. cbn [neqb n0 nsub n1 nmul RNum] in H.
    destruct (Reqb p 0) eqn:Ep0; [discriminate|]. apply Reqb_false in Ep0.
    exists [], p, vs. split; [reflexivity|]. split; [intros []|]. split; [exact Ep0|].
    destruct (Reqb (p - 1) 0) eqn:Ep1; injection H as <-; cbn [t_coef t_vars app].
    + apply Reqb_true in Ep1. split; [reflexivity|]. left. split; [exact Ep1|reflexivity].
    + apply Reqb_false in Ep1. split; [reflexivity|]. right. split; [exact Ep1|reflexivity].
  - apply name_eqb_neq in Ek.
    destruct (IH _ _ H) as (post1 & q & post2 & -> & Hv & Hq & Hc & Hs).
    exists ((k, p) :: post1), q, post2. split; [reflexivity|].
    split. { cbn [keys map fst In]. intros [E|E]; [apply Ek; exact E|apply Hv; exact E]. }
    split; [exact Hq|]. split; [exact Hc|].
    cbn [rev] in Hs. rewrite <- !app_assoc in Hs. exact Hs.
Qed.

Lemma deriv_vars_none (c : R) (v : name) : forall vs pre,
  ~ In v (keys vs) -> deriv_vars c pre vs v = None.
Proof.
  induction vs as [|[k p] vs IH]; intros pre H; cbn [deriv_vars]; [reflexivity|].
  cbn [keys map fst In] in H.
  destruct (name_eqb k v) eqn:Ek.
  - apply name_eqb_eq in Ek. exfalso. apply H. left. exact Ek.
  - apply IH. intro Hin. apply H. right. exact Hin.
Qed.

(* keys of the derived term: those of the source, possibly without v *)
Lemma deriv_vars_keys (c : R) (v : name) vs d :
  deriv_vars c [] vs v = Some d ->
  incl (keys (t_vars d)) (keys vs) /\ (NoDup (keys vs) -> NoDup (keys (t_vars d))) /\
  (NoDup (keys vs) -> forall q, In (v, q) (t_vars d) -> q <> 0) /\
  (forall k q, k <> v -> In (k, q) (t_vars d) -> In (k, q) vs).
Proof.
  intro H. destruct (deriv_vars_shape c v vs [] d H) as (post1 & p & post2 & -> & Hv & Hp & _ & Hs).
  cbn [rev app] in Hs.
  destruct Hs as [[Hp1 ->]|[Hp1 ->]].
  - repeat split.
    + rewrite !keys_app. cbn [keys map fst]. intros k Hk. apply in_app_or in Hk.
      apply in_or_app. destruct Hk as [Hk|Hk]; [left; exact Hk|right; right; exact Hk].
    + rewrite !keys_app. cbn [keys map fst]. apply NoDup_remove_1.
    + intros Hnd q Hq. exfalso.
      destruct (nodup_keys_split _ _ _ _ Hnd) as [H1 H2].
      apply in_app_or in Hq. destruct Hq as [Hq|Hq].
      * apply H1. apply in_map_iff. exists (v, q). split; [reflexivity|exact Hq].
      * apply H2. apply in_map_iff. exists (v, q). split; [reflexivity|exact Hq].
    + intros k q Hk Hq. apply in_app_or in Hq. apply in_or_app.
      destruct Hq as [Hq|Hq]; [left; exact Hq|right; right; exact Hq].
  - repeat split.
    + rewrite !keys_app. cbn [keys map fst]. intros k Hk. exact Hk.
    + rewrite !keys_app. cbn [keys map fst]. exact (fun H => H).
    + intros Hnd q Hq.
      destruct (nodup_keys_split _ _ _ _ Hnd) as [H1 H2].
      apply in_app_or in Hq. destruct Hq as [Hq|[Hq|Hq]].
      * exfalso. apply H1. apply in_map_iff. exists (v, q). split; [reflexivity|exact Hq].
      * injection Hq as <-. exact Hp1.
      * exfalso. apply H2. apply in_map_iff. exists (v, q). split; [reflexivity|exact Hq].
    + intros k q Hk Hq. apply in_app_or in Hq. apply in_or_app.
      destruct Hq as [Hq|[Hq|Hq]]; [left; exact Hq| |right; right; exact Hq].
      injection Hq as E _. exfalso. apply Hk. symmetry. exact E.
Qed.

(** * Multivariate type: term lists *)

(* natural domain for differentiation in v at x: every exponent p of v is integral with
   p >= 0 or x <> 0, or else x > 0.  (The other variables are constants here: their
   factors Rpowf y q are real numbers whatever y and q are; they agree with the
   implementation's powf on powf's natural domain.) *)
Definition dom_deriv (ts : list (term R)) (v : name) (x : R) : Prop :=
  forall t, In t ts -> forall p, In (v, p) (t_vars t) -> dom_pow p x.

Lemma deriv_terms_derive (v : name) (e : env R) (x : R) : forall ts,
  wf_terms ts -> dom_deriv ts v x ->
  is_derive (fun t => terms_sum ts (upd e v t)) x (terms_sum (deriv_terms ts v) (upd e v x)).
Proof.
  induction ts as [|tm ts IH]; intros Hwf Hdom.
  - cbn [terms_sum deriv_terms]. apply @is_derive_const.
  - assert (IH' : is_derive (fun t => terms_sum ts (upd e v t)) x (terms_sum (deriv_terms ts v) (upd e v x))).
    { apply IH.
      - intros t Ht. apply Hwf. right. exact Ht.
      - intros t Ht. apply Hdom. right. exact Ht. }
    assert (H1 : is_derive (fun t => term_val tm (upd e v t)) x
                   (opt_term_val (deriv_vars (t_coef tm) [] (t_vars tm) v) (upd e v x))).
    { apply (deriv_vars_derive (t_coef tm) v e x (t_vars tm) []).
      - cbn [rev app]. apply Hwf. left. reflexivity.
      - intros [].
      - apply Hdom. left. reflexivity. }
    cbn [terms_sum deriv_terms].
    destruct (deriv_vars (t_coef tm) [] (t_vars tm) v) as [d|]; cbn [opt_term_val terms_sum] in *.
    + apply @is_derive_plus; assumption.
    + replace (terms_sum (deriv_terms ts v) (upd e v x))
        with (0 + terms_sum (deriv_terms ts v) (upd e v x)) by ring.
      apply @is_derive_plus; assumption.
Qed.

Lemma deriv_terms_in (v : name) : forall (ts : list (term R)) d,
  In d (deriv_terms ts v) -> exists t, In t ts /\ deriv_vars (t_coef t) [] (t_vars t) v = Some d.
Proof.
  induction ts as [|tm ts IH]; intros d H; cbn [deriv_terms] in H; [contradiction|].
  destruct (deriv_vars (t_coef tm) [] (t_vars tm) v) as [d0|] eqn:E.
  - destruct H as [<-|H].
    + exists tm. split; [left; reflexivity|exact E].
    + destruct (IH d H) as [t [Ht Hd]]. exists t. split; [right; exact Ht|exact Hd].
  - destruct (IH d H) as [t [Ht Hd]]. exists t. split; [right; exact Ht|exact Hd].
Qed.

Lemma deriv_terms_bound (v : name) ts e : terms_bound ts e -> terms_bound (deriv_terms ts v) e.
Proof.
  intros H d Hd k Hk. destruct (deriv_terms_in v ts d Hd) as [t [Ht E]].
  apply (H t Ht). apply (proj1 (deriv_vars_keys _ _ _ _ E)). exact Hk.
Qed.

Lemma deriv_terms_wf (v : name) ts : wf_terms ts -> wf_terms (deriv_terms ts v).
Proof.
  intros H d Hd. destruct (deriv_terms_in v ts d Hd) as [t [Ht E]].
  apply (proj1 (proj2 (deriv_vars_keys _ _ _ _ E))). apply H. exact Ht.
Qed.

Lemma partial_derivative_terms (ts : list (term R)) v :
  i_terms (partial_derivative ts v) = map sort_term (deriv_terms ts v).
Proof. reflexivity. Qed.

(* C03, main statement for the multivariate type *)
Lemma c03_partial : forall (ts : list (term R)) (v : name) (e : env R) (x : R),
  wf_terms ts -> terms_bound ts (upd e v x) -> dom_deriv ts v x ->
  exists (f : R -> R) (d : R),
    (forall t, eval_inter ts (upd e v t) = Ok (f t)) /\
    eval_inter (i_terms (partial_derivative ts v)) (upd e v x) = Ok d /\
    is_derive f x d.
Proof.
  intros ts v e x Hwf Hb Hdom.
  exists (fun t => terms_sum ts (upd e v t)), (terms_sum (deriv_terms ts v) (upd e v x)).
  split; [|split].
  - intro t. apply eval_inter_ok. eapply terms_bound_upd. exact Hb.
  - rewrite partial_derivative_terms, eval_inter_ok.
    + rewrite terms_sum_sort. reflexivity.
    + apply terms_bound_sort. apply deriv_terms_bound. exact Hb.
  - apply deriv_terms_derive; assumption.
Qed.

(* terms without the variable vanish: an absent name (in particular every multi-letter
   name, the parsers produce one-letter names only) gives the zero polynomial *)
Lemma deriv_terms_absent (v : name) : forall ts,
  (forall t, In t ts -> ~ In v (keys (t_vars t))) -> deriv_terms ts v = [].
Proof.
  induction ts as [|tm ts IH]; intro H; cbn [deriv_terms]; [reflexivity|].
  rewrite deriv_vars_none by (apply H; left; reflexivity).
  apply IH. intros t Ht. apply H. right. exact Ht.
Qed.

Lemma c03_absent : forall (ts : list (term R)) (v : name),
  (forall t, In t ts -> ~ In v (keys (t_vars t))) ->
  partial_derivative ts v = {| i_terms := []; i_vars := [] |}.
Proof.
  intros ts v H. unfold partial_derivative. rewrite deriv_terms_absent by exact H. reflexivity.
Qed.

Definition single_letter_terms (ts : list (term R)) : Prop :=
  forall t, In t ts -> forall k, In k (keys (t_vars t)) -> length k = 1%nat.

Lemma c03_multi_letter : forall (ts : list (term R)) (v : name),
  single_letter_terms ts -> length v <> 1%nat ->
  partial_derivative ts v = {| i_terms := []; i_vars := [] |}.
Proof.
  intros ts v H Hv. apply c03_absent. intros t Ht Hin. apply Hv. exact (H t Ht v Hin).
Qed.

(* every term of the derivative comes from a term that contains the variable with a
   non-zero exponent; the variable never remains with exponent 0; the other factors
   are untouched *)
Lemma c03_terms_shape : forall (ts : list (term R)) (v : name) (d : term R),
  wf_terms ts -> In d (i_terms (partial_derivative ts v)) ->
  (exists t p, In t ts /\ In (v, p) (t_vars t) /\ p <> 0 /\ t_coef d = t_coef t * p /\
      (forall k q, k <> v -> In (k, q) (t_vars d) -> In (k, q) (t_vars t))) /\
  (forall q, In (v, q) (t_vars d) -> q <> 0).
Proof.
  intros ts v d Hwf Hd. rewrite partial_derivative_terms in Hd.
  apply in_map_iff in Hd. destruct Hd as [d0 [<- Hd0]].
  destruct (deriv_terms_in v ts d0 Hd0) as [t [Ht E]].
  pose proof (deriv_vars_keys _ _ _ _ E) as (_ & _ & Hz & Ho).
  destruct (deriv_vars_shape _ _ _ _ _ E) as (post1 & p & post2 & Hvs & _ & Hp & Hc & _).
  assert (Hperm : forall kq, In kq (t_vars (sort_term d0)) -> In kq (t_vars d0)).
  { intros kq. apply Permutation_in. apply sort_vars_perm. }
  split.
  - exists t, p. split; [exact Ht|]. split.
    { rewrite Hvs. apply in_or_app. right. left. reflexivity. }
    split; [exact Hp|]. split; [exact Hc|].
    intros k q Hk Hq. apply Ho; [exact Hk|]. apply Hperm. exact Hq.
  - intros q Hq. apply Hz; [apply Hwf; exact Ht|]. apply Hperm. exact Hq.
Qed.

(** * Non-vacuity: the hypotheses of c03_partial are met *)

Definition ex_x : name := [120%N].
Definition ex_y : name := [121%N].

(* 3 x^2 y^-1 + 2 x^(1/2), differentiated in x at x = 3/2 with y = 2 *)
Example c03_partial_hyps :
  let ts := [ {| t_coef := 3; t_vars := [(ex_x, 2); (ex_y, -1)] |};
              {| t_coef := 2; t_vars := [(ex_x, 1 / 2)] |} ] in
  wf_terms ts /\ terms_bound ts (upd [(ex_y, 2)] ex_x (3 / 2)) /\ dom_deriv ts ex_x (3 / 2).
Proof.
  cbn zeta. split; [|split].
  - intros t [<-|[<-|[]]]; unfold wf_term; cbn [t_vars keys map fst].
    + constructor; [intros [H|[]]; discriminate H|]. constructor; [intros []|constructor].
    + constructor; [intros []|constructor].
  - intros t Ht k Hk.
    assert (Hk' : k = ex_x \/ k = ex_y).
    { destruct Ht as [<-|[<-|[]]]; cbn [t_vars keys map fst In] in Hk;
        intuition (subst; auto). }
    destruct Hk' as [->| ->].
    + rewrite lookup_upd_same. discriminate.
    + rewrite lookup_upd_other by discriminate. cbn. discriminate.
  - intros t Ht p Hp. right. lra.
Qed.
