(* Proofs/ExprTotal.v — C19, clause 1: lexer, parser and fold never panic; the fuel
   of the model (the only source of [Panic] in Model/Expr.v) never runs out. *)
From Coq Require Import ZArith NArith List Bool Lia.
From SV Require Import Base.Num Base.Outcome Base.Str Model.Expr.
Import ListNotations.
Local Open Scope res_scope.

Section Total.
  Context {T : Type} {NT : Num T}.
  Notation tok := (token T).
  Notation tree := (expr T).

  (* ---- lexer ---------------------------------------------------------------- *)
  Lemma span_length p (s : str) a b : span p s = (a, b) -> length a + length b = length s.
  Proof.
    revert a b; induction s as [|c s IH]; intros a b H; cbn in H.
    - injection H as <- <-. reflexivity.
    - destruct (p c).
      + destruct (span p s) as [a' b'] eqn:E. injection H as <- <-.
        cbn. rewrite (IH a' b' eq_refl). reflexivity.
      + injection H as <- <-. reflexivity.
  Qed.

  Lemma span_consumes p c (s : str) a b :
    p c = true -> span p (c :: s) = (a, b) -> length b <= length s.
  Proof.
    intros Hp H. cbn in H. rewrite Hp in H.
    destruct (span p s) as [a' b'] eqn:E. injection H as <- <-.
    pose proof (span_length p s a' b' E). lia.
  Qed.

  Lemma lex_loop_no_panic : forall fuel (s : str), length s < fuel -> no_panic (@lex_loop T NT fuel s).
  Proof.
    induction fuel as [|f IH]; intros s Hlen; [lia|].
    cbn [lex_loop]. destruct s as [|ch rest]; [intros w; discriminate|].
    cbn [length] in Hlen.
    destruct (is_num_char ch) eqn:Hn.
    - destruct (span is_num_char (ch :: rest)) as [num rest'] eqn:E.
      pose proof (span_consumes _ _ _ _ _ Hn E) as Hc.
      destruct (parse_unsigned_dec num); [|intros w; discriminate].
      apply bind_no_panic; [apply IH; lia|]. intros a _ w; discriminate.
    - destruct (is_ascii_letter ch) eqn:Hl.
      + destruct (span is_ascii_letter (ch :: rest)) as [wd rest'] eqn:E.
        pose proof (span_consumes _ _ _ _ _ Hl E) as Hc.
        apply bind_no_panic; [apply IH; lia|]. intros a _ w; discriminate.
      + destruct (ch =? 960)%N.
        { apply bind_no_panic; [apply IH; lia|]. intros a _ w; discriminate. }
        destruct (ch =? 964)%N.
        { apply bind_no_panic; [apply IH; lia|]. intros a _ w; discriminate. }
        destruct (ch =? 981)%N.
        { apply bind_no_panic; [apply IH; lia|]. intros a _ w; discriminate. }
        destruct (ch =? 40)%N.
        { apply bind_no_panic; [apply IH; lia|]. intros a _ w; discriminate. }
        destruct (ch =? 41)%N.
        { apply bind_no_panic; [apply IH; lia|]. intros a _ w; discriminate. }
        destruct (oper_of_char ch); [|intros w; discriminate].
        apply bind_no_panic; [apply IH; lia|]. intros a _ w; discriminate.
  Qed.

  Lemma lexer_no_panic (s : str) : no_panic (@lexer T NT s).
  Proof. unfold lexer. apply lex_loop_no_panic. lia. Qed.

  (* ---- parse_expr ------------------------------------------------------------- *)
  Lemma strip_fac_length : forall (ts : list tok) l, length (snd (strip_fac l ts)) <= length ts.
  Proof.
    induction ts as [|t ts IH]; intros l; cbn; [lia|].
    destruct t as [| |o| | | |]; cbn; try lia.
    destruct o; cbn; try lia. specialize (IH (EPost OFac l)). lia.
  Qed.

  Definition consuming (rec : list tok -> nat -> res (tree * list tok)) : Prop :=
    forall ts bp e r, rec ts bp = Ok (e, r) -> length r < length ts.

  Lemma bin_loop_length rec : consuming rec ->
    forall n l ts bp e r, bin_loop rec n l ts bp = Ok (e, r) -> length r <= length ts.
  Proof.
    intros Hrec. induction n as [|n IH]; intros l ts bp e r H; cbn [bin_loop] in H; [discriminate|].
    destruct ts as [|t ts']; [injection H as <- <-; lia|].
    destruct t as [| |op| | | |]; try (injection H as <- <-; lia).
    destruct (binding_pow op <? bp)%nat; [injection H as <- <-; lia|].
    destruct (rec ts' (binding_pow op + 1)) as [[rg r']|e0|w] eqn:E; cbn [bind] in H; try discriminate.
    apply Hrec in E. apply IH in H. cbn [length]. lia.
  Qed.

  (* the first part of parse_expr (atom, parenthesis, function, prefix minus) *)
  Definition prefix_part (f : nat) (ts : list tok) (min_bp : nat) : res (tree * list tok) :=
    match ts with
    | TNum x :: r => Ok (ENum x, r)
    | TVar v :: r => Ok (EVar v, r)
    | TConst c :: r => Ok (EConst c, r)
    | TLParen :: r =>
      let* (e, r1) := parse_expr f r 0 in
      match r1 with
      | TRParen :: r2 => Ok (set_paren e, r2)
      | _ :: _ => Err EUnexpectedToken
      | [] => Err EUnexpectedEndOfTokens
      end
    | TRParen :: _ => Err EUnexpectedToken
    | TFun fn :: r =>
      match r with
      | TLParen :: r' =>
        let* (inner, r1) := parse_expr f r' 0 in
        match r1 with
        | TRParen :: r2 => Ok (EFun fn inner, r2)
        | _ :: _ => Err EUnexpectedToken
        | [] => Err EUnexpectedEndOfTokens
        end
      | _ :: _ => Err EUnexpectedToken
      | [] => Err EUnexpectedEndOfTokens
      end
    | TOp op :: r =>
      if oper_eqb op OSub
      then let* (v, r1) := parse_expr f r (Nat.max min_bp BP_PREFIX_MINUS) in Ok (EPre op v, r1)
      else Err EUnexpectedToken
    | [] => Err EPolynomialSyntaxError
    end.

  Lemma parse_expr_unfold f ts bp :
    parse_expr (S f) ts bp =
    (let* (l, r) := prefix_part f ts bp in
     let (l', r') := strip_fac l r in
     bin_loop (parse_expr f) f l' r' bp).
  Proof. reflexivity. Qed.

  Lemma prefix_part_length f :
    consuming (parse_expr f) ->
    forall ts bp e r, prefix_part f ts bp = Ok (e, r) -> length r < length ts.
  Proof.
    intros Hrec ts bp e r H. unfold prefix_part in H.
    destruct ts as [|t ts']; [discriminate|].
    destruct t as [x|v|op|fn|c| |]; try (injection H as <- <-; cbn; lia); try discriminate.
    - destruct (oper_eqb op OSub); [|discriminate].
      destruct (parse_expr f ts' (Nat.max bp BP_PREFIX_MINUS)) as [[v r1]|e0|w] eqn:E; cbn [bind] in H; try discriminate.
      injection H as <- <-. apply Hrec in E. cbn; lia.
    - destruct ts' as [|t2 ts2]; [discriminate|].
      destruct t2; try discriminate.
      destruct (parse_expr f ts2 0) as [[v r1]|e0|w] eqn:E; cbn [bind] in H; try discriminate.
      apply Hrec in E.
      destruct r1 as [|t1 r2]; [discriminate|]. destruct t1; try discriminate.
      injection H as <- <-. cbn in *; lia.
    - destruct (parse_expr f ts' 0) as [[v r1]|e0|w] eqn:E; cbn [bind] in H; try discriminate.
      apply Hrec in E.
      destruct r1 as [|t1 r2]; [discriminate|]. destruct t1; try discriminate.
      injection H as <- <-. cbn in *; lia.
  Qed.

  Lemma parse_expr_consuming : forall f, consuming (@parse_expr T f).
  Proof.
    induction f as [|f IH]; intros ts bp e r H; [discriminate|].
    rewrite parse_expr_unfold in H.
    destruct (prefix_part f ts bp) as [[l r0]|e0|w] eqn:E; cbn [bind] in H; try discriminate.
    apply (prefix_part_length f IH) in E.
    pose proof (strip_fac_length r0 l) as Hs.
    destruct (strip_fac l r0) as [l' r'] eqn:E2. cbn [snd] in Hs.
    apply (bin_loop_length _ IH) in H. lia.
  Qed.

  Lemma bin_loop_no_panic rec f :
    consuming rec ->
    (forall ts bp, length ts < f -> no_panic (rec ts bp)) ->
    forall n l ts bp, length ts < n -> length ts <= f -> no_panic (bin_loop rec n l ts bp).
  Proof.
    intros Hc Hrec. induction n as [|n IH]; intros l ts bp Hn Hf; [lia|].
    cbn [bin_loop]. destruct ts as [|t ts']; [intros w; discriminate|].
    destruct t as [| |op| | | |]; try (intros w; discriminate).
    destruct (binding_pow op <? bp)%nat; [intros w; discriminate|].
    cbn [length] in *.
    apply bind_no_panic; [apply Hrec; lia|].
    intros [rg r'] E. apply Hc in E. apply IH; lia.
  Qed.

  Lemma parse_expr_no_panic : forall f (ts : list tok) bp, length ts < f -> no_panic (parse_expr f ts bp).
  Proof.
    induction f as [|f IH]; intros ts bp Hlen; [lia|].
    rewrite parse_expr_unfold.
    apply bind_no_panic.
    - unfold prefix_part. destruct ts as [|t ts']; [intros w; discriminate|].
      cbn [length] in Hlen.
      destruct t as [x|v|op|fn|c| |]; try (intros w; discriminate).
      + destruct (oper_eqb op OSub); [|intros w; discriminate].
        apply bind_no_panic; [apply IH; lia|]. intros [a b] _ w; discriminate.
      + destruct ts' as [|t2 ts2]; [intros w; discriminate|].
        destruct t2; try (intros w; discriminate).
        apply bind_no_panic; [apply IH; cbn [length] in *; lia|].
        intros [a b] _. destruct b as [|t1 b']; [intros w; discriminate|].
        destruct t1; intros w; discriminate.
      + apply bind_no_panic; [apply IH; lia|].
        intros [a b] _. destruct b as [|t1 b']; [intros w; discriminate|].
        destruct t1; intros w; discriminate.
    - intros [l r0] E.
      apply (prefix_part_length f (parse_expr_consuming f)) in E.
      pose proof (strip_fac_length r0 l) as Hs.
      destruct (strip_fac l r0) as [l' r'] eqn:E2. cbn [snd] in Hs.
      apply (bin_loop_no_panic (parse_expr f) f (parse_expr_consuming f)).
      + intros ts0 bp0 H0. apply IH. exact H0.
      + lia.
      + lia.
  Qed.

  Lemma parse_unfolded_no_panic (ts : list tok) : no_panic (parse_unfolded ts).
  Proof.
    unfold parse_unfolded. apply bind_no_panic.
    - apply parse_expr_no_panic. lia.
    - intros [e r] _. destruct r; intros w; discriminate.
  Qed.

  (* ---- fold --------------------------------------------------------------------- *)
  Lemma height_keep_paren (e : tree) p : height (keep_paren e p) = height e.
  Proof. destruct e; reflexivity. Qed.

  Lemma fold_fuel_ok : forall n (e : tree), height e < n ->
    exists e', fold_fuel n e = Ok e' /\ height e' <= height e.
  Proof.
    induction n as [|n IH]; intros e Hh; [lia|].
    destruct e as [x|v|c|f i|o v|o v|op l r p]; cbn [fold_fuel]; try (eexists; split; [reflexivity|lia]).
    cbn [height] in Hh.
    destruct (IH l ltac:(lia)) as (l' & El & Hl).
    destruct (IH r ltac:(lia)) as (r' & Er & Hr).
    rewrite El, Er. cbn [bind height].
    assert (Hkeep : exists e', Ok (EBin op l' r' p) = Ok e' /\ height e' <= S (Nat.max (height l) (height r))).
    { eexists; split; [reflexivity|cbn [height]; lia]. }
    assert (Hnum : forall x : T, exists e', Ok (ENum x) = Ok e' /\ height e' <= S (Nat.max (height l) (height r))).
    { intros x; eexists; split; [reflexivity|cbn [height]; lia]. }
    assert (Hl' : exists e', Ok (keep_paren l' p) = Ok e' /\ height e' <= S (Nat.max (height l) (height r))).
    { eexists; split; [reflexivity|rewrite height_keep_paren; lia]. }
    assert (Hr' : exists e', Ok (keep_paren r' p) = Ok e' /\ height e' <= S (Nat.max (height l) (height r))).
    { eexists; split; [reflexivity|rewrite height_keep_paren; lia]. }
    destruct op; try exact Hkeep.
    - (* Add *) destruct (is_num n0 l'); [exact Hr'|]. destruct (is_num n0 r'); [exact Hl'|exact Hkeep].
    - (* Sub *) destruct (is_num n0 r'); [exact Hl'|]. destruct (is_num n0 l'); [|exact Hkeep].
      destruct (IH r' ltac:(lia)) as (r'' & Er' & Hr'').
      rewrite Er'. cbn [bind]. eexists; split; [reflexivity|cbn [height]; lia].
    - (* Div *) destruct (is_num n1 r'); [exact Hl'|exact Hkeep].
    - (* Mul *) destruct (is_num n0 l'); [apply Hnum|]. destruct (is_num n0 r'); [apply Hnum|exact Hkeep].
    - (* Caret *) destruct (is_num n0 r'); [apply Hnum|]. destruct (is_num n0 l' && is_number r'); [apply Hnum|exact Hkeep].
  Qed.

  Lemma fold_operations_ok (e : tree) : exists e', fold_operations e = Ok e'.
  Proof.
    unfold fold_operations. destruct (fold_fuel_ok (S (height e)) e ltac:(lia)) as (e' & H & _).
    exists e'. exact H.
  Qed.

  Lemma fold_operations_no_panic (e : tree) : no_panic (fold_operations e).
  Proof. destruct (fold_operations_ok e) as (e' & H). rewrite H. intros w; discriminate. Qed.

  Lemma parser_no_panic (ts : list tok) : no_panic (parser ts).
  Proof.
    unfold parser. apply bind_no_panic; [apply parse_unfolded_no_panic|].
    intros e _. apply fold_operations_no_panic.
  Qed.

  (* the three outcomes of the public path text -> tree *)
  Lemma c19_total_lemma :
    (forall s : str, no_panic (@lexer T NT s)) /\
    (forall (f : nat) (ts : list tok) (bp : nat), length ts < f -> no_panic (parse_expr f ts bp)) /\
    (forall ts : list tok, no_panic (parse_unfolded ts) /\ no_panic (parser ts)) /\
    (forall e : tree, exists e', fold_operations e = Ok e').
  Proof.
    split; [exact lexer_no_panic|]. split; [exact parse_expr_no_panic|].
    split; [intros ts; split; [apply parse_unfolded_no_panic|apply parser_no_panic]|exact fold_operations_ok].
  Qed.
End Total.
