(* Proofs/ExprFold.v — C19, clause 3: constant folding preserves the value wherever the
   unfolded value is defined — except for the rule 0^_ = 0, which is wrong where the
   exponent evaluates to 0 (refutation witness at the end). *)
From Coq Require Import ZArith NArith List Bool Reals Lra Lia.
From SV Require Import Base.Num Base.Outcome Base.Str Model.Expr Model.RefExpr Proofs.ExprTotal.
Import ListNotations.

(* ---- the fold as a structural function; fold_fuel computes it --------------------- *)
Section FoldS.
  Context {T : Type} {NT : Num T}.
  Notation tree := (expr T).

  Fixpoint foldS (e : tree) : tree :=
    match e with
    | EBin op l r p =>
      let l' := foldS l in
      let r' := foldS r in
      match op with
      | OMul => if is_num n0 l' then ENum n0 else if is_num n0 r' then ENum n0 else EBin op l' r' p
      | OCaret => if is_num n0 r' then ENum n1 else if is_num n0 l' then ENum n0 else EBin op l' r' p
      | OAdd => if is_num n0 l' then r' else if is_num n0 r' then l' else EBin op l' r' p
      | OSub => if is_num n0 r' then l' else if is_num n0 l' then EPre OSub r' else EBin op l' r' p
      | ODiv => if is_num n1 r' then l' else EBin op l' r' p
      | _ => EBin op l' r' p
      end
    | _ => e
    end.

  (* the second call of fold_operations in the rule 0 - r is the identity *)
  Lemma foldS_idem : forall e : tree, foldS (foldS e) = foldS e.
  Proof.
    induction e as [x|v|c|f i IH|o v IH|o v IH|op l IHl r IHr p]; try reflexivity.
    cbn [foldS].
    destruct op; cbn [foldS]; try (rewrite IHl, IHr; reflexivity).
    - (* Add *)
      destruct (is_num n0 (foldS l)) eqn:E1; [exact IHr|].
      destruct (is_num n0 (foldS r)) eqn:E2; [exact IHl|].
      cbn [foldS]. rewrite IHl, IHr, E1, E2. reflexivity.
    - (* Sub *)
      destruct (is_num n0 (foldS r)) eqn:E2; [exact IHl|].
      destruct (is_num n0 (foldS l)) eqn:E1; [reflexivity|].
      cbn [foldS]. rewrite IHl, IHr, E1, E2. reflexivity.
    - (* Div *)
      destruct (is_num n1 (foldS r)) eqn:E2; [exact IHl|].
      cbn [foldS]. rewrite IHl, IHr, E2. reflexivity.
    - (* Mul *)
      destruct (is_num n0 (foldS l)) eqn:E1; [reflexivity|].
      destruct (is_num n0 (foldS r)) eqn:E2; [reflexivity|].
      cbn [foldS]. rewrite IHl, IHr, E1, E2. reflexivity.
    - (* Caret *)
      destruct (is_num n0 (foldS r)) eqn:E2; [reflexivity|].
      destruct (is_num n0 (foldS l)) eqn:E1; [reflexivity|].
      cbn [foldS]. rewrite IHl, IHr, E1, E2. reflexivity.
  Qed.

  Lemma foldS_height : forall e : tree, height (foldS e) <= height e.
  Proof.
    induction e as [x|v|c|f i IH|o v IH|o v IH|op l IHl r IHr p]; try (cbn; lia).
    cbn [foldS].
    destruct op; cbn [height];
      repeat match goal with |- context [if ?b then _ else _] => destruct b end;
      cbn [height]; lia.
  Qed.

  Lemma fold_fuel_foldS : forall n (e : tree), height e < n -> fold_fuel n e = Ok (foldS e).
  Proof.
    induction n as [|n IH]; intros e Hh; [lia|].
    destruct e as [x|v|c|f i|o v|o v|op l r p]; try reflexivity.
    cbn [height] in Hh. cbn [fold_fuel].
    rewrite (IH l) by lia. rewrite (IH r) by lia. cbn [bind foldS].
    destruct op; try reflexivity;
      repeat match goal with |- context [if ?b then _ else _] => destruct b end; try reflexivity.
    (* 0 - r : the second fold *)
    pose proof (foldS_height r).
    rewrite (IH (foldS r)) by lia. cbn [bind]. rewrite foldS_idem. reflexivity.
  Qed.

  Lemma fold_operations_foldS (e : tree) : fold_operations e = Ok (foldS e).
  Proof. unfold fold_operations. apply fold_fuel_foldS. lia. Qed.
End FoldS.

(* ---- values: the R instance ---------------------------------------------------------- *)
Local Open Scope R_scope.

Lemma Int_part_IZR (z : Z) : Int_part (IZR z) = z.
Proof.
  unfold Int_part. rewrite <- (tech_up (IZR z) (z + 1)).
  - lia.
  - rewrite plus_IZR. lra.
  - rewrite plus_IZR. lra.
Qed.

Lemma is_integer_IZR (z : Z) : is_integer (IZR z).
Proof. unfold is_integer. rewrite Int_part_IZR. reflexivity. Qed.

Lemma pow_val_0_r (a : R) : pow_val a 0 = Some 1.
Proof.
  unfold pow_val. destruct (is_integer_dec 0) as [_|N]; [|exfalso; apply N; apply (is_integer_IZR 0)].
  rewrite (Int_part_IZR 0). cbn.
  destruct (Req_EM_T a 0); reflexivity.
Qed.

Lemma pow_val_0_l (b v : R) : pow_val 0 b = Some v -> b <> 0 -> v = 0.
Proof.
  unfold pow_val. intros H Hb.
  destruct (is_integer_dec b) as [Hi|Hi].
  - destruct (Req_EM_T 0 0) as [_|N]; [|exfalso; apply N; reflexivity].
    destruct (Int_part b <? 0)%Z; [discriminate|].
    destruct (Int_part b =? 0)%Z eqn:E.
    + exfalso. apply Hb. rewrite Hi. apply Z.eqb_eq in E. rewrite E. reflexivity.
    + injection H as <-. reflexivity.
  - destruct (Rlt_dec 0 0) as [F|_]; [lra|].
    destruct (Req_EM_T 0 0) as [_|N]; [|exfalso; apply N; reflexivity].
    destruct (Rlt_dec 0 b); [injection H as <-; reflexivity|discriminate].
Qed.

Lemma is_num_R (c : R) (e : expr R) : is_num c e = true -> e = ENum c.
Proof.
  destruct e; cbn; try discriminate. cbn [neqb RNum]. intros H. apply Reqb_true in H. subst. reflexivity.
Qed.

(* the one unsound rule is excluded by a premise: wherever fold would apply 0^_ = 0 (the base
   folds to the number 0, the exponent does not), the exponent's value at rho is not 0.
   fold_operations does not look inside functions, prefix and postfix nodes. *)
Fixpoint pow_safe (e : expr R) (rho : env) : Prop :=
  match e with
  | EBin o l r _ =>
    pow_safe l rho /\ pow_safe r rho /\
    (o = OCaret -> is_num 0 (foldS l) = true -> is_num 0 (foldS r) = false -> denote r rho <> Some 0)
  | _ => True
  end.

Lemma denote_bin_inv o l r p rho v :
  denote (EBin o l r p) rho = Some v ->
  exists a b, denote l rho = Some a /\ denote r rho = Some b /\ bin_val o a b = Some v.
Proof.
  cbn [denote]. destruct (denote l rho) as [a|]; [|discriminate].
  destruct (denote r rho) as [b|]; [|discriminate]. cbn [obind]. eauto.
Qed.

Lemma denote_bin o l r p rho a b :
  denote l rho = Some a -> denote r rho = Some b -> denote (EBin o l r p) rho = bin_val o a b.
Proof. intros Hl Hr. cbn [denote]. rewrite Hl, Hr. reflexivity. Qed.

Lemma foldS_sound : forall (e : expr R) rho v,
  denote e rho = Some v -> pow_safe e rho -> denote (foldS e) rho = Some v.
Proof.
  induction e as [x|s|c|f i IH|o s IH|o s IH|op l IHl r IHr p]; intros rho v Hd Hs; try exact Hd.
  destruct (denote_bin_inv _ _ _ _ _ _ Hd) as (a & b & Hl & Hr & Hv).
  destruct Hs as (Hsl & Hsr & Hpow).
  specialize (IHl rho a Hl Hsl). specialize (IHr rho b Hr Hsr).
  assert (Hkeep : denote (EBin op (foldS l) (foldS r) p) rho = Some v).
  { rewrite (denote_bin _ _ _ _ _ _ _ IHl IHr). exact Hv. }
  cbn [foldS].
  destruct op; try exact Hkeep; cbn [n0 n1 RNum].
  - (* Add *)
    destruct (is_num 0 (foldS l)) eqn:E1.
    { apply is_num_R in E1. rewrite E1 in IHl. injection IHl as <-.
      cbn in Hv. injection Hv as <-. rewrite IHr. f_equal. lra. }
    destruct (is_num 0 (foldS r)) eqn:E2; [|exact Hkeep].
    apply is_num_R in E2. rewrite E2 in IHr. injection IHr as <-.
    cbn in Hv. injection Hv as <-. rewrite IHl. f_equal. lra.
  - (* Sub *)
    destruct (is_num 0 (foldS r)) eqn:E2.
    { apply is_num_R in E2. rewrite E2 in IHr. injection IHr as <-.
      cbn in Hv. injection Hv as <-. rewrite IHl. f_equal. lra. }
    destruct (is_num 0 (foldS l)) eqn:E1; [|exact Hkeep].
    apply is_num_R in E1. rewrite E1 in IHl. injection IHl as <-.
    cbn in Hv. injection Hv as <-. cbn [denote]. rewrite IHr. cbn. f_equal. lra.
  - (* Div *)
    destruct (is_num 1 (foldS r)) eqn:E2; [|exact Hkeep].
    apply is_num_R in E2. rewrite E2 in IHr. injection IHr as <-.
    cbn in Hv. destruct (Req_EM_T 1 0); [lra|]. injection Hv as <-. rewrite IHl. f_equal. field.
  - (* Mul *)
    destruct (is_num 0 (foldS l)) eqn:E1.
    { apply is_num_R in E1. rewrite E1 in IHl. injection IHl as <-.
      cbn in Hv. injection Hv as <-. cbn. f_equal. lra. }
    destruct (is_num 0 (foldS r)) eqn:E2; [|exact Hkeep].
    apply is_num_R in E2. rewrite E2 in IHr. injection IHr as <-.
    cbn in Hv. injection Hv as <-. cbn. f_equal. lra.
  - (* Caret *)
    destruct (is_num 0 (foldS r)) eqn:E2.
    { apply is_num_R in E2. rewrite E2 in IHr. injection IHr as <-.
      cbn [bin_val] in Hv. rewrite pow_val_0_r in Hv. injection Hv as <-. reflexivity. }
    destruct (is_num 0 (foldS l)) eqn:E1; [|exact Hkeep].
    pose proof (Hpow eq_refl eq_refl eq_refl) as Hb.
    apply is_num_R in E1. rewrite E1 in IHl. injection IHl as <-.
    cbn [bin_val] in Hv. cbn [denote]. f_equal. symmetry.
    apply (pow_val_0_l b v Hv). intros ->. apply Hb. exact Hr.
Qed.

(* the simple sufficient premise: no power sub-expression is 0^0 at rho *)
Fixpoint no_zero_pow_zero (e : expr R) (rho : env) : Prop :=
  match e with
  | EBin o l r _ =>
    no_zero_pow_zero l rho /\ no_zero_pow_zero r rho /\
    (o = OCaret -> ~ (denote l rho = Some 0 /\ denote r rho = Some 0))
  | _ => True
  end.

Lemma no_zero_pow_zero_safe : forall e rho v,
  denote e rho = Some v -> no_zero_pow_zero e rho -> pow_safe e rho.
Proof.
  induction e as [x|s|c|f i IH|o s IH|o s IH|op l IHl r IHr p]; intros rho v Hd Hs; try exact I.
  destruct (denote_bin_inv _ _ _ _ _ _ Hd) as (a & b & Hl & Hr & Hv).
  destruct Hs as (Hsl & Hsr & Hz).
  pose proof (IHl rho a Hl Hsl) as Pl. pose proof (IHr rho b Hr Hsr) as Pr.
  cbn [pow_safe]. split; [exact Pl|]. split; [exact Pr|].
  intros Ho E1 _ Hr0. apply (Hz Ho). split; [|exact Hr0].
  pose proof (foldS_sound l rho a Hl Pl) as Fl.
  apply is_num_R in E1. rewrite E1 in Fl. cbn in Fl. injection Fl as <-. exact Hl.
Qed.

(* ---- C19 -------------------------------------------------------------------------------- *)
Lemma c19_fold_sound_lemma : forall (e : expr R) (rho : env) (v : R),
  denote e rho = Some v -> pow_safe e rho ->
  exists e', fold_operations e = Ok e' /\ denote e' rho = Some v.
Proof.
  intros e rho v Hd Hs. exists (foldS e). split; [apply fold_operations_foldS|].
  apply foldS_sound; assumption.
Qed.

Lemma c19_fold_sound_no_zero_pow_zero_lemma : forall (e : expr R) (rho : env) (v : R),
  denote e rho = Some v -> no_zero_pow_zero e rho ->
  exists e', fold_operations e = Ok e' /\ denote e' rho = Some v.
Proof.
  intros e rho v Hd Hs. apply c19_fold_sound_lemma; [exact Hd|].
  apply (no_zero_pow_zero_safe e rho v Hd Hs).
Qed.

(* fold is the identity on the value of every tree without a power: no premise at all *)
Fixpoint no_caret (e : expr R) : Prop :=
  match e with
  | EBin o l r _ => o <> OCaret /\ no_caret l /\ no_caret r
  | _ => True
  end.
Lemma no_caret_safe e rho : no_caret e -> pow_safe e rho.
Proof.
  induction e as [x|s|c|f i IH|o s IH|o s IH|op l IHl r IHr p]; intros H; try exact I.
  destruct H as (Ho & Hl & Hr). cbn [pow_safe]. split; [auto|]. split; [auto|]. intros E. contradiction.
Qed.

(* REFUTATION of the unrestricted statement: 0^x at x = 0.  The unfolded tree has the value 1
   (0^0 = 1, as the code's own rule _^0 = 1 has it), the folded tree is the number 0. *)
Definition var_x : str := [120%N].
Lemma c19_fold_refuted_lemma :
  exists (e e' : expr R) (rho : env) (v : R),
    denote e rho = Some v /\ fold_operations e = Ok e' /\ denote e' rho <> Some v.
Proof.
  exists (EBin OCaret (ENum 0) (EVar var_x) false), (ENum 0), (fun _ => 0), 1.
  split; [|split].
  - cbn [denote obind bin_val]. apply pow_val_0_r.
  - rewrite fold_operations_foldS. cbn [foldS is_num n0 n1 neqb RNum].
    destruct (Reqb 0 0) eqn:E; [reflexivity|]. apply Reqb_false in E. contradiction.
  - cbn [denote]. intros H. injection H as H. lra.
Qed.
