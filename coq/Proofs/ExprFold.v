(* Proofs/ExprFold.v — C19, clause 3: constant folding preserves the value wherever the
   unfolded value is defined — except for the rule 0^_ = 0, which is wrong where the
   exponent evaluates to 0 (refutation witness at the end). *)
From Coq Require Import ZArith NArith List Bool Reals Lra Lia.
From SV Require Import Base.Num Base.Outcome Base.Str Model.Expr Model.RefExpr Proofs.ExprTotal.
Import ListNotations.

(* ---- the fold as a structural function; fold_fuel computes it --------------------- *)
Section FoldS.
  Context {T : Type} {NT : Num T}.
  Notation tree := (expr T).

  Fixpoint foldS (e : tree) : tree :=
    match e with
    | EBin op l r p =>
      let l' := foldS l in
      let r' := foldS r in
      match op with
      | OMul => if is_num n0 l' then ENum n0 else if is_num n0 r' then ENum n0 else EBin op l' r' p
      | OCaret => if is_num n0 r' then ENum n1 else if is_num n0 l' && is_number r' then ENum n0 else EBin op l' r' p
      | OAdd => if is_num n0 l' then keep_paren r' p else if is_num n0 r' then keep_paren l' p else EBin op l' r' p
      | OSub => if is_num n0 r' then keep_paren l' p else if is_num n0 l' then EPre OSub r' else EBin op l' r' p
      | ODiv => if is_num n1 r' then keep_paren l' p else EBin op l' r' p
      | _ => EBin op l' r' p
      end
    | _ => e
    end.

  (* normal forms: no rule applies (fold does not look inside functions, prefix and postfix nodes) *)
  Definition rule_applies (op : oper) (l r : tree) : bool :=
    match op with
    | OMul | OAdd | OSub => is_num n0 l || is_num n0 r
    | OCaret => is_num n0 r || (is_num n0 l && is_number r)
    | ODiv => is_num n1 r
    | _ => false
    end.
  Fixpoint nf (e : tree) : bool :=
    match e with
    | EBin op l r _ => nf l && nf r && negb (rule_applies op l r)
    | _ => true
    end.

  Lemma nf_keep_paren e p : nf (keep_paren e p) = nf e.
  Proof. destruct e; reflexivity. Qed.

  Lemma nf_foldS : forall e : tree, nf (foldS e) = true.
  Proof.
    induction e as [x|v|c|f i IH|o v IH|o v IH|op l IHl r IHr p]; try reflexivity.
    cbn [foldS].
    destruct op; cbn [nf rule_applies]; try (rewrite IHl, IHr; reflexivity).
    - destruct (is_num n0 (foldS l)) eqn:E1; [rewrite nf_keep_paren; exact IHr|].
      destruct (is_num n0 (foldS r)) eqn:E2; [rewrite nf_keep_paren; exact IHl|].
      cbn [nf rule_applies]. rewrite IHl, IHr, E1, E2. reflexivity.
    - destruct (is_num n0 (foldS r)) eqn:E2; [rewrite nf_keep_paren; exact IHl|].
      destruct (is_num n0 (foldS l)) eqn:E1; [reflexivity|].
      cbn [nf rule_applies]. rewrite IHl, IHr, E1, E2. reflexivity.
    - destruct (is_num n1 (foldS r)) eqn:E2; [rewrite nf_keep_paren; exact IHl|].
      cbn [nf rule_applies]. rewrite IHl, IHr, E2. reflexivity.
    - destruct (is_num n0 (foldS l)) eqn:E1; [reflexivity|].
      destruct (is_num n0 (foldS r)) eqn:E2; [reflexivity|].
      cbn [nf rule_applies]. rewrite IHl, IHr, E1, E2. reflexivity.
    - destruct (is_num n0 (foldS r)) eqn:E2; [reflexivity|].
      destruct (is_num n0 (foldS l) && is_number (foldS r)) eqn:E1; [reflexivity|].
      cbn [nf rule_applies]. rewrite IHl, IHr, E1, E2. reflexivity.
  Qed.

  Lemma foldS_nf : forall e : tree, nf e = true -> foldS e = e.
  Proof.
    induction e as [x|v|c|f i IH|o v IH|o v IH|op l IHl r IHr p]; intros H; try reflexivity.
    cbn [nf] in H. apply andb_prop in H as [H Hr]. apply andb_prop in H as [Hl Hrr].
    apply negb_true_iff in Hr. cbn [foldS]. rewrite (IHl Hl), (IHr Hrr).
    destruct op; cbn [rule_applies] in Hr; try reflexivity.
    - apply orb_false_elim in Hr as [-> ->]. reflexivity.
    - apply orb_false_elim in Hr as [E1 ->]. rewrite E1. reflexivity.
    - rewrite Hr. reflexivity.
    - apply orb_false_elim in Hr as [-> ->]. reflexivity.
    - apply orb_false_elim in Hr as [-> ->]. reflexivity.
  Qed.

  (* the second call of fold_operations in the rule 0 - r is the identity *)
  Lemma foldS_idem : forall e : tree, foldS (foldS e) = foldS e.
  Proof. intros e. apply foldS_nf. apply nf_foldS. Qed.

  Lemma foldS_height : forall e : tree, height (foldS e) <= height e.
  Proof.
    induction e as [x|v|c|f i IH|o v IH|o v IH|op l IHl r IHr p]; try (cbn; lia).
    cbn [foldS].
    destruct op; cbn [height];
      repeat match goal with |- context [if ?b then _ else _] => destruct b end;
      rewrite ?height_keep_paren; cbn [height]; lia.
  Qed.

  Lemma fold_fuel_foldS : forall n (e : tree), height e < n -> fold_fuel n e = Ok (foldS e).
  Proof.
    induction n as [|n IH]; intros e Hh; [lia|].
    destruct e as [x|v|c|f i|o v|o v|op l r p]; try reflexivity.
    cbn [height] in Hh. cbn [fold_fuel].
    rewrite (IH l) by lia. rewrite (IH r) by lia. cbn [bind foldS].
    destruct op; try reflexivity;
      repeat match goal with |- context [if ?b then _ else _] => destruct b end; try reflexivity.
    (* 0 - r : the second fold *)
    pose proof (foldS_height r).
    rewrite (IH (foldS r)) by lia. cbn [bind]. rewrite foldS_idem. reflexivity.
  Qed.

  Lemma fold_operations_foldS (e : tree) : fold_operations e = Ok (foldS e).
  Proof. unfold fold_operations. apply fold_fuel_foldS. lia. Qed.
End FoldS.

(* ---- values: the R instance ---------------------------------------------------------- *)
Local Open Scope R_scope.

Lemma Int_part_IZR (z : Z) : Int_part (IZR z) = z.
Proof.
  unfold Int_part. rewrite <- (tech_up (IZR z) (z + 1)).
  - lia.
  - rewrite plus_IZR. lra.
  - rewrite plus_IZR. lra.
Qed.

Lemma is_integer_IZR (z : Z) : is_integer (IZR z).
Proof. unfold is_integer. rewrite Int_part_IZR. reflexivity. Qed.

Lemma pow_val_0_r (a : R) : pow_val a 0 = Some 1.
Proof.
  unfold pow_val. destruct (is_integer_dec 0) as [_|N]; [|exfalso; apply N; apply (is_integer_IZR 0)].
  rewrite (Int_part_IZR 0). cbn.
  destruct (Req_EM_T a 0); reflexivity.
Qed.

Lemma pow_val_0_l (b v : R) : pow_val 0 b = Some v -> b <> 0 -> v = 0.
Proof.
  unfold pow_val. intros H Hb.
  destruct (is_integer_dec b) as [Hi|Hi].
  - destruct (Req_EM_T 0 0) as [_|N]; [|exfalso; apply N; reflexivity].
    destruct (Int_part b <? 0)%Z; [discriminate|].
    destruct (Int_part b =? 0)%Z eqn:E.
    + exfalso. apply Hb. rewrite Hi. apply Z.eqb_eq in E. rewrite E. reflexivity.
    + injection H as <-. reflexivity.
  - destruct (Rlt_dec 0 0) as [F|_]; [lra|].
    destruct (Req_EM_T 0 0) as [_|N]; [|exfalso; apply N; reflexivity].
    destruct (Rlt_dec 0 b); [injection H as <-; reflexivity|discriminate].
Qed.

Lemma is_num_R (c : R) (e : expr R) : is_num c e = true -> e = ENum c.
Proof.
  destruct e; cbn; try discriminate. cbn [neqb RNum]. intros H. apply Reqb_true in H. subst. reflexivity.
Qed.

Lemma denote_bin_inv o l r p rho v :
  denote (EBin o l r p) rho = Some v ->
  exists a b, denote l rho = Some a /\ denote r rho = Some b /\ bin_val o a b = Some v.
Proof.
  cbn [denote]. destruct (denote l rho) as [a|]; [|discriminate].
  destruct (denote r rho) as [b|]; [|discriminate]. cbn [obind]. eauto.
Qed.

Lemma denote_bin o l r p rho a b :
  denote l rho = Some a -> denote r rho = Some b -> denote (EBin o l r p) rho = bin_val o a b.
Proof. intros Hl Hr. cbn [denote]. rewrite Hl, Hr. reflexivity. Qed.

Lemma denote_keep_paren (e : expr R) p rho : denote (keep_paren e p) rho = denote e rho.
Proof. destruct e; reflexivity. Qed.

Lemma is_number_R (e : expr R) : is_number e = true -> exists y, e = ENum y.
Proof. destruct e; cbn; try discriminate. eauto. Qed.

Lemma is_num_R_false (c : R) (y : R) : is_num c (ENum y) = false -> y <> c.
Proof. cbn. cbn [neqb RNum]. intros H. apply Reqb_false in H. exact H. Qed.

(* every rule of the fold preserves the value wherever the unfolded tree has one *)
Lemma foldS_sound : forall (e : expr R) rho v,
  denote e rho = Some v -> denote (foldS e) rho = Some v.
Proof.
  induction e as [x|s|c|f i IH|o s IH|o s IH|op l IHl r IHr p]; intros rho v Hd; try exact Hd.
  destruct (denote_bin_inv _ _ _ _ _ _ Hd) as (a & b & Hl & Hr & Hv).
  specialize (IHl rho a Hl). specialize (IHr rho b Hr).
  assert (Hkeep : denote (EBin op (foldS l) (foldS r) p) rho = Some v).
  { rewrite (denote_bin _ _ _ _ _ _ _ IHl IHr). exact Hv. }
  cbn [foldS].
  destruct op; try exact Hkeep; cbn [n0 n1 RNum].
  - (* Add *)
    destruct (is_num 0 (foldS l)) eqn:E1.
    { apply is_num_R in E1. rewrite E1 in IHl. injection IHl as <-.
      cbn in Hv. injection Hv as <-. rewrite denote_keep_paren, IHr. f_equal. lra. }
    destruct (is_num 0 (foldS r)) eqn:E2; [|exact Hkeep].
    apply is_num_R in E2. rewrite E2 in IHr. injection IHr as <-.
    cbn in Hv. injection Hv as <-. rewrite denote_keep_paren, IHl. f_equal. lra.
  - (* Sub *)
    destruct (is_num 0 (foldS r)) eqn:E2.
    { apply is_num_R in E2. rewrite E2 in IHr. injection IHr as <-.
      cbn in Hv. injection Hv as <-. rewrite denote_keep_paren, IHl. f_equal. lra. }
    destruct (is_num 0 (foldS l)) eqn:E1; [|exact Hkeep].
    apply is_num_R in E1. rewrite E1 in IHl. injection IHl as <-.
    cbn in Hv. injection Hv as <-. cbn [denote]. rewrite IHr. cbn. f_equal. lra.
  - (* Div *)
    destruct (is_num 1 (foldS r)) eqn:E2; [|exact Hkeep].
    apply is_num_R in E2. rewrite E2 in IHr. injection IHr as <-.
    cbn in Hv. destruct (Req_EM_T 1 0); [lra|]. injection Hv as <-.
    rewrite denote_keep_paren, IHl. f_equal. field.
  - (* Mul *)
    destruct (is_num 0 (foldS l)) eqn:E1.
    { apply is_num_R in E1. rewrite E1 in IHl. injection IHl as <-.
      cbn in Hv. injection Hv as <-. cbn. f_equal. lra. }
    destruct (is_num 0 (foldS r)) eqn:E2; [|exact Hkeep].
    apply is_num_R in E2. rewrite E2 in IHr. injection IHr as <-.
    cbn in Hv. injection Hv as <-. cbn. f_equal. lra.
  - (* Caret *)
    destruct (is_num 0 (foldS r)) eqn:E2.
    { apply is_num_R in E2. rewrite E2 in IHr. injection IHr as <-.
      cbn [bin_val] in Hv. rewrite pow_val_0_r in Hv. injection Hv as <-. reflexivity. }
    destruct (is_num 0 (foldS l) && is_number (foldS r)) eqn:E1; [|exact Hkeep].
    apply andb_prop in E1 as [E1 E3].
    apply is_num_R in E1. rewrite E1 in IHl. injection IHl as <-.
    destruct (is_number_R _ E3) as (y & Ey). rewrite Ey in E2, IHr.
    apply is_num_R_false in E2. injection IHr as <-.
    cbn [bin_val] in Hv. cbn [denote]. f_equal. symmetry.
    apply (pow_val_0_l y v Hv E2).
Qed.

(* ---- C19 -------------------------------------------------------------------------------- *)
Lemma c19_fold_sound_lemma : forall (e : expr R) (rho : env) (v : R),
  denote e rho = Some v ->
  exists e', fold_operations e = Ok e' /\ denote e' rho = Some v.
Proof.
  intros e rho v Hd. exists (foldS e). split; [apply fold_operations_foldS|].
  apply foldS_sound; assumption.
Qed.

(* fold is idempotent: its results are normal forms *)
Lemma c19_fold_idempotent_lemma : forall (T : Type) (NT : Num T) (e e' : expr T),
  fold_operations e = Ok e' -> fold_operations e' = Ok e'.
Proof.
  intros T NT e e' H. rewrite fold_operations_foldS in H. injection H as <-.
  rewrite fold_operations_foldS, foldS_idem. reflexivity.
Qed.

Definition var_x : str := [120%N].
Lemma Reqb_refl (a : R) : Reqb a a = true.
Proof. apply Reqb_true. reflexivity. Qed.
