(* Proofs/DisplayFloat.v — float-level corollary for C17 (printed polynomials read back).

   A positive coefficient printed with `{:.p}` is the text of a decimal m * 10^-p (m > 0); the reader is [nofdec].
   For the binary64 instance ([FNum], nofdec = dec2float) the value read back is EXACTLY round_NE(m * 10^-p)
   (instance of Proofs.DecFloat.dec2float_correct), hence if the printed decimal is within 10^-p / 2 of a real x
   (the printer's rounding contract) and in the normal range, the re-read float is within
   10^-p / 2 + 2^-53 * (m * 10^-p) of x.  Negative coefficients: the sign is printed as '-' and applied by
   [PrimFloat.opp], which is exact (B2R (opp y) = - B2R y), so the same bound holds for |x|. *)
From Coq Require Import ZArith Reals Floats Lia Lra.
From Flocq Require Import Core BinarySingleNaN PrimFloat.
From SV Require Import Base.Num Proofs.DecFloat.
Local Open Scope R_scope.

Theorem float_reread_fixed (m : Z) (p : nat) :
  (0 < m)%Z ->
  Rabs (round radix2 (FLT_exp (-1074) 53) ZnearestE (dec_val m (- Z.of_nat p))) < bpow radix2 1024 ->
  is_finite (Prim2B (@nofdec PrimFloat.float FNum m (- Z.of_nat p))) = true /\
  B2R (Prim2B (@nofdec PrimFloat.float FNum m (- Z.of_nat p)))
    = round radix2 (FLT_exp (-1074) 53) ZnearestE (dec_val m (- Z.of_nat p)) /\
  forall x : R,
    bpow radix2 (-1022) <= dec_val m (- Z.of_nat p) ->
    Rabs (x - dec_val m (- Z.of_nat p)) <= powerRZ 10 (- Z.of_nat p) / 2 ->
    Rabs (B2R (Prim2B (@nofdec PrimFloat.float FNum m (- Z.of_nat p))) - x)
      <= powerRZ 10 (- Z.of_nat p) / 2 + bpow radix2 (-53) * dec_val m (- Z.of_nat p).
Proof.
  intros Hm Hov. change (@nofdec PrimFloat.float FNum) with dec2float.
  destruct (dec2float_correct m (- Z.of_nat p) Hm Hov) as [Hf Hr].
  split; [exact Hf|]. split; [exact Hr|].
  intros x Hn Hx.
  pose proof (dec2float_rel_error m (- Z.of_nat p) Hm Hov Hn) as He.
  set (y := B2R (Prim2B (dec2float m (- Z.of_nat p)))) in *.
  set (v := dec_val m (- Z.of_nat p)) in *.
  replace (y - x) with ((y - v) + (v - x)) by ring.
  eapply Rle_trans; [apply Rabs_triang|].
  rewrite (Rabs_minus_sym v x). lra.
Qed.

(* x = 0x1.999999999999ap-4 printed with {:.3} is "0.100", i.e. m = 100, p = 3: reading back gives fl(0.1) again *)
Lemma ex_reread_tenth :
  @nofdec PrimFloat.float FNum 100 (- Z.of_nat 3) = (0x1.999999999999ap-4)%float.
Proof. vm_compute. reflexivity. Qed.
