(* Proofs/GaussB.v — C08, second part: non-singular systems are accepted for every sufficiently
   small positive tolerance (the exact-arithmetic counterpart of "well-conditioned systems are
   never refused").

   Plan: run the elimination WITHOUT the tolerance test ([nt_step]) on the zero right-hand side.
   Along that path (invariant [InvZ]) every pivot chosen by scaled partial pivoting is non-zero:
   otherwise column k of the current effective system vanishes on and below the diagonal, back
   substitution on the leading k x k triangle builds a non-trivial vector x with (effective system) x = 0,
   and the invariant of Proofs/Gauss.v turns it into A x = 0.  A row with zero scale factor is a zero
   row and stays one, so the same argument covers it.  t0 is the smallest scaled pivot of that path;
   for tol <= t0 the real elimination follows the path for every right-hand side ([same_but_b]). *)
From Coq Require Import ZArith List Bool Arith Reals Lra Lia.
From SV Require Import Base.Num Base.Outcome Base.Mat Model.Subst Model.Gauss Proofs.Gauss.
Import ListNotations.
Local Open Scope R_scope.

Definition nonsing_r (n : nat) (A : mat R) : Prop :=
  forall x : vec R, (forall i, (i < n)%nat -> Rsum_n n (fun j => A i j * x j) = 0) ->
  forall j, (j < n)%nat -> x j = 0.
Definition nonsing_l (n : nat) (A : mat R) : Prop :=
  forall w : vec R, (forall j, (j < n)%nat -> Rsum_n n (fun i => w i * A i j) = 0) ->
  forall i, (i < n)%nat -> w i = 0.

Lemma Rabs_le0 (x : R) : Rabs x <= 0 -> x = 0.
Proof.
  intro H. destruct (Req_dec x 0) as [E|E]; [exact E|].
  pose proof (Rabs_pos_lt x E). lra.
Qed.

(* ---------------------------------------------------------------- scale factors *)
Lemma scale_row_ge n (a : mat R) i j : (0 < n)%nat -> (j < n)%nat -> Rabs (a i j) <= scale_row n a i.
Proof.
  intros Hn Hj. unfold scale_row.
  pose (P := fun (t : nat) (s : R) => forall j', (j' < t)%nat -> Rabs (a i j') <= s).
  assert (HP : P (1 + (n - 1))%nat
            (for_range 1 (n - 1) (fun j s => if ngtb (nabs (a i j)) s then nabs (a i j) else s) (nabs (a i 0%nat)))).
  { apply (for_range_inv P).
    - intros j' Hj'. assert (j' = 0%nat) by lia. subst j'. cbn [nabs RNum]. lra.
    - intros t s Ht HP j' Hj'. unfold ngtb. cbn [nltb nabs RNum].
      destruct (Rltb s (Rabs (a i t))) eqn:E.
      + apply Rltb_true in E. destruct (Nat.eq_dec j' t) as [->|N]; [lra|].
        specialize (HP j' ltac:(lia)). lra.
      + apply Rltb_false in E. destruct (Nat.eq_dec j' t) as [->|N]; [exact E|].
        apply HP. lia. }
  apply HP. lia.
Qed.

Lemma scale_zero_row n (A : mat R) i : (0 < n)%nat -> (i < n)%nat -> scale_vec n A i = 0 ->
  forall j, (j < n)%nat -> A i j = 0.
Proof.
  intros Hn Hi H j Hj. unfold scale_vec in H. rewrite vretab_spec in H by exact Hi.
  apply Rabs_le0. rewrite <- H. apply scale_row_ge; assumption.
Qed.

(* ---------------------------------------------------------------- the pivot is the scaled column maximum *)
Lemma pivot_search_max n (a : mat R) (s : vec R) k : (k < n)%nat ->
  forall i, (k <= i < n)%nat ->
    Rabs (a i k / s i) <= Rabs (a (pivot_row n a s k) k / s (pivot_row n a s k)).
Proof.
  intros Hk.
  pose (P := fun (t : nat) (bp : R * nat) =>
    fst bp = Rabs (a (snd bp) k / s (snd bp)) /\
    forall i, (k <= i < t)%nat -> Rabs (a i k / s i) <= fst bp).
  assert (HP : P (S k + (n - S k))%nat (pivot_search n a s k)).
  { unfold pivot_search. apply (for_range_inv P).
    - split; [reflexivity|]. intros i Hi. assert (i = k) by lia. subst i. cbn [fst nabs ndiv RNum]. lra.
    - intros ii bp Hii [E1 E2]. cbv zeta. unfold ngtb. cbn [nltb nabs ndiv RNum].
      destruct (Rltb (fst bp) (Rabs (a ii k / s ii))) eqn:E.
      + apply Rltb_true in E. split; [reflexivity|]. cbn [fst]. intros i Hi.
        destruct (Nat.eq_dec i ii) as [->|N]; [lra|]. specialize (E2 i ltac:(lia)). lra.
      + apply Rltb_false in E. split; [exact E1|]. intros i Hi.
        destruct (Nat.eq_dec i ii) as [->|N]; [exact E|]. apply E2. lia. }
  replace (S k + (n - S k))%nat with n in HP by lia.
  destruct HP as [E1 E2]. intros i Hi. unfold pivot_row. rewrite <- E1. apply E2. exact Hi.
Qed.

Lemma partial_pivot_full n (a : mat R) (b s : vec R) k : (k < n)%nat ->
  exists p, (k <= p < n)%nat /\
    (forall i j, fst (fst (partial_pivot n a b s k)) i j = mswap_rows a p k i j) /\
    (forall i, snd (fst (partial_pivot n a b s k)) i = vswap b p k i) /\
    (forall i, snd (partial_pivot n a b s k) i = vswap s p k i) /\
    (forall i, (k <= i < n)%nat -> Rabs (a i k / s i) <= Rabs (a p k / s p)).
Proof.
  intros Hk. exists (pivot_row n a s k). split; [apply pivot_row_range; exact Hk|].
  split; [|split; [|split]].
  - unfold partial_pivot. destruct (Nat.eqb_spec (pivot_row n a s k) k) as [E|E]; cbn [fst snd].
    + rewrite E. intros; unfold mswap_rows; bdestr; subst; reflexivity.
    + reflexivity.
  - unfold partial_pivot. destruct (Nat.eqb_spec (pivot_row n a s k) k) as [E|E]; cbn [fst snd].
    + rewrite E. intros; unfold vswap; bdestr; subst; reflexivity.
    + reflexivity.
  - unfold partial_pivot. destruct (Nat.eqb_spec (pivot_row n a s k) k) as [E|E]; cbn [fst snd].
    + rewrite E. intros; unfold vswap; bdestr; subst; reflexivity.
    + reflexivity.
  - apply pivot_search_max. exact Hk.
Qed.

(* ---------------------------------------------------------------- the elimination without the tolerance test *)
Definition nt_step (n k : nat) (st : @fstate R) : @fstate R :=
  let '(a1, b1, s1) := partial_pivot n (fa st) (fb st) (fs st) k in
  let ab := elim_below n k a1 b1 in
  mkf (retab n n (fst ab)) (vretab n (snd ab)) (vretab n s1) false.

(* the scaled pivot the code compares with the tolerance at step k *)
Definition piv (n k : nat) (st : @fstate R) : R :=
  let '(a1, _, s1) := partial_pivot n (fa st) (fb st) (fs st) k in Rabs (a1 k k / s1 k).

Lemma fe_step_eq_nt n tol k (st : @fstate R) : fflag st = false -> tol <= piv n k st ->
  fe_step n tol k st = nt_step n k st.
Proof.
  intros Hf Ht. unfold fe_step, nt_step, piv in *. rewrite Hf.
  destruct (partial_pivot n (fa st) (fb st) (fs st) k) as [[a1 b1] s1].
  cbn [nltb nabs ndiv RNum]. rewrite (proj2 (Rltb_false _ _) Ht). reflexivity.
Qed.

Lemma nt_step_flag n k st : fflag (nt_step n k st) = false.
Proof. unfold nt_step. destruct (partial_pivot _ _ _ _ _) as [[a1 b1] s1]. reflexivity. Qed.

Lemma piv_indep n k st st' : same_but_b st st' -> piv n k st = piv n k st'.
Proof.
  destruct st as [a b s fl], st' as [a' b' s' fl']. unfold same_but_b. cbn [fa fs fflag].
  intros [<- [<- _]]. unfold piv, partial_pivot. cbn [fa fb fs].
  destruct (pivot_row n a s k =? k)%nat; reflexivity.
Qed.

Lemma nt_step_indep n k st st' : fflag st = false -> same_but_b st st' ->
  same_but_b (nt_step n k st) (nt_step n k st').
Proof.
  intros Hf H. assert (Hf' : fflag st' = false) by (destruct H as [_ [_ E]]; congruence).
  rewrite <- (fe_step_eq_nt n (piv n k st) k st Hf (Rle_refl _)).
  rewrite <- (fe_step_eq_nt n (piv n k st) k st' Hf') by (rewrite (piv_indep n k st st' H); apply Rle_refl).
  apply fe_step_indep. exact H.
Qed.

(* ---------------------------------------------------------------- invariant of the zero right-hand-side path *)
Definition zero_vec : vec R := fun _ => 0.

Definition InvZ (n : nat) (A : mat R) (k : nat) (st : @fstate R) : Prop :=
  fflag st = false /\
  Inv n A zero_vec k (fa st) (fb st) /\
  (forall i, (i < n)%nat -> fb st i = 0) /\
  (forall i, (i < n)%nat -> fs st i = 0 -> forall j, (j < n)%nat -> fa st i j = 0).

(* a column that vanishes on and below the diagonal yields a non-trivial null vector of A *)
Lemma zero_col_singular n (A : mat R) k st : nonsing_r n A -> (k < n)%nat -> InvZ n A k st ->
  (forall i, (k <= i < n)%nat -> fa st i k = 0) -> False.
Proof.
  intros Hns Hk [_ [[HI1 HI2] [Hb _]]] Hcol.
  set (a := fa st) in *.
  assert (Hx : exists x' : vec R, forall i, (i < k)%nat ->
             Rsum_n k (fun j => (if (j <? i)%nat then 0 else a i j) * x' j) = - a i k).
  { destruct k as [|k'].
    - exists zero_vec. intros i Hi. lia.
    - destruct (back_substitution_solves a (S k') (fun i => - a i (S k')) zero_vec ltac:(lia) HI2) as [x' [_ H]].
      exists x'. exact H. }
  destruct Hx as [x' Hx'].
  set (x := fun j => if (j <? k)%nat then x' j else if (j =? k)%nat then 1 else 0).
  assert (Hsol : esolves n k a (fb st) x).
  { intros i Hi. rewrite (Hb i Hi).
    destruct (Nat.ltb_spec i k) as [L|L].
    - rewrite (Rsum_n_ext _ _ (fun j =>
        (if (j <? k)%nat then (if (j <? i)%nat then 0 else a i j) * x' j else 0)
        + (if (j =? k)%nat then a i k else 0))).
      + rewrite Rsum_n_plus, Rsum_n_trunc, Rsum_n_delta by lia. rewrite (Hx' i L). ring.
      + intros j Hj. unfold eff, x. bdestr; try lia; subst; ring.
    - rewrite (Rsum_n_ext _ _ (fun j => if (j =? k)%nat then a i k else 0)).
      + rewrite Rsum_n_delta by lia. apply Hcol. lia.
      + intros j Hj. unfold eff, x. bdestr; try lia; subst; ring. }
  pose proof (Hns x (HI1 x Hsol) k Hk) as E. unfold x in E.
  destruct (Nat.ltb_spec k k) as [|_]; [lia|]. rewrite Nat.eqb_refl in E. lra.
Qed.

(* the scaled pivot chosen at step k is positive *)
Lemma piv_pos n (A : mat R) k st : nonsing_r n A -> (k < n)%nat -> InvZ n A k st -> 0 < piv n k st.
Proof.
  intros Hns Hk HZ. pose proof HZ as [_ [_ [_ Hz]]].
  unfold piv.
  destruct (partial_pivot_full n (fa st) (fb st) (fs st) k Hk) as [p [Hp [SA [_ [SS Hmax]]]]].
  destruct (partial_pivot n (fa st) (fb st) (fs st) k) as [[a1 b1] s1]. cbn [fst snd] in SA, SS.
  assert (Ea : a1 k k = fa st p k) by (rewrite SA; unfold mswap_rows; bdestr; subst; congruence).
  assert (Es : s1 k = fs st p) by (rewrite SS; unfold vswap; bdestr; subst; congruence).
  assert (Hpiv : fa st p k <> 0).
  { intro E0. apply (zero_col_singular n A k st Hns Hk HZ).
    intros i Hi. specialize (Hmax i Hi). rewrite E0, Rabs_div_zero in Hmax.
    apply Rabs_le0 in Hmax. unfold Rdiv in Hmax.
    destruct (Rmult_integral _ _ Hmax) as [Z|Z]; [exact Z|].
    apply Hz; try lia.
    destruct (Req_dec (fs st i) 0) as [Z0|Z0]; [exact Z0|].
    exfalso. exact (Rinv_neq_0_compat _ Z0 Z). }
  assert (Hs : fs st p <> 0).
  { intro E0. apply Hpiv. apply Hz; try lia. exact E0. }
  rewrite Ea, Es. apply Rabs_pos_lt. unfold Rdiv.
  apply Rmult_integral_contrapositive_currified; [exact Hpiv|apply Rinv_neq_0_compat; exact Hs].
Qed.

Lemma nt_step_invZ n (A : mat R) k st : nonsing_r n A -> (S k < n)%nat -> InvZ n A k st ->
  InvZ n A (S k) (nt_step n k st).
Proof.
  intros Hns Hk HZ.
  assert (Hkn : (k < n)%nat) by lia.
  pose proof (piv_pos n A k st Hns Hkn HZ) as Hq.
  destruct HZ as [Hf [HI [Hb Hz]]].
  split; [apply nt_step_flag|]. split.
  - rewrite <- (fe_step_eq_nt n (piv n k st) k st Hf (Rle_refl _)).
    apply fe_step_inv; try assumption.
    rewrite (fe_step_eq_nt n (piv n k st) k st Hf (Rle_refl _)). apply nt_step_flag.
  - unfold nt_step.
    destruct (partial_pivot_full n (fa st) (fb st) (fs st) k Hkn) as [p [Hp [SA [SB [SS _]]]]].
    destruct (partial_pivot n (fa st) (fb st) (fs st) k) as [[a1 b1] s1]. cbn [fst snd] in SA, SB, SS.
    destruct (elim_below_spec n k a1 b1 Hkn) as [EA EB].
    cbn [fa fb fs].
    assert (Hb1 : forall i, (i < n)%nat -> b1 i = 0).
    { intros i Hi. rewrite SB. unfold vswap. bdestr; apply Hb; lia. }
    split.
    + intros i Hi. rewrite vretab_spec by exact Hi. rewrite EB.
      destruct ((S k <=? i)%nat && (i <? n)%nat); rewrite ?Hb1 by lia; ring.
    + intros i Hi Hs j Hj. rewrite vretab_spec in Hs by exact Hi. rewrite retab_spec by assumption.
      assert (R1 : forall j', (j' < n)%nat -> a1 i j' = 0).
      { intros j' Hj'. rewrite SA. rewrite SS in Hs. unfold mswap_rows. unfold vswap in Hs.
        destruct (Nat.eqb_spec i p); [apply Hz; try lia; exact Hs|].
        destruct (Nat.eqb_spec i k); apply Hz; try lia; exact Hs. }
      rewrite EA.
      destruct ((S k <=? i)%nat && (i <? n)%nat && (S k <=? j)%nat && (j <? n)%nat);
        rewrite ?R1 by lia; unfold Rdiv; ring.
Qed.

(* ---------------------------------------------------------------- the path and the threshold t0 *)
Definition zpath (n : nat) (A : mat R) (k : nat) : @fstate R :=
  for_range 0 k (nt_step n) (mkf A zero_vec (scale_vec n A) false).

Lemma zpath_S n A k : zpath n A (S k) = nt_step n k (zpath n A k).
Proof. unfold zpath. rewrite for_range_S. reflexivity. Qed.

Lemma zpath_invZ n (A : mat R) k : (0 < n)%nat -> nonsing_r n A -> (k <= n - 1)%nat ->
  InvZ n A k (zpath n A k).
Proof.
  intros Hn Hns. induction k as [|k IH]; intro Hk.
  - unfold zpath. cbn [for_range]. split; [reflexivity|]. cbn [fa fb fs]. split; [apply Inv_init|].
    split; [reflexivity|]. intros i Hi Hs j Hj. apply (scale_zero_row n A i Hn Hi Hs j Hj).
  - rewrite zpath_S. apply nt_step_invZ; [exact Hns|lia|apply IH; lia].
Qed.

Fixpoint Rmin_n (m : nat) (f : nat -> R) : R :=
  match m with O => 1 | S m' => Rmin (Rmin_n m' f) (f m') end.
Lemma Rmin_n_pos m f : (forall k, (k < m)%nat -> 0 < f k) -> 0 < Rmin_n m f.
Proof.
  induction m as [|m IH]; intro H; cbn [Rmin_n]; [lra|].
  apply Rmin_glb_lt; [apply IH; intros; apply H; lia|apply H; lia].
Qed.
Lemma Rmin_n_le m f k : (k < m)%nat -> Rmin_n m f <= f k.
Proof.
  induction m as [|m IH]; intro H; [lia|]. cbn [Rmin_n].
  destruct (Nat.eq_dec k m) as [->|N]; [apply Rmin_r|].
  eapply Rle_trans; [apply Rmin_l|apply IH; lia].
Qed.

Definition qlast (n : nat) (A : mat R) : R :=
  let st := zpath n A (n - 1) in Rabs (fa st (n - 1)%nat (n - 1)%nat / fs st (n - 1)%nat).
Definition t0_of (n : nat) (A : mat R) : R :=
  Rmin (Rmin_n (n - 1) (fun k => piv n k (zpath n A k))) (qlast n A).

Lemma qlast_pos n (A : mat R) : (0 < n)%nat -> nonsing_r n A -> 0 < qlast n A.
Proof.
  intros Hn Hns. unfold qlast. cbv zeta.
  pose proof (zpath_invZ n A (n - 1) Hn Hns (le_n _)) as HZ. pose proof HZ as [_ [_ [_ Hz]]].
  set (st := zpath n A (n - 1)) in *.
  assert (Hpiv : fa st (n - 1)%nat (n - 1)%nat <> 0).
  { intro E0. apply (zero_col_singular n A (n - 1) st Hns ltac:(lia) HZ).
    intros i Hi. assert (i = (n - 1)%nat) by lia. subst i. exact E0. }
  assert (Hs : fs st (n - 1)%nat <> 0).
  { intro E0. apply Hpiv. apply Hz; try lia. exact E0. }
  apply Rabs_pos_lt. unfold Rdiv.
  apply Rmult_integral_contrapositive_currified; [exact Hpiv|apply Rinv_neq_0_compat; exact Hs].
Qed.

Lemma t0_pos n (A : mat R) : (0 < n)%nat -> nonsing_r n A -> 0 < t0_of n A.
Proof.
  intros Hn Hns. unfold t0_of. apply Rmin_glb_lt; [|apply qlast_pos; assumption].
  apply Rmin_n_pos. intros k Hk. apply (piv_pos n A k); [exact Hns|lia|].
  apply zpath_invZ; [exact Hn|exact Hns|lia].
Qed.

(* for tol <= t0 the real elimination follows the path, whatever the right-hand side *)
Lemma real_path n (A : mat R) (b : vec R) tol k : tol <= t0_of n A -> (k <= n - 1)%nat ->
  same_but_b (for_range 0 k (fe_step n tol) (mkf A b (scale_vec n A) false)) (zpath n A k).
Proof.
  intros Ht. induction k as [|k IH]; intro Hk.
  - unfold zpath. cbn [for_range]. repeat split.
  - rewrite for_range_S, zpath_S. cbn [Nat.add].
    specialize (IH ltac:(lia)).
    set (R := for_range 0 k (fe_step n tol) (mkf A b (scale_vec n A) false)) in *.
    assert (Hf : fflag R = false).
    { destruct IH as [_ [_ E]]. rewrite E. unfold zpath.
      destruct k; [reflexivity|]. rewrite for_range_S. apply nt_step_flag. }
    rewrite fe_step_eq_nt; [apply nt_step_indep; assumption|exact Hf|].
    rewrite (piv_indep n k R (zpath n A k) IH).
    eapply Rle_trans; [exact Ht|]. unfold t0_of.
    eapply Rle_trans; [apply Rmin_l|].
    apply (Rmin_n_le (n - 1) (fun k => piv n k (zpath n A k)) k). lia.
Qed.

Lemma forward_elimination_accepts n (A : mat R) (b : vec R) tol : (0 < n)%nat ->
  tol <= t0_of n A -> fflag (forward_elimination n tol A b (scale_vec n A)) = false.
Proof.
  intros Hn Ht. unfold forward_elimination. cbv zeta.
  destruct (real_path n A b tol (n - 1) Ht (le_n _)) as [EA [ES EF]].
  set (R := for_range 0 (n - 1) (fe_step n tol) (mkf A b (scale_vec n A) false)) in *.
  assert (Hf : fflag R = false).
  { rewrite EF. unfold zpath. destruct (n - 1)%nat; [reflexivity|]. rewrite for_range_S. apply nt_step_flag. }
  rewrite Hf. rewrite EA, ES.
  assert (Hq : tol <= qlast n A) by (eapply Rle_trans; [exact Ht|apply Rmin_r]).
  unfold qlast in Hq. cbv zeta in Hq. cbn [nltb nabs ndiv RNum].
  rewrite (proj2 (Rltb_false _ _) Hq). exact Hf.
Qed.

(* an unflagged elimination ends in a solvable triangular system whose solution solves A x = b
   (the core of c08_solves, for an arbitrary scale vector) *)
Lemma fe_solves n tol (A : mat R) (b s : vec R) : 0 < tol -> (0 < n)%nat ->
  fflag (forward_elimination n tol A b s) = false ->
  exists x, forall i, (i < n)%nat -> Rsum_n n (fun j => A i j * x j) = b i.
Proof.
  intros Ht Hn Hfl.
  destruct (forward_elimination_unflagged n tol A b s Hfl) as [EF [Hfl2 Hlast]].
  set (st := for_range 0 (n - 1) (fe_step n tol) (mkf A b s false)) in *.
  destruct (fe_loop_inv n tol A b s Ht Hn Hfl2) as [HI1 HI2]. fold st in HI1, HI2.
  assert (Hd : forall i, (i < n)%nat -> fa st i i <> 0).
  { intros i Hi. destruct (Nat.eq_dec i (n - 1)) as [E|E].
    - subst i. exact (pivot_test_nonzero _ _ _ Ht Hlast).
    - apply HI2. lia. }
  destruct (back_substitution_solves (fa st) n (fb st) (vconst n0) Hn Hd) as [x [_ Hx]].
  exists x. apply HI1. intros i Hi. rewrite <- (Hx i Hi).
  apply Rsum_n_ext. intros j Hj. unfold eff. bdestr; try lia; reflexivity.
Qed.

Lemma has_zero_false n (A : mat R) : (0 < n)%nat -> nonsing_r n A -> has_zero n (scale_vec n A) = false.
Proof.
  intros Hn Hns. unfold has_zero.
  destruct (existsb _ _) eqn:E; [exfalso|reflexivity].
  apply existsb_exists in E. destruct E as [i0 [Hin Hz]].
  apply in_seq in Hin. cbn [neqb n0 RNum] in Hz. apply Reqb_true in Hz.
  assert (Hi0 : (i0 < n)%nat) by lia.
  pose proof (scale_zero_row n A i0 Hn Hi0 Hz) as Hrow.
  pose proof (t0_pos n A Hn Hns) as Hp.
  destruct (fe_solves n (t0_of n A) A (fun i => if (i =? i0)%nat then 1 else 0) (scale_vec n A) Hp Hn
              (forward_elimination_accepts n A _ (t0_of n A) Hn (Rle_refl _))) as [x Hx].
  specialize (Hx i0 Hi0). rewrite Nat.eqb_refl in Hx.
  rewrite Rsum_n_zero in Hx; [lra|]. intros j Hj. rewrite Hrow by exact Hj. ring.
Qed.

(* ---------------------------------------------------------------- the theorems *)
Lemma c08_nonsingular_accepted_r : forall (n : nat) (A : mat R), (0 < n)%nat ->
  (forall x : vec R, (forall i, (i < n)%nat -> Rsum_n n (fun j => A i j * x j) = 0) ->
                     forall j, (j < n)%nat -> x j = 0) ->
  exists t0, 0 < t0 /\ forall tol, 0 < tol <= t0 -> forall b : vec R, exists x, ge n n A n b tol = Ok x.
Proof.
  intros n A Hn Hns. exists (t0_of n A). split; [apply t0_pos; assumption|].
  intros tol [Ht1 Ht2] b. unfold ge. rewrite Nat.eqb_refl. cbn [negb].
  destruct (Nat.eqb_spec n 0) as [E|E]; [lia|].
  rewrite (has_zero_false n A Hn Hns), (forward_elimination_accepts n A b tol Hn Ht2).
  destruct n as [|m]; [lia|]. eexists. reflexivity.
Qed.

(* no left null vector => no right null vector, through the transpose and the two solver theorems *)
Lemma nonsing_l_r n (A : mat R) : (0 < n)%nat -> nonsing_l n A -> nonsing_r n A.
Proof.
  intros Hn Hl x Hx j0 Hj0.
  destruct (Req_dec (x j0) 0) as [E|E]; [exact E|exfalso].
  assert (Hr : nonsing_r n (mtranspose A)).
  { intros w Hw. apply Hl. intros j Hj. rewrite <- (Hw j Hj).
    apply Rsum_n_ext. intros i Hi. unfold mtranspose. ring. }
  destruct (c08_nonsingular_accepted_r n (mtranspose A) Hn Hr) as [t0 [Ht0 Hacc]].
  destruct (Hacc t0 ltac:(lra) zero_vec) as [y Hy].
  assert (Hsing : ge n n (mtranspose A) n zero_vec t0 = Err ESingularMatrix).
  { apply c08_singular_refused; [exact Ht0|]. exists x. split; [exists j0; split; assumption|].
    intros j Hj. rewrite <- (Hx j Hj). apply Rsum_n_ext. intros i Hi. unfold mtranspose. ring. }
  congruence.
Qed.

Lemma c08_nonsingular_accepted : forall (n : nat) (A : mat R), (0 < n)%nat ->
  (forall w : vec R, (forall j, (j < n)%nat -> Rsum_n n (fun i => w i * A i j) = 0) ->
                     forall i, (i < n)%nat -> w i = 0) ->
  exists t0, 0 < t0 /\ forall tol, 0 < tol <= t0 -> forall b : vec R, exists x, ge n n A n b tol = Ok x.
Proof.
  intros n A Hn Hl. apply c08_nonsingular_accepted_r; [exact Hn|].
  exact (nonsing_l_r n A Hn Hl).
Qed.

(* non-vacuity: the 2x2 identity has no non-trivial left null vector *)
Lemma ex_identity_nonsingular : forall w : vec R,
  (forall j, (j < 2)%nat -> Rsum_n 2 (fun i => w i * (if (i =? j)%nat then 1 else 0)) = 0) ->
  forall i, (i < 2)%nat -> w i = 0.
Proof.
  intros w H i Hi.
  pose proof (H 0%nat ltac:(lia)) as H0. pose proof (H 1%nat ltac:(lia)) as H1.
  cbn in H0, H1. destruct i as [|[|i]]; [lra|lra|lia].
Qed.

Lemma ex_identity_accepted : exists t0, 0 < t0 /\ forall tol, 0 < tol <= t0 ->
  forall b : vec R, exists x, ge 2 2 (fun i j => if (i =? j)%nat then 1 else 0) 2 b tol = Ok x.
Proof. apply c08_nonsingular_accepted; [lia|exact ex_identity_nonsingular]. Qed.
