(* Proofs/QuadError.v — the error clause of C05 for EVERY four times differentiable
   integrand (hence every polynomial degree):
     |definite_integral f a b n - integral| <= |b-a| h^4 M / 80,   M >= |f4| on [a,b],
   f4 the fourth derivative, for every n >= 2 (even, odd, 3) and every interval
   (reversed, empty).  Route: the classical auxiliary functions.  For the 1/3 rule on
   [m-t, m+t]
     G(t) = F(m+t) - F(m-t) - t/3 (f(m-t) + 4 f(m) + f(m+t)),   F the antiderivative,
   G(0) = G1(0) = G2(0) = 0 and G3(t) = -(t/3)(f3(m+t) - f3(m-t)) (Gi, fi the i-th
   derivatives), so |G3(t)| <= (2M/3) t^2 by the mean value theorem and three
   integrations ([growth_bound]) give |G(h)| <= M h^5 / 90.  For the 3/8 rule on
   [c-3t/2, c+3t/2] the analogous H has H(0) = .. = H3(0) = 0 and |H4(t)| <= (9/2) M t,
   whence |H(h)| <= 3 M h^5 / 80.  Both are odd in t, which covers reversed intervals.
   The composite bookkeeping is the one of Proofs/QuadSimpson.v with inequalities. *)
From Coq Require Import ZArith NArith List Reals Lra Lia.
From Coquelicot Require Import Coquelicot.
From SV Require Import Base.Num Base.Outcome Model.Poly Model.Quad Proofs.Quad Proofs.QuadSimpson.
Import ListNotations.
Local Open Scope R_scope.

Lemma is_derive_cont (f df : R -> R) x : is_derive f x (df x) -> continuity_pt f x.
Proof.
  intro H. apply continuity_pt_filterlim. apply (ex_derive_continuous f x). exists (df x). exact H.
Qed.

Lemma growth_bound (phi dphi : R -> R) (c : R) (k : nat) (h : R) :
  (forall t, is_derive phi t (dphi t)) ->
  phi 0 = 0 ->
  (forall t, 0 <= t <= h -> Rabs (dphi t) <= c * t ^ k) ->
  forall t, 0 <= t <= h -> Rabs (phi t) <= c / INR (S k) * t ^ S k.
Proof.
  intros Hd H0 Hb t [Ht0 Hth].
  assert (Hk : 0 < INR (S k)) by (apply lt_0_INR; lia).
  destruct (Req_dec t 0) as [->|Hne].
  - rewrite H0, Rabs_R0. rewrite pow_i by lia. lra.
  - assert (Htpos : 0 < t) by lra.
    (* upper *)
    assert (Hup : phi t <= c / INR (S k) * t ^ S k).
    { destruct (MVT_gen (fun s => phi s - c / INR (S k) * s ^ S k) 0 t
                  (fun s => dphi s - c / INR (S k) * (INR (S k) * s ^ k))) as (xi & Hxi & Heq).
      - intros x _. auto_derive.
        + exists (dphi x). apply Hd.
        + assert (HD : Derive (fun x0 : R => phi x0) x = dphi x) by (apply is_derive_unique; apply Hd).
          rewrite HD.
          change (match k with | 0%nat => 1 | S _ => INR k + 1 end) with (INR (S k)). ring.
      - intros x _. apply (is_derive_cont _ (fun s => dphi s - c / INR (S k) * (INR (S k) * s ^ k))).
        auto_derive.
        + exists (dphi x). apply Hd.
        + assert (HD : Derive (fun x0 : R => phi x0) x = dphi x) by (apply is_derive_unique; apply Hd).
          rewrite HD.
          change (match k with | 0%nat => 1 | S _ => INR k + 1 end) with (INR (S k)). ring.
      - rewrite Rmin_left, Rmax_right in Hxi by lra.
        cbv beta in Heq. rewrite H0 in Heq. rewrite (pow_i (S k)) in Heq by lia.
        assert (Hxb : Rabs (dphi xi) <= c * xi ^ k) by (apply Hb; lra).
        apply Rabs_le_between in Hxb.
        assert (Hd0 : dphi xi - c / INR (S k) * (INR (S k) * xi ^ k) <= 0).
        { replace (c / INR (S k) * (INR (S k) * xi ^ k)) with (c * xi ^ k) by (field; lra). lra. }
        nra. }
    assert (Hlo : - (c / INR (S k) * t ^ S k) <= phi t).
    { destruct (MVT_gen (fun s => phi s + c / INR (S k) * s ^ S k) 0 t
                  (fun s => dphi s + c / INR (S k) * (INR (S k) * s ^ k))) as (xi & Hxi & Heq).
      - intros x _. auto_derive.
        + exists (dphi x). apply Hd.
        + assert (HD : Derive (fun x0 : R => phi x0) x = dphi x) by (apply is_derive_unique; apply Hd).
          rewrite HD.
          change (match k with | 0%nat => 1 | S _ => INR k + 1 end) with (INR (S k)). ring.
      - intros x _. apply (is_derive_cont _ (fun s => dphi s + c / INR (S k) * (INR (S k) * s ^ k))).
        auto_derive.
        + exists (dphi x). apply Hd.
        + assert (HD : Derive (fun x0 : R => phi x0) x = dphi x) by (apply is_derive_unique; apply Hd).
          rewrite HD.
          change (match k with | 0%nat => 1 | S _ => INR k + 1 end) with (INR (S k)). ring.
      - rewrite Rmin_left, Rmax_right in Hxi by lra.
        cbv beta in Heq. rewrite H0 in Heq. rewrite (pow_i (S k)) in Heq by lia.
        assert (Hxb : Rabs (dphi xi) <= c * xi ^ k) by (apply Hb; lra).
        apply Rabs_le_between in Hxb.
        assert (Hd0 : 0 <= dphi xi + c / INR (S k) * (INR (S k) * xi ^ k)).
        { replace (c / INR (S k) * (INR (S k) * xi ^ k)) with (c * xi ^ k) by (field; lra). lra. }
        nra. }
    apply Rabs_le. lra.
Qed.

Section P.
  Variables F f f1 f2 f3 f4 : R -> R.
  Hypothesis HF : forall x, is_derive F x (f x).
  Hypothesis H0 : forall x, is_derive f x (f1 x).
  Hypothesis H1 : forall x, is_derive f1 x (f2 x).
  Hypothesis H2 : forall x, is_derive f2 x (f3 x).
  Hypothesis H3 : forall x, is_derive f3 x (f4 x).

  Lemma exF x : ex_derive (fun y : R => F y) x. Proof. exists (f x). apply HF. Qed.
  Lemma ex0 x : ex_derive (fun y : R => f y) x. Proof. exists (f1 x). apply H0. Qed.
  Lemma ex1 x : ex_derive (fun y : R => f1 y) x. Proof. exists (f2 x). apply H1. Qed.
  Lemma ex2 x : ex_derive (fun y : R => f2 y) x. Proof. exists (f3 x). apply H2. Qed.
  Lemma ex3 x : ex_derive (fun y : R => f3 y) x. Proof. exists (f4 x). apply H3. Qed.
  Lemma DF x : Derive (fun y : R => F y) x = f x. Proof. apply is_derive_unique, HF. Qed.
  Lemma D0 x : Derive (fun y : R => f y) x = f1 x. Proof. apply is_derive_unique, H0. Qed.
  Lemma D1 x : Derive (fun y : R => f1 y) x = f2 x. Proof. apply is_derive_unique, H1. Qed.
  Lemma D2 x : Derive (fun y : R => f2 y) x = f3 x. Proof. apply is_derive_unique, H2. Qed.
  Lemma D3 x : Derive (fun y : R => f3 y) x = f4 x. Proof. apply is_derive_unique, H3. Qed.

  Ltac dsolve :=
    auto_derive;
    [ repeat split; first [apply exF | apply ex0 | apply ex1 | apply ex2 | apply ex3 | exact Logic.I]
    | rewrite ?DF, ?D0, ?D1, ?D2, ?D3; unfold Rminus, Rdiv; try field ].

  Definition G (m t : R) := F (m + t) - F (m - t) - t / 3 * (f (m - t) + 4 * f m + f (m + t)).
  Definition G1 (m t : R) := 2 / 3 * (f (m + t) + f (m - t)) - 4 / 3 * f m - t / 3 * (f1 (m + t) - f1 (m - t)).
  Definition G2 (m t : R) := 1 / 3 * (f1 (m + t) - f1 (m - t)) - t / 3 * (f2 (m + t) + f2 (m - t)).
  Definition G3 (m t : R) := - (t / 3) * (f3 (m + t) - f3 (m - t)).

  Lemma dG m t : is_derive (G m) t (G1 m t).
  Proof. unfold G, G1. dsolve. Qed.
  Lemma dG1 m t : is_derive (G1 m) t (G2 m t).
  Proof. unfold G1, G2. dsolve. Qed.
  Lemma dG2 m t : is_derive (G2 m) t (G3 m t).
  Proof. unfold G2, G3. dsolve. Qed.

  Definition H (c t : R) := F (c + 3 * t / 2) - F (c - 3 * t / 2)
    - 3 * t / 8 * (f (c - 3 * t / 2) + 3 * f (c - t / 2) + 3 * f (c + t / 2) + f (c + 3 * t / 2)).
  Definition Hd1 (c t : R) :=
    9 / 8 * (f (c + 3 * t / 2) + f (c - 3 * t / 2)) - 9 / 8 * (f (c + t / 2) + f (c - t / 2))
    - 9 * t / 16 * (f1 (c + 3 * t / 2) - f1 (c - 3 * t / 2) + f1 (c + t / 2) - f1 (c - t / 2)).
  Definition Hd2 (c t : R) :=
    9 / 8 * (f1 (c + 3 * t / 2) - f1 (c - 3 * t / 2)) - 9 / 8 * (f1 (c + t / 2) - f1 (c - t / 2))
    - 27 * t / 32 * (f2 (c + 3 * t / 2) + f2 (c - 3 * t / 2)) - 9 * t / 32 * (f2 (c + t / 2) + f2 (c - t / 2)).
  Definition Hd3 (c t : R) :=
    27 / 32 * (f2 (c + 3 * t / 2) + f2 (c - 3 * t / 2)) - 27 / 32 * (f2 (c + t / 2) + f2 (c - t / 2))
    - 81 * t / 64 * (f3 (c + 3 * t / 2) - f3 (c - 3 * t / 2)) - 9 * t / 64 * (f3 (c + t / 2) - f3 (c - t / 2)).
  Definition Hd4 (c t : R) :=
    - (9 / 16) * (f3 (c + t / 2) - f3 (c - t / 2))
    - 243 * t / 128 * (f4 (c + 3 * t / 2) + f4 (c - 3 * t / 2)) - 9 * t / 128 * (f4 (c + t / 2) + f4 (c - t / 2)).
  Lemma dH c t : is_derive (H c) t (Hd1 c t).
  Proof. unfold H, Hd1. dsolve. Qed.
  Lemma dH1 c t : is_derive (Hd1 c) t (Hd2 c t).
  Proof. unfold Hd1, Hd2. dsolve. Qed.
  Lemma dH2 c t : is_derive (Hd2 c) t (Hd3 c t).
  Proof. unfold Hd2, Hd3. dsolve. Qed.
  Lemma dH3 c t : is_derive (Hd3 c) t (Hd4 c t).
  Proof. unfold Hd3, Hd4. dsolve. Qed.

  (* ---- mean value bound --------------------------------------------------------- *)
  Definition between (a b x : R) : Prop := Rmin a b <= x <= Rmax a b.

  Lemma between_ordered a b x : a <= b -> (between a b x <-> a <= x <= b).
  Proof. intro H. unfold between. rewrite Rmin_left, Rmax_right by exact H. tauto. Qed.
  Lemma between_sym a b x : between a b x <-> between b a x.
  Proof. unfold between. rewrite Rmin_comm, Rmax_comm. tauto. Qed.

  Lemma diff_bound (g dg : R -> R) x y M :
    (forall z, is_derive g z (dg z)) ->
    (forall z, between x y z -> Rabs (dg z) <= M) ->
    Rabs (g y - g x) <= M * Rabs (y - x).
  Proof.
    intros Hd Hb.
    destruct (MVT_gen g x y dg) as (c & Hc & Heq).
    - intros z _. apply Hd.
    - intros z _. apply (is_derive_cont g dg). apply Hd.
    - rewrite Heq, Rabs_mult. apply Rmult_le_compat_r; [apply Rabs_pos|]. apply Hb. exact Hc.
  Qed.

  (* ---- the 1/3 panel ---------------------------------------------------------------- *)
  Lemma G_bound_pos m h0 M : 0 <= h0 ->
    (forall z, m - h0 <= z <= m + h0 -> Rabs (f4 z) <= M) ->
    Rabs (G m h0) <= M / 90 * h0 ^ 5.
  Proof.
    intros Hh HM.
    assert (B3 : forall t, 0 <= t <= h0 -> Rabs (G3 m t) <= 2 * M / 3 * t ^ 2).
    { intros t [Ht0 Hth]. unfold G3.
      assert (Hd : Rabs (f3 (m + t) - f3 (m - t)) <= M * Rabs (m + t - (m - t))).
      { apply (diff_bound f3 f4); [exact H3|].
        intros z Hz. apply (proj1 (between_ordered (m - t) (m + t) z ltac:(lra))) in Hz. apply HM. lra. }
      replace (m + t - (m - t)) with (2 * t) in Hd by ring.
      rewrite (Rabs_pos_eq (2 * t)) in Hd by lra.
      rewrite Rabs_mult, Rabs_Ropp, (Rabs_pos_eq (t / 3)) by lra.
      replace (2 * M / 3 * t ^ 2) with (t / 3 * (M * (2 * t))) by field.
      apply Rmult_le_compat_l; [lra|exact Hd]. }
    assert (Z2 : G2 m 0 = 0).
    { unfold G2. replace (m + 0) with m by ring. replace (m - 0) with m by ring. field. }
    assert (Z1 : G1 m 0 = 0).
    { unfold G1. replace (m + 0) with m by ring. replace (m - 0) with m by ring. field. }
    assert (Z0 : G m 0 = 0).
    { unfold G. replace (m + 0) with m by ring. replace (m - 0) with m by ring. field. }
    pose proof (growth_bound (G2 m) (G3 m) (2 * M / 3) 2 h0 (dG2 m) Z2 B3) as B2.
    pose proof (growth_bound (G1 m) (G2 m) _ 3 h0 (dG1 m) Z1 B2) as B1.
    pose proof (growth_bound (G m) (G1 m) _ 4 h0 (dG m) Z0 B1) as B0.
    specialize (B0 h0 (conj Hh (Rle_refl h0))).
    replace (M / 90 * h0 ^ 5) with (2 * M / 3 / INR 3 / INR 4 / INR 5 * h0 ^ 5); [exact B0|].
    cbn [INR]. field.
  Qed.

  Lemma G_odd m t : G m (- t) = - G m t.
  Proof.
    unfold G. replace (m + - t) with (m - t) by ring. replace (m - - t) with (m + t) by ring. field.
  Qed.

  Lemma panel13 x h M :
    (forall z, between x (x + 2 * h) z -> Rabs (f4 z) <= M) ->
    Rabs (h / 3 * (f x + 4 * f (x + h) + f (x + 2 * h)) - (F (x + 2 * h) - F x)) <= M / 90 * Rabs h ^ 5.
  Proof.
    intro HM.
    assert (E : h / 3 * (f x + 4 * f (x + h) + f (x + 2 * h)) - (F (x + 2 * h) - F x) = - G (x + h) h).
    { unfold G. replace (x + h + h) with (x + 2 * h) by ring. replace (x + h - h) with x by ring. ring. }
    rewrite E, Rabs_Ropp.
    destruct (Rle_dec 0 h) as [Hh|Hh].
    - rewrite (Rabs_pos_eq h Hh). apply G_bound_pos; [exact Hh|].
      intros z Hz. apply HM. apply between_ordered; lra.
    - assert (Hneg : h < 0) by lra.
      assert (Hg : G (x + h) h = - G (x + h) (- h)) by (rewrite G_odd; ring).
      rewrite Hg, Rabs_Ropp.
      rewrite (Rabs_left h Hneg). apply G_bound_pos; [lra|].
      intros z Hz. apply HM. apply between_sym. apply between_ordered; lra.
  Qed.

  (* ---- the 3/8 panel ---------------------------------------------------------------- *)
  Lemma H_bound_pos c h0 M : 0 <= h0 ->
    (forall z, c - 3 * h0 / 2 <= z <= c + 3 * h0 / 2 -> Rabs (f4 z) <= M) ->
    Rabs (H c h0) <= 3 * M / 80 * h0 ^ 5.
  Proof.
    intros Hh HM.
    assert (B4 : forall t, 0 <= t <= h0 -> Rabs (Hd4 c t) <= 9 / 2 * M * t ^ 1).
    { intros t [Ht0 Hth]. unfold Hd4.
      assert (Hd : Rabs (f3 (c + t / 2) - f3 (c - t / 2)) <= M * Rabs (c + t / 2 - (c - t / 2))).
      { apply (diff_bound f3 f4); [exact H3|].
        intros z Hz. apply (proj1 (between_ordered (c - t / 2) (c + t / 2) z ltac:(lra))) in Hz. apply HM. lra. }
      replace (c + t / 2 - (c - t / 2)) with t in Hd by field.
      rewrite (Rabs_pos_eq t Ht0) in Hd.
      assert (Ha : Rabs (f4 (c + 3 * t / 2)) <= M) by (apply HM; lra).
      assert (Hb : Rabs (f4 (c - 3 * t / 2)) <= M) by (apply HM; lra).
      assert (Hc : Rabs (f4 (c + t / 2)) <= M) by (apply HM; lra).
      assert (He : Rabs (f4 (c - t / 2)) <= M) by (apply HM; lra).
      apply Rabs_le_between in Hd, Ha, Hb, Hc, He.
      set (A := f3 (c + t / 2) - f3 (c - t / 2)) in *.
      set (p := f4 (c + 3 * t / 2)) in *. set (q := f4 (c - 3 * t / 2)) in *.
      set (r := f4 (c + t / 2)) in *. set (s := f4 (c - t / 2)) in *.
      apply Rabs_le. rewrite pow_1. split; nra. }
    assert (Z3 : Hd3 c 0 = 0).
    { unfold Hd3. replace (c + 3 * 0 / 2) with c by field. replace (c - 3 * 0 / 2) with c by field.
      replace (c + 0 / 2) with c by field. replace (c - 0 / 2) with c by field. field. }
    assert (Z2 : Hd2 c 0 = 0).
    { unfold Hd2. replace (c + 3 * 0 / 2) with c by field. replace (c - 3 * 0 / 2) with c by field.
      replace (c + 0 / 2) with c by field. replace (c - 0 / 2) with c by field. field. }
    assert (Z1 : Hd1 c 0 = 0).
    { unfold Hd1. replace (c + 3 * 0 / 2) with c by field. replace (c - 3 * 0 / 2) with c by field.
      replace (c + 0 / 2) with c by field. replace (c - 0 / 2) with c by field. field. }
    assert (Z0 : H c 0 = 0).
    { unfold H. replace (c + 3 * 0 / 2) with c by field. replace (c - 3 * 0 / 2) with c by field.
      replace (c + 0 / 2) with c by field. replace (c - 0 / 2) with c by field. field. }
    pose proof (growth_bound (Hd3 c) (Hd4 c) (9 / 2 * M) 1 h0 (dH3 c) Z3 B4) as B3.
    pose proof (growth_bound (Hd2 c) (Hd3 c) _ 2 h0 (dH2 c) Z2 B3) as B2.
    pose proof (growth_bound (Hd1 c) (Hd2 c) _ 3 h0 (dH1 c) Z1 B2) as B1.
    pose proof (growth_bound (H c) (Hd1 c) _ 4 h0 (dH c) Z0 B1) as B0.
    specialize (B0 h0 (conj Hh (Rle_refl h0))).
    replace (3 * M / 80 * h0 ^ 5) with (9 / 2 * M / INR 2 / INR 3 / INR 4 / INR 5 * h0 ^ 5); [exact B0|].
    cbn [INR]. field.
  Qed.

  Lemma H_odd c t : H c (- t) = - H c t.
  Proof.
    unfold H.
    replace (c + 3 * - t / 2) with (c - 3 * t / 2) by field.
    replace (c - 3 * - t / 2) with (c + 3 * t / 2) by field.
    replace (c - - t / 2) with (c + t / 2) by field.
    replace (c + - t / 2) with (c - t / 2) by field. field.
  Qed.

  Lemma panel38 e h M :
    (forall z, between (e - h * 3) e z -> Rabs (f4 z) <= M) ->
    Rabs (3 * h * (f (e - h * 3) + 3 * f (e - h * 2) + 3 * f (e - h * 1) + f e) / 8 - (F e - F (e - h * 3)))
      <= 3 * M / 80 * Rabs h ^ 5.
  Proof.
    intro HM.
    assert (E : 3 * h * (f (e - h * 3) + 3 * f (e - h * 2) + 3 * f (e - h * 1) + f e) / 8 - (F e - F (e - h * 3))
                = - H (e - 3 * h / 2) h).
    { unfold H.
      replace (e - 3 * h / 2 + 3 * h / 2) with e by field.
      replace (e - 3 * h / 2 - 3 * h / 2) with (e - h * 3) by field.
      replace (e - 3 * h / 2 - h / 2) with (e - h * 2) by field.
      replace (e - 3 * h / 2 + h / 2) with (e - h * 1) by field. field. }
    rewrite E, Rabs_Ropp.
    destruct (Rle_dec 0 h) as [Hh|Hh].
    - rewrite (Rabs_pos_eq h Hh). apply H_bound_pos; [exact Hh|].
      intros z Hz. apply HM. apply between_ordered; lra.
    - assert (Hneg : h < 0) by lra.
      assert (Hg : H (e - 3 * h / 2) h = - H (e - 3 * h / 2) (- h)) by (rewrite H_odd; ring).
      rewrite Hg, Rabs_Ropp.
      rewrite (Rabs_left h Hneg). apply H_bound_pos; [lra|].
      intros z Hz. apply HM. apply between_sym. apply between_ordered; lra.
  Qed.

  (* ---- composite rule ------------------------------------------------------------------ *)
  Lemma between_sub s d L l1 l2 p q e x :
    0 <= l1 <= L -> 0 <= l2 <= L -> p = s + l1 * d -> q = s + l2 * d -> e = s + L * d ->
    between p q x -> between s e x.
  Proof.
    intros [Ha1 Ha2] [Hb1 Hb2] -> -> ->. unfold between, Rmin, Rmax.
    destruct (Rle_dec 0 d) as [Hd|Hd].
    - repeat destruct Rle_dec; intros [Hx1 Hx2]; split; nra.
    - assert (Hd' : d < 0) by lra.
      repeat destruct Rle_dec; intros [Hx1 Hx2]; split; nra.
  Qed.

  Variable fm : R -> res R.
  Hypothesis Hfm : forall x, fm x = Ok (f x).

  Lemma s13_body_step' h xi sum :
    s13_body fm h (xi, sum) =
    Ok (xi + 2 * h, sum + (4 * f (xi + 2 * h - h) + 2 * f (xi + 2 * h))).
  Proof.
    unfold s13_body, ntwo. cbn [nadd nsub nmul nofZ RNum]. rewrite !Hfm. reflexivity.
  Qed.

  Lemma simpson13_err h s segs M : (1 <= segs / 2)%N ->
    (forall z, between s (s + RN (segs / 2) * (2 * h)) z -> Rabs (f4 z) <= M) ->
    exists v, simpson13 fm h s segs = Ok v /\
      Rabs (v - (F (s + RN (segs / 2) * (2 * h)) - F s)) <= RN (segs / 2) * (M / 90 * Rabs h ^ 5).
  Proof.
    intros Hm HM. set (m2 := (segs / 2)%N) in *. set (E5 := M / 90 * Rabs h ^ 5).
    assert (Hpanel : forall i xi, (i < N.to_nat m2)%nat -> xi = s + INR i * (2 * h) ->
              Rabs (h / 3 * (f xi + 4 * f (xi + h) + f (xi + 2 * h)) - (F (xi + 2 * h) - F xi)) <= E5).
    { intros i xi Hi Hxi. apply panel13. intros z Hz. apply HM.
      assert (Hle : INR i + 1 <= RN m2).
      { rewrite <- INR_N, <- S_INR. apply le_INR. lia. }
      assert (H0i : 0 <= INR i) by apply pos_INR.
      apply (between_sub s (2 * h) (RN m2) (INR i) (INR i + 1) xi (xi + 2 * h)); try assumption;
        try lra; try reflexivity. }
    unfold simpson13. fold m2. rewrite Hfm. cbn [bind].
    destruct (loopN_inv
      (fun i st => fst st = s + INR i * (2 * h) /\
                   Rabs (h / 3 * snd st - (F (fst st) - F s + h / 3 * f (fst st))) <= INR i * E5)
      (N.pred m2) (s13_body fm h) (s, f s)) as ([xi sum] & E & Hxi & Hsum).
    - cbn [fst snd INR]. split; [ring|].
      replace (h / 3 * f s - (F s - F s + h / 3 * f s)) with 0 by ring. rewrite Rabs_R0. lra.
    - intros i [xi sum] Hi [Hx Hs]. cbn [fst snd] in *.
      rewrite s13_body_step'. eexists. split; [reflexivity|]. cbn [fst snd]. split.
      + rewrite S_INR, Hx. ring.
      + replace (xi + 2 * h - h) with (xi + h) by ring.
        replace (h / 3 * (sum + (4 * f (xi + h) + 2 * f (xi + 2 * h))) -
                 (F (xi + 2 * h) - F s + h / 3 * f (xi + 2 * h)))
          with ((h / 3 * sum - (F xi - F s + h / 3 * f xi)) +
                (h / 3 * (f xi + 4 * f (xi + h) + f (xi + 2 * h)) - (F (xi + 2 * h) - F xi))) by field.
        eapply Rle_trans; [apply Rabs_triang|]. rewrite S_INR.
        assert (Hp := Hpanel i xi ltac:(lia) Hx). lra.
    - rewrite E. cbn [bind]. cbv iota beta. unfold ntwo. cbn [nadd nsub nmul ndiv nofZ RNum].
      rewrite !Hfm. cbn [bind fst snd] in *.
      eexists. split; [reflexivity|].
      assert (Hlast : (N.to_nat (N.pred m2) < N.to_nat m2)%nat) by lia.
      assert (Hp := Hpanel _ xi Hlast Hxi).
      rewrite INR_N_pred in Hxi, Hsum by exact Hm.
      replace (s + RN m2 * (2 * h)) with (xi + 2 * h) by (rewrite Hxi; ring).
      replace (xi + 2 * h - h) with (xi + h) by ring.
      replace (h * (sum + (4 * f (xi + h) + f (xi + 2 * h))) / 3 - (F (xi + 2 * h) - F s))
        with ((h / 3 * sum - (F xi - F s + h / 3 * f xi)) +
              (h / 3 * (f xi + 4 * f (xi + h) + f (xi + 2 * h)) - (F (xi + 2 * h) - F xi))) by field.
      eapply Rle_trans; [apply Rabs_triang|]. lra.
  Qed.

  Lemma simpson38_err h e M :
    (forall z, between (e - h * 3) e z -> Rabs (f4 z) <= M) ->
    exists v, simpson38 fm h (e - h * 3) (e - h * 2) (e - h * 1) e = Ok v /\
      Rabs (v - (F e - F (e - h * 3))) <= 3 * M / 80 * Rabs h ^ 5.
  Proof.
    intro HM. unfold simpson38. rewrite !Hfm. cbn [bind nadd nmul ndiv nofZ RNum].
    eexists. split; [reflexivity|]. apply panel38. exact HM.
  Qed.

  Lemma definite_integral_err a b n M : (2 <= n)%N ->
    (forall z, between a b z -> Rabs (f4 z) <= M) ->
    exists v, definite_integral fm a b n = Ok v /\
      Rabs (v - (F b - F a)) <= Rabs (b - a) * ((b - a) / RN n) ^ 4 * M / 80.
  Proof.
    intros Hn HM.
    assert (Hpos : 0 < RN n) by (apply RN_pos; lia).
    assert (HM0 : 0 <= M).
    { eapply Rle_trans; [apply Rabs_pos|]. apply (HM a). unfold between. split; [apply Rmin_l|apply Rmax_l]. }
    unfold definite_integral.
    destruct (n =? 1)%N eqn:E1; [apply N.eqb_eq in E1; lia|].
    rewrite nofN_R. cbn [ndiv nsub nmul nofZ RNum].
    set (h := (b - a) / RN n).
    assert (Hh : b = a + RN n * h) by (subst h; field; lra).
    clearbody h.
    set (w := Rabs h).
    assert (Hw : 0 <= w) by apply Rabs_pos.
    assert (Hw5 : 0 <= w ^ 5) by (apply pow_le; exact Hw).
    assert (Hrhs : Rabs (b - a) * h ^ 4 * M / 80 = RN n * (M * w ^ 5) / 80).
    { replace (b - a) with (RN n * h) by (rewrite Hh; ring).
      rewrite Rabs_mult, (Rabs_pos_eq (RN n)) by lra. fold w.
      replace (h ^ 4) with (w ^ 4).
      - field.
      - subst w. rewrite RPow_abs. apply Rabs_pos_eq.
        replace (h ^ 4) with ((h ^ 2) ^ 2) by ring. apply pow2_ge_0. }
    rewrite Hrhs.
    assert (HP : 0 <= M * w ^ 5) by (apply Rmult_le_pos; assumption).
    destruct (N.even n) eqn:Ev.
    - (* even *)
      cbn [bind]. cbv iota beta.
      apply N.even_spec in Ev. destruct Ev as [m Hm].
      assert (Hdiv : (n / 2 = m)%N) by (subst n; rewrite N.mul_comm; apply N.div_mul; lia).
      replace (1 <? n)%N with true by (symmetry; apply N.ltb_lt; lia).
      cbv iota beta.
      assert (Hside : (1 <= n / 2)%N) by (rewrite Hdiv; lia).
      assert (Hend : a + RN (n / 2) * (2 * h) = b) by (rewrite Hdiv, Hh, Hm, RN_double; ring).
      destruct (simpson13_err h a n M Hside) as (v & Ev13 & Hv).
      { rewrite Hend. exact HM. }
      rewrite Ev13. cbn [bind nadd n0 RNum]. eexists. split; [reflexivity|].
      rewrite Hend, Hdiv in Hv. fold w in Hv.
      replace (0 + v - (F b - F a)) with (v - (F b - F a)) by ring.
      assert (Hm0 : 0 <= RN m) by (unfold RN; apply IZR_le; lia).
      rewrite Hm, RN_double.
      assert (0 <= RN m * (M * w ^ 5)) by (apply Rmult_le_pos; assumption).
      lra.
    - (* odd *)
      assert (Hodd : N.odd n = true) by (rewrite <- N.negb_even, Ev; reflexivity).
      apply N.odd_spec in Hodd. destruct Hodd as [m Hm].
      assert (Hm1 : (1 <= m)%N) by lia.
      assert (Hrem : (n - 3 = 2 * (m - 1))%N) by lia.
      assert (Hdiv : ((n - 3) / 2 = m - 1)%N)
        by (rewrite Hrem, N.mul_comm; apply N.div_mul; lia).
      assert (HRn : RN n = 2 * RN (m - 1) + 3).
      { unfold RN. replace (Z.of_N n) with (2 * Z.of_N (m - 1) + 3)%Z by lia.
        rewrite plus_IZR, mult_IZR. reflexivity. }
      assert (Hm0 : 0 <= RN (m - 1)) by (unfold RN; apply IZR_le; lia).
      destruct (simpson38_err h b M) as (v38 & E38 & Hv38).
      { intros z Hz. apply HM.
        apply (between_sub a h (RN n) (RN n - 3) (RN n) (b - h * 3) b b); try lra; try assumption. }
      rewrite E38. cbn [bind].
      replace (n <? 3)%N with false by (symmetry; apply N.ltb_ge; lia).
      cbv iota beta. cbn [bind]. cbv iota beta. cbn [nadd n0 RNum].
      fold w in Hv38.
      destruct (1 <? n - 3)%N eqn:E3.
      + apply N.ltb_lt in E3.
        assert (Hside : (1 <= (n - 3) / 2)%N) by (rewrite Hdiv; lia).
        assert (Hend : a + RN ((n - 3) / 2) * (2 * h) = b - h * 3) by (rewrite Hdiv, Hh, HRn; ring).
        destruct (simpson13_err h a (n - 3)%N M Hside) as (v13 & E13 & Hv13).
        { intros z Hz. apply HM.
          apply (between_sub a h (RN n) 0 (2 * RN (m - 1)) a (a + RN ((n - 3) / 2) * (2 * h)) b);
            try lra; try assumption.
          rewrite Hdiv. ring. }
        rewrite E13. cbn [bind nadd RNum]. eexists. split; [reflexivity|].
        rewrite Hend, Hdiv in Hv13. fold w in Hv13.
        replace (0 + v38 + v13 - (F b - F a))
          with ((v38 - (F b - F (b - h * 3))) + (v13 - (F (b - h * 3) - F a))) by ring.
        eapply Rle_trans; [apply Rabs_triang|].
        rewrite HRn.
        assert (0 <= RN (m - 1) * (M * w ^ 5)) by (apply Rmult_le_pos; assumption).
        lra.
      + (* n = 3 *)
        apply N.ltb_ge in E3. eexists. split; [reflexivity|].
        assert (m = 1%N) by lia. subst m.
        assert (Ha : b - h * 3 = a) by (rewrite Hh, HRn; change (RN (1 - 1)) with 0; ring).
        rewrite Ha in Hv38.
        replace (0 + v38 - (F b - F a)) with (v38 - (F b - F a)) by ring.
        rewrite HRn. change (RN (1 - 1)) with 0. lra.
  Qed.
End P.

(* ---- the integral: RInt f a b = F b - F a, and an antiderivative always exists ---------- *)
Lemma RInt_antiderivative (F f f1 : R -> R) a b :
  (forall x, is_derive F x (f x)) -> (forall x, is_derive f x (f1 x)) -> RInt f a b = F b - F a.
Proof.
  intros HF H0. apply is_RInt_unique. apply (is_RInt_derive F f).
  - intros x _. apply HF.
  - intros x _. apply (ex_derive_continuous f x). exists (f1 x). apply H0.
Qed.

Lemma antiderivative_exists (f f1 : R -> R) a :
  (forall x, is_derive f x (f1 x)) -> forall x, is_derive (fun y => RInt f a y) x (f x).
Proof.
  intros H0 x.
  assert (Hc : forall z, continuous f z).
  { intro z. apply (ex_derive_continuous f z). exists (f1 z). apply H0. }
  apply (is_derive_RInt f (fun y => RInt f a y) a x).
  - apply filter_forall. intro y. apply (@RInt_correct R_CompleteNormedModule). apply (@ex_RInt_continuous R_CompleteNormedModule). intros z _. apply Hc.
  - apply Hc.
Qed.

(* ---- C05: the error clause for every C^4 integrand ---------------------------------------- *)
Lemma c05_simpson_error : forall (fm : R -> res R) (f f1 f2 f3 f4 : R -> R),
  (forall x, fm x = Ok (f x)) ->
  (forall x, is_derive f x (f1 x)) -> (forall x, is_derive f1 x (f2 x)) ->
  (forall x, is_derive f2 x (f3 x)) -> (forall x, is_derive f3 x (f4 x)) ->
  forall (a b : R) (n : N) (M : R), (2 <= n)%N ->
  (forall x, Rmin a b <= x <= Rmax a b -> Rabs (f4 x) <= M) ->
  exists v, definite_integral fm a b n = Ok v /\
    Rabs (v - RInt f a b) <= Rabs (b - a) * ((b - a) / IZR (Z.of_N n)) ^ 4 * M / 80.
Proof.
  intros fm f f1 f2 f3 f4 Hfm H0 H1 H2 H3 a b n M Hn HM.
  pose (F := fun y => RInt f a y).
  assert (HF : forall x, is_derive F x (f x)) by (apply (antiderivative_exists f f1 a H0)).
  rewrite (RInt_antiderivative F f f1 a b HF H0).
  apply (definite_integral_err F f f1 f2 f3 f4 HF H0 H1 H2 H3 fm Hfm a b n M Hn). exact HM.
Qed.

(* ---- every SimplePolynomial (any number of coefficients) ---------------------------------- *)
Fixpoint psum (cs : list R) (i : nat) (x : R) : R :=
  match cs with
  | [] => 0
  | c :: cs' => c * x ^ i + psum cs' (S i) x
  end.

Lemma fold_left_Rplus_acc (l : list R) : forall acc, fold_left Rplus l acc = acc + fold_right Rplus 0 l.
Proof.
  induction l as [|y l IH]; intro acc; cbn [fold_left fold_right]; [ring|]. rewrite IH. ring.
Qed.

Lemma eval_terms_psum x cs : forall i, fold_right Rplus 0 (eval_terms_from x i cs) = psum cs i x.
Proof.
  induction cs as [|c cs IH]; intro i; cbn [eval_terms_from fold_right psum]; [reflexivity|].
  rewrite IH, npowi_R_nat. reflexivity.
Qed.

Lemma eval_simple_psum (p : spoly R) x : eval_simple p x = psum (s_coefs p) 0 x.
Proof.
  unfold eval_simple. cbn [nadd nsum0 RNum].
  rewrite fold_left_Rplus_acc, eval_terms_psum. ring.
Qed.

Lemma psum_derive cs : forall i x,
  is_derive (psum cs (S i)) x (psum (deriv_coefs_from (S i) cs) i x).
Proof.
  induction cs as [|c cs IH]; intros i x.
  - cbn [psum deriv_coefs_from]. apply (is_derive_const 0 x).
  - cbn [deriv_coefs_from]. unfold nofnat. cbn [nmul nofZ RNum].
    change (psum (c :: cs) (S i)) with (fun y => c * y ^ S i + psum cs (S (S i)) y).
    change (psum (c * IZR (Z.of_nat (S i)) :: deriv_coefs_from (S (S i)) cs) i x)
      with (c * IZR (Z.of_nat (S i)) * x ^ i + psum (deriv_coefs_from (S (S i)) cs) (S i) x).
    apply (is_derive_plus (fun y => c * y ^ S i) (psum cs (S (S i)))); [|apply IH].
    auto_derive; [exact Logic.I|]. rewrite <- INR_IZR_INZ.
    change (match i with | 0%nat => 1 | S _ => INR i + 1 end) with (INR (S i)). cbn [pred]. ring.
Qed.

Lemma eval_simple_derive (p : spoly R) x :
  is_derive (eval_simple p) x (eval_simple (simple_derivative p) x).
Proof.
  apply (is_derive_ext (psum (s_coefs p) 0)); [intro t; symmetry; apply eval_simple_psum|].
  rewrite eval_simple_psum. unfold simple_derivative. cbn [s_coefs].
  destruct (s_coefs p) as [|c0 cs].
  - cbn [psum]. apply (is_derive_const 0 x).
  - change (psum (c0 :: cs) 0) with (fun y => c0 * y ^ 0 + psum cs 1 y).
    replace (psum (deriv_coefs_from 1 cs) 0 x) with (0 + psum (deriv_coefs_from 1 cs) 0 x) by ring.
    apply (is_derive_plus (fun y => c0 * y ^ 0) (psum cs 1)); [|apply psum_derive].
    auto_derive; [exact Logic.I|]. ring.
Qed.

Definition sderiv4 (p : spoly R) : spoly R :=
  simple_derivative (simple_derivative (simple_derivative (simple_derivative p))).

Lemma c05_simpson_error_simple : forall (p : spoly R) (a b : R) (n : N) (M : R), (2 <= n)%N ->
  (forall x, Rmin a b <= x <= Rmax a b -> Rabs (eval_simple (sderiv4 p) x) <= M) ->
  exists v, definite_integral (s_eval_univariate p) a b n = Ok v /\
    Rabs (v - RInt (eval_simple p) a b) <= Rabs (b - a) * ((b - a) / IZR (Z.of_N n)) ^ 4 * M / 80.
Proof.
  intros p a b n M Hn HM.
  apply (c05_simpson_error (s_eval_univariate p) (eval_simple p)
           (eval_simple (simple_derivative p))
           (eval_simple (simple_derivative (simple_derivative p)))
           (eval_simple (simple_derivative (simple_derivative (simple_derivative p))))
           (eval_simple (sderiv4 p))); try (intro x; apply eval_simple_derive); try assumption.
  intro x. reflexivity.
Qed.
