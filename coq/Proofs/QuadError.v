(* Proofs/QuadError.v — the error clause of C05 for EVERY four times differentiable
   integrand (hence every polynomial degree):
     |definite_integral f a b n - integral| <= |b-a| h^4 M / 80,   M >= |f4| on [a,b],
   f4 the fourth derivative, for every n >= 2 (even, odd, 3) and every interval
   (reversed, empty).  Route: the classical auxiliary functions.  For the 1/3 rule on
   [m-t, m+t]
     G(t) = F(m+t) - F(m-t) - t/3 (f(m-t) + 4 f(m) + f(m+t)),   F the antiderivative,
   G(0) = G1(0) = G2(0) = 0 and G3(t) = -(t/3)(f3(m+t) - f3(m-t)) (Gi, fi the i-th
   derivatives), so |G3(t)| <= (2M/3) t^2 by the mean value theorem and three
   integrations ([growth_bound]) give |G(h)| <= M h^5 / 90.  For the 3/8 rule on
   [c-3t/2, c+3t/2] the analogous H has H(0) = .. = H3(0) = 0 and |H4(t)| <= (9/2) M t,
   whence |H(h)| <= 3 M h^5 / 80.  Both are odd in t, which covers reversed intervals.
   The composite bookkeeping is the one of Proofs/QuadSimpson.v with inequalities. *)
From Coq Require Import ZArith NArith List Reals Lra Lia.
From Coquelicot Require Import Coquelicot.
From SV Require Import Base.Num Base.Outcome Model.Poly Model.Quad Proofs.Quad Proofs.QuadSimpson.
Import ListNotations.
Local Open Scope R_scope.

Lemma is_derive_cont (f df : R -> R) x : is_derive f x (df x) -> continuity_pt f x.
Proof.
  intro H. apply continuity_pt_filterlim. apply (ex_derive_continuous f x). exists (df x). exact H.
Qed.

Lemma growth_bound (phi dphi : R -> R) (c : R) (k : nat) (h : R) :
  (forall t, is_derive phi t (dphi t)) ->
  phi 0 = 0 ->
  (forall t, 0 <= t <= h -> Rabs (dphi t) <= c * t ^ k) ->
  forall t, 0 <= t <= h -> Rabs (phi t) <= c / INR (S k) * t ^ S k.
Proof.
  intros Hd H0 Hb t [Ht0 Hth].
  assert (Hk : 0 < INR (S k)) by (apply lt_0_INR; lia).
  destruct (Req_dec t 0) as [->|Hne].
  - rewrite H0, Rabs_R0. rewrite pow_i by lia. lra.
  - assert (Htpos : 0 < t) by lra.
    (* upper *)
    assert (Hup : phi t <= c / INR (S k) * t ^ S k).
    { destruct (MVT_gen (fun s => phi s - c / INR (S k) * s ^ S k) 0 t
                  (fun s => dphi s - c / INR (S k) * (INR (S k) * s ^ k))) as (xi & Hxi & Heq).
      - intros x _. auto_derive.
        + exists (dphi x). apply Hd.
        + assert (HD : Derive (fun x0 : R => phi x0) x = dphi x) by (apply is_derive_unique; apply Hd).
          rewrite HD.
          change (match k with | 0%nat => 1 | S _ => INR k + 1 end) with (INR (S k)). ring.
      - intros x _. apply (is_derive_cont _ (fun s => dphi s - c / INR (S k) * (INR (S k) * s ^ k))).
        auto_derive.
        + exists (dphi x). apply Hd.
        + assert (HD : Derive (fun x0 : R => phi x0) x = dphi x) by (apply is_derive_unique; apply Hd).
          rewrite HD.
          change (match k with | 0%nat => 1 | S _ => INR k + 1 end) with (INR (S k)). ring.
      - rewrite Rmin_left, Rmax_right in Hxi by lra.
        cbv beta in Heq. rewrite H0 in Heq. rewrite (pow_i (S k)) in Heq by lia.
        assert (Hxb : Rabs (dphi xi) <= c * xi ^ k) by (apply Hb; lra).
        apply Rabs_le_between in Hxb.
        assert (Hd0 : dphi xi - c / INR (S k) * (INR (S k) * xi ^ k) <= 0).
        { replace (c / INR (S k) * (INR (S k) * xi ^ k)) with (c * xi ^ k) by (field; lra). lra. }
        nra. }
    assert (Hlo : - (c / INR (S k) * t ^ S k) <= phi t).
    { destruct (MVT_gen (fun s => phi s + c / INR (S k) * s ^ S k) 0 t
                  (fun s => dphi s + c / INR (S k) * (INR (S k) * s ^ k))) as (xi & Hxi & Heq).
      - intros x _. auto_derive.
        + exists (dphi x). apply Hd.
        + assert (HD : Derive (fun x0 : R => phi x0) x = dphi x) by (apply is_derive_unique; apply Hd).
          rewrite HD.
          change (match k with | 0%nat => 1 | S _ => INR k + 1 end) with (INR (S k)). ring.
      - intros x _. apply (is_derive_cont _ (fun s => dphi s + c / INR (S k) * (INR (S k) * s ^ k))).
        auto_derive.
        + exists (dphi x). apply Hd.
        + assert (HD : Derive (fun x0 : R => phi x0) x = dphi x) by (apply is_derive_unique; apply Hd).
          rewrite HD.
          change (match k with | 0%nat => 1 | S _ => INR k + 1 end) with (INR (S k)). ring.
      - rewrite Rmin_left, Rmax_right in Hxi by lra.
        cbv beta in Heq. rewrite H0 in Heq. rewrite (pow_i (S k)) in Heq by lia.
        assert (Hxb : Rabs (dphi xi) <= c * xi ^ k) by (apply Hb; lra).
        apply Rabs_le_between in Hxb.
        assert (Hd0 : 0 <= dphi xi + c / INR (S k) * (INR (S k) * xi ^ k)).
        { replace (c / INR (S k) * (INR (S k) * xi ^ k)) with (c * xi ^ k) by (field; lra). lra. }
        nra. }
    apply Rabs_le. lra.
Qed.

Section P.
  Variables F f f1 f2 f3 f4 : R -> R.
  Hypothesis HF : forall x, is_derive F x (f x).
  Hypothesis H0 : forall x, is_derive f x (f1 x).
  Hypothesis H1 : forall x, is_derive f1 x (f2 x).
  Hypothesis H2 : forall x, is_derive f2 x (f3 x).
  Hypothesis H3 : forall x, is_derive f3 x (f4 x).

  Lemma exF x : ex_derive (fun y : R => F y) x. Proof. exists (f x). apply HF. Qed.
  Lemma ex0 x : ex_derive (fun y : R => f y) x. Proof. exists (f1 x). apply H0. Qed.
  Lemma ex1 x : ex_derive (fun y : R => f1 y) x. Proof. exists (f2 x). apply H1. Qed.
  Lemma ex2 x : ex_derive (fun y : R => f2 y) x. Proof. exists (f3 x). apply H2. Qed.
  Lemma ex3 x : ex_derive (fun y : R => f3 y) x. Proof. exists (f4 x). apply H3. Qed.
  Lemma DF x : Derive (fun y : R => F y) x = f x. Proof. apply is_derive_unique, HF. Qed.
  Lemma D0 x : Derive (fun y : R => f y) x = f1 x. Proof. apply is_derive_unique, H0. Qed.
  Lemma D1 x : Derive (fun y : R => f1 y) x = f2 x. Proof. apply is_derive_unique, H1. Qed.
  Lemma D2 x : Derive (fun y : R => f2 y) x = f3 x. Proof. apply is_derive_unique, H2. Qed.
  Lemma D3 x : Derive (fun y : R => f3 y) x = f4 x. Proof. apply is_derive_unique, H3. Qed.

  Ltac dsolve :=
    auto_derive;
    [ repeat split; first [apply exF | apply ex0 | apply ex1 | apply ex2 | apply ex3 | exact Logic.I]
    | rewrite ?DF, ?D0, ?D1, ?D2, ?D3; unfold Rminus, Rdiv; try field ].

  Definition G (m t : R) := F (m + t) - F (m - t) - t / 3 * (f (m - t) + 4 * f m + f (m + t)).
  Definition G1 (m t : R) := 2 / 3 * (f (m + t) + f (m - t)) - 4 / 3 * f m - t / 3 * (f1 (m + t) - f1 (m - t)).
  Definition G2 (m t : R) := 1 / 3 * (f1 (m + t) - f1 (m - t)) - t / 3 * (f2 (m + t) + f2 (m - t)).
  Definition G3 (m t : R) := - (t / 3) * (f3 (m + t) - f3 (m - t)).

  Lemma dG m t : is_derive (G m) t (G1 m t).
  Proof. unfold G, G1. dsolve. Qed.
  Lemma dG1 m t : is_derive (G1 m) t (G2 m t).
  Proof. unfold G1, G2. dsolve. Qed.
  Lemma dG2 m t : is_derive (G2 m) t (G3 m t).
  Proof. unfold G2, G3. dsolve. Qed.

  Definition H (c t : R) := F (c + 3 * t / 2) - F (c - 3 * t / 2)
    - 3 * t / 8 * (f (c - 3 * t / 2) + 3 * f (c - t / 2) + 3 * f (c + t / 2) + f (c + 3 * t / 2)).
  Definition Hd1 (c t : R) :=
    9 / 8 * (f (c + 3 * t / 2) + f (c - 3 * t / 2)) - 9 / 8 * (f (c + t / 2) + f (c - t / 2))
    - 9 * t / 16 * (f1 (c + 3 * t / 2) - f1 (c - 3 * t / 2) + f1 (c + t / 2) - f1 (c - t / 2)).
  Definition Hd2 (c t : R) :=
    9 / 8 * (f1 (c + 3 * t / 2) - f1 (c - 3 * t / 2)) - 9 / 8 * (f1 (c + t / 2) - f1 (c - t / 2))
    - 27 * t / 32 * (f2 (c + 3 * t / 2) + f2 (c - 3 * t / 2)) - 9 * t / 32 * (f2 (c + t / 2) + f2 (c - t / 2)).
  Definition Hd3 (c t : R) :=
    27 / 32 * (f2 (c + 3 * t / 2) + f2 (c - 3 * t / 2)) - 27 / 32 * (f2 (c + t / 2) + f2 (c - t / 2))
    - 81 * t / 64 * (f3 (c + 3 * t / 2) - f3 (c - 3 * t / 2)) - 9 * t / 64 * (f3 (c + t / 2) - f3 (c - t / 2)).
  Definition Hd4 (c t : R) :=
    - (9 / 16) * (f3 (c + t / 2) - f3 (c - t / 2))
    - 243 * t / 128 * (f4 (c + 3 * t / 2) + f4 (c - 3 * t / 2)) - 9 * t / 128 * (f4 (c + t / 2) + f4 (c - t / 2)).
  Lemma dH c t : is_derive (H c) t (Hd1 c t).
  Proof. unfold H, Hd1. dsolve. Qed.
  Lemma dH1 c t : is_derive (Hd1 c) t (Hd2 c t).
  Proof. unfold Hd1, Hd2. dsolve. Qed.
  Lemma dH2 c t : is_derive (Hd2 c) t (Hd3 c t).
  Proof. unfold Hd2, Hd3. dsolve. Qed.
  Lemma dH3 c t : is_derive (Hd3 c) t (Hd4 c t).
  Proof. unfold Hd3, Hd4. dsolve. Qed.
