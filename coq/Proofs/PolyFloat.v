(* Proofs/PolyFloat.v — C01, the clause "evaluation of a coefficient vector equals the sum of
   c_k x^k up to floating-point rounding", proved for the binary64 instance of Model/Poly.v
   ([@eval_simple float FNum], [@npowi float FNum]: the functions that are extracted and run
   against the code).  Bridge to the reals: Flocq's [B2R (Prim2B x)].   eps = 2^-53.

   UNDERFLOW.  A product that lands in the subnormal range has no relative error bound, and an
   absolute error carried through repeated squaring has no clean closed form.  The theorems
   therefore assume that every product of the scheme is finite AND its exact value is zero or of
   magnitude >= 2^-1022 (normal range): predicate [okmul].  Under it every rounding is purely
   relative and the classical forward bounds hold with no eta term.  No sufficient real-number
   condition is given (it would need a lower bound on |x|^k as well as an upper one).
   [okmul_by_leb] discharges [okmul] by computation on the computed product (used in the Examples).

   (1) powi_float_error:  npowi x k  (compiler-rt square-and-multiply, [powi_pos] from r = 1)
         |fl - x^k| <= ((1+eps)^k - 1) * |x|^k          (m k = k: the scheme's error count is <= k)
   (2) eval_simple_float_error:  n = length of the coefficient vector = degree + 1
         |fl - sum_k c_k x^k| <= ((1+eps)^(2n) - 1) * sum_k |c_k| |x|^k        (2n = 2 deg + 2)
   (3) Examples: 3x^2+2x-5 at 1.5 and at 0.1.                                                   *)
From Coq Require Import ZArith List Bool Arith Reals Floats Lia Lra.
From Flocq Require Import Core Relative BinarySingleNaN PrimFloat.
From SV Require Import Base.Num Base.Outcome Model.Stats Model.Poly Proofs.Stats Proofs.StatsFloat Proofs.Arr2DFloat.
Import ListNotations.
Local Open Scope R_scope.

Local Notation pfloat := PrimFloat.float.
Local Notation fexp64 := (SpecFloat.fexp FloatOps.prec FloatOps.emax).
Local Notation rnd64 := (round radix2 fexp64 ZnearestE).

(* ---- accumulated relative error: v = t * (1 + theta), |theta| <= (1+eps)^m - 1 ------------- *)
Definition approx (m : nat) (v t : R) : Prop :=
  exists th, Rabs th <= (1 + feps) ^ m - 1 /\ v = t * (1 + th).

Lemma approx_0 t : approx 0 t t.
Proof. exists 0. rewrite Rabs_R0. cbn [pow]. split; [lra|ring]. Qed.

Lemma gam_nonneg m : 0 <= (1 + feps) ^ m - 1.
Proof. pose proof (pow1p_ge1 feps m (Rlt_le _ _ feps_pos)). lra. Qed.

Lemma approx_weaken a b v t : (a <= b)%nat -> approx a v t -> approx b v t.
Proof.
  intros Hab [th [Hth E]]. exists th. split; [|exact E].
  pose proof feps_pos. assert ((1 + feps) ^ a <= (1 + feps) ^ b) by (apply Rle_pow; [lra|exact Hab]).
  lra.
Qed.

Lemma approx_mul a b v w t s d :
  approx a v t -> approx b w s -> Rabs d <= feps ->
  approx (a + b + 1) (v * w * (1 + d)) (t * s).
Proof.
  intros [ta [Ha ->]] [tb [Hb ->]] Hd.
  exists ((1 + ta) * (1 + tb) * (1 + d) - 1). split; [|ring].
  rewrite !pow_add. cbn [pow]. rewrite Rmult_1_r.
  pose proof (gam_nonneg a) as Ga. pose proof (gam_nonneg b) as Gb. pose proof feps_pos as Hu.
  set (A := (1 + feps) ^ a) in *. set (B := (1 + feps) ^ b) in *.
  replace ((1 + ta) * (1 + tb) * (1 + d) - 1)
    with (ta + tb + d + ta * tb + ta * d + tb * d + ta * tb * d) by ring.
  pose proof (Rabs_pos ta) as Pa. pose proof (Rabs_pos tb) as Pb. pose proof (Rabs_pos d) as Pd.
  assert (T : Rabs (ta + tb + d + ta * tb + ta * d + tb * d + ta * tb * d)
              <= Rabs ta + Rabs tb + Rabs d + Rabs (ta * tb) + Rabs (ta * d)
                 + Rabs (tb * d) + Rabs (ta * tb * d)).
  { pose proof (Rabs_triang (ta + tb + d + ta * tb + ta * d + tb * d) (ta * tb * d)).
    pose proof (Rabs_triang (ta + tb + d + ta * tb + ta * d) (tb * d)).
    pose proof (Rabs_triang (ta + tb + d + ta * tb) (ta * d)).
    pose proof (Rabs_triang (ta + tb + d) (ta * tb)).
    pose proof (Rabs_triang (ta + tb) d).
    pose proof (Rabs_triang ta tb). lra. }
  rewrite !Rabs_mult in T.
  eapply Rle_trans; [exact T|].
  assert (M1 : Rabs ta * Rabs tb <= (A - 1) * (B - 1)) by (apply Rmult_le_compat; lra).
  assert (M2 : Rabs ta * Rabs d <= (A - 1) * feps) by (apply Rmult_le_compat; lra).
  assert (M3 : Rabs tb * Rabs d <= (B - 1) * feps) by (apply Rmult_le_compat; lra).
  assert (M4 : Rabs ta * Rabs tb * Rabs d <= (A - 1) * (B - 1) * feps).
  { apply Rmult_le_compat; try lra. apply Rmult_le_pos; lra. }
  nra.
Qed.

Lemma approx_bound m v t : approx m v t -> Rabs (v - t) <= ((1 + feps) ^ m - 1) * Rabs t.
Proof.
  intros [th [Hth ->]]. replace (t * (1 + th) - t) with (th * t) by ring.
  rewrite Rabs_mult. apply Rmult_le_compat_r; [apply Rabs_pos|exact Hth].
Qed.

(* ---- one product without underflow ----------------------------------------------------------- *)
(* the product is finite and its exact value is zero or in the normal range *)
Definition okmul (x y : pfloat) : Prop :=
  is_finite (Prim2B (PrimFloat.mul x y)) = true /\
  (B2R (Prim2B x) * B2R (Prim2B y) = 0 \/
   bpow radix2 (-1022) <= Rabs (B2R (Prim2B x) * B2R (Prim2B y))).

Lemma okmul_rel x y : okmul x y ->
  ffin (PrimFloat.mul x y) /\
  exists d, Rabs d <= feps /\ FR (PrimFloat.mul x y) = FR x * FR y * (1 + d).
Proof.
  intros [F N]. split; [exact F|]. rewrite (mul_finite_round x y F).
  fold (FR x) (FR y) in N. destruct N as [Z|N].
  - exists 0. rewrite Rabs_R0, Z. split; [apply Rlt_le, feps_pos|].
    rewrite round_0 by apply valid_rnd_N. ring.
  - destruct (relative_error_N_FLT_ex radix2 (-1074) 53 eq_refl (fun z => negb (Z.even z))
                (FR x * FR y) N) as [d [Hd Hr]].
    exists d. change (/ 2 * bpow radix2 (- (53) + 1)) with (u_ro radix2 53) in Hd.
    rewrite u_ro_feps in Hd. split; [exact Hd|exact Hr].
Qed.

(* ---- powi ------------------------------------------------------------------------------------- *)
(* every multiplication of [powi_pos a r p] is [okmul] (mirrors the recursion of Base/Num.v) *)
Fixpoint powi_ok (a r : pfloat) (p : positive) : Prop :=
  match p with
  | xH => okmul r a
  | xO p' => okmul a a /\ powi_ok (PrimFloat.mul a a) r p'
  | xI p' => okmul a a /\ okmul r a /\ powi_ok (PrimFloat.mul a a) (PrimFloat.mul r a) p'
  end.

(* ... of [npowi x z] for z >= 0 (z = 0 involves no multiplication) *)
Definition powi_no_underflow (x : pfloat) (z : Z) : Prop :=
  match z with Zpos p => powi_ok x PrimFloat.one p | _ => True end.

Lemma FR_one : FR PrimFloat.one = 1 /\ ffin PrimFloat.one.
Proof.
  unfold FR, ffin. rewrite one_equiv, Prim2B_B2Prim. split.
  - apply Bone_correct.
  - apply is_finite_Bone.
Qed.

Lemma powi_pos_approx (X : R) (p : positive) : forall (a r : pfloat) (s q al rh : nat),
  approx al (FR a) (X ^ s) -> approx rh (FR r) (X ^ q) -> powi_ok a r p ->
  ffin (@powi_pos pfloat FNum a r p) /\
  approx (rh + (al + 1) * Pos.to_nat p) (FR (@powi_pos pfloat FNum a r p)) (X ^ (q + s * Pos.to_nat p)).
Proof.
  induction p as [p IH|p IH|]; intros a r s q al rh Ha Hr Hok; cbn [powi_pos powi_ok nmul FNum] in *.
  - destruct Hok as [Oaa [Ora Hok]].
    destruct (okmul_rel _ _ Oaa) as [_ [d1 [Hd1 E1]]].
    destruct (okmul_rel _ _ Ora) as [_ [d2 [Hd2 E2]]].
    assert (Ha' : approx (al + al + 1) (FR (PrimFloat.mul a a)) (X ^ (s + s))).
    { rewrite E1, pow_add. apply approx_mul; assumption. }
    assert (Hr' : approx (rh + al + 1) (FR (PrimFloat.mul r a)) (X ^ (q + s))).
    { rewrite E2, pow_add. apply approx_mul; assumption. }
    destruct (IH _ _ _ _ _ _ Ha' Hr' Hok) as [F A]. split; [exact F|].
    rewrite Pos2Nat.inj_xI.
    replace (q + s * S (2 * Pos.to_nat p))%nat with (q + s + (s + s) * Pos.to_nat p)%nat by lia.
    eapply approx_weaken; [|exact A]. lia.
  - destruct Hok as [Oaa Hok].
    destruct (okmul_rel _ _ Oaa) as [_ [d1 [Hd1 E1]]].
    assert (Ha' : approx (al + al + 1) (FR (PrimFloat.mul a a)) (X ^ (s + s))).
    { rewrite E1, pow_add. apply approx_mul; assumption. }
    destruct (IH _ _ _ _ _ _ Ha' Hr Hok) as [F A]. split; [exact F|].
    rewrite Pos2Nat.inj_xO.
    replace (q + s * (2 * Pos.to_nat p))%nat with (q + (s + s) * Pos.to_nat p)%nat by lia.
    eapply approx_weaken; [|exact A]. lia.
  - destruct (okmul_rel _ _ Hok) as [F [d [Hd E]]]. split; [exact F|].
    rewrite Pos2Nat.inj_1, E, pow_add.
    replace (s * 1)%nat with s by lia.
    eapply approx_weaken; [|apply approx_mul; eassumption]. lia.
Qed.

Lemma npowi_approx (x : pfloat) (k : nat) : powi_no_underflow x (Z.of_nat k) ->
  ffin (@npowi pfloat FNum x (Z.of_nat k)) /\
  approx k (FR (@npowi pfloat FNum x (Z.of_nat k))) (FR x ^ k).
Proof.
  destruct k as [|k]; intros H.
  - cbn [Z.of_nat npowi n1 FNum pow]. destruct FR_one as [E F]. split; [exact F|].
    rewrite E. apply approx_0.
  - cbn [Z.of_nat npowi powi_no_underflow n1 FNum] in *.
    destruct (powi_pos_approx (FR x) (Pos.of_succ_nat k) x PrimFloat.one 1 0 0 0) as [F A].
    + rewrite pow_1. apply approx_0.
    + cbn [pow]. rewrite (proj1 FR_one). apply approx_0.
    + exact H.
    + split; [exact F|]. rewrite SuccNat2Pos.id_succ in A.
      replace (0 + 1 * S k)%nat with (S k) in A by lia.
      eapply approx_weaken; [|exact A]. lia.
Qed.

(* ---- eval_simple ------------------------------------------------------------------------------- *)
Definition term_fl (cs : list pfloat) (x : pfloat) (i : nat) : pfloat :=
  PrimFloat.mul (nth i cs PrimFloat.zero) (@npowi pfloat FNum x (Z.of_nat i)).

Lemma eval_terms_from_nth (x : pfloat) (cs : list pfloat) : forall i0,
  @eval_terms_from pfloat FNum x i0 cs
  = map (fun j => PrimFloat.mul (nth j cs PrimFloat.zero) (@npowi pfloat FNum x (Z.of_nat (i0 + j))))
        (seq 0 (length cs)).
Proof.
  induction cs as [|c cs IH]; intros i0; [reflexivity|].
  cbn [eval_terms_from length seq map nth nmul FNum]. rewrite Nat.add_0_r. f_equal.
  rewrite IH, <- seq_shift, map_map. apply map_ext. intros j.
  cbn [nth]. rewrite Nat.add_succ_r. reflexivity.
Qed.

Lemma eval_simple_sum_list (cs : list pfloat) (v : option N) (x : pfloat) :
  @eval_simple pfloat FNum {| s_coefs := cs; s_var := v |} x
  = sum_list (map (term_fl cs x) (seq 0 (length cs))).
Proof.
  unfold eval_simple, sum_list. cbn [s_coefs]. rewrite eval_terms_from_nth. reflexivity.
Qed.

Lemma Rsum_map_fold {A : Type} (f : A -> R) (l : list A) :
  Rsum (map f l) = fold_right (fun k acc => f k + acc) 0 l.
Proof. induction l as [|a l IH]; [reflexivity|]. cbn [map fold_right]. rewrite Rsum_cons, IH. reflexivity. Qed.

(* the no-underflow / no-overflow hypothesis of (2): for every term c_i * x^i, all multiplications of
   x^i and the product by c_i are [okmul]; every partial sum of the terms is finite *)
Definition eval_no_underflow (cs : list pfloat) (x : pfloat) : Prop :=
  forall i, (i < length cs)%nat ->
    powi_no_underflow x (Z.of_nat i) /\
    okmul (nth i cs PrimFloat.zero) (@npowi pfloat FNum x (Z.of_nat i)).

Lemma term_approx cs x i : (i < length cs)%nat -> eval_no_underflow cs x ->
  ffin (term_fl cs x i) /\
  approx (length cs) (FR (term_fl cs x i)) (FR (nth i cs PrimFloat.zero) * FR x ^ i).
Proof.
  intros Hi H. destruct (H i Hi) as [Hp Hm].
  destruct (npowi_approx x i Hp) as [_ Ap].
  destruct (okmul_rel _ _ Hm) as [F [d [Hd E]]]. split; [exact F|].
  unfold term_fl. rewrite E.
  eapply approx_weaken; [|apply approx_mul; [apply approx_0|exact Ap|exact Hd]]. lia.
Qed.

(* ======================================================================================== *)
(* Final statements (Flocq vocabulary + the predicates above)                                *)

(* (1) *)
Theorem powi_float_error : forall (x : PrimFloat.float) (k : nat),
  powi_no_underflow x (Z.of_nat k) ->
  is_finite (Prim2B (npowi x (Z.of_nat k))) = true /\
  Rabs (B2R (Prim2B (npowi x (Z.of_nat k))) - B2R (Prim2B x) ^ k)
    <= ((1 + bpow radix2 (-53)) ^ k - 1) * Rabs (B2R (Prim2B x)) ^ k.
Proof.
  intros x k H. destruct (npowi_approx x k H) as [F A]. split; [exact F|].
  rewrite RPow_abs. apply (approx_bound k _ _ A).
Qed.

(* (2) *)
Theorem eval_simple_float_error : forall (p : spoly PrimFloat.float) (x : PrimFloat.float),
  eval_no_underflow (s_coefs p) x ->
  (forall m, (m <= length (s_coefs p))%nat ->
     is_finite (Prim2B (sum_list (firstn m (eval_terms_from x 0 (s_coefs p))))) = true) ->
  is_finite (Prim2B (eval_simple p x)) = true /\
  Rabs (B2R (Prim2B (eval_simple p x))
        - fold_right (fun k acc => B2R (Prim2B (nth k (s_coefs p) n0)) * B2R (Prim2B x) ^ k + acc) 0
            (seq 0 (length (s_coefs p))))
    <= ((1 + bpow radix2 (-53)) ^ (2 * length (s_coefs p)) - 1)
       * fold_right (fun k acc => Rabs (B2R (Prim2B (nth k (s_coefs p) n0))) * Rabs (B2R (Prim2B x)) ^ k + acc) 0
           (seq 0 (length (s_coefs p))).
Proof.
  intros [cs v] x Hok Hpre. cbn [s_coefs] in *.
  rewrite eval_simple_sum_list.
  rewrite eval_terms_from_nth in Hpre. cbn [plus] in Hpre. fold (term_fl cs x) in Hpre.
  set (n := length cs) in *. set (l := map (term_fl cs x) (seq 0 n)) in *.
  assert (Hlen : length l = n). { unfold l. rewrite map_length, seq_length. reflexivity. }
  assert (Hfin : forall y, In y l -> ffin y).
  { intros y Hy. unfold l in Hy. apply in_map_iff in Hy. destruct Hy as [i [<- Hi]].
    apply in_seq in Hi. apply term_approx; [lia|exact Hok]. }
  assert (Hpre' : prefixes_finite l). { intros m Hm. apply Hpre. rewrite <- Hlen. exact Hm. }
  destruct (sum_list_float_error_core l Hfin Hpre') as [Fs Es]. split; [exact Fs|].
  rewrite <- !Rsum_map_fold. fold feps. fold (FR (sum_list l)).
  set (t := fun k => FR (nth k cs PrimFloat.zero) * FR x ^ k).
  change (Rsum (map (fun k => B2R (Prim2B (nth k cs n0)) * B2R (Prim2B x) ^ k) (seq 0 n))) with (RsumN t n).
  assert (EA : Rsum (map (fun k => Rabs (B2R (Prim2B (nth k cs n0))) * Rabs (B2R (Prim2B x)) ^ k) (seq 0 n))
               = RsumN (fun k => Rabs (t k)) n).
  { unfold RsumN. f_equal. apply map_ext. intros k. unfold t, FR. rewrite Rabs_mult, RPow_abs. reflexivity. }
  rewrite EA. clear EA.
  (* the list sums as indexed sums *)
  assert (E1 : Rsum (map FR l) = RsumN (fun k => FR (term_fl cs x k)) n).
  { unfold l, RsumN. rewrite map_map. reflexivity. }
  assert (E2 : Rsum (map absFR l) = RsumN (fun k => Rabs (FR (term_fl cs x k))) n).
  { unfold l, RsumN. rewrite map_map. reflexivity. }
  rewrite E1, E2, Hlen in Es.
  set (G := (1 + feps) ^ n - 1).
  assert (HG : 0 <= G) by apply gam_nonneg.
  destruct (RsumN_perturb (fun k => FR (term_fl cs x k)) t G 0 n) as [P1 P2].
  { intros k Hk. rewrite Rplus_0_r. apply approx_bound. apply term_approx; assumption. }
  rewrite Rmult_0_r, Rplus_0_r in P1, P2.
  pose proof (RsumN_abs_nonneg t n) as HA.
  set (A := RsumN (fun k => Rabs (t k)) n) in *.
  set (SP := RsumN (fun k => Rabs (FR (term_fl cs x k))) n) in *.
  replace (2 * n)%nat with (n + n)%nat by lia. rewrite pow_add.
  replace ((1 + feps) ^ n) with (G + 1) by (unfold G; ring).
  fold G in Es.
  replace (FR (sum_list l) - RsumN t n)
    with ((FR (sum_list l) - RsumN (fun k => FR (term_fl cs x k)) n)
          + (RsumN (fun k => FR (term_fl cs x k)) n - RsumN t n)) by ring.
  eapply Rle_trans; [apply Rabs_triang|].
  assert (E4 : G * SP <= G * ((1 + G) * A)) by (apply Rmult_le_compat_l; assumption).
  nra.
Qed.

(* ---- discharging [okmul] by computation ------------------------------------------------------- *)
Lemma FR_SF2R (x : pfloat) : FR x = SF2R radix2 (Prim2SF x).
Proof. unfold FR. rewrite <- B2SF_Prim2B. symmetry. apply SF2R_B2SF. Qed.

Definition two_m1021 : pfloat := 0x1p-1021%float.

Lemma FR_two_m1021 : FR two_m1021 = bpow radix2 (-1021) /\ ffin two_m1021.
Proof.
  split.
  - rewrite FR_SF2R. replace (Prim2SF two_m1021) with (S754_finite false 4503599627370496 (-1073))
      by (vm_compute; reflexivity).
    unfold SF2R, F2R. cbn [cond_Zopp Fnum Fexp].
    change (IZR (Z.pos 4503599627370496)) with (IZR (radix2 ^ 52)).
    rewrite IZR_Zpower by lia. rewrite <- bpow_plus. reflexivity.
  - unfold ffin. rewrite <- is_finite_equiv. vm_compute. reflexivity.
Qed.

(* the computed product is finite and at least 2^-1021 in magnitude: the exact product is normal *)
Lemma okmul_by_leb (x y : pfloat) :
  PrimFloat.is_finite (PrimFloat.mul x y) = true ->
  PrimFloat.leb two_m1021 (PrimFloat.abs (PrimFloat.mul x y)) = true ->
  okmul x y.
Proof.
  intros F L. rewrite is_finite_equiv in F. split; [exact F|]. right.
  rewrite leb_equiv, abs_equiv in L.
  rewrite Bleb_correct in L; [|apply FR_two_m1021|rewrite is_finite_Babs; exact F].
  rewrite B2R_Babs in L. fold (FR two_m1021) (FR (PrimFloat.mul x y)) in L.
  rewrite (proj1 FR_two_m1021) in L.
  destruct (Rle_bool_spec (bpow radix2 (-1021)) (Rabs (FR (PrimFloat.mul x y)))) as [Hle|]; [|discriminate L].
  rewrite (mul_finite_round x y F) in Hle. fold (FR x) (FR y).
  pose proof (rnd64_abs_le (FR x * FR y)) as Hr.
  pose proof feps_pos as Hu.
  (* 2^-1021 = 2 w, eta = eps * w / ... : write everything with w = 2^-1022 *)
  assert (W1 : bpow radix2 (-1021) = 2 * bpow radix2 (-1022)).
  { change (-1021)%Z with (1 + -1022)%Z. rewrite bpow_plus. reflexivity. }
  assert (W2 : feta = feps * bpow radix2 (-1022)).
  { unfold feta, feps. rewrite <- bpow_plus. reflexivity. }
  assert (Hw : 0 < bpow radix2 (-1022)) by apply bpow_gt_0.
  assert (He : feps <= / 2).
  { unfold feps. change (/ 2) with (bpow radix2 (-1)). apply bpow_le. lia. }
  set (w := bpow radix2 (-1022)) in *. set (T := Rabs (FR x * FR y)) in *.
  assert (0 <= T) by apply Rabs_pos.
  destruct (Rle_or_lt w T) as [|Hlt]; [assumption|exfalso].
  assert (feps * T <= feps * w) by (apply Rmult_le_compat_l; lra).
  assert (feps * w <= / 2 * w) by (apply Rmult_le_compat_r; lra).
  lra.
Qed.

(* (3) non-vacuity: 3x^2 + 2x - 5 (coefficient vector [-5; 2; 3]) at x = 1.5 and at x = 0.1 *)
Definition ex_poly : spoly PrimFloat.float :=
  {| s_coefs := [(-0x1.4p+2)%float; 0x1p+1%float; 0x1.8p+1%float]; s_var := Some 120%N |}.
Definition ex_x1 : PrimFloat.float := 0x1.8p+0%float.
Definition ex_x2 : PrimFloat.float := 0x1.999999999999ap-4%float.

Ltac okmul_compute := apply okmul_by_leb; vm_compute; reflexivity.

Lemma ex_hyps (x : pfloat) : x = ex_x1 \/ x = ex_x2 ->
  eval_no_underflow (s_coefs ex_poly) x /\
  (forall m, (m <= length (s_coefs ex_poly))%nat ->
     is_finite (Prim2B (sum_list (firstn m (eval_terms_from x 0 (s_coefs ex_poly))))) = true).
Proof.
  intros [-> | ->]; (split;
  [ intros i Hi; cbn [length s_coefs ex_poly] in Hi;
    destruct i as [|[|[|i]]]; try lia;
    (split; [cbn [Z.of_nat Pos.of_succ_nat Pos.succ powi_no_underflow powi_ok]; repeat split; try okmul_compute
            | okmul_compute])
  | intros m Hm; cbn [length s_coefs ex_poly] in Hm;
    destruct m as [|[|[|[|m]]]]; try lia; rewrite <- is_finite_equiv; vm_compute; reflexivity ]).
Qed.

Example ex_eval_hyps_1 :
  eval_no_underflow (s_coefs ex_poly) ex_x1 /\
  (forall m, (m <= length (s_coefs ex_poly))%nat ->
     is_finite (Prim2B (sum_list (firstn m (eval_terms_from ex_x1 0 (s_coefs ex_poly))))) = true).
Proof. apply ex_hyps. left; reflexivity. Qed.

Example ex_eval_hyps_2 :
  eval_no_underflow (s_coefs ex_poly) ex_x2 /\
  (forall m, (m <= length (s_coefs ex_poly))%nat ->
     is_finite (Prim2B (sum_list (firstn m (eval_terms_from ex_x2 0 (s_coefs ex_poly))))) = true).
Proof. apply ex_hyps. right; reflexivity. Qed.

Example ex_powi_hyp : powi_no_underflow ex_x2 (Z.of_nat 5).
Proof. cbn [Z.of_nat Pos.of_succ_nat Pos.succ powi_no_underflow powi_ok]. repeat split; okmul_compute. Qed.

Example ex_eval_error_1 :
  is_finite (Prim2B (eval_simple ex_poly ex_x1)) = true /\
  Rabs (B2R (Prim2B (eval_simple ex_poly ex_x1))
        - fold_right (fun k acc => B2R (Prim2B (nth k (s_coefs ex_poly) n0)) * B2R (Prim2B ex_x1) ^ k + acc) 0 (seq 0 3))
    <= ((1 + bpow radix2 (-53)) ^ 6 - 1)
       * fold_right (fun k acc => Rabs (B2R (Prim2B (nth k (s_coefs ex_poly) n0))) * Rabs (B2R (Prim2B ex_x1)) ^ k + acc) 0 (seq 0 3).
Proof. exact (eval_simple_float_error ex_poly ex_x1 (proj1 ex_eval_hyps_1) (proj2 ex_eval_hyps_1)). Qed.
