(* Proofs/StdDevFloat.v — C18 at the floating-point level: the standard deviation, binary64 instance of
   [std_dev] (Model/Stats.v).  (A separate file and not an appendix of Proofs/StatsFloat.v because it needs
   [okmul]/[okdiv]/[approx] of Proofs/PolyFloat.v and SubstFloat.v, which themselves import StatsFloat.v.)

       std_dev l sample = Some (sqrt ( (sum_i fl((x_i - mh)^2)) / d ))      mh = the COMPUTED mean, d = n or n-1
       (x - mh).powi(2) is  1.0 * ((x-mh)*(x-mh)) ;  the product by 1.0 is exact ([mul_one_l]).

   With S = sqrt( sum_i (x_i - mh)^2 / d ), the exact deviation of the data AROUND THE COMPUTED MEAN mh,
       | v - S | <= ((1+eps)^(n+5) - 1) * S ,     eps = 2^-53, n = length l :
   subtraction 1 (counted twice in the square), squaring 1, summation n, division 1, square root 1
   (the square root would halve the accumulated error of its argument; the cruder count is kept).
   Together with arith_mean_float_error (distance of mh from the true mean) this is the two-step account of
   "the standard deviation equals its defining formula to within rounding".
   Hypotheses: data and every x_i - mh finite, every square [okmul] (finite, exact value zero or >= 2^-1022),
   partial sums finite, the division [okdiv], the square root finite; n < 2^53; d > 0.
   The square root itself never underflows ([sqrt_rel]). *)
From Coq Require Import ZArith List Bool Arith Floats Reals Lia Lra.
From Flocq Require Import Core Relative BinarySingleNaN PrimFloat.
From SV Require Import Base.Num Base.Outcome Model.Stats Proofs.Stats Proofs.StatsFloat Proofs.Arr2DFloat
                       Proofs.PolyFloat Proofs.SubstFloat Proofs.DefiniteFloat.
Import ListNotations.
Local Open Scope R_scope.

Local Notation pfloat := PrimFloat.float.
Local Notation B64 := (binary_float FloatOps.prec FloatOps.emax).
Local Notation fexp64 := (SpecFloat.fexp FloatOps.prec FloatOps.emax).
Local Notation rnd64 := (round radix2 fexp64 ZnearestE).

(* ---- small facts -------------------------------------------------------------------------- *)
Lemma approx_of_bound m v t : Rabs (v - t) <= ((1 + feps) ^ m - 1) * Rabs t -> approx m v t.
Proof.
  intros H. destruct (Req_dec t 0) as [->|Ht].
  - rewrite Rabs_R0, Rmult_0_r, Rminus_0_r in H.
    assert (v = 0). { destruct (Req_dec v 0) as [Hv|Hv]; [exact Hv|]. pose proof (Rabs_pos_lt v Hv). lra. }
    subst v. exists 0. rewrite Rabs_R0. split; [apply gam_nonneg|ring].
  - exists ((v - t) / t). split; [|field; exact Ht].
    unfold Rdiv. rewrite Rabs_mult, Rabs_inv.
    assert (0 < Rabs t) by (apply Rabs_pos_lt; exact Ht).
    apply (Rmult_le_reg_r (Rabs t)); [assumption|].
    rewrite Rmult_assoc, Rinv_l, Rmult_1_r by lra. exact H.
Qed.

Lemma sqrt1p_bound th : 0 <= 1 + th -> Rabs (sqrt (1 + th) - 1) <= Rabs th.
Proof.
  intros H. pose proof (sqrt_pos (1 + th)) as Hr. pose proof (sqrt_sqrt _ H) as E.
  set (r := sqrt (1 + th)) in *.
  assert (Eth : th = r * r - 1) by lra. rewrite Eth.
  destruct (Rle_or_lt 1 r).
  - rewrite !Rabs_pos_eq by nra. nra.
  - rewrite (Rabs_left (r - 1)) by lra. rewrite (Rabs_left (r * r - 1)) by nra. nra.
Qed.

Lemma sqrt_approx a th G : 0 <= a -> Rabs th <= G ->
  Rabs (sqrt (a * (1 + th)) - sqrt a) <= G * sqrt a.
Proof.
  intros Ha Hth. pose proof (sqrt_pos a) as Hs. pose proof (Rabs_pos th) as Hp.
  destruct (Rle_or_lt 0 (1 + th)) as [H|H].
  - rewrite sqrt_mult_alt by exact Ha.
    replace (sqrt a * sqrt (1 + th) - sqrt a) with (sqrt a * (sqrt (1 + th) - 1)) by ring.
    rewrite Rabs_mult, (Rabs_pos_eq (sqrt a)) by exact Hs.
    pose proof (sqrt1p_bound th H). rewrite (Rmult_comm G).
    apply Rmult_le_compat_l; lra.
  - rewrite (sqrt_neg_0 (a * (1 + th))) by nra.
    rewrite Rminus_0_l, Rabs_Ropp, (Rabs_pos_eq _ Hs).
    assert (1 < Rabs th). { rewrite Rabs_left by lra. lra. }
    nra.
Qed.

Lemma Rsum_perturb_list {A : Type} (P t : A -> R) (u : R) (l : list A) :
  (forall x, In x l -> Rabs (P x - t x) <= u * Rabs (t x)) ->
  Rabs (Rsum (map P l) - Rsum (map t l)) <= u * Rsum (map (fun x => Rabs (t x)) l) /\
  Rsum (map (fun x => Rabs (P x)) l) <= (1 + u) * Rsum (map (fun x => Rabs (t x)) l).
Proof.
  induction l as [|a l IH]; intros H; cbn [map].
  - unfold Rsum; cbn [fold_right]. rewrite Rminus_0_r, Rabs_R0. lra.
  - destruct IH as [I1 I2]. { intros x Hx. apply H. right; exact Hx. }
    specialize (H a (or_introl eq_refl)). rewrite !Rsum_cons. split.
    + replace (P a + Rsum (map P l) - (t a + Rsum (map t l)))
        with ((P a - t a) + (Rsum (map P l) - Rsum (map t l))) by ring.
      eapply Rle_trans; [apply Rabs_triang|]. lra.
    + assert (Hp : Rabs (P a) <= Rabs (t a) + Rabs (P a - t a)).
      { replace (P a) with (t a + (P a - t a)) at 1 by ring. apply Rabs_triang. }
      lra.
Qed.

(* 1.0 * z is exact *)
Lemma mul_one_l (z : pfloat) : ffin z ->
  ffin (PrimFloat.mul PrimFloat.one z) /\ FR (PrimFloat.mul PrimFloat.one z) = FR z.
Proof.
  intros Fz. destruct FR_one as [E1 F1].
  assert (Er : rnd64 (FR PrimFloat.one * FR z) = FR z).
  { rewrite E1, Rmult_1_l. apply round_generic; [apply valid_rnd_N|]. apply (generic_format_B2R _ _ (Prim2B z)). }
  assert (F : ffin (PrimFloat.mul PrimFloat.one z)).
  { apply mul_finite_iff. split; [exact F1|]. split; [exact Fz|]. rewrite Er. apply (abs_B2R_lt_emax _ _ (Prim2B z)). }
  split; [exact F|]. rewrite (mul_finite_round _ _ F). exact Er.
Qed.

(* the square root of a binary64 number: relative error only (no underflow is possible) *)
Lemma sqrt_rel (q : pfloat) :
  exists d, Rabs d <= feps /\ FR (PrimFloat.sqrt q) = sqrt (FR q) * (1 + d).
Proof.
  unfold FR. rewrite sqrt_equiv.
  destruct (Bsqrt_correct FloatOps.prec FloatOps.emax Hprec Hmax mode_NE (Prim2B q)) as [E _].
  rewrite E. fold (FR q). set (z := sqrt (FR q)).
  destruct (Rle_or_lt (FR q) 0) as [Hq|Hq].
  - exists 0. rewrite Rabs_R0. split; [apply Rlt_le, feps_pos|].
    unfold z. rewrite (sqrt_neg_0 _ Hq), round_0 by apply valid_rnd_N. ring.
  - assert (Hmin : bpow radix2 (-1074) <= FR q).
    { apply (generic_format_ge_bpow radix2 fexp64 (-1074)).
      - intros e. unfold SpecFloat.fexp, SpecFloat.emin. change FloatOps.prec with 53%Z. change FloatOps.emax with 1024%Z. lia.
      - exact Hq.
      - apply (generic_format_B2R _ _ (Prim2B q)). }
    assert (Hz : bpow radix2 (-1022) <= Rabs z).
    { rewrite Rabs_pos_eq by apply sqrt_pos.
      apply Rle_trans with (bpow radix2 (-537)); [apply bpow_le; lia|].
      rewrite <- (sqrt_bpow radix2 (-537)). apply sqrt_le_1_alt. exact Hmin. }
    destruct (relative_error_N_FLT_ex radix2 (-1074) 53 eq_refl (fun t => negb (Z.even t)) z Hz) as [d [Hd Hr]].
    exists d. change (/ 2 * bpow radix2 (- (53) + 1)) with (u_ro radix2 53) in Hd.
    rewrite u_ro_feps in Hd. split; [exact Hd|exact Hr].
Qed.

(* ---- one squared deviation ------------------------------------------------------------------ *)
Definition sqdev (m x : pfloat) : pfloat := @npowi pfloat FNum (PrimFloat.sub x m) 2.

Lemma sqdev_eq m x : sqdev m x = PrimFloat.mul PrimFloat.one (PrimFloat.mul (PrimFloat.sub x m) (PrimFloat.sub x m)).
Proof. reflexivity. Qed.

Lemma sqdev_approx (m x : pfloat) :
  ffin x -> ffin m -> ffin (PrimFloat.sub x m) -> okmul (PrimFloat.sub x m) (PrimFloat.sub x m) ->
  ffin (sqdev m x) /\ approx 3 (FR (sqdev m x)) ((FR x - FR m) ^ 2).
Proof.
  intros Fx Fm Fy Hok. rewrite sqdev_eq.
  destruct (okmul_rel _ _ Hok) as [Fs [d2 [Hd2 E2]]].
  destruct (mul_one_l _ Fs) as [F1 E1]. split; [exact F1|]. rewrite E1, E2.
  destruct (sub_finite_rel x m Fx Fm Fy) as [d1 [Hd1 Ey]].
  assert (Ay : approx 1 (FR (PrimFloat.sub x m)) (FR x - FR m)).
  { exists d1. cbn [pow]. split; [lra|exact Ey]. }
  replace ((FR x - FR m) ^ 2) with ((FR x - FR m) * (FR x - FR m)) by ring.
  apply (approx_mul 1 1); assumption.
Qed.

(* ======================================================================================== *)
Theorem std_dev_float_error : forall (l : list PrimFloat.float) (sample : bool) (m : PrimFloat.float),
  arith_mean l = Some m -> is_finite (Prim2B m) = true ->
  (0 < std_denominator (length l) sample)%nat ->
  (Z.of_nat (length l) < 2 ^ 53)%Z ->
  (forall x, In x l -> is_finite (Prim2B x) = true /\
                       is_finite (Prim2B (nsub x m)) = true /\ okmul (nsub x m) (nsub x m)) ->
  (forall k, (k <= length l)%nat ->
     is_finite (Prim2B (sum_list (firstn k (map (fun x => npowi (nsub x m) 2) l)))) = true) ->
  okdiv (sum_list (map (fun x => npowi (nsub x m) 2) l)) (nofnat (std_denominator (length l) sample)) ->
  is_finite (Prim2B (nsqrt (ndiv (sum_list (map (fun x => npowi (nsub x m) 2) l))
                                 (nofnat (std_denominator (length l) sample))))) = true ->
  exists v, std_dev l sample = Some v /\ is_finite (Prim2B v) = true /\
    Rabs (B2R (Prim2B v)
          - sqrt (Rsum (map (fun x => (B2R (Prim2B x) - B2R (Prim2B m)) ^ 2) l)
                  / INR (std_denominator (length l) sample)))
    <= ((1 + bpow radix2 (-53)) ^ (length l + 5) - 1)
       * sqrt (Rsum (map (fun x => (B2R (Prim2B x) - B2R (Prim2B m)) ^ 2) l)
               / INR (std_denominator (length l) sample)).
Proof.
  intros l sample m Hmean Fm Hd Hlen Hdata Hpre Hdiv Fv.
  set (d := std_denominator (length l) sample) in *.
  set (sq := map (fun x => npowi (nsub x m) 2) l) in *.
  exists (PrimFloat.sqrt (PrimFloat.div (sum_list sq) (nofnat d))).
  split.
  { unfold std_dev. fold d. destruct d as [|d']; [lia|]. rewrite Hmean. reflexivity. }
  split; [exact Fv|].
  fold feps. fold (FR m).
  change (fun x : pfloat => (B2R (Prim2B x) - FR m) ^ 2) with (fun x : pfloat => (FR x - FR m) ^ 2).
  set (t := fun x : pfloat => (FR x - FR m) ^ 2).
  set (T := Rsum (map t l)).
  set (n := length l) in *.
  (* terms *)
  assert (Hterm : forall x, In x l -> ffin (sqdev m x) /\ approx 3 (FR (sqdev m x)) (t x)).
  { intros x Hx. destruct (Hdata x Hx) as [Fx [Fy Hok]]. apply sqdev_approx; assumption. }
  assert (Hsq : sq = map (sqdev m) l) by reflexivity.
  assert (Hfin : forall y, In y sq -> ffin y).
  { intros y Hy. rewrite Hsq in Hy. apply in_map_iff in Hy. destruct Hy as [x [<- Hx]]. apply Hterm, Hx. }
  assert (Lsq : length sq = n) by (unfold sq; apply map_length).
  assert (Hpre' : prefixes_finite sq). { intros k Hk. apply Hpre. rewrite <- Lsq. exact Hk. }
  destruct (sum_list_float_error_core sq Hfin Hpre') as [Fs Es]. rewrite Lsq in Es.
  rewrite Hsq, !map_map in Es. rewrite <- Hsq in Es.
  destruct (Rsum_perturb_list (fun x => FR (sqdev m x)) t ((1 + feps) ^ 3 - 1) l) as [P1 P2].
  { intros x Hx. apply approx_bound, Hterm, Hx. }
  assert (EA : Rsum (map (fun x => Rabs (t x)) l) = T).
  { unfold T. f_equal. apply map_ext. intros x. apply Rabs_pos_eq. unfold t. apply pow2_ge_0. }
  rewrite EA in P1, P2. fold T in P1.
  assert (HT : 0 <= T).
  { rewrite <- EA. clear. induction l as [|a l IH]; cbn [map]; [unfold Rsum; cbn; lra|].
    rewrite Rsum_cons. pose proof (Rabs_pos (t a)). lra. }
  change (fun x : pfloat => absFR (sqdev m x)) with (fun x : pfloat => Rabs (FR (sqdev m x))) in Es.
  (* the sum *)
  assert (As : approx (n + 3) (FR (sum_list sq)) T).
  { apply approx_of_bound. rewrite (Rabs_pos_eq T HT).
    pose proof (gam_nonneg n) as Gn. pose proof (gam_nonneg 3) as G3.
    rewrite pow_add. set (Qn := (1 + feps) ^ n) in *. set (Q3 := (1 + feps) ^ 3) in *.
    set (SP := Rsum (map (fun x => Rabs (FR (sqdev m x))) l)) in *.
    replace (FR (sum_list sq) - T)
      with ((FR (sum_list sq) - Rsum (map (fun x => FR (sqdev m x)) l))
            + (Rsum (map (fun x => FR (sqdev m x)) l) - T)) by ring.
    eapply Rle_trans; [apply Rabs_triang|].
    assert (E4 : (Qn - 1) * SP <= (Qn - 1) * ((1 + (Q3 - 1)) * T)) by (apply Rmult_le_compat_l; lra).
    nra. }
  (* the quotient *)
  assert (Hdn : (d <= n)%nat). { unfold d, std_denominator. destruct sample; lia. }
  destruct (nofnat_float_exact_core d ltac:(lia)) as [_ ED].
  destruct (div_finite_rel _ _ Hdiv) as [e [He Eq]]. rewrite ED in Eq.
  assert (HD : 0 < INR d) by (apply lt_0_INR; exact Hd).
  assert (Aq : approx (n + 4) (FR (PrimFloat.div (sum_list sq) (nofnat d))) (T / INR d)).
  { rewrite Eq. unfold Rdiv. replace (n + 4)%nat with (n + 3 + 0 + 1)%nat by lia.
    apply approx_mul; [exact As|apply approx_0|exact He]. }
  (* the square root *)
  destruct (sqrt_rel (PrimFloat.div (sum_list sq) (nofnat d))) as [d4 [Hd4 Ev]].
  set (qR := FR (PrimFloat.div (sum_list sq) (nofnat d))) in *.
  assert (Ha : 0 <= T / INR d). { apply Rmult_le_pos; [exact HT|]. apply Rlt_le, Rinv_0_lt_compat, HD. }
  set (S0 := sqrt (T / INR d)).
  assert (Az : approx (n + 4) (sqrt qR) S0).
  { destruct Aq as [th [Hth Eqq]]. apply approx_of_bound. rewrite Eqq.
    rewrite (Rabs_pos_eq S0) by apply sqrt_pos. apply sqrt_approx; assumption. }
  assert (Av : approx (n + 5) (FR (PrimFloat.sqrt (PrimFloat.div (sum_list sq) (nofnat d)))) (S0 * 1)).
  { rewrite Ev. replace (sqrt qR * (1 + d4)) with (sqrt qR * 1 * (1 + d4)) by ring.
    replace (n + 5)%nat with (n + 4 + 0 + 1)%nat by lia.
    apply approx_mul; [exact Az|apply approx_0|exact Hd4]. }
  rewrite Rmult_1_r in Av. pose proof (approx_bound _ _ _ Av) as B.
  rewrite (Rabs_pos_eq S0) in B by apply sqrt_pos. exact B.
Qed.

(* ---- non-vacuity: [0.1; 0.2; 0.3] (ex_data of Proofs/StatsFloat.v), population and sample forms ---- *)
Definition ex_mean : PrimFloat.float := PrimFloat.div (sum_list ex_data) (nofnat 3).

Ltac fin_compute := rewrite <- is_finite_equiv; vm_compute; reflexivity.

Example ex_std_dev_hyps : forall sample : bool,
  arith_mean ex_data = Some ex_mean /\ is_finite (Prim2B ex_mean) = true /\
  (0 < std_denominator (length ex_data) sample)%nat /\
  (Z.of_nat (length ex_data) < 2 ^ 53)%Z /\
  (forall x, In x ex_data -> is_finite (Prim2B x) = true /\
       is_finite (Prim2B (nsub x ex_mean)) = true /\ okmul (nsub x ex_mean) (nsub x ex_mean)) /\
  (forall k, (k <= length ex_data)%nat ->
     is_finite (Prim2B (sum_list (firstn k (map (fun x => npowi (nsub x ex_mean) 2) ex_data)))) = true) /\
  okdiv (sum_list (map (fun x => npowi (nsub x ex_mean) 2) ex_data)) (nofnat (std_denominator (length ex_data) sample)) /\
  is_finite (Prim2B (nsqrt (ndiv (sum_list (map (fun x => npowi (nsub x ex_mean) 2) ex_data))
                                 (nofnat (std_denominator (length ex_data) sample))))) = true.
Proof.
  intros sample.
  split; [reflexivity|]. split; [fin_compute|]. split; [destruct sample; cbn; lia|]. split; [cbn; lia|].
  split.
  { intros x [<-|[<-|[<-|[]]]]; (split; [fin_compute|]; split; [fin_compute|apply okmul_by_leb; vm_compute; reflexivity]). }
  split.
  { intros k Hk. assert (Hk' : (k <= 3)%nat) by exact Hk. destruct k as [|[|[|[|k]]]]; try lia; fin_compute. }
  split; destruct sample; try (apply okdiv_by_leb; vm_compute; reflexivity); fin_compute.
Qed.

Example ex_std_dev_error : forall sample : bool, exists v, std_dev ex_data sample = Some v /\ is_finite (Prim2B v) = true.
Proof.
  intros sample. destruct (ex_std_dev_hyps sample) as [H1 [H2 [H3 [H4 [H5 [H6 [H7 H8]]]]]]].
  destruct (std_dev_float_error ex_data sample ex_mean H1 H2 H3 H4 H5 H6 H7 H8) as [v [E [F _]]].
  exists v. split; assumption.
Qed.
