(* Proofs/ParseFloat.v — float-level FIDELITY of the coefficients stored by the univariate parser.

   The parse result is [dense_coeffs terms] (Model/Parse.v): position k holds
       fold_left nadd [c_1; ..; c_t] n0          (Proofs/SimpleParse.v, dense_nth; n0 = +0.0 for FNum)
   where c_1..c_t are, in source order, the coefficients of the terms of power k, and each
   written coefficient is  c_i = (-)dec2float m_i e_i  (Model/GrammarS.v: sgn neg (nofdec m e);
   the sign is applied by PrimFloat.opp, which is exact).

     eps = 2^-53.
   (1) decimal_sum_combine      pure reals: per-term relative error u, summation error gam relative to the
                                sum of magnitudes  ==>  total error ((1+u)(1+gam) - 1) * sum |x_i|
   (2) fsum0_float_error        left-to-right binary64 summation STARTING FROM +0.0 (what the model does:
                                vec![0.0; n], coeffs[p] += c), |fl - sum| <= ((1+eps)^t - 1) sum|x_i|
                                (Proofs/StatsFloat.v proves the same for the start -0.0 of Iterator::sum)
   (3) parse_float_coeff_error  |B2R coeff_k - sum_i (+-) m_i 10^e_i| <= ((1+eps)^(t+1) - 1) * sum_i m_i 10^e_i
                                for decimals that are 0 or in [2^-1022, 2^1023], finite partial sums
       parse_float_coeff_error_src   the same on the source terms [terms_of src] of the grammar
   (4) Example "0.1x + 0.2x - 3.25".                                                              *)
From Coq Require Import ZArith NArith List Bool Reals Floats Lia Lra.
From Flocq Require Import Core BinarySingleNaN PrimFloat.
From SV Require Import Base.Num Base.Str Model.Stats Model.Parse Model.GrammarS
  Proofs.Stats Proofs.StatsFloat Proofs.DecFloat Proofs.SimpleParse.
Import ListNotations.
Local Open Scope R_scope.

Local Notation pfloat := PrimFloat.float.
Local Notation dec_val := Proofs.DecFloat.dec_val.

(* ---- (1) pure reals -------------------------------------------------------- *)
Lemma Rsum_map_rel {A : Type} (f g : A -> R) (u : R) (l : list A) :
  (forall a, In a l -> Rabs (f a - g a) <= u * Rabs (g a)) ->
  Rabs (Rsum (map f l) - Rsum (map g l)) <= u * Rsum (map (fun a => Rabs (g a)) l) /\
  Rsum (map (fun a => Rabs (f a)) l) <= (1 + u) * Rsum (map (fun a => Rabs (g a)) l).
Proof.
  induction l as [|a l IH]; intros H; cbn [map]; rewrite ?Rsum_cons.
  - unfold Rsum; cbn [fold_right]. rewrite Rminus_0_r, Rabs_R0. lra.
  - destruct IH as [I1 I2]. { intros b Hb. apply H. right; exact Hb. }
    pose proof (H a (or_introl eq_refl)) as Ha.
    split.
    + replace (f a + Rsum (map f l) - (g a + Rsum (map g l)))
        with ((f a - g a) + (Rsum (map f l) - Rsum (map g l))) by ring.
      eapply Rle_trans; [apply Rabs_triang|]. lra.
    + assert (Rabs (f a) <= Rabs (g a) + Rabs (f a - g a)).
      { replace (f a) with (g a + (f a - g a)) at 1 by ring. apply Rabs_triang. }
      lra.
Qed.

Lemma decimal_sum_combine {A : Type} (f g : A -> R) (u gam s : R) (l : list A) :
  0 <= u -> 0 <= gam ->
  (forall a, In a l -> Rabs (f a - g a) <= u * Rabs (g a)) ->
  Rabs (s - Rsum (map f l)) <= gam * Rsum (map (fun a => Rabs (f a)) l) ->
  Rabs (s - Rsum (map g l)) <= ((1 + u) * (1 + gam) - 1) * Rsum (map (fun a => Rabs (g a)) l).
Proof.
  intros Hu Hg H Hs. destruct (Rsum_map_rel f g u l H) as [I1 I2].
  replace (s - Rsum (map g l)) with ((s - Rsum (map f l)) + (Rsum (map f l) - Rsum (map g l))) by ring.
  eapply Rle_trans; [apply Rabs_triang|].
  set (G := Rsum (map (fun a => Rabs (g a)) l)) in *.
  set (F := Rsum (map (fun a => Rabs (f a)) l)) in *.
  assert (H1 : gam * F <= gam * ((1 + u) * G)) by (apply Rmult_le_compat_l; assumption).
  lra.
Qed.

(* ---- (2) summation from +0.0 ------------------------------------------------ *)
Definition fsum0 (l : list pfloat) : pfloat := fold_left PrimFloat.add l PrimFloat.zero.

Lemma fsum0_snoc (l : list pfloat) (x : pfloat) : fsum0 (l ++ [x]) = PrimFloat.add (fsum0 l) x.
Proof. unfold fsum0. rewrite fold_left_app. reflexivity. Qed.

Lemma FR_zero : FR PrimFloat.zero = 0 /\ ffin PrimFloat.zero.
Proof. unfold FR, ffin. rewrite zero_equiv, Prim2B_B2Prim. split; reflexivity. Qed.

Definition prefixes_finite0 (l : list pfloat) : Prop :=
  forall k, (k <= length l)%nat -> ffin (fsum0 (firstn k l)).

Lemma prefixes_finite0_snoc_inv (l : list pfloat) x :
  prefixes_finite0 (l ++ [x]) -> prefixes_finite0 l /\ ffin (PrimFloat.add (fsum0 l) x).
Proof.
  intros H. split.
  - intros k Hk. specialize (H k). rewrite app_length in H. cbn [length] in H.
    rewrite firstn_app in H. replace (k - length l)%nat with 0%nat in H by lia.
    cbn [firstn] in H. rewrite app_nil_r in H. apply H. lia.
  - specialize (H (length (l ++ [x])) (le_n _)).
    rewrite firstn_all in H. rewrite fsum0_snoc in H. exact H.
Qed.

Lemma fsum0_float_error (l : list pfloat) :
  (forall x, In x l -> ffin x) -> prefixes_finite0 l ->
  ffin (fsum0 l) /\
  Rabs (FR (fsum0 l) - Rsum (map FR l)) <= ((1 + feps) ^ length l - 1) * Rsum (map absFR l).
Proof.
  induction l as [|x l IH] using rev_ind; intros Hfin Hpre.
  - destruct FR_zero as [Z0 F0]. split; [exact F0|].
    cbn [length map pow]. change (fsum0 (@nil pfloat)) with PrimFloat.zero.
    rewrite Z0. unfold Rsum; cbn [fold_right]. rewrite Rminus_0_r, Rabs_R0. lra.
  - destruct (prefixes_finite0_snoc_inv _ _ Hpre) as [Hpl Hfa].
    assert (Hfl : forall y, In y l -> ffin y).
    { intros y Hy. apply Hfin, in_or_app. left; exact Hy. }
    assert (Hfx : ffin x). { apply Hfin, in_or_app. right; left; reflexivity. }
    destruct (IH Hfl Hpl) as [Fs Es].
    rewrite fsum0_snoc. split; [exact Hfa|].
    destruct (add_finite_rel _ _ Fs Hfx Hfa) as [d [Hd Hr]].
    rewrite Hr, !map_app, app_length. cbn [map length].
    rewrite !Rsum_snoc. replace (length l + 1)%nat with (S (length l)) by lia.
    rewrite <- tech_pow_Rmult. rewrite (Rmult_comm (1 + feps)).
    apply step_bound.
    + apply Rlt_le, feps_pos.
    + apply pow1p_ge1, Rlt_le, feps_pos.
    + exact Hd.
    + rewrite map_absFR. apply Rsum_abs_le.
    + exact Es.
Qed.

(* ---- (3) the written coefficients -------------------------------------------- *)
(* one written coefficient: (negative?, m, e) stands for (-) m * 10^e *)
Definition dterm : Type := (bool * Z * Z)%type.
Definition dcoef (d : dterm) : pfloat :=
  let '(neg, m, e) := d in if neg then PrimFloat.opp (dec2float m e) else dec2float m e.
Definition dreal (d : dterm) : R :=
  let '(neg, m, e) := d in if neg then - dec_val m e else dec_val m e.
Definition dmag (d : dterm) : R := let '(_, m, e) := d in dec_val m e.
(* the decimal is 0 or lies in the normal range of binary64 *)
Definition dec_ok (d : dterm) : Prop :=
  let '(_, m, e) := d in
  m = 0%Z \/ ((0 < m)%Z /\ bpow radix2 (-1022) <= dec_val m e <= bpow radix2 1023).

(* the four definitions, by their unfoldings *)
Lemma dterm_defs (neg : bool) (m e : Z) :
  dcoef (neg, m, e) = (if neg then PrimFloat.opp (dec2float m e) else dec2float m e) /\
  dreal (neg, m, e) = (if neg then - dec_val m e else dec_val m e) /\
  dmag (neg, m, e) = dec_val m e /\
  (dec_ok (neg, m, e) <->
     m = 0%Z \/ ((0 < m)%Z /\ bpow radix2 (-1022) <= dec_val m e <= bpow radix2 1023)).
Proof. repeat split; auto. Qed.

Lemma FR_opp (x : pfloat) : FR (PrimFloat.opp x) = - FR x /\ (ffin x -> ffin (PrimFloat.opp x)).
Proof.
  unfold FR, ffin. rewrite opp_equiv. split.
  - apply B2R_Bopp.
  - intros H. rewrite is_finite_Bopp. exact H.
Qed.

Lemma dmag_nonneg d : dec_ok d -> 0 <= dmag d /\ Rabs (dreal d) = dmag d.
Proof.
  destruct d as [[neg m] e]. cbn [dec_ok dmag dreal]. intros H.
  assert (P : 0 <= dec_val m e).
  { destruct H as [->|[_ [H _]]].
    - unfold dec_val. lra.
    - eapply Rle_trans; [apply Rlt_le, (bpow_gt_0 radix2 (-1022))|exact H]. }
  split; [exact P|]. destruct neg.
  - rewrite Rabs_Ropp. apply Rabs_pos_eq, P.
  - apply Rabs_pos_eq, P.
Qed.

Lemma dcoef_ok (d : dterm) : dec_ok d ->
  ffin (dcoef d) /\ Rabs (FR (dcoef d) - dreal d) <= feps * Rabs (dreal d).
Proof.
  intros Hok. destruct (dmag_nonneg d Hok) as [_ Hm]. rewrite Hm. clear Hm.
  destruct d as [[neg m] e]. cbn [dec_ok dcoef dreal dmag] in *.
  assert (B : ffin (dec2float m e) /\ Rabs (FR (dec2float m e) - dec_val m e) <= feps * dec_val m e).
  { destruct Hok as [->|[Hm [Hlo Hhi]]].
    - cbn [dec2float]. destruct FR_zero as [Z0 F0]. split; [exact F0|].
      rewrite Z0. unfold dec_val. rewrite Rmult_0_l, Rminus_0_r, Rabs_R0. lra.
    - assert (Hov : Rabs (round radix2 (FLT_exp (-1074) 53) ZnearestE (dec_val m e)) < bpow radix2 1024).
      { apply dec_no_overflow. split; [|exact Hhi].
        eapply Rle_trans; [apply Rlt_le, (bpow_gt_0 radix2 (-1022))|exact Hlo]. }
      split.
      + apply (dec2float_correct m e Hm Hov).
      + apply (dec2float_rel_error m e Hm Hov Hlo). }
  destruct B as [Bf Be]. destruct neg.
  - destruct (FR_opp (dec2float m e)) as [E F]. split; [apply F, Bf|].
    rewrite E. replace (- FR (dec2float m e) - - dec_val m e) with (- (FR (dec2float m e) - dec_val m e)) by ring.
    rewrite Rabs_Ropp. exact Be.
  - split; assumption.
Qed.

(* the float sum, from +0.0 in source order, of written coefficients *)
Theorem dcoef_sum_error (ds : list dterm) :
  (forall d, In d ds -> dec_ok d) ->
  (forall j, (j <= length ds)%nat ->
     BinarySingleNaN.is_finite (Prim2B (fold_left PrimFloat.add (firstn j (map dcoef ds)) PrimFloat.zero)) = true) ->
  BinarySingleNaN.is_finite (Prim2B (fold_left PrimFloat.add (map dcoef ds) PrimFloat.zero)) = true /\
  Rabs (B2R (Prim2B (fold_left PrimFloat.add (map dcoef ds) PrimFloat.zero)) - Rsum (map dreal ds))
    <= ((1 + bpow radix2 (-53)) ^ S (length ds) - 1) * Rsum (map dmag ds).
Proof.
  intros Hok Hpre.
  assert (Hfin : forall x, In x (map dcoef ds) -> ffin x).
  { intros x Hx. apply in_map_iff in Hx. destruct Hx as [d [<- Hd]]. apply dcoef_ok, Hok, Hd. }
  assert (Hp : prefixes_finite0 (map dcoef ds)).
  { intros j Hj. rewrite map_length in Hj. exact (Hpre j Hj). }
  destruct (fsum0_float_error _ Hfin Hp) as [Ff Fe]. split; [exact Ff|].
  rewrite map_length in Fe. unfold fsum0 in Fe.
  fold (FR (fold_left PrimFloat.add (map dcoef ds) PrimFloat.zero)). fold feps.
  pose proof feps_pos as He.
  pose proof (pow1p_ge1 feps (length ds) (Rlt_le _ _ He)) as HP.
  pose proof (decimal_sum_combine (fun d => FR (dcoef d)) dreal feps ((1 + feps) ^ length ds - 1)
                (FR (fold_left PrimFloat.add (map dcoef ds) PrimFloat.zero)) ds) as C.
  rewrite <- tech_pow_Rmult.
  replace ((1 + feps) * (1 + ((1 + feps) ^ length ds - 1)) - 1)
    with ((1 + feps) * (1 + feps) ^ length ds - 1) in C by ring.
  replace (Rsum (map dmag ds)) with (Rsum (map (fun a => Rabs (dreal a)) ds)).
  - apply C.
    + lra.
    + lra.
    + intros d Hd. apply dcoef_ok, Hok, Hd.
    + rewrite !map_map in Fe. exact Fe.
  - f_equal. apply map_ext_in. intros d Hd. apply dmag_nonneg, Hok, Hd.
Qed.

(* the stored coefficient at position k of the parse result, any term list *)
Theorem parse_float_coeff_error (ts : list (pfloat * nat)) (k : nat) (ds : list dterm) :
  map fst (filter (fun t => Nat.eqb (snd t) k) ts) = map dcoef ds ->
  (forall d, In d ds -> dec_ok d) ->
  (forall j, (j <= length ds)%nat ->
     BinarySingleNaN.is_finite (Prim2B (fold_left PrimFloat.add (firstn j (map dcoef ds)) PrimFloat.zero)) = true) ->
  BinarySingleNaN.is_finite (Prim2B (nth k (dense_coeffs ts) n0)) = true /\
  Rabs (B2R (Prim2B (nth k (dense_coeffs ts) n0)) - Rsum (map dreal ds))
    <= ((1 + bpow radix2 (-53)) ^ S (length ds) - 1) * Rsum (map dmag ds).
Proof.
  intros E Hok Hpre.
  rewrite (@dense_nth pfloat FNum ts k).
  change (fold_left nadd (map fst (filter (pow_is k) ts)) n0)
    with (fold_left PrimFloat.add (map fst (filter (fun t : pfloat * nat => Nat.eqb (snd t) k) ts)) PrimFloat.zero).
  rewrite E. apply dcoef_sum_error; assumption.
Qed.

(* "no partial sum overflows" is checkable by computation on the primitive floats *)
Lemma prefixes_finite_by_compute (l : list pfloat) :
  forallb (fun j => PrimFloat.is_finite (fold_left PrimFloat.add (firstn j l) PrimFloat.zero))
          (seq 0 (S (length l))) = true ->
  forall j, (j <= length l)%nat ->
    BinarySingleNaN.is_finite (Prim2B (fold_left PrimFloat.add (firstn j l) PrimFloat.zero)) = true.
Proof.
  intros H j Hj. rewrite forallb_forall in H.
  rewrite <- is_finite_equiv. apply H. apply in_seq. lia.
Qed.

(* ---- on the source terms of the grammar (Model/GrammarS.v) --------------------------------- *)
(* the written coefficient of a source term: digits [. fraction] -> (sign, m, e); an omitted coefficient is 1 *)
Definition dec_dterm (neg : bool) (d : dec) : dterm :=
  match d_frac d with
  | None => (neg, digits_val (d_int d), 0%Z)
  | Some f => (neg, digits_val (d_int d ++ f), (- Z.of_nat (length f))%Z)
  end.
Definition src_dterm (nt : bool * uterm) : dterm :=
  match snd nt with
  | UConst d => dec_dterm (fst nt) d
  | UVar None _ => (fst nt, 1%Z, 0%Z)
  | UVar (Some d) _ => dec_dterm (fst nt) d
  end.
(* the written coefficients of the terms of power k, in source order *)
Definition src_dterms (src : usrc) (k : nat) : list dterm :=
  map src_dterm (filter (fun nt => Nat.eqb (term_pow (snd nt)) k) src).

Lemma dec2float_one : dec2float 1 0 = PrimFloat.one.
Proof. vm_compute. reflexivity. Qed.

Lemma term_val_dterm (nt : bool * uterm) :
  @term_val pfloat FNum nt = (dcoef (src_dterm nt), term_pow (snd nt)).
Proof.
  destruct nt as [neg t]. unfold term_val, src_dterm. cbn [fst snd]. f_equal.
  assert (D : forall d, sgn neg (@GrammarS.dec_val pfloat FNum d) = dcoef (dec_dterm neg d)).
  { intros d. unfold GrammarS.dec_val, dec_dterm, sgn. destruct (d_frac d); destruct neg; reflexivity. }
  destruct t as [d|[d|] e]; cbn [term_coef].
  - apply D.
  - apply D.
  - unfold sgn, dcoef. rewrite dec2float_one. reflexivity.
Qed.

Lemma src_coeffs_dterms (src : usrc) (k : nat) :
  map fst (filter (fun t => Nat.eqb (snd t) k) (@terms_of pfloat FNum src)) = map dcoef (src_dterms src k).
Proof.
  unfold terms_of, src_dterms. induction src as [|nt src IH]; [reflexivity|].
  cbn [map filter]. rewrite term_val_dterm. cbn [snd].
  destruct (Nat.eqb (term_pow (snd nt)) k); cbn [map fst]; rewrite IH; reflexivity.
Qed.

Theorem parse_float_coeff_error_src (src : usrc) (k : nat) :
  (forall d, In d (src_dterms src k) -> dec_ok d) ->
  (forall j, (j <= length (src_dterms src k))%nat ->
     BinarySingleNaN.is_finite (Prim2B (fold_left PrimFloat.add (firstn j (map dcoef (src_dterms src k))) PrimFloat.zero)) = true) ->
  BinarySingleNaN.is_finite (Prim2B (nth k (dense_coeffs (@terms_of pfloat FNum src)) n0)) = true /\
  Rabs (B2R (Prim2B (nth k (dense_coeffs (@terms_of pfloat FNum src)) n0)) - Rsum (map dreal (src_dterms src k)))
    <= ((1 + bpow radix2 (-53)) ^ S (length (src_dterms src k)) - 1) * Rsum (map dmag (src_dterms src k)).
Proof. intros Hok Hpre. apply parse_float_coeff_error; [apply src_coeffs_dterms|exact Hok|exact Hpre]. Qed.

(* ---- (4) non-vacuity --------------------------------------------------------------------------- *)
(* a decimal with negative exponent between 2^-10 and 2^10 is in the normal range: integer test *)
Lemma dec_ok_small (neg : bool) (m e : Z) :
  (0 < m)%Z -> (e < 0)%Z -> (10 ^ (- e) <= m * 1024)%Z -> (m <= 1024 * 10 ^ (- e))%Z -> dec_ok (neg, m, e).
Proof.
  intros Hm He H1 H2. right. split; [exact Hm|].
  rewrite dec_val_neg_exp by exact He.
  assert (HD : (0 < 10 ^ (- e))%Z) by (apply Z.pow_pos_nonneg; lia).
  set (D := (10 ^ (- e))%Z) in *.
  apply IZR_lt in HD. apply IZR_le in H1, H2. rewrite mult_IZR in H1, H2.
  split.
  - apply Rle_trans with (bpow radix2 (-10)); [apply bpow_le; lia|].
    change (bpow radix2 (-10)) with (/ 1024).
    apply Rmult_le_reg_r with (IZR D); [exact HD|].
    unfold Rdiv. rewrite Rmult_assoc, Rinv_l by lra. lra.
  - apply Rle_trans with (bpow radix2 10); [|apply bpow_le; lia].
    change (bpow radix2 10) with 1024.
    apply Rmult_le_reg_r with (IZR D); [exact HD|].
    unfold Rdiv. rewrite Rmult_assoc, Rinv_l by lra. lra.
Qed.

From Coq Require Import String.
Local Open Scope string_scope.

(* "0.1x + 0.2x - 3.25" *)
Definition ex_src : usrc :=
  [(false, UVar (Some (dF "0" "1")) None); (false, UVar (Some (dF "0" "2")) None); (true, UConst (dF "3" "25"))].

Example ex_src_parse :
  wf_src ex_src = true /\ strip_ws (str_of "0.1x + 0.2x - 3.25") = render false 120 ex_src /\
  @parse_simple pfloat FNum uclass_tab (str_of "0.1x + 0.2x - 3.25")
    = Outcome.Ok {| Poly.s_coefs := [-3.25; 0x1.3333333333334p-2]%float; Poly.s_var := Some 120%N |} /\
  src_dterms ex_src 1 = [(false, 1%Z, (-1)%Z); (false, 2%Z, (-1)%Z)] /\
  src_dterms ex_src 0 = [(true, 325%Z, (-2)%Z)] /\
  nth 1 (dense_coeffs (@terms_of pfloat FNum ex_src)) n0 = (0x1.3333333333334p-2)%float /\
  PrimFloat.add (dec2float 1 (-1)) (dec2float 2 (-1)) = (0x1.3333333333334p-2)%float.
Proof. vm_compute. repeat split. Qed.

(* every hypothesis of parse_float_coeff_error_src holds for the coefficient of x (k = 1) and the constant (k = 0) *)
Example ex_src_hyps : forall k, (k = 0 \/ k = 1)%nat ->
  (forall d, In d (src_dterms ex_src k) -> dec_ok d) /\
  (forall j, (j <= List.length (src_dterms ex_src k))%nat ->
     BinarySingleNaN.is_finite (Prim2B (fold_left PrimFloat.add (firstn j (map dcoef (src_dterms ex_src k))) PrimFloat.zero)) = true).
Proof.
  intros k [->| ->].
  - split.
    + change (src_dterms ex_src 0) with [(true, 325%Z, (-2)%Z)].
      intros d [<-|[]]. apply dec_ok_small; vm_compute; congruence.
    + intros j Hj. apply prefixes_finite_by_compute; [vm_compute; reflexivity | rewrite map_length; exact Hj].
  - split.
    + change (src_dterms ex_src 1) with [(false, 1%Z, (-1)%Z); (false, 2%Z, (-1)%Z)].
      intros d [<-|[<-|[]]]; apply dec_ok_small; vm_compute; congruence.
    + intros j Hj. apply prefixes_finite_by_compute; [vm_compute; reflexivity | rewrite map_length; exact Hj].
Qed.

(* so the stored coefficient of x, 0x1.3333333333334p-2, is within ((1+eps)^3 - 1) * 0.3 of 0.3 *)
Example ex_src_coeff_x :
  Rabs (B2R (Prim2B (0x1.3333333333334p-2)%float) - (dec_val 1 (-1) + (dec_val 2 (-1) + 0)))
    <= ((1 + bpow radix2 (-53)) ^ 3 - 1) * (dec_val 1 (-1) + (dec_val 2 (-1) + 0)).
Proof.
  destruct (ex_src_hyps 1%nat (or_intror eq_refl)) as [H1 H2].
  destruct (parse_float_coeff_error_src ex_src 1 H1 H2) as [_ E].
  exact E.
Qed.
