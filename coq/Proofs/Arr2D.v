(* Proofs/Arr2D.v — shared infrastructure for C11 / C12: list facts, the invariant,
   the checked accessors under the invariant, loop rules. *)
From Coq Require Import ZArith NArith List Bool Arith Lia.
From SV Require Import Base.Num Base.Outcome Model.Arr2D.
Import ListNotations.
Local Open Scope res_scope.

(* ---- lists --------------------------------------------------------------------- *)
Section Lists.
  Context {A : Type}.
  Implicit Types l : list A.

  Lemma nth_firstn' l : forall n i d, i < n -> nth i (firstn n l) d = nth i l d.
  Proof.
    induction l as [|x l IH]; intros n i d H.
    - rewrite firstn_nil. reflexivity.
    - destruct n as [|n]; [lia|]. destruct i as [|i]; [reflexivity|].
      cbn [firstn nth]. apply IH. lia.
  Qed.

  Lemma nth_skipn' l : forall n i d, nth i (skipn n l) d = nth (n + i) l d.
  Proof.
    induction l as [|x l IH]; intros n i d.
    - rewrite skipn_nil. destruct i, n; reflexivity.
    - destruct n as [|n]; [reflexivity|]. cbn [skipn plus nth]. apply IH.
  Qed.

  Lemma replace_length l : forall i v, length (replace l i v) = length l.
  Proof.
    induction l as [|x l IH]; intros i v; [reflexivity|].
    destruct i; cbn [replace length]; [reflexivity|]. rewrite IH. reflexivity.
  Qed.

  Lemma nth_replace l : forall i j v d, i < length l ->
    nth j (replace l i v) d = if j =? i then v else nth j l d.
  Proof.
    induction l as [|x l IH]; intros i j v d H; [cbn in H; lia|].
    destruct i as [|i]; destruct j as [|j]; cbn [replace nth Nat.eqb]; try reflexivity.
    apply IH. cbn in H. lia.
  Qed.

  Lemma nth_repeat' (v : A) : forall n i d, i < n -> nth i (repeat v n) d = v.
  Proof.
    induction n as [|n IH]; intros i d H; [lia|].
    destruct i; cbn [repeat nth]; [reflexivity|]. apply IH. lia.
  Qed.

  Lemma lget_ok l i d : i < length l -> lget l i = Ok (nth i l d).
  Proof.
    intro H. unfold lget. rewrite (nth_error_nth' l d H). reflexivity.
  Qed.

  Lemma lget_panic l i : length l <= i -> lget l i = Panic WIndex.
  Proof.
    intro H. unfold lget. apply nth_error_None in H. rewrite H. reflexivity.
  Qed.

  Lemma lset_ok l i v : i < length l -> lset l i v = Ok (replace l i v).
  Proof. intro H. unfold lset. apply Nat.ltb_lt in H. rewrite H. reflexivity. Qed.

  Lemma lset_panic l i v : length l <= i -> lset l i v = Panic WIndex.
  Proof. intro H. unfold lset. apply Nat.ltb_ge in H. rewrite H. reflexivity. Qed.

  Lemma lslice_ok l lo hi : lo <= hi -> hi <= length l ->
    lslice l lo hi = Ok (firstn (hi - lo) (skipn lo l)).
  Proof.
    intros H1 H2. unfold lslice.
    apply Nat.leb_le in H1. apply Nat.leb_le in H2. rewrite H1, H2. reflexivity.
  Qed.

  Lemma split_at_ok l mid : mid <= length l -> split_at l mid = Ok (firstn mid l, skipn mid l).
  Proof. intro H. unfold split_at. apply Nat.leb_le in H. rewrite H. reflexivity. Qed.

  (* two buffers of the same rectangular size that agree at every (r,c) are equal *)
  Lemma flat_ext (l1 l2 : list A) h w d :
    length l1 = h * w -> length l2 = h * w ->
    (forall r c, r < h -> c < w -> nth (r * w + c) l1 d = nth (r * w + c) l2 d) ->
    l1 = l2.
  Proof.
    intros H1 H2 H. apply (nth_ext l1 l2 d d); [lia|].
    intros i Hi. rewrite H1 in Hi.
    assert (Hw : w <> 0) by (intro E; subst w; lia).
    pose proof (Nat.div_mod i w Hw) as Hdm.
    pose proof (Nat.mod_upper_bound i w Hw) as Hm.
    assert (Hr : i / w < h) by (apply Nat.div_lt_upper_bound; lia).
    specialize (H (i / w) (i mod w) Hr Hm).
    replace (i / w * w + i mod w) with i in H by lia. exact H.
  Qed.

  (* cutting a rectangular buffer: row r *)
  Lemma row_slice_length l h w r : length l = h * w -> r < h ->
    length (firstn w (skipn (r * w) l)) = w.
  Proof.
    intros Hl Hr. rewrite firstn_length, skipn_length. nia.
  Qed.

  Lemma row_slice_nth l w r c d : c < w ->
    nth c (firstn w (skipn (r * w) l)) d = nth (r * w + c) l d.
  Proof. intro Hc. rewrite nth_firstn' by exact Hc. apply nth_skipn'. Qed.

  (* nth of a concatenation of rows of equal length *)
  Lemma concat_rect_length (rows : list (list A)) w :
    Forall (fun rw => length rw = w) rows -> length (concat rows) = length rows * w.
  Proof.
    induction 1 as [|x rows Hx _ IH]; [reflexivity|].
    cbn [concat length]. rewrite app_length, IH, Hx. lia.
  Qed.

  Lemma concat_rect_nth (rows : list (list A)) w d :
    Forall (fun rw => length rw = w) rows ->
    forall r c, c < w -> nth (r * w + c) (concat rows) d = nth c (nth r rows []) d.
  Proof.
    induction 1 as [|x rows Hx _ IH]; intros r c Hc.
    - cbn [concat]. replace (nth r (@nil (list A)) []) with (@nil A) by (destruct r; reflexivity).
      destruct (r * w + c); destruct c; reflexivity.
    - cbn [concat]. destruct r as [|r].
      + cbn [nth Nat.mul plus]. apply app_nth1. lia.
      + cbn [nth]. rewrite app_nth2 by (rewrite Hx; cbn [Nat.mul]; lia).
        rewrite Hx. replace (S r * w + c - w) with (r * w + c) by (cbn [Nat.mul]; lia).
        apply IH. exact Hc.
  Qed.
End Lists.

(* ---- monadic folds ------------------------------------------------------------- *)
Lemma foldM_seq_inv {S : Type} (P : nat -> S -> Prop) (body : nat -> S -> res S) :
  forall len lo acc,
    P lo acc ->
    (forall i s, lo <= i < lo + len -> P i s -> exists s', body i s = Ok s' /\ P (Datatypes.S i) s') ->
    exists s', foldM (seq lo len) body acc = Ok s' /\ P (lo + len) s'.
Proof.
  induction len as [|len IH]; intros lo acc H0 Hstep.
  - exists acc. cbn [seq foldM]. rewrite Nat.add_0_r. auto.
  - cbn [seq foldM].
    destruct (Hstep lo acc ltac:(lia) H0) as [s1 [E1 P1]]. rewrite E1. cbn [bind].
    destruct (IH (Datatypes.S lo) s1 P1) as [s' [E' P']].
    + intros i s Hi. apply Hstep. lia.
    + exists s'. split; [exact E'|]. replace (lo + Datatypes.S len) with (Datatypes.S lo + len) by lia. exact P'.
Qed.

Lemma forM_inv {S : Type} (P : nat -> S -> Prop) (body : nat -> S -> res S) n acc :
  P 0 acc ->
  (forall i s, i < n -> P i s -> exists s', body i s = Ok s' /\ P (Datatypes.S i) s') ->
  exists s', forM n body acc = Ok s' /\ P n s'.
Proof.
  intros H0 Hstep. unfold forM.
  destruct (foldM_seq_inv P body n 0 acc H0) as [s' [E P']].
  - intros i s Hi. apply Hstep. lia.
  - exists s'. auto.
Qed.

Lemma mapM_ok {A B : Type} (f : A -> res B) (g : A -> B) (l : list A) :
  (forall x, In x l -> f x = Ok (g x)) -> mapM f l = Ok (map g l).
Proof.
  induction l as [|x l IH]; intro H; [reflexivity|].
  cbn [mapM map]. rewrite (H x (or_introl eq_refl)). cbn [bind].
  rewrite IH by (intros y Hy; apply H; right; exact Hy). reflexivity.
Qed.

Lemma allM_ok {A : Type} (p : A -> res bool) (q : A -> bool) (l : list A) :
  (forall x, In x l -> p x = Ok (q x)) -> allM l p = Ok (forallb q l).
Proof.
  induction l as [|x l IH]; intro H; [reflexivity|].
  cbn [allM forallb]. rewrite (H x (or_introl eq_refl)). cbn [bind].
  destruct (q x); cbn [andb]; [|reflexivity].
  apply IH. intros y Hy; apply H; right; exact Hy.
Qed.

(* ---- the invariant and the total getter ------------------------------------------ *)
Definition Inv {T : Type} (a : arr T) : Prop := length (inner a) = height a * width a.
Definition get {T : Type} (d : T) (a : arr T) (r c : nat) : T := nth (r * width a + c) (inner a) d.

Section Access.
  Context {T : Type} (d : T).
  Implicit Types a : arr T.

  Lemma arr_ext a b :
    Inv a -> Inv b -> height a = height b -> width a = width b ->
    (forall r c, r < height a -> c < width a -> get d a r c = get d b r c) -> a = b.
  Proof.
    destruct a as [la ha wa], b as [lb hb wb]. unfold Inv, get. cbn [inner height width].
    intros Ia Ib Hh Hw H. subst hb wb. f_equal.
    apply (flat_ext la lb ha wa d Ia Ib H).
  Qed.

  Lemma row_ok a r : Inv a -> r < height a ->
    row a r = Ok (firstn (width a) (skipn (r * width a) (inner a))).
  Proof.
    intros I Hr. unfold row.
    destruct (height a <=? r) eqn:E; [apply Nat.leb_le in E; lia|].
    rewrite lslice_ok; [|nia|unfold Inv in I; nia].
    replace ((r + 1) * width a - r * width a) with (width a) by nia. reflexivity.
  Qed.

  Lemma row_panic a r : height a <= r -> row a r = Panic WIndex.
  Proof. intro H. unfold row. apply Nat.leb_le in H. rewrite H. reflexivity. Qed.

  Lemma get_rc_ok a r c : Inv a -> r < height a -> c < width a ->
    get_rc a r c = Ok (get d a r c).
  Proof.
    intros I Hr Hc. unfold get_rc. rewrite (row_ok a r I Hr). cbn [bind].
    rewrite (lget_ok _ c d) by (rewrite (row_slice_length _ (height a)); auto).
    rewrite row_slice_nth by exact Hc. reflexivity.
  Qed.

  Lemma get_rc_panic a r c : Inv a -> height a <= r \/ width a <= c ->
    get_rc a r c = Panic WIndex.
  Proof.
    intros I H. unfold get_rc.
    destruct (Nat.lt_ge_cases r (height a)) as [Hr|Hr].
    - rewrite (row_ok a r I Hr). cbn [bind]. apply lget_panic.
      rewrite (row_slice_length _ (height a)); auto. lia.
    - rewrite (row_panic a r Hr). reflexivity.
  Qed.

  Lemma get2_ok a r c : Inv a -> r < height a -> c < width a ->
    get2 a r c = Ok (get d a r c).
  Proof.
    intros I Hr Hc. unfold get2.
    destruct (height a <=? r) eqn:E1; [apply Nat.leb_le in E1; lia|].
    destruct (width a <=? c) eqn:E2; [apply Nat.leb_le in E2; lia|].
    cbn [orb]. apply lget_ok. unfold Inv in I. nia.
  Qed.

  Lemma get2_panic a r c : height a <= r \/ width a <= c -> get2 a r c = Panic WIndex.
  Proof.
    intro H. unfold get2.
    destruct (height a <=? r) eqn:E1; [reflexivity|].
    destruct (width a <=? c) eqn:E2; [reflexivity|].
    apply Nat.leb_gt in E1. apply Nat.leb_gt in E2. lia.
  Qed.

  (* writing a row view back *)
  Lemma put_row_spec a r rw : Inv a -> r < height a -> length rw = width a ->
    Inv (put_row a r rw) /\
    forall r' c', r' < height a -> c' < width a ->
      get d (put_row a r rw) r' c' = if r' =? r then nth c' rw d else get d a r' c'.
  Proof.
    intros I Hr Hl. unfold Inv in *. unfold put_row, get. cbn [inner height width].
    set (w := width a) in *. set (l := inner a) in *.
    assert (L1 : length (firstn (r * w) l) = r * w) by (rewrite firstn_length; nia).
    assert (L3 : length (skipn ((r + 1) * w) l) = (height a - r - 1) * w) by (rewrite skipn_length; nia).
    split.
    - rewrite !app_length, L1, L3, Hl. nia.
    - intros r' c' Hr' Hc'.
      destruct (r' =? r) eqn:E.
      + apply Nat.eqb_eq in E. subst r'.
        rewrite app_nth2 by lia. rewrite L1.
        replace (r * w + c' - r * w) with c' by lia.
        apply app_nth1. lia.
      + apply Nat.eqb_neq in E.
        destruct (Nat.lt_ge_cases r' r) as [Hlt|Hge].
        * rewrite app_nth1 by nia. apply nth_firstn'. nia.
        * assert (r < r') by lia.
          rewrite app_nth2 by nia. rewrite L1.
          rewrite app_nth2 by nia. rewrite Hl.
          rewrite nth_skipn'. f_equal. nia.
  Qed.

  Lemma set_rc_spec a r c v : Inv a -> r < height a -> c < width a ->
    exists a', set_rc a r c v = Ok a' /\ Inv a' /\ height a' = height a /\ width a' = width a /\
      forall r' c', r' < height a -> c' < width a ->
        get d a' r' c' = if (r' =? r) && (c' =? c) then v else get d a r' c'.
  Proof.
    intros I Hr Hc. unfold set_rc. rewrite (row_ok a r I Hr). cbn [bind].
    set (rw := firstn (width a) (skipn (r * width a) (inner a))).
    assert (Lrw : length rw = width a) by (apply (row_slice_length _ (height a)); auto).
    rewrite lset_ok by lia. cbn [bind].
    destruct (put_row_spec a r (replace rw c v) I Hr) as [I' G'].
    { rewrite replace_length. exact Lrw. }
    eexists. split; [reflexivity|]. split; [exact I'|]. split; [reflexivity|]. split; [reflexivity|].
    intros r' c' Hr' Hc'. rewrite (G' r' c' Hr' Hc').
    destruct (r' =? r) eqn:E; cbn [andb]; [|reflexivity].
    rewrite nth_replace by lia.
    destruct (c' =? c); [reflexivity|].
    apply Nat.eqb_eq in E. subst r'. unfold rw. rewrite row_slice_nth by exact Hc'. reflexivity.
  Qed.

  Lemma set_rc_panic a r c v : Inv a -> height a <= r \/ width a <= c ->
    set_rc a r c v = Panic WIndex.
  Proof.
    intros I H. unfold set_rc.
    destruct (Nat.lt_ge_cases r (height a)) as [Hr|Hr].
    - rewrite (row_ok a r I Hr). cbn [bind]. rewrite lset_panic; [reflexivity|].
      rewrite (row_slice_length _ (height a)); auto. lia.
    - rewrite (row_panic a r Hr). reflexivity.
  Qed.

  Lemma full_inv (v : T) h w : Inv (full v h w).
  Proof. unfold Inv, full. cbn [inner height width]. apply repeat_length. Qed.

  Lemma full_get (v : T) h w r c : r < h -> c < w -> get d (full v h w) r c = v.
  Proof.
    intros Hr Hc. unfold get, full. cbn [inner width]. apply nth_repeat'. nia.
  Qed.

  (* for i in 0..h { for j in 0..w { result[i][j] = e i j } } with all e i j defined *)
  Lemma fill_loop_spec h w (e : nat -> nat -> res T) (g : nat -> nat -> T) m0 :
    Inv m0 -> height m0 = h -> width m0 = w ->
    (forall i j, i < h -> j < w -> e i j = Ok (g i j)) ->
    exists m, fill_loop h w e m0 = Ok m /\ Inv m /\ height m = h /\ width m = w /\
      forall i j, i < h -> j < w -> get d m i j = g i j.
  Proof.
    intros I0 Hh Hw He. unfold fill_loop.
    set (P := fun (i : nat) (m : arr T) =>
      Inv m /\ height m = h /\ width m = w /\
      forall r c, r < h -> c < w -> r < i -> get d m r c = g r c).
    destruct (forM_inv P (fun i result =>
        forM w (fun j result => let* v := e i j in set_rc result i j v) result) h m0) as [m [E Pm]].
    - unfold P. repeat split; auto. intros; lia.
    - intros i s Hi [Is [Hsh [Hsw Hs]]].
      set (Q := fun (j : nat) (m : arr T) =>
        Inv m /\ height m = h /\ width m = w /\
        (forall r c, r < h -> c < w -> r < i -> get d m r c = g r c) /\
        (forall c, c < w -> c < j -> get d m i c = g i c)).
      destruct (forM_inv Q (fun j result => let* v := e i j in set_rc result i j v) w s) as [m [E Qm]].
      + unfold Q. repeat split; auto. intros; lia.
      + intros j t Hj [It [Hth [Htw [Ht1 Ht2]]]].
        rewrite (He i j Hi Hj). cbn [bind].
        destruct (set_rc_spec t i j (g i j) It) as [t' [Et [It' [Hh' [Hw' G]]]]]; [lia|lia|].
        exists t'. split; [exact Et|]. unfold Q. rewrite Hh', Hw'. repeat split; auto.
        * intros r c Hr Hc Hri. rewrite G by lia.
          replace (r =? i) with false by (symmetry; apply Nat.eqb_neq; lia).
          cbn [andb]. apply Ht1; auto.
        * intros c Hc Hcj. rewrite G by lia. rewrite Nat.eqb_refl. cbn [andb].
          destruct (c =? j) eqn:Ecj; [apply Nat.eqb_eq in Ecj; subst; reflexivity|].
          apply Nat.eqb_neq in Ecj. apply Ht2; lia.
      + exists m. split; [exact E|]. destruct Qm as [Im [Hmh [Hmw [Hm1 Hm2]]]].
        unfold P. repeat split; auto.
        intros r c Hr Hc Hri.
        destruct (Nat.eq_dec r i) as [->|Hne]; [apply Hm2; auto|apply Hm1; auto; lia].
    - exists m. split; [exact E|]. destruct Pm as [Im [Hmh [Hmw Hm]]].
      repeat split; auto.
  Qed.

  Lemma fill_loop_panic h w (e : nat -> nat -> res T) m0 p :
    0 < h -> 0 < w -> e 0 0 = Panic p -> fill_loop h w e m0 = Panic p.
  Proof.
    intros Hh Hw He. unfold fill_loop, forM.
    destruct h as [|h]; [lia|]. destruct w as [|w]; [lia|].
    cbn [seq foldM]. rewrite He. reflexivity.
  Qed.
End Access.

(* ---- push loops, tabulated grids, transpose ---------------------------------------- *)
Lemma push_loop {S : Type} n (f : nat -> res S) (x : nat -> S) acc :
  (forall i, i < n -> f i = Ok (x i)) ->
  forM n (fun i acc => let* v := f i in Ok (acc ++ [v])) acc = Ok (acc ++ map x (seq 0 n)).
Proof.
  intro H.
  destruct (forM_inv (fun i s => s = acc ++ map x (seq 0 i))
             (fun i acc => let* v := f i in Ok (acc ++ [v])) n acc) as [s [E P]].
  - cbn. rewrite app_nil_r. reflexivity.
  - intros i s Hi ->. rewrite (H i Hi). cbn [bind]. eexists. split; [reflexivity|].
    rewrite seq_S, map_app, app_assoc. reflexivity.
  - rewrite E, P. reflexivity.
Qed.

(* transpose does not need arithmetic *)
Section Transpose.
  Context {T : Type} (d : T).
  Implicit Types a : arr T.

  Definition ttab (h w : nat) (f : nat -> nat -> T) : list (list T) :=
    map (fun r => map (fun c => f r c) (seq 0 w)) (seq 0 h).

  Lemma ttab_rect h w f : Forall (fun rw => length rw = w) (ttab h w f).
  Proof.
    unfold ttab. apply Forall_forall. intros rw Hrw. apply in_map_iff in Hrw.
    destruct Hrw as [r [<- _]]. rewrite map_length, seq_length. reflexivity.
  Qed.

  Lemma ttab_length h w f : length (ttab h w f) = h.
  Proof. unfold ttab. rewrite map_length, seq_length. reflexivity. Qed.

  Lemma ttab_nth h w f r c : r < h -> c < w -> nth c (nth r (ttab h w f) []) d = f r c.
  Proof.
    intros Hr Hc. unfold ttab.
    rewrite (nth_indep _ [] (map (fun c => f 0 c) (seq 0 w))) by (rewrite map_length, seq_length; exact Hr).
    rewrite (map_nth (fun r => map (fun c => f r c) (seq 0 w)) (seq 0 h) 0 r).
    rewrite seq_nth by exact Hr. cbn [plus].
    rewrite (nth_indep _ d (f r 0)) by (rewrite map_length, seq_length; exact Hc).
    rewrite (map_nth (fun c => f r c) (seq 0 w) 0 c).
    rewrite seq_nth by exact Hc. reflexivity.
  Qed.

  Lemma transpose_inner_spec a : Inv a ->
    transpose_inner a = Ok (concat (ttab (width a) (height a) (fun c r => get d a r c))).
  Proof.
    intro I. unfold transpose_inner.
    destruct (forM_inv (fun col s => s = concat (ttab col (height a) (fun c r => get d a r c)))
      (fun col acc => forM (height a) (fun rw acc => let* x := get2 a rw col in Ok (acc ++ [x])) acc)
      (width a) []) as [s [E P]].
    - reflexivity.
    - intros col s Hcol ->.
      pose proof (fun S f x acc H => @push_loop S (height a) f x acc H) as PL.
      rewrite (PL T (fun rw => get2 a rw col) (fun rw => get d a rw col)).
      + eexists. split; [reflexivity|].
        unfold ttab. rewrite seq_S, map_app, concat_app. cbn [map concat plus]. rewrite app_nil_r. reflexivity.
      + intros i Hi. apply get2_ok; auto.
    - rewrite E, P. reflexivity.
  Qed.

  Lemma transpose_spec a : Inv a ->
    exists t, transpose a = Ok t /\ Inv t /\ height t = width a /\ width t = height a /\
      forall i j, i < width a -> j < height a -> get d t i j = get d a j i.
  Proof.
    intro I. unfold transpose. rewrite (transpose_inner_spec a I). cbn [bind].
    eexists. split; [reflexivity|].
    pose proof (ttab_rect (width a) (height a) (fun c r => get d a r c)) as R.
    split; [|split; [reflexivity|split; [reflexivity|]]].
    - unfold Inv. cbn [inner height width].
      rewrite (concat_rect_length _ (height a) R), ttab_length. reflexivity.
    - intros i j Hi Hj. unfold get at 1. cbn [inner width].
      rewrite (concat_rect_nth _ (height a) d R i j Hj).
      exact (ttab_nth (width a) (height a) (fun c r => get d a r c) i j Hi Hj).
  Qed.
End Transpose.

