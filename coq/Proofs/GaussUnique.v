(* Proofs/GaussUnique.v — a system that gaussian_elimination accepts has exactly one solution:
   acceptance (with a positive tolerance) means A has no left null vector (contrapositive of
   c08_singular_refused), hence no right null vector (Proofs/GaussB.v), hence A y = b = A x
   forces y = x. *)
From Coq Require Import ZArith List Arith Bool Reals Lra Lia.
From SV Require Import Base.Num Base.Outcome Base.Mat Model.Subst Model.Gauss Proofs.Gauss Proofs.GaussB.
Import ListNotations.
Local Open Scope R_scope.

Lemma ge_ok_nonsing_l n (A : mat R) (b : vec R) tol x :
  0 < tol -> ge n n A n b tol = Ok x -> nonsing_l n A.
Proof.
  intros Ht E w Hw i Hi.
  destruct (Req_dec (w i) 0) as [Z|NZ]; [exact Z|exfalso].
  assert (S : ge n n A n b tol = Err ESingularMatrix).
  { apply c08_singular_refused; [exact Ht|]. exists w. split; [exists i; split; assumption|exact Hw]. }
  congruence.
Qed.

Lemma ge_ok_pos n (A : mat R) (b : vec R) tol x : ge n n A n b tol = Ok x -> (0 < n)%nat.
Proof.
  intros E. destruct n as [|m]; [|lia]. exfalso. unfold ge in E. cbn in E. discriminate E.
Qed.

Lemma c08_unique : forall (n : nat) (A : mat R) (b : vec R) (tol : R) (x : vec R),
  0 < tol -> ge n n A n b tol = Ok x ->
  (forall w : vec R, (forall j, (j < n)%nat -> Rsum_n n (fun i => w i * A i j) = 0) ->
                     forall i, (i < n)%nat -> w i = 0) /\
  (forall z : vec R, (forall i, (i < n)%nat -> Rsum_n n (fun j => A i j * z j) = 0) ->
                     forall j, (j < n)%nat -> z j = 0) /\
  forall y : vec R, (forall i, (i < n)%nat -> Rsum_n n (fun j => A i j * y j) = b i) ->
                    forall j, (j < n)%nat -> y j = x j.
Proof.
  intros n A b tol x Ht E.
  pose proof (ge_ok_nonsing_l n A b tol x Ht E) as Hl.
  pose proof (ge_ok_pos n A b tol x E) as Hn.
  pose proof (nonsing_l_r n A Hn Hl) as Hr.
  split; [exact Hl|split; [exact Hr|]].
  intros y Hy j Hj.
  destruct (c08_solves n n n A b tol x Ht E) as (_ & _ & Hx).
  assert (Z : (fun j => y j - x j) j = 0).
  { apply (Hr (fun j => y j - x j)); [|exact Hj].
    intros i Hi.
    rewrite (Rsum_n_ext n _ (fun j => A i j * y j + (-1) * (A i j * x j))) by (intros; ring).
    rewrite Rsum_n_plus, Rsum_n_scal, (Hy i Hi), (Hx i Hi). ring. }
  cbv beta in Z. lra.
Qed.
