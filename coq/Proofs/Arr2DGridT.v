(* Proofs/Arr2DGridT.v — C12 for EVERY element type: the flat-buffer array refines the plain grid
   under every operation sequence, parametric in [T] with [Num T] (so in particular for the
   binary64 instance FNum, for R and for Z).

   Model/Arr2D.v defines the array functions generically but the two state machines of C12
   (op, step_c, grid, abs, step_s, query, answer, observe_c, observe_s, display_s, run_c, run_s, trace_c, trace_s)
   only for Z entries.  This file GENERALISES those definitions by copying them with T in place of Z
   (names with a trailing T: opT, step_cT, gridT, absT, step_sT, queryT, answerT, observe_cT,
   observe_sT, display_sT, run_cT, run_sT, trace_cT, trace_sT) and re-proves the five C12 theorems
   for them.  The proofs are those of Proofs/Arr2DGrid.v; they are about list / index structure and
   never look at the elements.  The element type enters at four places only:
     (1) max / min: the grid computes them by the SAME fold as the array
         ([reduce (fun x y => if ngtb x y then x else y)], resp. [nltb]) over [concat cells], the
         row-major element sequence.  The refinement is "the two folds run over equal lists"; no
         order law is used (floats with NaN have none: the fold is neither associative nor
         commutative there, so a per-row formulation would be a different function).
         At T := Z this fold is [reduce Z.max] / [reduce Z.min] ([reduce_max_Z], [reduce_min_Z]).
     (2) identity / full: n1 and n0 of the class; the default element of [nth] is n0.
     (3) == against a nested vector: elementwise the class's [neqb] on both sides
         ([list_eqb (list_eqb neqb)]).  NOT Leibniz equality: Rust's == on f64 is not reflexive
         (NaN <> NaN), PrimFloat.eqb is the same relation, and the proof below never uses
         that [neqb] reflects equality (the Z proof did).
     (4) map f / rows_mut f for an arbitrary f : T -> T (resp. nat -> nat -> T -> T); Display for an
         arbitrary element printer [fmt : T -> list N], carried by the query [QDisplayT fmt].
   No hypothesis on T or on the instance is needed anywhere.
   The Z machines are the instance T := Z: section [InstanceZ] at the end proves
   step_cT = step_c, absT = abs, step_sT = step_s, observe_cT = observe_c, observe_sT = observe_s
   pointwise through the obvious translations opZ / gridZ / queryZ / answerZ, and re-derives the pinned
   Z theorem c12_histories from the generic one ([c12_histories_from_generic]). *)
From Coq Require Import ZArith NArith List Bool Arith Lia.
From SV Require Import Base.Num Base.Outcome Model.Arr2D Proofs.Arr2D.
Import ListNotations.
Local Open Scope res_scope.

(* ============================================================================ *)
(* generalised definitions (copies of Model/Arr2D.v, section C12, with T for Z)  *)
(* ============================================================================ *)
Inductive opT (T : Type) :=
| OFromNestedT (rows : list (list T))
| OFromArrayT (m n : nat) (f : nat -> nat -> T)
| OFromFlatT (data : list T) (d : T) (h w : nat)
| OFullT (v : T) (h w : nat)
| OIdentityT (n : nat)
| OReshapeT (h : nat)
| OTransposeT
| OTransposeMutT
| OSwapRowsT (x y : nat)
| OSet1T (r c : nat) (v : T)
| OSet2T (r c : nat) (v : T)
| OSetRowT (r : nat) (vs : list T)
| ORowsMutMapT (f : nat -> nat -> T -> T)
| OMapT (f : T -> T)
| OCloneT
| OTryFromRefT.
Arguments OFromNestedT {T} rows.
Arguments OFromArrayT {T} m n f.
Arguments OFromFlatT {T} data d h w.
Arguments OFullT {T} v h w.
Arguments OIdentityT {T} n.
Arguments OReshapeT {T} h.
Arguments OTransposeT {T}.
Arguments OTransposeMutT {T}.
Arguments OSwapRowsT {T} x y.
Arguments OSet1T {T} r c v.
Arguments OSet2T {T} r c v.
Arguments OSetRowT {T} r vs.
Arguments ORowsMutMapT {T} f.
Arguments OMapT {T} f.
Arguments OCloneT {T}.
Arguments OTryFromRefT {T}.

Record gridT (T : Type) := mkGridT { ghT : nat; gwT : nat; cellsT : list (list T) }.
Arguments mkGridT {T} ghT gwT cellsT.
Arguments ghT {T} g.
Arguments gwT {T} g.
Arguments cellsT {T} g.

Inductive queryT (T : Type) :=
| QShapeT | QSizeT | QIsEmptyT
| QGet1T (r c : nat)
| QGet2T (r c : nat)
| QRowsT
| QIntoIterT
| QMaxT | QMinT
| QEqNestedT (other : list (list T))
| QDisplayT (fmt : T -> list N).      (* format!("{}", a) with the element's Display = fmt *)
Arguments QShapeT {T}.
Arguments QSizeT {T}.
Arguments QIsEmptyT {T}.
Arguments QGet1T {T} r c.
Arguments QGet2T {T} r c.
Arguments QRowsT {T}.
Arguments QIntoIterT {T}.
Arguments QMaxT {T}.
Arguments QMinT {T}.
Arguments QEqNestedT {T} other.
Arguments QDisplayT {T} fmt.

Inductive answerT (T : Type) :=
| AShapeT (h w : nat) | ANatT (n : nat) | ABoolT (b : bool)
| AElemT (r : res T) | ARowsT (r : res (list (list T))) | AOptT (r : res (option T))
| AEqT (r : res bool) | ATextT (r : res (list N)).
Arguments AShapeT {T} h w.
Arguments ANatT {T} n.
Arguments ABoolT {T} b.
Arguments AElemT {T} r.
Arguments ARowsT {T} r.
Arguments AOptT {T} r.
Arguments AEqT {T} r.
Arguments ATextT {T} r.

Section MachinesT.
  Context {T : Type} {NT : Num T}.

  Definition step_cT (a : arr T) (o : opT T) : arr T * res unit :=
    commit a
      match o with
      | OFromNestedT rows => from_nested rows
      | OFromArrayT m n f => Ok (from_array m n f)
      | OFromFlatT data d h w => from_flat data d h w
      | OFullT v h w => Ok (full v h w)
      | OIdentityT n => identity n
      | OReshapeT h => reshape a h
      | OTransposeT => transpose a
      | OTransposeMutT => transpose_mut a
      | OSwapRowsT x y => swap_rows a x y
      | OSet1T r c v => set2 a r c v
      | OSet2T r c v => set_rc a r c v
      | OSetRowT r vs => set_row a r vs
      | ORowsMutMapT f => rows_mut_map f a
      | OMapT f => Ok (amap f a)
      | OCloneT => Ok a
      | OTryFromRefT => try_from_ref Some a
      end.

  Definition ggetT (g : gridT T) (r c : nat) : T := nth c (nth r (cellsT g) []) n0.
  Definition gtabT (h w : nat) (f : nat -> nat -> T) : list (list T) :=
    map (fun r => map (fun c => f r c) (seq 0 w)) (seq 0 h).
  Definition in_gridT (g : gridT T) (r c : nat) : bool := (r <? ghT g) && (c <? gwT g).

  (* abstraction: cell (r,c) of the grid is buffer element r*width+c *)
  Definition absT (a : arr T) : gridT T :=
    mkGridT (height a) (width a)
            (gtabT (height a) (width a) (fun r c => nth (r * width a + c) (inner a) n0)).

  Definition step_sT (g : gridT T) (o : opT T) : gridT T * res unit :=
    let h := ghT g in
    let w := gwT g in
    commit g
      match o with
      | OFromNestedT rows =>
        match rows with
        | [] => Ok (mkGridT 0 0 [])
        | r0 :: _ =>
          if forallb (fun rw => length rw =? length r0) rows
          then Ok (mkGridT (length rows) (length r0) rows)
          else Err EInconsistentRowLengths
        end
      | OFromArrayT m n f => Ok (mkGridT m n (gtabT m n f))
      | OFromFlatT data d h' w' =>
        if (h' * w' <? length data) || (h' * w' =? 0) then Err EInvalidShape
        else Ok (mkGridT h' w' (gtabT h' w' (fun r c => nth (r * w' + c) data d)))
      | OFullT v h' w' => Ok (mkGridT h' w' (gtabT h' w' (fun _ _ => v)))
      | OIdentityT n => Ok (mkGridT n n (gtabT n n (fun r c => if r =? c then n1 else n0)))
      | OReshapeT h' =>
        if (h' =? 0) || negb ((h * w) mod h' =? 0) then Err EInvalidReshape
        else let w' := (h * w) / h' in
             Ok (mkGridT h' w' (gtabT h' w' (fun r c => let k := r * w' + c in ggetT g (k / w) (k mod w))))
      | OTransposeT | OTransposeMutT => Ok (mkGridT w h (gtabT w h (fun r c => ggetT g c r)))
      | OSwapRowsT x y =>
        if x =? y then Ok g
        else if w =? 0 then Ok g
        else if h <=? Nat.max x y then Panic WSliceRange
        else Ok (mkGridT h w (gtabT h w (fun r c => ggetT g (swap_idx x y r) c)))
      | OSet1T r c v | OSet2T r c v =>
        if in_gridT g r c
        then Ok (mkGridT h w (gtabT h w (fun r' c' => if (r' =? r) && (c' =? c) then v else ggetT g r' c')))
        else Panic WIndex
      | OSetRowT r vs =>
        if h <=? r then Panic WIndex
        else if negb (length vs =? w) then Panic WSliceRange
        else Ok (mkGridT h w (gtabT h w (fun r' c' => if r' =? r then nth c' vs n0 else ggetT g r' c')))
      | ORowsMutMapT f => Ok (mkGridT h w (gtabT h w (fun r c => f r c (ggetT g r c))))
      | OMapT f => Ok (mkGridT h w (map (map f) (cellsT g)))
      | OCloneT | OTryFromRefT => Ok g
      end.

  Definition observe_cT (a : arr T) (q : queryT T) : answerT T :=
    match q with
    | QShapeT => AShapeT (fst (shape a)) (snd (shape a))
    | QSizeT => ANatT (size a)
    | QIsEmptyT => ABoolT (is_empty a)
    | QGet1T r c => AElemT (get2 a r c)
    | QGet2T r c => AElemT (get_rc a r c)
    | QRowsT => ARowsT (rows a)
    | QIntoIterT => ARowsT (into_iter a)
    | QMaxT => AOptT (amax a)
    | QMinT => AOptT (amin a)
    | QEqNestedT other => AEqT (eq_nested a other)
    | QDisplayT fmt => ATextT (display fmt a)
    end.

  Definition display_sT (fmt : T -> list N) (g : gridT T) : list N :=
    if (ghT g =? 0) || (gwT g =? 0) then cp_empty
    else
      let colw c := fold_left Nat.max (map (fun r => length (fmt (ggetT g r c))) (seq 0 (ghT g))) 0 in
      concat (map (fun r =>
        (if r =? 0 then cp_open0 else cp_open)
        ++ concat (map (fun c => pad_left (colw c) (fmt (ggetT g r c))
                                 ++ (if negb (c + 1 =? gwT g) then cp_sep else [])) (seq 0 (gwT g)))
        ++ (if r + 1 =? ghT g then cp_close_last else cp_close)) (seq 0 (ghT g))).

  (* max / min: ONE left fold over the row-major cell sequence, with the class's comparison
     (`if x > y {x} else {y}` resp. `if x < y {x} else {y}`); == : elementwise neqb *)
  Definition observe_sT (g : gridT T) (q : queryT T) : answerT T :=
    let empty := (ghT g =? 0) || (gwT g =? 0) in
    match q with
    | QShapeT => AShapeT (ghT g) (gwT g)
    | QSizeT => ANatT (ghT g * gwT g)
    | QIsEmptyT => ABoolT empty
    | QGet1T r c | QGet2T r c => AElemT (if in_gridT g r c then Ok (ggetT g r c) else Panic WIndex)
    | QRowsT | QIntoIterT => ARowsT (Ok (cellsT g))
    | QMaxT => AOptT (Ok (if empty then None
                          else reduce (fun x y => if ngtb x y then x else y) (concat (cellsT g))))
    | QMinT => AOptT (Ok (if empty then None
                          else reduce (fun x y => if nltb x y then x else y) (concat (cellsT g))))
    | QEqNestedT other => AEqT (Ok (list_eqb (list_eqb neqb) (cellsT g) other))
    | QDisplayT fmt => ATextT (Ok (display_sT fmt g))
    end.

  Definition run_cT (a : arr T) (ops : list (opT T)) : arr T :=
    fold_left (fun s o => fst (step_cT s o)) ops a.
  Definition run_sT (g : gridT T) (ops : list (opT T)) : gridT T :=
    fold_left (fun s o => fst (step_sT s o)) ops g.
  Fixpoint trace_cT (a : arr T) (ops : list (opT T)) : list (res unit) :=
    match ops with
    | [] => []
    | o :: ops' => snd (step_cT a o) :: trace_cT (fst (step_cT a o)) ops'
    end.
  Fixpoint trace_sT (g : gridT T) (ops : list (opT T)) : list (res unit) :=
    match ops with
    | [] => []
    | o :: ops' => snd (step_sT g o) :: trace_sT (fst (step_sT g o)) ops'
    end.
End MachinesT.

(* ============================================================================ *)
(* proofs                                                                        *)
(* ============================================================================ *)
Section ProofsT.
  Context {T : Type} {NT : Num T}.
  Local Notation gT := (get (@n0 T NT)).

(* ---- tabulated grids --------------------------------------------------------------- *)
Lemma gtabT_ttab h w (f : nat -> nat -> T) : gtabT h w f = ttab h w f.
Proof. reflexivity. Qed.

Lemma gtabT_length h w (f : nat -> nat -> T) : length (gtabT h w f) = h.
Proof. apply ttab_length. Qed.

Lemma gtabT_rect h w (f : nat -> nat -> T) : Forall (fun rw => length rw = w) (gtabT h w f).
Proof. apply ttab_rect. Qed.

Lemma gtabT_nth h w (f : nat -> nat -> T) r c : r < h -> c < w -> nth c (nth r (gtabT h w f) []) n0 = f r c.
Proof. apply (ttab_nth n0). Qed.

Lemma gtabT_ext h w (f f' : nat -> nat -> T) :
  (forall r c, r < h -> c < w -> f r c = f' r c) -> gtabT h w f = gtabT h w f'.
Proof.
  intro H. unfold gtabT. apply map_ext_in. intros r Hr. apply in_seq in Hr.
  apply map_ext_in. intros c Hc. apply in_seq in Hc. apply H; lia.
Qed.

Lemma gtabT_S h w (f : nat -> nat -> T) :
  gtabT (S h) w f = map (fun c => f 0 c) (seq 0 w) :: gtabT h w (fun r c => f (S r) c).
Proof.
  unfold gtabT. cbn [seq map]. f_equal. rewrite <- seq_shift, map_map. reflexivity.
Qed.

Lemma gtabT_map h w f (k : T -> T) :
  map (map k) (gtabT h w f) = gtabT h w (fun r c => k (f r c)).
Proof.
  unfold gtabT. rewrite map_map. apply map_ext. intro r. rewrite map_map. reflexivity.
Qed.

Lemma ggetT_tab h w (f : nat -> nat -> T) r c : r < h -> c < w -> ggetT (mkGridT h w (gtabT h w f)) r c = f r c.
Proof. intros. unfold ggetT. cbn [cellsT]. apply gtabT_nth; auto. Qed.

Lemma abs_get a r c : r < height a -> c < width a -> ggetT (absT a) r c = gT a r c.
Proof. intros Hr Hc. unfold absT. rewrite ggetT_tab by auto. reflexivity. Qed.

Lemma map_nth_seq {A : Type} (l : list A) d w : length l = w ->
  map (fun c => nth c l d) (seq 0 w) = l.
Proof.
  intro H. apply (nth_ext _ _ d d); [rewrite map_length, seq_length; auto|].
  intros i Hi. rewrite map_length, seq_length in Hi.
  rewrite (nth_indep _ d (nth 0 l d)) by (rewrite map_length, seq_length; exact Hi).
  rewrite (map_nth (fun c => nth c l d) (seq 0 w) 0 i), seq_nth by exact Hi. reflexivity.
Qed.

Lemma gtabT_rows (rows : list (list T)) w :
  Forall (fun rw => length rw = w) rows ->
  gtabT (length rows) w (fun r c => nth c (nth r rows []) n0) = rows.
Proof.
  induction 1 as [|x rows Hx _ IH]; [reflexivity|].
  cbn [length]. rewrite gtabT_S. cbn [nth]. rewrite (map_nth_seq x n0 w Hx). f_equal. exact IH.
Qed.

(* the rows of a rectangular buffer, re-concatenated, are the buffer *)
Lemma concat_gtab (l : list T) h w : length l = h * w ->
  concat (gtabT h w (fun r c => nth (r * w + c) l n0)) = l.
Proof.
  intro Hl. pose proof (gtabT_rect h w (fun r c => nth (r * w + c) l n0)) as R.
  apply (flat_ext _ _ h w n0).
  - rewrite (concat_rect_length _ w R), gtabT_length. reflexivity.
  - exact Hl.
  - intros r c Hr Hc. rewrite (concat_rect_nth _ w n0 R r c Hc). apply gtabT_nth; auto.
Qed.

Lemma abs_intro a h w f :
  height a = h -> width a = w ->
  (forall r c, r < h -> c < w -> gT a r c = f r c) ->
  absT a = mkGridT h w (gtabT h w f).
Proof.
  intros Hh Hw H. unfold absT. rewrite Hh, Hw. f_equal. apply gtabT_ext.
  intros r c Hr Hc. rewrite <- (H r c Hr Hc). unfold get. rewrite Hw. reflexivity.
Qed.

Lemma arr_eta (a : arr T) : mkArr (inner a) (height a) (width a) = a.
Proof. destruct a. reflexivity. Qed.

(* ---- constructors -------------------------------------------------------------------- *)
Lemma from_nested_fold (w : nat) (values : list (list T)) : forall acc,
  foldM values (fun rw acc => if negb (length rw =? w) then Err EInconsistentRowLengths
                              else Ok (acc ++ rw)) acc
  = if forallb (fun rw => length rw =? w) values then Ok (acc ++ concat values)
    else Err EInconsistentRowLengths.
Proof.
  induction values as [|x values IH]; intro acc.
  - cbn [foldM forallb concat]. rewrite app_nil_r. reflexivity.
  - cbn [foldM forallb concat]. destruct (length x =? w); cbn [negb andb bind]; [|reflexivity].
    rewrite IH, app_assoc. reflexivity.
Qed.

Lemma forallb_Forall_len (rows : list (list T)) w :
  forallb (fun rw => length rw =? w) rows = true -> Forall (fun rw => length rw = w) rows.
Proof.
  intro H. apply Forall_forall. intros x Hx.
  rewrite forallb_forall in H. apply Nat.eqb_eq. apply H. exact Hx.
Qed.

Lemma from_nested_spec (rows : list (list T)) :
  match rows with
  | [] => from_nested rows = Ok (mkArr [] 0 0)
  | r0 :: _ =>
    if forallb (fun rw => length rw =? length r0) rows
    then from_nested rows = Ok (mkArr (concat rows) (length rows) (length r0)) /\
         Inv (mkArr (concat rows) (length rows) (length r0)) /\
         absT (mkArr (concat rows) (length rows) (length r0)) = mkGridT (length rows) (length r0) rows
    else from_nested rows = Err EInconsistentRowLengths
  end.
Proof.
  destruct rows as [|r0 rest]; [reflexivity|].
  unfold from_nested. rewrite from_nested_fold.
  set (rows := r0 :: rest).
  destruct (forallb (fun rw => length rw =? length r0) rows) eqn:E; [|reflexivity].
  cbn [app bind]. apply forallb_Forall_len in E.
  split; [reflexivity|]. split.
  - unfold Inv. cbn [inner height width]. apply concat_rect_length. exact E.
  - rewrite (abs_intro _ (length rows) (length r0) (fun r c => nth c (nth r rows []) n0));
      [rewrite (gtabT_rows rows (length r0) E); reflexivity|reflexivity|reflexivity|].
    intros r c Hr Hc. unfold get. cbn [inner width].
    apply concat_rect_nth; auto.
Qed.

Lemma from_array_spec m n (f : nat -> nat -> T) :
  Inv (from_array m n f) /\ absT (from_array m n f) = mkGridT m n (gtabT m n f).
Proof.
  pose proof (gtabT_rect m n f) as R. unfold from_array. fold (gtabT m n f). split.
  - unfold Inv. cbn [inner height width]. rewrite (concat_rect_length _ n R), gtabT_length. reflexivity.
  - apply abs_intro; [reflexivity|reflexivity|].
    intros r c Hr Hc. unfold get. cbn [inner width].
    rewrite (concat_rect_nth _ n n0 R r c Hc). apply gtabT_nth; auto.
Qed.

Lemma from_flat_spec (data : list T) d h w :
  if (h * w <? length data) || (h * w =? 0)
  then from_flat data d h w = Err EInvalidShape
  else exists a', from_flat data d h w = Ok a' /\ Inv a' /\
         absT a' = mkGridT h w (gtabT h w (fun r c => nth (r * w + c) data d)).
Proof.
  unfold from_flat.
  destruct ((h * w <? length data) || (h * w =? 0)) eqn:E; [reflexivity|].
  apply orb_false_iff in E. destruct E as [E1 E2]. apply Nat.ltb_ge in E1.
  destruct (length data <? h * w) eqn:E3.
  - apply Nat.ltb_lt in E3. eexists. split; [reflexivity|]. split.
    + unfold Inv. cbn [inner height width]. rewrite app_length, repeat_length. lia.
    + apply abs_intro; [reflexivity|reflexivity|].
      intros r c Hr Hc. unfold get. cbn [inner width].
      destruct (Nat.lt_ge_cases (r * w + c) (length data)) as [Hlt|Hge].
      * rewrite app_nth1 by exact Hlt. apply nth_indep. exact Hlt.
      * rewrite app_nth2 by exact Hge. rewrite nth_repeat' by nia.
        symmetry. apply nth_overflow. exact Hge.
  - apply Nat.ltb_ge in E3. eexists. split; [reflexivity|]. split.
    + unfold Inv. cbn [inner height width]. lia.
    + apply abs_intro; [reflexivity|reflexivity|].
      intros r c Hr Hc. unfold get. cbn [inner width]. apply nth_indep. nia.
Qed.

Lemma full_abs v h w : absT (full v h w) = mkGridT h w (gtabT h w (fun _ _ => v)).
Proof.
  apply abs_intro; [reflexivity|reflexivity|].
  intros r c Hr Hc. apply full_get; auto.
Qed.

(* identity: copy of the proof in Proofs/Arr2DDot.v (which lives next to ring-only lemmas) *)
Lemma identity_specT n :
  exists m, @identity T NT n = Ok m /\ Inv m /\ height m = n /\ width m = n /\
    forall i j, i < n -> j < n -> gT m i j = if i =? j then n1 else n0.
Proof.
  unfold identity.
  destruct (forM_inv (fun i (m : arr T) => Inv m /\ height m = n /\ width m = n /\
      forall r c, r < n -> c < n -> gT m r c = if (r =? c) && (r <? i) then n1 else n0)
    (fun i m => set_rc m i i n1) n (full n0 n n)) as [m [E [Im [Hh [Hw G]]]]].
  - split; [apply full_inv|]. split; [reflexivity|]. split; [reflexivity|].
    intros r c Hr Hc. rewrite full_get by auto.
    replace (r <? 0) with false by (symmetry; apply Nat.ltb_ge; lia).
    rewrite andb_false_r. reflexivity.
  - intros i s Hi [Is [Hh [Hw G]]].
    destruct (set_rc_spec n0 s i i n1 Is) as [s' [Es [Is' [Hh' [Hw' G']]]]]; [lia|lia|].
    exists s'. split; [exact Es|]. split; [exact Is'|]. split; [lia|]. split; [lia|].
    intros r c Hr Hc. rewrite G' by lia. rewrite G by auto.
    destruct (Nat.eqb_spec r i), (Nat.eqb_spec c i), (Nat.eqb_spec r c),
             (Nat.ltb_spec r i), (Nat.ltb_spec r (S i)); cbn [andb]; try reflexivity; lia.
  - exists m. split; [exact E|]. split; [exact Im|]. split; [exact Hh|]. split; [exact Hw|].
    intros i j Hi Hj. rewrite G by auto.
    replace (i <? n) with true by (symmetry; apply Nat.ltb_lt; lia).
    rewrite andb_true_r. reflexivity.
Qed.

Lemma identity_abs n : exists m, @identity T NT n = Ok m /\ Inv m /\
  absT m = mkGridT n n (gtabT n n (fun r c => if r =? c then n1 else n0)).
Proof.
  destruct (identity_specT n) as [m [E [Im [Hh [Hw G]]]]].
  exists m. split; [exact E|]. split; [exact Im|].
  apply abs_intro; auto.
Qed.

(* ---- reshape ---------------------------------------------------------------------------- *)
Lemma reshape_spec a h' : Inv a ->
  if (h' =? 0) || negb ((height a * width a) mod h' =? 0)
  then reshape a h' = Err EInvalidReshape
  else exists a', reshape a h' = Ok a' /\ Inv a' /\
         absT a' = mkGridT h' (height a * width a / h')
                    (gtabT h' (height a * width a / h')
                       (fun r c => let k := r * (height a * width a / h') + c in
                                   ggetT (absT a) (k / width a) (k mod width a))).
Proof.
  intro I. unfold reshape, is_multiple_of.
  destruct (h' =? 0) eqn:E0; [reflexivity|]. cbn [orb].
  destruct ((height a * width a) mod h' =? 0) eqn:E1; cbn [negb]; [|reflexivity].
  apply Nat.eqb_neq in E0. apply Nat.eqb_eq in E1.
  unfold div_chk. replace (h' =? 0) with false by (symmetry; apply Nat.eqb_neq; exact E0).
  cbn [bind]. set (sz := height a * width a) in *. set (w' := sz / h').
  assert (Hsz : sz = h' * w') by (apply Nat.div_exact; auto).
  eexists. split; [reflexivity|]. split.
  - unfold Inv in *. cbn [inner height width]. lia.
  - apply abs_intro; [reflexivity|reflexivity|].
    intros r c Hr Hc. unfold get at 1. cbn [inner width].
    set (k := r * w' + c). cbv zeta.
    assert (Hk : k < height a * width a) by (fold sz; unfold k; nia).
    assert (Hw : width a <> 0) by (intro Z0; rewrite Z0 in Hk; lia).
    rewrite abs_get.
    + unfold get. f_equal. pose proof (Nat.div_mod k (width a) Hw). lia.
    + apply Nat.div_lt_upper_bound; [exact Hw|lia].
    + apply Nat.mod_upper_bound. exact Hw.
Qed.

(* ---- transpose ---------------------------------------------------------------------------- *)
Lemma transpose_abs a : Inv a -> exists t, transpose a = Ok t /\ Inv t /\
  absT t = mkGridT (width a) (height a) (gtabT (width a) (height a) (fun r c => ggetT (absT a) c r)).
Proof.
  intro I. destruct (transpose_spec n0 a I) as [t [E [It [Hh [Hw G]]]]].
  exists t. split; [exact E|]. split; [exact It|].
  apply abs_intro; auto.
  intros r c Hr Hc. rewrite G by auto. symmetry. apply abs_get; auto.
Qed.

(* ---- element and row writes ----------------------------------------------------------------- *)
Lemma in_grid_abs a r c : in_gridT (absT a) r c = (r <? height a) && (c <? width a).
Proof. reflexivity. Qed.

Lemma set2_spec a r c v : Inv a ->
  if (r <? height a) && (c <? width a)
  then exists a', set2 a r c v = Ok a' /\ Inv a' /\
         absT a' = mkGridT (height a) (width a)
                    (gtabT (height a) (width a)
                       (fun r' c' => if (r' =? r) && (c' =? c) then v else ggetT (absT a) r' c'))
  else set2 a r c v = Panic WIndex.
Proof.
  intro I. unfold set2.
  destruct (Nat.ltb_spec r (height a)) as [Hr|Hr]; cbn [andb].
  - destruct (Nat.ltb_spec c (width a)) as [Hc|Hc].
    + replace (height a <=? r) with false by (symmetry; apply Nat.leb_gt; exact Hr).
      replace (width a <=? c) with false by (symmetry; apply Nat.leb_gt; exact Hc).
      cbn [orb]. unfold Inv in I.
      rewrite lset_ok by nia. cbn [bind].
      eexists. split; [reflexivity|]. split.
      * unfold Inv. cbn [inner height width]. rewrite replace_length. exact I.
      * apply abs_intro; [reflexivity|reflexivity|].
        intros r' c' Hr' Hc'. unfold get at 1. cbn [inner width].
        rewrite nth_replace by nia. rewrite abs_get by auto.
        destruct (Nat.eqb_spec r' r) as [->|Hne]; cbn [andb].
        -- destruct (Nat.eqb_spec c' c) as [->|Hne'].
           ++ rewrite Nat.eqb_refl. reflexivity.
           ++ replace (r * width a + c' =? r * width a + c) with false
                by (symmetry; apply Nat.eqb_neq; lia). reflexivity.
        -- replace (r' * width a + c' =? r * width a + c) with false
             by (symmetry; apply Nat.eqb_neq; nia). reflexivity.
    + replace (width a <=? c) with true by (symmetry; apply Nat.leb_le; exact Hc).
      rewrite orb_true_r. reflexivity.
  - replace (height a <=? r) with true by (symmetry; apply Nat.leb_le; exact Hr). reflexivity.
Qed.

Lemma set_rc_abs a r c v : Inv a ->
  if (r <? height a) && (c <? width a)
  then exists a', set_rc a r c v = Ok a' /\ Inv a' /\
         absT a' = mkGridT (height a) (width a)
                    (gtabT (height a) (width a)
                       (fun r' c' => if (r' =? r) && (c' =? c) then v else ggetT (absT a) r' c'))
  else set_rc a r c v = Panic WIndex.
Proof.
  intro I.
  destruct (Nat.ltb_spec r (height a)) as [Hr|Hr]; cbn [andb].
  - destruct (Nat.ltb_spec c (width a)) as [Hc|Hc].
    + destruct (set_rc_spec n0 a r c v I Hr Hc) as [a' [E [I' [Hh [Hw G]]]]].
      exists a'. split; [exact E|]. split; [exact I'|].
      apply abs_intro; auto.
      intros r' c' Hr' Hc'. rewrite G by auto. rewrite abs_get by auto. reflexivity.
    + apply set_rc_panic; auto.
  - apply set_rc_panic; auto.
Qed.

Lemma set_row_spec a r vs : Inv a ->
  if height a <=? r then set_row a r vs = Panic WIndex
  else if negb (length vs =? width a) then set_row a r vs = Panic WSliceRange
  else exists a', set_row a r vs = Ok a' /\ Inv a' /\
         absT a' = mkGridT (height a) (width a)
                    (gtabT (height a) (width a)
                       (fun r' c' => if r' =? r then nth c' vs n0 else ggetT (absT a) r' c')).
Proof.
  intro I. unfold set_row.
  destruct (Nat.leb_spec (height a) r) as [Hr|Hr].
  - rewrite row_panic by exact Hr. reflexivity.
  - rewrite (row_ok a r I Hr). cbn [bind].
    rewrite (row_slice_length _ (height a)) by auto.
    destruct (Nat.eqb_spec (length vs) (width a)) as [Hl|Hl]; cbn [negb]; [|reflexivity].
    destruct (put_row_spec n0 a r vs I Hr Hl) as [I' G].
    eexists. split; [reflexivity|]. split; [exact I'|].
    apply abs_intro; [reflexivity|reflexivity|].
    intros r' c' Hr' Hc'. rewrite G by auto. rewrite abs_get by auto. reflexivity.
Qed.

(* ---- swap_rows ------------------------------------------------------------------------------ *)
Lemma swap_idx_sym x y r : swap_idx x y r = swap_idx y x r.
Proof.
  unfold swap_idx. destruct (Nat.eqb_spec r x), (Nat.eqb_spec r y); subst; auto.
Qed.

Lemma swap_flat (l : list T) h w lo hi :
  length l = h * w -> lo < hi -> hi < h ->
  let lft := firstn (hi * w) l in
  let rgt := skipn (hi * w) l in
  let l' := (firstn (lo * w) lft ++ firstn w rgt ++ skipn ((lo + 1) * w) lft)
            ++ (firstn w (skipn (lo * w) lft) ++ skipn w rgt) in
  length l' = h * w /\
  forall r c, r < h -> c < w ->
    nth (r * w + c) l' n0 = nth (swap_idx lo hi r * w + c) l n0.
Proof.
  intros Hl Hlo Hhi lft rgt l'.
  assert (Llft : length lft = hi * w) by (unfold lft; rewrite firstn_length; nia).
  assert (Lrgt : length rgt = (h - hi) * w) by (unfold rgt; rewrite skipn_length; nia).
  assert (L1 : length (firstn (lo * w) lft) = lo * w) by (rewrite firstn_length; nia).
  assert (L2 : length (firstn w rgt) = w) by (rewrite firstn_length; nia).
  assert (L3 : length (skipn ((lo + 1) * w) lft) = (hi - lo - 1) * w) by (rewrite skipn_length; nia).
  assert (L4 : length (firstn w (skipn (lo * w) lft)) = w) by (rewrite firstn_length, skipn_length; nia).
  assert (L5 : length (skipn w rgt) = (h - hi - 1) * w) by (rewrite skipn_length; nia).
  assert (LA : length (firstn (lo * w) lft ++ firstn w rgt ++ skipn ((lo + 1) * w) lft) = hi * w)
    by (rewrite !app_length, L1, L2, L3; nia).
  split.
  - unfold l'. rewrite app_length, LA, app_length, L4, L5. nia.
  - intros r c Hr Hc. unfold l', swap_idx.
    destruct (Nat.lt_ge_cases r hi) as [Hrhi|Hrhi].
    + (* first part *)
      rewrite app_nth1 by (rewrite LA; nia).
      replace (r =? hi) with false by (symmetry; apply Nat.eqb_neq; lia).
      destruct (Nat.eqb_spec r lo) as [->|Hne].
      * (* row lo receives row hi *)
        rewrite app_nth2 by (rewrite L1; lia). rewrite L1.
        replace (lo * w + c - lo * w) with c by lia.
        rewrite app_nth1 by (rewrite L2; lia).
        rewrite nth_firstn' by exact Hc. unfold rgt. rewrite nth_skipn'. reflexivity.
      * destruct (Nat.lt_ge_cases r lo) as [Hrlo|Hrlo].
        -- rewrite app_nth1 by (rewrite L1; nia).
           rewrite nth_firstn' by nia. unfold lft. rewrite nth_firstn' by nia. reflexivity.
        -- assert (lo < r) by lia.
           rewrite app_nth2 by (rewrite L1; nia). rewrite L1.
           rewrite app_nth2 by (rewrite L2; nia). rewrite L2.
           rewrite nth_skipn'. unfold lft. rewrite nth_firstn' by nia. f_equal. nia.
    + (* second part *)
      rewrite app_nth2 by (rewrite LA; nia). rewrite LA.
      replace (r =? lo) with false by (symmetry; apply Nat.eqb_neq; lia).
      destruct (Nat.eqb_spec r hi) as [->|Hne].
      * replace (hi * w + c - hi * w) with c by lia.
        rewrite app_nth1 by (rewrite L4; lia).
        rewrite nth_firstn' by exact Hc. rewrite nth_skipn'.
        unfold lft. rewrite nth_firstn' by nia. reflexivity.
      * assert (hi < r) by lia.
        rewrite app_nth2 by (rewrite L4; nia). rewrite L4.
        rewrite nth_skipn'. unfold rgt. rewrite nth_skipn'. f_equal. nia.
Qed.

Lemma swap_rows_spec a x y : Inv a ->
  if x =? y then swap_rows a x y = Ok a
  else if width a =? 0 then swap_rows a x y = Ok a
  else if height a <=? Nat.max x y then swap_rows a x y = Panic WSliceRange
  else exists a', swap_rows a x y = Ok a' /\ Inv a' /\
         absT a' = mkGridT (height a) (width a)
                    (gtabT (height a) (width a) (fun r c => ggetT (absT a) (swap_idx x y r) c)).
Proof.
  intro I. unfold swap_rows.
  destruct (Nat.eqb_spec x y) as [Hxy|Hxy]; [reflexivity|].
  set (lo := Nat.min x y). set (hi := Nat.max x y).
  assert (Epair : (if y <? x then (y, x) else (x, y)) = (lo, hi)).
  { unfold lo, hi. destruct (Nat.ltb_spec y x); f_equal; lia. }
  rewrite Epair.
  assert (Hlohi : lo < hi) by (unfold lo, hi; lia).
  assert (Hsw : forall r, swap_idx x y r = swap_idx lo hi r).
  { intro r. unfold lo, hi. destruct (Nat.le_ge_cases x y).
    - rewrite Nat.min_l, Nat.max_r by lia. reflexivity.
    - rewrite Nat.min_r, Nat.max_l by lia. apply swap_idx_sym. }
  unfold Inv in I.
  destruct (Nat.eqb_spec (width a) 0) as [Hw0|Hw0].
  - (* width 0: nothing is addressed *)
    rewrite Hw0, !Nat.mul_0_r. rewrite Hw0, Nat.mul_0_r in I.
    apply length_zero_iff_nil in I.
    rewrite <- (arr_eta a) at 2. rewrite I, Hw0. reflexivity.
  - destruct (Nat.leb_spec (height a) hi) as [Hhi|Hhi].
    + (* out of range *)
      destruct (Nat.eq_dec hi (height a)) as [E|E].
      * rewrite split_at_ok by (rewrite I, E; lia). cbn [bind].
        unfold lslice at 1. rewrite skipn_length, I, E, Nat.sub_diag.
        replace (width a <=? 0) with false by (symmetry; apply Nat.leb_gt; lia).
        rewrite andb_false_r. reflexivity.
      * unfold split_at. replace (hi * width a <=? length (inner a)) with false
          by (symmetry; apply Nat.leb_gt; rewrite I; nia). reflexivity.
    + (* the swap *)
      destruct (swap_flat (inner a) (height a) (width a) lo hi I Hlohi Hhi) as [Ll G].
      rewrite split_at_ok by (rewrite I; nia). cbn [bind].
      rewrite lslice_ok; [|lia|rewrite skipn_length, I; nia]. cbn [bind].
      rewrite lslice_ok; [|nia|rewrite firstn_length, I; nia]. cbn [bind].
      rewrite Nat.sub_0_r. cbn [skipn].
      replace ((lo + 1) * width a - lo * width a) with (width a) by nia.
      eexists. split; [reflexivity|]. split.
      * unfold Inv. cbn [inner height width]. exact Ll.
      * apply abs_intro; [reflexivity|reflexivity|].
        intros r c Hr Hc. unfold get at 1. cbn [inner width].
        rewrite (G r c Hr Hc), Hsw. rewrite abs_get; [reflexivity| |exact Hc].
        unfold swap_idx. destruct (r =? lo); [lia|]. destruct (r =? hi); lia.
Qed.

(* ---- rows_mut, map, conversions ----------------------------------------------------------------- *)
Lemma mapi_length (f : nat -> T -> T) l : length (mapi f l) = length l.
Proof.
  unfold mapi. rewrite map_length, combine_length, seq_length. lia.
Qed.

Lemma mapi_nth (f : nat -> T -> T) l c : c < length l ->
  nth c (mapi f l) n0 = f c (nth c l n0).
Proof.
  intro Hc. unfold mapi.
  rewrite (nth_indep _ n0 ((fun p => f (fst p) (snd p)) (0, n0)))
    by (rewrite map_length, combine_length, seq_length; lia).
  rewrite (map_nth (fun p => f (fst p) (snd p))).
  rewrite combine_nth by (rewrite seq_length; reflexivity).
  cbn [fst snd]. rewrite seq_nth by exact Hc. reflexivity.
Qed.

Lemma rows_mut_go_spec f w : forall remaining data i,
  length data = remaining * w ->
  exists l', rows_mut_go f data w remaining i = Ok l' /\ length l' = remaining * w /\
    forall r c, r < remaining -> c < w ->
      nth (r * w + c) l' n0 = f (i + r) c (nth (r * w + c) data n0).
Proof.
  induction remaining as [|rem IH]; intros data i Hl.
  - exists data. cbn [rows_mut_go]. split; [reflexivity|]. split; [exact Hl|]. intros; lia.
  - cbn [rows_mut_go]. rewrite split_at_ok by lia. cbn [bind].
    destruct (IH (skipn w data) (S i)) as [l' [E [Ll G]]]; [rewrite skipn_length; lia|].
    rewrite E. cbn [bind]. eexists. split; [reflexivity|].
    assert (Lr : length (firstn w data) = w) by (rewrite firstn_length; lia).
    split.
    + rewrite app_length, mapi_length, Lr, Ll. lia.
    + intros r c Hr Hc. destruct r as [|r].
      * cbn [Nat.mul plus]. rewrite app_nth1 by (rewrite mapi_length, Lr; exact Hc).
        rewrite mapi_nth by (rewrite Lr; exact Hc).
        rewrite nth_firstn' by exact Hc. rewrite Nat.add_0_r. reflexivity.
      * rewrite app_nth2 by (rewrite mapi_length, Lr; cbn [Nat.mul]; lia).
        rewrite mapi_length, Lr.
        replace (S r * w + c - w) with (r * w + c) by (cbn [Nat.mul]; lia).
        rewrite G by lia. rewrite nth_skipn'.
        replace (S i + r) with (i + S r) by lia.
        replace (w + (r * w + c)) with (S r * w + c) by (cbn [Nat.mul]; lia). reflexivity.
Qed.

Lemma rows_mut_map_spec f a : Inv a ->
  exists a', rows_mut_map f a = Ok a' /\ Inv a' /\
    absT a' = mkGridT (height a) (width a)
               (gtabT (height a) (width a) (fun r c => f r c (ggetT (absT a) r c))).
Proof.
  intro I. unfold rows_mut_map.
  destruct (rows_mut_go_spec f (width a) (height a) (inner a) 0 I) as [l' [E [Ll G]]].
  rewrite E. cbn [bind]. eexists. split; [reflexivity|]. split.
  - unfold Inv. cbn [inner height width]. exact Ll.
  - apply abs_intro; [reflexivity|reflexivity|].
    intros r c Hr Hc. unfold get at 1. cbn [inner width].
    rewrite (G r c Hr Hc). rewrite abs_get by auto. reflexivity.
Qed.

Lemma amap_spec (f : T -> T) a : Inv a ->
  Inv (amap f a) /\ absT (amap f a) = mkGridT (height a) (width a) (map (map f) (cellsT (absT a))).
Proof.
  intro I. split.
  - unfold Inv, amap in *. cbn [inner height width]. rewrite map_length. exact I.
  - unfold absT at 2. cbn [cellsT]. rewrite gtabT_map.
    apply abs_intro; [reflexivity|reflexivity|].
    intros r c Hr Hc. unfold get, amap. cbn [inner width].
    unfold Inv in I.
    rewrite (nth_indep _ n0 (f n0)) by (rewrite map_length; nia).
    apply map_nth.
Qed.

Lemma try_from_ref_id (a : arr T) : try_from_ref Some a = Ok a.
Proof.
  unfold try_from_ref.
  rewrite (mapM_ok _ (fun x => x)) by reflexivity.
  cbn [bind]. rewrite map_id, arr_eta. reflexivity.
Qed.

(* ---- one step: invariant, refinement, failure leaves the state alone ------------------------- *)
Definition sim (a : arr T) (o : opT T) : Prop :=
  Inv (fst (step_cT a o)) /\
  snd (step_cT a o) = snd (step_sT (absT a) o) /\
  absT (fst (step_cT a o)) = fst (step_sT (absT a) o) /\
  (snd (step_cT a o) <> Ok tt -> fst (step_cT a o) = a).

Lemma sim_ok a (a' : arr T) (g' : gridT T) rc rs :
  rc = Ok a' -> rs = Ok g' -> Inv a' -> absT a' = g' ->
  Inv (fst (commit a rc)) /\ snd (commit a rc) = snd (commit (absT a) rs) /\
  absT (fst (commit a rc)) = fst (commit (absT a) rs) /\
  (snd (commit a rc) <> Ok tt -> fst (commit a rc) = a).
Proof.
  intros -> -> I' E. cbn [commit fst snd]. repeat split; auto. intro H. congruence.
Qed.

Lemma sim_err a rc (rs : res (gridT T)) e :
  rc = Err e -> rs = Err e -> Inv a ->
  Inv (fst (commit a rc)) /\ snd (commit a rc) = snd (commit (absT a) rs) /\
  absT (fst (commit a rc)) = fst (commit (absT a) rs) /\
  (snd (commit a rc) <> Ok tt -> fst (commit a rc) = a).
Proof. intros -> -> I. cbn [commit fst snd]. repeat split; auto. Qed.

Lemma sim_panic a rc (rs : res (gridT T)) w :
  rc = Panic w -> rs = Panic w -> Inv a ->
  Inv (fst (commit a rc)) /\ snd (commit a rc) = snd (commit (absT a) rs) /\
  absT (fst (commit a rc)) = fst (commit (absT a) rs) /\
  (snd (commit a rc) <> Ok tt -> fst (commit a rc) = a).
Proof. intros -> -> I. cbn [commit fst snd]. repeat split; auto. Qed.

Lemma sim_all a o : Inv a -> sim a o.
Proof.
  intro I. unfold sim, step_cT, step_sT.
  destruct o as [rows|m n f|data d h w|v h w|n|h| | |x y|r c v|r c v|r vs|f|f| | ].
  - (* from nested *)
    pose proof (from_nested_spec rows) as H. destruct rows as [|r0 rest].
    + eapply sim_ok; [exact H|reflexivity|unfold Inv; reflexivity|reflexivity].
    + destruct (forallb (fun rw => length rw =? length r0) (r0 :: rest)).
      * destruct H as [E [I' A]]. eapply sim_ok; [exact E|reflexivity|exact I'|exact A].
      * eapply sim_err; [exact H|reflexivity|exact I].
  - destruct (from_array_spec m n f) as [I' A].
    eapply sim_ok; [reflexivity|reflexivity|exact I'|exact A].
  - (* from flat *)
    pose proof (from_flat_spec data d h w) as H.
    destruct ((h * w <? length data) || (h * w =? 0)).
    + eapply sim_err; [exact H|reflexivity|exact I].
    + destruct H as [a' [E [I' A]]]. eapply sim_ok; [exact E|reflexivity|exact I'|exact A].
  - eapply sim_ok; [reflexivity|reflexivity|apply full_inv|apply full_abs].
  - destruct (identity_abs n) as [m [E [I' A]]].
    eapply sim_ok; [exact E|reflexivity|exact I'|exact A].
  - (* reshape *)
    pose proof (reshape_spec a h I) as H. cbn [ghT gwT absT].
    destruct ((h =? 0) || negb ((height a * width a) mod h =? 0)).
    + eapply sim_err; [exact H|reflexivity|exact I].
    + destruct H as [a' [E [I' A]]]. eapply sim_ok; [exact E|reflexivity|exact I'|exact A].
  - destruct (transpose_abs a I) as [t [E [I' A]]].
    eapply sim_ok; [exact E|reflexivity|exact I'|exact A].
  - destruct (transpose_abs a I) as [t [E [I' A]]].
    eapply sim_ok; [exact E|reflexivity|exact I'|exact A].
  - (* swap rows *)
    pose proof (swap_rows_spec a x y I) as H. cbn [ghT gwT absT].
    destruct (x =? y); [eapply sim_ok; [exact H|reflexivity|exact I|reflexivity]|].
    destruct (width a =? 0); [eapply sim_ok; [exact H|reflexivity|exact I|reflexivity]|].
    destruct (height a <=? Nat.max x y).
    + eapply sim_panic; [exact H|reflexivity|exact I].
    + destruct H as [a' [E [I' A]]]. eapply sim_ok; [exact E|reflexivity|exact I'|exact A].
  - pose proof (set2_spec a r c v I) as H. rewrite in_grid_abs. cbn [ghT gwT absT].
    destruct ((r <? height a) && (c <? width a)).
    + destruct H as [a' [E [I' A]]]. eapply sim_ok; [exact E|reflexivity|exact I'|exact A].
    + eapply sim_panic; [exact H|reflexivity|exact I].
  - pose proof (set_rc_abs a r c v I) as H. rewrite in_grid_abs. cbn [ghT gwT absT].
    destruct ((r <? height a) && (c <? width a)).
    + destruct H as [a' [E [I' A]]]. eapply sim_ok; [exact E|reflexivity|exact I'|exact A].
    + eapply sim_panic; [exact H|reflexivity|exact I].
  - pose proof (set_row_spec a r vs I) as H. cbn [ghT gwT absT].
    destruct (height a <=? r); [eapply sim_panic; [exact H|reflexivity|exact I]|].
    destruct (negb (length vs =? width a)); [eapply sim_panic; [exact H|reflexivity|exact I]|].
    destruct H as [a' [E [I' A]]]. eapply sim_ok; [exact E|reflexivity|exact I'|exact A].
  - destruct (rows_mut_map_spec f a I) as [a' [E [I' A]]]. cbn [ghT gwT absT].
    eapply sim_ok; [exact E|reflexivity|exact I'|exact A].
  - destruct (amap_spec f a I) as [I' A]. cbn [ghT gwT].
    eapply sim_ok; [reflexivity|reflexivity|exact I'|exact A].
  - eapply sim_ok; [reflexivity|reflexivity|exact I|reflexivity].
  - eapply sim_ok; [apply try_from_ref_id|reflexivity|exact I|reflexivity].
Qed.

Lemma c12T_inv :
  Inv (@arr_new T) /\ forall a o, Inv a -> Inv (fst (step_cT a o)).
Proof.
  split; [reflexivity|]. intros a o I. apply (sim_all a o I).
Qed.

Lemma c12T_refine : forall a o, Inv a ->
  snd (step_cT a o) = snd (step_sT (absT a) o) /\
  absT (fst (step_cT a o)) = fst (step_sT (absT a) o) /\
  (snd (step_cT a o) <> Ok tt -> fst (step_cT a o) = a /\ fst (step_sT (absT a) o) = absT a).
Proof.
  intros a o I. destruct (sim_all a o I) as [_ [H1 [H2 H3]]].
  split; [exact H1|]. split; [exact H2|].
  intro H. specialize (H3 H). split; [exact H3|]. rewrite <- H2, H3. reflexivity.
Qed.

(* the failing outputs, as a table over the shape only *)
Definition documented_out (h w : nat) (o : opT T) : res unit :=
  match o with
  | OFromNestedT rows =>
    match rows with
    | [] => Ok tt
    | r0 :: _ => if forallb (fun rw => length rw =? length r0) rows then Ok tt
                 else Err EInconsistentRowLengths
    end
  | OFromFlatT data _ h' w' => if (h' * w' <? length data) || (h' * w' =? 0) then Err EInvalidShape else Ok tt
  | OReshapeT h' => if (h' =? 0) || negb ((h * w) mod h' =? 0) then Err EInvalidReshape else Ok tt
  | OSwapRowsT x y => if (x =? y) || (w =? 0) then Ok tt
                     else if h <=? Nat.max x y then Panic WSliceRange else Ok tt
  | OSet1T r c _ | OSet2T r c _ => if (r <? h) && (c <? w) then Ok tt else Panic WIndex
  | OSetRowT r vs => if h <=? r then Panic WIndex
                    else if negb (length vs =? w) then Panic WSliceRange else Ok tt
  | _ => Ok tt
  end.

Lemma step_s_documented g o : snd (step_sT g o) = documented_out (ghT g) (gwT g) o.
Proof.
  unfold step_sT, documented_out, in_gridT.
  destruct o as [rows|m n f|data d h w|v h w|n|h| | |x y|r c v|r c v|r vs|f|f| | ]; try reflexivity.
  - destruct rows as [|r0 rest]; [reflexivity|].
    destruct (forallb (fun rw => length rw =? length r0) (r0 :: rest)); reflexivity.
  - destruct ((h * w <? length data) || (h * w =? 0)); reflexivity.
  - destruct ((h =? 0) || negb ((ghT g * gwT g) mod h =? 0)); reflexivity.
  - destruct (x =? y); [reflexivity|]. destruct (gwT g =? 0); [reflexivity|]. cbn [orb].
    destruct (ghT g <=? Nat.max x y); reflexivity.
  - destruct ((r <? ghT g) && (c <? gwT g)); reflexivity.
  - destruct ((r <? ghT g) && (c <? gwT g)); reflexivity.
  - destruct (ghT g <=? r); [reflexivity|]. destruct (negb (length vs =? gwT g)); reflexivity.
Qed.

Lemma step_c_documented a o : Inv a -> snd (step_cT a o) = documented_out (height a) (width a) o.
Proof.
  intro I. destruct (sim_all a o I) as [_ [H _]]. rewrite H. apply step_s_documented.
Qed.

Lemma c12T_invalid_documented : forall a, Inv a ->
  (forall rows, snd (step_cT a (OFromNestedT rows)) =
     match rows with
     | [] => Ok tt
     | r0 :: _ => if forallb (fun rw => length rw =? length r0) rows then Ok tt
                  else Err EInconsistentRowLengths
     end) /\
  (forall data d h w, snd (step_cT a (OFromFlatT data d h w)) =
     if (h * w <? length data) || (h * w =? 0) then Err EInvalidShape else Ok tt) /\
  (forall h, snd (step_cT a (OReshapeT h)) =
     if (h =? 0) || negb ((height a * width a) mod h =? 0) then Err EInvalidReshape else Ok tt) /\
  (forall x y, snd (step_cT a (OSwapRowsT x y)) =
     if (x =? y) || (width a =? 0) then Ok tt
     else if height a <=? Nat.max x y then Panic WSliceRange else Ok tt) /\
  (forall r c v, snd (step_cT a (OSet1T r c v)) =
     if (r <? height a) && (c <? width a) then Ok tt else Panic WIndex) /\
  (forall r c v, snd (step_cT a (OSet2T r c v)) =
     if (r <? height a) && (c <? width a) then Ok tt else Panic WIndex) /\
  (forall r vs, snd (step_cT a (OSetRowT r vs)) =
     if height a <=? r then Panic WIndex
     else if negb (length vs =? width a) then Panic WSliceRange else Ok tt) /\
  (forall v h w n f k t,
     snd (step_cT a (OFromArrayT h w t)) = Ok tt /\
     snd (step_cT a (OFullT v h w)) = Ok tt /\ snd (step_cT a (OIdentityT n)) = Ok tt /\
     snd (step_cT a OTransposeT) = Ok tt /\ snd (step_cT a OTransposeMutT) = Ok tt /\
     snd (step_cT a (ORowsMutMapT f)) = Ok tt /\ snd (step_cT a (OMapT k)) = Ok tt /\
     snd (step_cT a OCloneT) = Ok tt /\ snd (step_cT a OTryFromRefT) = Ok tt).
Proof.
  intros a I.
  repeat split; intros; rewrite (step_c_documented a _ I); reflexivity.
Qed.

(* ---- observations ------------------------------------------------------------------------------ *)
Lemma nth_map_seq {A : Type} (f : nat -> A) n i d : i < n -> nth i (map f (seq 0 n)) d = f i.
Proof.
  intro H. rewrite (nth_indep _ d (f 0)) by (rewrite map_length, seq_length; exact H).
  rewrite (map_nth f (seq 0 n) 0 i), seq_nth by exact H. reflexivity.
Qed.

Lemma firstn_as_map (l : list T) w : w <= length l ->
  firstn w l = map (fun c => nth c l n0) (seq 0 w).
Proof.
  intro H. apply (nth_ext _ _ n0 n0).
  - rewrite firstn_length, map_length, seq_length. lia.
  - intros i Hi. rewrite firstn_length in Hi.
    rewrite nth_firstn' by lia. rewrite nth_map_seq by lia. reflexivity.
Qed.

Lemma rows_go_spec w : forall remaining data, length data = remaining * w ->
  rows_go data w remaining = Ok (gtabT remaining w (fun r c => nth (r * w + c) data n0)).
Proof.
  induction remaining as [|rem IH]; intros data Hl; [reflexivity|].
  cbn [rows_go]. rewrite gtabT_S.
  destruct (Nat.eqb_spec w 0) as [->|Hw].
  - rewrite lslice_ok by lia. cbn [bind firstn seq map].
    rewrite IH by lia. cbn [bind]. reflexivity.
  - rewrite split_at_ok by lia. cbn [bind].
    rewrite IH by (rewrite skipn_length; lia). cbn [bind]. do 2 f_equal.
    + apply firstn_as_map. lia.
    + apply gtabT_ext. intros r c Hr Hc. rewrite nth_skipn'. f_equal. cbn [Nat.mul]. lia.
Qed.

Lemma rows_spec a : Inv a -> rows a = Ok (cellsT (absT a)).
Proof. intro I. unfold rows. rewrite (rows_go_spec (width a) (height a) (inner a) I). reflexivity. Qed.

Lemma concat_abs a : Inv a -> concat (cellsT (absT a)) = inner a.
Proof. intro I. apply concat_gtab. exact I. Qed.

Lemma fold_left_ext_fn {A : Type} (f f' : A -> A -> A) l : forall x,
  (forall u v, f u v = f' u v) -> fold_left f l x = fold_left f' l x.
Proof.
  induction l as [|y l IH]; intros x H; [reflexivity|].
  cbn [fold_left]. rewrite H. apply IH. exact H.
Qed.

Lemma reduce_ext {A : Type} (f f' : A -> A -> A) l :
  (forall u v, f u v = f' u v) -> reduce f l = reduce f' l.
Proof.
  intro H. destruct l as [|x l]; [reflexivity|]. cbn [reduce]. f_equal. apply fold_left_ext_fn. exact H.
Qed.

Lemma nonempty_inner (a : arr T) : Inv a -> is_empty a = false -> inner a <> [].
Proof.
  intros I E Hn. unfold Inv in I. rewrite Hn in I. cbn [length] in I.
  unfold is_empty in E. apply orb_false_iff in E. destruct E as [E1 E2].
  apply Nat.eqb_neq in E1. apply Nat.eqb_neq in E2. nia.
Qed.

Lemma amax_spec a : Inv a ->
  amax a = Ok (if is_empty a then None
               else reduce (fun x y => if ngtb x y then x else y) (concat (cellsT (absT a)))).
Proof.
  intro I. unfold amax. destruct (is_empty a) eqn:E; [reflexivity|].
  rewrite (concat_abs a I).
  pose proof (nonempty_inner a I E) as Hne. destruct (inner a) as [|z l]; [congruence|reflexivity].
Qed.

Lemma amin_spec a : Inv a ->
  amin a = Ok (if is_empty a then None
               else reduce (fun x y => if nltb x y then x else y) (concat (cellsT (absT a)))).
Proof.
  intro I. unfold amin. destruct (is_empty a) eqn:E; [reflexivity|].
  rewrite (concat_abs a I).
  pose proof (nonempty_inner a I E) as Hne. destruct (inner a) as [|z l]; [congruence|reflexivity].
Qed.

(* equality against a nested vector: the same boolean function (elementwise [eqb]) on both sides;
   nothing is assumed about [eqb] (for floats it is not reflexive) *)
Lemma forallb_map {A B : Type} (f : B -> bool) (g : A -> B) l :
  forallb f (map g l) = forallb (fun x => f (g x)) l.
Proof. induction l as [|x l IH]; [reflexivity|]. cbn [map forallb]. rewrite IH. reflexivity. Qed.

Lemma forallb_ext_in {A : Type} (f g : A -> bool) l :
  (forall x, In x l -> f x = g x) -> forallb f l = forallb g l.
Proof.
  induction l as [|x l IH]; intro H; [reflexivity|].
  cbn [forallb]. rewrite (H x (or_introl eq_refl)), IH; [reflexivity|].
  intros y Hy. apply H. right. exact Hy.
Qed.

Lemma list_eqb_length {A : Type} (eqb : A -> A -> bool) : forall l1 l2,
  list_eqb eqb l1 l2 = true -> length l1 = length l2.
Proof.
  induction l1 as [|x l1 IH]; intros [|y l2] H; cbn [list_eqb] in H; try discriminate; [reflexivity|].
  apply andb_true_iff in H. destruct H as [_ H]. cbn [length]. f_equal. apply IH. exact H.
Qed.

Lemma list_eqb_nth {A : Type} (eqb : A -> A -> bool) (d1 d2 : A) : forall l1 l2,
  length l1 = length l2 ->
  list_eqb eqb l1 l2 = forallb (fun i => eqb (nth i l1 d1) (nth i l2 d2)) (seq 0 (length l1)).
Proof.
  induction l1 as [|x l1 IH]; intros [|y l2] H; cbn [length] in H; try discriminate; [reflexivity|].
  cbn [list_eqb length seq forallb nth]. f_equal.
  rewrite <- seq_shift, forallb_map. cbn [nth]. apply IH. lia.
Qed.

Lemma eq_nested_spec a other : Inv a ->
  eq_nested a other = Ok (list_eqb (list_eqb neqb) (cellsT (absT a)) other).
Proof.
  intro I. unfold eq_nested.
  pose proof (gtabT_length (height a) (width a) (fun r c => nth (r * width a + c) (inner a) n0)) as Lc.
  pose proof (gtabT_rect (height a) (width a) (fun r c => nth (r * width a + c) (inner a) n0)) as Rc.
  change (gtabT (height a) (width a) (fun r c => nth (r * width a + c) (inner a) n0))
    with (cellsT (absT a)) in Lc, Rc.
  destruct (Nat.eqb_spec (height a) (length other)) as [Hlen|Hlen]; cbn [negb].
  2:{ f_equal. symmetry. apply not_true_is_false. intro E.
      apply list_eqb_length in E. rewrite Lc in E. lia. }
  destruct (Nat.eqb_spec (height a) 0) as [H0|H0].
  { f_equal. symmetry.
    assert (length other = 0) by lia. destruct other; [|cbn in *; lia].
    destruct (cellsT (absT a)); [reflexivity|cbn in *; lia]. }
  rewrite (list_eqb_nth _ [] [] _ _ (eq_trans Lc Hlen)), Lc.
  destruct (existsb (fun rw => negb (length rw =? width a)) other) eqn:Eex.
  { f_equal. symmetry. apply not_true_is_false. intro E. rewrite forallb_forall in E.
    apply existsb_exists in Eex. destruct Eex as [rw [Hin Hrw]].
    destruct (In_nth _ _ [] Hin) as [i [Hi Ei]].
    specialize (E i ltac:(apply in_seq; lia)). apply list_eqb_length in E.
    rewrite Ei in E. rewrite Forall_forall in Rc.
    rewrite <- E, (Rc (nth i (cellsT (absT a)) [])), Nat.eqb_refl in Hrw; [discriminate|].
    apply nth_In. lia. }
  assert (Ro : Forall (fun rw => length rw = width a) other).
  { apply Forall_forall. intros rw Hin.
    destruct (Nat.eqb_spec (length rw) (width a)) as [E|E]; [exact E|].
    assert (existsb (fun rw => negb (length rw =? width a)) other = true).
    { apply existsb_exists. exists rw. split; [exact Hin|].
      apply Nat.eqb_neq in E. rewrite E. reflexivity. }
    congruence. }
  rewrite (allM_ok _ (fun r => forallb (fun c => neqb (gT a r c) (nth c (nth r other []) n0))
                                        (seq 0 (width a)))).
  2:{ intros r Hr. apply in_seq in Hr.
      apply allM_ok. intros c Hc. apply in_seq in Hc.
      rewrite (get_rc_ok n0 a r c I) by lia. cbn [bind].
      rewrite (lget_ok other r []) by lia. cbn [bind].
      assert (Lr : length (nth r other []) = width a).
      { rewrite Forall_forall in Ro. apply Ro. apply nth_In. lia. }
      rewrite (lget_ok _ c n0) by lia. cbn [bind].
      unfold nneb. rewrite negb_involutive. reflexivity. }
  f_equal. apply forallb_ext_in. intros r Hr. apply in_seq in Hr.
  assert (Lr : length (nth r (cellsT (absT a)) []) = width a).
  { rewrite Forall_forall in Rc. apply Rc. apply nth_In. lia. }
  assert (Lo : length (nth r other []) = width a).
  { rewrite Forall_forall in Ro. apply Ro. apply nth_In. lia. }
  rewrite (list_eqb_nth _ n0 n0 _ _ (eq_trans Lr (eq_sym Lo))), Lr.
  apply forallb_ext_in. intros c Hc. apply in_seq in Hc.
  rewrite <- (abs_get a r c) by lia. reflexivity.
Qed.

(* Display *)
Lemma display_spec fmt a : Inv a -> display fmt a = Ok (display_sT fmt (absT a)).
Proof.
  intro I. unfold display, display_sT. cbn [ghT gwT absT].
  destruct ((height a =? 0) || (width a =? 0)); [reflexivity|].
  set (colw := fun c => fold_left Nat.max
                 (map (fun r => length (fmt (gT a r c))) (seq 0 (height a))) 0).
  rewrite (mapM_ok _ colw).
  2:{ intros c Hc. apply in_seq in Hc.
      rewrite (mapM_ok _ (fun r => length (fmt (gT a r c)))).
      - reflexivity.
      - intros r Hr. apply in_seq in Hr. rewrite (get2_ok n0 a r c I) by lia. reflexivity. }
  cbn [bind].
  rewrite (mapM_ok _ (fun r =>
      (if r =? 0 then cp_open0 else cp_open)
      ++ concat (map (fun c => pad_left (colw c) (fmt (gT a r c))
                               ++ (if negb (c + 1 =? width a) then cp_sep else [])) (seq 0 (width a)))
      ++ (if r + 1 =? height a then cp_close_last else cp_close))).
  2:{ intros r Hr. apply in_seq in Hr.
      rewrite (mapM_ok _ (fun c => pad_left (colw c) (fmt (gT a r c))
                               ++ (if negb (c + 1 =? width a) then cp_sep else []))).
      - reflexivity.
      - intros c Hc. apply in_seq in Hc. rewrite (get2_ok n0 a r c I) by lia. cbn [bind].
        rewrite (lget_ok _ c 0) by (rewrite map_length, seq_length; lia). cbn [bind].
        rewrite nth_map_seq by lia. reflexivity. }
  cbn [bind]. f_equal. f_equal.
  apply map_ext_in. intros r Hr. apply in_seq in Hr. f_equal. f_equal. f_equal.
  apply map_ext_in. intros c Hc. apply in_seq in Hc. f_equal.
  - f_equal.
    + unfold colw. f_equal. apply map_ext_in. intros r' Hr'. apply in_seq in Hr'.
      fold (absT a). rewrite abs_get by lia. reflexivity.
    + fold (absT a). rewrite abs_get by lia. reflexivity.
Qed.

Lemma c12T_observe : forall a q, Inv a -> observe_cT a q = observe_sT (absT a) q.
Proof.
  intros a q I. destruct q as [ | | |r c|r c| | | | |other|fmt]; cbn [observe_cT observe_sT].
  - reflexivity.
  - f_equal. exact I.
  - reflexivity.
  - f_equal. rewrite in_grid_abs.
    destruct (Nat.ltb_spec r (height a)) as [Hr|Hr]; cbn [andb].
    + destruct (Nat.ltb_spec c (width a)) as [Hc|Hc].
      * rewrite (get2_ok n0 a r c I Hr Hc), abs_get by auto. reflexivity.
      * apply get2_panic. right. exact Hc.
    + apply get2_panic. left. exact Hr.
  - f_equal. rewrite in_grid_abs.
    destruct (Nat.ltb_spec r (height a)) as [Hr|Hr]; cbn [andb].
    + destruct (Nat.ltb_spec c (width a)) as [Hc|Hc].
      * rewrite (get_rc_ok n0 a r c I Hr Hc), abs_get by auto. reflexivity.
      * apply get_rc_panic; auto.
    + apply get_rc_panic; auto.
  - f_equal. apply rows_spec. exact I.
  - f_equal. apply rows_spec. exact I.
  - f_equal. apply amax_spec. exact I.
  - f_equal. apply amin_spec. exact I.
  - f_equal. apply eq_nested_spec. exact I.
  - f_equal. apply display_spec. exact I.
Qed.

(* ---- histories -------------------------------------------------------------------------------------- *)
Lemma run_sim : forall ops a, Inv a ->
  Inv (run_cT a ops) /\ absT (run_cT a ops) = run_sT (absT a) ops /\ trace_cT a ops = trace_sT (absT a) ops.
Proof.
  induction ops as [|o ops IH]; intros a I.
  - cbn. auto.
  - destruct (sim_all a o I) as [I' [H1 [H2 _]]].
    destruct (IH (fst (step_cT a o)) I') as [J1 [J2 J3]].
    unfold run_cT, run_sT in *. cbn [fold_left trace_cT trace_sT].
    rewrite <- H2, <- H1. split; [exact J1|]. split; [exact J2|]. f_equal. exact J3.
Qed.

Lemma c12T_histories : forall a0 ops, Inv a0 ->
  trace_cT a0 ops = trace_sT (absT a0) ops /\
  forall q, observe_cT (run_cT a0 ops) q = observe_sT (run_sT (absT a0) ops) q.
Proof.
  intros a0 ops I. destruct (run_sim ops a0 I) as [J1 [J2 J3]].
  split; [exact J3|]. intro q. rewrite <- J2. apply c12T_observe. exact J1.
Qed.

End ProofsT.

(* ============================================================================ *)
(* the Z machines of Model/Arr2D.v are the instance T := Z                       *)
(* ============================================================================ *)
Section InstanceZ.
  Definition opZ (o : op) : opT Z :=
    match o with
    | OFromNested rows => OFromNestedT rows
    | OFromArray m n f => OFromArrayT m n f
    | OFromFlat data d h w => OFromFlatT data d h w
    | OFull v h w => OFullT v h w
    | OIdentity n => OIdentityT n
    | OReshape h => OReshapeT h
    | OTranspose => OTransposeT
    | OTransposeMut => OTransposeMutT
    | OSwapRows x y => OSwapRowsT x y
    | OSet1 r c v => OSet1T r c v
    | OSet2 r c v => OSet2T r c v
    | OSetRow r vs => OSetRowT r vs
    | ORowsMutMap f => ORowsMutMapT f
    | OMap f => OMapT f
    | OClone => OCloneT
    | OTryFromRef => OTryFromRefT
    end.
  Definition gridZ (g : grid) : gridT Z := mkGridT (gh g) (gw g) (cells g).
  Definition queryZ (q : query) : queryT Z :=
    match q with
    | QShape => QShapeT | QSize => QSizeT | QIsEmpty => QIsEmptyT
    | QGet1 r c => QGet1T r c | QGet2 r c => QGet2T r c
    | QRows => QRowsT | QIntoIter => QIntoIterT | QMax => QMaxT | QMin => QMinT
    | QEqNested other => QEqNestedT other
    | QDisplay => QDisplayT dec_Z
    end.
  Definition answerZ (x : answer) : answerT Z :=
    match x with
    | AShape h w => AShapeT h w | ANat n => ANatT n | ABool b => ABoolT b
    | AElem r => AElemT r | ARows r => ARowsT r | AOpt r => AOptT r
    | AEq r => AEqT r | AText r => ATextT r
    end.

  Lemma step_cT_Z a o : step_cT a (opZ o) = step_c a o.
  Proof. destruct o; reflexivity. Qed.

  Lemma absT_Z a : absT a = gridZ (abs a).
  Proof. reflexivity. Qed.

  Lemma step_sT_Z g o :
    step_sT (gridZ g) (opZ o) = (gridZ (fst (step_s g o)), snd (step_s g o)).
  Proof.
    unfold step_sT, step_s, in_gridT, in_grid.
    destruct o as [rows|m n f|data d h w|v h w|n|h| | |x y|r c v|r c v|r vs|f|f| | ];
      cbn [opZ gridZ ghT gwT cellsT];
      try (destruct rows as [|r0 rest]);
      repeat match goal with |- context [if ?b then _ else _] =>
               lazymatch b with
               | context [Nat.eqb _ _ && _] => fail
               | _ => destruct b
               end end;
      reflexivity.
  Qed.

  Lemma observe_cT_Z a q : observe_cT a (queryZ q) = answerZ (observe_c a q).
  Proof. destruct q; reflexivity. Qed.

  (* at Z the comparison folds are max and min *)
  Lemma reduce_max_Z (l : list Z) :
    reduce (fun x y => if ngtb x y then x else y) l = reduce Z.max l.
  Proof.
    apply reduce_ext. intros u v. unfold ngtb. cbn [nltb ZNum]. destruct (Z.ltb_spec v u); lia.
  Qed.
  Lemma reduce_min_Z (l : list Z) :
    reduce (fun x y => if nltb x y then x else y) l = reduce Z.min l.
  Proof.
    apply reduce_ext. intros u v. cbn [nltb ZNum]. destruct (Z.ltb_spec u v); lia.
  Qed.

  Lemma observe_sT_Z g q : observe_sT (gridZ g) (queryZ q) = answerZ (observe_s g q).
  Proof.
    destruct q as [ | | |r c|r c| | | | |other| ]; cbn [queryZ observe_sT observe_s answerZ];
      try reflexivity.
    - rewrite reduce_max_Z. reflexivity.
    - rewrite reduce_min_Z. reflexivity.
  Qed.

  Lemma trace_cT_Z : forall ops a, trace_cT a (map opZ ops) = trace_c a ops.
  Proof.
    induction ops as [|o ops IH]; intro a; [reflexivity|].
    cbn [map trace_cT trace_c]. rewrite step_cT_Z, IH. reflexivity.
  Qed.
  Lemma run_cT_Z : forall ops a, run_cT a (map opZ ops) = run_c a ops.
  Proof.
    induction ops as [|o ops IH]; intro a; [reflexivity|].
    unfold run_cT, run_c in *. cbn [map fold_left]. rewrite step_cT_Z. apply IH.
  Qed.
  Lemma trace_sT_Z : forall ops g, trace_sT (gridZ g) (map opZ ops) = trace_s g ops.
  Proof.
    induction ops as [|o ops IH]; intro g; [reflexivity|].
    cbn [map trace_sT trace_s]. rewrite step_sT_Z. cbn [fst snd]. rewrite IH. reflexivity.
  Qed.
  Lemma run_sT_Z : forall ops g, run_sT (gridZ g) (map opZ ops) = gridZ (run_s g ops).
  Proof.
    induction ops as [|o ops IH]; intro g; [reflexivity|].
    unfold run_sT, run_s in *. cbn [map fold_left]. rewrite step_sT_Z. cbn [fst]. apply IH.
  Qed.

  Lemma answerZ_inj x y : answerZ x = answerZ y -> x = y.
  Proof. destruct x, y; cbn [answerZ]; intro H; try discriminate; injection H; intros; subst; reflexivity. Qed.

  (* sanity: the pinned Z theorem c12_histories follows from the generic one *)
  Lemma c12_histories_from_generic : forall a0 ops, Inv a0 ->
    trace_c a0 ops = trace_s (abs a0) ops /\
    forall q, observe_c (run_c a0 ops) q = observe_s (run_s (abs a0) ops) q.
  Proof.
    intros a0 ops I. destruct (c12T_histories a0 (map opZ ops) I) as [H1 H2]. split.
    - rewrite <- trace_cT_Z, H1, absT_Z. apply trace_sT_Z.
    - intro q. apply answerZ_inj. rewrite <- observe_cT_Z, <- observe_sT_Z, <- run_cT_Z, <- run_sT_Z.
      apply H2.
  Qed.
End InstanceZ.
