(* Proofs/ParseTotal.v — neither parser model can reach a Panic outcome.
   For parse_simple this needs the exponent cap: max power <= MAX_POWER, so
   neither `max_power + 1` (usize overflow) nor the allocation limit fires. *)
From Coq Require Import ZArith NArith List Bool Lia.
From SV Require Import Base.Num Base.Outcome Base.Str Model.Poly Model.Parse.
Import ListNotations.

Section Total.
  Context {T : Type} {NT : Num T}.
  Variable U : UClass.

  Lemma mapM_no_panic {A B} (f : A -> res B) (l : list A) :
    (forall a, no_panic (f a)) -> no_panic (mapM f l).
  Proof.
    intros Hf. induction l as [|a l IH]; cbn [mapM]; [intros w; discriminate|].
    apply bind_no_panic; [apply Hf|]. intros b _.
    apply bind_no_panic; [exact IH|]. intros bs _ w; discriminate.
  Qed.

  Lemma mapM_forall {A B} (P : B -> Prop) (f : A -> res B) (l : list A) bs :
    (forall a b, f a = Ok b -> P b) -> mapM f l = Ok bs -> Forall P bs.
  Proof.
    intros Hf. revert bs. induction l as [|a l IH]; cbn [mapM]; intros bs H.
    - injection H as <-. constructor.
    - apply bind_ok in H as (b & Hb & H). apply bind_ok in H as (bs' & Hbs & H).
      injection H as <-. constructor; [eapply Hf; eauto | apply IH; exact Hbs].
  Qed.

  (* every accepted term has a power within the cap *)
  Lemma simple_term_power var part c p :
    simple_term var part = Ok (c, p) -> (Z.of_nat p <= MAX_POWER)%Z.
  Proof.
    unfold simple_term, MAX_POWER. intros H.
    assert (Hc : forall r : res (T * nat),
               r = match @parse_dec_finite T NT part with Some c0 => Ok (c0, O) | None => Err EInvalidConstant end ->
               r = Ok (c, p) -> (Z.of_nat p <= 65535)%Z).
    { intros r -> Hr. destruct (parse_dec_finite part); [injection Hr as _ <-; cbn; lia | discriminate]. }
    destruct var as [v|]; [|eapply Hc; [reflexivity|exact H]].
    destruct (find_char v part) as [x|]; [|eapply Hc; [reflexivity|exact H]].
    match type of H with (match ?co with _ => _ end) = _ => destruct co as [c0|e|w] end; try discriminate.
    destruct (skipn (S x) part) as [|r pow_str].
    - injection H as _ <-. cbn; lia.
    - destruct (N.eqb r c_caret); [|discriminate].
      destruct (parse_nat_text pow_str) as [q|]; [|discriminate].
      destruct (Z.leb_spec q 65535) as [Hq|Hq]; [|discriminate].
      injection H as _ <-.
      lia.
  Qed.

  Lemma simple_term_no_panic var part : no_panic (simple_term var part).
  Proof.
    unfold simple_term. intros w.
    assert (Hc : (match @parse_dec_finite T NT part with Some c0 => Ok (c0, O) | None => Err EInvalidConstant end)
                 <> Panic w) by (destruct (parse_dec_finite part); discriminate).
    destruct var as [v|]; [|exact Hc].
    destruct (find_char v part) as [x|]; [|exact Hc].
    set (co := match firstn x part with
               | [] => _ | _ => _ end).
    assert (Hco : forall w', (co : res T) <> Panic w').
    { subst co. intros w'. destruct (firstn x part) as [|a [|b l]].
      - discriminate.
      - destruct (N.eqb a c_plus); [discriminate|]. destruct (N.eqb a c_minus); [discriminate|].
        destruct (parse_dec_finite [a]); discriminate.
      - destruct (parse_dec_finite (a :: b :: l)); discriminate. }
    destruct co as [c0|e|w']; [| discriminate | exfalso; eapply Hco; reflexivity].
    destruct (skipn (S x) part) as [|r pow_str]; [discriminate|].
    destruct (N.eqb r c_caret); [|discriminate].
    destruct (parse_nat_text pow_str) as [q|]; [|discriminate].
    destruct (q <=? MAX_POWER)%Z; discriminate.
  Qed.

  Lemma max_power_of_bound (terms : list (T * nat)) b :
    Forall (fun t => snd t <= b) terms -> max_power_of terms <= b.
  Proof.
    unfold max_power_of. intros H.
    assert (G : forall m, m <= b -> fold_left (fun m t => Nat.max m (snd t)) terms m <= b).
    { induction H as [|t ts Ht _ IH]; intros m Hm; cbn [fold_left]; [exact Hm|].
      apply IH. apply Nat.max_lub; assumption. }
    apply G. lia.
  Qed.

  Theorem simple_total (s : str) : no_panic (parse_simple U s).
  Proof.
    unfold parse_simple. intros w.
    destruct (existsb bad_part _); [discriminate|].
    set (var := find_pred (u_alphabetic U) _).
    set (parts := drop_leading_empty _).
    destruct (mapM (simple_term var) parts) as [terms|e|w'] eqn:Hm.
    - unfold dense_coeffs_checked.
      assert (Hb : (Z.of_nat (max_power_of terms) <= 65535)%Z).
      { pose (b := Z.to_nat 65535).
        assert (Hm' : max_power_of terms <= b).
        { apply max_power_of_bound.
          eapply (mapM_forall (fun t : T * nat => snd t <= b)); [|exact Hm].
          intros a [c p] Ha. cbn [snd]. pose proof (simple_term_power _ _ _ _ Ha) as Hp.
          unfold MAX_POWER in Hp. unfold b. lia. }
        unfold b in Hm'. lia. }
      destruct (Z.leb_spec (2 ^ 64) (Z.of_nat (max_power_of terms) + 1)) as [Hx|Hx]; [lia|].
      destruct (Z.ltb_spec (2 ^ 63 - 1) ((Z.of_nat (max_power_of terms) + 1) * 8)) as [Hy|Hy]; [lia|].
      destruct (sums_finite terms); discriminate.
    - discriminate.
    - exfalso. eapply (mapM_no_panic (simple_term var) parts); [apply simple_term_no_panic|exact Hm].
  Qed.

  Lemma scan_vars_no_panic fuel s acc : no_panic (scan_vars fuel s acc).
  Proof.
    revert s acc. induction fuel as [|fuel IH]; intros s acc w; cbn [scan_vars]; [discriminate|].
    destruct s as [|ch s']; [discriminate|].
    destruct (is_ascii_letter ch); [|discriminate].
    destruct s' as [|c2 s'']; [discriminate|].
    destruct (N.eqb c2 c_caret).
    - destruct (scan_pow s'') as [ps rest].
      assert (Hp : forall w', @inter_pow T NT ps <> Panic w').
      { intros w'. unfold inter_pow. destruct (contains_char c_slash ps).
        - destruct (parse_fraction ps); discriminate.
        - destruct (parse_dec_finite ps); discriminate. }
      destruct (inter_pow ps) as [p|e|w']; [apply IH | discriminate | exfalso; eapply Hp; reflexivity].
    - apply IH.
  Qed.

  Lemma inter_term_no_panic part : no_panic (inter_term U part).
  Proof.
    unfold inter_term. intros w. destruct (scan_coeff U true part) as [cs rest].
    assert (Hc : forall w', @inter_coeff T NT cs <> Panic w').
    { intros w'. unfold inter_coeff. destruct cs as [|a l]; [discriminate|].
      destruct (str_eqb (a :: l) [c_minus]); [discriminate|].
      destruct (contains_char c_slash (a :: l)).
      - destruct (parse_fraction (a :: l)); discriminate.
      - destruct (parse_dec_finite (a :: l)); discriminate. }
    destruct (inter_coeff cs) as [c|e|w']; [| discriminate | exfalso; eapply Hc; reflexivity].
    destruct (scan_vars (length rest) rest []) as [vs|e|w'] eqn:Hs; try discriminate.
    - destruct (forallb _ _); discriminate.
    - exfalso. eapply scan_vars_no_panic. exact Hs.
  Qed.

  Theorem inter_total (s : str) : no_panic (parse_inter U s).
  Proof.
    unfold parse_inter. intros w.
    destruct (contains_char c_at s); [discriminate|].
    destruct (existsb bad_part _); [discriminate|].
    set (parts := drop_leading_empty _).
    destruct (mapM (inter_term U) parts) as [ts|e|w'] eqn:Hm; try discriminate.
    exfalso. eapply (mapM_no_panic (inter_term U) parts); [apply inter_term_no_panic|exact Hm].
  Qed.
End Total.
