(* Proofs/SolveFloat.v — END-TO-END componentwise residuals of the executed binary64 code, composed from
   the backward-error theorems of GaussFloat.v / PLUFloat.v / SubstFloat.v.

   Part A  [lu_solve_residual] (pure real lemma): if |L U - A'| <= g1 |L||U|, |L y - b'| <= g2 |L||y| and
           |U x - y| <= g3 |U||x| componentwise, then |A' x - b'| <= (g1 + g2 (1+g3) + g3) |L||U||x|.
   Part B  [ge_float_residual]: the vector returned by [ge] (Gaussian elimination with scaled partial
           pivoting, binary64) has a small componentwise residual in the ORIGINAL system (row s i of it).
   Part C  [inverse_float_residual]: every column of the matrix returned by [inverse] (PLU, then forward and
           back substitution per column, binary64) has a small componentwise residual against the
           corresponding column of the identity.                                                        *)
From Coq Require Import ZArith List Bool Arith Reals Floats Lia Lra.
From Flocq Require Import Core Plus_error Relative BinarySingleNaN PrimFloat.
From SV Require Import Base.Num Base.Outcome Base.Mat Model.Subst Model.Gauss Model.LU Model.Inverse
                       Proofs.LU Proofs.PLU Proofs.Gauss
                       Proofs.Stats Proofs.StatsFloat Proofs.Arr2DFloat Proofs.PolyFloat Proofs.SubstFloat
                       Proofs.LUFloat Proofs.PLUFloat Proofs.GaussFloat.
Import ListNotations.
Local Open Scope R_scope.
Local Notation pfloat := PrimFloat.float.

(* ======================================================================================== *)
(* Part A — real arithmetic                                                                  *)
Lemma msum_abs_le lo len f : Rabs (msum lo len f) <= msum lo len (fun t => Rabs (f t)).
Proof.
  induction len as [|len IH]; cbn [msum]; [rewrite Rabs_R0; lra|].
  eapply Rle_trans; [apply Rabs_triang|]. lra.
Qed.

Lemma msum_le lo len f g : (forall t, (lo <= t < lo + len)%nat -> f t <= g t) -> msum lo len f <= msum lo len g.
Proof.
  induction len as [|len IH]; intro H; cbn [msum]; [lra|].
  assert (msum lo len f <= msum lo len g) by (apply IH; intros t Ht; apply H; lia).
  assert (f (lo + len)%nat <= g (lo + len)%nat) by (apply H; lia). lra.
Qed.

Lemma msum_nonneg lo len f : (forall t, (lo <= t < lo + len)%nat -> 0 <= f t) -> 0 <= msum lo len f.
Proof.
  intro H. replace 0 with (msum lo len (fun _ => 0)) by (apply msum_zero; reflexivity).
  apply msum_le. exact H.
Qed.

Lemma Rsum_n_msum n f : Rsum_n n f = msum 0 n f.
Proof. induction n as [|n IH]; [reflexivity|]. cbn [Rsum_n msum]. rewrite IH. reflexivity. Qed.

Lemma lu_solve_residual (n : nat) (L U A' : mat R) (y x b' : vec R) (g1 g2 g3 : R) :
  0 <= g1 -> 0 <= g2 -> 0 <= g3 ->
  (forall i k, (i < n)%nat -> (k < n)%nat ->
     Rabs (msum 0 n (fun j => L i j * U j k) - A' i k) <= g1 * msum 0 n (fun j => Rabs (L i j) * Rabs (U j k))) ->
  (forall i, (i < n)%nat ->
     Rabs (msum 0 n (fun j => L i j * y j) - b' i) <= g2 * msum 0 n (fun j => Rabs (L i j) * Rabs (y j))) ->
  (forall i, (i < n)%nat ->
     Rabs (msum 0 n (fun j => U i j * x j) - y i) <= g3 * msum 0 n (fun j => Rabs (U i j) * Rabs (x j))) ->
  forall i, (i < n)%nat ->
    Rabs (msum 0 n (fun k => A' i k * x k) - b' i)
    <= (g1 + g2 * (1 + g3) + g3)
       * msum 0 n (fun j => msum 0 n (fun k => Rabs (L i j) * Rabs (U j k) * Rabs (x k))).
Proof.
  intros G1 G2 G3 H1 H2 H3 i Hi.
  set (LU := fun k => msum 0 n (fun j => L i j * U j k)).
  set (Ux := fun j => msum 0 n (fun k => U j k * x k)).
  set (W := fun j => msum 0 n (fun k => Rabs (U j k) * Rabs (x k))).
  set (D := msum 0 n (fun j => Rabs (L i j) * W j)).
  assert (ED : msum 0 n (fun j => msum 0 n (fun k => Rabs (L i j) * Rabs (U j k) * Rabs (x k))) = D).
  { unfold D, W. apply msum_ext. intros j _. rewrite <- msum_scal_l. apply msum_ext. intros k _. ring. }
  rewrite ED.
  assert (W0 : forall j, 0 <= W j).
  { intro j. unfold W. apply msum_nonneg. intros k _. apply Rmult_le_pos; apply Rabs_pos. }
  assert (D0 : 0 <= D).
  { unfold D. apply msum_nonneg. intros j _. apply Rmult_le_pos; [apply Rabs_pos|apply W0]. }
  set (T1 := msum 0 n (fun k => (A' i k - LU k) * x k)).
  set (T2 := msum 0 n (fun j => L i j * (Ux j - y j))).
  set (T3 := msum 0 n (fun j => L i j * y j) - b' i).
  assert (E1 : msum 0 n (fun k => A' i k * x k) = T1 + msum 0 n (fun k => LU k * x k)).
  { unfold T1. rewrite <- msum_plus. apply msum_ext. intros k _. ring. }
  assert (E2 : msum 0 n (fun j => L i j * Ux j) = T2 + msum 0 n (fun j => L i j * y j)).
  { unfold T2. rewrite <- msum_plus. apply msum_ext. intros j _. ring. }
  assert (E3 : msum 0 n (fun k => LU k * x k) = msum 0 n (fun j => L i j * Ux j)).
  { unfold LU, Ux. apply (mprod_assoc_vec n L U x i). }
  replace (msum 0 n (fun k => A' i k * x k) - b' i) with (T1 + T2 + T3)
    by (rewrite E1, E3, E2; unfold T3; ring).
  (* T1 *)
  assert (B1 : Rabs T1 <= g1 * D).
  { unfold T1. eapply Rle_trans; [apply msum_abs_le|].
    eapply Rle_trans.
    - apply (msum_le 0 n _ (fun k => g1 * msum 0 n (fun j => Rabs (L i j) * Rabs (U j k)) * Rabs (x k))).
      intros k Hk. rewrite Rabs_mult. apply Rmult_le_compat_r; [apply Rabs_pos|].
      rewrite Rabs_minus_sym. apply H1; lia.
    - right. unfold D, W.
      rewrite (msum_ext 0 n _ (fun k => g1 * msum 0 n (fun j => Rabs (L i j) * Rabs (U j k) * Rabs (x k)))).
      2:{ intros k _. rewrite Rmult_assoc, <- msum_scal_r. reflexivity. }
      rewrite msum_scal_l. f_equal. rewrite msum_exchange.
      apply msum_ext. intros j _. rewrite <- msum_scal_l. apply msum_ext. intros k _. ring. }
  (* U x versus y *)
  assert (BU : forall j, (j < n)%nat -> Rabs (Ux j - y j) <= g3 * W j) by (intros j Hj; apply H3; exact Hj).
  assert (BUx : forall j, Rabs (Ux j) <= W j).
  { intro j. unfold Ux, W. eapply Rle_trans; [apply msum_abs_le|].
    right. apply msum_ext. intros k _. apply Rabs_mult. }
  assert (By : forall j, (j < n)%nat -> Rabs (y j) <= (1 + g3) * W j).
  { intros j Hj. replace (y j) with (Ux j - (Ux j - y j)) by ring.
    eapply Rle_trans; [apply Rabs_triang|]. rewrite Rabs_Ropp.
    pose proof (BU j Hj). pose proof (BUx j). lra. }
  (* T2 *)
  assert (B2 : Rabs T2 <= g3 * D).
  { unfold T2. eapply Rle_trans; [apply msum_abs_le|].
    eapply Rle_trans.
    - apply (msum_le 0 n _ (fun j => g3 * (Rabs (L i j) * W j))).
      intros j Hj. rewrite Rabs_mult.
      replace (g3 * (Rabs (L i j) * W j)) with (Rabs (L i j) * (g3 * W j)) by ring.
      apply Rmult_le_compat_l; [apply Rabs_pos|apply BU; lia].
    - right. unfold D. rewrite msum_scal_l. reflexivity. }
  (* T3 *)
  assert (B3 : Rabs T3 <= g2 * (1 + g3) * D).
  { unfold T3. eapply Rle_trans; [apply H2; exact Hi|].
    rewrite Rmult_assoc. apply Rmult_le_compat_l; [exact G2|].
    unfold D. rewrite <- msum_scal_l. apply msum_le. intros j Hj.
    replace ((1 + g3) * (Rabs (L i j) * W j)) with (Rabs (L i j) * ((1 + g3) * W j)) by ring.
    apply Rmult_le_compat_l; [apply Rabs_pos|apply By; lia]. }
  eapply Rle_trans; [apply Rabs_triang|]. eapply Rle_trans; [apply Rplus_le_compat_r, Rabs_triang|].
  lra.
Qed.

(* ======================================================================================== *)
(* Part B — Gaussian elimination, binary64                                                   *)
Theorem ge_float_residual : forall (n : nat) (A : mat PrimFloat.float) (b : vec PrimFloat.float)
                                   (tol : PrimFloat.float) (x : vec PrimFloat.float),
  ge n n A n b tol = Ok x ->
  let s := ge_perm n tol A b in
  let L := ge_L n tol A b in
  let U := ge_U n tol A b in
  let y := ge_y n tol A b in
  (forall i k, (i < n)%nat -> (k < n)%nat -> plu_entry_ok (fun r c => A (s r) c) L U i k) ->
  (forall i, (i < n)%nat -> ge_rhs_ok (fun r => b (s r)) L y i) ->
  (forall i, (i < n)%nat -> back_row_ok (ge_W n tol A b) n y x i) ->
  forall i, (i < n)%nat ->
    is_finite (Prim2B (x i)) = true /\
    Rabs (msum 0 n (fun k => B2R (Prim2B (A (s i) k)) * B2R (Prim2B (x k))) - B2R (Prim2B (b (s i))))
    <= (((1 + bpow radix2 (-53)) ^ n - 1)
        + ((1 + bpow radix2 (-53)) ^ n - 1) * (1 + ((1 + bpow radix2 (-53)) ^ (n + 1) - 1))
        + ((1 + bpow radix2 (-53)) ^ (n + 1) - 1))
       * msum 0 n (fun j => msum 0 n (fun k =>
           Rabs (B2R (Prim2B (L i j))) * Rabs (B2R (Prim2B (U j k))) * Rabs (B2R (Prim2B (x k))))).
Proof.
  intros n A b tol x E s L U y H1 H2 H3 i Hi.
  destruct (ge_float_backward_error n A b tol x E) as [Hp [Hb [HU [P1 P2]]]].
  fold s L U y in Hp, Hb, HU, P1, P2.
  specialize (P1 H1). specialize (P2 H2).
  assert (Hn : (0 < n)%nat) by lia.
  destruct (back_substitution_float_error n (ge_W n tol A b) y (vconst n0) Hn) as [x' [Ex' P3]].
  rewrite Hb in Ex'. injection Ex' as <-.
  specialize (P3 H3).
  split; [exact (proj1 (P3 i Hi))|].
  fold feps in *.
  pose proof FR_zero as [Z0 _].
  assert (EU : forall r c, (if (c <? r)%nat then 0 else B2R (Prim2B (ge_W n tol A b r c))) = FR (U r c)).
  { intros r c. unfold U, ge_U, ge_W, plu_upper.
    destruct (Nat.ltb_spec c r); destruct (Nat.leb_spec r c); try lia; [symmetry; exact Z0|reflexivity]. }
  apply (lu_solve_residual n (fun r c => FR (L r c)) (fun r c => FR (U r c)) (fun r c => FR (A (s r) c))
           (fun r => FR (y r)) (fun r => FR (x r)) (fun r => FR (b (s r)))
           ((1 + feps) ^ n - 1) ((1 + feps) ^ n - 1) ((1 + feps) ^ (n + 1) - 1));
    try apply gam_nonneg; try exact Hi.
  - intros r c Hr Hc. exact (proj2 (proj2 (P1 r c Hr Hc))).
  - intros r Hr. exact (proj2 (P2 r Hr)).
  - intros r Hr. pose proof (proj2 (P3 r Hr)) as B. rewrite !Rsum_n_msum in B.
    rewrite (msum_ext 0 n _ (fun j => FR (U r j) * FR (x j))) in B
      by (intros j _; rewrite EU; reflexivity).
    rewrite (msum_ext 0 n (fun j => Rabs (if (j <? r)%nat then 0 else B2R (Prim2B (ge_W n tol A b r j))) * _)
                          (fun j => Rabs (FR (U r j)) * Rabs (FR (x j)))) in B
      by (intros j _; rewrite EU; reflexivity).
    exact B.
Qed.

(* non-vacuity of Part B: A = [[1,2,3],[4,5,6],[7,8,10]], b = [1,2,4], tol = 1e-12 (two interchanges; every
   hypothesis of ge_float_residual holds together, by computation) *)
Definition ex_ge_b2 : vec PrimFloat.float := vec_of_list [0x1p+0; 0x1p+1; 0x1p+2]%float.

Example ex_ge_residual_hyps : exists x, ge 3 3 ex_ge_a 3 ex_ge_b2 ex_ge_tol = Ok x /\
  (forall i k, (i < 3)%nat -> (k < 3)%nat ->
     plu_entry_ok (fun r c => ex_ge_a (ge_perm 3 ex_ge_tol ex_ge_a ex_ge_b2 r) c)
                  (ge_L 3 ex_ge_tol ex_ge_a ex_ge_b2) (ge_U 3 ex_ge_tol ex_ge_a ex_ge_b2) i k) /\
  (forall i, (i < 3)%nat ->
     ge_rhs_ok (fun r => ex_ge_b2 (ge_perm 3 ex_ge_tol ex_ge_a ex_ge_b2 r))
               (ge_L 3 ex_ge_tol ex_ge_a ex_ge_b2) (ge_y 3 ex_ge_tol ex_ge_a ex_ge_b2) i) /\
  (forall i, (i < 3)%nat ->
     back_row_ok (ge_W 3 ex_ge_tol ex_ge_a ex_ge_b2) 3 (ge_y 3 ex_ge_tol ex_ge_a ex_ge_b2) x i).
Proof.
  eexists. split; [reflexivity|]. split; [|split].
  - intros i k Hi Hk.
    destruct i as [|[|[|i]]]; try lia; destruct k as [|[|[|k]]]; try lia;
    unfold plu_entry_ok; cbn [Nat.min]; cbv zeta;
    (split; [intros j Hj; destruct j as [|[|j]]; try lia; okmul_compute|]; split;
     [intros t Ht; destruct t as [|[|[|t]]]; try lia; fin_compute|intros Hlt; try lia; okdiv_compute]).
  - intros i Hi.
    destruct i as [|[|[|i]]]; try lia; unfold ge_rhs_ok; cbv zeta;
    (split; [intros j Hj; destruct j as [|[|j]]; try lia; okmul_compute
            |intros t Ht; destruct t as [|[|[|t]]]; try lia; fin_compute]).
  - intros i Hi. destruct i as [|[|[|i]]]; try lia; unfold back_row_ok; cbn [Nat.eqb];
    try okdiv_compute;
    (split; [fin_compute|]; split;
     [intros j Hj; destruct j as [|[|[|j]]]; try lia; okmul_compute|]; split;
     [intros k Hk; cbn [Nat.sub] in Hk; destruct k as [|[|[|k]]]; try lia; fin_compute|]; split;
     [fin_compute|okdiv_compute]).
Qed.

(* ======================================================================================== *)
(* Part C — the inverse                                                                      *)
Section InverseGeneric.
  Context {T : Type} {NT : Num T}.

  (* the intermediate vectors of column j, as the model computes them *)
  Definition inv_rhs (n : nat) (P : mat T) (j : nat) : vec T :=
    vretab n (for_range 0 n (fun i b => vset b i (P i j)) (vconst n0)).
  Definition inv_y (n : nat) (L P : mat T) (j : nat) : vec T :=
    vretab n (forward_substitution L n (inv_rhs n P j) (vconst n0)).
  Definition inv_x (n : nat) (L U P : mat T) (j : nat) : vec T :=
    match inverse_col n L U P j with Ok x => x | _ => vconst n0 end.

  Lemma inverse_col_unfold n (L U P : mat T) j :
    inverse_col n L U P j = back_substitution U n (inv_y n L P j) (vconst n0).
  Proof. reflexivity. Qed.

  Lemma gfill_vec_spec n (f : nat -> T) (b0 : vec T) i :
    (i < n)%nat -> for_range 0 n (fun i b => vset b i (f i)) b0 i = f i.
  Proof.
    revert i. induction n as [|n IH]; intros i Hi; [lia|].
    rewrite for_range_S. cbn [Nat.add].
    destruct (Nat.eq_dec i n) as [->|Hne]; [apply vset_same|].
    rewrite vset_other by exact Hne. apply IH. lia.
  Qed.

  Lemma inv_rhs_spec n (P : mat T) j i : (i < n)%nat -> inv_rhs n P j i = P i j.
  Proof. intro Hi. unfold inv_rhs. rewrite vretab_spec by exact Hi. apply (gfill_vec_spec n (fun i => P i j)). exact Hi. Qed.

  Lemma gset_col_spec n j (x : vec T) (m : mat T) :
    (forall r, (r < n)%nat -> set_col n j x m r j = x r) /\
    (forall r c, (c <> j \/ (n <= r)%nat) -> set_col n j x m r c = m r c).
  Proof.
    unfold set_col. induction n as [|n [IH1 IH2]].
    - split; [intros r Hr; lia|intros; reflexivity].
    - rewrite for_range_S. cbn [Nat.add]. split.
      + intros r Hr. destruct (Nat.eq_dec r n) as [->|Hne]; [apply mset_same|].
        rewrite mset_other by (left; exact Hne). apply IH1. lia.
      + intros r c H. rewrite mset_other by (destruct H; [right; assumption|left; lia]).
        apply IH2. destruct H; [left; assumption|right; lia].
  Qed.

  Definition ginv_post (n : nat) (L U P : mat T) (j : nat) (acc : res (mat T)) : Prop :=
    match acc with
    | Ok inv => forall c, (c < j)%nat -> exists x, inverse_col n L U P c = Ok x /\ forall i, (i < n)%nat -> inv i c = x i
    | _ => True
    end.

  (* a returned inverse: the factors are those of plu, and column j is what inverse_col returns *)
  Lemma inverse_ok_cols n (A B : mat T) : inverse n n A = Ok B ->
    exists L U P, plu n n A = Ok (L, U, P) /\
      forall j, (j < n)%nat -> exists x, inverse_col n L U P j = Ok x /\ forall i, (i < n)%nat -> B i j = x i.
  Proof.
    unfold inverse. rewrite Nat.eqb_refl. cbn [negb].
    destruct (plu n n A) as [[[L U] P]|e|w]; try discriminate.
    intro E. exists L, U, P. split; [reflexivity|].
    pose proof (for_range_inv (ginv_post n L U P) 0 n (inverse_step n L U P) (Ok (mconst n0))) as H.
    cbn [Nat.add] in H. rewrite E in H. apply H; clear H E.
    - cbn [ginv_post]. intros c Hc. lia.
    - intros j acc Hj Hacc. destruct acc as [inv|e|w]; [|exact I|exact I].
      cbn [inverse_step]. destruct (inverse_col n L U P j) as [x|e|w] eqn:Hx; [|exact I|exact I].
      cbn [ginv_post] in *.
      destruct (gset_col_spec n j x inv) as [S1 S2].
      intros c Hc. destruct (Nat.eq_dec c j) as [->|Hne].
      + exists x. split; [exact Hx|]. intros i Hi. rewrite retab_spec by lia. apply S1. exact Hi.
      + destruct (Hacc c) as [x' [Hx' Hv]]; [lia|].
        exists x'. split; [exact Hx'|]. intros i Hi. rewrite retab_spec by lia.
        rewrite S2 by (left; exact Hne). apply Hv. exact Hi.
  Qed.
End InverseGeneric.

Theorem inverse_float_residual : forall (n : nat) (A B : mat PrimFloat.float),
  inverse n n A = Ok B ->
  exists L U P, plu n n A = Ok (L, U, P) /\
  forall s : nat -> nat,
  (forall i j, (i < n)%nat -> (j < n)%nat ->
     P i j = if (j =? s i)%nat then PrimFloat.one else PrimFloat.zero) ->
  (forall i k, (i < n)%nat -> (k < n)%nat -> plu_entry_ok (fun r c => A (s r) c) L U i k) ->
  forall j, (j < n)%nat ->
  (forall i, (i < n)%nat ->
     fwd_row_ok L (inv_rhs n P j) (forward_substitution L n (inv_rhs n P j) (vconst n0)) i) ->
  (forall i, (i < n)%nat -> back_row_ok U n (inv_y n L P j) (inv_x n L U P j) i) ->
  forall i, (i < n)%nat ->
    is_finite (Prim2B (B i j)) = true /\
    Rabs (msum 0 n (fun k => B2R (Prim2B (A (s i) k)) * B2R (Prim2B (B k j)))
          - (if (j =? s i)%nat then 1 else 0))
    <= (((1 + bpow radix2 (-53)) ^ n - 1)
        + ((1 + bpow radix2 (-53)) ^ (n + 1) - 1) * (1 + ((1 + bpow radix2 (-53)) ^ (n + 1) - 1))
        + ((1 + bpow radix2 (-53)) ^ (n + 1) - 1))
       * msum 0 n (fun t => msum 0 n (fun k =>
           Rabs (B2R (Prim2B (L i t))) * Rabs (B2R (Prim2B (U t k))) * Rabs (B2R (Prim2B (B k j))))).
Proof.
  intros n A B E.
  destruct (inverse_ok_cols n A B E) as [L [U [P [EP Hcols]]]].
  exists L, U, P. split; [exact EP|].
  intros s HP H1 j Hj H2 H3 i Hi.
  destruct (Hcols j Hj) as [xj [Exj HB]].
  destruct (plu_ok_final n A L U P EP) as [s0 [_ [_ [_ I2 _ _ I5]]]].
  pose proof FR_zero as [Z0 _]. pose proof FR_one as [O1 _].
  assert (Hn : (0 < n)%nat) by lia.
  (* (1) the factorisation *)
  pose proof (plu_float_backward_error n A L U P s EP HP H1) as P1.
  (* (2) forward substitution *)
  pose proof (forward_substitution_float_error n L (inv_rhs n P j) (vconst n0) H2) as P2.
  (* (3) back substitution *)
  destruct (back_substitution_float_error n U (inv_y n L P j) (vconst n0) Hn) as [x' [Ex' P3]].
  rewrite <- inverse_col_unfold, Exj in Ex'. injection Ex' as <-.
  assert (Exi : inv_x n L U P j = xj) by (unfold inv_x; rewrite Exj; reflexivity).
  rewrite Exi in H3. specialize (P3 H3).
  fold feps in *.
  assert (EB : forall k, (k < n)%nat -> B k j = xj k) by (intros k Hk; apply HB; exact Hk).
  split; [rewrite EB by exact Hi; exact (proj1 (P3 i Hi))|].
  rewrite (msum_ext 0 n (fun k => B2R (Prim2B (A (s i) k)) * B2R (Prim2B (B k j)))
                        (fun k => FR (A (s i) k) * FR (xj k)))
    by (intros k Hk; rewrite EB by lia; reflexivity).
  rewrite (msum_ext 0 n (fun t => msum 0 n (fun k => Rabs (B2R (Prim2B (L i t))) * Rabs (B2R (Prim2B (U t k))) * Rabs (B2R (Prim2B (B k j)))))
                        (fun t => msum 0 n (fun k => Rabs (FR (L i t)) * Rabs (FR (U t k)) * Rabs (FR (xj k)))))
    by (intros t _; apply msum_ext; intros k Hk; rewrite EB by lia; reflexivity).
  assert (Eb : (if (j =? s i)%nat then 1 else 0) = FR (inv_rhs n P j i)).
  { rewrite inv_rhs_spec by exact Hi. rewrite (HP i j Hi Hj).
    destruct (j =? s i)%nat; [symmetry; exact O1|symmetry; exact Z0]. }
  rewrite Eb.
  apply (lu_solve_residual n (fun r c => FR (L r c)) (fun r c => FR (U r c)) (fun r c => FR (A (s r) c))
           (fun r => FR (inv_y n L P j r)) (fun r => FR (xj r)) (fun r => FR (inv_rhs n P j r))
           ((1 + feps) ^ n - 1) ((1 + feps) ^ (n + 1) - 1) ((1 + feps) ^ (n + 1) - 1));
    try apply gam_nonneg; try exact Hi.
  - intros r c Hr Hc. exact (proj2 (proj2 (P1 r c Hr Hc))).
  - intros r Hr. pose proof (proj2 (P2 r Hr)) as Bd. rewrite !Rsum_n_msum in Bd.
    assert (EL : forall t, (t < n)%nat ->
              (if (r <? t)%nat then 0 else B2R (Prim2B (L r t))) = FR (L r t)).
    { intros t Ht. destruct (Nat.ltb_spec r t); [|reflexivity].
      rewrite (I5 r t Hr Ht) by lia. symmetry. exact Z0. }
    assert (Ey : forall t, (t < n)%nat ->
              forward_substitution L n (inv_rhs n P j) (vconst n0) t = inv_y n L P j t).
    { intros t Ht. unfold inv_y. rewrite vretab_spec by exact Ht. reflexivity. }
    rewrite (msum_ext 0 n _ (fun t => FR (L r t) * FR (inv_y n L P j t))) in Bd
      by (intros t Ht; rewrite EL, Ey by lia; reflexivity).
    rewrite (msum_ext 0 n (fun t => Rabs (if (r <? t)%nat then 0 else B2R (Prim2B (L r t))) * _)
                          (fun t => Rabs (FR (L r t)) * Rabs (FR (inv_y n L P j t)))) in Bd
      by (intros t Ht; rewrite EL, Ey by lia; reflexivity).
    exact Bd.
  - intros r Hr. pose proof (proj2 (P3 r Hr)) as Bd. rewrite !Rsum_n_msum in Bd.
    assert (EU : forall t, (t < n)%nat ->
              (if (t <? r)%nat then 0 else B2R (Prim2B (U r t))) = FR (U r t)).
    { intros t Ht. destruct (Nat.ltb_spec t r); [|reflexivity].
      rewrite (I2 r t Hr Ht) by lia. symmetry. exact Z0. }
    rewrite (msum_ext 0 n _ (fun t => FR (U r t) * FR (xj t))) in Bd
      by (intros t Ht; rewrite EU by lia; reflexivity).
    rewrite (msum_ext 0 n (fun t => Rabs (if (t <? r)%nat then 0 else B2R (Prim2B (U r t))) * _)
                          (fun t => Rabs (FR (U r t)) * Rabs (FR (xj t)))) in Bd
      by (intros t Ht; rewrite EU by lia; reflexivity).
    exact Bd.
Qed.

(* ---- discharging [okmul] / [okdiv] by computation when an operand is an exact zero (the right-hand
   sides of the inverse are unit vectors) ---- *)
Definition is_zero_sf (x : pfloat) : bool := match Prim2SF x with S754_zero _ => true | _ => false end.

Lemma FR_zero_by_compute (x : pfloat) : is_zero_sf x = true -> FR x = 0.
Proof.
  unfold is_zero_sf. intro H. rewrite FR_SF2R. destruct (Prim2SF x); try discriminate H. reflexivity.
Qed.

Lemma okmul_zero_l (x y : pfloat) :
  PrimFloat.is_finite (PrimFloat.mul x y) = true -> is_zero_sf x = true -> okmul x y.
Proof.
  intros F Z. rewrite is_finite_equiv in F. split; [exact F|]. left.
  fold (FR x) (FR y). rewrite (FR_zero_by_compute x Z). ring.
Qed.

Lemma okmul_zero_r (x y : pfloat) :
  PrimFloat.is_finite (PrimFloat.mul x y) = true -> is_zero_sf y = true -> okmul x y.
Proof.
  intros F Z. rewrite is_finite_equiv in F. split; [exact F|]. left.
  fold (FR x) (FR y). rewrite (FR_zero_by_compute y Z). ring.
Qed.

Lemma okdiv_zero (w d : pfloat) :
  PrimFloat.is_finite (PrimFloat.div w d) = true -> is_zero_sf w = true ->
  PrimFloat.is_finite d = true -> PrimFloat.leb two_m1021 (PrimFloat.abs d) = true -> okdiv w d.
Proof.
  intros F Z Fd Ld.
  pose proof (leb_two_m1021 _ Fd Ld) as Hd.
  assert (Hd0 : FR d <> 0).
  { intros Z0. rewrite Z0, Rabs_R0 in Hd. pose proof (bpow_gt_0 radix2 (-1021)). lra. }
  rewrite is_finite_equiv in F.
  split; [exact F|]. split; [exact Hd0|]. left.
  fold (FR w) (FR d). rewrite (FR_zero_by_compute w Z). unfold Rdiv. ring.
Qed.

Ltac okmul_any :=
  first [ apply okmul_by_leb; vm_compute; reflexivity
        | apply okmul_zero_l; vm_compute; reflexivity
        | apply okmul_zero_r; vm_compute; reflexivity ].
Ltac okdiv_any :=
  first [ apply okdiv_by_leb; vm_compute; reflexivity
        | apply okdiv_zero; vm_compute; reflexivity ].

(* non-vacuity of Part C: A = [[1,2,3],[4,5,6],[7,8,10]] (ex_plu_a of Proofs/PLUFloat.v, two interchanges,
   s = ex_plu_s = (2,0,1)): every hypothesis of inverse_float_residual holds, for all three columns *)
Example ex_inverse_residual_hyps : exists B L U P,
  inverse 3 3 ex_plu_a = Ok B /\ plu 3 3 ex_plu_a = Ok (L, U, P) /\
  (forall i j, (i < 3)%nat -> (j < 3)%nat ->
     P i j = if (j =? ex_plu_s i)%nat then PrimFloat.one else PrimFloat.zero) /\
  (forall i k, (i < 3)%nat -> (k < 3)%nat -> plu_entry_ok (fun r c => ex_plu_a (ex_plu_s r) c) L U i k) /\
  forall j, (j < 3)%nat ->
    (forall i, (i < 3)%nat ->
       fwd_row_ok L (inv_rhs 3 P j) (forward_substitution L 3 (inv_rhs 3 P j) (vconst n0)) i) /\
    (forall i, (i < 3)%nat -> back_row_ok U 3 (inv_y 3 L P j) (inv_x 3 L U P j) i).
Proof.
  eexists _, _, _, _. split; [vm_compute; reflexivity|]. split; [vm_compute; reflexivity|]. split; [|split].
  - intros i j Hi Hj.
    destruct i as [|[|[|i]]]; try lia; destruct j as [|[|[|j]]]; try lia; vm_compute; reflexivity.
  - intros i k Hi Hk.
    destruct i as [|[|[|i]]]; try lia; destruct k as [|[|[|k]]]; try lia;
    unfold plu_entry_ok; cbn [Nat.min]; cbv zeta;
    (split; [intros j Hj; destruct j as [|[|j]]; try lia; okmul_compute|]; split;
     [intros t Ht; destruct t as [|[|[|t]]]; try lia; fin_compute|intros Hlt; try lia; okdiv_compute]).
  - intros j Hj. split.
    + intros i Hi.
      destruct j as [|[|[|j]]]; try lia; destruct i as [|[|[|i]]]; try lia;
      (split; [fin_compute|]; split;
       [intros t Ht; destruct t as [|[|t]]; try lia; okmul_any|]; split;
       [intros k Hk; destruct k as [|[|[|k]]]; try lia; fin_compute|]; split;
       [fin_compute|okdiv_any]).
    + intros i Hi.
      destruct j as [|[|[|j]]]; try lia; destruct i as [|[|[|i]]]; try lia; unfold back_row_ok; cbn [Nat.eqb];
      try okdiv_any;
      (split; [fin_compute|]; split;
       [intros t Ht; destruct t as [|[|[|t]]]; try lia; okmul_any|]; split;
       [intros k Hk; cbn [Nat.sub] in Hk; destruct k as [|[|[|k]]]; try lia; fin_compute|]; split;
       [fin_compute|okdiv_any]).
Qed.
