(* Proofs/PowerFloat.v — C13 at the floating-point level: the vector returned by [power_method] of
   Model/Power.v is normalised EXACTLY for the binary64 instance [FNum]: some entry is the float 1.0
   and every entry is <= 1, not just up to rounding.

   Part A (any Num instance): an Ok answer (lam, v) is v = adivs y (scale_of y) for the un-normalised
   vector y = A x of the last loop body (n x 1, n >= 1), and [scale_of y] — the value of
   [scaling_component y]: the result of the max fold if it compares > 0, otherwise the result of the
   min fold — is an ENTRY of y, whatever the comparison does (NaN included): the folds only select.
   Part B (binary64): hypothesis "every entry of the returned v is finite".  The scale s = y_k is an
   entry of y, so v_k = fl(s / s); this is finite only for s finite and non-zero (0/0, inf/inf, NaN/NaN
   are NaN), and then fl(s / s) = 1.0 exactly.  With s finite, v_i = fl(y_i / s) finite forces y_i
   finite (inf / s is infinite, NaN / s is NaN): all entries of y are finite, the folds compute the real
   maximum mx and minimum mn.  If mx > 0 the divisor is mx and y_i / mx <= 1; otherwise every y_i <= 0,
   the divisor is mn < 0 and 0 <= y_i / mn <= 1.  Rounding to nearest is monotone and 1 is
   representable: fl(y_i / s) <= 1.  (An overflow of y_i / s towards -inf is excluded by the finiteness
   of v_i; the lemma [Bdiv_le_one] does not even need that, B2R of an infinity being 0.)
   Part C: [power_method_float_normalised].                                                          *)
From Coq Require Import ZArith NArith List Bool Arith Reals Floats Lia Lra.
From Flocq Require Import Core BinarySingleNaN PrimFloat.
From SV Require Import Base.Num Base.Outcome Base.Mat Model.Power Proofs.Power
                       Proofs.StatsFloat Proofs.Arr2DFloat Proofs.PolyFloat Proofs.PLUFloatMult.
Import ListNotations.

(* ======================================================================================== *)
(* Part A — any Num                                                                           *)
Section Generic.
  Context {T : Type} {NT : Num T}.

  Lemma reduce_max_in (l : list T) : forall x, In (reduce_max x l) (x :: l).
  Proof.
    induction l as [|a l IH]; intro x.
    - left; reflexivity.
    - rewrite reduce_max_cons. specialize (IH (if ngtb x a then x else a)).
      destruct (ngtb x a); destruct IH as [E|E].
      + left; exact E.
      + right; right; exact E.
      + right; left; exact E.
      + right; right; exact E.
  Qed.

  Lemma reduce_min_in (l : list T) : forall x, In (reduce_min x l) (x :: l).
  Proof.
    induction l as [|a l IH]; intro x.
    - left; reflexivity.
    - rewrite reduce_min_cons. specialize (IH (if nltb x a then x else a)).
      destruct (nltb x a); destruct IH as [E|E].
      + left; exact E.
      + right; right; exact E.
      + right; left; exact E.
      + right; right; exact E.
  Qed.

  (* the scaling component is an entry of the vector *)
  Lemma scale_of_entry n (y : arr T) : 1 <= n -> shaped n 1 y ->
    exists k, k < n /\ scale_of y = aget y k 0.
  Proof.
    intros Hn Hy. destruct (amax_ok n y Hn Hy) as [x [l [E _]]].
    apply (in_aget_col n y _ Hy). unfold scale_of. rewrite E.
    destruct (ngtb (reduce_max x l) n0); [apply reduce_max_in|apply reduce_min_in].
  Qed.

  (* the returned vector is the un-normalised vector of the last loop body divided by its scaling
     component *)
  Lemma power_method_last_step (rows : list (list T)) es lam v :
    power_method rows es = Ok (lam, v) ->
    exists n A x, 1 <= n /\ rect n n rows /\ try_from rows = Ok A /\ ah A = n /\ aw A = n /\
      shaped n 1 x /\ shaped n 1 (amul A x) /\
      scaling_component (amul A x) = Ok (scale_of (amul A x)) /\
      v = adivs (amul A x) (scale_of (amul A x)) /\ shaped n 1 v.
  Proof.
    intro H.
    destruct (pm_ok_trace rows es lam v H) as [n [A [k [prev [xp [ea [Hn [Hr [HA [Htf [_ [_ [Hxp [Hstep _]]]]]]]]]]]]]].
    assert (HA1 : ah A = n) by (rewrite HA; reflexivity).
    assert (HA2 : aw A = n) by (rewrite HA; reflexivity).
    destruct (pm_step_eq n A prev xp Hn HA1 HA2 Hxp) as [E Hsh].
    rewrite E in Hstep. injection Hstep as _ Hv _.
    destruct (amul_mat_vec n A xp Hn HA1 HA2 Hxp) as [Hy _].
    exists n, A, xp.
    split; [exact Hn|]. split; [exact Hr|]. split; [exact Htf|]. split; [exact HA1|].
    split; [exact HA2|]. split; [exact Hxp|]. split; [exact Hy|].
    split; [apply (scaling_component_ok n); assumption|].
    split; [symmetry; exact Hv|rewrite <- Hv; exact Hsh].
  Qed.
End Generic.

(* ======================================================================================== *)
(* Part B — binary64                                                                          *)
Local Open Scope R_scope.
Local Notation pfloat := PrimFloat.float.
Local Notation B64 := (binary_float FloatOps.prec FloatOps.emax).
Local Notation Bquo := (@Bdiv FloatOps.prec FloatOps.emax Hprec Hmax mode_NE).
Local Notation fexp64 := (SpecFloat.fexp FloatOps.prec FloatOps.emax).

Lemma fltb_fin (a b : pfloat) : ffin a -> ffin b -> PrimFloat.ltb a b = Rlt_bool (FR a) (FR b).
Proof. intros Fa Fb. rewrite ltb_equiv. apply Bltb_correct; assumption. Qed.

(* on finite entries the folds compute the real maximum / minimum *)
Lemma fmax_ge (l : list pfloat) : forall x, (forall z, In z (x :: l) -> ffin z) ->
  forall z, In z (x :: l) -> FR z <= FR (@reduce_max pfloat FNum x l).
Proof.
  induction l as [|a l IH]; intros x HF z Hz.
  - destruct Hz as [<-|[]]. cbn. lra.
  - rewrite reduce_max_cons.
    assert (Fx : ffin x) by (apply HF; left; reflexivity).
    assert (Fa : ffin a) by (apply HF; right; left; reflexivity).
    unfold ngtb. cbn [nltb FNum]. rewrite (fltb_fin a x Fa Fx).
    destruct (Rlt_bool_spec (FR a) (FR x)) as [Hlt|Hge].
    + assert (HF' : forall w, In w (x :: l) -> ffin w).
      { intros w [<-|Hw]; [exact Fx|apply HF; right; right; exact Hw]. }
      pose proof (IH x HF' x (or_introl eq_refl)) as Hx.
      destruct Hz as [<-|[<-|Hz]]; [exact Hx|lra|apply (IH x HF'); right; exact Hz].
    + assert (HF' : forall w, In w (a :: l) -> ffin w).
      { intros w [<-|Hw]; [exact Fa|apply HF; right; right; exact Hw]. }
      pose proof (IH a HF' a (or_introl eq_refl)) as Ha.
      destruct Hz as [<-|[<-|Hz]]; [lra|exact Ha|apply (IH a HF'); right; exact Hz].
Qed.

Lemma fmin_le (l : list pfloat) : forall x, (forall z, In z (x :: l) -> ffin z) ->
  forall z, In z (x :: l) -> FR (@reduce_min pfloat FNum x l) <= FR z.
Proof.
  induction l as [|a l IH]; intros x HF z Hz.
  - destruct Hz as [<-|[]]. cbn. lra.
  - rewrite reduce_min_cons.
    assert (Fx : ffin x) by (apply HF; left; reflexivity).
    assert (Fa : ffin a) by (apply HF; right; left; reflexivity).
    cbn [nltb FNum]. rewrite (fltb_fin x a Fx Fa).
    destruct (Rlt_bool_spec (FR x) (FR a)) as [Hlt|Hge].
    + assert (HF' : forall w, In w (x :: l) -> ffin w).
      { intros w [<-|Hw]; [exact Fx|apply HF; right; right; exact Hw]. }
      pose proof (IH x HF' x (or_introl eq_refl)) as Hx.
      destruct Hz as [<-|[<-|Hz]]; [exact Hx|lra|apply (IH x HF'); right; exact Hz].
    + assert (HF' : forall w, In w (a :: l) -> ffin w).
      { intros w [<-|Hw]; [exact Fa|apply HF; right; right; exact Hw]. }
      pose proof (IH a HF' a (or_introl eq_refl)) as Ha.
      destruct Hz as [<-|[<-|Hz]]; [lra|exact Ha|apply (IH a HF'); right; exact Hz].
Qed.

(* the two cases of scaling_component on finite entries *)
Lemma scale_cases (x : pfloat) (l : list pfloat) : (forall z, In z (x :: l) -> ffin z) ->
  let s := if @ngtb pfloat FNum (reduce_max x l) n0 then reduce_max x l else reduce_min x l in
  (0 < FR s /\ forall z, In z (x :: l) -> FR z <= FR s) \/
  (FR s <= 0 /\ forall z, In z (x :: l) -> FR s <= FR z).
Proof.
  intro HF. cbv zeta.
  pose proof (reduce_max_in l x) as Hin.
  pose proof (HF _ Hin) as Fm.
  destruct FR_zero as [Z0 ZF].
  unfold ngtb. cbn [nltb n0 FNum]. rewrite (fltb_fin _ _ ZF Fm), Z0.
  destruct (Rlt_bool_spec 0 (FR (@reduce_max pfloat FNum x l))) as [Hpos|Hneg].
  - left. split; [exact Hpos|apply fmax_ge; exact HF].
  - right. split; [pose proof (fmin_le l x HF _ Hin); lra|apply fmin_le; exact HF].
Qed.

(* s / s finite: s is finite and non-zero *)
Lemma fdiv_self_fin (s : pfloat) : ffin (PrimFloat.div s s) -> ffin s /\ FR s <> 0.
Proof.
  unfold ffin, FR. rewrite div_equiv. intro H.
  destruct (Prim2B s) as [sg|sg| |sg m e Hb]; try discriminate H.
  split; [reflexivity|apply B2R_finite_neq_0].
Qed.

(* a / s finite with s finite: a is finite *)
Lemma fdiv_fin_num (a s : pfloat) : ffin (PrimFloat.div a s) -> ffin s -> ffin a.
Proof.
  unfold ffin. rewrite div_equiv. intros H Fs.
  destruct (Prim2B a) as [sa|sa| |sa ma ea Ha]; try reflexivity;
    destruct (Prim2B s) as [ss|ss| |ss ms es Hs]; try discriminate Fs; try discriminate H.
Qed.

Lemma finite_strict (z : B64) : is_finite z = true -> B2R z <> 0 -> is_finite_strict z = true.
Proof.
  destruct z; cbn [is_finite is_finite_strict B2R]; intros H1 H2; try discriminate H1; try reflexivity.
  exfalso; apply H2; reflexivity.
Qed.

Lemma format_one : generic_format radix2 fexp64 1.
Proof. rewrite <- (Bone_correct FloatOps.prec FloatOps.emax Hprec Hmax). apply generic_format_B2R. Qed.

Lemma one_lt_emax : 1 < bpow radix2 FloatOps.emax.
Proof. change 1 with (bpow radix2 0). apply bpow_lt. reflexivity. Qed.

(* fl(s / s) is exactly 1.0 *)
Lemma fdiv_self_one (s : pfloat) : ffin s -> FR s <> 0 -> PrimFloat.div s s = PrimFloat.one.
Proof.
  intros Fs Hs. apply Prim2B_inj. rewrite div_equiv.
  unfold ffin, FR in Fs, Hs. set (y := Prim2B s) in *. clearbody y.
  generalize (Bdiv_correct FloatOps.prec FloatOps.emax Hprec Hmax mode_NE y y Hs).
  cbn [round_mode].
  replace (B2R y / B2R y) with 1 by (field; exact Hs).
  rewrite (@round_generic radix2 fexp64 ZnearestE (valid_rnd_N _) 1 format_one).
  rewrite Rabs_R1, (Rlt_bool_true _ _ one_lt_emax).
  intros [E1 [E2 _]].
  destruct FR_one as [O1 OF]. unfold FR, ffin in O1, OF.
  apply B2R_inj.
  - apply finite_strict; [rewrite E2; exact Fs|rewrite E1; lra].
  - apply finite_strict; [exact OF|rewrite O1; lra].
  - rewrite E1, O1. reflexivity.
Qed.

(* x / y <= 1 in R: the rounded quotient is <= 1 (in the overflow case it is an infinity, B2R = 0) *)
Lemma Bdiv_le_one (x y : B64) : B2R y <> 0 -> B2R x / B2R y <= 1 -> B2R (Bquo x y) <= 1.
Proof.
  intros Hy Hq.
  pose proof (@round_le_generic radix2 fexp64 (fexp_correct _ _ Hprec) ZnearestE (valid_rnd_N _)
                (B2R x / B2R y) 1 format_one Hq) as Hr.
  generalize (Bdiv_correct FloatOps.prec FloatOps.emax Hprec Hmax mode_NE x y Hy).
  cbn [round_mode].
  destruct (Rlt_bool _ _).
  - intros [E1 _]. rewrite E1. exact Hr.
  - intro E. destruct (Bquo x y) as [sg|sg| |sg m e Hb]; cbn [B2R]; try lra.
    unfold binary_overflow in E. cbn [overflow_to_inf B2SF] in E. discriminate E.
Qed.

Lemma div_le_one (a s : R) :
  (0 < s /\ a <= s) \/ (s < 0 /\ s <= a) -> a / s <= 1.
Proof.
  intros [[Hs Ha]|[Hs Ha]]; unfold Rdiv.
  - replace 1 with (s * / s) by (field; lra).
    apply Rmult_le_compat_r; [left; apply Rinv_0_lt_compat; exact Hs|exact Ha].
  - replace 1 with (/ s * s) by (field; lra). rewrite (Rmult_comm a).
    apply Rmult_le_compat_neg_l; [left; apply Rinv_lt_0_compat; exact Hs|exact Ha].
Qed.

(* the normalisation of one vector *)
Lemma scale_float_normalised n (y : arr pfloat) : (1 <= n)%nat -> shaped n 1 y ->
  let v := adivs y (@scale_of pfloat FNum y) in
  (forall i, (i < n)%nat -> ffin (aget v i 0)) ->
  (exists i, (i < n)%nat /\ aget v i 0 = PrimFloat.one) /\
  (forall i, (i < n)%nat -> FR (aget v i 0) <= 1).
Proof.
  intros Hn Hy v HF.
  pose proof Hy as [Hy1 [Hy2 _]].
  set (s := @scale_of pfloat FNum y) in *.
  assert (Hv : forall i, (i < n)%nat -> aget v i 0 = PrimFloat.div (aget y i 0) s).
  { intros i Hi. unfold v, adivs. rewrite Hy1, Hy2. rewrite aget_tabulate by lia. reflexivity. }
  destruct (scale_of_entry n y Hn Hy) as [k [Hk Es]]. fold s in Es.
  assert (Hs : ffin s /\ FR s <> 0).
  { apply fdiv_self_fin. pose proof (HF k Hk) as F. rewrite (Hv k Hk), <- Es in F. exact F. }
  destruct Hs as [Fs Hs0].
  assert (Fy : forall i, (i < n)%nat -> ffin (aget y i 0)).
  { intros i Hi. apply (fdiv_fin_num _ s); [rewrite <- (Hv i Hi); apply HF; exact Hi|exact Fs]. }
  split.
  - exists k. split; [exact Hk|]. rewrite (Hv k Hk), <- Es. apply fdiv_self_one; assumption.
  - destruct (amax_ok n y Hn Hy) as [x [l [E _]]].
    assert (HFl : forall z, In z (x :: l) -> ffin z).
    { intros z Hz. rewrite <- E in Hz. destruct (in_aget_col n y z Hy Hz) as [i [Hi ->]]. apply Fy; exact Hi. }
    pose proof (scale_cases x l HFl) as Hc. cbv zeta in Hc.
    assert (Es' : s = if @ngtb pfloat FNum (reduce_max x l) n0 then reduce_max x l else reduce_min x l).
    { unfold s, scale_of. rewrite E. reflexivity. }
    rewrite <- Es' in Hc.
    intros i Hi. rewrite (Hv i Hi). unfold FR. rewrite div_equiv.
    assert (Hin : In (aget y i 0) (x :: l)).
    { rewrite <- E. apply (aget_in n 1%nat); [exact Hy|exact Hi|lia]. }
    apply Bdiv_le_one; [exact Hs0|]. apply div_le_one.
    destruct Hc as [[Hp Hle]|[Hp Hle]].
    + left. split; [exact Hp|apply Hle; exact Hin].
    + right. unfold FR in *. split; [lra|apply Hle; exact Hin].
Qed.

(* ======================================================================================== *)
(* Part C — the answer of power_method                                                        *)
Theorem power_method_float_normalised :
  forall (rows : list (list PrimFloat.float)) (es lam : PrimFloat.float) (v : arr PrimFloat.float),
  @power_method PrimFloat.float FNum rows es = Ok (lam, v) ->
  exists n : nat, (1 <= n)%nat /\ rect n n rows /\ shaped n 1 v /\
    ((forall i, (i < n)%nat -> is_finite (Prim2B (aget v i 0)) = true) ->
     (exists i, (i < n)%nat /\ aget v i 0 = PrimFloat.one) /\
     (forall i, (i < n)%nat -> B2R (Prim2B (aget v i 0)) <= 1)).
Proof.
  intros rows es lam v H.
  destruct (power_method_last_step rows es lam v H)
    as [n [A [x [Hn [Hr [_ [_ [_ [_ [Hy [_ [Hv Hsh]]]]]]]]]]]].
  exists n. split; [exact Hn|]. split; [exact Hr|]. split; [exact Hsh|].
  rewrite Hv. exact (scale_float_normalised n (amul A x) Hn Hy).
Qed.
