From Coq Require Import ZArith List Reals Lra Lia Bool.
From SV Require Import Base.Num Base.Outcome Model.Poly Model.Solvers.
Import ListNotations.
Local Open Scope R_scope.

Lemma c06_init_rejected : forall (f : R -> res R) lo init hi tol cap,
  init < lo \/ hi < init ->
  bisection f {| b_lower := lo; b_init := init; b_upper := hi |} tol cap = Err EXInitOutOfBounds.
Proof.
  intros f lo init hi tol cap H. unfold bisection, init_out. cbn [b_lower b_init b_upper nltb RNum].
  destruct H as [H|H].
  - apply Rltb_true in H. rewrite H. reflexivity.
  - apply Rltb_true in H. rewrite H, orb_true_r. reflexivity.
Qed.
