(* Proofs/Bisect.v — lemmas about Model/Solvers.v (bisection) and the calculus of
   the dense polynomial type used by C06 and C07. *)
From Coq Require Import ZArith List Reals Lra Lia Bool Arith Psatz.
From Coquelicot Require Import Coquelicot.
From SV Require Import Base.Num Base.Outcome Model.Poly Model.Solvers Gen.Consts.
Import ListNotations.
Local Open Scope R_scope.

(* ------------------------------------------------------------------------- *)
(* generic facts (every Num instance)                                         *)
(* ------------------------------------------------------------------------- *)
Section Generic.
  Context {T : Type} {NT : Num T}.
  Variables (f : T -> res T) (tol : T) (cap : nat).

  Definition bis_mid (s : bstate T) : T := ndiv (nadd (bs_lower s) (bs_upper s)) ntwo.

  (* what one loop body does, read off the definition *)
  Lemma bis_body_ok s s' b : bis_body f tol cap s = Ok (s', b) ->
    exists vl vm, f (bs_lower s) = Ok vl /\ f (bis_mid s) = Ok vm /\
      bs_iter s' = bs_iter s /\
      b = (bs_exact s' || (Nat.ltb 0 (bs_iter s) && err_small (bs_err s') tol) || Nat.leb cap (bs_iter s)) /\
      ( (nltb (nmul vl vm) n0 = true /\ bs_lower s' = bs_lower s /\ bs_upper s' = bis_mid s /\
         bs_x s' = bis_mid s /\ bs_exact s' = false)
     \/ (nltb (nmul vl vm) n0 = false /\ nltb n0 (nmul vl vm) = true /\ bs_lower s' = bis_mid s /\
         bs_upper s' = bs_upper s /\ bs_x s' = bis_mid s /\ bs_exact s' = false)
     \/ (nltb (nmul vl vm) n0 = false /\ nltb n0 (nmul vl vm) = false /\ bs_lower s' = bs_lower s /\
         bs_upper s' = bs_upper s /\ bs_x s' = (if neqb vl n0 then bs_lower s else bis_mid s) /\
         bs_exact s' = true) ).
  Proof.
    unfold bis_body. fold (bis_mid s).
    destruct (f (bs_lower s)) as [vl|e|w]; cbn [bind]; try discriminate.
    destruct (f (bis_mid s)) as [vm|e|w]; cbn [bind]; try discriminate.
    intro H. exists vl, vm. split; [reflexivity|]. split; [reflexivity|].
    destruct (nltb (nmul vl vm) n0) eqn:E1; [|destruct (nltb n0 (nmul vl vm)) eqn:E2];
      injection H as <- <-; cbn [bs_iter bs_lower bs_upper bs_x bs_err bs_exact];
      (split; [reflexivity|]); (split; [reflexivity|]).
    - left. repeat split; reflexivity.
    - right; left. repeat split; reflexivity.
    - right; right. repeat split; reflexivity.
  Qed.

  Lemma bis_body_no_panic s : (forall x, no_panic (f x)) -> no_panic (bis_body f tol cap s).
  Proof.
    intros Hf w. unfold bis_body.
    destruct (f (bs_lower s)) as [vl|e|w'] eqn:E1; cbn [bind]; try discriminate.
    - destruct (f (ndiv (nadd (bs_lower s) (bs_upper s)) ntwo)) as [vm|e|w'] eqn:E2; cbn [bind]; try discriminate.
      intros _. exact (Hf _ w' E2).
    - intros _. exact (Hf _ w' E1).
  Qed.

  (* loop rule: the result is produced by a last body that broke out, started in a state
     satisfying every invariant of (body; iter += 1) *)
  Lemma bis_loop_last (I : bstate T -> Prop) :
    (forall s s', I s -> bis_body f tol cap s = Ok (s', false) -> I (bs_next s')) ->
    forall fuel s r, I s -> bis_loop f tol cap fuel s = Ok r ->
    exists s0, I s0 /\ bis_body f tol cap s0 = Ok (r, true).
  Proof.
    intros Hstep. induction fuel as [|k IH]; intros s r Hs; cbn [bis_loop];
      destruct (bis_body f tol cap s) as [[s' brk]|e|w] eqn:Eb; try discriminate; destruct brk.
    - intro H. injection H as <-. exists s. split; assumption.
    - discriminate.
    - intro H. injection H as <-. exists s. split; assumption.
    - intro H. apply (IH (bs_next s') r); [|exact H]. apply (Hstep s s'); assumption.
  Qed.

  (* never an endless loop: with iter + fuel >= cap the fuel is never exhausted, and
     nothing else panics if the target does not *)
  Lemma bis_loop_no_panic : (forall x, no_panic (f x)) ->
    forall fuel s, (cap <= bs_iter s + fuel)%nat -> no_panic (bis_loop f tol cap fuel s).
  Proof.
    intros Hf. induction fuel as [|k IH]; intros s Hc w; cbn [bis_loop];
      destruct (bis_body f tol cap s) as [[s' brk]|e|w'] eqn:Eb; try discriminate.
    - destruct brk; [discriminate|]. exfalso.
      apply bis_body_ok in Eb. destruct Eb as (vl & vm & _ & _ & _ & Hb & _).
      symmetry in Hb. apply orb_false_elim in Hb. destruct Hb as [_ Hb].
      apply Nat.leb_gt in Hb. lia.
    - intros _. exact (bis_body_no_panic s Hf w' Eb).
    - destruct brk; [discriminate|].
      apply bis_body_ok in Eb. destruct Eb as (vl & vm & _ & _ & Hi & Hb & _).
      symmetry in Hb. apply orb_false_elim in Hb. destruct Hb as [_ Hb].
      apply Nat.leb_gt in Hb.
      apply IH. cbn [bs_next bs_iter]. lia.
    - intros _. exact (bis_body_no_panic s Hf w' Eb).
  Qed.

  (* the loop counter never exceeds the cap *)
  Lemma bis_loop_iter_le fuel s r :
    (bs_iter s <= cap)%nat -> bis_loop f tol cap fuel s = Ok r -> (bs_iter s <= bs_iter r <= cap)%nat.
  Proof.
    revert s. induction fuel as [|k IH]; intros s Hs; cbn [bis_loop];
      destruct (bis_body f tol cap s) as [[s' brk]|e|w'] eqn:Eb; try discriminate;
      apply bis_body_ok in Eb; destruct Eb as (vl & vm & _ & _ & Hi & Hb & _); destruct brk; try discriminate.
    - intro H. injection H as <-. lia.
    - intro H. injection H as <-. lia.
    - symmetry in Hb. apply orb_false_elim in Hb. destruct Hb as [_ Hb]. apply Nat.leb_gt in Hb.
      intro H. apply IH in H; cbn [bs_next bs_iter] in *; lia.
  Qed.
End Generic.

(* ------------------------------------------------------------------------- *)
(* the R instance                                                             *)
(* ------------------------------------------------------------------------- *)
Lemma gate_R : @gate R RNum = 1 / 10000.
Proof. unfold gate, Gen.Consts.bisection_residual_gate. cbn [fst snd nofdec RNum]. change (powerRZ 10 (-4)) with (/ (10 * (10 * (10 * (10 * 1))))). lra. Qed.

Lemma c100_R : @c100 R RNum = 100.
Proof. reflexivity. Qed.

Lemma bis_mid_R (s : bstate R) : bis_mid s = (bs_lower s + bs_upper s) / 2.
Proof. reflexivity. Qed.

Lemma nofnat_R (n : nat) : @nofnat R RNum n = INR n.
Proof. unfold nofnat. cbn [nofZ RNum]. symmetry. apply INR_IZR_INZ. Qed.

(* one body over R *)
Lemma bis_body_R (f : R -> res R) tol cap s s' b : bis_body f tol cap s = Ok (s', b) ->
  exists vl vm, f (bs_lower s) = Ok vl /\ f (bis_mid s) = Ok vm /\ bs_iter s' = bs_iter s /\
    ( (vl * vm < 0 /\ bs_lower s' = bs_lower s /\ bs_upper s' = bis_mid s /\ bs_x s' = bis_mid s /\ bs_exact s' = false)
   \/ (0 < vl * vm /\ bs_lower s' = bis_mid s /\ bs_upper s' = bs_upper s /\ bs_x s' = bis_mid s /\ bs_exact s' = false)
   \/ (vl * vm = 0 /\ bs_lower s' = bs_lower s /\ bs_upper s' = bs_upper s /\ bs_exact s' = true /\
       ((vl = 0 /\ bs_x s' = bs_lower s) \/ (vl <> 0 /\ vm = 0 /\ bs_x s' = bis_mid s))) ).
Proof.
  intro H. apply bis_body_ok in H. destruct H as (vl & vm & H1 & H2 & Hi & _ & Hc).
  exists vl, vm. repeat (split; [assumption|]).
  cbn [nltb nmul neqb n0 RNum] in Hc.
  destruct Hc as [(A & B & C & D & E)|[(A & A' & B & C & D & E)|(A & A' & B & C & D & E)]].
  - left. apply Rltb_true in A. tauto.
  - right; left. apply Rltb_true in A'. tauto.
  - right; right. apply Rltb_false in A. apply Rltb_false in A'.
    assert (Hz : vl * vm = 0) by lra.
    repeat (split; [assumption|]).
    destruct (Reqb vl 0) eqn:Ev.
    + apply Reqb_true in Ev. left. tauto.
    + apply Reqb_false in Ev. right. split; [assumption|]. split; [|assumption].
      destruct (Rmult_integral _ _ Hz); [contradiction|assumption].
Qed.

(* the bracket stays inside the caller's bracket, the candidate inside the bracket *)
Definition Ibr (lo hi : R) (s : bstate R) : Prop := lo <= bs_lower s /\ bs_lower s <= bs_upper s /\ bs_upper s <= hi.

Lemma Ibr_step (f : R -> res R) tol cap lo hi s s' b :
  Ibr lo hi s -> bis_body f tol cap s = Ok (s', b) ->
  Ibr lo hi s' /\ bs_lower s' <= bs_x s' <= bs_upper s' /\ bs_lower s <= bs_x s' <= bs_upper s.
Proof.
  intros (A & B & C) H. apply bis_body_R in H. destruct H as (vl & vm & _ & _ & _ & Hc).
  pose proof (bis_mid_R s) as Hm. unfold Ibr.
  destruct Hc as [(_ & L & U & X & _)|[(_ & L & U & X & _)|(_ & L & U & _ & [(_ & X)|(_ & _ & X)])]];
    rewrite L, U, X; try rewrite Hm; lra.
Qed.

Lemma Ibr_next lo hi s : Ibr lo hi s -> Ibr lo hi (bs_next s).
Proof. exact (fun H => H). Qed.

Lemma bis_start_Ibr lo init hi : lo <= hi ->
  Ibr lo hi (bis_start {| b_lower := lo; b_init := init; b_upper := hi |}).
Proof. intro H. unfold Ibr, bis_start. cbn. lra. Qed.

(* the NaN test `x_curr.is_nan()` of the range check (repair 5439521) is vacuous over the reals *)
Lemma nneb_refl_R (x : R) : nneb x x = false.
Proof.
  unfold nneb. cbn [neqb RNum]. replace (Reqb x x) with true; [reflexivity|].
  symmetry. apply Reqb_true. reflexivity.
Qed.

Lemma init_out_R (lo init hi : R) :
  init_out {| b_lower := lo; b_init := init; b_upper := hi |} = Rltb init lo || Rltb hi init.
Proof.
  unfold init_out. cbn [b_lower b_init b_upper nltb RNum]. rewrite nneb_refl_R. reflexivity.
Qed.

Lemma init_in (lo init hi : R) :
  init_out {| b_lower := lo; b_init := init; b_upper := hi |} = false -> lo <= init <= hi.
Proof.
  rewrite init_out_R. intro H.
  apply orb_false_elim in H. destruct H as [H1 H2].
  apply Rltb_false in H1. apply Rltb_false in H2. lra.
Qed.

(* what an Ok of the loop + gate means *)
Lemma bisect_run_sound (f : R -> res R) lo init hi tol cap x : lo <= hi ->
  bisect_run f {| b_lower := lo; b_init := init; b_upper := hi |} tol cap = Ok x ->
  lo <= x <= hi /\ exists v, f x = Ok v /\ Rabs v < 1 / 10000.
Proof.
  intros Hle. unfold bisect_run.
  destruct (bis_loop f tol cap cap _) as [r|e|w] eqn:El; cbn [bind]; try discriminate.
  destruct (Nat.leb cap (bs_iter r)); [discriminate|].
  destruct (f (bs_x r)) as [v|e|w] eqn:Ev; cbn [bind]; try discriminate.
  destruct (nltb (nabs v) gate) eqn:Eg; [|discriminate].
  intro H. injection H as <-.
  destruct (bis_loop_last f tol cap (Ibr lo hi)) with (fuel := cap) (s := bis_start {| b_lower := lo; b_init := init; b_upper := hi |}) (r := r)
    as (s0 & Hs0 & Hb).
  - intros s s' Hs Hb. apply Ibr_next. exact (proj1 (Ibr_step f tol cap lo hi s s' false Hs Hb)).
  - apply bis_start_Ibr; exact Hle.
  - exact El.
  - destruct (Ibr_step f tol cap lo hi s0 r true Hs0 Hb) as ((A & B & C) & (D & E) & _).
    split; [lra|]. exists v. split; [exact Ev|].
    cbn [nltb nabs RNum] in Eg. apply Rltb_true in Eg. rewrite gate_R in Eg. exact Eg.
Qed.

Lemma c06_sound : forall (f : R -> res R) lo init hi tol cap x,
  bisection f {| b_lower := lo; b_init := init; b_upper := hi |} tol cap = Ok x ->
  lo <= x <= hi /\ exists v, f x = Ok v /\ Rabs v < 1 / 10000.
Proof.
  intros f lo init hi tol cap x. unfold bisection.
  destruct (init_out _) eqn:Ei; [discriminate|].
  apply init_in in Ei. apply bisect_run_sound. lra.
Qed.

Lemma c06_init_rejected : forall (f : R -> res R) lo init hi tol cap,
  init < lo \/ hi < init ->
  bisection f {| b_lower := lo; b_init := init; b_upper := hi |} tol cap = Err EXInitOutOfBounds.
Proof.
  intros f lo init hi tol cap H. unfold bisection. rewrite init_out_R.
  destruct H as [H|H].
  - apply Rltb_true in H. rewrite H. reflexivity.
  - apply Rltb_true in H. rewrite H, orb_true_r. reflexivity.
Qed.

Lemma c06_reversed_rejected : forall (f : R -> res R) lo init hi tol cap,
  hi < lo -> bisection f {| b_lower := lo; b_init := init; b_upper := hi |} tol cap = Err EXInitOutOfBounds.
Proof.
  intros f lo init hi tol cap H. apply c06_init_rejected.
  destruct (Rlt_le_dec init lo); [left; assumption|right; lra].
Qed.

(* ------------------------------------------------------------------------- *)
(* totality (every instance, floats included)                                 *)
(* ------------------------------------------------------------------------- *)
Lemma bisect_run_no_panic {T} {NT : Num T} (f : T -> res T) b tol cap :
  (forall x, no_panic (f x)) -> no_panic (bisect_run f b tol cap).
Proof.
  intros Hf. unfold bisect_run. apply bind_no_panic.
  - apply bis_loop_no_panic; [exact Hf|]. cbn. lia.
  - intros s _. destruct (Nat.leb cap (bs_iter s)); [discriminate|].
    apply bind_no_panic; [apply Hf|]. intros v _. destruct (nltb (nabs v) gate); discriminate.
Qed.

Lemma c06_total : forall (T : Type) (NT : Num T) (f : T -> res T) (b : bounds T) (tol : T) (cap : nat),
  (forall x, no_panic (f x)) ->
  no_panic (bisection f b tol cap) /\
  no_panic (bis_loop f tol cap cap (bis_start b)) /\
  (forall r, bis_loop f tol cap cap (bis_start b) = Ok r -> (bs_iter r <= cap)%nat).
Proof.
  intros T NT f b tol cap Hf. split; [|split].
  - unfold bisection. destruct (init_out b); [discriminate|]. apply bisect_run_no_panic; exact Hf.
  - apply bis_loop_no_panic; [exact Hf|]. cbn. lia.
  - intros r H. apply bis_loop_iter_le in H; cbn in *; lia.
Qed.

(* the two polynomial types never panic *)
Lemma eval_term_vars_no_panic {T} {NT : Num T} (vs : list (name * T)) : forall acc e, no_panic (eval_term_vars acc vs e).
Proof.
  induction vs as [|[v p] vs IH]; intros acc e; cbn [eval_term_vars]; [discriminate|].
  destruct (lookup v e); [apply IH|discriminate].
Qed.

Lemma eval_inter_from_no_panic {T} {NT : Num T} (ts : list (term T)) : forall acc e, no_panic (eval_inter_from acc ts e).
Proof.
  induction ts as [|t ts IH]; intros acc e; cbn [eval_inter_from]; [discriminate|].
  destruct (eval_term_vars (t_coef t) (t_vars t) e) as [v|x|w] eqn:E; [apply IH|discriminate|].
  exfalso. exact (eval_term_vars_no_panic _ _ _ w E).
Qed.

Lemma i_eval_no_panic {T} {NT : Num T} (p : ipoly T) x : no_panic (i_eval_univariate p x).
Proof.
  unfold i_eval_univariate, eval_inter.
  destruct (i_vars p) as [|v [|v' vs]]; try apply eval_inter_from_no_panic. discriminate.
Qed.

Lemma i_deriv_no_panic {T} {NT : Num T} (p : ipoly T) : no_panic (i_derivate_univariate p).
Proof. unfold i_derivate_univariate. destruct (i_vars p) as [|v [|v' vs]]; discriminate. Qed.

Lemma bisection_poly_no_panic {T} {NT : Num T} {P} (evalu : P -> T -> res T) (deriv : P -> res P) p b tol cap mode :
  (forall q x, no_panic (evalu q x)) -> (forall q, no_panic (deriv q)) ->
  no_panic (bisection_poly evalu deriv p b tol cap mode).
Proof.
  intros He Hd. unfold bisection_poly. destruct (init_out b); [discriminate|].
  apply bind_no_panic.
  - unfold target. destruct mode; [apply Hd|discriminate].
  - intros q _. apply bisect_run_no_panic. apply He.
Qed.

Lemma c06_total_poly : forall (T : Type) (NT : Num T) (b : bounds T) (tol : T) (cap : nat) (mode : bool),
  (forall p : spoly T, no_panic (s_bisection p b tol cap mode)) /\
  (forall p : ipoly T, no_panic (i_bisection p b tol cap mode)).
Proof.
  intros. split; intro p; apply bisection_poly_no_panic.
  - intros q x. discriminate.
  - intros q. discriminate.
  - intros q x. apply i_eval_no_panic.
  - intros q. apply i_deriv_no_panic.
Qed.

(* ------------------------------------------------------------------------- *)
(* the sign change stays inside; the bracket is halved                        *)
(* ------------------------------------------------------------------------- *)
Definition Isc (f : R -> res R) (lo hi : R) (strict : Prop) (s : bstate R) : Prop :=
  Ibr lo hi s /\ exists a b, f (bs_lower s) = Ok a /\ f (bs_upper s) = Ok b /\ a * b <= 0 /\ (strict -> a * b < 0).

Lemma same_sign (a v : R) : 0 < a * v -> (0 < a /\ 0 < v) \/ (a < 0 /\ v < 0).
Proof.
  intro H.
  destruct (Rtotal_order a 0) as [Ha|[Ha|Ha]]; destruct (Rtotal_order v 0) as [Hv|[Hv|Hv]];
    subst; try (rewrite ?Rmult_0_l, ?Rmult_0_r in H; lra); try tauto; exfalso; nra.
Qed.

Lemma Isc_step f tol cap lo hi strict s s' b :
  Isc f lo hi strict s -> bis_body f tol cap s = Ok (s', b) -> Isc f lo hi strict s'.
Proof.
  intros (Hbr & a & c & Ha & Hc & Hac & Hst) H.
  pose proof (proj1 (Ibr_step f tol cap lo hi s s' b Hbr H)) as Hbr'.
  apply bis_body_R in H. destruct H as (vl & vm & Hl & Hm & _ & Hcase).
  rewrite Ha in Hl. injection Hl as <-.
  split; [exact Hbr'|].
  destruct Hcase as [(T & L & U & _)|[(T & L & U & _)|(_ & L & U & _)]]; rewrite L, U.
  - exists a, vm. repeat split; try assumption; lra.
  - exists vm, c. split; [assumption|]. split; [assumption|].
    (* a and vm have the same strict sign *)
    assert (Hs : vm * c <= 0 /\ (a * c < 0 -> vm * c < 0)).
    { destruct (same_sign a vm T) as [[P1 P2]|[P1 P2]]; split; try intro; nra. }
    destruct Hs as [Hs1 Hs2]. split; [exact Hs1|]. intro St. apply Hs2. apply Hst. exact St.
  - exists a, c. repeat split; assumption.
Qed.

Lemma c06_bracket_keeps_sign_change : forall (f : R -> res R) lo init hi tol cap r vlo vhi,
  lo <= hi -> f lo = Ok vlo -> f hi = Ok vhi -> vlo * vhi <= 0 ->
  bis_loop f tol cap cap (bis_start {| b_lower := lo; b_init := init; b_upper := hi |}) = Ok r ->
  lo <= bs_lower r /\ bs_lower r <= bs_upper r /\ bs_upper r <= hi /\
  bs_lower r <= bs_x r <= bs_upper r /\
  exists a b, f (bs_lower r) = Ok a /\ f (bs_upper r) = Ok b /\ a * b <= 0 /\ (vlo * vhi < 0 -> a * b < 0).
Proof.
  intros f lo init hi tol cap r vlo vhi Hle Hlo Hhi Hs Hl.
  destruct (bis_loop_last f tol cap (Isc f lo hi (vlo * vhi < 0))) with (fuel := cap)
    (s := bis_start {| b_lower := lo; b_init := init; b_upper := hi |}) (r := r) as (s0 & Hs0 & Hb).
  - intros s s' Hi Hb. exact (Isc_step f tol cap lo hi _ s s' false Hi Hb).
  - split; [apply bis_start_Ibr; exact Hle|]. exists vlo, vhi. cbn. repeat split; try assumption. tauto.
  - exact Hl.
  - pose proof (Isc_step f tol cap lo hi _ s0 r true Hs0 Hb) as ((A & B & C) & a & b & Ha & Hb' & Hab & Hst).
    destruct (Ibr_step f tol cap lo hi s0 r true (proj1 Hs0) Hb) as (_ & D & _).
    repeat (split; [assumption|]). exists a, b. repeat split; assumption.
Qed.

(* width: halved by every body that does not hit a zero product *)
Definition Iw (lo hi : R) (s : bstate R) : Prop := bs_upper s - bs_lower s = (hi - lo) / 2 ^ bs_iter s.

Lemma pow2_pos n : 0 < 2 ^ n.
Proof. apply pow_lt. lra. Qed.

Lemma Iw_step (f : R -> res R) tol cap lo hi s s' b :
  Iw lo hi s -> bis_body f tol cap s = Ok (s', b) ->
  bs_upper s' - bs_lower s' = (hi - lo) / 2 ^ (if bs_exact s' then bs_iter s' else S (bs_iter s')).
Proof.
  unfold Iw. intros Hw H. apply bis_body_R in H. destruct H as (vl & vm & _ & _ & Hi & Hcase).
  pose proof (bis_mid_R s) as Hm. pose proof (pow2_pos (bs_iter s)) as Hp.
  destruct Hcase as [(_ & L & U & _ & E)|[(_ & L & U & _ & E)|(_ & L & U & E & _)]]; rewrite L, U, E, Hi.
  - rewrite Hm. cbn [pow]. replace ((bs_lower s + bs_upper s) / 2 - bs_lower s) with ((bs_upper s - bs_lower s) / 2) by lra.
    rewrite Hw. field. lra.
  - rewrite Hm. cbn [pow]. replace (bs_upper s - (bs_lower s + bs_upper s) / 2) with ((bs_upper s - bs_lower s) / 2) by lra.
    rewrite Hw. field. lra.
  - exact Hw.
Qed.

(* the relative change computed by a body that did not hit a zero product (as of 8dfb6bc: None = INFINITY at 0) *)
Lemma bis_body_err_R (f : R -> res R) tol cap s s' b : bis_body f tol cap s = Ok (s', b) -> bs_exact s' = false ->
  bs_x s' = bis_mid s /\
  bs_err s' = if Reqb (bis_mid s) 0 then None else Some (Rabs (bis_mid s - bs_x s) / bis_mid s * 100).
Proof.
  unfold bis_body. fold (bis_mid s).
  destruct (f (bs_lower s)) as [vl|e|w]; cbn [bind]; try discriminate.
  destruct (f (bis_mid s)) as [vm|e|w]; cbn [bind]; try discriminate.
  unfold nneb. cbn [neqb nmul ndiv nabs nsub n0 RNum]. rewrite c100_R.
  destruct (nltb (vl * vm) 0); [|destruct (nltb 0 (vl * vm))]; intro H; injection H as <- <-;
    cbn [bs_exact bs_x bs_err]; intro E; try discriminate;
    (split; [reflexivity|]); unfold bis_mid; cbn [nadd ndiv RNum]; change (@ntwo R RNum) with 2;
    destruct (Reqb ((bs_lower s + bs_upper s) / 2) 0); reflexivity.
Qed.

Lemma bis_body_continue_not_exact {T} {NT : Num T} (f : T -> res T) tol cap s s' :
  bis_body f tol cap s = Ok (s', false) -> bs_exact s' = false.
Proof.
  intro H. apply bis_body_ok in H. destruct H as (vl & vm & _ & _ & _ & Hb & _).
  symmetry in Hb. apply orb_false_elim in Hb. destruct Hb as [Hb _].
  apply orb_false_elim in Hb. tauto.
Qed.

(* from the second body on, the previous candidate is an end of the current bracket *)
Definition Iend (s : bstate R) : Prop := (0 < bs_iter s)%nat -> bs_x s = bs_lower s \/ bs_x s = bs_upper s.

Lemma Iend_step (f : R -> res R) tol cap s s' :
  bis_body f tol cap s = Ok (s', false) -> Iend (bs_next s').
Proof.
  intros H _. cbn [bs_next bs_x bs_lower bs_upper].
  pose proof (bis_body_continue_not_exact f tol cap s s' H) as Hne.
  apply bis_body_R in H. destruct H as (vl & vm & _ & _ & _ & Hc).
  destruct Hc as [(_ & _ & U & X & _)|[(_ & L & _ & X & _)|(_ & _ & _ & E & _)]].
  - right. congruence.
  - left. congruence.
  - congruence.
Qed.

(* PARTIAL (converse half of C06).  Proved: whenever the loop terminates with a state r
   (by whichever exit), the final bracket has width (hi-lo)/2^k with k = the number of
   halvings, still holds a sign change of g and hence (g continuous) a root z, and the
   candidate is within (hi-lo)/2^iter of z; on the `exact` exit the candidate is a root;
   and (after repair 8dfb6bc, which removed the stale relative change at a midpoint 0) on
   the tolerance exit the candidate is non-zero and the root z is within tol percent of it.
   Missing: that under "moderate scale and ample budget" the loop leaves before the cap -
   this depends on the float stopping rule (relative change in percent, underflow for a
   root at 0) and is decided by the oracle of the correspondence check.  Whether the 1e-4
   gate then passes is settled by c06_exit_before_cap_is_ok below. *)
Lemma c06_finds_root_partial : forall (g : R -> R) lo init hi tol cap r,
  continuity g -> lo <= hi -> g lo * g hi <= 0 ->
  bis_loop (fun x => Ok (g x)) tol cap cap (bis_start {| b_lower := lo; b_init := init; b_upper := hi |}) = Ok r ->
  bs_upper r - bs_lower r = (hi - lo) / 2 ^ (if bs_exact r then bs_iter r else S (bs_iter r)) /\
  (bs_exact r = true -> g (bs_x r) = 0) /\
  lo <= bs_x r <= hi /\
  exists z, g z = 0 /\ lo <= z <= hi /\ bs_lower r <= z <= bs_upper r /\
            Rabs (bs_x r - z) <= (hi - lo) / 2 ^ bs_iter r /\
            (bs_exact r = false -> (bs_iter r < cap)%nat ->
               bs_x r <> 0 /\ Rabs (bs_x r - z) * 100 < tol * Rabs (bs_x r)).
Proof.
  intros g lo init hi tol cap r Hc Hle Hs Hl.
  set (f := fun x => Ok (g x)) in *.
  destruct (bis_loop_last f tol cap (fun s => Isc f lo hi False s /\ Iw lo hi s /\ Iend s)) with (fuel := cap)
    (s := bis_start {| b_lower := lo; b_init := init; b_upper := hi |}) (r := r) as (s0 & (Hsc0 & Hw0 & He0) & Hb).
  - intros s s' (Hi & Hw & _) Hb. split; [|split].
    + exact (Isc_step f tol cap lo hi _ s s' false Hi Hb).
    + pose proof (Iw_step f tol cap lo hi s s' false Hw Hb) as H.
      rewrite (bis_body_continue_not_exact f tol cap s s' Hb) in H.
      unfold Iw. cbn [bs_next bs_iter bs_lower bs_upper]. exact H.
    + exact (Iend_step f tol cap s s' Hb).
  - split; [|split].
    + split; [apply bis_start_Ibr; exact Hle|]. exists (g lo), (g hi). cbn. repeat split; try assumption; tauto.
    + unfold Iw, bis_start. cbn. field.
    + intro H. cbn in H. lia.
  - exact Hl.
  - pose proof (Iw_step f tol cap lo hi s0 r true Hw0 Hb) as Hw.
    pose proof (Isc_step f tol cap lo hi _ s0 r true Hsc0 Hb) as ((A & B & C) & a & b & Ha & Hb' & Hab & _).
    destruct (Ibr_step f tol cap lo hi s0 r true (proj1 Hsc0) Hb) as (_ & (D1 & D2) & (D3 & D4)).
    split; [exact Hw|]. split; [|split].
    + intro Hex. pose proof Hb as Hb2. apply bis_body_R in Hb2. destruct Hb2 as (vl & vm & Hvl & Hvm & _ & Hcase).
      unfold f in Hvl, Hvm. injection Hvl as <-. injection Hvm as <-.
      destruct Hcase as [(_ & _ & _ & _ & E)|[(_ & _ & _ & _ & E)|(_ & _ & _ & _ & [(Z & X)|(_ & Z & X)])]];
        try congruence; rewrite X; exact Z.
    + lra.
    + unfold f in Ha, Hb'. injection Ha as <-. injection Hb' as <-.
      destruct (IVT_cor g (bs_lower r) (bs_upper r) Hc B Hab) as (z & (Z1 & Z2) & Z3).
      exists z. split; [exact Z3|]. split; [lra|]. split; [lra|].
      destruct Hsc0 as ((A0 & B0 & C0) & _). unfold Iw in Hw0.
      assert (Hi : bs_iter r = bs_iter s0).
      { pose proof Hb as Hb2. apply bis_body_ok in Hb2. destruct Hb2 as (vl & vm & _ & _ & Hi & _). exact Hi. }
      assert (Hin : bs_lower s0 <= bs_lower r /\ bs_upper r <= bs_upper s0).
      { pose proof (Ibr_step f tol cap (bs_lower s0) (bs_upper s0) s0 r true) as H.
        destruct H as ((H1 & H2 & H3) & _); [unfold Ibr; lra|exact Hb|]. lra. }
      split.
      * rewrite Hi, <- Hw0. apply Rabs_le. lra.
      * intros Hne Hlt.
        destruct (bis_body_err_R f tol cap s0 r true Hb Hne) as (Hx & He).
        pose proof Hb as Hb2. apply bis_body_ok in Hb2. destruct Hb2 as (vl & vm & _ & _ & _ & Hbrk & _).
        rewrite Hne in Hbrk. cbn [orb] in Hbrk.
        replace (Nat.leb cap (bs_iter s0)) with false in Hbrk by (symmetry; apply Nat.leb_gt; lia).
        rewrite orb_false_r in Hbrk. symmetry in Hbrk. apply andb_prop in Hbrk. destruct Hbrk as [Hpos Hsm].
        apply Nat.ltb_lt in Hpos.
        rewrite He in Hsm. pose proof (bis_mid_R s0) as Hm.
        destruct (Reqb (bis_mid s0) 0) eqn:E0; [discriminate|]. apply Reqb_false in E0.
        cbn [err_small nltb nabs RNum] in Hsm. apply Rltb_true in Hsm.
        rewrite Hx. split; [exact E0|].
        assert (Hp : 0 < Rabs (bis_mid s0)) by (apply Rabs_pos_lt; exact E0).
        unfold Rdiv in Hsm. rewrite !Rabs_mult, Rabs_Rabsolu, Rabs_inv in Hsm.
        rewrite (Rabs_pos_eq 100) in Hsm by lra.
        apply (Rmult_lt_compat_r (Rabs (bis_mid s0))) in Hsm; [|exact Hp].
        replace (Rabs (bis_mid s0 - bs_x s0) * / Rabs (bis_mid s0) * 100 * Rabs (bis_mid s0))
          with (Rabs (bis_mid s0 - bs_x s0) * 100) in Hsm by (field; lra).
        (* the previous candidate is an end of the bracket of s0, z lies inside it *)
        assert (Hd : Rabs (bis_mid s0 - z) <= Rabs (bis_mid s0 - bs_x s0)).
        { destruct (He0 Hpos) as [E|E]; rewrite E, Hm.
          - replace ((bs_lower s0 + bs_upper s0) / 2 - bs_lower s0) with ((bs_upper s0 - bs_lower s0) / 2) by lra.
            rewrite (Rabs_pos_eq ((bs_upper s0 - bs_lower s0) / 2)) by lra. apply Rabs_le. lra.
          - replace ((bs_lower s0 + bs_upper s0) / 2 - bs_upper s0) with (- ((bs_upper s0 - bs_lower s0) / 2)) by lra.
            rewrite Rabs_Ropp, (Rabs_pos_eq ((bs_upper s0 - bs_lower s0) / 2)) by lra. apply Rabs_le. lra. }
        lra.
Qed.

(* what is left of the converse is ONLY the exit before the cap: if the loop leaves with iter < cap and
   the target is L-Lipschitz on the bracket with L * tol% * max|x| <= 1e-4 (the complement of the input
   class of finding F-C06-LOOSE-TOL), the residual gate passes and Ok is returned *)
Lemma c06_exit_before_cap_is_ok : forall (g : R -> R) lo init hi tol cap r L X,
  continuity g -> lo <= init <= hi -> g lo * g hi <= 0 ->
  bis_loop (fun x => Ok (g x)) tol cap cap (bis_start {| b_lower := lo; b_init := init; b_upper := hi |}) = Ok r ->
  (bs_iter r < cap)%nat -> 0 <= L ->
  (forall a b, lo <= a <= hi -> lo <= b <= hi -> Rabs (g a - g b) <= L * Rabs (a - b)) ->
  (forall x, lo <= x <= hi -> Rabs x <= X) -> L * (tol / 100 * X) < 1 / 10000 ->
  bisection (fun x => Ok (g x)) {| b_lower := lo; b_init := init; b_upper := hi |} tol cap = Ok (bs_x r).
Proof.
  intros g lo init hi tol cap r L X Hc Hin Hs Hl Hlt HL0 HL HX Hsmall.
  destruct (c06_finds_root_partial g lo init hi tol cap r Hc ltac:(lra) Hs Hl)
    as (_ & Hex & Hxin & z & Hz & Hzin & _ & _ & Htol).
  assert (Hgate : Rabs (g (bs_x r)) < 1 / 10000).
  { destruct (bs_exact r) eqn:E.
    - rewrite (Hex eq_refl), Rabs_R0. lra.
    - destruct (Htol eq_refl Hlt) as (Hnz & Hd).
      pose proof (HL (bs_x r) z Hxin Hzin) as H1. rewrite Hz, Rminus_0_r in H1.
      pose proof (HX (bs_x r) Hxin) as H2.
      assert (H0 : 0 <= Rabs (bs_x r - z)) by apply Rabs_pos.
      assert (Htolx : Rabs (bs_x r - z) <= tol / 100 * X).
      { assert (0 <= tol \/ tol < 0) as [Ht|Ht] by lra.
        - assert (tol * Rabs (bs_x r) <= tol * X) by (apply Rmult_le_compat_l; lra). lra.
        - exfalso. assert (0 <= Rabs (bs_x r)) by apply Rabs_pos. nra. }
      assert (L * Rabs (bs_x r - z) <= L * (tol / 100 * X)) by (apply Rmult_le_compat_l; lra).
      lra. }
  unfold bisection. rewrite init_out_R.
  replace (Rltb init lo) with false by (symmetry; apply Rltb_false; lra).
  replace (Rltb hi init) with false by (symmetry; apply Rltb_false; lra).
  cbn [orb]. unfold bisect_run. rewrite Hl. cbn [bind].
  replace (Nat.leb cap (bs_iter r)) with false by (symmetry; apply Nat.leb_gt; exact Hlt).
  cbn [bind nltb nabs RNum]. rewrite gate_R.
  replace (Rltb (Rabs (g (bs_x r))) (1 / 10000)) with true by (symmetry; apply Rltb_true; exact Hgate).
  reflexivity.
Qed.

(* a root at the lower end is returned at once (the repair e42ded6) *)
Lemma c06_root_at_lower_end : forall (f : R -> res R) lo init hi tol cap vm,
  lo <= init <= hi -> f lo = Ok 0 -> f ((lo + hi) / 2) = Ok vm -> (0 < cap)%nat ->
  bisection f {| b_lower := lo; b_init := init; b_upper := hi |} tol cap = Ok lo.
Proof.
  intros f lo init hi tol cap vm Hin Hlo Hm Hcap.
  unfold bisection. rewrite init_out_R.
  replace (Rltb init lo) with false by (symmetry; apply Rltb_false; lra).
  replace (Rltb hi init) with false by (symmetry; apply Rltb_false; lra).
  cbn [orb]. unfold bisect_run.
  destruct cap as [|k]; [lia|].
  cbn [bis_loop]. unfold bis_body, bis_start.
  cbn [bs_lower bs_upper bs_x bs_iter bs_err b_lower b_init b_upper].
  change (ndiv (nadd lo hi) ntwo) with ((lo + hi) / 2).
  rewrite Hlo, Hm. cbn [bind nmul nltb neqb n0 RNum].
  replace (0 * vm) with 0 by ring.
  replace (Rltb 0 0) with false by (symmetry; apply Rltb_false; lra).
  replace (Reqb 0 0) with true by (symmetry; apply Reqb_true; reflexivity).
  cbn [bs_exact orb bs_iter bs_x bind Nat.leb].
  rewrite Hlo. cbn [bind nltb nabs RNum]. rewrite Rabs_R0, gate_R.
  replace (Rltb 0 (1 / 10000)) with true by (symmetry; apply Rltb_true; lra).
  reflexivity.
Qed.

(* ------------------------------------------------------------------------- *)
(* the dense polynomial type over R: value, derivative, continuity            *)
(* ------------------------------------------------------------------------- *)
Fixpoint psum (x : R) (i : nat) (cs : list R) : R :=
  match cs with
  | [] => 0
  | c :: cs' => c * x ^ i + psum x (S i) cs'
  end.

Lemma fold_terms_R x cs : forall i a,
  fold_left Rplus (eval_terms_from x i cs) a = a + psum x i cs.
Proof.
  induction cs as [|c cs IH]; intros i a; cbn [eval_terms_from fold_left psum].
  - ring.
  - rewrite IH. cbn [nmul RNum]. rewrite npowi_R_nat. ring.
Qed.

Lemma eval_simple_R (p : spoly R) x : eval_simple p x = psum x 0 (s_coefs p).
Proof.
  unfold eval_simple. cbn [nadd nsum0 RNum]. rewrite fold_terms_R. ring.
Qed.

Lemma psum_is_derive cs : forall i x,
  is_derive (fun y => psum y (S i) cs) x (psum x i (deriv_coefs_from (S i) cs)).
Proof.
  induction cs as [|c cs IH]; intros i x; cbn [psum deriv_coefs_from].
  - apply (is_derive_const (V := R_NormedModule) 0 x).
  - apply (is_derive_plus (V := R_NormedModule)); [|apply IH].
    cbn [nmul RNum]. rewrite nofnat_R.
    auto_derive; [exact I|]. cbn [Nat.pred].
    change (match i with 0%nat => 1 | S _ => INR i + 1 end) with (INR (S i)). ring.
Qed.

Lemma eval_simple_is_derive (p : spoly R) x :
  is_derive (eval_simple p) x (eval_simple (simple_derivative p) x).
Proof.
  apply (is_derive_ext (fun y => psum y 0 (s_coefs p))); [intro y; symmetry; apply eval_simple_R|].
  rewrite eval_simple_R. unfold simple_derivative. cbn [s_coefs].
  destruct (s_coefs p) as [|c0 cs]; cbn [psum].
  - apply (is_derive_const (V := R_NormedModule) 0 x).
  - replace (psum x 0 (deriv_coefs_from 1 cs)) with (plus 0 (psum x 0 (deriv_coefs_from 1 cs))) by (unfold plus; cbn; ring).
    apply (is_derive_plus (V := R_NormedModule)); [|apply psum_is_derive].
    auto_derive; [exact I|]. ring.
Qed.

Lemma eval_simple_continuity (p : spoly R) : continuity (eval_simple p).
Proof.
  intro x. apply derivable_continuous_pt.
  exists (eval_simple (simple_derivative p) x). apply is_derive_Reals. apply eval_simple_is_derive.
Qed.

(* ------------------------------------------------------------------------- *)
(* the wrappers for the two polynomial types                                  *)
(* ------------------------------------------------------------------------- *)
Lemma bisection_poly_sound {P} (evalu : P -> R -> res R) (deriv : P -> res P) p lo init hi tol cap mode x :
  bisection_poly evalu deriv p {| b_lower := lo; b_init := init; b_upper := hi |} tol cap mode = Ok x ->
  lo <= x <= hi /\ exists q v, target deriv p mode = Ok q /\ evalu q x = Ok v /\ Rabs v < 1 / 10000.
Proof.
  unfold bisection_poly. destruct (init_out _) eqn:Ei; [discriminate|]. apply init_in in Ei.
  destruct (target deriv p mode) as [q|e|w]; cbn [bind]; try discriminate.
  intro H. apply bisect_run_sound in H; [|lra]. destruct H as (Hx & v & Hv & Hg).
  split; [exact Hx|]. exists q, v. repeat split; assumption.
Qed.

(* SimplePolynomial: g = p in Root mode, p' in Extrema mode *)
Definition s_target (p : spoly R) (extrema : bool) : spoly R := if extrema then simple_derivative p else p.

Lemma c06_sound_simple : forall (p : spoly R) lo init hi tol cap mode x,
  s_bisection p {| b_lower := lo; b_init := init; b_upper := hi |} tol cap mode = Ok x ->
  lo <= x <= hi /\ Rabs (eval_simple (s_target p mode) x) < 1 / 10000.
Proof.
  intros p lo init hi tol cap mode x H. apply bisection_poly_sound in H.
  destruct H as (Hx & q & v & Hq & Hv & Hg). split; [exact Hx|].
  unfold s_eval_univariate in Hv. injection Hv as <-.
  destruct mode; cbn [target s_derivate_univariate s_target] in *; injection Hq as <-; exact Hg.
Qed.

Lemma c06_sound_inter : forall (p : ipoly R) lo init hi tol cap mode x,
  i_bisection p {| b_lower := lo; b_init := init; b_upper := hi |} tol cap mode = Ok x ->
  lo <= x <= hi /\ exists q v, (if mode then i_derivate_univariate p else Ok p) = Ok q /\
                               i_eval_univariate q x = Ok v /\ Rabs v < 1 / 10000.
Proof.
  intros p lo init hi tol cap mode x H. exact (bisection_poly_sound _ _ p lo init hi tol cap mode x H).
Qed.

(* non-vacuity witnesses used by Properties/C06.v *)
Definition px2m4 : spoly R := {| s_coefs := [-4; 0; 1]; s_var := Some 120%N |}.

Lemma px2m4_eval x : eval_simple px2m4 x = x * x - 4.
Proof. rewrite eval_simple_R. cbn. ring. Qed.

Lemma c06_example_lower_end :
  s_bisection px2m4 {| b_lower := 2; b_init := 3; b_upper := 5 |} (1 / 100000) 100 false = Ok 2.
Proof.
  unfold s_bisection, bisection_poly. cbn [target bind].
  replace (init_out _) with false.
  2:{ symmetry. rewrite init_out_R.
      apply orb_false_intro; apply Rltb_false; lra. }
  pose proof (c06_root_at_lower_end (s_eval_univariate px2m4) 2 3 5 (1 / 100000) 100
                (eval_simple px2m4 ((2 + 5) / 2))) as H.
  unfold bisection in H.
  replace (init_out _) with false in H.
  2:{ symmetry. rewrite init_out_R.
      apply orb_false_intro; apply Rltb_false; lra. }
  apply H; [lra| |reflexivity|lia].
  unfold s_eval_univariate. rewrite px2m4_eval. f_equal. ring.
Qed.

(* ------------------------------------------------------------------------- *)
(* regression of finding F-C06-STALE-ZERO (repaired by 8dfb6bc): x - 1/2 on    *)
(* [-3, 1] with init = -1 (the first midpoint).  Iteration 1 has midpoint 0;   *)
(* the relative change is now INFINITY there, the loop goes on and iteration 2 *)
(* hits the root 1/2 exactly.                                                  *)
(* ------------------------------------------------------------------------- *)
Ltac rbool :=
  repeat match goal with
  | |- context [Rltb ?a ?b] =>
      first [ replace (Rltb a b) with true by (symmetry; apply Rltb_true; lra)
            | replace (Rltb a b) with false by (symmetry; apply Rltb_false; lra) ]
  | |- context [Reqb ?a ?b] =>
      first [ replace (Reqb a b) with true by (symmetry; apply Reqb_true; lra)
            | replace (Reqb a b) with false by (symmetry; apply Reqb_false; lra) ]
  end.

Lemma bis_loop_break {T} {NT : Num T} (f : T -> res T) tol cap fuel s s' :
  bis_body f tol cap s = Ok (s', true) -> bis_loop f tol cap fuel s = Ok s'.
Proof. intro H. destruct fuel; cbn [bis_loop]; rewrite H; reflexivity. Qed.

Lemma bis_loop_continue {T} {NT : Num T} (f : T -> res T) tol cap fuel s s' :
  bis_body f tol cap s = Ok (s', false) -> bis_loop f tol cap (S fuel) s = bis_loop f tol cap fuel (bs_next s').
Proof. intro H. cbn [bis_loop]. rewrite H. reflexivity. Qed.

Lemma c06_stale_zero_repaired :
  bisection (fun x => Ok (x - 1 / 2)) {| b_lower := -3; b_init := -1; b_upper := 1 |} (1 / 100000) 1200
    = Ok (1 / 2).
Proof.
  unfold bisection. rewrite init_out_R. rbool. cbn [orb].
  unfold bisect_run.
  set (f := fun x : R => Ok (x - 1 / 2)).
  set (s1 := {| bs_iter := 0; bs_lower := -1; bs_upper := 1; bs_x := -1; bs_err := Some 0; bs_exact := false |}).
  set (s2 := {| bs_iter := 1; bs_lower := 0; bs_upper := 1; bs_x := 0; bs_err := None; bs_exact := false |}).
  set (s3 := {| bs_iter := 2; bs_lower := 0; bs_upper := 1; bs_x := 1 / 2; bs_err := Some 0; bs_exact := true |}).
  assert (H1 : bis_body f (1 / 100000) 1200 (bis_start {| b_lower := -3; b_init := -1; b_upper := 1 |}) = Ok (s1, false)).
  { unfold bis_body, bis_start, nneb, f.
    cbn [bs_iter bs_lower bs_upper bs_x bs_err bs_exact b_lower b_init b_upper bind nadd nsub ndiv nmul nabs neqb nltb n0 RNum].
    change (@ntwo R RNum) with 2.
    replace ((-3 + 1) / 2) with (-1) by field.
    replace (-1 - -1) with 0 by ring. rewrite Rabs_R0.
    replace (0 / -1 * c100) with 0 by (rewrite c100_R; field).
    rbool. cbn [negb]. rbool. reflexivity. }
  assert (H2 : bis_body f (1 / 100000) 1200 (bs_next s1) = Ok (s2, false)).
  { unfold bis_body, bs_next, s1, nneb, f.
    cbn [bs_iter bs_lower bs_upper bs_x bs_err bs_exact bind nadd nsub ndiv nmul nabs neqb nltb n0 RNum].
    change (@ntwo R RNum) with 2.
    replace ((-1 + 1) / 2) with 0 by field.
    rbool. cbn [negb]. rbool. reflexivity. }
  assert (H3 : bis_body f (1 / 100000) 1200 (bs_next s2) = Ok (s3, true)).
  { unfold bis_body, bs_next, s2, nneb, f.
    cbn [bs_iter bs_lower bs_upper bs_x bs_err bs_exact bind nadd nsub ndiv nmul nabs neqb nltb n0 RNum].
    change (@ntwo R RNum) with 2.
    replace ((0 + 1) / 2) with (1 / 2) by field.
    replace ((0 - 1 / 2) * (1 / 2 - 1 / 2)) with 0 by field.
    rbool. reflexivity. }
  change 1200%nat with (S (S 1198)) at 2.
  rewrite (bis_loop_continue f _ _ _ _ _ H1), (bis_loop_continue f _ _ _ _ _ H2), (bis_loop_break f _ _ _ _ _ H3).
  cbn [bind]. unfold s3 at 1. cbn [bs_iter Nat.leb]. unfold s3, f. cbn [bs_x bind nltb nabs RNum].
  rewrite gate_R.
  replace (1 / 2 - 1 / 2) with 0 by field. rewrite Rabs_R0.
  rbool. reflexivity.
Qed.

(* ------------------------------------------------------------------------- *)
(* the converse half in exact arithmetic for a bracket away from the origin   *)
(* ------------------------------------------------------------------------- *)
Lemma bis_body_total {T} {NT : Num T} (f : T -> res T) tol cap s :
  (forall x, exists v, f x = Ok v) -> exists s' b, bis_body f tol cap s = Ok (s', b).
Proof.
  intro Hf. unfold bis_body.
  destruct (Hf (bs_lower s)) as (vl & ->). cbn [bind].
  destruct (Hf (ndiv (nadd (bs_lower s) (bs_upper s)) ntwo)) as (vm & ->). cbn [bind].
  eexists. eexists. reflexivity.
Qed.

(* once the bracket is narrow enough the relative-step test must fire *)
Lemma narrow_bracket_breaks (f : R -> res R) tol cap lo hi m s s' :
  0 < m -> 0 < tol -> (forall x, lo <= x <= hi -> m <= Rabs x) ->
  Ibr lo hi s -> Iw lo hi s -> Iend s -> (1 <= bs_iter s)%nat ->
  100 * (hi - lo) < tol * m * 2 ^ S (bs_iter s) ->
  bis_body f tol cap s = Ok (s', false) -> False.
Proof.
  intros Hm Htol Haway (A & B & C) Hw He Hk Hnarrow Hb.
  pose proof (bis_body_continue_not_exact f tol cap s s' Hb) as Hne.
  destruct (bis_body_err_R f tol cap s s' false Hb Hne) as (_ & Herr).
  apply bis_body_ok in Hb. destruct Hb as (vl & vm & _ & _ & _ & Hbrk & _).
  rewrite Hne in Hbrk. cbn [orb] in Hbrk. symmetry in Hbrk.
  apply orb_false_elim in Hbrk. destruct Hbrk as [Hbrk _].
  replace (Nat.ltb 0 (bs_iter s)) with true in Hbrk by (symmetry; apply Nat.ltb_lt; lia).
  cbn [andb] in Hbrk.
  pose proof (bis_mid_R s) as Hmid.
  assert (Hin : lo <= bis_mid s <= hi) by (rewrite Hmid; lra).
  pose proof (Haway _ Hin) as Hab.
  assert (Hnz : bis_mid s <> 0).
  { intro Z. rewrite Z, Rabs_R0 in Hab. lra. }
  rewrite Herr in Hbrk.
  replace (Reqb (bis_mid s) 0) with false in Hbrk by (symmetry; apply Reqb_false; exact Hnz).
  cbn [err_small nltb nabs RNum] in Hbrk. apply Rltb_false in Hbrk.
  unfold Rdiv in Hbrk. rewrite !Rabs_mult, Rabs_Rabsolu, Rabs_inv in Hbrk.
  rewrite (Rabs_pos_eq 100) in Hbrk by lra.
  (* |mid - x_prev| is half the width *)
  unfold Iw in Hw. pose proof (pow2_pos (bs_iter s)) as Hp.
  assert (Hd : Rabs (bis_mid s - bs_x s) = (hi - lo) / 2 ^ S (bs_iter s)).
  { assert (Hhalf : (bs_upper s - bs_lower s) / 2 = (hi - lo) / 2 ^ S (bs_iter s)).
    { rewrite Hw. cbn [pow]. field. lra. }
    destruct (He ltac:(lia)) as [E|E]; rewrite E, Hmid.
    - replace ((bs_lower s + bs_upper s) / 2 - bs_lower s) with ((bs_upper s - bs_lower s) / 2) by lra.
      rewrite Rabs_pos_eq by lra. exact Hhalf.
    - replace ((bs_lower s + bs_upper s) / 2 - bs_upper s) with (- ((bs_upper s - bs_lower s) / 2)) by lra.
      rewrite Rabs_Ropp, Rabs_pos_eq by lra. exact Hhalf. }
  rewrite Hd in Hbrk.
  pose proof (pow2_pos (S (bs_iter s))) as Hp2.
  set (P := 2 ^ S (bs_iter s)) in *. set (a := Rabs (bis_mid s)) in *.
  assert (Ha : 0 < a) by lra.
  (* tol <= (hi-lo)/P * /a * 100  ->  tol * a * P <= 100 (hi-lo) *)
  assert (H1 : tol * a * P <= 100 * (hi - lo)).
  { apply (Rmult_le_compat_r (a * P)) in Hbrk; [|nra].
    match type of Hbrk with _ <= ?rhs => replace rhs with (100 * (hi - lo)) in Hbrk by (field; lra) end.
    lra. }
  assert (H2 : tol * m * P <= tol * a * P).
  { apply Rmult_le_compat_r; [lra|]. apply Rmult_le_compat_l; lra. }
  lra.
Qed.

Lemma bis_loop_exits_by (g : R -> R) tol cap lo hi m K :
  0 < m -> 0 < tol -> (forall x, lo <= x <= hi -> m <= Rabs x) ->
  (1 <= K < cap)%nat -> 100 * (hi - lo) < tol * m * 2 ^ K ->
  forall fuel s, Ibr lo hi s -> Iw lo hi s -> Iend s -> (bs_iter s <= K)%nat -> (cap <= bs_iter s + fuel)%nat ->
  exists r, bis_loop (fun x => Ok (g x)) tol cap fuel s = Ok r /\ (bs_iter r <= K)%nat.
Proof.
  intros Hm Htol Haway HK Hnarrow.
  set (f := fun x : R => Ok (g x)).
  induction fuel as [|fuel IH]; intros s Hbr Hw He Hi Hfuel; [lia|].
  destruct (bis_body_total f tol cap s) as (s' & b & Hb); [intro x; eexists; reflexivity|].
  assert (Hit : bs_iter s' = bs_iter s).
  { pose proof Hb as H. apply bis_body_ok in H. destruct H as (vl & vm & _ & _ & H & _). exact H. }
  destruct b.
  - exists s'. split; [|lia]. apply bis_loop_break. exact Hb.
  - (* the loop goes on, so the bracket is not yet narrow: iter < K *)
    assert (Hlt : (bs_iter s < K)%nat).
    { destruct (Nat.lt_ge_cases (bs_iter s) K) as [|Hge]; [assumption|exfalso].
      assert (bs_iter s = K) by lia.
      apply (narrow_bracket_breaks f tol cap lo hi m s s' Hm Htol Haway Hbr Hw He); [lia| |exact Hb].
      assert (2 ^ K <= 2 ^ S (bs_iter s)) by (apply Rle_pow; [lra|lia]).
      assert (0 < tol * m) by nra.
      assert (tol * m * 2 ^ K <= tol * m * 2 ^ S (bs_iter s)) by (apply Rmult_le_compat_l; lra).
      lra. }
    rewrite (bis_loop_continue f tol cap fuel s s' Hb).
    apply IH.
    + apply Ibr_next. exact (proj1 (Ibr_step f tol cap lo hi s s' false Hbr Hb)).
    + pose proof (Iw_step f tol cap lo hi s s' false Hw Hb) as H.
      rewrite (bis_body_continue_not_exact f tol cap s s' Hb) in H.
      unfold Iw. cbn [bs_next bs_iter bs_lower bs_upper]. exact H.
    + exact (Iend_step f tol cap s s' Hb).
    + cbn [bs_next bs_iter]. lia.
    + cbn [bs_next bs_iter]. lia.
Qed.

Lemma c06_finds_root_away_from_zero : forall (g : R -> R) lo init hi tol cap L X m K,
  continuity g -> lo <= init <= hi -> g lo * g hi <= 0 -> 0 < tol ->
  0 <= L -> (forall a b, lo <= a <= hi -> lo <= b <= hi -> Rabs (g a - g b) <= L * Rabs (a - b)) ->
  (forall x, lo <= x <= hi -> Rabs x <= X) -> L * (tol / 100 * X) < 1 / 10000 ->
  0 < m -> (forall x, lo <= x <= hi -> m <= Rabs x) ->
  (1 <= K < cap)%nat -> 100 * (hi - lo) < tol * m * 2 ^ K ->
  exists x, bisection (fun x => Ok (g x)) {| b_lower := lo; b_init := init; b_upper := hi |} tol cap = Ok x /\
            lo <= x <= hi /\ Rabs (g x) < 1 / 10000 /\
            exists z, g z = 0 /\ lo <= z <= hi /\ (g x = 0 \/ Rabs (x - z) * 100 < tol * Rabs x).
Proof.
  intros g lo init hi tol cap L X m K Hc Hin Hs Htol HL0 HL HX Hsmall Hm Haway HK Hnarrow.
  destruct (bis_loop_exits_by g tol cap lo hi m K Hm Htol Haway HK Hnarrow cap
              (bis_start {| b_lower := lo; b_init := init; b_upper := hi |})) as (r & Hl & Hir).
  - apply bis_start_Ibr. lra.
  - unfold Iw, bis_start. cbn. field.
  - intro H. cbn in H. lia.
  - cbn. lia.
  - cbn. lia.
  - assert (Hlt : (bs_iter r < cap)%nat) by lia.
    pose proof (c06_exit_before_cap_is_ok g lo init hi tol cap r L X Hc Hin Hs Hl Hlt HL0 HL HX Hsmall) as Hok.
    exists (bs_x r). split; [exact Hok|].
    destruct (c06_sound _ _ _ _ _ _ _ Hok) as (Hx & v & Hv & Hg). injection Hv as <-.
    split; [exact Hx|]. split; [exact Hg|].
    destruct (c06_finds_root_partial g lo init hi tol cap r Hc ltac:(lra) Hs Hl)
      as (_ & Hex & _ & z & Hz & Hzin & _ & _ & Htolx).
    exists z. split; [exact Hz|]. split; [exact Hzin|].
    destruct (bs_exact r) eqn:E; [left; apply Hex; reflexivity|right].
    exact (proj2 (Htolx eq_refl Hlt)).
Qed.

(* non-vacuity of c06_finds_root_away_from_zero: x^2 - 4 on [1, 3], init 2, tol 1e-4 (percent), cap 100;
   L = 6, X = 3, m = 1, K = 21 *)
Lemma c06_example_away_from_zero :
  exists x, bisection (s_eval_univariate px2m4) {| b_lower := 1; b_init := 2; b_upper := 3 |} (1 / 10000) 100 = Ok x /\
            1 <= x <= 3 /\ Rabs (eval_simple px2m4 x) < 1 / 10000.
Proof.
  destruct (c06_finds_root_away_from_zero (eval_simple px2m4) 1 2 3 (1 / 10000) 100 6 3 1 21)
    as (x & Hx & Hin & Hg & _); try lra; try lia.
  - apply eval_simple_continuity.
  - rewrite !px2m4_eval. lra.
  - intros a b Ha Hb. rewrite !px2m4_eval.
    replace (a * a - 4 - (b * b - 4)) with ((a + b) * (a - b)) by ring.
    rewrite Rabs_mult. apply Rmult_le_compat_r; [apply Rabs_pos|]. apply Rabs_le. lra.
  - intros x Hx. apply Rabs_le. lra.
  - intros x Hx. rewrite Rabs_pos_eq; lra.
  - exists x. repeat split; try assumption; lra.
Qed.
