(* Proofs/NewtonFloat.v — soundness of the EXIT of the Newton-Raphson solver for the EXECUTED instance
   (Model/Solvers.v at T := float, Coq primitive binary64 = Rust f64), targets [f], [f'] arbitrary.

   (0) nrm_ok_structure   every Num instance: an Ok answer x is the last Newton step
                          x = nsub x' (ndiv v d) from a previous iterate x' (f x' = Ok v, f' x' = Ok d) and the
                          exit test of that loop body fired for one of two reasons, written with the class
                          operations exactly as the model computes them:
                            - root shortcut: nfinite x, f x = Ok w with neqb w n0, and nltb (nabs n0) tol
                              (the error is set to 0 and STILL compared with the tolerance);
                            - relative change: nneb x n0 and
                              nltb (nabs (nmul (ndiv (nabs (nsub x x')) x) c100)) tol  — the division is by
                              the SIGNED x, the outer absolute value is taken afterwards —, and if x passes
                              the finiteness guard then f x = Ok w with w not a zero.
   (1) nrm_float_sound    the reading for binary64 (PrimFloat -> Flocq via Prim2B):
                          x is FINITE in both cases.  In the shortcut case this is the model's guard
                          (x - x == 0 fails for an infinity or a NaN).  In the relative-change case the guard
                          is NOT what gives it (the guard only protects the evaluation of f): a non-finite
                          x makes e := fl(fl(|fl(x - x')| / x) * 100) a NaN (inf/inf), and a NaN fails
                          `e.abs() < tol`.  The tolerance is never a NaN; it may be +infinity.
       Convergence in floats is NOT proved here (only what an Ok answer means).                      *)
From Coq Require Import ZArith List Bool Arith Reals Floats Lia Lra.
From Flocq Require Import Core BinarySingleNaN PrimFloat.
From SV Require Import Base.Num Base.Outcome Model.Poly Model.Solvers
                       Proofs.StatsFloat Proofs.PolyFloat Proofs.Bisect Proofs.Newton.
Import ListNotations.
Local Open Scope R_scope.

Local Notation pfloat := PrimFloat.float.
Local Notation B64 := (binary_float FloatOps.prec FloatOps.emax).
Local Notation Bsub := (@Bminus FloatOps.prec FloatOps.emax Hprec Hmax mode_NE).
Local Notation Bquo := (@Bdiv FloatOps.prec FloatOps.emax Hprec Hmax mode_NE).
Local Notation Bmul := (@Bmult FloatOps.prec FloatOps.emax Hprec Hmax mode_NE).

(* ---- (0) the generic structure of an Ok answer ------------------------------------------------ *)
Lemma nrm_ok_structure : forall (T : Type) (NT : Num T) (f f' : T -> res T) (x0 : T) (cap : nat) (tol x : T),
  nrm f f' x0 cap tol = Ok x ->
  exists x' v d, f x' = Ok v /\ f' x' = Ok d /\ x = nsub x' (ndiv v d) /\
    ( (nfinite x = true /\ (exists w, f x = Ok w /\ neqb w n0 = true) /\ nltb (nabs n0) tol = true)
   \/ (nneb x n0 = true /\
       nltb (nabs (nmul (ndiv (nabs (nsub x x')) x) c100)) tol = true /\
       (nfinite x = true -> exists w, f x = Ok w /\ neqb w n0 = false)) ).
Proof.
  intros T NT f f' x0 cap tol x. unfold nrm.
  destruct (nr_loop f f' tol cap cap (nr_start x0)) as [r|e|w] eqn:El; cbn [bind]; try discriminate.
  destruct (Nat.leb cap (ns_iter r)) eqn:Ec; [discriminate|].
  intro H. injection H as <-.
  destruct (nr_loop_last f f' tol cap (fun _ => True)) with (fuel := cap) (s := nr_start x0) (r := r)
    as (s0 & _ & Hb).
  - intros; exact I.
  - exact I.
  - exact El.
  - apply nr_body_ok in Hb. destruct Hb as (v & d & Hv & Hd & Hx & _ & Hi & Hb & Hcase).
    exists (ns_x s0), v, d. repeat (split; [assumption|]).
    rewrite <- Hi, Ec, orb_false_r in Hb. symmetry in Hb.
    destruct Hcase as [(Hf & vx & Hvx & He)|(Hf & He)].
    + destruct (neqb vx n0) eqn:E0.
      * left. rewrite He in Hb. cbn [err_small] in Hb.
        split; [exact Hf|]. split; [|exact Hb]. exists vx. split; assumption.
      * right. rewrite He in Hb. unfold nr_err1 in Hb.
        destruct (nneb (ns_x r) n0) eqn:E1; [|cbn [err_small] in Hb; discriminate Hb].
        cbn [err_small] in Hb. split; [reflexivity|]. split; [exact Hb|].
        intros _. exists vx. split; assumption.
    + right. rewrite He in Hb. unfold nr_err1 in Hb.
      destruct (nneb (ns_x r) n0) eqn:E1; [|cbn [err_small] in Hb; discriminate Hb].
      cbn [err_small] in Hb. split; [reflexivity|]. split; [exact Hb|].
      intros Hf'. rewrite Hf' in Hf. discriminate Hf.
Qed.

(* ---- float constants of the model ------------------------------------------------------------- *)
Lemma Prim2B_zero : Prim2B PrimFloat.zero = B754_zero false.
Proof.
  pose proof (B2SF_Prim2B PrimFloat.zero) as H.
  replace (Prim2SF PrimFloat.zero) with (S754_zero false) in H by (vm_compute; reflexivity).
  destruct (Prim2B PrimFloat.zero) as [s|s| |s m e Hb]; cbn [B2SF] in H; try discriminate H.
  injection H as ->. reflexivity.
Qed.

Lemma FR_c100 : FR (@c100 pfloat FNum) = 100 /\ ffin (@c100 pfloat FNum).
Proof.
  split.
  - rewrite FR_SF2R.
    replace (Prim2SF (@c100 pfloat FNum)) with (S754_finite false 7036874417766400 (-46))
      by (vm_compute; reflexivity).
    unfold SF2R, F2R. cbn [cond_Zopp Fnum Fexp].
    replace (bpow radix2 (-46)) with (/ IZR (2 ^ 46)).
    + change (2 ^ 46)%Z with 70368744177664%Z. lra.
    + change (-46)%Z with (Z.opp 46). rewrite bpow_opp. reflexivity.
  - unfold ffin. rewrite <- is_finite_equiv. vm_compute. reflexivity.
Qed.

(* ---- float tests read through Flocq ----------------------------------------------------------- *)
(* `v == 0.0`: v is a float zero (either sign) *)
Lemma eqb_zero_true (v : pfloat) : PrimFloat.eqb v PrimFloat.zero = true ->
  is_finite (Prim2B v) = true /\ B2R (Prim2B v) = 0.
Proof.
  rewrite eqb_equiv, Prim2B_zero. intro H.
  assert (Fv : is_finite (Prim2B v) = true).
  { destruct (Prim2B v) as [s|s| |s m e Hb]; try reflexivity; [destruct s|]; cbn in H; discriminate H. }
  split; [exact Fv|].
  rewrite Beqb_correct in H by (exact Fv || reflexivity). cbn [B2R] in H.
  destruct (Req_bool_spec (B2R (Prim2B v)) 0) as [E|]; [exact E|discriminate H].
Qed.

(* `v != 0.0` on a finite v *)
Lemma eqb_zero_false (v : pfloat) : is_finite (Prim2B v) = true -> PrimFloat.eqb v PrimFloat.zero = false ->
  B2R (Prim2B v) <> 0.
Proof.
  rewrite eqb_equiv, Prim2B_zero. intros Fv H.
  rewrite Beqb_correct in H by (exact Fv || reflexivity). cbn [B2R] in H.
  destruct (Req_bool_spec (B2R (Prim2B v)) 0) as [|N]; [discriminate H|exact N].
Qed.

(* f64::is_finite as the model writes it: x - x == 0 *)
Lemma nfinite_float (x : pfloat) : @nfinite pfloat FNum x = true -> is_finite (Prim2B x) = true.
Proof.
  unfold nfinite. cbn [neqb nsub n0 FNum]. rewrite eqb_equiv, sub_equiv, Prim2B_zero.
  destruct (Prim2B x) as [s|s| |s m e Hb]; try reflexivity; [destruct s|]; cbn; intro H; discriminate H.
Qed.

Lemma nfinite_float_rev (x : pfloat) : is_finite (Prim2B x) = true -> @nfinite pfloat FNum x = true.
Proof.
  intro Fx. unfold nfinite. cbn [neqb nsub n0 FNum]. rewrite eqb_equiv, sub_equiv, Prim2B_zero.
  generalize (Bminus_correct FloatOps.prec FloatOps.emax Hprec Hmax mode_NE (Prim2B x) (Prim2B x) Fx Fx).
  replace (B2R (Prim2B x) - B2R (Prim2B x)) with 0 by ring.
  rewrite round_0 by apply valid_rnd_round_mode. rewrite Rabs_R0.
  rewrite Rlt_bool_true by apply bpow_gt_0.
  intros (Hv & Hf & _).
  rewrite Beqb_correct by (exact Hf || reflexivity). rewrite Hv. cbn [B2R].
  apply Req_bool_true. reflexivity.
Qed.

(* `e.abs() < tol` for an ARBITRARY tol: e is finite, tol is no NaN (it is finite or +infinity) *)
Lemma abs_ltb_any (v g : pfloat) : PrimFloat.ltb (PrimFloat.abs v) g = true ->
  is_finite (Prim2B v) = true /\ is_nan (Prim2B g) = false /\
  (is_finite (Prim2B g) = true -> Rabs (B2R (Prim2B v)) < B2R (Prim2B g)).
Proof.
  intro H. rewrite ltb_equiv, abs_equiv in H.
  assert (Fv : is_finite (Prim2B v) = true).
  { destruct (Prim2B v) as [s|s| |s m e Hb]; try reflexivity.
    - destruct (Prim2B g) as [s1|s1| |s1 m1 e1 Hb1]; try destruct s1; cbn in H; discriminate H.
    - cbn in H. discriminate H. }
  split; [exact Fv|]. split.
  - destruct (Prim2B g) as [s1|s1| |s1 m1 e1 Hb1]; try reflexivity.
    destruct (Babs (Prim2B v)); cbn in H; discriminate H.
  - intro Fg. rewrite Bltb_correct in H; [|rewrite is_finite_Babs; exact Fv|exact Fg].
    rewrite B2R_Babs in H.
    destruct (Rlt_bool_spec (Rabs (B2R (Prim2B v))) (B2R (Prim2B g))) as [L|]; [exact L|discriminate H].
Qed.

(* the relative change fl(fl(|fl(x - y)| / x) * c) is finite only for a finite x: an infinite x makes
   |x - y| an infinity or a NaN, and inf/inf is a NaN *)
Lemma relchg_finite (x y c : B64) :
  is_finite (Bmul (Bquo (Babs (Bsub x y)) x) c) = true -> is_finite x = true.
Proof.
  destruct x as [s|s| |s m e Hb]; try reflexivity.
  - destruct y as [sy|sy| |sy my ey Hy]; try destruct s; try destruct sy; cbn; intro H; discriminate H.
  - cbn. intro H. discriminate H.
Qed.

(* ---- (1) the executed instance ---------------------------------------------------------------- *)
Theorem nrm_float_sound : forall (f f' : PrimFloat.float -> res PrimFloat.float)
    (x0 : PrimFloat.float) (cap : nat) (tol x : PrimFloat.float),
  @nrm PrimFloat.float FNum f f' x0 cap tol = Ok x ->
  exists x' v d, f x' = Ok v /\ f' x' = Ok d /\
    x = PrimFloat.sub x' (PrimFloat.div v d) /\
    is_finite (Prim2B x) = true /\
    is_nan (Prim2B tol) = false /\
    ( (exists w, f x = Ok w /\ PrimFloat.eqb w PrimFloat.zero = true /\
                 is_finite (Prim2B w) = true /\ B2R (Prim2B w) = 0 /\
                 PrimFloat.ltb (PrimFloat.abs PrimFloat.zero) tol = true /\
                 (is_finite (Prim2B tol) = true -> 0 < B2R (Prim2B tol)))
   \/ (let e := PrimFloat.mul (PrimFloat.div (PrimFloat.abs (PrimFloat.sub x x')) x)
                              (@c100 PrimFloat.float FNum) in
       PrimFloat.eqb x PrimFloat.zero = false /\ B2R (Prim2B x) <> 0 /\
       PrimFloat.ltb (PrimFloat.abs e) tol = true /\
       is_finite (Prim2B e) = true /\
       (is_finite (Prim2B tol) = true -> Rabs (B2R (Prim2B e)) < B2R (Prim2B tol)) /\
       (exists w, f x = Ok w /\ PrimFloat.eqb w PrimFloat.zero = false)) ).
Proof.
  intros f f' x0 cap tol x H.
  apply nrm_ok_structure in H.
  destruct H as (x' & v & d & Hv & Hd & Hx & Hcase).
  exists x', v, d. split; [exact Hv|]. split; [exact Hd|].
  cbn [nsub ndiv FNum] in Hx. split; [exact Hx|].
  destruct Hcase as [(Hf & (w & Hw & Ew) & Ht)|(Nz & Ht & Hg)].
  - cbn [neqb nltb nabs n0 FNum] in Ew, Ht.
    apply nfinite_float in Hf.
    destruct (eqb_zero_true w Ew) as [Fw Zw].
    destruct (abs_ltb_any _ _ Ht) as (_ & Nt & Rt).
    split; [exact Hf|]. split; [exact Nt|]. left. exists w.
    repeat (split; [assumption|]).
    intro Ft. specialize (Rt Ft). rewrite Prim2B_zero in Rt. cbn [B2R] in Rt. rewrite Rabs_R0 in Rt. exact Rt.
  - unfold nneb in Nz. cbn [neqb nltb nabs nmul ndiv nsub n0 FNum] in Nz, Ht.
    apply negb_true_iff in Nz.
    destruct (abs_ltb_any _ _ Ht) as (Fe & Nt & Rt).
    assert (Fx : is_finite (Prim2B x) = true).
    { generalize Fe. rewrite mul_equiv, div_equiv, abs_equiv, sub_equiv. apply relchg_finite. }
    split; [exact Fx|]. split; [exact Nt|]. right.
    split; [exact Nz|]. split; [exact (eqb_zero_false x Fx Nz)|].
    split; [exact Ht|]. split; [exact Fe|]. split; [exact Rt|].
    apply Hg. apply nfinite_float_rev. exact Fx.
Qed.

(* ---- non-vacuity: x^2 - 2 from 1, cap 50, tol = fl(1e-10) percent, run on the float instance ---- *)
Definition exn_f (x : pfloat) : res pfloat := Ok (PrimFloat.sub (PrimFloat.mul x x) 0x1p+1%float).
Definition exn_f' (x : pfloat) : res pfloat := Ok (PrimFloat.mul 0x1p+1%float x).
Definition exn_tol : pfloat := 0x1.b7cdfd9d7bdbbp-34%float.
(* one ulp below the binary64 number nearest to sqrt 2 (0x1.6a09e667f3bcdp+0) *)
Definition exn_root : pfloat := 0x1.6a09e667f3bccp+0%float.

Lemma nrm_float_example : @nrm pfloat FNum exn_f exn_f' 0x1p+0%float 50 exn_tol = Ok exn_root.
Proof. vm_compute. reflexivity. Qed.

(* the example leaves through the relative-change test: the residual at the answer is not a float zero *)
Lemma nrm_float_example_exit :
  exists w, exn_f exn_root = Ok w /\ PrimFloat.eqb w PrimFloat.zero = false.
Proof. eexists. split; [reflexivity|]. vm_compute. reflexivity. Qed.

