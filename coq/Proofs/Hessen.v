(* Proofs/Hessen.v — C14: the statements used by Properties/C14.v.
   Layers: Proofs/HessenReflector.v (sums, matrix algebra, reflector),
   Proofs/HessenStep.v (loop characterisation, one iteration). *)
From Coq Require Import ZArith List Bool Arith Reals Lra Lia Morphisms Setoid.
From SV Require Import Base.Num Base.Outcome Base.Mat Model.Hessen.
From SV Require Export Proofs.HessenReflector Proofs.HessenStep.
Import ListNotations.
Local Open Scope R_scope.

(* ---- rejection and the small sizes ------------------------------------------ *)
Lemma c14_nonsquare : forall (h w : nat) (A : mat R), h <> w -> hessenberg_hw h w A = Err ENonSquareMatrix.
Proof.
  intros h w A Hne. unfold hessenberg_hw.
  apply Nat.eqb_neq in Hne. now rewrite Hne.
Qed.

Lemma c14_small : forall (n : nat) (A : mat R), (n <= 2)%nat -> hessenberg n A = Ok (A, midentity).
Proof.
  intros n A Hn. unfold hessenberg, hessenberg_hw.
  rewrite Nat.eqb_refl. cbn [negb].
  apply Nat.leb_le in Hn. now rewrite Hn.
Qed.

Lemma c14_square_ok : forall (n : nat) (A : mat R), exists H Q, hessenberg n A = Ok (H, Q).
Proof.
  intros n A. unfold hessenberg, hessenberg_hw. rewrite Nat.eqb_refl. cbn [negb].
  destruct (n <=? 2)%nat.
  - now exists A, midentity.
  - destruct (for_range 0 (n - 2) (hess_step n) (A, midentity)) as [H Q]. now exists H, Q.
Qed.

(* ---- the reflector computed in one iteration --------------------------------- *)
Lemma c14_reflector : forall (n k : nat) (h : mat R),
  let m := (n - (k + 1))%nat in
  let x := fun i : nat => h (k + 1 + i)%nat k in
  let nx := sqrt (hh_sqnorm n k h) in
  let hf := h (k + 1)%nat k in
  let v := hh_v k h (hh_u1 hf nx) in
  let tau := hh_tau hf nx in
  let Hm := refl tau v in
  nx <> 0 ->
  nx * nx = Rsum (fun i => x i * x i) m /\
  tau * Rsum (fun i => v i * v i) m = 2 /\
  (forall i j, Hm i j = Hm j i) /\
  meq m (Rmm m Hm Hm) RI /\
  (hh_sign hf = -1 \/ hh_sign hf = 1) /\
  Rsum (fun t => Hm 0%nat t * x t) m = hh_sign hf * nx /\
  (forall i, (0 < i < m)%nat -> Rsum (fun t => Hm i t * x t) m = 0).
Proof.
  intros n k h. cbv zeta.
  replace (h (k + 1)%nat k) with (h (k + 1 + 0)%nat k) by (f_equal; lia).
  rewrite (sqnorm_R n k h).
  set (m := (n - (k + 1))%nat).
  set (x := fun i : nat => h (k + 1 + i)%nat k).
  change (h (k + 1 + 0)%nat k) with (x 0%nat).
  change (Rsum (fun i => h (k + 1 + i)%nat k * h (k + 1 + i)%nat k) m)
    with (Rsum (fun i => x i * x i) m).
  set (nx := sqrt (Rsum (fun i => x i * x i) m)).
  set (tau := hh_tau (x 0%nat) nx).
  set (v := hh_v k h (hh_u1 (x 0%nat) nx)).
  intro Hnz.
  pose proof (cmp_m_pos m x Hnz) as Hmpos.
  pose proof (cmp_tau_vv m x Hnz) as Htv.
  pose proof (cmp_nu_sq m x) as Hsq.
  pose proof (cmp_Hx_first m x Hnz) as Hfirst.
  pose proof (cmp_Hx_rest m x Hnz) as Hrest.
  assert (Hmul : forall i, (i < m)%nat ->
            Rsum (fun t => refl tau v i t * x t) m = x i - tau * v i * Rsum (fun t => v t * x t) m).
  { intros i Hi. exact (refl_mul_l m tau v (fun t _ => x t) i 0%nat Hi). }
  split; [exact Hsq|]. split; [exact Htv|]. split; [intros i j; apply refl_sym|].
  split; [apply refl_invol; exact Htv|].
  split.
  { rewrite hh_sign_R. destruct (Rle_dec 0 (x 0%nat)); [left|right]; reflexivity. }
  split.
  - rewrite Hmul by exact Hmpos. exact Hfirst.
  - intros i [Hi0 Him]. rewrite Hmul by exact Him. apply Hrest. exact Hi0.
Qed.

(* ---- one iteration keeps the invariant ---------------------------------------- *)
Lemma c14_step : forall (n : nat) (A : mat R) (k : nat) (h q : mat R),
  hess_inv n A k h q ->
  hess_inv n A (S k) (fst (hess_step n k (h, q))) (snd (hess_step n k (h, q))).
Proof. exact hess_step_inv. Qed.

Lemma hess_inv_init n A : hess_inv n A 0 A midentity.
Proof.
  split; [|split].
  - change (@midentity R RNum) with RI. rewrite Rtr_I. apply Rmm_I_l.
  - change (@midentity R RNum) with RI. rewrite Rtr_I, Rmm_I_r. apply Rmm_I_l.
  - intros i j Hj. lia.
Qed.

Lemma hess_loop_inv n A len :
  let r := for_range 0 len (hess_step n) (A, midentity) in
  hess_inv n A len (fst r) (snd r).
Proof.
  cbn zeta.
  pose (P := fun (k : nat) (hq : mat R * mat R) => hess_inv n A k (fst hq) (snd hq)).
  change (P (0 + len)%nat (for_range 0 len (hess_step n) (A, midentity))).
  apply (for_range_inv P).
  - apply hess_inv_init.
  - intros k [h q] _ Hk. unfold P in *. cbn [fst snd] in Hk. apply hess_step_inv. exact Hk.
Qed.

Lemma c14_main : forall (n : nat) (A H Q : mat R), hessenberg n A = Ok (H, Q) ->
  meq n (Rmm n (Rtr Q) Q) RI /\
  meq n (Rmm n (Rmm n Q H) (Rtr Q)) A /\
  (forall i j, (i < n)%nat -> (j < n)%nat -> (j + 1 < i)%nat -> H i j = 0).
Proof.
  intros n A H Q. unfold hessenberg, hessenberg_hw. rewrite Nat.eqb_refl. cbn [negb].
  destruct (Nat.leb_spec n 2) as [Hn|Hn]; intro E; injection E as EH.
  - subst H Q. destruct (hess_inv_init n A) as (H1 & H2 & _).
    split; [exact H1|]. split; [exact H2|]. intros i j Hi Hj Hij. lia.
  - pose proof (hess_loop_inv n A (n - 2)) as Hinv. cbn zeta in Hinv.
    rewrite EH in Hinv. cbn [fst snd] in Hinv. destruct Hinv as (H1 & H2 & H3).
    split; [exact H1|]. split; [exact H2|].
    intros i j Hi Hj Hij. apply H3; lia.
Qed.

(* ---- corollaries: trace and Frobenius norm ----------------------------------- *)
Definition Rfrob2 (n : nat) (M : mat R) : R := Rsum (fun i => Rsum (fun j => M i j * M i j) n) n.

Lemma Rfrob2_trace n M : Rfrob2 n M = Rtrace n (Rmm n (Rtr M) M).
Proof.
  unfold Rfrob2, Rtrace, Rmm, Rtr, mtranspose. apply Rsum_swap.
Qed.

Lemma orth_sim_trace n Q M :
  meq n (Rmm n (Rtr Q) Q) RI -> Rtrace n (Rmm n (Rmm n Q M) (Rtr Q)) = Rtrace n M.
Proof.
  intro HQ. rewrite Rtrace_comm. apply Rtrace_proper.
  rewrite <- Rmm_assoc, HQ. apply Rmm_I_l.
Qed.

Lemma c14_trace : forall (n : nat) (A H Q : mat R), hessenberg n A = Ok (H, Q) ->
  Rtrace n H = Rtrace n A.
Proof.
  intros n A H Q E. destruct (c14_main n A H Q E) as (HQ & HA & _).
  rewrite <- (Rtrace_proper n _ _ HA). symmetry. apply orth_sim_trace. exact HQ.
Qed.

Lemma c14_frobenius : forall (n : nat) (A H Q : mat R), hessenberg n A = Ok (H, Q) ->
  Rfrob2 n H = Rfrob2 n A.
Proof.
  intros n A H Q E. destruct (c14_main n A H Q E) as (HQ & HA & _).
  rewrite !Rfrob2_trace.
  assert (QQ_cancel : forall X, meq n (Rmm n (Rtr Q) (Rmm n Q X)) X).
  { intro X. rewrite <- Rmm_assoc, HQ. apply Rmm_I_l. }
  assert (EA : meq n (Rmm n (Rtr A) A) (Rmm n (Rmm n Q (Rmm n (Rtr H) H)) (Rtr Q))).
  { rewrite <- HA. rewrite !Rtr_mm, Rtr_tr. rewrite !Rmm_assoc. rewrite QQ_cancel. reflexivity. }
  rewrite (Rtrace_proper n _ _ EA). symmetry. apply orth_sim_trace. exact HQ.
Qed.
