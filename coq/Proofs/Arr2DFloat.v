(* Proofs/Arr2DFloat.v — C11 at the floating-point level: rounding-error bound for the entries of
   [@dot float FNum] (Coq primitive binary64 = Rust f64), through Flocq ([Prim2B], [B2R]).

   How this connects to c11_conforming (Proofs/Arr2DDot.v): that theorem needs a commutative ring
   ([NumRing]) and says   get n0 c i j = dot_entry a b i j = sum_k a_ik * b_kj  (a fold_right).
   Floats are not a ring, so part A re-proves the shape/addressing part for EVERY [Num T]:
   for conforming well-formed operands  dot a b = Ok c  with the same shape and
       get n0 c i j = dot_entry_fl a b i j,
   the value the loop really computes:  the left-to-right accumulation
       dot_partial a b i j (width a) = (((n0 + a_i0*b_0j) + a_i1*b_1j) + ...)        (n0 = +0.0)
   or, through the 1x1 shortcut of the code, the single product scalar * x.
   Part B bounds the distance between that float and the real number sum_k a_ik*b_kj
   (the value of [dot_entry] at the R instance on the real values of the operands):

       |fl - sum_k a_ik b_kj| <= ((1+eps)^(n+1) - 1) * sum_k |a_ik b_kj| + n * (1+eps)^n * eta

   n = width a, eps = 2^-53, eta = 2^-1075: one rounding per product (relative eps, plus eta when the
   product is subnormal), one rounding per addition (relative eps only: additions have no underflow
   error).  The no-overflow hypotheses ask that every product and every partial sum of the entry is
   finite; [dot_float_no_overflow] derives them from finite operands and a real-number bound.   *)
From Coq Require Import ZArith List Bool Arith Reals Floats Lia Lra.
From Flocq Require Import Core Relative BinarySingleNaN PrimFloat.
From SV Require Import Base.Num Base.Outcome Model.Arr2D Proofs.Arr2D Proofs.Arr2DDot Proofs.Stats Proofs.StatsFloat.
Import ListNotations.

(* ======================================================================================== *)
(* Part A — what [dot] computes, for every Num instance (no ring laws)                      *)
Section Generic.
  Context {T : Type} {NT : Num T}.
  Local Open Scope res_scope.

  (* let mut sum = n0; for k in 0..m { sum += x_k * y_k } *)
  Definition facc (x y : nat -> T) (m : nat) : T :=
    fold_left (fun s k => nadd s (nmul (x k) (y k))) (seq 0 m) n0.

  (* the first m steps of the accumulation of entry (i,j) *)
  Definition dot_partial (a b : arr T) (i j m : nat) : T :=
    facc (fun k => get n0 a i k) (fun k => get n0 b k j) m.

  (* entry (i,j) of [dot a b] for conforming operands, as computed *)
  Definition dot_entry_fl (a b : arr T) (i j : nat) : T :=
    if is_1x1 a then nmul (get n0 a 0 0) (get n0 b i j)
    else if is_1x1 b then nmul (get n0 b 0 0) (get n0 a i j)
    else dot_partial a b i j (width a).

  Lemma facc_S x y m : facc x y (S m) = nadd (facc x y m) (nmul (x m) (y m)).
  Proof. unfold facc. rewrite seq_S, fold_left_app. reflexivity. Qed.

  Lemma acc_loop_fl n (fx fy : nat -> res T) (x y : nat -> T) :
    (forall k, k < n -> fx k = Ok (x k)) -> (forall k, k < n -> fy k = Ok (y k)) ->
    forM n (fun k sum => let* u := fx k in let* v := fy k in Ok (nadd sum (nmul u v))) n0
    = Ok (facc x y n).
  Proof.
    intros Hx Hy.
    destruct (forM_inv (fun k s => s = facc x y k)
               (fun k sum => let* u := fx k in let* v := fy k in Ok (nadd sum (nmul u v))) n n0) as [s [E P]].
    - reflexivity.
    - intros i s Hi ->. rewrite (Hx i Hi), (Hy i Hi). cbn [bind].
      eexists. split; [reflexivity|]. rewrite facc_S. reflexivity.
    - rewrite E, P. reflexivity.
  Qed.

  Lemma dot_plain_fl (a b : arr T) :
    Inv a -> Inv b -> is_1x1 a = false -> is_1x1 b = false -> width a = height b ->
    exists c, dot a b = Ok c /\ Inv c /\ height c = height a /\ width c = width b /\
      forall i j, i < height a -> j < width b -> get n0 c i j = dot_partial a b i j (width a).
  Proof.
    intros Ia Ib H0 H1 Hc. unfold dot. rewrite H0, H1. cbn [orb].
    rewrite Hc, Nat.eqb_refl. cbn [negb]. rewrite <- Hc.
    apply (fill_loop_spec n0 (height a) (width b) _ (fun i j => dot_partial a b i j (width a))).
    - apply full_inv.
    - reflexivity.
    - reflexivity.
    - intros i j Hi Hj. unfold dot_partial.
      apply (acc_loop_fl (width a) (fun k => get_rc a i k) (fun k => get_rc b k j)
                         (fun k => get n0 a i k) (fun k => get n0 b k j)).
      + intros k Hk. apply get_rc_ok; auto.
      + intros k Hk. apply get_rc_ok; auto. lia.
  Qed.

  (* conforming operands, every shape, every Num instance *)
  Lemma dot_fl_conforming (a b : arr T) :
    Inv a -> Inv b -> width a = height b ->
    exists c, dot a b = Ok c /\ Inv c /\ height c = height a /\ width c = width b /\
      forall i j, i < height a -> j < width b -> get n0 c i j = dot_entry_fl a b i j.
  Proof.
    intros Ia Ib Hc. unfold dot_entry_fl.
    destruct (is_1x1 a) eqn:Ea.
    - destruct (dot_scalar_left a b Ia Ib Ea) as [c [E [Ic [Hh [Hw G]]]]].
      apply is_1x1_true in Ea. destruct Ea as [Ha1 Ha2].
      exists c. split; [exact E|]. split; [exact Ic|].
      split; [lia|]. split; [exact Hw|].
      intros i j Hi Hj. apply G; lia.
    - destruct (is_1x1 b) eqn:Eb.
      + destruct (dot_scalar_right a b Ia Ib Ea Eb) as [c [E [Ic [Hh [Hw G]]]]].
        apply is_1x1_true in Eb. destruct Eb as [Hb1 Hb2].
        exists c. split; [exact E|]. split; [exact Ic|].
        split; [exact Hh|]. split; [lia|].
        intros i j Hi Hj. apply G; lia.
      + apply dot_plain_fl; auto.
  Qed.
End Generic.

(* ======================================================================================== *)
(* Part B — binary64                                                                         *)
Local Open Scope R_scope.
Local Notation pfloat := PrimFloat.float.
Local Notation fexp64 := (SpecFloat.fexp FloatOps.prec FloatOps.emax).
Local Notation rnd64 := (round radix2 fexp64 ZnearestE).
Local Notation Bmul := (@Bmult FloatOps.prec FloatOps.emax Hprec Hmax mode_NE).

Lemma FR_zero : FR PrimFloat.zero = 0 /\ ffin PrimFloat.zero.
Proof. unfold FR, ffin. rewrite zero_equiv, Prim2B_B2Prim. split; reflexivity. Qed.

(* ---- sums indexed by 0..m-1 ---------------------------------------------------------- *)
Definition RsumN (f : nat -> R) (m : nat) : R := Rsum (map f (seq 0 m)).

Lemma RsumN_0 f : RsumN f 0 = 0.
Proof. reflexivity. Qed.

Lemma RsumN_S f m : RsumN f (S m) = RsumN f m + f m.
Proof. unfold RsumN. rewrite seq_S, map_app. cbn [map plus]. apply Rsum_snoc. Qed.

Lemma RsumN_abs_le f m : Rabs (RsumN f m) <= RsumN (fun k => Rabs (f k)) m.
Proof.
  unfold RsumN. rewrite <- (map_map f Rabs). apply Rsum_abs_le.
Qed.

Lemma RsumN_abs_nonneg f m : 0 <= RsumN (fun k => Rabs (f k)) m.
Proof. eapply Rle_trans; [apply Rabs_pos | apply RsumN_abs_le]. Qed.

(* terms within (u, eta) of t_k: the sums are within (u * sum|t|, m * eta) *)
Lemma RsumN_perturb (P t : nat -> R) (u eta : R) (m : nat) :
  (forall k, (k < m)%nat -> Rabs (P k - t k) <= u * Rabs (t k) + eta) ->
  Rabs (RsumN P m - RsumN t m) <= u * RsumN (fun k => Rabs (t k)) m + INR m * eta /\
  RsumN (fun k => Rabs (P k)) m <= (1 + u) * RsumN (fun k => Rabs (t k)) m + INR m * eta.
Proof.
  induction m as [|m IH]; intros H.
  - rewrite !RsumN_0. cbn [INR]. rewrite Rminus_0_r, Rabs_R0. lra.
  - destruct IH as [I1 I2]. { intros k Hk. apply H. lia. }
    specialize (H m (Nat.lt_succ_diag_r m)).
    rewrite !RsumN_S, S_INR. split.
    + replace (RsumN P m + P m - (RsumN t m + t m)) with ((RsumN P m - RsumN t m) + (P m - t m)) by ring.
      eapply Rle_trans; [apply Rabs_triang|]. lra.
    + assert (Hp : Rabs (P m) <= Rabs (t m) + Rabs (P m - t m)).
      { replace (P m) with (t m + (P m - t m)) at 1 by ring. apply Rabs_triang. }
      lra.
Qed.

(* ---- one binary64 product ------------------------------------------------------------ *)
Lemma rnd64_err (t : R) :
  exists d e, Rabs d <= feps /\ Rabs e <= feta /\ rnd64 t = t * (1 + d) + e.
Proof.
  destruct (error_N_FLT radix2 (-1074) 53 eq_refl (fun z => negb (Z.even z)) t)
    as [d [e [Hd [He [_ Hr]]]]].
  exists d, e. change (/ 2 * bpow radix2 (- (53) + 1)) with (u_ro radix2 53) in Hd.
  rewrite u_ro_feps in Hd. rewrite half_emin_feta in He.
  split; [exact Hd|]. split; [exact He|]. exact Hr.
Qed.

Lemma rnd64_abs_le (t : R) : Rabs (rnd64 t) <= (1 + feps) * Rabs t + feta.
Proof.
  destruct (rnd64_err t) as [d [e [Hd [He ->]]]].
  eapply Rle_trans; [apply Rabs_triang|]. rewrite Rabs_mult.
  assert (H1 : Rabs (1 + d) <= 1 + feps).
  { eapply Rle_trans; [apply Rabs_triang|]. rewrite Rabs_R1. lra. }
  pose proof (Rabs_pos t) as Ht.
  assert (H2 : Rabs t * Rabs (1 + d) <= Rabs t * (1 + feps)).
  { apply Rmult_le_compat_l; assumption. }
  lra.
Qed.

Lemma mul_finite_iff (x y : pfloat) :
  ffin (PrimFloat.mul x y) <->
  ffin x /\ ffin y /\ Rabs (rnd64 (FR x * FR y)) < bpow radix2 1024.
Proof.
  unfold ffin, FR. rewrite mul_equiv.
  generalize (Bmult_correct FloatOps.prec FloatOps.emax Hprec Hmax mode_NE (Prim2B x) (Prim2B y)).
  match goal with |- (if Rlt_bool ?A ?B then _ else _) -> _ =>
    destruct (Rlt_bool_spec A B) as [Hlt|Hge] end.
  - intros [_ [H2 _]]. rewrite H2, andb_true_iff. split.
    + intros [F1 F2]. split; [exact F1|]. split; [exact F2|exact Hlt].
    + intros [F1 [F2 _]]. split; assumption.
  - intros H. rewrite <- is_finite_SF_B2SF, H. cbn. split; [discriminate|].
    intros [_ [_ Hlt]]. exfalso. apply (Rlt_irrefl _ (Rlt_le_trans _ _ _ Hlt Hge)).
Qed.

Lemma mul_finite_comm (x y : pfloat) : ffin (PrimFloat.mul x y) -> ffin (PrimFloat.mul y x).
Proof.
  rewrite !mul_finite_iff. intros [F1 [F2 H]]. rewrite (Rmult_comm (FR y)). auto.
Qed.

Lemma mul_finite_round (x y : pfloat) :
  ffin (PrimFloat.mul x y) -> FR (PrimFloat.mul x y) = rnd64 (FR x * FR y).
Proof.
  intros F. pose proof F as F'. apply mul_finite_iff in F'. destruct F' as [_ [_ Hlt]].
  unfold FR. rewrite mul_equiv.
  generalize (Bmult_correct FloatOps.prec FloatOps.emax Hprec Hmax mode_NE (Prim2B x) (Prim2B y)).
  rewrite Rlt_bool_true by exact Hlt. intros [H1 _]. exact H1.
Qed.

(* round(x*y) = x*y*(1+d) + e *)
Lemma mul_finite_err (x y : pfloat) : ffin (PrimFloat.mul x y) ->
  Rabs (FR (PrimFloat.mul x y) - FR x * FR y) <= feps * Rabs (FR x * FR y) + feta.
Proof.
  intros F. rewrite (mul_finite_round x y F).
  destruct (rnd64_err (FR x * FR y)) as [d [e [Hd [He ->]]]].
  set (t := FR x * FR y).
  replace (t * (1 + d) + e - t) with (t * d + e) by ring.
  eapply Rle_trans; [apply Rabs_triang|]. rewrite Rabs_mult.
  pose proof (Rabs_pos t) as Ht.
  assert (H : Rabs t * Rabs d <= Rabs t * feps) by (apply Rmult_le_compat_l; assumption).
  lra.
Qed.

(* ---- recursive summation from +0.0 of an indexed family -------------------------------- *)
Definition fsumN (p : nat -> pfloat) (m : nat) : pfloat :=
  fold_left (fun s k => PrimFloat.add s (p k)) (seq 0 m) PrimFloat.zero.

Lemma fsumN_S p m : fsumN p (S m) = PrimFloat.add (fsumN p m) (p m).
Proof. unfold fsumN. rewrite seq_S, fold_left_app. reflexivity. Qed.

Lemma facc_fsumN (x y : nat -> pfloat) m :
  @facc pfloat FNum x y m = fsumN (fun k => PrimFloat.mul (x k) (y k)) m.
Proof. reflexivity. Qed.

Lemma fsumN_error (p : nat -> pfloat) (n : nat) :
  (forall k, (k < n)%nat -> ffin (p k)) ->
  (forall m, (m <= n)%nat -> ffin (fsumN p m)) ->
  forall m, (m <= n)%nat ->
  Rabs (FR (fsumN p m) - RsumN (fun k => FR (p k)) m) <=
    ((1 + feps) ^ m - 1) * RsumN (fun k => Rabs (FR (p k))) m.
Proof.
  intros Hp Hs. induction m as [|m IH]; intros Hm.
  - rewrite !RsumN_0. change (fsumN p 0) with PrimFloat.zero.
    rewrite (proj1 FR_zero), Rminus_0_r, Rabs_R0. cbn [pow]. lra.
  - rewrite fsumN_S, !RsumN_S.
    assert (Fs : ffin (fsumN p m)) by (apply Hs; lia).
    assert (Fp : ffin (p m)) by (apply Hp; lia).
    assert (Fa : ffin (PrimFloat.add (fsumN p m) (p m))).
    { rewrite <- fsumN_S. apply Hs. exact Hm. }
    destruct (add_finite_rel _ _ Fs Fp Fa) as [d [Hd ->]].
    rewrite <- tech_pow_Rmult, (Rmult_comm (1 + feps)).
    pose proof feps_pos as Hu.
    apply step_bound.
    + lra.
    + apply pow1p_ge1; lra.
    + exact Hd.
    + apply RsumN_abs_le.
    + apply IH. lia.
Qed.

(* ---- the accumulation of products ------------------------------------------------------ *)
Lemma facc_float_error (x y : nat -> pfloat) (n : nat) :
  (forall k, (k < n)%nat -> ffin (PrimFloat.mul (x k) (y k))) ->
  (forall m, (m <= n)%nat -> ffin (facc x y m)) ->
  Rabs (FR (facc x y n) - RsumN (fun k => FR (x k) * FR (y k)) n) <=
    ((1 + feps) ^ S n - 1) * RsumN (fun k => Rabs (FR (x k) * FR (y k))) n
    + INR n * (1 + feps) ^ n * feta.
Proof.
  intros Hp Hs. rewrite facc_fsumN.
  set (p := fun k => PrimFloat.mul (x k) (y k)).
  set (t := fun k => FR (x k) * FR (y k)).
  pose proof (fsumN_error p n Hp Hs n (le_n n)) as E1.
  destruct (RsumN_perturb (fun k => FR (p k)) t feps feta n) as [E2 E3].
  { intros k Hk. apply mul_finite_err, Hp, Hk. }
  pose proof feps_pos as Hu.
  pose proof (pow1p_ge1 feps n (Rlt_le _ _ Hu)) as HQ.
  pose proof (RsumN_abs_nonneg t n) as HA.
  set (Q := (1 + feps) ^ n) in *.
  set (A := RsumN (fun k => Rabs (t k)) n) in *.
  set (SP := RsumN (fun k => Rabs (FR (p k))) n) in *.
  set (N := INR n) in *.
  rewrite <- tech_pow_Rmult. fold Q.
  replace (FR (fsumN p n) - RsumN t n)
    with ((FR (fsumN p n) - RsumN (fun k => FR (p k)) n) + (RsumN (fun k => FR (p k)) n - RsumN t n)) by ring.
  eapply Rle_trans; [apply Rabs_triang|].
  assert (E4 : (Q - 1) * SP <= (Q - 1) * ((1 + feps) * A + N * feta)).
  { apply Rmult_le_compat_l; lra. }
  change (RsumN (fun k => Rabs (FR (x k) * FR (y k))) n) with A.
  nra.
Qed.

(* a real-number condition that excludes overflow of every product and partial sum *)
Lemma fsumN_bound_mono (f : nat -> R) (m n : nat) : (m <= n)%nat ->
  (1 + feps) ^ m * RsumN (fun k => Rabs (f k)) m <= (1 + feps) ^ n * RsumN (fun k => Rabs (f k)) n.
Proof.
  pose proof feps_pos as Hu.
  induction 1 as [|n Hle IH]; [lra|].
  eapply Rle_trans; [exact IH|].
  rewrite <- tech_pow_Rmult, RsumN_S.
  pose proof (pow1p_ge1 feps n (Rlt_le _ _ Hu)) as HQ.
  pose proof (RsumN_abs_nonneg f n) as HA. pose proof (Rabs_pos (f n)) as Hf.
  set (Q := (1 + feps) ^ n) in *. set (A := RsumN (fun k => Rabs (f k)) n) in *.
  assert (0 <= Q * A) by (apply Rmult_le_pos; lra).
  assert (0 <= Q * Rabs (f n)) by (apply Rmult_le_pos; lra).
  assert (0 <= feps * (Q * (A + Rabs (f n)))).
  { apply Rmult_le_pos; [lra|]. apply Rmult_le_pos; lra. }
  nra.
Qed.

Lemma fsumN_no_overflow (p : nat -> pfloat) (n : nat) :
  (forall k, (k < n)%nat -> ffin (p k)) ->
  (1 + feps) ^ n * RsumN (fun k => Rabs (FR (p k))) n < bpow radix2 1024 ->
  forall m, (m <= n)%nat -> ffin (fsumN p m).
Proof.
  intros Hp Hb.
  assert (G : forall m, (m <= n)%nat -> forall m', (m' <= m)%nat -> ffin (fsumN p m')).
  { induction m as [|m IH]; intros Hm m' Hm'.
    - replace m' with 0%nat by lia. apply FR_zero.
    - destruct (Nat.eq_dec m' (S m)) as [->|Hne]; [|apply IH; lia].
      assert (Hpre : forall m', (m' <= m)%nat -> ffin (fsumN p m')) by (apply IH; lia).
      assert (Hpm : forall k, (k < m)%nat -> ffin (p k)) by (intros k Hk; apply Hp; lia).
      pose proof (fsumN_error p m Hpm Hpre m (le_n m)) as E.
      pose proof (RsumN_abs_le (fun k => FR (p k)) m) as HS.
      pose proof (fsumN_bound_mono (fun k => FR (p k)) (S m) n Hm) as Hmono.
      rewrite <- tech_pow_Rmult, RsumN_S in Hmono.
      pose proof feps_pos as Hu.
      pose proof (pow1p_ge1 feps m (Rlt_le _ _ Hu)) as HQ.
      pose proof (RsumN_abs_nonneg (fun k => FR (p k)) m) as HA.
      set (Q := (1 + feps) ^ m) in *.
      set (A := RsumN (fun k => Rabs (FR (p k))) m) in *.
      set (S0 := RsumN (fun k => FR (p k)) m) in *.
      assert (Hs : Rabs (FR (fsumN p m)) <= Q * A).
      { replace (FR (fsumN p m)) with ((FR (fsumN p m) - S0) + S0) by ring.
        eapply Rle_trans; [apply Rabs_triang|]. lra. }
      rewrite fsumN_S. unfold ffin. rewrite add_equiv.
      apply Badd_round_finite; [apply Hpre; lia | apply Hp; lia |].
      destruct (rnd64_plus_rel (Prim2B (fsumN p m)) (Prim2B (p m))) as [d [Hd ->]].
      fold (FR (fsumN p m)) (FR (p m)).
      eapply Rle_lt_trans; [|exact Hb]. eapply Rle_trans; [|exact Hmono].
      rewrite Rabs_mult.
      assert (H1 : Rabs (1 + d) <= 1 + feps).
      { eapply Rle_trans; [apply Rabs_triang|]. rewrite Rabs_R1. lra. }
      pose proof (Rabs_pos (FR (p m))) as HX.
      assert (H2 : Rabs (FR (fsumN p m) + FR (p m)) <= Q * A + Rabs (FR (p m))).
      { eapply Rle_trans; [apply Rabs_triang|]. lra. }
      assert (H3 : Rabs (FR (fsumN p m) + FR (p m)) * Rabs (1 + d)
                   <= (Q * A + Rabs (FR (p m))) * (1 + feps)).
      { apply Rmult_le_compat; try apply Rabs_pos; assumption. }
      assert (H4 : 0 <= (Q - 1) * Rabs (FR (p m)) * (1 + feps)).
      { apply Rmult_le_pos; [apply Rmult_le_pos|]; lra. }
      nra. }
  intros m Hm. apply (G n (le_n n) m Hm).
Qed.

Lemma RsumN_term_le (f : nat -> R) (n k : nat) : (k < n)%nat ->
  Rabs (f k) <= RsumN (fun i => Rabs (f i)) n.
Proof.
  induction n as [|n IH]; intros Hk; [lia|].
  rewrite RsumN_S. pose proof (RsumN_abs_nonneg f n) as HA. pose proof (Rabs_pos (f n)) as Hn.
  destruct (Nat.eq_dec k n) as [->|Hne]; [lra|].
  assert (Rabs (f k) <= RsumN (fun i => Rabs (f i)) n) by (apply IH; lia). lra.
Qed.

Lemma facc_no_overflow (x y : nat -> pfloat) (n : nat) :
  (forall k, (k < n)%nat -> ffin (x k) /\ ffin (y k)) ->
  (1 + feps) ^ n * ((1 + feps) * RsumN (fun k => Rabs (FR (x k) * FR (y k))) n + INR n * feta)
    < bpow radix2 1024 ->
  (forall k, (k < n)%nat -> ffin (PrimFloat.mul (x k) (y k))) /\
  (forall m, (m <= n)%nat -> ffin (facc x y m)).
Proof.
  intros Hf Hb.
  pose proof feps_pos as Hu.
  assert (Heta : 0 < feta) by apply bpow_gt_0.
  pose proof (pow1p_ge1 feps n (Rlt_le _ _ Hu)) as HQ.
  set (t := fun k => FR (x k) * FR (y k)) in *.
  change (RsumN (fun k => Rabs (FR (x k) * FR (y k))) n) with (RsumN (fun k => Rabs (t k)) n) in Hb.
  pose proof (RsumN_abs_nonneg t n) as HA.
  set (Q := (1 + feps) ^ n) in *. set (A := RsumN (fun k => Rabs (t k)) n) in *.
  assert (HN : 0 <= INR n) by apply pos_INR.
  assert (HX : 0 <= (1 + feps) * A + INR n * feta).
  { apply Rplus_le_le_0_compat; apply Rmult_le_pos; lra. }
  assert (Hprod : forall k, (k < n)%nat -> ffin (PrimFloat.mul (x k) (y k))).
  { intros k Hk. apply mul_finite_iff. destruct (Hf k Hk) as [F1 F2].
    split; [exact F1|]. split; [exact F2|].
    eapply Rle_lt_trans; [apply rnd64_abs_le|]. fold (t k).
    pose proof (RsumN_term_le t n k Hk) as Hle. fold A in Hle.
    assert (1 <= INR n). { change 1 with (INR 1). apply le_INR. lia. }
    assert ((1 + feps) * Rabs (t k) + feta <= (1 + feps) * A + INR n * feta) by nra.
    assert ((1 + feps) * A + INR n * feta <= Q * ((1 + feps) * A + INR n * feta)) by nra.
    lra. }
  split; [exact Hprod|].
  intros m Hm. rewrite facc_fsumN. apply (fsumN_no_overflow _ n Hprod); [|exact Hm].
  destruct (RsumN_perturb (fun k => FR (PrimFloat.mul (x k) (y k))) t feps feta n) as [_ E3].
  { intros k Hk. apply mul_finite_err, Hprod, Hk. }
  fold A in E3. eapply Rle_lt_trans; [|exact Hb].
  apply Rmult_le_compat_l; lra.
Qed.

(* ======================================================================================== *)
(* Part C — the model's [dot] at T := float.  Statements written with Flocq's vocabulary only. *)

Lemma one_term_bound (t v : R) :
  Rabs (v - t) <= feps * Rabs t + feta ->
  Rabs (v - RsumN (fun _ => t) 1) <=
    ((1 + feps) ^ 2 - 1) * RsumN (fun _ => Rabs t) 1 + INR 1 * (1 + feps) ^ 1 * feta.
Proof.
  intros H. unfold RsumN. cbn [seq map]. rewrite !Rsum_cons. unfold Rsum; cbn [fold_right INR pow].
  rewrite !Rplus_0_r, !Rmult_1_r.
  pose proof feps_pos as Hu. assert (Heta : 0 < feta) by apply bpow_gt_0.
  pose proof (Rabs_pos t) as Ht.
  assert (0 <= feps * feta) by (apply Rmult_le_pos; lra).
  assert (0 <= (feps + feps * feps) * Rabs t).
  { apply Rmult_le_pos; [|lra]. assert (0 <= feps * feps) by (apply Rmult_le_pos; lra). lra. }
  nra.
Qed.

Theorem dot_float_error : forall a b : arr PrimFloat.float,
  Inv a -> Inv b -> width a = height b ->
  (forall i j k, (i < height a)%nat -> (j < width b)%nat -> (k < width a)%nat ->
     is_finite (Prim2B (PrimFloat.mul (get n0 a i k) (get n0 b k j))) = true) ->
  (forall i j m, (i < height a)%nat -> (j < width b)%nat -> (m <= width a)%nat ->
     is_finite (Prim2B (dot_partial a b i j m)) = true) ->
  exists c, dot a b = Ok c /\ Inv c /\ height c = height a /\ width c = width b /\
    forall i j, (i < height a)%nat -> (j < width b)%nat ->
      is_finite (Prim2B (get n0 c i j)) = true /\
      Rabs (B2R (Prim2B (get n0 c i j))
            - Rsum (map (fun k => B2R (Prim2B (get n0 a i k)) * B2R (Prim2B (get n0 b k j))) (seq 0 (width a))))
      <= ((1 + bpow radix2 (-53)) ^ S (width a) - 1)
           * Rsum (map (fun k => Rabs (B2R (Prim2B (get n0 a i k)) * B2R (Prim2B (get n0 b k j)))) (seq 0 (width a)))
         + INR (width a) * (1 + bpow radix2 (-53)) ^ width a * bpow radix2 (-1075).
Proof.
  intros a b Ia Ib Hc Hprod Hpart.
  destruct (dot_fl_conforming a b Ia Ib Hc) as [c [E [Ic [Hh [Hw G]]]]].
  exists c. split; [exact E|]. split; [exact Ic|]. split; [exact Hh|]. split; [exact Hw|].
  intros i j Hi Hj. rewrite (G i j Hi Hj). unfold dot_entry_fl.
  fold feps feta.
  change (Rsum (map (fun k => B2R (Prim2B (get n0 a i k)) * B2R (Prim2B (get n0 b k j))) (seq 0 (width a))))
    with (RsumN (fun k => FR (get n0 a i k) * FR (get n0 b k j)) (width a)).
  change (Rsum (map (fun k => Rabs (B2R (Prim2B (get n0 a i k)) * B2R (Prim2B (get n0 b k j)))) (seq 0 (width a))))
    with (RsumN (fun k => Rabs (FR (get n0 a i k) * FR (get n0 b k j))) (width a)).
  destruct (is_1x1 a) eqn:Ea; [|destruct (is_1x1 b) eqn:Eb].
  - (* a is 1x1: one product *)
    apply is_1x1_true in Ea. destruct Ea as [Ha1 Ha2].
    assert (i = 0)%nat by lia. subst i.
    assert (F : ffin (PrimFloat.mul (get n0 a 0 0) (get n0 b 0 j))).
    { apply (Hprod 0 j 0)%nat; lia. }
    split; [exact F|]. rewrite Ha2.
    apply (one_term_bound (FR (get n0 a 0 0) * FR (get n0 b 0 j))).
    apply mul_finite_err, F.
  - (* b is 1x1 (and a is a column): one product, scalar first *)
    apply is_1x1_true in Eb. destruct Eb as [Hb1 Hb2].
    assert (j = 0)%nat by lia. subst j.
    assert (Hwa : width a = 1%nat) by lia.
    assert (F : ffin (PrimFloat.mul (get n0 b 0 0) (get n0 a i 0))).
    { apply mul_finite_comm. apply (Hprod i 0 0)%nat; lia. }
    split; [exact F|]. rewrite Hwa.
    apply (one_term_bound (FR (get n0 a i 0) * FR (get n0 b 0 0))).
    rewrite (Rmult_comm (FR (get n0 a i 0))). apply mul_finite_err, F.
  - (* the accumulation loop *)
    split; [apply Hpart; auto|].
    apply (facc_float_error (fun k => get n0 a i k) (fun k => get n0 b k j) (width a)).
    + intros k Hk. apply Hprod; assumption.
    + intros m Hm. apply Hpart; assumption.
Qed.

(* the hypotheses of [dot_float_error] for entry (i,j) from finite operands and a bound on the data *)
Theorem dot_float_no_overflow : forall (a b : arr PrimFloat.float) (i j : nat),
  (forall k, (k < width a)%nat ->
     is_finite (Prim2B (get n0 a i k)) = true /\ is_finite (Prim2B (get n0 b k j)) = true) ->
  (1 + bpow radix2 (-53)) ^ width a
    * ((1 + bpow radix2 (-53))
         * Rsum (map (fun k => Rabs (B2R (Prim2B (get n0 a i k)) * B2R (Prim2B (get n0 b k j)))) (seq 0 (width a)))
       + INR (width a) * bpow radix2 (-1075))
    < bpow radix2 1024 ->
  (forall k, (k < width a)%nat ->
     is_finite (Prim2B (PrimFloat.mul (get n0 a i k) (get n0 b k j))) = true) /\
  (forall m, (m <= width a)%nat -> is_finite (Prim2B (dot_partial a b i j m)) = true).
Proof.
  intros a b i j Hf Hb.
  exact (facc_no_overflow (fun k => get n0 a i k) (fun k => get n0 b k j) (width a) Hf Hb).
Qed.

(* ---- non-vacuity: a 2x2 product, checked by computation -------------------------------- *)
(* [[1.5, 0.1], [-3, 2]] . [[0.2, 4], [5, 0.3]]  (nearest binary64 values) *)
Definition ex_a : arr PrimFloat.float :=
  mkArr [0x1.8p+0%float; 0x1.999999999999ap-4%float; (-0x1.8p+1)%float; 0x1p+1%float] 2 2.
Definition ex_b : arr PrimFloat.float :=
  mkArr [0x1.999999999999ap-3%float; 0x1p+2%float; 0x1.4p+2%float; 0x1.3333333333333p-2%float] 2 2.

Example ex_dot_hyps :
  Inv ex_a /\ Inv ex_b /\ width ex_a = height ex_b /\
  (forall i j k, (i < height ex_a)%nat -> (j < width ex_b)%nat -> (k < width ex_a)%nat ->
     is_finite (Prim2B (PrimFloat.mul (get n0 ex_a i k) (get n0 ex_b k j))) = true) /\
  (forall i j m, (i < height ex_a)%nat -> (j < width ex_b)%nat -> (m <= width ex_a)%nat ->
     is_finite (Prim2B (dot_partial ex_a ex_b i j m)) = true).
Proof.
  split; [reflexivity|]. split; [reflexivity|]. split; [reflexivity|]. split.
  - intros i j k Hi Hj Hk. cbn [height width ex_a ex_b] in Hi, Hj, Hk.
    destruct i as [|[|i]]; try lia; destruct j as [|[|j]]; try lia; destruct k as [|[|k]]; try lia;
      rewrite <- is_finite_equiv; vm_compute; reflexivity.
  - intros i j m Hi Hj Hm. cbn [height width ex_a ex_b] in Hi, Hj, Hm.
    destruct i as [|[|i]]; try lia; destruct j as [|[|j]]; try lia; destruct m as [|[|[|m]]]; try lia;
      rewrite <- is_finite_equiv; vm_compute; reflexivity.
Qed.

Example ex_dot_value : exists c, dot ex_a ex_b = Ok c /\ height c = 2%nat /\ width c = 2%nat /\
  is_finite (Prim2B (get n0 c 1 1)) = true.
Proof.
  destruct ex_dot_hyps as [Ia [Ib [Hc [Hp Hs]]]].
  destruct (dot_float_error ex_a ex_b Ia Ib Hc Hp Hs) as [c [E [_ [Hh [Hw G]]]]].
  exists c. split; [exact E|]. split; [exact Hh|]. split; [exact Hw|].
  apply (G 1 1)%nat; cbn; lia.
Qed.
