(* Proofs/PolyLemmas.v — facts about Model/Poly.v on the R instance that are
   shared by Proofs/Deriv.v (C03) and Proofs/Integ.v (C04): the dense
   polynomial as a sum, names as a total order, sorting and de-duplication,
   permutation invariance of term evaluation, and the derivative of
   t |-> Rpowf t p on its natural domain. *)
From Coq Require Import ZArith NArith List Bool Reals Lra Lia Permutation Sorted.
From Coquelicot Require Import Coquelicot.
From SV Require Import Base.Num Base.Outcome Model.Poly.
Import ListNotations.
Local Open Scope R_scope.

(* ------------------------------------------------------------------------ *)
(** * Dense polynomials *)

Lemma nofnat_INR (n : nat) : @nofnat R RNum n = INR n.
Proof. unfold nofnat. cbn [nofZ RNum]. symmetry. apply INR_IZR_INZ. Qed.

Lemma fold_left_Rplus_acc (l : list R) : forall a, fold_left Rplus l a = a + fold_right Rplus 0 l.
Proof.
  induction l as [|y l IH]; intro a; cbn [fold_left fold_right].
  - ring.
  - rewrite IH. ring.
Qed.

(* sum_{k} c_k x^(i+k) *)
Fixpoint psum (x : R) (i : nat) (cs : list R) : R :=
  match cs with
  | [] => 0
  | c :: cs' => c * x ^ i + psum x (S i) cs'
  end.

Lemma eval_terms_psum (x : R) cs : forall i,
  fold_right Rplus 0 (eval_terms_from x i cs) = psum x i cs.
Proof.
  induction cs as [|c cs IH]; intro i; cbn [eval_terms_from fold_right psum].
  - reflexivity.
  - rewrite IH, npowi_R_nat. reflexivity.
Qed.

Lemma eval_simple_psum (p : spoly R) (x : R) : eval_simple p x = psum x 0 (s_coefs p).
Proof.
  unfold eval_simple. cbn [nadd nsum0 RNum].
  rewrite fold_left_Rplus_acc, eval_terms_psum. ring.
Qed.

Lemma psum_derive (cs : list R) : forall (j : nat) (x : R),
  is_derive (fun t => psum t (S j) cs) x (psum x j (deriv_coefs_from (S j) cs)).
Proof.
  induction cs as [|c cs IH]; intros j x; cbn [psum deriv_coefs_from].
  - apply @is_derive_const.
  - apply @is_derive_plus.
    + rewrite nofnat_INR. cbn [nmul RNum].
      rewrite Rmult_assoc. apply is_derive_scal.
      apply is_derive_Reals.
      exact (derivable_pt_lim_pow x (S j)).
    + apply IH.
Qed.

Lemma simple_derive (p : spoly R) (x : R) :
  is_derive (eval_simple p) x (eval_simple (simple_derivative p) x).
Proof.
  apply is_derive_ext with (f := fun t => psum t 0 (s_coefs p)).
  { intro t. symmetry. apply eval_simple_psum. }
  rewrite eval_simple_psum. unfold simple_derivative. cbn [s_coefs].
  destruct (s_coefs p) as [|c cs]; cbn [psum].
  - apply @is_derive_const.
  - replace (psum x 0 (deriv_coefs_from 1 cs)) with (0 + psum x 0 (deriv_coefs_from 1 cs)) by ring.
    apply @is_derive_plus.
    + cbn [pow]. apply is_derive_ext with (f := fun _ : R => c * 1); [reflexivity|].
      apply @is_derive_const.
    + apply psum_derive.
Qed.

(* derivative of the integral is the polynomial itself, coefficient by coefficient *)
Lemma deriv_integ_coefs (cs : list R) : forall i,
  deriv_coefs_from (S i) (integ_coefs_from i cs) = cs.
Proof.
  induction cs as [|c cs IH]; intro i; cbn [integ_coefs_from deriv_coefs_from].
  - reflexivity.
  - rewrite IH. f_equal. rewrite !nofnat_INR. cbn [nmul ndiv nadd n1 RNum].
    rewrite S_INR. field.
    pose proof (pos_INR i). lra.
Qed.

Lemma simple_derivative_integral (p : spoly R) : simple_derivative (simple_integral p) = p.
Proof.
  destruct p as [cs v]. unfold simple_derivative, simple_integral. cbn [s_coefs s_var].
  rewrite deriv_integ_coefs. reflexivity.
Qed.

Lemma simple_continuous (p : spoly R) (x : R) : continuous (eval_simple p) x.
Proof.
  apply @ex_derive_continuous. eexists. apply simple_derive.
Qed.
