(* Proofs/PolyLemmas.v — facts about Model/Poly.v on the R instance that are
   shared by Proofs/Deriv.v (C03) and Proofs/Integ.v (C04): the dense
   polynomial as a sum, names as a total order, sorting and de-duplication,
   permutation invariance of term evaluation, and the derivative of
   t |-> Rpowf t p on its natural domain. *)
From Coq Require Import ZArith NArith List Bool Reals Lra Lia Permutation Sorted.
From Coquelicot Require Import Coquelicot.
From SV Require Import Base.Num Base.Outcome Model.Poly.
Import ListNotations.
Local Open Scope R_scope.

(* ------------------------------------------------------------------------ *)
(** * Dense polynomials *)

Lemma nofnat_INR (n : nat) : @nofnat R RNum n = INR n.
Proof. unfold nofnat. cbn [nofZ RNum]. symmetry. apply INR_IZR_INZ. Qed.

Lemma fold_left_Rplus_acc (l : list R) : forall a, fold_left Rplus l a = a + fold_right Rplus 0 l.
Proof.
  induction l as [|y l IH]; intro a; cbn [fold_left fold_right].
  - ring.
  - rewrite IH. ring.
Qed.

(* sum_{k} c_k x^(i+k) *)
Fixpoint psum (x : R) (i : nat) (cs : list R) : R :=
  match cs with
  | [] => 0
  | c :: cs' => c * x ^ i + psum x (S i) cs'
  end.

Lemma eval_terms_psum (x : R) cs : forall i,
  fold_right Rplus 0 (eval_terms_from x i cs) = psum x i cs.
Proof.
  induction cs as [|c cs IH]; intro i; cbn [eval_terms_from fold_right psum].
  - reflexivity.
  - rewrite IH, npowi_R_nat. reflexivity.
Qed.

Lemma eval_simple_psum (p : spoly R) (x : R) : eval_simple p x = psum x 0 (s_coefs p).
Proof.
  unfold eval_simple. cbn [nadd nsum0 RNum].
  rewrite fold_left_Rplus_acc, eval_terms_psum. ring.
Qed.

Lemma psum_derive (cs : list R) : forall (j : nat) (x : R),
  is_derive (fun t => psum t (S j) cs) x (psum x j (deriv_coefs_from (S j) cs)).
Proof.
  induction cs as [|c cs IH]; intros j x; cbn [psum deriv_coefs_from].
  - apply @is_derive_const.
  - apply @is_derive_plus.
    + rewrite nofnat_INR. cbn [nmul RNum].
      rewrite Rmult_assoc. apply is_derive_scal.
      apply is_derive_Reals.
      exact (derivable_pt_lim_pow x (S j)).
    + apply IH.
Qed.

Lemma simple_derive (p : spoly R) (x : R) :
  is_derive (eval_simple p) x (eval_simple (simple_derivative p) x).
Proof.
  apply is_derive_ext with (f := fun t => psum t 0 (s_coefs p)).
  { intro t. symmetry. apply eval_simple_psum. }
  rewrite eval_simple_psum. unfold simple_derivative. cbn [s_coefs].
  destruct (s_coefs p) as [|c cs]; cbn [psum].
  - apply @is_derive_const.
  - replace (psum x 0 (deriv_coefs_from 1 cs)) with (0 + psum x 0 (deriv_coefs_from 1 cs)) by ring.
    apply @is_derive_plus.
    + cbn [pow]. apply is_derive_ext with (f := fun _ : R => c * 1); [reflexivity|].
      apply @is_derive_const.
    + apply psum_derive.
Qed.

(* derivative of the integral is the polynomial itself, coefficient by coefficient *)
Lemma deriv_integ_coefs (cs : list R) : forall i,
  deriv_coefs_from (S i) (integ_coefs_from i cs) = cs.
Proof.
  induction cs as [|c cs IH]; intro i; cbn [integ_coefs_from deriv_coefs_from].
  - reflexivity.
  - rewrite IH. f_equal. rewrite !nofnat_INR. cbn [nmul ndiv nadd n1 RNum].
    rewrite S_INR. field.
    pose proof (pos_INR i). lra.
Qed.

Lemma simple_derivative_integral (p : spoly R) : simple_derivative (simple_integral p) = p.
Proof.
  destruct p as [cs v]. unfold simple_derivative, simple_integral. cbn [s_coefs s_var].
  rewrite deriv_integ_coefs. reflexivity.
Qed.

Lemma simple_continuous (p : spoly R) (x : R) : continuous (eval_simple p) x.
Proof.
  apply @ex_derive_continuous. eexists. apply simple_derive.
Qed.

(* ------------------------------------------------------------------------ *)
(** * Names: equality test and the (total) lexicographic order *)

Lemma name_eqb_eq (a b : name) : name_eqb a b = true <-> a = b.
Proof.
  revert b; induction a as [|x a IH]; intros [|y b]; cbn [name_eqb]; split; intro H;
    try reflexivity; try discriminate.
  - apply andb_true_iff in H. destruct H as [H1 H2].
    apply N.eqb_eq in H1. apply IH in H2. subst. reflexivity.
  - injection H as -> ->. apply andb_true_iff. split; [apply N.eqb_refl|apply IH; reflexivity].
Qed.

Lemma name_eqb_refl (a : name) : name_eqb a a = true.
Proof. apply name_eqb_eq. reflexivity. Qed.

Lemma name_eqb_neq (a b : name) : name_eqb a b = false <-> a <> b.
Proof.
  split.
  - intros H E. apply name_eqb_eq in E. congruence.
  - intro H. destruct (name_eqb a b) eqn:E; [|reflexivity]. apply name_eqb_eq in E. contradiction.
Qed.

Lemma name_leb_refl (a : name) : name_leb a a = true.
Proof.
  induction a as [|x a IH]; cbn [name_leb]; [reflexivity|].
  rewrite N.ltb_irrefl. exact IH.
Qed.

Lemma name_leb_total (a b : name) : name_leb a b = false -> name_leb b a = true.
Proof.
  revert b; induction a as [|x a IH]; intros [|y b]; cbn [name_leb]; intro H;
    try reflexivity; try discriminate.
  destruct (N.ltb x y) eqn:Exy; [discriminate|].
  destruct (N.ltb y x) eqn:Eyx; [reflexivity|].
  apply IH. exact H.
Qed.

Lemma name_leb_antisym (a b : name) : name_leb a b = true -> name_leb b a = true -> a = b.
Proof.
  revert b; induction a as [|x a IH]; intros [|y b]; cbn [name_leb]; intros H1 H2;
    try reflexivity; try discriminate.
  destruct (N.ltb x y) eqn:Exy; destruct (N.ltb y x) eqn:Eyx; try discriminate.
  - apply N.ltb_lt in Exy. apply N.ltb_lt in Eyx. lia.
  - apply N.ltb_ge in Exy. apply N.ltb_ge in Eyx.
    assert (x = y) by lia. subst. f_equal. apply IH; assumption.
Qed.

Lemma name_leb_trans (a b c : name) :
  name_leb a b = true -> name_leb b c = true -> name_leb a c = true.
Proof.
  revert b c; induction a as [|x a IH]; intros [|y b] [|z c]; cbn [name_leb]; intros H1 H2;
    try reflexivity; try discriminate.
  destruct (N.ltb x y) eqn:Exy.
  - apply N.ltb_lt in Exy.
    destruct (N.ltb y z) eqn:Eyz.
    + apply N.ltb_lt in Eyz. assert (E : N.ltb x z = true) by (apply N.ltb_lt; lia).
      rewrite E. reflexivity.
    + destruct (N.ltb z y) eqn:Ezy; [discriminate|].
      apply N.ltb_ge in Eyz. apply N.ltb_ge in Ezy.
      assert (E : N.ltb x z = true) by (apply N.ltb_lt; lia). rewrite E. reflexivity.
  - destruct (N.ltb y x) eqn:Eyx; [discriminate|].
    apply N.ltb_ge in Exy. apply N.ltb_ge in Eyx. assert (x = y) by lia. subst y.
    destruct (N.ltb x z) eqn:Exz; [reflexivity|].
    destruct (N.ltb z x) eqn:Ezx; [discriminate|].
    eapply IH; eassumption.
Qed.

Definition name_le (a b : name) : Prop := name_leb a b = true.
Definition name_lt (a b : name) : Prop := name_leb b a = false.

Lemma name_lt_le (a b : name) : name_lt a b -> name_le a b.
Proof. apply name_leb_total. Qed.

Lemma name_lt_irrefl (a : name) : ~ name_lt a a.
Proof. unfold name_lt. rewrite name_leb_refl. discriminate. Qed.

Lemma name_le_neq_lt (a b : name) : name_le a b -> a <> b -> name_lt a b.
Proof.
  unfold name_le, name_lt. intros H N.
  destruct (name_leb b a) eqn:E; [|reflexivity].
  exfalso. apply N. apply name_leb_antisym; assumption.
Qed.

Lemma name_lt_trans (a b c : name) : name_lt a b -> name_lt b c -> name_lt a c.
Proof.
  intros H1 H2. apply name_le_neq_lt.
  - eapply name_leb_trans; apply name_lt_le; eassumption.
  - intro E. subst c.
    assert (b = a) by (apply name_leb_antisym; apply name_lt_le; assumption).
    subst b. exact (name_lt_irrefl a H1).
Qed.

#[export] Instance name_lt_Transitive : RelationClasses.Transitive name_lt.
Proof. intros a b c. apply name_lt_trans. Qed.

(* ------------------------------------------------------------------------ *)
(** * Sorting and de-duplication *)

Lemma insert_name_perm (x : name) (l : list name) : Permutation (insert_name x l) (x :: l).
Proof.
  induction l as [|y l IH]; cbn [insert_name]; [apply Permutation_refl|].
  destruct (name_leb y x).
  - eapply Permutation_trans; [apply perm_skip; exact IH|apply perm_swap].
  - apply Permutation_refl.
Qed.

Lemma sort_names_perm_acc (l : list name) : forall acc,
  Permutation (fold_left (fun a x => insert_name x a) l acc) (l ++ acc).
Proof.
  induction l as [|x l IH]; intro acc; cbn [fold_left app]; [apply Permutation_refl|].
  eapply Permutation_trans; [apply IH|].
  eapply Permutation_trans; [apply Permutation_app_head; apply insert_name_perm|].
  apply Permutation_sym. apply Permutation_middle.
Qed.

Lemma sort_names_perm (l : list name) : Permutation (sort_names l) l.
Proof.
  unfold sort_names. eapply Permutation_trans; [apply sort_names_perm_acc|].
  rewrite app_nil_r. apply Permutation_refl.
Qed.

Lemma insert_name_sorted (x : name) (l : list name) :
  Sorted name_le l -> Sorted name_le (insert_name x l).
Proof.
  induction l as [|y l IH]; intro H; cbn [insert_name].
  - repeat constructor.
  - destruct (name_leb y x) eqn:E.
    + inversion H as [|? ? Hs Hh]; subst. constructor; [apply IH; exact Hs|].
      destruct l as [|z l]; cbn [insert_name].
      * constructor. exact E.
      * destruct (name_leb z x); constructor; [|exact E].
        inversion Hh; subst. assumption.
    + constructor; [exact H|]. constructor. apply name_leb_total. exact E.
Qed.

Lemma sort_names_sorted_acc (l : list name) : forall acc,
  Sorted name_le acc -> Sorted name_le (fold_left (fun a x => insert_name x a) l acc).
Proof.
  induction l as [|x l IH]; intros acc H; cbn [fold_left]; [exact H|].
  apply IH. apply insert_name_sorted. exact H.
Qed.

Lemma sort_names_sorted (l : list name) : Sorted name_le (sort_names l).
Proof. apply sort_names_sorted_acc. constructor. Qed.

Lemma sorted_le_nodup_lt (l : list name) : Sorted name_le l -> NoDup l -> Sorted name_lt l.
Proof.
  induction l as [|x l IH]; intros Hs Hn; [constructor|].
  inversion Hs as [|? ? Hs' Hh]; subst. inversion Hn as [|? ? Hx Hn']; subst.
  constructor; [apply IH; assumption|].
  destruct l as [|y l]; constructor.
  inversion Hh; subst. apply name_le_neq_lt; [assumption|].
  intro E; subst. apply Hx. left. reflexivity.
Qed.

Lemma sorted_lt_nodup (l : list name) : Sorted name_lt l -> NoDup l.
Proof.
  intro H. apply Sorted_StronglySorted in H; [|exact name_lt_Transitive].
  induction H as [|x l Hs IH Hf]; constructor; [|exact IH].
  intro Hin. rewrite Forall_forall in Hf. exact (name_lt_irrefl x (Hf x Hin)).
Qed.

Lemma sort_names_nodup_sorted (l : list name) : NoDup l -> Sorted name_lt (sort_names l).
Proof.
  intro H. apply sorted_le_nodup_lt; [apply sort_names_sorted|].
  eapply Permutation_NoDup; [apply Permutation_sym; apply sort_names_perm|exact H].
Qed.

Lemma sort_names_in (l : list name) (x : name) : In x (sort_names l) <-> In x l.
Proof.
  split; apply Permutation_in; [apply sort_names_perm|apply Permutation_sym; apply sort_names_perm].
Qed.

Lemma dedup_sorted_head (l : list name) : forall y, exists t, dedup_sorted (y :: l) = y :: t.
Proof.
  induction l as [|z l IH]; intro y.
  - exists []. reflexivity.
  - cbn [dedup_sorted]. destruct (name_eqb y z) eqn:E.
    + apply name_eqb_eq in E. subst z. apply IH.
    + eexists. reflexivity.
Qed.

Lemma dedup_sorted_in (l : list name) (x : name) : In x (dedup_sorted l) <-> In x l.
Proof.
  induction l as [|y l IH]; [reflexivity|].
  destruct l as [|z l]; [reflexivity|].
  change (dedup_sorted (y :: z :: l)) with
    (if name_eqb y z then dedup_sorted (z :: l) else y :: dedup_sorted (z :: l)).
  destruct (name_eqb y z) eqn:E.
  - apply name_eqb_eq in E. subst z. rewrite IH. cbn [In]. tauto.
  - cbn [In] in *. rewrite IH. tauto.
Qed.

Lemma dedup_sorted_sorted (l : list name) : Sorted name_le l -> Sorted name_lt (dedup_sorted l).
Proof.
  induction l as [|y l IH]; intro H; [constructor|].
  destruct l as [|z l]; [repeat constructor|].
  change (dedup_sorted (y :: z :: l)) with
    (if name_eqb y z then dedup_sorted (z :: l) else y :: dedup_sorted (z :: l)).
  inversion H as [|? ? Hs Hh]; subst. inversion Hh; subst.
  destruct (name_eqb y z) eqn:E; [apply IH; exact Hs|].
  constructor; [apply IH; exact Hs|].
  destruct (dedup_sorted_head l z) as [t ->]. constructor.
  apply name_le_neq_lt; [assumption|]. apply name_eqb_neq. exact E.
Qed.

(* keys of a term's variable list *)
Definition keys (vs : list (name * R)) : list name := map fst vs.

Lemma keys_app (a b : list (name * R)) : keys (a ++ b) = keys a ++ keys b.
Proof. apply map_app. Qed.

Lemma keys_insert_var (x : name * R) (l : list (name * R)) :
  keys (insert_var x l) = insert_name (fst x) (keys l).
Proof.
  induction l as [|y l IH]; cbn [insert_var insert_name keys map]; [reflexivity|].
  destruct (name_leb (fst y) (fst x)); cbn [map]; [|reflexivity].
  f_equal. exact IH.
Qed.

Lemma keys_sort_vars_acc (l : list (name * R)) : forall acc,
  keys (fold_left (fun a x => insert_var x a) l acc)
  = fold_left (fun a x => insert_name x a) (keys l) (keys acc).
Proof.
  induction l as [|x l IH]; intro acc; cbn [fold_left keys map]; [reflexivity|].
  rewrite IH, keys_insert_var. reflexivity.
Qed.

Lemma keys_sort_vars (l : list (name * R)) : keys (sort_vars l) = sort_names (keys l).
Proof. unfold sort_vars, sort_names. rewrite keys_sort_vars_acc. reflexivity. Qed.

Lemma insert_var_perm (x : name * R) (l : list (name * R)) : Permutation (insert_var x l) (x :: l).
Proof.
  induction l as [|y l IH]; cbn [insert_var]; [apply Permutation_refl|].
  destruct (name_leb (fst y) (fst x)).
  - eapply Permutation_trans; [apply perm_skip; exact IH|apply perm_swap].
  - apply Permutation_refl.
Qed.

Lemma sort_vars_perm_acc (l : list (name * R)) : forall acc,
  Permutation (fold_left (fun a x => insert_var x a) l acc) (l ++ acc).
Proof.
  induction l as [|x l IH]; intro acc; cbn [fold_left app]; [apply Permutation_refl|].
  eapply Permutation_trans; [apply IH|].
  eapply Permutation_trans; [apply Permutation_app_head; apply insert_var_perm|].
  apply Permutation_sym. apply Permutation_middle.
Qed.

Lemma sort_vars_perm (l : list (name * R)) : Permutation (sort_vars l) l.
Proof.
  unfold sort_vars. eapply Permutation_trans; [apply sort_vars_perm_acc|].
  rewrite app_nil_r. apply Permutation_refl.
Qed.

Lemma sort_vars_sorted (l : list (name * R)) : NoDup (keys l) -> Sorted name_lt (keys (sort_vars l)).
Proof. intro H. rewrite keys_sort_vars. apply sort_names_nodup_sorted. exact H. Qed.

(* ------------------------------------------------------------------------ *)
(** * Rpowf: the real power on its natural domain, and its derivative *)
Lemma Int_part_IZR (n : Z) : Int_part (IZR n) = n.
Proof.
  unfold Int_part.
  assert (H : (n + 1)%Z = up (IZR n)).
  { apply tech_up; rewrite plus_IZR; lra. }
  rewrite <- H. lia.
Qed.

Definition is_intR (p : R) : Prop := p = IZR (Int_part p).

Lemma is_intR_IZR n : is_intR (IZR n).
Proof. unfold is_intR. rewrite Int_part_IZR. reflexivity. Qed.

Lemma Rpowf_int (t : R) (n : Z) : Rpowf t (IZR n) = powerRZ t n.
Proof.
  unfold Rpowf. rewrite Int_part_IZR.
  destruct (Req_EM_T (IZR n) (IZR n)) as [_|N]; [reflexivity|contradiction N; reflexivity].
Qed.

Lemma Rpowf_nonint (t p : R) : ~ is_intR p -> 0 < t -> Rpowf t p = Rpower t p.
Proof.
  intros Hp Ht. unfold Rpowf.
  destruct (Req_EM_T p (IZR (Int_part p))) as [E|_]; [contradiction|].
  destruct (Rlt_dec 0 t) as [_|N]; [reflexivity|contradiction].
Qed.

Lemma Rpowf_0 (t : R) : Rpowf t 0 = 1.
Proof. exact (Rpowf_int t 0). Qed.

Lemma Rpowf_1 (t : R) : Rpowf t 1 = t.
Proof. rewrite (Rpowf_int t 1). exact (powerRZ_1 t). Qed.

Lemma powerRZ_derive_pos (q : positive) (x : R) :
  is_derive (fun t => powerRZ t (Zpos q)) x (IZR (Zpos q) * powerRZ x (Zpos q - 1)).
Proof.
  destruct (Pos2Nat.is_succ q) as [k Hk].
  replace (Zpos q - 1)%Z with (Z.of_nat k) by lia.
  rewrite <- pow_powerRZ.
  replace (IZR (Zpos q)) with (INR (S k)) by (rewrite INR_IZR_INZ; f_equal; lia).
  apply is_derive_ext with (f := fun t => t ^ S k).
  { intro t. cbn [powerRZ]. rewrite Hk. reflexivity. }
  apply is_derive_Reals. exact (derivable_pt_lim_pow x (S k)).
Qed.

Lemma powerRZ_derive_neg (q : positive) (x : R) : x <> 0 ->
  is_derive (fun t => powerRZ t (Zneg q)) x (IZR (Zneg q) * powerRZ x (Zneg q - 1)).
Proof.
  intro Hx.
  destruct (Pos2Nat.is_succ q) as [k Hk].
  replace (Zneg q - 1)%Z with (Zneg (q + 1)) by lia.
  cbn [powerRZ]. rewrite Pos2Nat.inj_add, Hk. change (Pos.to_nat 1) with 1%nat.
  replace (IZR (Zneg q)) with (- INR (S k)).
  2:{ rewrite INR_IZR_INZ, <- opp_IZR. f_equal. lia. }
  apply is_derive_ext with (f := fun t => / t ^ S k).
  { intro t. reflexivity. }
  assert (Hp : x ^ S k <> 0) by (apply pow_nonzero; exact Hx).
  assert (Hk0 : x ^ k <> 0) by (apply pow_nonzero; exact Hx).
  replace (- INR (S k) * / x ^ (S k + 1)) with (- (INR (S k) * x ^ k) / (x ^ S k) ^ 2).
  2:{ replace (S k + 1)%nat with (S (S k)) by lia. rewrite <- !tech_pow_Rmult. field. split; assumption. }
  apply is_derive_inv; [|exact Hp].
  apply is_derive_Reals. exact (derivable_pt_lim_pow x (S k)).
Qed.

Definition dom_pow (p x : R) : Prop := (is_intR p /\ (0 <= p \/ x <> 0)) \/ 0 < x.

Lemma is_intR_minus1 (p : R) : is_intR (p - 1) -> is_intR p.
Proof.
  unfold is_intR. intro H.
  assert (E : p = IZR (Int_part (p - 1) + 1)) by (rewrite plus_IZR; lra).
  rewrite E at 2. rewrite Int_part_IZR. exact E.
Qed.

Lemma Rpowf_derive (p x : R) : p <> 0 -> dom_pow p x ->
  is_derive (fun t => Rpowf t p) x (p * Rpowf x (p - 1)).
Proof.
  intros Hp0 Hd.
  destruct (Req_EM_T p (IZR (Int_part p))) as [E|NE].
  - (* integral exponent *)
    set (n := Int_part p) in *.
    assert (Hx : (0 <= n)%Z \/ x <> 0).
    { destruct Hd as [[_ [H|H]]|H].
      - left. apply le_IZR. rewrite <- E. exact H.
      - right. exact H.
      - right. lra. }
    rewrite E. replace (IZR n - 1) with (IZR (n - 1)) by (rewrite minus_IZR; reflexivity).
    rewrite Rpowf_int.
    apply is_derive_ext with (f := fun t => powerRZ t n).
    { intro t. symmetry. apply Rpowf_int. }
    destruct n as [|q|q].
    + exfalso. apply Hp0. rewrite E. reflexivity.
    + apply powerRZ_derive_pos.
    + apply powerRZ_derive_neg. destruct Hx as [H|H]; [lia|exact H].
  - (* non-integral exponent: x > 0 *)
    assert (Hx : 0 < x).
    { destruct Hd as [[H _]|H]; [contradiction|exact H]. }
    assert (NE1 : ~ is_intR (p - 1)) by (intro H; apply NE; apply is_intR_minus1; exact H).
    rewrite (Rpowf_nonint x (p - 1) NE1 Hx).
    apply is_derive_ext_loc with (f := fun t => Rpower t p).
    + exists (mkposreal x Hx). intros t Ht.
      symmetry. apply Rpowf_nonint; [exact NE|].
      unfold ball in Ht; cbn in Ht. unfold AbsRing_ball, abs, minus, plus, opp in Ht; cbn in Ht.
      apply Rabs_def2 in Ht. lra.
    + apply is_derive_Reals. apply derivable_pt_lim_power. exact Hx.
Qed.

(* ------------------------------------------------------------------------ *)
(** * Environments and the value of a term list *)

Definition upd (e : env R) (v : name) (t : R) : env R := e ++ [(v, t)].

Lemma lookup_upd_same (e : env R) v t : lookup v (upd e v t) = Some t.
Proof.
  unfold upd. induction e as [|[k y] e IH]; cbn [app lookup].
  - rewrite name_eqb_refl. reflexivity.
  - rewrite IH. reflexivity.
Qed.

Lemma lookup_upd_other (e : env R) v t k : k <> v -> lookup k (upd e v t) = lookup k e.
Proof.
  intro H. unfold upd. induction e as [|[k' y] e IH]; cbn [app lookup].
  - assert (E : name_eqb v k = false) by (apply name_eqb_neq; congruence).
    rewrite E. reflexivity.
  - rewrite IH. reflexivity.
Qed.

Definition getv (k : name) (e : env R) : R := match lookup k e with Some y => y | None => 0 end.

Lemma getv_upd_same e v t : getv v (upd e v t) = t.
Proof. unfold getv. rewrite lookup_upd_same. reflexivity. Qed.

Lemma getv_upd_other e v t k : k <> v -> getv k (upd e v t) = getv k e.
Proof. intro H. unfold getv. rewrite lookup_upd_other by exact H. reflexivity. Qed.

Fixpoint vars_prod (vs : list (name * R)) (e : env R) : R :=
  match vs with
  | [] => 1
  | (k, p) :: vs' => Rpowf (getv k e) p * vars_prod vs' e
  end.

Definition vars_bound (vs : list (name * R)) (e : env R) : Prop :=
  forall k, In k (keys vs) -> lookup k e <> None.

Lemma eval_term_vars_ok (vs : list (name * R)) (e : env R) : forall acc,
  vars_bound vs e -> eval_term_vars acc vs e = Ok (acc * vars_prod vs e).
Proof.
  induction vs as [|[k p] vs IH]; intros acc Hb; cbn [eval_term_vars vars_prod].
  - f_equal. ring.
  - assert (Hk : lookup k e <> None) by (apply Hb; left; reflexivity).
    unfold getv. destruct (lookup k e) as [y|]; [|contradiction].
    rewrite IH.
    + cbn [nmul npowf RNum]. f_equal. ring.
    + intros k' Hk'. apply Hb. right. exact Hk'.
Qed.

Lemma vars_prod_app (a b : list (name * R)) e : vars_prod (a ++ b) e = vars_prod a e * vars_prod b e.
Proof.
  induction a as [|[k p] a IH]; cbn [app vars_prod]; [ring|]. rewrite IH. ring.
Qed.

Lemma vars_prod_perm (a b : list (name * R)) e : Permutation a b -> vars_prod a e = vars_prod b e.
Proof.
  induction 1 as [|[k p] a b _ IH|[k p] [k' p'] a|a b c _ IH1 _ IH2]; cbn [vars_prod].
  - reflexivity.
  - rewrite IH. reflexivity.
  - ring.
  - rewrite IH1. exact IH2.
Qed.

Lemma vars_prod_upd_absent (vs : list (name * R)) e v t :
  ~ In v (keys vs) -> vars_prod vs (upd e v t) = vars_prod vs e.
Proof.
  induction vs as [|[k p] vs IH]; intro H; cbn [vars_prod]; [reflexivity|].
  cbn [keys map fst In] in H.
  rewrite getv_upd_other by (intro E; apply H; left; exact E).
  rewrite IH by (intro Hin; apply H; right; exact Hin). reflexivity.
Qed.

Definition term_val (t : term R) (e : env R) : R := t_coef t * vars_prod (t_vars t) e.

Fixpoint terms_sum (ts : list (term R)) (e : env R) : R :=
  match ts with
  | [] => 0
  | t :: ts' => term_val t e + terms_sum ts' e
  end.

Definition terms_bound (ts : list (term R)) (e : env R) : Prop :=
  forall t, In t ts -> vars_bound (t_vars t) e.

Lemma eval_inter_from_ok (ts : list (term R)) (e : env R) : forall acc,
  terms_bound ts e -> eval_inter_from acc ts e = Ok (acc + terms_sum ts e).
Proof.
  induction ts as [|t ts IH]; intros acc Hb; cbn [eval_inter_from terms_sum].
  - f_equal. ring.
  - rewrite eval_term_vars_ok by (apply Hb; left; reflexivity).
    rewrite IH by (intros t' Ht'; apply Hb; right; exact Ht').
    cbn [nadd RNum]. unfold term_val. f_equal. ring.
Qed.

Lemma eval_inter_ok (ts : list (term R)) (e : env R) :
  terms_bound ts e -> eval_inter ts e = Ok (terms_sum ts e).
Proof.
  intro H. unfold eval_inter. rewrite eval_inter_from_ok by exact H.
  cbn [n0 RNum]. f_equal. ring.
Qed.

(* boundness after an update does not depend on the value *)
Lemma lookup_upd_bound e v t t' k : lookup k (upd e v t) <> None -> lookup k (upd e v t') <> None.
Proof.
  destruct (name_eqb k v) eqn:E.
  - apply name_eqb_eq in E. subst k. rewrite !lookup_upd_same. intros _. discriminate.
  - apply name_eqb_neq in E. rewrite !lookup_upd_other by exact E. exact (fun H => H).
Qed.

Lemma terms_bound_upd ts e v t t' : terms_bound ts (upd e v t) -> terms_bound ts (upd e v t').
Proof. intros H tm Htm k Hk. eapply lookup_upd_bound. exact (H tm Htm k Hk). Qed.

(* sorting the variables of each term changes neither boundness nor value *)
Definition sort_term (t : term R) : term R := {| t_coef := t_coef t; t_vars := sort_vars (t_vars t) |}.

Lemma sort_poly_terms (p : ipoly R) : i_terms (sort_poly p) = map sort_term (i_terms p).
Proof. reflexivity. Qed.

Lemma keys_perm (a b : list (name * R)) : Permutation a b -> Permutation (keys a) (keys b).
Proof. apply Permutation_map. Qed.

Lemma term_val_sort t e : term_val (sort_term t) e = term_val t e.
Proof. unfold term_val, sort_term. cbn [t_coef t_vars]. f_equal. apply vars_prod_perm. apply sort_vars_perm. Qed.

Lemma terms_sum_sort ts e : terms_sum (map sort_term ts) e = terms_sum ts e.
Proof. induction ts as [|t ts IH]; cbn [map terms_sum]; [reflexivity|]. rewrite IH, term_val_sort. reflexivity. Qed.

Lemma terms_bound_sort ts e : terms_bound ts e -> terms_bound (map sort_term ts) e.
Proof.
  intros H t Ht k Hk. apply in_map_iff in Ht. destruct Ht as [t0 [<- Ht0]].
  apply (H t0 Ht0). cbn [sort_term t_vars] in Hk.
  eapply Permutation_in; [apply keys_perm; apply sort_vars_perm|exact Hk].
Qed.

(* ------------------------------------------------------------------------ *)
(** * One term as a function of one variable *)

Lemma vars_prod_split (pre post : list (name * R)) e v p t :
  ~ In v (keys pre) -> ~ In v (keys post) ->
  vars_prod (pre ++ (v, p) :: post) (upd e v t) = vars_prod pre e * (Rpowf t p * vars_prod post e).
Proof.
  intros H1 H2. rewrite vars_prod_app. cbn [vars_prod].
  rewrite getv_upd_same, !vars_prod_upd_absent by assumption. reflexivity.
Qed.

Lemma vars_prod_split_derive (pre post : list (name * R)) e v p x :
  ~ In v (keys pre) -> ~ In v (keys post) -> p <> 0 -> dom_pow p x ->
  is_derive (fun t => vars_prod (pre ++ (v, p) :: post) (upd e v t)) x
            (p * vars_prod (pre ++ (v, p - 1) :: post) (upd e v x)).
Proof.
  intros H1 H2 Hp Hd.
  assert (E : forall t : R, (vars_prod pre e * vars_prod post e) * Rpowf t p
                             = vars_prod (pre ++ (v, p) :: post) (upd e v t)).
  { intro t. rewrite vars_prod_split by assumption. ring. }
  apply is_derive_ext with (f := fun t => (vars_prod pre e * vars_prod post e) * Rpowf t p); [exact E|].
  rewrite vars_prod_split by assumption.
  replace (p * (vars_prod pre e * (Rpowf x (p - 1) * vars_prod post e)))
    with ((vars_prod pre e * vars_prod post e) * (p * Rpowf x (p - 1))) by ring.
  apply is_derive_scal. apply Rpowf_derive; assumption.
Qed.

Lemma vars_prod_const_derive (vs : list (name * R)) e v x :
  ~ In v (keys vs) -> is_derive (fun t => vars_prod vs (upd e v t)) x 0.
Proof.
  intro H. apply is_derive_ext with (f := fun _ : R => vars_prod vs e).
  { intro t. symmetry. apply vars_prod_upd_absent. exact H. }
  apply @is_derive_const.
Qed.

Lemma nodup_keys_split (pre post : list (name * R)) k p :
  NoDup (keys (pre ++ (k, p) :: post)) -> ~ In k (keys pre) /\ ~ In k (keys post).
Proof.
  rewrite keys_app. cbn [keys map fst]. intro H.
  apply NoDup_remove_2 in H. split; intro Hin; apply H; apply in_or_app; [left|right]; exact Hin.
Qed.

Lemma is_derive_scal_const (f : R -> R) (c x l : R) :
  is_derive f x l -> is_derive (fun t => c * f t) x (c * l).
Proof. apply is_derive_scal. Qed.

(* well-formed term lists: pairwise distinct variable names inside each term *)
Definition wf_term (t : term R) : Prop := NoDup (keys (t_vars t)).
Definition wf_terms (ts : list (term R)) : Prop := forall t, In t ts -> wf_term t.
