(* Proofs/QuadSimpson.v — real instance of Model/Quad.v on cubics:
   the trapezoid sum with its exact h^2 error term, composite Simpson 1/3,
   Simpson 3/8, and their splice in definite_integral. *)
From Coq Require Import ZArith NArith List Reals Lra Lia.
From SV Require Import Base.Num Base.Outcome Model.Poly Model.Quad Proofs.Quad.
Import ListNotations.
Local Open Scope R_scope.

(* ---- a cubic, its antiderivative and its derivative --------------------------- *)
Definition cubic (a0 a1 a2 a3 x : R) : R := a0 + a1 * x + a2 * x ^ 2 + a3 * x ^ 3.
Definition cubic_prim (a0 a1 a2 a3 x : R) : R :=
  a0 * x + a1 * x ^ 2 / 2 + a2 * x ^ 3 / 3 + a3 * x ^ 4 / 4.
Definition cubic_der (a1 a2 a3 x : R) : R := a1 + 2 * a2 * x + 3 * a3 * x ^ 2.

(* `n as f64` in R *)
Definition RN (n : N) : R := IZR (Z.of_N n).

Lemma nofN_R n : @nofN R RNum n = RN n.
Proof. reflexivity. Qed.

Lemma RN_pos n : (1 <= n)%N -> 0 < RN n.
Proof. intro H. unfold RN. apply IZR_lt. lia. Qed.

Lemma INR_N n : INR (N.to_nat n) = RN n.
Proof. unfold RN. rewrite INR_IZR_INZ, N_nat_Z. reflexivity. Qed.

Lemma INR_N_pred n : (1 <= n)%N -> INR (N.to_nat (N.pred n)) = RN n - 1.
Proof.
  intro H. rewrite INR_N. unfold RN. rewrite N2Z.inj_pred by lia.
  rewrite <- Z.sub_1_r, minus_IZR. reflexivity.
Qed.

Lemma RN_double m : RN (2 * m) = 2 * RN m.
Proof. unfold RN. rewrite N2Z.inj_mul, mult_IZR. reflexivity. Qed.

(* ---- loops with an invariant --------------------------------------------------- *)
Lemma iter_inv {S : Type} (P : nat -> S -> Prop) (body : S -> res S) : forall m s,
  P 0%nat s ->
  (forall i s, (i < m)%nat -> P i s -> exists s', body s = Ok s' /\ P (Datatypes.S i) s') ->
  exists s', Nat.iter m (fun r => bind r body) (Ok s) = Ok s' /\ P m s'.
Proof.
  induction m as [|m IH]; intros s H0 Hs.
  - exists s. split; [reflexivity|exact H0].
  - destruct (IH s H0) as (s1 & E1 & P1).
    + intros i s2 Hi. apply Hs. lia.
    + destruct (Hs m s1 (Nat.lt_succ_diag_r m) P1) as (s2 & E2 & P2).
      exists s2. split; [|exact P2].
      cbn [Nat.iter nat_rect]. change (nat_rect _ _ _ m) with (Nat.iter m (fun r => bind r body) (Ok s)).
      rewrite E1. exact E2.
Qed.

Lemma loopN_inv {S : Type} (P : nat -> S -> Prop) n (body : S -> res S) s :
  P 0%nat s ->
  (forall i s, (i < N.to_nat n)%nat -> P i s -> exists s', body s = Ok s' /\ P (Datatypes.S i) s') ->
  exists s', loopN n body s = Ok s' /\ P (N.to_nat n) s'.
Proof.
  intros H0 Hs. unfold loopN. rewrite N2Nat.inj_iter. apply iter_inv; assumption.
Qed.

Section Cubic.
  Variables a0 a1 a2 a3 : R.
  Let g := cubic a0 a1 a2 a3.
  Let G := cubic_prim a0 a1 a2 a3.
  Let g' := cubic_der a1 a2 a3.
  Variable f : R -> res R.
  Hypothesis Hf : forall x, f x = Ok (g x).

  (* ---- trapezoid --------------------------------------------------------------- *)
  Lemma trap_body_step h xi sum :
    trap_body f h (xi, sum) = Ok (xi + h, sum + 2 * g (xi + h)).
  Proof.
    unfold trap_body. cbn [nadd RNum]. rewrite Hf. reflexivity.
  Qed.

  (* the composite trapezoid sum of a cubic is the integral plus exactly
     h^2/12 (g'(b) - g'(a)) (Euler-Maclaurin stops there for cubics) *)
  Lemma trapezoid_cubic a b n : (1 <= n)%N ->
    trapezoid f a b n =
    Ok (G b - G a + ((b - a) / RN n) ^ 2 / 12 * (g' b - g' a)).
  Proof.
    intro Hn. pose proof (RN_pos n Hn) as Hpos.
    unfold trapezoid. rewrite Hf. cbn [bind].
    rewrite nofN_R. cbn [ndiv nsub RNum].
    set (h := (b - a) / RN n).
    assert (Hh : b = a + RN n * h) by (subst h; field; lra).
    clearbody h.
    destruct (loopN_inv
      (fun i st => fst st = a + INR i * h /\
                   h / 2 * snd st = G (fst st) - G a + h ^ 2 / 12 * (g' (fst st) - g' a) + h / 2 * g (fst st))
      (N.pred n) (trap_body f h) (a, g a)) as ([xi sum] & E & Hxi & Hsum).
    - cbn [fst snd INR]. split; ring.
    - intros i [xi sum] _ [Hx Hs]. cbn [fst snd] in *.
      rewrite trap_body_step. eexists. split; [reflexivity|]. cbn [fst snd]. split.
      + rewrite S_INR, Hx. ring.
      + replace (h / 2 * (sum + 2 * g (xi + h))) with (h / 2 * sum + h * g (xi + h)) by field.
        rewrite Hs. unfold G, g, g', cubic, cubic_prim, cubic_der. field.
    - rewrite E. cbn [bind]. rewrite Hf. cbn [bind snd fst] in *.
      rewrite INR_N_pred in Hxi by exact Hn.
      assert (Hb : b = xi + h) by (rewrite Hxi, Hh; ring).
      unfold ntwo. cbn [ndiv nmul nadd nofZ RNum]. f_equal.
      replace (h * (sum + g b) / 2) with (h / 2 * sum + h / 2 * g b) by field.
      rewrite Hsum, Hb. unfold G, g, g', cubic, cubic_prim, cubic_der. field.
  Qed.

End Cubic.

(* ---- Simpson on quartics: exact value = integral + an explicit error term --------- *)
Definition quartic (a0 a1 a2 a3 a4 x : R) : R := a0 + a1 * x + a2 * x ^ 2 + a3 * x ^ 3 + a4 * x ^ 4.
Definition quartic_prim (a0 a1 a2 a3 a4 x : R) : R :=
  a0 * x + a1 * x ^ 2 / 2 + a2 * x ^ 3 / 3 + a3 * x ^ 4 / 4 + a4 * x ^ 5 / 5.

(* error of the rule as implemented: 4/15 a4 h^5 per 1/3 panel pair, 9/10 a4 h^5 for the 3/8 panel *)
Definition simpson_err (a4 h : R) (n : N) : R :=
  if N.even n then RN (n / 2) * (4 / 15 * a4 * h ^ 5)
  else RN ((n - 3) / 2) * (4 / 15 * a4 * h ^ 5) + 9 / 10 * a4 * h ^ 5.

Section Quartic.
  Variables a0 a1 a2 a3 a4 : R.
  Let g := quartic a0 a1 a2 a3 a4.
  Let G := quartic_prim a0 a1 a2 a3 a4.
  Variable f : R -> res R.
  Hypothesis Hf : forall x, f x = Ok (g x).

  (* ---- Simpson 1/3 ---------------------------------------------------------------- *)
  Lemma s13_body_step h xi sum :
    s13_body f h (xi, sum) =
    Ok (xi + 2 * h, sum + (4 * g (xi + 2 * h - h) + 2 * g (xi + 2 * h))).
  Proof.
    unfold s13_body, ntwo. cbn [nadd nsub nmul nofZ RNum]. rewrite !Hf. reflexivity.
  Qed.

  Lemma simpson13_quartic h s segs : (1 <= segs / 2)%N ->
    simpson13 f h s segs =
    Ok (G (s + RN (segs / 2) * (2 * h)) - G s + RN (segs / 2) * (4 / 15 * a4 * h ^ 5)).
  Proof.
    intro Hm. unfold simpson13. rewrite Hf. cbn [bind].
    destruct (loopN_inv
      (fun i st => fst st = s + INR i * (2 * h) /\
                   h / 3 * snd st = G (fst st) - G s + h / 3 * g (fst st) + INR i * (4 / 15 * a4 * h ^ 5))
      (N.pred (segs / 2)) (s13_body f h) (s, g s)) as ([xi sum] & E & Hxi & Hsum).
    - cbn [fst snd INR]. split; ring.
    - intros i [xi sum] _ [Hx Hs]. cbn [fst snd] in *.
      rewrite s13_body_step. eexists. split; [reflexivity|]. cbn [fst snd]. split.
      + rewrite S_INR, Hx. ring.
      + replace (h / 3 * (sum + (4 * g (xi + 2 * h - h) + 2 * g (xi + 2 * h))))
          with (h / 3 * sum + h / 3 * (4 * g (xi + 2 * h - h) + 2 * g (xi + 2 * h))) by field.
        rewrite Hs, S_INR. unfold G, g, quartic, quartic_prim. field.
    - rewrite E. cbn [bind]. cbv iota beta. unfold ntwo. cbn [nadd nsub nmul ndiv nofZ RNum].
      rewrite !Hf. cbn [bind fst snd] in *.
      rewrite INR_N_pred in Hxi, Hsum by exact Hm. f_equal.
      replace (s + RN (segs / 2) * (2 * h)) with (xi + 2 * h) by (rewrite Hxi; ring).
      replace (h * (sum + (4 * g (xi + 2 * h - h) + g (xi + 2 * h))) / 3)
        with (h / 3 * sum + h / 3 * (4 * g (xi + 2 * h - h) + g (xi + 2 * h))) by field.
      rewrite Hsum. unfold G, g, quartic, quartic_prim. field.
  Qed.

  (* ---- Simpson 3/8 ---------------------------------------------------------------- *)
  Lemma simpson38_quartic h e :
    simpson38 f h (e - h * 3) (e - h * 2) (e - h * 1) e =
    Ok (G e - G (e - h * 3) + 9 / 10 * a4 * h ^ 5).
  Proof.
    unfold simpson38. rewrite !Hf. cbn [bind nadd nmul ndiv nofZ RNum]. f_equal.
    unfold G, g, quartic, quartic_prim. field.
  Qed.

  (* ---- definite_integral ------------------------------------------------------------ *)
  Lemma definite_integral_quartic a b n : (2 <= n)%N ->
    definite_integral f a b n = Ok (G b - G a + simpson_err a4 ((b - a) / RN n) n).
  Proof.
    intro Hn.
    assert (Hpos : 0 < RN n) by (apply RN_pos; lia).
    unfold definite_integral, simpson_err.
    destruct (n =? 1)%N eqn:E1; [apply N.eqb_eq in E1; lia|].
    rewrite nofN_R. cbn [ndiv nsub nmul nofZ RNum].
    set (h := (b - a) / RN n).
    assert (Hh : b = a + RN n * h) by (subst h; field; lra).
    clearbody h.
    destruct (N.even n) eqn:Ev.
    - (* even: 1/3 rule on all segments *)
      cbn [bind]. cbv iota beta.
      apply N.even_spec in Ev. destruct Ev as [m Hm].
      assert (Hdiv : (n / 2 = m)%N) by (subst n; rewrite N.mul_comm; apply N.div_mul; lia).
      replace (1 <? n)%N with true by (symmetry; apply N.ltb_lt; lia).
      cbv iota beta.
      assert (Hside : (1 <= n / 2)%N) by (rewrite Hdiv; lia).
      rewrite (simpson13_quartic h a n Hside).
      cbn [bind nadd n0 RNum]. f_equal.
      rewrite Hdiv. replace (a + RN m * (2 * h)) with b; [ring|].
      rewrite Hh, Hm, RN_double. ring.
    - (* odd: 3/8 rule on the last three segments, 1/3 rule on the rest *)
      assert (Hodd : N.odd n = true) by (rewrite <- N.negb_even, Ev; reflexivity).
      apply N.odd_spec in Hodd. destruct Hodd as [m Hm].
      rewrite simpson38_quartic. cbn [bind].
      replace (n <? 3)%N with false by (symmetry; apply N.ltb_ge; lia).
      cbv iota beta. cbn [bind]. cbv iota beta. cbn [nadd n0 RNum].
      assert (Hm1 : (1 <= m)%N) by lia.
      assert (Hrem : (n - 3 = 2 * (m - 1))%N) by lia.
      assert (Hdiv : ((n - 3) / 2 = m - 1)%N)
        by (rewrite Hrem, N.mul_comm; apply N.div_mul; lia).
      assert (HRn : RN n = 2 * RN (m - 1) + 3).
      { unfold RN. replace (Z.of_N n) with (2 * Z.of_N (m - 1) + 3)%Z by lia.
        rewrite plus_IZR, mult_IZR. reflexivity. }
      destruct (1 <? n - 3)%N eqn:E3.
      + apply N.ltb_lt in E3.
        assert (Hside : (1 <= (n - 3) / 2)%N) by (rewrite Hdiv; lia).
        rewrite (simpson13_quartic h a (n - 3)%N Hside).
        cbn [bind nadd RNum]. f_equal.
        rewrite Hdiv.
        replace (a + RN (m - 1) * (2 * h)) with (b - h * 3); [ring|].
        rewrite Hh, HRn. ring.
      + (* n = 3 *)
        apply N.ltb_ge in E3. f_equal.
        assert (m = 1%N) by lia. subst m. rewrite Hdiv.
        replace (b - h * 3) with a; [change (RN (1 - 1)) with 0; ring|].
        rewrite Hh, HRn. change (RN (1 - 1)) with 0. ring.
  Qed.

  (* the textbook bound with constant 1/80 holds for the mixed rule (fourth derivative = 24 a4) *)
  Lemma simpson_err_bound a b n : (2 <= n)%N ->
    Rabs (simpson_err a4 ((b - a) / RN n) n) <=
    Rabs (b - a) * ((b - a) / RN n) ^ 4 * Rabs (24 * a4) / 80.
  Proof.
    intro Hn.
    assert (Hpos : 0 < RN n) by (apply RN_pos; lia).
    set (h := (b - a) / RN n).
    assert (Hh : b - a = RN n * h) by (subst h; field; lra).
    clearbody h. rewrite Hh.
    set (u := Rabs (a4 * h ^ 5)).
    assert (Hu : 0 <= u) by apply Rabs_pos.
    assert (Hrhs : Rabs (RN n * h) * h ^ 4 * Rabs (24 * a4) / 80 = RN n * (3 / 10) * u).
    { subst u. rewrite !Rabs_mult. rewrite (Rabs_pos_eq (RN n)) by lra.
      rewrite (Rabs_pos_eq 24) by lra.
      replace (h ^ 5) with (h * h ^ 4) by ring. rewrite Rabs_mult.
      rewrite (Rabs_pos_eq (h ^ 4)).
      - field.
      - replace (h ^ 4) with ((h ^ 2) ^ 2) by ring. apply pow2_ge_0. }
    rewrite Hrhs. unfold simpson_err.
    destruct (N.even n) eqn:Ev.
    - apply N.even_spec in Ev. destruct Ev as [m Hm].
      assert (Hdiv : (n / 2 = m)%N) by (subst n; rewrite N.mul_comm; apply N.div_mul; lia).
      rewrite Hdiv, Hm, RN_double.
      assert (Hm0 : 0 <= RN m) by (unfold RN; apply IZR_le; lia).
      replace (RN m * (4 / 15 * a4 * h ^ 5)) with (RN m * (4 / 15) * (a4 * h ^ 5)) by ring.
      rewrite Rabs_mult, (Rabs_pos_eq (RN m * (4 / 15))) by nra.
      fold u. nra.
    - assert (Hodd : N.odd n = true) by (rewrite <- N.negb_even, Ev; reflexivity).
      apply N.odd_spec in Hodd. destruct Hodd as [m Hm].
      assert (Hdiv : ((n - 3) / 2 = m - 1)%N).
      { replace (n - 3)%N with (2 * (m - 1))%N by lia. rewrite N.mul_comm. apply N.div_mul. lia. }
      assert (HRn : RN n = 2 * RN (m - 1) + 3).
      { unfold RN. replace (Z.of_N n) with (2 * Z.of_N (m - 1) + 3)%Z by lia.
        rewrite plus_IZR, mult_IZR. reflexivity. }
      rewrite Hdiv, HRn.
      assert (Hm0 : 0 <= RN (m - 1)) by (unfold RN; apply IZR_le; lia).
      replace (RN (m - 1) * (4 / 15 * a4 * h ^ 5) + 9 / 10 * a4 * h ^ 5)
        with ((RN (m - 1) * (4 / 15) + 9 / 10) * (a4 * h ^ 5)) by ring.
      rewrite Rabs_mult, (Rabs_pos_eq (RN (m - 1) * (4 / 15) + 9 / 10)) by nra.
      fold u. nra.
  Qed.

  (* ... and is attained for n = 3: the constant 1/80 cannot be improved *)
  Lemma simpson_err_tight_n3 a b :
    Rabs (simpson_err a4 ((b - a) / RN 3) 3) =
    Rabs (b - a) * ((b - a) / RN 3) ^ 4 * Rabs (24 * a4) / 80.
  Proof.
    change (RN 3) with 3. set (h := (b - a) / 3).
    assert (Hh : b - a = 3 * h) by (subst h; field).
    clearbody h. rewrite Hh. unfold simpson_err. cbn [N.even].
    change (RN ((3 - 3) / 2)) with 0.
    replace (0 * (4 / 15 * a4 * h ^ 5) + 9 / 10 * a4 * h ^ 5) with (9 / 10 * (a4 * (h * h ^ 4))) by ring.
    rewrite !Rabs_mult.
    assert (H4 : 0 <= h ^ 4) by (replace (h ^ 4) with ((h ^ 2) ^ 2) by ring; apply pow2_ge_0).
    rewrite (Rabs_pos_eq (h ^ 4) H4), (Rabs_pos_eq 3), (Rabs_pos_eq 24), (Rabs_pos_eq (9 / 10)) by lra.
    field.
  Qed.
End Quartic.

Lemma definite_integral_cubic a0 a1 a2 a3 (f : R -> res R) :
  (forall x, f x = Ok (cubic a0 a1 a2 a3 x)) ->
  forall a b n, (2 <= n)%N ->
  definite_integral f a b n = Ok (cubic_prim a0 a1 a2 a3 b - cubic_prim a0 a1 a2 a3 a).
Proof.
  intros Hf a b n Hn.
  rewrite (definite_integral_quartic a0 a1 a2 a3 0 f).
  - assert (Hpos : 0 < RN n) by (apply RN_pos; lia).
    f_equal. unfold simpson_err, quartic_prim, cubic_prim. destruct (N.even n); field; lra.
  - intro x. rewrite Hf. f_equal. unfold cubic, quartic. ring.
  - exact Hn.
Qed.

(* ---- SimplePolynomial with at most four coefficients ---------------------------- *)
Definition coef (cs : list R) (k : nat) : R := nth k cs 0.

Lemma eval_simple_cubic (p : spoly R) x : (length (s_coefs p) <= 4)%nat ->
  eval_simple p x = cubic (coef (s_coefs p) 0) (coef (s_coefs p) 1) (coef (s_coefs p) 2) (coef (s_coefs p) 3) x.
Proof.
  intro H. unfold eval_simple, coef, cubic.
  destruct (s_coefs p) as [|c0 [|c1 [|c2 [|c3 [|c4 l]]]]]; cbn [length] in H; try lia;
    cbn [eval_terms_from fold_left nth Z.of_nat Pos.of_succ_nat Pos.succ npowi powi_pos nadd nmul nsum0 n1 RNum];
    ring.
Qed.

Lemma eval_simple_integral_cubic (p : spoly R) x : (length (s_coefs p) <= 4)%nat ->
  eval_simple (simple_integral p) x =
  cubic_prim (coef (s_coefs p) 0) (coef (s_coefs p) 1) (coef (s_coefs p) 2) (coef (s_coefs p) 3) x.
Proof.
  intro H. unfold eval_simple, simple_integral, coef, cubic_prim. cbn [s_coefs].
  destruct (s_coefs p) as [|c0 [|c1 [|c2 [|c3 [|c4 l]]]]]; cbn [length] in H; try lia;
    cbn [integ_coefs_from eval_terms_from fold_left nth Z.of_nat Pos.of_succ_nat Pos.succ npowi powi_pos
         nofnat nofZ nadd nmul ndiv nsum0 n0 n1 RNum];
    field.
Qed.

(* ---- C05: Simpson and trapezoid ------------------------------------------------- *)
Lemma c05_simpson_exact_cubic : forall (f : R -> res R) (a0 a1 a2 a3 : R),
  (forall x, f x = Ok (a0 + a1 * x + a2 * x ^ 2 + a3 * x ^ 3)) ->
  forall (a b : R) (n : N), (2 <= n)%N ->
  definite_integral f a b n = Ok (cubic_prim a0 a1 a2 a3 b - cubic_prim a0 a1 a2 a3 a).
Proof.
  intros f a0 a1 a2 a3 Hf a b n Hn.
  apply (definite_integral_cubic a0 a1 a2 a3 f Hf a b n Hn).
Qed.

Lemma c05_simpson_exact : forall (p : spoly R), (length (s_coefs p) <= 4)%nat ->
  forall (a b : R) (n : N), (2 <= n)%N ->
  definite_integral (s_eval_univariate p) a b n =
  Ok (eval_simple (simple_integral p) b - eval_simple (simple_integral p) a).
Proof.
  intros p Hp a b n Hn.
  rewrite !eval_simple_integral_cubic by exact Hp.
  apply definite_integral_cubic; [|exact Hn].
  intro x. unfold s_eval_univariate. rewrite eval_simple_cubic by exact Hp. reflexivity.
Qed.

Lemma c05_trapezoid_exact_linear : forall (f : R -> res R) (a0 a1 : R),
  (forall x, f x = Ok (a0 + a1 * x)) ->
  forall a b : R, definite_integral f a b 1 = Ok (cubic_prim a0 a1 0 0 b - cubic_prim a0 a1 0 0 a).
Proof.
  intros f a0 a1 Hf a b.
  assert (Hf' : forall x, f x = Ok (cubic a0 a1 0 0 x)).
  { intro x. rewrite Hf. unfold cubic. f_equal. ring. }
  unfold definite_integral. cbn [N.eqb Pos.eqb].
  rewrite (trapezoid_cubic a0 a1 0 0 f Hf' a b 1) by lia.
  f_equal. change (RN 1) with 1. unfold cubic_der. field.
Qed.

Lemma c05_trapezoid_exact : forall (p : spoly R), (length (s_coefs p) <= 2)%nat ->
  forall a b : R,
  definite_integral (s_eval_univariate p) a b 1 =
  Ok (eval_simple (simple_integral p) b - eval_simple (simple_integral p) a).
Proof.
  intros p Hp a b.
  rewrite !eval_simple_integral_cubic by lia.
  assert (H2 : coef (s_coefs p) 2 = 0 /\ coef (s_coefs p) 3 = 0).
  { unfold coef. destruct (s_coefs p) as [|c0 [|c1 [|c2 l]]]; cbn [length] in Hp; try lia; split; reflexivity. }
  destruct H2 as [-> ->].
  apply c05_trapezoid_exact_linear.
  intro x. unfold s_eval_univariate. rewrite eval_simple_cubic by lia.
  unfold cubic, coef.
  destruct (s_coefs p) as [|c0 [|c1 [|c2 l]]]; cbn [length] in Hp; try lia; cbn [nth]; f_equal; ring.
Qed.

(* one segment is the trapezoid rule, whatever the integrand *)
Lemma c05_one_segment_is_trapezoid : forall (f : R -> R) (a b : R),
  definite_integral (fun x => Ok (f x)) a b 1 = Ok ((b - a) * (f a + f b) / 2).
Proof.
  intros f a b. unfold definite_integral. cbn [N.eqb Pos.eqb].
  unfold trapezoid. cbn [bind]. change (N.pred 1) with 0%N.
  unfold loopN. cbn [N.iter bind snd]. unfold ntwo. rewrite nofN_R. change (RN 1) with 1.
  cbn [ndiv nmul nadd nsub nofZ RNum]. f_equal. field.
Qed.

(* ---- C05: the error clause, proved for degree 4 (and attained for n = 3) --------- *)
Lemma c05_simpson_error_quartic : forall (f : R -> res R) (a0 a1 a2 a3 a4 : R),
  (forall x, f x = Ok (a0 + a1 * x + a2 * x ^ 2 + a3 * x ^ 3 + a4 * x ^ 4)) ->
  forall (a b : R) (n : N), (2 <= n)%N ->
  exists v, definite_integral f a b n = Ok v /\
    Rabs (v - (quartic_prim a0 a1 a2 a3 a4 b - quartic_prim a0 a1 a2 a3 a4 a)) <=
    Rabs (b - a) * ((b - a) / IZR (Z.of_N n)) ^ 4 * Rabs (24 * a4) / 80.
Proof.
  intros f a0 a1 a2 a3 a4 Hf a b n Hn.
  eexists. split; [apply (definite_integral_quartic a0 a1 a2 a3 a4 f Hf a b n Hn)|].
  match goal with |- Rabs ?e <= _ => replace e with (simpson_err a4 ((b - a) / RN n) n) by ring end.
  apply simpson_err_bound. exact Hn.
Qed.

Lemma c05_simpson_error_tight_n3 : forall (f : R -> res R) (a0 a1 a2 a3 a4 : R),
  (forall x, f x = Ok (a0 + a1 * x + a2 * x ^ 2 + a3 * x ^ 3 + a4 * x ^ 4)) ->
  forall (a b : R),
  exists v, definite_integral f a b 3 = Ok v /\
    Rabs (v - (quartic_prim a0 a1 a2 a3 a4 b - quartic_prim a0 a1 a2 a3 a4 a)) =
    Rabs (b - a) * ((b - a) / 3) ^ 4 * Rabs (24 * a4) / 80.
Proof.
  intros f a0 a1 a2 a3 a4 Hf a b.
  eexists. split; [apply (definite_integral_quartic a0 a1 a2 a3 a4 f Hf a b 3); lia|].
  match goal with |- Rabs ?e = _ => replace e with (simpson_err a4 ((b - a) / RN 3) 3) by ring end.
  apply simpson_err_tight_n3.
Qed.

(* ---- IntermediatePolynomial: c3 v^3 + c2 v^2 + c1 v + c0 as the parser builds it ---- *)
Definition icubic (v : name) (c0 c1 c2 c3 : R) : ipoly R :=
  {| i_terms := [ {| t_coef := c3; t_vars := [(v, 3)] |};
                  {| t_coef := c2; t_vars := [(v, 2)] |};
                  {| t_coef := c1; t_vars := [(v, 1)] |};
                  {| t_coef := c0; t_vars := [] |} ];
     i_vars := [v] |}.

Lemma name_eqb_refl (v : name) : name_eqb v v = true.
Proof. induction v as [|c v IH]; [reflexivity|]. cbn [name_eqb]. rewrite N.eqb_refl, IH. reflexivity. Qed.

Lemma Int_part_IZR z : Int_part (IZR z) = z.
Proof.
  unfold Int_part. rewrite <- (tech_up (IZR z) (z + 1)).
  - lia.
  - rewrite plus_IZR. lra.
  - rewrite plus_IZR. lra.
Qed.

Lemma Rpowf_nat (x : R) (k : positive) : Rpowf x (IZR (Zpos k)) = x ^ Pos.to_nat k.
Proof.
  unfold Rpowf. rewrite Int_part_IZR.
  destruct (Req_EM_T (IZR (Z.pos k)) (IZR (Z.pos k))) as [_|N]; [|exfalso; apply N; reflexivity].
  reflexivity.
Qed.

Lemma i_eval_cubic v c0 c1 c2 c3 x :
  i_eval_univariate (icubic v c0 c1 c2 c3) x = Ok (c0 + c1 * x + c2 * x ^ 2 + c3 * x ^ 3).
Proof.
  unfold i_eval_univariate, icubic, eval_inter. cbn [i_vars i_terms].
  cbn [eval_inter_from eval_term_vars t_coef t_vars lookup]. rewrite name_eqb_refl.
  cbn [npowf nmul nadd n0 RNum]. rewrite !Rpowf_nat.
  change (Pos.to_nat 3) with 3%nat. change (Pos.to_nat 2) with 2%nat. change (Pos.to_nat 1) with 1%nat.
  f_equal. ring.
Qed.
