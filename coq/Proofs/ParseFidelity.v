(* Proofs/ParseFidelity.v — C16, "acceptance implies fidelity" for the univariate
   parser as a corollary of the two directions proved in Proofs/SimpleParse.v:
   whatever parse_simple accepts is a rendering of a well-formed source of the
   documented grammar (simple_accepts_only_grammar), and every such rendering
   evaluates at every point to the value written in the text (simple_meaning). *)
From Coq Require Import ZArith NArith List Bool Reals Lra.
From SV Require Import Base.Num Base.Outcome Base.Str Model.Poly Model.Parse Model.GrammarS
  Proofs.SimpleParse.
Import ListNotations.
Local Open Scope R_scope.

Theorem simple_fidelity (U : UClass) : USane U ->
  forall (s : str) (p : spoly R), parse_simple U s = Ok p ->
  (strip_ws s = [] /\ forall x : R, eval_simple p x = 0)
  \/ exists (lead : bool) (v : N) (src : usrc),
       src <> [] /\ wf_src src = true /\ strip_ws s = render lead v src /\
       forall x : R, eval_simple p x = src_value src x.
Proof.
  intros HU s p Hp.
  destruct (simple_accepts_only_grammar U HU s p Hp) as [He | (lead & v & src & Hne & Hw & Hv & _ & _ & Hs)].
  - left. split; [exact He|].
    rewrite (simple_empty U s He) in Hp. injection Hp as <-. intros x.
    unfold eval_simple. cbn. lra.
  - right. exists lead, v, src. repeat split; try assumption.
    destruct (simple_meaning U HU src v lead s Hw Hv Hs) as (p' & Hp' & Hval).
    rewrite Hp in Hp'. injection Hp' as <-. exact Hval.
Qed.
