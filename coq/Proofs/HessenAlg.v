(* Proofs/HessenAlg.v — consequences of c14_main that a caller of hessenberg() relies on:
   H = Q^T A Q, A Q = Q H, symmetric input gives a symmetric tridiagonal H, and the eigenpairs
   of H are those of A carried by Q.  Pure matrix algebra over Proofs/HessenReflector.v. *)
From Coq Require Import ZArith List Bool Arith Reals Lra Lia Morphisms Setoid.
From SV Require Import Base.Num Base.Outcome Base.Mat Model.Hessen Proofs.Hessen.
Import ListNotations.
Local Open Scope R_scope.

Lemma hess_formulas n (A H Q : mat R) : hessenberg n A = Ok (H, Q) ->
  meq n H (Rmm n (Rmm n (Rtr Q) A) Q) /\ meq n (Rmm n A Q) (Rmm n Q H).
Proof.
  intros E. destruct (c14_main n A H Q E) as (HQ & HA & _).
  assert (AQ : meq n (Rmm n A Q) (Rmm n Q H)).
  { rewrite <- HA. rewrite (Rmm_assoc n (Rmm n Q H) (Rtr Q) Q), HQ. apply Rmm_I_r. }
  split; [|exact AQ].
  rewrite (Rmm_assoc n (Rtr Q) A Q), AQ, <- (Rmm_assoc n (Rtr Q) Q H), HQ.
  symmetry. apply Rmm_I_l.
Qed.

(* symmetric input: H is symmetric, hence tridiagonal *)
Lemma hess_symmetric n (A H Q : mat R) : hessenberg n A = Ok (H, Q) ->
  meq n (Rtr A) A ->
  meq n (Rtr H) H /\
  (forall i j, (i < n)%nat -> (j < n)%nat -> (i + 1 < j)%nat \/ (j + 1 < i)%nat -> H i j = 0).
Proof.
  intros E SA. destruct (c14_main n A H Q E) as (_ & _ & HZ).
  destruct (hess_formulas n A H Q E) as (HF & _).
  assert (SH : meq n (Rtr H) H).
  { rewrite HF at 1. rewrite (Rtr_mm n (Rmm n (Rtr Q) A) Q), (Rtr_mm n (Rtr Q) A), Rtr_tr, SA.
    rewrite <- (Rmm_assoc n (Rtr Q) A Q). symmetry. exact HF. }
  split; [exact SH|].
  intros i j Hi Hj [Hlt|Hlt].
  - rewrite <- (SH i j Hi Hj). unfold Rtr, mtranspose. apply HZ; assumption.
  - apply HZ; assumption.
Qed.

(* matrix-vector product *)
Definition Rmv (n : nat) (M : mat R) (x : nat -> R) (i : nat) : R := Rsum (fun t => M i t * x t) n.

Lemma Rmv_mm n (X Y : mat R) x i : Rmv n (Rmm n X Y) x i = Rmv n X (Rmv n Y x) i.
Proof.
  unfold Rmv, Rmm.
  transitivity (Rsum (fun t => Rsum (fun s => X i s * Y s t * x t) n) n).
  - apply Rsum_ext. intros t _. rewrite <- Rsum_scal_r. reflexivity.
  - rewrite Rsum_swap. apply Rsum_ext. intros s _. rewrite <- Rsum_scal.
    apply Rsum_ext. intros t _. ring.
Qed.

Lemma Rmv_meq n (X Y : mat R) x i : meq n X Y -> (i < n)%nat -> Rmv n X x i = Rmv n Y x i.
Proof. intros H Hi. unfold Rmv. apply Rsum_ext. intros t Ht. rewrite (H i t Hi Ht). reflexivity. Qed.

Lemma Rmv_ext n (X : mat R) x y i : (forall t, (t < n)%nat -> x t = y t) -> Rmv n X x i = Rmv n X y i.
Proof. intros H. unfold Rmv. apply Rsum_ext. intros t Ht. rewrite (H t Ht). reflexivity. Qed.

Lemma Rmv_I n x i : (i < n)%nat -> Rmv n RI x i = x i.
Proof. intros Hi. unfold Rmv. apply (Rsum_delta i x n Hi). Qed.

Lemma Rmv_scal n (X : mat R) c x i : Rmv n X (fun t => c * x t) i = c * Rmv n X x i.
Proof. unfold Rmv. rewrite <- Rsum_scal. apply Rsum_ext. intros t _. ring. Qed.

(* every eigenpair (lam, y) of H gives the eigenpair (lam, Q y) of A, and Q y determines y
   (Q^T (Q y) = y), so Q y <> 0 when y <> 0: the spectrum of H is inside that of A;
   conversely for every eigenpair (lam, x) of A the vector Q^T x satisfies H (Q^T x) = lam (Q^T x)
   (that Q^T x <> 0 would need Q Q^T = I, which is not derived here) *)
Lemma hess_eigen n (A H Q : mat R) : hessenberg n A = Ok (H, Q) ->
  (forall (lam : R) (y : nat -> R),
     (forall i, (i < n)%nat -> Rmv n H y i = lam * y i) ->
     (forall i, (i < n)%nat -> Rmv n A (Rmv n Q y) i = lam * Rmv n Q y i) /\
     (forall i, (i < n)%nat -> Rmv n (Rtr Q) (Rmv n Q y) i = y i)) /\
  (forall (lam : R) (x : nat -> R),
     (forall i, (i < n)%nat -> Rmv n A x i = lam * x i) ->
     forall i, (i < n)%nat -> Rmv n H (Rmv n (Rtr Q) x) i = lam * Rmv n (Rtr Q) x i).
Proof.
  intros E. destruct (c14_main n A H Q E) as (HQ & HA & _).
  destruct (hess_formulas n A H Q E) as (HF & AQ).
  split.
  - intros lam y Hy. split.
    + intros i Hi. rewrite <- Rmv_mm, (Rmv_meq n _ _ y i AQ Hi), Rmv_mm.
      rewrite (Rmv_ext n Q (Rmv n H y) (fun t => lam * y t) i Hy). apply Rmv_scal.
    + intros i Hi. rewrite <- Rmv_mm, (Rmv_meq n _ _ y i HQ Hi). apply Rmv_I. exact Hi.
  - intros lam x Hx i Hi.
    (* H Q^T = Q^T A  (from A = Q H Q^T and Q^T Q = I) *)
    assert (HQt : meq n (Rmm n H (Rtr Q)) (Rmm n (Rtr Q) A)).
    { rewrite <- HA. rewrite <- (Rmm_assoc n (Rtr Q) (Rmm n Q H) (Rtr Q)).
      rewrite <- (Rmm_assoc n (Rtr Q) Q H), HQ, (Rmm_I_l n H). reflexivity. }
    rewrite <- Rmv_mm, (Rmv_meq n _ _ x i HQt Hi), Rmv_mm.
    rewrite (Rmv_ext n (Rtr Q) (Rmv n A x) (fun t => lam * x t) i Hx). apply Rmv_scal.
Qed.

Lemma c14_similarity : forall (n : nat) (A H Q : mat R), hessenberg n A = Ok (H, Q) ->
  meq n H (Rmm n (Rmm n (Rtr Q) A) Q) /\ meq n (Rmm n A Q) (Rmm n Q H).
Proof. exact hess_formulas. Qed.

Lemma c14_symmetric_tridiagonal : forall (n : nat) (A H Q : mat R), hessenberg n A = Ok (H, Q) ->
  meq n (Rtr A) A ->
  meq n (Rtr H) H /\
  (forall i j, (i < n)%nat -> (j < n)%nat -> (i + 1 < j)%nat \/ (j + 1 < i)%nat -> H i j = 0).
Proof. exact hess_symmetric. Qed.

Lemma c14_eigenpairs : forall (n : nat) (A H Q : mat R), hessenberg n A = Ok (H, Q) ->
  (forall (lam : R) (y : nat -> R),
     (forall i, (i < n)%nat -> Rmv n H y i = lam * y i) ->
     (forall i, (i < n)%nat -> Rmv n A (Rmv n Q y) i = lam * Rmv n Q y i) /\
     (forall i, (i < n)%nat -> Rmv n (Rtr Q) (Rmv n Q y) i = y i)) /\
  (forall (lam : R) (x : nat -> R),
     (forall i, (i < n)%nat -> Rmv n A x i = lam * x i) ->
     forall i, (i < n)%nat -> Rmv n H (Rmv n (Rtr Q) x) i = lam * Rmv n (Rtr Q) x i).
Proof. exact hess_eigen. Qed.
