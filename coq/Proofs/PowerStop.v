(* Proofs/PowerStop.v — C13, gap (a): the power method's STOPPING RULE and the eigenvalue
   error (exact real arithmetic, same eigen-decomposition hypothesis as c13_rayleigh_error_R).

   In eigen-coordinates the k-th estimate is a weighted mean of the eigenvalues,
     rho_k = sum_i w_i lam_i / sum_i w_i,   w_i = (c_i lam_i^(k+1))^2 >= 0,  w_0 > 0,
   and rho_(k+1) is the mean with the weights w_i lam_i^2.  Part 1 proves, for two such
   weighted means, that inside the BASIN  |rho - lam_0| <= (1 - g) |lam_0| / 2  the error
   contracts by 2 g^2 <= 1/2, hence the step |rho' - rho| dominates the new error, hence the
   exit test |rho' - rho| < tol |rho'| gives |rho' - lam_0| < tol |lam_0|.  Part 2 instantiates
   it with the model's states (pm_state), Part 3 with the answer of power_method itself. *)
From Coq Require Import ZArith NArith List Bool Arith Reals Lra Lia Psatz.
From SV Require Import Base.Num Base.Outcome Base.Mat Model.Power Proofs.Power.
Import ListNotations.
Local Open Scope R_scope.

(* ======================= Part 1: two weighted means ============================= *)
Section WMeanPos.
  Variables (m : nat) (w l : nat -> R) (g : R).
  Hypothesis Hw0 : 0 < w 0%nat.
  Hypothesis Hw : forall i, (i < m)%nat -> 0 <= w (S i).
  Hypothesis Hl0 : 0 < l 0%nat.
  Hypothesis Hg : 0 <= g <= 1 / 2.
  Hypothesis Hgap : forall i, (i < m)%nat -> Rabs (l (S i)) <= g * l 0%nat.

  Let l0 := l 0%nat.
  Let S0 := rsum (S m) w.
  Let S1 := rsum (S m) (fun i => w i * l i).
  Let S2 := rsum (S m) (fun i => w i * (l i * l i)).
  Let S3 := rsum (S m) (fun i => w i * (l i * l i) * l i).
  (* tails *)
  Let T0 := rsum m (fun i => w (S i)).
  Let Td := rsum m (fun i => w (S i) * (l0 - l (S i))).
  Let T2 := rsum m (fun i => w (S i) * (l (S i) * l (S i))).
  Let T2d := rsum m (fun i => w (S i) * (l (S i) * l (S i)) * (l0 - l (S i))).

  Lemma wm_tail_bounds i : (i < m)%nat ->
    - (g * l0) <= l (S i) <= g * l0 /\ l (S i) * l (S i) <= g ^ 2 * l0 ^ 2 /\ 0 <= l0 - l (S i).
  Proof.
    intro Hi. pose proof (Hgap i Hi) as H. fold l0 in H.
    assert (Hb : - (g * l0) <= l (S i) <= g * l0).
    { revert H. unfold Rabs. destruct (Rcase_abs (l (S i))); intro H; lra. }
    unfold l0 in *. split; [exact Hb|]. split; nra.
  Qed.

  Lemma wm_S0 : S0 = w 0%nat + T0.
  Proof. unfold S0, T0. apply rsum_shift. Qed.
  Lemma wm_S2 : S2 = w 0%nat * l0 ^ 2 + T2.
  Proof. unfold S2, T2. rewrite rsum_shift. fold l0. ring. Qed.
  Lemma wm_err1 : l0 * S0 - S1 = Td.
  Proof.
    unfold S0, S1, Td. rewrite !rsum_shift. fold l0.
    rewrite (rsum_ext m (fun i => w (S i) * (l0 - l (S i)))
                        (fun i => l0 * w (S i) + (-1) * (w (S i) * l (S i)))) by (intros; ring).
    rewrite rsum_plus, !rsum_scal. ring.
  Qed.
  Lemma wm_err2 : l0 * S2 - S3 = T2d.
  Proof.
    unfold S2, S3, T2d. rewrite !rsum_shift. fold l0.
    rewrite (rsum_ext m (fun i => w (S i) * (l (S i) * l (S i)) * (l0 - l (S i)))
                        (fun i => l0 * (w (S i) * (l (S i) * l (S i)))
                                  + (-1) * (w (S i) * (l (S i) * l (S i)) * l (S i)))) by (intros; ring).
    rewrite rsum_plus, !rsum_scal. ring.
  Qed.

  Lemma wm_T0_nonneg : 0 <= T0.
  Proof. unfold T0. apply rsum_nonneg. exact Hw. Qed.
  Lemma wm_T2_nonneg : 0 <= T2.
  Proof.
    unfold T2. apply rsum_nonneg. intros i Hi. apply Rmult_le_pos; [apply Hw; exact Hi|nra].
  Qed.
  Lemma wm_Td_lower : (1 - g) * l0 * T0 <= Td.
  Proof.
    unfold T0, Td. rewrite <- rsum_scal. apply rsum_le. intros i Hi.
    destruct (wm_tail_bounds i Hi) as [Hb _]. pose proof (Hw i Hi) as Hwi.
    assert (l0 - g * l0 <= l0 - l (S i)) by lra. nra.
  Qed.
  Lemma wm_T2d_nonneg : 0 <= T2d.
  Proof.
    unfold T2d. apply rsum_nonneg. intros i Hi.
    destruct (wm_tail_bounds i Hi) as [_ [_ Hd]]. pose proof (Hw i Hi) as Hwi.
    apply Rmult_le_pos; [apply Rmult_le_pos; [exact Hwi|nra]|exact Hd].
  Qed.
  Lemma wm_T2d_upper : T2d <= g ^ 2 * l0 ^ 2 * Td.
  Proof.
    unfold T2d, Td. rewrite <- rsum_scal. apply rsum_le. intros i Hi.
    destruct (wm_tail_bounds i Hi) as [_ [Hsq Hd]]. pose proof (Hw i Hi) as Hwi.
    set (p := l (S i) * l (S i)) in *. set (d := l0 - l (S i)) in *.
    assert (H1 : 0 <= w (S i) * d) by (apply Rmult_le_pos; assumption).
    replace (w (S i) * p * d) with (p * (w (S i) * d)) by ring.
    replace (g ^ 2 * l0 ^ 2 * (w (S i) * d)) with ((g ^ 2 * l0 ^ 2) * (w (S i) * d)) by ring.
    apply Rmult_le_compat_r; assumption.
  Qed.

  Lemma wm_S0_pos : 0 < S0.
  Proof. rewrite wm_S0. pose proof wm_T0_nonneg. lra. Qed.
  Lemma wm_S2_pos : 0 < S2.
  Proof.
    rewrite wm_S2. pose proof wm_T2_nonneg.
    assert (0 < w 0%nat * l0 ^ 2) by (apply Rmult_lt_0_compat; [exact Hw0|unfold l0; nra]). lra.
  Qed.

  Let rho := S1 / S0.
  Let rho' := S3 / S2.

  (* the signed errors *)
  Lemma wm_e1 : (l0 - rho) * S0 = Td.
  Proof. rewrite <- wm_err1. unfold rho. field. pose proof wm_S0_pos; lra. Qed.
  Lemma wm_e2 : (l0 - rho') * S2 = T2d.
  Proof. rewrite <- wm_err2. unfold rho'. field. pose proof wm_S2_pos; lra. Qed.

  Lemma wm_e1_nonneg : 0 <= l0 - rho.
  Proof.
    pose proof wm_e1 as E. pose proof wm_S0_pos as HS.
    assert (HT : 0 <= Td).
    { pose proof wm_Td_lower. pose proof wm_T0_nonneg.
      assert (0 <= (1 - g) * l0) by (unfold l0; nra). nra. }
    destruct (Rle_or_lt 0 (l0 - rho)) as [H|H]; [exact H|]. exfalso. nra.
  Qed.
  Lemma wm_e2_nonneg : 0 <= l0 - rho'.
  Proof.
    pose proof wm_e2 as E. pose proof wm_S2_pos as HS. pose proof wm_T2d_nonneg as HT.
    destruct (Rle_or_lt 0 (l0 - rho')) as [H|H]; [exact H|]. exfalso. nra.
  Qed.

  (* (i) one step: e' w_0 <= g^2 e W *)
  Lemma wm_step : (l0 - rho') * w 0%nat <= g ^ 2 * ((l0 - rho) * S0).
  Proof.
    pose proof wm_e2 as E2. pose proof wm_e1 as E1. pose proof wm_T2d_upper as HU.
    pose proof wm_e2_nonneg as Hn2. pose proof wm_T2_nonneg as HT2. pose proof wm_S2 as ES2.
    assert (Hl2 : 0 < l0 ^ 2) by (unfold l0; nra).
    assert (H1 : (l0 - rho') * (w 0%nat * l0 ^ 2) <= (l0 - rho') * S2).
    { apply Rmult_le_compat_l; [exact Hn2|lra]. }
    rewrite E1.
    apply Rmult_le_reg_r with (l0 ^ 2); [exact Hl2|].
    apply Rle_trans with ((l0 - rho') * S2); [rewrite Rmult_assoc; exact H1|].
    rewrite E2. eapply Rle_trans; [exact HU|]. right. ring.
  Qed.

  (* (ii) in the basin the dominant weight is at least half of the total *)
  Lemma wm_basin_weight : l0 - rho <= (1 - g) * l0 / 2 -> S0 <= 2 * w 0%nat.
  Proof.
    intro Hb. pose proof wm_e1 as E1. pose proof wm_Td_lower as HL. pose proof wm_S0_pos as HS.
    pose proof wm_S0 as ES.
    assert (Hc : 0 < (1 - g) * l0) by (unfold l0; nra).
    assert (H1 : (l0 - rho) * S0 <= (1 - g) * l0 / 2 * S0).
    { apply Rmult_le_compat_r; lra. }
    assert (H2 : (1 - g) * l0 * T0 <= (1 - g) * l0 * (S0 / 2)) by lra.
    apply Rmult_le_reg_l in H2; [|exact Hc]. lra.
  Qed.

  (* (iii) contraction in the basin *)
  Lemma wm_contract : l0 - rho <= (1 - g) * l0 / 2 -> l0 - rho' <= 2 * g ^ 2 * (l0 - rho).
  Proof.
    intro Hb. pose proof (wm_basin_weight Hb) as HW. pose proof wm_step as HS.
    pose proof wm_e1_nonneg as Hn1.
    assert (H1 : g ^ 2 * ((l0 - rho) * S0) <= g ^ 2 * ((l0 - rho) * (2 * w 0%nat))).
    { apply Rmult_le_compat_l; [apply pow2_ge_0|]. apply Rmult_le_compat_l; assumption. }
    apply Rmult_le_reg_r with (w 0%nat); [exact Hw0|].
    eapply Rle_trans; [exact HS|]. eapply Rle_trans; [exact H1|]. right. ring.
  Qed.

  Lemma wm_two_g2 : 2 * g ^ 2 <= 1 / 2.
  Proof. nra. Qed.

  (* (iv) the new estimate is not larger than the dominant eigenvalue *)
  Lemma wm_rho'_abs : Rabs rho' <= l0.
  Proof.
    pose proof wm_S2_pos as HS.
    assert (HA : Rabs S3 <= l0 * S2).
    { unfold S3, S2. eapply Rle_trans; [apply rsum_abs|]. rewrite <- rsum_scal.
      apply rsum_le. intros i Hi.
      assert (Hwi : 0 <= w i).
      { destruct i as [|i]; [lra|apply Hw; lia]. }
      assert (Hli : Rabs (l i) <= l0).
      { destruct i as [|i]; [unfold l0; rewrite Rabs_pos_eq; lra|].
        destruct (wm_tail_bounds i ltac:(lia)) as [Hb _]. apply Rabs_le. unfold l0 in *. nra. }
      rewrite Rabs_mult, (Rabs_pos_eq (w i * (l i * l i))) by (apply Rmult_le_pos; [exact Hwi|nra]).
      assert (0 <= w i * (l i * l i)) by (apply Rmult_le_pos; [exact Hwi|nra]).
      nra. }
    unfold rho', Rdiv. rewrite Rabs_mult, (Rabs_pos_eq (/ S2)) by (left; apply Rinv_0_lt_compat; exact HS).
    apply Rmult_le_reg_r with S2; [exact HS|].
    rewrite Rmult_assoc, Rinv_l by lra. lra.
  Qed.

  Lemma wm_abs1 : Rabs (rho - l0) = l0 - rho.
  Proof. pose proof wm_e1_nonneg. rewrite Rabs_minus_sym. apply Rabs_pos_eq. lra. Qed.
  Lemma wm_abs2 : Rabs (rho' - l0) = l0 - rho'.
  Proof. pose proof wm_e2_nonneg. rewrite Rabs_minus_sym. apply Rabs_pos_eq. lra. Qed.

  (* summary, lam_0 > 0 *)
  Lemma wm_pos_summary :
    Rabs (rho - l0) <= (1 - g) * l0 / 2 ->
    Rabs (rho' - l0) <= 2 * g ^ 2 * Rabs (rho - l0) /\
    Rabs (rho' - l0) <= Rabs (rho' - rho) /\
    Rabs rho' <= l0.
  Proof.
    rewrite wm_abs1, wm_abs2. intro Hb.
    pose proof (wm_contract Hb) as HC. pose proof wm_two_g2 as H2.
    pose proof wm_e1_nonneg as Hn1. pose proof wm_e2_nonneg as Hn2.
    split; [exact HC|]. split; [|exact wm_rho'_abs].
    assert (H3 : l0 - rho' <= 1 / 2 * (l0 - rho)) by nra.
    replace (rho' - rho) with ((l0 - rho) - (l0 - rho')) by ring.
    rewrite Rabs_pos_eq by lra. lra.
  Qed.
  (* the weighted second moment about l0 is at most (1+g) l0 times the first: used for the
     eigenvector residual (Part 4) *)
  Lemma wm_var_pos :
    rsum (S m) (fun i => w i * ((l i - l0) * (l i - l0))) <= (1 + g) * l0 * (Rabs (rho - l0) * S0).
  Proof.
    rewrite wm_abs1, wm_e1. rewrite rsum_shift. fold l0.
    replace (w 0%nat * ((l0 - l0) * (l0 - l0))) with 0 by ring. rewrite Rplus_0_l.
    unfold Td. rewrite <- rsum_scal. apply rsum_le. intros i Hi.
    destruct (wm_tail_bounds i Hi) as [Hb [_ Hd]]. pose proof (Hw i Hi) as Hwi.
    set (d := l0 - l (S i)) in *.
    assert (Hd2 : d <= (1 + g) * l0) by (unfold d; lra).
    assert (Hl0' : 0 < l0) by exact Hl0.
    assert (H1 : d * d <= (1 + g) * l0 * d) by nra.
    replace ((l (S i) - l0) * (l (S i) - l0)) with (d * d) by (unfold d; ring).
    replace ((1 + g) * l0 * (w (S i) * d)) with (w (S i) * ((1 + g) * l0 * d)) by ring.
    apply Rmult_le_compat_l; assumption.
  Qed.
End WMeanPos.

(* either sign of the dominant value: the case l 0 < 0 is the case l 0 > 0 of -l *)
Lemma wm_summary (m : nat) (w l : nat -> R) (g : R) :
  0 < w 0%nat -> (forall i, (i < m)%nat -> 0 <= w (S i)) -> l 0%nat <> 0 -> 0 <= g <= 1 / 2 ->
  (forall i, (i < m)%nat -> Rabs (l (S i)) <= g * Rabs (l 0%nat)) ->
  let rho := rsum (S m) (fun i => w i * l i) / rsum (S m) w in
  let rho' := rsum (S m) (fun i => w i * (l i * l i) * l i) / rsum (S m) (fun i => w i * (l i * l i)) in
  Rabs (rho - l 0%nat) <= (1 - g) * Rabs (l 0%nat) / 2 ->
  Rabs (rho' - l 0%nat) <= 2 * g ^ 2 * Rabs (rho - l 0%nat) /\
  Rabs (rho' - l 0%nat) <= Rabs (rho' - rho) /\
  Rabs rho' <= Rabs (l 0%nat).
Proof.
  intros Hw0 Hw Hl0 Hg Hgap. cbv zeta.
  destruct (Rtotal_order (l 0%nat) 0) as [Hneg|[Hz|Hpos]]; [|exact (False_ind _ (Hl0 Hz))|].
  - (* l 0 < 0 *)
    set (l' := fun i => - l i).
    assert (Hl0' : 0 < l' 0%nat) by (unfold l'; lra).
    assert (Ea : Rabs (l 0%nat) = l' 0%nat) by (unfold l'; apply Rabs_left; exact Hneg).
    assert (Hgap' : forall i, (i < m)%nat -> Rabs (l' (S i)) <= g * l' 0%nat).
    { intros i Hi. unfold l' at 1. rewrite Rabs_Ropp, <- Ea. apply Hgap. exact Hi. }
    pose proof (wm_pos_summary m w l' g Hw0 Hw Hl0' Hg Hgap') as HP.
    assert (E1 : rsum (S m) (fun i => w i * l' i) = - rsum (S m) (fun i => w i * l i)).
    { rewrite (rsum_ext (S m) (fun i => w i * l' i) (fun i => (-1) * (w i * l i)))
        by (intros; unfold l'; ring). rewrite rsum_scal. ring. }
    assert (E2 : rsum (S m) (fun i => w i * (l' i * l' i)) = rsum (S m) (fun i => w i * (l i * l i))).
    { apply rsum_ext. intros; unfold l'; ring. }
    assert (E3 : rsum (S m) (fun i => w i * (l' i * l' i) * l' i) =
                 - rsum (S m) (fun i => w i * (l i * l i) * l i)).
    { rewrite (rsum_ext (S m) (fun i => w i * (l' i * l' i) * l' i)
                        (fun i => (-1) * (w i * (l i * l i) * l i)))
        by (intros; unfold l'; ring). rewrite rsum_scal. ring. }
    rewrite E1, E2, E3 in HP. rewrite Ea.
    set (rho := rsum (S m) (fun i => w i * l i) / rsum (S m) w) in *.
    set (rho' := rsum (S m) (fun i => w i * (l i * l i) * l i) /
                 rsum (S m) (fun i => w i * (l i * l i))) in *.
    replace (- rsum (S m) (fun i => w i * l i) / rsum (S m) w) with (- rho) in HP
      by (unfold rho, Rdiv; ring).
    replace (- rsum (S m) (fun i => w i * (l i * l i) * l i) /
             rsum (S m) (fun i => w i * (l i * l i))) with (- rho') in HP
      by (unfold rho', Rdiv; ring).
    replace (- rho - l' 0%nat) with (- (rho - l 0%nat)) in HP by (unfold l'; ring).
    replace (- rho' - l' 0%nat) with (- (rho' - l 0%nat)) in HP by (unfold l'; ring).
    replace (- rho' - - rho) with (- (rho' - rho)) in HP by ring.
    rewrite !Rabs_Ropp in HP. exact HP.
  - (* 0 < l 0 *)
    assert (Ea : Rabs (l 0%nat) = l 0%nat) by (apply Rabs_pos_eq; lra).
    rewrite Ea. rewrite Ea in Hgap.
    exact (wm_pos_summary m w l g Hw0 Hw Hpos Hg Hgap).
Qed.

Lemma wm_var_summary (m : nat) (w l : nat -> R) (g : R) :
  0 < w 0%nat -> (forall i, (i < m)%nat -> 0 <= w (S i)) -> l 0%nat <> 0 -> 0 <= g <= 1 / 2 ->
  (forall i, (i < m)%nat -> Rabs (l (S i)) <= g * Rabs (l 0%nat)) ->
  let rho := rsum (S m) (fun i => w i * l i) / rsum (S m) w in
  rsum (S m) (fun i => w i * ((l i - l 0%nat) * (l i - l 0%nat))) <=
  (1 + g) * Rabs (l 0%nat) * (Rabs (rho - l 0%nat) * rsum (S m) w).
Proof.
  intros Hw0 Hw Hl0 Hg Hgap. cbv zeta.
  destruct (Rtotal_order (l 0%nat) 0) as [Hneg|[Hz|Hpos]]; [|exact (False_ind _ (Hl0 Hz))|].
  - set (l' := fun i => - l i).
    assert (Hl0' : 0 < l' 0%nat) by (unfold l'; lra).
    assert (Ea : Rabs (l 0%nat) = l' 0%nat) by (unfold l'; apply Rabs_left; exact Hneg).
    assert (Hgap' : forall i, (i < m)%nat -> Rabs (l' (S i)) <= g * l' 0%nat).
    { intros i Hi. unfold l' at 1. rewrite Rabs_Ropp, <- Ea. apply Hgap. exact Hi. }
    pose proof (wm_var_pos m w l' g Hw0 Hw Hl0' Hg Hgap') as HP.
    assert (E1 : rsum (S m) (fun i => w i * l' i) = - rsum (S m) (fun i => w i * l i)).
    { rewrite (rsum_ext (S m) (fun i => w i * l' i) (fun i => (-1) * (w i * l i)))
        by (intros; unfold l'; ring). rewrite rsum_scal. ring. }
    assert (E2 : rsum (S m) (fun i => w i * ((l' i - l' 0%nat) * (l' i - l' 0%nat))) =
                 rsum (S m) (fun i => w i * ((l i - l 0%nat) * (l i - l 0%nat)))).
    { apply rsum_ext. intros; unfold l'; ring. }
    rewrite E1, E2 in HP. rewrite Ea.
    set (rho := rsum (S m) (fun i => w i * l i) / rsum (S m) w) in *.
    replace (- rsum (S m) (fun i => w i * l i) / rsum (S m) w) with (- rho) in HP
      by (unfold rho, Rdiv; ring).
    replace (- rho - l' 0%nat) with (- (rho - l 0%nat)) in HP by (unfold l'; ring).
    rewrite Rabs_Ropp in HP. exact HP.
  - assert (Ea : Rabs (l 0%nat) = l 0%nat) by (apply Rabs_pos_eq; lra).
    rewrite Ea. rewrite Ea in Hgap.
    exact (wm_var_pos m w l g Hw0 Hw Hpos Hg Hgap).
Qed.

(* ======================= Part 2: the model's estimates ============================ *)
Section EigenStop.
  Variables (n : nat) (A : arr R) (q : nat -> nat -> R) (lam c : nat -> R) (g : R).
  Let M := aget A.
  Hypothesis Hn : (1 <= n)%nat.
  Hypothesis HA1 : ah A = n.
  Hypothesis HA2 : aw A = n.
  Hypothesis Horth : forall i j, (i < n)%nat -> (j < n)%nat ->
    dotf n (q i) (q j) = if (i =? j)%nat then 1 else 0.
  Hypothesis Heig : forall i s, (i < n)%nat -> (s < n)%nat -> mvf n M (q i) s = lam i * q i s.
  Hypothesis Hones : forall t, (t < n)%nat -> 1 = rsum n (fun i => c i * q i t).
  Hypothesis Hc0 : c 0%nat <> 0.
  Hypothesis Hl0 : lam 0%nat <> 0.
  Hypothesis Hg : 0 <= g <= 1 / 2.
  Hypothesis Hgap : forall i, (1 <= i < n)%nat -> Rabs (lam i) <= g * Rabs (lam 0%nat).

  (* the weights of the k-th estimate *)
  Let wk (k i : nat) : R := (c i * lam i ^ S k) ^ 2.

  (* closed form of the k-th estimate in eigen-coordinates *)
  Lemma rqf_ypow_wmean k :
    rqf n M (ypow n M k) = rsum n (fun i => wk k i * lam i) / rsum n (wk k).
  Proof.
    pose proof (ypow_expand n A q lam c Heig Hones) as HE. fold M in HE.
    assert (ED : dotf n (ypow n M k) (ypow n M k) = rsum n (wk k)).
    { rewrite (parseval n q Horth _ _ _ _ (HE k) (HE k)).
      apply rsum_ext. intros; unfold wk; ring. }
    assert (EN : dotf n (ypow n M k) (mvf n M (ypow n M k)) = rsum n (fun i => wk k i * lam i)).
    { change (mvf n M (ypow n M k)) with (ypow n M (S k)).
      rewrite (parseval n q Horth _ _ _ _ (HE k) (HE (S k))).
      apply rsum_ext. intros i Hi. unfold wk. change (lam i ^ S (S k)) with (lam i * lam i ^ S k). ring. }
    unfold rqf. rewrite ED, EN. reflexivity.
  Qed.

  Lemma rqf_ypow_wmean_S k :
    rqf n M (ypow n M (S k)) =
    rsum n (fun i => wk k i * (lam i * lam i) * lam i) / rsum n (fun i => wk k i * (lam i * lam i)).
  Proof.
    rewrite rqf_ypow_wmean. f_equal; apply rsum_ext; intros i Hi; unfold wk;
      change (lam i ^ S (S k)) with (lam i * lam i ^ S k); ring.
  Qed.

  Lemma wk0_pos k : 0 < wk k 0%nat.
  Proof.
    unfold wk. assert (H : c 0%nat * lam 0%nat ^ S k <> 0).
    { apply Rmult_integral_contrapositive_currified; [exact Hc0|apply pow_nonzero; exact Hl0]. }
    nra.
  Qed.

  Lemma rqf_stop k :
    let rho := rqf n M (ypow n M k) in
    let rho' := rqf n M (ypow n M (S k)) in
    Rabs (rho - lam 0%nat) <= (1 - g) * Rabs (lam 0%nat) / 2 ->
    Rabs (rho' - lam 0%nat) <= 2 * g ^ 2 * Rabs (rho - lam 0%nat) /\
    Rabs (rho' - lam 0%nat) <= Rabs (rho' - rho) /\
    Rabs rho' <= Rabs (lam 0%nat).
  Proof.
    cbv zeta. rewrite rqf_ypow_wmean_S, rqf_ypow_wmean.
    assert (En : n = S (n - 1)) by lia. rewrite En.
    apply (wm_summary (n - 1) (wk k) lam g).
    - apply wk0_pos.
    - intros i Hi. unfold wk. apply pow2_ge_0.
    - exact Hl0.
    - exact Hg.
    - intros i Hi. apply Hgap. lia.
  Qed.

  Lemma pm_state_rqf k rho x : pm_state A k = Ok (rho, x) -> rho = rqf n M (ypow n M k).
  Proof.
    intro H.
    destruct (pm_state_ypow n A q lam c Hn HA1 HA2 Horth Heig Hones Hc0 Hl0 k) as [P [x' [_ [Hst _]]]].
    fold M in Hst. rewrite Hst in H. injection H as <- _. reflexivity.
  Qed.

  Lemma two_g2 : 2 * g ^ 2 <= 1 / 2.
  Proof. nra. Qed.

  (* contraction: inside the basin the error shrinks by 2 g^2 <= 1/2 per iteration,
     so the basin is invariant and the errors decrease monotonically from then on *)
  Lemma rayleigh_error_contracts_sec k rho x rho' x' :
    pm_state A k = Ok (rho, x) -> pm_state A (S k) = Ok (rho', x') ->
    Rabs (rho - lam 0%nat) <= (1 - g) * Rabs (lam 0%nat) / 2 ->
    Rabs (rho' - lam 0%nat) <= 2 * g ^ 2 * Rabs (rho - lam 0%nat) /\
    Rabs (rho' - lam 0%nat) <= Rabs (rho - lam 0%nat) /\
    Rabs (rho' - lam 0%nat) <= (1 - g) * Rabs (lam 0%nat) / 2.
  Proof.
    intros H1 H2 Hb. rewrite (pm_state_rqf _ _ _ H1) in *. rewrite (pm_state_rqf _ _ _ H2) in *.
    destruct (rqf_stop k Hb) as [HC _]. pose proof two_g2 as HG.
    pose proof (Rabs_pos (rqf n M (ypow n M k) - lam 0%nat)) as Hp.
    split; [exact HC|]. split; nra.
  Qed.

  (* the stopping rule: in the basin, the exit test implies the accuracy claim, C = 1 *)
  Lemma stop_rule_accuracy_sec k rho x rho' x' tol :
    pm_state A k = Ok (rho, x) -> pm_state A (S k) = Ok (rho', x') ->
    Rabs (rho - lam 0%nat) <= (1 - g) * Rabs (lam 0%nat) / 2 ->
    Rabs (rho' - rho) < tol * Rabs rho' ->
    Rabs (rho' - lam 0%nat) < tol * Rabs (lam 0%nat).
  Proof.
    intros H1 H2 Hb Hexit. rewrite (pm_state_rqf _ _ _ H1) in *. rewrite (pm_state_rqf _ _ _ H2) in *.
    destruct (rqf_stop k Hb) as [_ [HS HA]].
    set (r := rqf n M (ypow n M k)) in *. set (r' := rqf n M (ypow n M (S k))) in *.
    pose proof (Rabs_pos (r' - r)) as Hp. pose proof (Rabs_pos r') as Hp'.
    assert (Htol : 0 < tol).
    { destruct (Rlt_or_le 0 tol) as [H|H]; [exact H|]. exfalso. nra. }
    assert (tol * Rabs r' <= tol * Rabs (lam 0%nat)) by (apply Rmult_le_compat_l; lra).
    lra.
  Qed.

  (* the basin is entered at the latest when 4 g^(2k+2) sum_(i>=1) c_i^2 <= (1-g) c_0^2 *)
  Lemma basin_after k rho x :
    pm_state A k = Ok (rho, x) ->
    4 * g ^ (2 * k + 2) * rsum (n - 1) (fun i => c (S i) ^ 2) <= (1 - g) * c 0%nat ^ 2 ->
    Rabs (rho - lam 0%nat) <= (1 - g) * Rabs (lam 0%nat) / 2.
  Proof.
    intros H1 Hk. rewrite (pm_state_rqf _ _ _ H1).
    assert (Hg' : 0 <= g < 1) by lra.
    pose proof (rqf_ypow_bound n A q lam c g Hn HA1 HA2 Horth Heig Hones Hc0 Hl0 Hg' Hgap k) as HB.
    fold M in HB. set (E := Rabs (rqf n M (ypow n M k) - lam 0%nat)) in *.
    assert (Hc2 : 0 < c 0%nat ^ 2) by nra.
    pose proof (Rabs_pos (lam 0%nat)) as HL.
    set (X := g ^ (2 * k + 2) * rsum (n - 1) (fun i => c (S i) ^ 2)) in *.
    assert (HB' : E * c 0%nat ^ 2 <= 2 * Rabs (lam 0%nat) * X) by (unfold X; lra).
    assert (Hk' : 4 * X <= (1 - g) * c 0%nat ^ 2) by (unfold X; lra).
    apply Rmult_le_reg_r with (c 0%nat ^ 2); [exact Hc2|]. nra.
  Qed.

  Lemma stop_rule_accuracy_after_sec k rho x rho' x' tol :
    pm_state A k = Ok (rho, x) -> pm_state A (S k) = Ok (rho', x') ->
    4 * g ^ (2 * k + 2) * rsum (n - 1) (fun i => c (S i) ^ 2) <= (1 - g) * c 0%nat ^ 2 ->
    Rabs (rho' - rho) < tol * Rabs rho' ->
    Rabs (rho' - lam 0%nat) < tol * Rabs (lam 0%nat).
  Proof.
    intros H1 H2 Hk. apply (stop_rule_accuracy_sec k rho x rho' x' tol H1 H2).
    exact (basin_after k rho x H1 Hk).
  Qed.
  (* ---- Part 4 (gap (b)): the eigenvector residual ---------------------------------- *)
  Lemma dot_ypow k : rsum n (fun s => ypow n M k s ^ 2) = rsum n (wk k).
  Proof.
    pose proof (ypow_expand n A q lam c Heig Hones) as HE. fold M in HE.
    rewrite (rsum_ext n _ (fun s => ypow n M k s * ypow n M k s)) by (intros; ring).
    change (rsum n (fun s => ypow n M k s * ypow n M k s)) with (dotf n (ypow n M k) (ypow n M k)).
    rewrite (parseval n q Horth _ _ _ _ (HE k) (HE k)).
    apply rsum_ext. intros; unfold wk; ring.
  Qed.

  Lemma dot_ypow_pos k : 0 < rsum n (fun s => ypow n M k s ^ 2).
  Proof.
    rewrite dot_ypow. assert (En : n = S (n - 1)) by lia. rewrite En, rsum_shift.
    pose proof (wk0_pos k).
    assert (0 <= rsum (n - 1) (fun i => wk k (S i))).
    { apply rsum_nonneg. intros; unfold wk; apply pow2_ge_0. }
    lra.
  Qed.

  (* ||A y - mu y||^2 in eigen-coordinates, y = y_k *)
  Lemma resid_ypow k mu :
    rsum n (fun s => (mvf n M (ypow n M k) s - mu * ypow n M k s) ^ 2) =
    rsum n (fun i => wk k i * ((lam i - mu) * (lam i - mu))).
  Proof.
    pose proof (ypow_expand n A q lam c Heig Hones) as HE. fold M in HE.
    set (z := fun s => mvf n M (ypow n M k) s - mu * ypow n M k s).
    rewrite (rsum_ext n _ (fun s => z s * z s)) by (intros; unfold z; ring).
    change (rsum n (fun s => z s * z s)) with (dotf n z z).
    assert (Hz : forall t, (t < n)%nat ->
              z t = rsum n (fun i => (c i * lam i ^ S k * (lam i - mu)) * q i t)).
    { intros t Ht. unfold z. change (mvf n M (ypow n M k)) with (ypow n M (S k)).
      rewrite (HE (S k) t Ht), (HE k t Ht).
      rewrite (rsum_ext n (fun i => c i * lam i ^ S k * (lam i - mu) * q i t)
                 (fun i => c i * lam i ^ S (S k) * q i t + (-1) * (mu * (c i * lam i ^ S k * q i t)))).
      2:{ intros i Hi. change (lam i ^ S (S k)) with (lam i * lam i ^ S k). ring. }
      rewrite rsum_plus, !rsum_scal. ring. }
    rewrite (parseval n q Horth _ _ _ _ Hz Hz).
    apply rsum_ext. intros; unfold wk; ring.
  Qed.

  (* residual of y_k against its own Rayleigh quotient *)
  Lemma resid_ypow_bound k :
    let rho := rqf n M (ypow n M k) in
    rsum n (fun s => (mvf n M (ypow n M k) s - rho * ypow n M k s) ^ 2) <=
    (1 + g) * Rabs (lam 0%nat) * Rabs (rho - lam 0%nat) * rsum n (fun s => ypow n M k s ^ 2).
  Proof.
    cbv zeta.
    destruct (rayleigh_residual n M (ypow n M k)) as [_ Hmin]. cbv zeta in Hmin.
    eapply Rle_trans; [exact (Hmin (lam 0%nat))|].
    rewrite resid_ypow, dot_ypow, rqf_ypow_wmean.
    assert (En : n = S (n - 1)) by lia. rewrite En.
    eapply Rle_trans.
    - apply (wm_var_summary (n - 1) (wk k) lam g).
      + apply wk0_pos.
      + intros i Hi. unfold wk. apply pow2_ge_0.
      + exact Hl0.
      + exact Hg.
      + intros i Hi. apply Hgap. lia.
    - right. ring.
  Qed.

  (* the model's state k: rho is the Rayleigh quotient of x (the SAME vector), x = y_k / P *)
  Lemma residual_bound_sec k rho x :
    pm_state A k = Ok (rho, x) ->
    let xi := fun i => aget x i 0 in
    0 < rsum n (fun s => xi s ^ 2) /\
    rho = rqf n M xi /\
    rsum n (fun s => (mvf n M xi s - rho * xi s) ^ 2) <=
    (1 + g) * Rabs (lam 0%nat) * Rabs (rho - lam 0%nat) * rsum n (fun s => xi s ^ 2).
  Proof.
    intro H. cbv zeta.
    destruct (pm_state_ypow n A q lam c Hn HA1 HA2 Horth Heig Hones Hc0 Hl0 k) as [P [x' [HP [Hst [_ Hx]]]]].
    fold M in Hst, Hx. rewrite Hst in H. injection H as <- <-.
    set (y := ypow n M k) in *. set (r := rqf n M y).
    assert (HiP : / P <> 0) by (apply Rinv_neq_0_compat; exact HP).
    assert (Hxs : forall t, (t < n)%nat -> aget x' t 0 = / P * y t).
    { intros t Ht. rewrite (Hx t Ht). unfold Rdiv. ring. }
    assert (Hmv : forall s, (s < n)%nat -> mvf n M (fun i => aget x' i 0) s = / P * mvf n M y s).
    { intros s Hs. rewrite (mvf_ext n M _ (fun t => / P * y t) s Hxs). apply mvf_scale. }
    assert (EV : rsum n (fun s => aget x' s 0 ^ 2) = (/ P) ^ 2 * rsum n (fun s => y s ^ 2)).
    { rewrite <- rsum_scal. apply rsum_ext. intros s Hs. rewrite (Hxs s Hs). ring. }
    assert (ER : rsum n (fun s => (mvf n M (fun i => aget x' i 0) s - r * aget x' s 0) ^ 2) =
                 (/ P) ^ 2 * rsum n (fun s => (mvf n M y s - r * y s) ^ 2)).
    { rewrite <- rsum_scal. apply rsum_ext. intros s Hs. rewrite (Hmv s Hs), (Hxs s Hs). ring. }
    assert (HP2 : 0 < (/ P) ^ 2) by nra.
    split; [|split].
    - rewrite EV. apply Rmult_lt_0_compat; [exact HP2|apply dot_ypow_pos].
    - unfold r. rewrite (rqf_ext n M _ (fun t => / P * y t) Hxs). symmetry. apply rqf_scale. exact HiP.
    - rewrite ER, EV. pose proof (resid_ypow_bound k) as HB. cbv zeta in HB. fold y r in HB.
      apply Rle_trans with ((/ P) ^ 2 * ((1 + g) * Rabs (lam 0%nat) * Rabs (r - lam 0%nat) *
                                         rsum n (fun s => y s ^ 2))).
      + apply Rmult_le_compat_l; [lra|exact HB].
      + right. ring.
  Qed.
End EigenStop.

(* ======================= Part 3: closed statements ================================ *)
Lemma rayleigh_error_contracts : forall (n : nat) (A : arr R) (q : nat -> nat -> R) (lam c : nat -> R) (g : R),
  (1 <= n)%nat -> ah A = n -> aw A = n ->
  (forall i j, (i < n)%nat -> (j < n)%nat ->
     dotf n (q i) (q j) = if (i =? j)%nat then 1 else 0) ->
  (forall i s, (i < n)%nat -> (s < n)%nat -> mvf n (aget A) (q i) s = lam i * q i s) ->
  (forall t, (t < n)%nat -> 1 = rsum n (fun i => c i * q i t)) ->
  c 0%nat <> 0 -> lam 0%nat <> 0 -> 0 <= g <= 1 / 2 ->
  (forall i, (1 <= i < n)%nat -> Rabs (lam i) <= g * Rabs (lam 0%nat)) ->
  forall k rho x rho' x',
    pm_state A k = Ok (rho, x) -> pm_state A (S k) = Ok (rho', x') ->
    Rabs (rho - lam 0%nat) <= (1 - g) * Rabs (lam 0%nat) / 2 ->
    Rabs (rho' - lam 0%nat) <= 2 * g ^ 2 * Rabs (rho - lam 0%nat) /\
    Rabs (rho' - lam 0%nat) <= Rabs (rho - lam 0%nat) /\
    Rabs (rho' - lam 0%nat) <= (1 - g) * Rabs (lam 0%nat) / 2.
Proof. exact rayleigh_error_contracts_sec. Qed.

Lemma stop_rule_accuracy : forall (n : nat) (A : arr R) (q : nat -> nat -> R) (lam c : nat -> R) (g : R),
  (1 <= n)%nat -> ah A = n -> aw A = n ->
  (forall i j, (i < n)%nat -> (j < n)%nat ->
     dotf n (q i) (q j) = if (i =? j)%nat then 1 else 0) ->
  (forall i s, (i < n)%nat -> (s < n)%nat -> mvf n (aget A) (q i) s = lam i * q i s) ->
  (forall t, (t < n)%nat -> 1 = rsum n (fun i => c i * q i t)) ->
  c 0%nat <> 0 -> lam 0%nat <> 0 -> 0 <= g <= 1 / 2 ->
  (forall i, (1 <= i < n)%nat -> Rabs (lam i) <= g * Rabs (lam 0%nat)) ->
  forall k rho x rho' x' tol,
    pm_state A k = Ok (rho, x) -> pm_state A (S k) = Ok (rho', x') ->
    Rabs (rho - lam 0%nat) <= (1 - g) * Rabs (lam 0%nat) / 2 ->
    Rabs (rho' - rho) < tol * Rabs rho' ->
    Rabs (rho' - lam 0%nat) < tol * Rabs (lam 0%nat).
Proof. exact stop_rule_accuracy_sec. Qed.

Lemma stop_rule_accuracy_after : forall (n : nat) (A : arr R) (q : nat -> nat -> R) (lam c : nat -> R) (g : R),
  (1 <= n)%nat -> ah A = n -> aw A = n ->
  (forall i j, (i < n)%nat -> (j < n)%nat ->
     dotf n (q i) (q j) = if (i =? j)%nat then 1 else 0) ->
  (forall i s, (i < n)%nat -> (s < n)%nat -> mvf n (aget A) (q i) s = lam i * q i s) ->
  (forall t, (t < n)%nat -> 1 = rsum n (fun i => c i * q i t)) ->
  c 0%nat <> 0 -> lam 0%nat <> 0 -> 0 <= g <= 1 / 2 ->
  (forall i, (1 <= i < n)%nat -> Rabs (lam i) <= g * Rabs (lam 0%nat)) ->
  forall k rho x rho' x' tol,
    pm_state A k = Ok (rho, x) -> pm_state A (S k) = Ok (rho', x') ->
    4 * g ^ (2 * k + 2) * rsum (n - 1) (fun i => c (S i) ^ 2) <= (1 - g) * c 0%nat ^ 2 ->
    Rabs (rho' - rho) < tol * Rabs rho' ->
    Rabs (rho' - lam 0%nat) < tol * Rabs (lam 0%nat).
Proof. exact stop_rule_accuracy_after_sec. Qed.

(* ... for the answer of power_method itself: the answer (ev, v) is the state number k+1 of the
   trace, it left the loop by the exit test against the estimate prev of state number k, and if
   prev was inside the basin then |ev - lam_0| < es |lam_0|. *)
Lemma stop_rule_accuracy_pm : forall (rows : list (list R)) (es ev : R) (v : arr R)
    (n : nat) (A : arr R) (q : nat -> nat -> R) (lam c : nat -> R) (g : R),
  power_method rows es = Ok (ev, v) -> try_from rows = Ok A ->
  (1 <= n)%nat -> ah A = n -> aw A = n ->
  (forall i j, (i < n)%nat -> (j < n)%nat ->
     dotf n (q i) (q j) = if (i =? j)%nat then 1 else 0) ->
  (forall i s, (i < n)%nat -> (s < n)%nat -> mvf n (aget A) (q i) s = lam i * q i s) ->
  (forall t, (t < n)%nat -> 1 = rsum n (fun i => c i * q i t)) ->
  c 0%nat <> 0 -> lam 0%nat <> 0 -> 0 <= g <= 1 / 2 ->
  (forall i, (1 <= i < n)%nat -> Rabs (lam i) <= g * Rabs (lam 0%nat)) ->
  exists (k : nat) (prev : R) (x : arr R),
    (N.of_nat k < MAX_ITERATIONS)%N /\
    pm_state A k = Ok (prev, x) /\ pm_state A (S k) = Ok (ev, v) /\
    (Rabs (prev - lam 0%nat) <= (1 - g) * Rabs (lam 0%nat) / 2 ->
     Rabs (ev - lam 0%nat) < es * Rabs (lam 0%nat)).
Proof.
  intros rows es ev v n A q lam c g Hpm Htf Hn HA1 HA2 Horth Heig Hones Hc0 Hl0 Hg Hgap.
  destruct (c13_exit_R rows es ev v Hpm)
    as [A' [k [prev [x [ea [Htf' [Hk [_ [Hst [Hstep [_ [_ Hexit]]]]]]]]]]]].
  rewrite Htf in Htf'. injection Htf' as <-.
  assert (HstS : pm_state A (S k) = Ok (ev, v)).
  { cbn [pm_state]. rewrite Hst. cbn [bind fst snd]. rewrite Hstep. reflexivity. }
  exists k, prev, x. split; [exact Hk|]. split; [exact Hst|]. split; [exact HstS|].
  intro Hb.
  destruct (rayleigh_error_contracts n A q lam c g Hn HA1 HA2 Horth Heig Hones Hc0 Hl0 Hg Hgap
              k prev x ev v Hst HstS Hb) as [_ [_ Hb']].
  assert (Hev : ev <> 0).
  { intro Hz. rewrite Hz in Hb'. replace (0 - lam 0%nat) with (- lam 0%nat) in Hb' by ring.
    rewrite Rabs_Ropp in Hb'. pose proof (Rabs_pos_lt _ Hl0). nra. }
  exact (stop_rule_accuracy n A q lam c g Hn HA1 HA2 Horth Heig Hones Hc0 Hl0 Hg Hgap
           k prev x ev v es Hst HstS Hb (Hexit Hev)).
Qed.

Lemma pow_even_le_sq (g : R) (k : nat) : 0 <= g <= 1 -> g ^ (2 * k + 2) <= g ^ 2.
Proof.
  intro Hg. replace (2 * k + 2)%nat with (2 + 2 * k)%nat by lia. rewrite pow_add.
  assert (H1 : 0 <= g ^ (2 * k) <= 1).
  { split; [apply pow_le; lra|]. rewrite <- (pow1 (2 * k)). apply pow_incr. lra. }
  assert (0 <= g ^ 2) by apply pow2_ge_0. nra.
Qed.

(* ... and unconditionally when the start vector (all ones) is already inside the basin:
   4 g^2 sum_(i>=1) c_i^2 <= (1 - g) c_0^2.  Then EVERY Ok answer is accurate. *)
Lemma stop_rule_accuracy_pm_start : forall (rows : list (list R)) (es ev : R) (v : arr R)
    (n : nat) (A : arr R) (q : nat -> nat -> R) (lam c : nat -> R) (g : R),
  power_method rows es = Ok (ev, v) -> try_from rows = Ok A ->
  (1 <= n)%nat -> ah A = n -> aw A = n ->
  (forall i j, (i < n)%nat -> (j < n)%nat ->
     dotf n (q i) (q j) = if (i =? j)%nat then 1 else 0) ->
  (forall i s, (i < n)%nat -> (s < n)%nat -> mvf n (aget A) (q i) s = lam i * q i s) ->
  (forall t, (t < n)%nat -> 1 = rsum n (fun i => c i * q i t)) ->
  c 0%nat <> 0 -> lam 0%nat <> 0 -> 0 <= g <= 1 / 2 ->
  (forall i, (1 <= i < n)%nat -> Rabs (lam i) <= g * Rabs (lam 0%nat)) ->
  4 * g ^ 2 * rsum (n - 1) (fun i => c (S i) ^ 2) <= (1 - g) * c 0%nat ^ 2 ->
  Rabs (ev - lam 0%nat) < es * Rabs (lam 0%nat).
Proof.
  intros rows es ev v n A q lam c g Hpm Htf Hn HA1 HA2 Horth Heig Hones Hc0 Hl0 Hg Hgap Hstart.
  destruct (stop_rule_accuracy_pm rows es ev v n A q lam c g Hpm Htf Hn HA1 HA2 Horth Heig Hones
              Hc0 Hl0 Hg Hgap) as [k [prev [x [_ [Hst [_ Himp]]]]]].
  apply Himp.
  apply (basin_after n A q lam c g Hn HA1 HA2 Horth Heig Hones Hc0 Hl0 Hg Hgap k prev x Hst).
  assert (HS : 0 <= rsum (n - 1) (fun i => c (S i) ^ 2)).
  { apply rsum_nonneg. intros; apply pow2_ge_0. }
  assert (HP : g ^ (2 * k + 2) <= g ^ 2) by (apply pow_even_le_sq; lra).
  assert (g ^ (2 * k + 2) * rsum (n - 1) (fun i => c (S i) ^ 2)
          <= g ^ 2 * rsum (n - 1) (fun i => c (S i) ^ 2)) by (apply Rmult_le_compat_r; assumption).
  lra.
Qed.

(* ======================= non-vacuity ============================================== *)
(* A = diag(2, 1), q_i = e_i, c = (1, 1), g = 1/2: the eigen hypotheses hold *)
Definition q21 (i t : nat) : R := if (i =? t)%nat then 1 else 0.
Definition lam21 (i : nat) : R := if (i =? 0)%nat then 2 else 1.
Definition D21 : arr R := mk_arr 2 2 [2; 0; 0; 1].

Lemma d21_orth : forall i j, (i < 2)%nat -> (j < 2)%nat ->
  dotf 2 (q21 i) (q21 j) = if (i =? j)%nat then 1 else 0.
Proof.
  intros i j Hi Hj. destruct i as [|[|i]]; destruct j as [|[|j]]; try lia;
    unfold dotf, q21; cbn [rsum Nat.eqb]; ring.
Qed.
Lemma d21_eig : forall i s, (i < 2)%nat -> (s < 2)%nat ->
  mvf 2 (aget D21) (q21 i) s = lam21 i * q21 i s.
Proof.
  intros i s Hi Hs. destruct i as [|[|i]]; destruct s as [|[|s]]; try lia;
    unfold mvf, aget, D21, q21, lam21; cbn [rsum aw ad nth Nat.mul Nat.add Nat.eqb]; ring.
Qed.
Lemma d21_ones : forall t, (t < 2)%nat -> 1 = rsum 2 (fun i => 1 * q21 i t).
Proof. intros t Ht. destruct t as [|[|t]]; try lia; unfold q21; cbn [rsum Nat.eqb]; ring. Qed.
Lemma d21_gap : forall i, (1 <= i < 2)%nat -> Rabs (lam21 i) <= 1 / 2 * Rabs (lam21 0%nat).
Proof.
  intros i Hi. assert (i = 1)%nat by lia. subst i. unfold lam21. cbn [Nat.eqb].
  rewrite Rabs_R1, (Rabs_pos_eq 2) by lra. lra.
Qed.

Lemma Rabs_le_both (x a : R) : Rabs x <= a -> - a <= x <= a.
Proof. unfold Rabs. destruct (Rcase_abs x); intro; lra. Qed.

(* states 1 and 2 exist, state 1 is inside the basin ((1 - g) |lam_0| / 2 = 1/2), the exit
   test holds for tol = 1, and therefore the conclusion of stop_rule_accuracy *)
Lemma stop_example : exists rho x rho' x',
  pm_state D21 1 = Ok (rho, x) /\ pm_state D21 2 = Ok (rho', x') /\
  Rabs (rho - 2) <= (1 - 1 / 2) * Rabs 2 / 2 /\
  Rabs (rho' - rho) < 1 * Rabs rho' /\
  Rabs (rho' - 2) < 1 * Rabs 2.
Proof.
  assert (Hl0 : lam21 0%nat <> 0) by (unfold lam21; cbn [Nat.eqb]; lra).
  assert (Hg' : 0 <= 1 / 2 < 1) by lra.
  assert (Hg : 0 <= 1 / 2 <= 1 / 2) by lra.
  destruct (c13_rayleigh_error_R 2 D21 q21 lam21 (fun _ => 1) (1 / 2)
              (le_S _ _ (le_n 1)) eq_refl eq_refl d21_orth d21_eig d21_ones R1_neq_R0 Hl0 Hg' d21_gap 1%nat)
    as [rho [x [Hst [_ Hb]]]].
  destruct (c13_rayleigh_error_R 2 D21 q21 lam21 (fun _ => 1) (1 / 2)
              (le_S _ _ (le_n 1)) eq_refl eq_refl d21_orth d21_eig d21_ones R1_neq_R0 Hl0 Hg' d21_gap 2%nat)
    as [rho' [x' [Hst' [_ Hb']]]].
  unfold lam21 in Hb, Hb'. cbn [Nat.eqb Nat.sub Nat.mul Nat.add rsum] in Hb, Hb'.
  rewrite (Rabs_pos_eq 2) in Hb, Hb' by lra. rewrite (Rabs_pos_eq 2) by lra.
  assert (B1 : Rabs (rho - 2) <= 1 / 4) by lra.
  assert (B2 : Rabs (rho' - 2) <= 1 / 16) by lra.
  assert (Hbasin : Rabs (rho - 2) <= (1 - 1 / 2) * 2 / 2) by lra.
  exists rho, x, rho', x'. split; [exact Hst|]. split; [exact Hst'|]. split; [exact Hbasin|].
  assert (Hexit : Rabs (rho' - rho) < 1 * Rabs rho').
  { apply Rabs_le_both in B1. apply Rabs_le_both in B2.
    rewrite (Rabs_pos_eq rho') by lra. apply Rabs_def1; lra. }
  split; [exact Hexit|].
  pose proof (stop_rule_accuracy 2 D21 q21 lam21 (fun _ => 1) (1 / 2)
                (le_S _ _ (le_n 1)) eq_refl eq_refl d21_orth d21_eig d21_ones R1_neq_R0 Hl0 Hg d21_gap
                1%nat rho x rho' x' 1 Hst Hst') as HS.
  unfold lam21 in HS. cbn [Nat.eqb] in HS. rewrite (Rabs_pos_eq 2) in HS by lra.
  exact (HS Hbasin Hexit).
Qed.

(* the hypotheses of stop_rule_accuracy_pm_start are met by the 1 x 1 matrix (2) *)
Lemma stop_pm_example : exists ev v, power_method [[2]] (1 / 2) = Ok (ev, v) /\
  Rabs (ev - 2) < 1 / 2 * Rabs 2.
Proof.
  eexists _, _. split; [apply c13_accuracy_1x1_R; lra|].
  apply (stop_rule_accuracy_pm_start [[2]] (1 / 2) 2 (mk_arr 1 1 [1]) 1 (mk_arr 1 1 [2])
           (fun _ _ => 1) (fun _ => 2) (fun _ => 1) 0).
  - apply c13_accuracy_1x1_R; lra.
  - reflexivity.
  - lia.
  - reflexivity.
  - reflexivity.
  - intros i j Hi Hj. assert (i = 0)%nat by lia. assert (j = 0)%nat by lia. subst.
    unfold dotf. cbn [rsum Nat.eqb]. ring.
  - intros i s Hi Hs. assert (s = 0)%nat by lia. subst.
    unfold mvf, aget. cbn [rsum aw ad nth Nat.mul Nat.add]. ring.
  - intros t Ht. cbn [rsum]. ring.
  - lra.
  - lra.
  - lra.
  - intros i Hi. lia.
  - cbn [Nat.sub rsum]. lra.
Qed.

(* ======================= Part 4: the eigenvector residual, closed statements ========= *)
(* state k of the model: its eigenvalue rho is the Rayleigh quotient of its vector x (the SAME
   vector), x is not the zero vector, and ||A x - rho x||^2 <= (1+g) |lam_0| |rho - lam_0| ||x||^2 *)
Lemma residual_bound : forall (n : nat) (A : arr R) (q : nat -> nat -> R) (lam c : nat -> R) (g : R),
  (1 <= n)%nat -> ah A = n -> aw A = n ->
  (forall i j, (i < n)%nat -> (j < n)%nat ->
     dotf n (q i) (q j) = if (i =? j)%nat then 1 else 0) ->
  (forall i s, (i < n)%nat -> (s < n)%nat -> mvf n (aget A) (q i) s = lam i * q i s) ->
  (forall t, (t < n)%nat -> 1 = rsum n (fun i => c i * q i t)) ->
  c 0%nat <> 0 -> lam 0%nat <> 0 -> 0 <= g <= 1 / 2 ->
  (forall i, (1 <= i < n)%nat -> Rabs (lam i) <= g * Rabs (lam 0%nat)) ->
  forall k rho x, pm_state A k = Ok (rho, x) ->
    let xi := fun i => aget x i 0 in
    0 < rsum n (fun s => xi s ^ 2) /\
    rho = rqf n (aget A) xi /\
    rsum n (fun s => (mvf n (aget A) xi s - rho * xi s) ^ 2) <=
    (1 + g) * Rabs (lam 0%nat) * Rabs (rho - lam 0%nat) * rsum n (fun s => xi s ^ 2).
Proof. exact residual_bound_sec. Qed.

Lemma residual_accuracy_pm : forall (rows : list (list R)) (es ev : R) (v : arr R)
    (n : nat) (A : arr R) (q : nat -> nat -> R) (lam c : nat -> R) (g : R),
  power_method rows es = Ok (ev, v) -> try_from rows = Ok A ->
  (1 <= n)%nat -> ah A = n -> aw A = n ->
  (forall i j, (i < n)%nat -> (j < n)%nat ->
     dotf n (q i) (q j) = if (i =? j)%nat then 1 else 0) ->
  (forall i s, (i < n)%nat -> (s < n)%nat -> mvf n (aget A) (q i) s = lam i * q i s) ->
  (forall t, (t < n)%nat -> 1 = rsum n (fun i => c i * q i t)) ->
  c 0%nat <> 0 -> lam 0%nat <> 0 -> 0 <= g <= 1 / 2 ->
  (forall i, (1 <= i < n)%nat -> Rabs (lam i) <= g * Rabs (lam 0%nat)) ->
  exists (k : nat) (prev : R) (x : arr R),
    (N.of_nat k < MAX_ITERATIONS)%N /\
    pm_state A k = Ok (prev, x) /\ pm_state A (S k) = Ok (ev, v) /\
    (Rabs (prev - lam 0%nat) <= (1 - g) * Rabs (lam 0%nat) / 2 ->
     let vi := fun i => aget v i 0 in
     let Av := mvf n (aget A) vi in
     rsum n (fun i => (Av i - ev * vi i) ^ 2) <
     (1 + g) * es * lam 0%nat ^ 2 * rsum n (fun i => vi i ^ 2)).
Proof.
  intros rows es ev v n A q lam c g Hpm Htf Hn HA1 HA2 Horth Heig Hones Hc0 Hl0 Hg Hgap.
  destruct (stop_rule_accuracy_pm rows es ev v n A q lam c g Hpm Htf Hn HA1 HA2 Horth Heig Hones
              Hc0 Hl0 Hg Hgap) as [k [prev [x [Hk [Hst [HstS Himp]]]]]].
  exists k, prev, x. split; [exact Hk|]. split; [exact Hst|]. split; [exact HstS|].
  intro Hb. cbv zeta. specialize (Himp Hb).
  destruct (residual_bound n A q lam c g Hn HA1 HA2 Horth Heig Hones Hc0 Hl0 Hg Hgap (S k) ev v HstS)
    as [HV [_ HB]]. cbv zeta in HV, HB.
  eapply Rle_lt_trans; [exact HB|].
  set (V := rsum n (fun s => aget v s 0 ^ 2)) in *.
  set (L := Rabs (lam 0%nat)) in *. set (e := Rabs (ev - lam 0%nat)) in *.
  assert (HL : 0 < L) by (apply Rabs_pos_lt; exact Hl0).
  rewrite <- (pow2_abs (lam 0%nat)). fold L.
  assert (HK : 0 < (1 + g) * L * V).
  { apply Rmult_lt_0_compat; [apply Rmult_lt_0_compat; lra|exact HV]. }
  replace ((1 + g) * L * e * V) with ((1 + g) * L * V * e) by ring.
  replace ((1 + g) * es * L ^ 2 * V) with ((1 + g) * L * V * (es * L)) by ring.
  apply Rmult_lt_compat_l; assumption.
Qed.

Lemma residual_accuracy_pm_start : forall (rows : list (list R)) (es ev : R) (v : arr R)
    (n : nat) (A : arr R) (q : nat -> nat -> R) (lam c : nat -> R) (g : R),
  power_method rows es = Ok (ev, v) -> try_from rows = Ok A ->
  (1 <= n)%nat -> ah A = n -> aw A = n ->
  (forall i j, (i < n)%nat -> (j < n)%nat ->
     dotf n (q i) (q j) = if (i =? j)%nat then 1 else 0) ->
  (forall i s, (i < n)%nat -> (s < n)%nat -> mvf n (aget A) (q i) s = lam i * q i s) ->
  (forall t, (t < n)%nat -> 1 = rsum n (fun i => c i * q i t)) ->
  c 0%nat <> 0 -> lam 0%nat <> 0 -> 0 <= g <= 1 / 2 ->
  (forall i, (1 <= i < n)%nat -> Rabs (lam i) <= g * Rabs (lam 0%nat)) ->
  4 * g ^ 2 * rsum (n - 1) (fun i => c (S i) ^ 2) <= (1 - g) * c 0%nat ^ 2 ->
  let vi := fun i => aget v i 0 in
  let Av := mvf n (aget A) vi in
  rsum n (fun i => (Av i - ev * vi i) ^ 2) <
  (1 + g) * es * lam 0%nat ^ 2 * rsum n (fun i => vi i ^ 2).
Proof.
  intros rows es ev v n A q lam c g Hpm Htf Hn HA1 HA2 Horth Heig Hones Hc0 Hl0 Hg Hgap Hstart.
  destruct (residual_accuracy_pm rows es ev v n A q lam c g Hpm Htf Hn HA1 HA2 Horth Heig Hones
              Hc0 Hl0 Hg Hgap) as [k [prev [x [_ [Hst [_ Himp]]]]]].
  apply Himp.
  apply (basin_after n A q lam c g Hn HA1 HA2 Horth Heig Hones Hc0 Hl0 Hg Hgap k prev x Hst).
  assert (HS : 0 <= rsum (n - 1) (fun i => c (S i) ^ 2)).
  { apply rsum_nonneg. intros; apply pow2_ge_0. }
  assert (HP : g ^ (2 * k + 2) <= g ^ 2) by (apply pow_even_le_sq; lra).
  assert (g ^ (2 * k + 2) * rsum (n - 1) (fun i => c (S i) ^ 2)
          <= g ^ 2 * rsum (n - 1) (fun i => c (S i) ^ 2)) by (apply Rmult_le_compat_r; assumption).
  lra.
Qed.

(* non-vacuity: state 1 of diag(2,1) (hypotheses discharged with q_i = e_i, c = (1,1), g = 1/2) *)
Lemma residual_example : exists rho x,
  pm_state D21 1 = Ok (rho, x) /\
  0 < rsum 2 (fun s => aget x s 0 ^ 2) /\
  rsum 2 (fun s => (mvf 2 (aget D21) (fun i => aget x i 0) s - rho * aget x s 0) ^ 2) <=
  (1 + 1 / 2) * Rabs 2 * Rabs (rho - 2) * rsum 2 (fun s => aget x s 0 ^ 2).
Proof.
  assert (Hl0 : lam21 0%nat <> 0) by (unfold lam21; cbn [Nat.eqb]; lra).
  assert (Hg' : 0 <= 1 / 2 < 1) by lra.
  assert (Hg : 0 <= 1 / 2 <= 1 / 2) by lra.
  destruct (c13_rayleigh_error_R 2 D21 q21 lam21 (fun _ => 1) (1 / 2)
              (le_S _ _ (le_n 1)) eq_refl eq_refl d21_orth d21_eig d21_ones R1_neq_R0 Hl0 Hg' d21_gap 1%nat)
    as [rho [x [Hst _]]].
  destruct (residual_bound 2 D21 q21 lam21 (fun _ => 1) (1 / 2)
              (le_S _ _ (le_n 1)) eq_refl eq_refl d21_orth d21_eig d21_ones R1_neq_R0 Hl0 Hg d21_gap
              1%nat rho x Hst) as [HV [_ HB]].
  exists rho, x. split; [exact Hst|]. split; [exact HV|].
  unfold lam21 in HB. cbn [Nat.eqb] in HB. exact HB.
Qed.

(* ... and the end-to-end statement on the 1 x 1 matrix (2) *)
Lemma residual_pm_example : exists ev v, power_method [[2]] (1 / 2) = Ok (ev, v) /\
  rsum 1 (fun i => (mvf 1 (aget (mk_arr 1 1 [2])) (fun i => aget v i 0) i - ev * aget v i 0) ^ 2) <
  (1 + 0) * (1 / 2) * 2 ^ 2 * rsum 1 (fun i => aget v i 0 ^ 2).
Proof.
  eexists _, _. split; [apply c13_accuracy_1x1_R; lra|].
  apply (residual_accuracy_pm_start [[2]] (1 / 2) 2 (mk_arr 1 1 [1]) 1 (mk_arr 1 1 [2])
           (fun _ _ => 1) (fun _ => 2) (fun _ => 1) 0).
  - apply c13_accuracy_1x1_R; lra.
  - reflexivity.
  - lia.
  - reflexivity.
  - reflexivity.
  - intros i j Hi Hj. assert (i = 0)%nat by lia. assert (j = 0)%nat by lia. subst.
    unfold dotf. cbn [rsum Nat.eqb]. ring.
  - intros i s Hi Hs. assert (s = 0)%nat by lia. subst.
    unfold mvf, aget. cbn [rsum aw ad nth Nat.mul Nat.add]. ring.
  - intros t Ht. cbn [rsum]. ring.
  - lra.
  - lra.
  - lra.
  - intros i Hi. lia.
  - cbn [Nat.sub rsum]. lra.
Qed.

(* the same with the RETURNED eigenvalue on the right-hand side (the property's form): inside
   the basin |lam_0| <= 2 |ev|, hence ||A v - ev v||^2 < 4 (1+g) es ev^2 ||v||^2 *)
Lemma residual_accuracy_pm_start_ev : forall (rows : list (list R)) (es ev : R) (v : arr R)
    (n : nat) (A : arr R) (q : nat -> nat -> R) (lam c : nat -> R) (g : R),
  power_method rows es = Ok (ev, v) -> try_from rows = Ok A ->
  (1 <= n)%nat -> ah A = n -> aw A = n ->
  (forall i j, (i < n)%nat -> (j < n)%nat ->
     dotf n (q i) (q j) = if (i =? j)%nat then 1 else 0) ->
  (forall i s, (i < n)%nat -> (s < n)%nat -> mvf n (aget A) (q i) s = lam i * q i s) ->
  (forall t, (t < n)%nat -> 1 = rsum n (fun i => c i * q i t)) ->
  c 0%nat <> 0 -> lam 0%nat <> 0 -> 0 <= g <= 1 / 2 ->
  (forall i, (1 <= i < n)%nat -> Rabs (lam i) <= g * Rabs (lam 0%nat)) ->
  4 * g ^ 2 * rsum (n - 1) (fun i => c (S i) ^ 2) <= (1 - g) * c 0%nat ^ 2 ->
  let vi := fun i => aget v i 0 in
  let Av := mvf n (aget A) vi in
  rsum n (fun i => (Av i - ev * vi i) ^ 2) <
  4 * (1 + g) * es * ev ^ 2 * rsum n (fun i => vi i ^ 2).
Proof.
  intros rows es ev v n A q lam c g Hpm Htf Hn HA1 HA2 Horth Heig Hones Hc0 Hl0 Hg Hgap Hstart.
  pose proof (residual_accuracy_pm_start rows es ev v n A q lam c g Hpm Htf Hn HA1 HA2 Horth Heig
                Hones Hc0 Hl0 Hg Hgap Hstart) as HR.
  pose proof (stop_rule_accuracy_pm_start rows es ev v n A q lam c g Hpm Htf Hn HA1 HA2 Horth Heig
                Hones Hc0 Hl0 Hg Hgap Hstart) as HE.
  destruct (stop_rule_accuracy_pm rows es ev v n A q lam c g Hpm Htf Hn HA1 HA2 Horth Heig Hones
              Hc0 Hl0 Hg Hgap) as [k [prev [x [_ [Hst [HstS _]]]]]].
  assert (Hb : Rabs (prev - lam 0%nat) <= (1 - g) * Rabs (lam 0%nat) / 2).
  { apply (basin_after n A q lam c g Hn HA1 HA2 Horth Heig Hones Hc0 Hl0 Hg Hgap k prev x Hst).
    assert (HS : 0 <= rsum (n - 1) (fun i => c (S i) ^ 2)).
    { apply rsum_nonneg. intros; apply pow2_ge_0. }
    assert (HP : g ^ (2 * k + 2) <= g ^ 2) by (apply pow_even_le_sq; lra).
    assert (g ^ (2 * k + 2) * rsum (n - 1) (fun i => c (S i) ^ 2)
            <= g ^ 2 * rsum (n - 1) (fun i => c (S i) ^ 2)) by (apply Rmult_le_compat_r; assumption).
    lra. }
  destruct (rayleigh_error_contracts n A q lam c g Hn HA1 HA2 Horth Heig Hones Hc0 Hl0 Hg Hgap
              k prev x ev v Hst HstS Hb) as [_ [_ Hb']].
  destruct (residual_bound n A q lam c g Hn HA1 HA2 Horth Heig Hones Hc0 Hl0 Hg Hgap (S k) ev v HstS)
    as [HV _].
  cbv beta zeta in *.
  set (V := rsum n (fun s => aget v s 0 ^ 2)) in *.
  set (L := Rabs (lam 0%nat)) in *.
  assert (HL : 0 < L) by (apply Rabs_pos_lt; exact Hl0).
  pose proof (Rabs_pos (ev - lam 0%nat)) as He.
  assert (Hes : 0 < es).
  { destruct (Rlt_or_le 0 es) as [H|H]; [exact H|]. exfalso. nra. }
  assert (HLe : L <= 2 * Rabs ev).
  { assert (Ht : L <= Rabs ev + Rabs (ev - lam 0%nat)).
    { unfold L. replace (lam 0%nat) with (ev - (ev - lam 0%nat)) at 1 by ring.
      unfold Rminus at 1. eapply Rle_trans; [apply Rabs_triang|]. rewrite Rabs_Ropp. lra. }
    assert (0 <= g * L) by (apply Rmult_le_pos; lra). lra. }
  assert (HL2 : lam 0%nat ^ 2 <= 4 * ev ^ 2).
  { rewrite <- (pow2_abs (lam 0%nat)), <- (pow2_abs ev). fold L. pose proof (Rabs_pos ev). nra. }
  eapply Rlt_le_trans; [exact HR|].
  assert (HK : 0 <= (1 + g) * es * V).
  { apply Rmult_le_pos; [apply Rmult_le_pos; lra|lra]. }
  replace ((1 + g) * es * lam 0%nat ^ 2 * V) with ((1 + g) * es * V * lam 0%nat ^ 2) by ring.
  replace (4 * (1 + g) * es * ev ^ 2 * V) with ((1 + g) * es * V * (4 * ev ^ 2)) by ring.
  apply Rmult_le_compat_l; assumption.
Qed.
