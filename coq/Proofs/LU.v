(* Proofs/LU.v — finite sums, triangular systems, and the Doolittle
   factorisation of Model/LU.v (R instance: exact arithmetic). *)
From Coq Require Import ZArith List Arith Bool Reals Lra Lia.
From SV Require Import Base.Num Base.Outcome Base.Mat Model.Subst Model.LU.
Import ListNotations.
Local Open Scope R_scope.

(* ---------------------------------------------------------------------------
   Specification vocabulary (used by Properties/C09.v and C10.v)
   --------------------------------------------------------------------------- *)
(* msum lo len f = f lo + ... + f (lo+len-1) *)
Fixpoint msum (lo len : nat) (f : nat -> R) : R :=
  match len with
  | O => 0
  | S l => msum lo l f + f (lo + l)%nat
  end.

(* entry (i,j) of the product of two n x n matrices *)
Definition mprod (n : nat) (A B : mat R) (i j : nat) : R := msum 0 n (fun t => A i t * B t j).

Definition unit_lower (n : nat) (L : mat R) : Prop :=
  forall i j, (i < n)%nat -> (j < n)%nat -> (i = j -> L i j = 1) /\ ((i < j)%nat -> L i j = 0).
Definition upper_tri (n : nat) (U : mat R) : Prop :=
  forall i j, (i < n)%nat -> (j < n)%nat -> (j < i)%nat -> U i j = 0.

(* s is a permutation of {0..n-1}: it has a two-sided inverse on that set *)
Definition perm_on (n : nat) (s : nat -> nat) : Prop :=
  exists s', forall i, (i < n)%nat -> (s i < n)%nat /\ (s' i < n)%nat /\ s' (s i) = i /\ s (s' i) = i.
(* P is the permutation matrix of s: row i has its 1 in column s i, so (P A) i j = A (s i) j *)
Definition perm_mat (n : nat) (s : nat -> nat) (P : mat R) : Prop :=
  forall i j, (i < n)%nat -> (j < n)%nat -> P i j = if (j =? s i)%nat then 1 else 0.
Definition is_perm_mat (n : nat) (P : mat R) : Prop := exists s, perm_on n s /\ perm_mat n s P.

(* w is a non-trivial left null vector of the leading k x k block of A *)
Definition left_null (k : nat) (A : mat R) (w : nat -> R) : Prop :=
  (exists i, (i < k)%nat /\ w i <> 0) /\ forall j, (j < k)%nat -> msum 0 k (fun i => w i * A i j) = 0.

(* ---------------------------------------------------------------------------
   Sums
   --------------------------------------------------------------------------- *)
Lemma sum_range_R (init : R) lo len (f : nat -> R) : sum_range init lo len f = init + msum lo len f.
Proof.
  unfold sum_range. induction len as [|len IH].
  - cbn. ring.
  - rewrite for_range_S, IH. cbn [msum nadd RNum]. ring.
Qed.

Lemma msum_ext lo len f g :
  (forall t, (lo <= t < lo + len)%nat -> f t = g t) -> msum lo len f = msum lo len g.
Proof.
  induction len as [|len IH]; intro H; [reflexivity|].
  cbn [msum]. rewrite IH by (intros t Ht; apply H; lia). rewrite (H (lo + len)%nat) by lia. reflexivity.
Qed.

Lemma msum_zero lo len f : (forall t, (lo <= t < lo + len)%nat -> f t = 0) -> msum lo len f = 0.
Proof.
  induction len as [|len IH]; intro H; [reflexivity|].
  cbn [msum]. rewrite IH by (intros t Ht; apply H; lia). rewrite (H (lo + len)%nat) by lia. ring.
Qed.

Lemma msum_plus lo len f g : msum lo len (fun t => f t + g t) = msum lo len f + msum lo len g.
Proof. induction len as [|len IH]; cbn [msum]; [ring|rewrite IH; ring]. Qed.

Lemma msum_scal_l lo len c f : msum lo len (fun t => c * f t) = c * msum lo len f.
Proof. induction len as [|len IH]; cbn [msum]; [ring|rewrite IH; ring]. Qed.

Lemma msum_scal_r lo len c f : msum lo len (fun t => f t * c) = msum lo len f * c.
Proof. induction len as [|len IH]; cbn [msum]; [ring|rewrite IH; ring]. Qed.

Lemma msum_split lo a b f : msum lo (a + b) f = msum lo a f + msum (lo + a) b f.
Proof.
  induction b as [|b IH].
  - rewrite Nat.add_0_r. cbn [msum]. ring.
  - replace (a + S b)%nat with (S (a + b)) by lia. cbn [msum]. rewrite IH.
    replace (lo + (a + b))%nat with (lo + a + b)%nat by lia. ring.
Qed.

(* only the term at k can be non-zero *)
Lemma msum_delta lo len f k :
  (lo <= k < lo + len)%nat -> (forall t, (lo <= t < lo + len)%nat -> t <> k -> f t = 0) ->
  msum lo len f = f k.
Proof.
  intros Hk Hz.
  replace len with ((k - lo) + S (len - S (k - lo)))%nat by lia.
  rewrite msum_split.
  replace (S (len - S (k - lo))) with (1 + (len - S (k - lo)))%nat by lia.
  rewrite msum_split.
  rewrite (msum_zero lo) by (intros t Ht; apply Hz; lia).
  rewrite (msum_zero (lo + (k - lo) + 1)) by (intros t Ht; apply Hz; lia).
  cbn [msum]. replace (lo + (k - lo) + 0)%nat with k by lia. ring.
Qed.

(* a sum whose terms vanish from m on *)
Lemma msum_trunc m n f : (m <= n)%nat -> (forall t, (m <= t < n)%nat -> f t = 0) -> msum 0 n f = msum 0 m f.
Proof.
  intros Hmn Hz. replace n with (m + (n - m))%nat by lia. rewrite msum_split.
  rewrite (msum_zero (0 + m)) by (intros t Ht; apply Hz; lia). ring.
Qed.

Lemma msum_exchange n m (f : nat -> nat -> R) :
  msum 0 n (fun i => msum 0 m (fun j => f i j)) = msum 0 m (fun j => msum 0 n (fun i => f i j)).
Proof.
  induction n as [|n IH].
  - cbn [msum]. symmetry. apply msum_zero. reflexivity.
  - cbn [msum]. rewrite IH, <- msum_plus. reflexivity.
Qed.

(* ---------------------------------------------------------------------------
   Loops
   --------------------------------------------------------------------------- *)
Lemma for_range_rev_inv {A} (P : nat -> A -> Prop) lo len (body : nat -> A -> A) acc :
  P (lo + len)%nat acc ->
  (forall i a, (lo <= i < lo + len)%nat -> P (S i) a -> P i (body i a)) ->
  P lo (for_range_rev lo len body acc).
Proof.
  revert acc. induction len as [|len IH]; intros acc H0 Hs.
  - now rewrite Nat.add_0_r in H0.
  - cbn [for_range_rev]. apply IH.
    + apply Hs; [lia|]. now replace (S (lo + len)) with (lo + S len)%nat by lia.
    + intros i a Hi. apply Hs. lia.
Qed.

(* ---------------------------------------------------------------------------
   Triangular systems (Model/Subst.v)
   --------------------------------------------------------------------------- *)
Lemma forward_recurrence (a : mat R) n (rhs sol0 : vec R) :
  let y := forward_substitution a n rhs sol0 in
  forall i, (i < n)%nat -> y i = (rhs i - msum 0 i (fun j => a i j * y j)) / a i i.
Proof.
  cbv zeta. unfold forward_substitution.
  match goal with |- context [for_range 0 n ?b sol0] => set (body := b) end.
  pose proof (for_range_inv (fun k (sol : vec R) =>
           forall i, (i < k)%nat -> sol i = (rhs i - msum 0 i (fun j => a i j * sol j)) / a i i)
           0 n body sol0) as H.
  cbn [Nat.add] in H. apply H; clear H; unfold body.
  - intros i Hi. lia.
  - intros k sol Hk IH i Hi.
    rewrite sum_range_R. cbn [n0 nmul nsub ndiv RNum].
    destruct (Nat.eq_dec i k) as [->|Hne].
    + rewrite vset_same. f_equal. rewrite Rplus_0_l. f_equal.
      apply msum_ext. intros t Ht. rewrite vset_other by lia. reflexivity.
    + rewrite vset_other by exact Hne. rewrite IH by lia. f_equal. f_equal.
      apply msum_ext. intros t Ht. rewrite vset_other by lia. reflexivity.
Qed.

(* L y = b for a lower triangular L with non-zero diagonal *)
Lemma forward_solves (a : mat R) n (rhs sol0 : vec R) :
  (forall i j, (i < n)%nat -> (j < n)%nat -> (i < j)%nat -> a i j = 0) ->
  (forall i, (i < n)%nat -> a i i <> 0) ->
  forall i, (i < n)%nat ->
    msum 0 n (fun j => a i j * forward_substitution a n rhs sol0 j) = rhs i.
Proof.
  intros Hlow Hd i Hi.
  pose proof (forward_recurrence a n rhs sol0) as Hy. cbv zeta in Hy.
  set (y := forward_substitution a n rhs sol0) in *.
  rewrite (msum_trunc (S i) n) by (try lia; intros t Ht; rewrite Hlow by lia; ring).
  cbn [msum]. rewrite Nat.add_0_l. rewrite (Hy i Hi). field. apply Hd; exact Hi.
Qed.

Lemma back_recurrence (a : mat R) n (rhs sol0 x : vec R) :
  back_substitution a n rhs sol0 = Ok x ->
  forall i, (i < n)%nat -> x i = (rhs i - msum (S i) (n - S i) (fun j => a i j * x j)) / a i i.
Proof.
  unfold back_substitution. destruct n as [|m]; [discriminate|].
  intro H. injection H as <-.
  match goal with |- context [for_range_rev 0 m ?b ?s] => set (body := b); set (s1 := s) end.
  pose proof (for_range_rev_inv (fun k (sol : vec R) =>
           forall i, (k <= i < S m)%nat ->
             sol i = (rhs i - msum (S i) (S m - S i) (fun j => a i j * sol j)) / a i i)
           0 m body s1) as H.
  cbn [Nat.add] in H.
  intros i Hi. apply H; [| |lia]; clear H; unfold body, s1.
  - intros i' Hi'. assert (i' = m) by lia. subst i'.
    rewrite vset_same. replace (S m - S m)%nat with O by lia. cbn [msum ndiv RNum].
    unfold Rdiv. f_equal. ring.
  - intros k sol Hk IH i' Hi'.
    rewrite sum_range_R. cbn [n0 nmul nsub ndiv RNum].
    destruct (Nat.eq_dec i' k) as [->|Hne].
    + rewrite vset_same. f_equal. rewrite Rplus_0_l. f_equal.
      apply msum_ext. intros t Ht. rewrite vset_other by lia. reflexivity.
    + rewrite vset_other by exact Hne. rewrite IH by lia. f_equal. f_equal.
      apply msum_ext. intros t Ht. rewrite vset_other by lia. reflexivity.
Qed.

(* U x = y for an upper triangular U with non-zero diagonal *)
Lemma back_solves (a : mat R) n (rhs sol0 x : vec R) :
  back_substitution a n rhs sol0 = Ok x ->
  (forall i j, (i < n)%nat -> (j < n)%nat -> (j < i)%nat -> a i j = 0) ->
  (forall i, (i < n)%nat -> a i i <> 0) ->
  forall i, (i < n)%nat -> msum 0 n (fun j => a i j * x j) = rhs i.
Proof.
  intros Hx Hup Hd i Hi.
  pose proof (back_recurrence a n rhs sol0 x Hx i Hi) as Hr.
  replace n with (i + (1 + (n - S i)))%nat at 1 by lia.
  rewrite msum_split, msum_split.
  rewrite (msum_zero 0 i) by (intros t Ht; rewrite Hup by lia; ring).
  cbn [msum]. replace (0 + i + 0)%nat with i by lia. replace (0 + i + 1)%nat with (S i) by lia.
  rewrite Hr at 1. field. apply Hd; exact Hi.
Qed.

Lemma back_ok (a : mat R) n (rhs sol0 : vec R) :
  (0 < n)%nat -> exists x, back_substitution a n rhs sol0 = Ok x.
Proof. intro H. destruct n as [|m]; [lia|]. eexists. reflexivity. Qed.

(* uniqueness: a triangular matrix with non-zero diagonal has a trivial kernel *)
Lemma lower_kernel n (L : mat R) (z : vec R) :
  (forall i j, (i < n)%nat -> (j < n)%nat -> (i < j)%nat -> L i j = 0) ->
  (forall i, (i < n)%nat -> L i i <> 0) ->
  (forall i, (i < n)%nat -> msum 0 n (fun j => L i j * z j) = 0) ->
  forall i, (i < n)%nat -> z i = 0.
Proof.
  intros Hlow Hd Hz i. induction i as [i IH] using lt_wf_ind. intro Hi.
  pose proof (Hz i Hi) as E.
  rewrite (msum_trunc (S i) n) in E by (try lia; intros t Ht; rewrite Hlow by lia; ring).
  cbn [msum] in E. rewrite Nat.add_0_l in E.
  rewrite msum_zero in E by (intros t Ht; rewrite (IH t) by lia; ring).
  rewrite Rplus_0_l in E. apply Rmult_integral in E. destruct E as [E|E]; [|exact E].
  exfalso. exact (Hd i Hi E).
Qed.

Lemma upper_kernel n (U : mat R) (z : vec R) :
  (forall i j, (i < n)%nat -> (j < n)%nat -> (j < i)%nat -> U i j = 0) ->
  (forall i, (i < n)%nat -> U i i <> 0) ->
  (forall i, (i < n)%nat -> msum 0 n (fun j => U i j * z j) = 0) ->
  forall i, (i < n)%nat -> z i = 0.
Proof.
  intros Hup Hd Hz.
  assert (H : forall d i, (n - i <= d)%nat -> (i < n)%nat -> z i = 0).
  { induction d as [|d IH]; intros i Hdi Hi; [lia|].
    pose proof (Hz i Hi) as E.
    replace n with (i + (1 + (n - S i)))%nat in E at 1 by lia.
    rewrite msum_split, msum_split in E.
    rewrite (msum_zero 0 i) in E by (intros t Ht; rewrite Hup by lia; ring).
    rewrite (msum_zero (0 + i + 1)) in E by (intros t Ht; rewrite (IH t) by lia; ring).
    cbn [msum] in E. replace (0 + i + 0)%nat with i in E by lia.
    assert (E' : U i i * z i = 0) by lra.
    apply Rmult_integral in E'. destruct E' as [E'|E']; [|exact E'].
    exfalso. exact (Hd i Hi E'). }
  intros i Hi. apply (H (n - i)%nat i); [lia|exact Hi].
Qed.

(* ---------------------------------------------------------------------------
   Solvability of  (L U) x = b  and its consequence: no left null vector
   --------------------------------------------------------------------------- *)
Lemma mprod_assoc_vec k (L U : mat R) (x : vec R) r :
  msum 0 k (fun c => msum 0 k (fun t => L r t * U t c) * x c) =
  msum 0 k (fun t => L r t * msum 0 k (fun c => U t c * x c)).
Proof.
  rewrite (msum_ext 0 k _ (fun c => msum 0 k (fun t => L r t * U t c * x c)))
    by (intros c _; symmetry; apply msum_scal_r).
  rewrite msum_exchange. apply msum_ext. intros t _.
  rewrite <- msum_scal_l. apply msum_ext. intros c _. ring.
Qed.

Lemma tri_solvable k (L U : mat R) :
  unit_lower k L -> upper_tri k U -> (forall i, (i < k)%nat -> U i i <> 0) ->
  forall b : vec R, exists x : vec R,
    forall r, (r < k)%nat -> msum 0 k (fun c => msum 0 k (fun t => L r t * U t c) * x c) = b r.
Proof.
  intros HL HU Hd b.
  destruct k as [|m].
  - exists (fun _ => 0). intros r Hr. lia.
  - set (k := S m) in *.
    set (y := forward_substitution L k b (vconst 0)).
    destruct (back_ok U k y (vconst 0)) as [x Hx]; [unfold k; lia|].
    exists x. intros r Hr.
    rewrite mprod_assoc_vec.
    rewrite (msum_ext 0 k _ (fun t => L r t * y t)).
    + apply forward_solves; [| |exact Hr].
      * intros i j Hi Hj Hij. apply (HL i j Hi Hj); exact Hij.
      * intros i Hi. destruct (HL i i Hi Hi) as [H1 _]. rewrite H1 by reflexivity. lra.
    + intros t Ht. f_equal.
      apply (back_solves U k y (vconst 0) x Hx); [exact HU|exact Hd|lia].
Qed.

Lemma no_left_null k (M : mat R) :
  (forall b : vec R, exists x : vec R, forall r, (r < k)%nat -> msum 0 k (fun c => M r c * x c) = b r) ->
  forall w : vec R, (forall c, (c < k)%nat -> msum 0 k (fun r => w r * M r c) = 0) ->
  forall r, (r < k)%nat -> w r = 0.
Proof.
  intros Hsolv w Hw r0 Hr0.
  destruct (Hsolv (fun r => if (r =? r0)%nat then 1 else 0)) as [x Hx].
  assert (E1 : msum 0 k (fun r => w r * msum 0 k (fun c => M r c * x c)) = w r0).
  { rewrite (msum_delta 0 k _ r0).
    - rewrite Hx by exact Hr0. rewrite Nat.eqb_refl. ring.
    - lia.
    - intros t Ht Hne. rewrite Hx by lia. apply Nat.eqb_neq in Hne. rewrite Hne. ring. }
  assert (E2 : msum 0 k (fun r => w r * msum 0 k (fun c => M r c * x c)) = 0).
  { rewrite (msum_ext 0 k _ (fun r => msum 0 k (fun c => w r * M r c * x c))).
    - rewrite msum_exchange. apply msum_zero. intros c Hc.
      rewrite msum_scal_r, Hw by lia. ring.
    - intros r _. rewrite <- msum_scal_l. apply msum_ext. intros c _. ring. }
  lra.
Qed.
