(* Proofs/LU.v — finite sums, triangular systems, and the Doolittle
   factorisation of Model/LU.v (R instance: exact arithmetic). *)
From Coq Require Import ZArith List Arith Bool Reals Lra Lia Classical_Prop.
From SV Require Import Base.Num Base.Outcome Base.Mat Model.Subst Model.LU.
Import ListNotations.
Local Open Scope R_scope.

(* ---------------------------------------------------------------------------
   Specification vocabulary (used by Properties/C09.v and C10.v)
   --------------------------------------------------------------------------- *)
(* msum lo len f = f lo + ... + f (lo+len-1) *)
Fixpoint msum (lo len : nat) (f : nat -> R) : R :=
  match len with
  | O => 0
  | S l => msum lo l f + f (lo + l)%nat
  end.

(* entry (i,j) of the product of two n x n matrices *)
Definition mprod (n : nat) (A B : mat R) (i j : nat) : R := msum 0 n (fun t => A i t * B t j).

Definition unit_lower (n : nat) (L : mat R) : Prop :=
  forall i j, (i < n)%nat -> (j < n)%nat -> (i = j -> L i j = 1) /\ ((i < j)%nat -> L i j = 0).
Definition upper_tri (n : nat) (U : mat R) : Prop :=
  forall i j, (i < n)%nat -> (j < n)%nat -> (j < i)%nat -> U i j = 0.

(* s is a permutation of {0..n-1}: it has a two-sided inverse on that set *)
Definition perm_on (n : nat) (s : nat -> nat) : Prop :=
  exists s', forall i, (i < n)%nat -> (s i < n)%nat /\ (s' i < n)%nat /\ s' (s i) = i /\ s (s' i) = i.
(* P is the permutation matrix of s: row i has its 1 in column s i, so (P A) i j = A (s i) j *)
Definition perm_mat (n : nat) (s : nat -> nat) (P : mat R) : Prop :=
  forall i j, (i < n)%nat -> (j < n)%nat -> P i j = if (j =? s i)%nat then 1 else 0.
Definition is_perm_mat (n : nat) (P : mat R) : Prop := exists s, perm_on n s /\ perm_mat n s P.

(* w is a non-trivial left null vector of the leading k x k block of A *)
Definition left_null (k : nat) (A : mat R) (w : nat -> R) : Prop :=
  (exists i, (i < k)%nat /\ w i <> 0) /\ forall j, (j < k)%nat -> msum 0 k (fun i => w i * A i j) = 0.

(* x is a non-trivial right null vector of the leading k x k block of A *)
Definition right_null (k : nat) (A : mat R) (x : nat -> R) : Prop :=
  (exists j, (j < k)%nat /\ x j <> 0) /\ forall i, (i < k)%nat -> msum 0 k (fun j => A i j * x j) = 0.

(* ---------------------------------------------------------------------------
   Sums
   --------------------------------------------------------------------------- *)
Lemma sum_range_R (init : R) lo len (f : nat -> R) : sum_range init lo len f = init + msum lo len f.
Proof.
  unfold sum_range. induction len as [|len IH].
  - cbn. ring.
  - rewrite for_range_S, IH. cbn [msum nadd RNum]. ring.
Qed.

Lemma msum_ext lo len f g :
  (forall t, (lo <= t < lo + len)%nat -> f t = g t) -> msum lo len f = msum lo len g.
Proof.
  induction len as [|len IH]; intro H; [reflexivity|].
  cbn [msum]. rewrite IH by (intros t Ht; apply H; lia). rewrite (H (lo + len)%nat) by lia. reflexivity.
Qed.

Lemma msum_zero lo len f : (forall t, (lo <= t < lo + len)%nat -> f t = 0) -> msum lo len f = 0.
Proof.
  induction len as [|len IH]; intro H; [reflexivity|].
  cbn [msum]. rewrite IH by (intros t Ht; apply H; lia). rewrite (H (lo + len)%nat) by lia. ring.
Qed.

Lemma msum_plus lo len f g : msum lo len (fun t => f t + g t) = msum lo len f + msum lo len g.
Proof. induction len as [|len IH]; cbn [msum]; [ring|rewrite IH; ring]. Qed.

Lemma msum_scal_l lo len c f : msum lo len (fun t => c * f t) = c * msum lo len f.
Proof. induction len as [|len IH]; cbn [msum]; [ring|rewrite IH; ring]. Qed.

Lemma msum_scal_r lo len c f : msum lo len (fun t => f t * c) = msum lo len f * c.
Proof. induction len as [|len IH]; cbn [msum]; [ring|rewrite IH; ring]. Qed.

Lemma msum_split lo a b f : msum lo (a + b) f = msum lo a f + msum (lo + a) b f.
Proof.
  induction b as [|b IH].
  - rewrite Nat.add_0_r. cbn [msum]. ring.
  - replace (a + S b)%nat with (S (a + b)) by lia. cbn [msum]. rewrite IH.
    replace (lo + (a + b))%nat with (lo + a + b)%nat by lia. ring.
Qed.

(* only the term at k can be non-zero *)
Lemma msum_delta lo len f k :
  (lo <= k < lo + len)%nat -> (forall t, (lo <= t < lo + len)%nat -> t <> k -> f t = 0) ->
  msum lo len f = f k.
Proof.
  intros Hk Hz.
  replace len with ((k - lo) + S (len - S (k - lo)))%nat by lia.
  rewrite msum_split.
  replace (S (len - S (k - lo))) with (1 + (len - S (k - lo)))%nat by lia.
  rewrite msum_split.
  rewrite (msum_zero lo) by (intros t Ht; apply Hz; lia).
  rewrite (msum_zero (lo + (k - lo) + 1)) by (intros t Ht; apply Hz; lia).
  cbn [msum]. replace (lo + (k - lo) + 0)%nat with k by lia. ring.
Qed.

(* a sum whose terms vanish from m on *)
Lemma msum_trunc m n f : (m <= n)%nat -> (forall t, (m <= t < n)%nat -> f t = 0) -> msum 0 n f = msum 0 m f.
Proof.
  intros Hmn Hz. replace n with (m + (n - m))%nat by lia. rewrite msum_split.
  rewrite (msum_zero (0 + m)) by (intros t Ht; apply Hz; lia). ring.
Qed.

Lemma msum_exchange n m (f : nat -> nat -> R) :
  msum 0 n (fun i => msum 0 m (fun j => f i j)) = msum 0 m (fun j => msum 0 n (fun i => f i j)).
Proof.
  induction n as [|n IH].
  - cbn [msum]. symmetry. apply msum_zero. reflexivity.
  - cbn [msum]. rewrite IH, <- msum_plus. reflexivity.
Qed.

(* ---------------------------------------------------------------------------
   Loops
   --------------------------------------------------------------------------- *)
Lemma for_range_rev_inv {A} (P : nat -> A -> Prop) lo len (body : nat -> A -> A) acc :
  P (lo + len)%nat acc ->
  (forall i a, (lo <= i < lo + len)%nat -> P (S i) a -> P i (body i a)) ->
  P lo (for_range_rev lo len body acc).
Proof.
  revert acc. induction len as [|len IH]; intros acc H0 Hs.
  - now rewrite Nat.add_0_r in H0.
  - cbn [for_range_rev]. apply IH.
    + apply Hs; [lia|]. now replace (S (lo + len)) with (lo + S len)%nat by lia.
    + intros i a Hi. apply Hs. lia.
Qed.

(* ---------------------------------------------------------------------------
   Triangular systems (Model/Subst.v)
   --------------------------------------------------------------------------- *)
Lemma forward_recurrence (a : mat R) n (rhs sol0 : vec R) :
  let y := forward_substitution a n rhs sol0 in
  forall i, (i < n)%nat -> y i = (rhs i - msum 0 i (fun j => a i j * y j)) / a i i.
Proof.
  cbv zeta. unfold forward_substitution.
  match goal with |- context [for_range 0 n ?b sol0] => set (body := b) end.
  pose proof (for_range_inv (fun k (sol : vec R) =>
           forall i, (i < k)%nat -> sol i = (rhs i - msum 0 i (fun j => a i j * sol j)) / a i i)
           0 n body sol0) as H.
  cbn [Nat.add] in H. apply H; clear H; unfold body.
  - intros i Hi. lia.
  - intros k sol Hk IH i Hi.
    rewrite sum_range_R. cbn [n0 nmul nsub ndiv RNum].
    destruct (Nat.eq_dec i k) as [->|Hne].
    + rewrite vset_same. f_equal. rewrite Rplus_0_l. f_equal.
      apply msum_ext. intros t Ht. rewrite vset_other by lia. reflexivity.
    + rewrite vset_other by exact Hne. rewrite IH by lia. f_equal. f_equal.
      apply msum_ext. intros t Ht. rewrite vset_other by lia. reflexivity.
Qed.

(* L y = b for a lower triangular L with non-zero diagonal *)
Lemma forward_solves (a : mat R) n (rhs sol0 : vec R) :
  (forall i j, (i < n)%nat -> (j < n)%nat -> (i < j)%nat -> a i j = 0) ->
  (forall i, (i < n)%nat -> a i i <> 0) ->
  forall i, (i < n)%nat ->
    msum 0 n (fun j => a i j * forward_substitution a n rhs sol0 j) = rhs i.
Proof.
  intros Hlow Hd i Hi.
  pose proof (forward_recurrence a n rhs sol0) as Hy. cbv zeta in Hy.
  set (y := forward_substitution a n rhs sol0) in *.
  rewrite (msum_trunc (S i) n) by (try lia; intros t Ht; rewrite Hlow by lia; ring).
  cbn [msum]. rewrite Nat.add_0_l. rewrite (Hy i Hi). field. apply Hd; exact Hi.
Qed.

Lemma back_recurrence (a : mat R) n (rhs sol0 x : vec R) :
  back_substitution a n rhs sol0 = Ok x ->
  forall i, (i < n)%nat -> x i = (rhs i - msum (S i) (n - S i) (fun j => a i j * x j)) / a i i.
Proof.
  unfold back_substitution. destruct n as [|m]; [discriminate|].
  intro H. injection H as <-.
  match goal with |- context [for_range_rev 0 m ?b ?s] => set (body := b); set (s1 := s) end.
  pose proof (for_range_rev_inv (fun k (sol : vec R) =>
           forall i, (k <= i < S m)%nat ->
             sol i = (rhs i - msum (S i) (S m - S i) (fun j => a i j * sol j)) / a i i)
           0 m body s1) as H.
  cbn [Nat.add] in H.
  intros i Hi. apply H; [| |lia]; clear H; unfold body, s1.
  - intros i' Hi'. assert (i' = m) by lia. subst i'.
    rewrite vset_same. replace (S m - S m)%nat with O by lia. cbn [msum ndiv RNum].
    unfold Rdiv. f_equal. ring.
  - intros k sol Hk IH i' Hi'.
    rewrite sum_range_R. cbn [n0 nmul nsub ndiv RNum].
    destruct (Nat.eq_dec i' k) as [->|Hne].
    + rewrite vset_same. f_equal. rewrite Rplus_0_l. f_equal.
      apply msum_ext. intros t Ht. rewrite vset_other by lia. reflexivity.
    + rewrite vset_other by exact Hne. rewrite IH by lia. f_equal. f_equal.
      apply msum_ext. intros t Ht. rewrite vset_other by lia. reflexivity.
Qed.

(* U x = y for an upper triangular U with non-zero diagonal *)
Lemma back_solves (a : mat R) n (rhs sol0 x : vec R) :
  back_substitution a n rhs sol0 = Ok x ->
  (forall i j, (i < n)%nat -> (j < n)%nat -> (j < i)%nat -> a i j = 0) ->
  (forall i, (i < n)%nat -> a i i <> 0) ->
  forall i, (i < n)%nat -> msum 0 n (fun j => a i j * x j) = rhs i.
Proof.
  intros Hx Hup Hd i Hi.
  pose proof (back_recurrence a n rhs sol0 x Hx i Hi) as Hr.
  replace n with (i + (1 + (n - S i)))%nat at 1 by lia.
  rewrite msum_split, msum_split.
  rewrite (msum_zero 0 i) by (intros t Ht; rewrite Hup by lia; ring).
  cbn [msum]. replace (0 + i + 0)%nat with i by lia. replace (0 + i + 1)%nat with (S i) by lia.
  rewrite Hr at 1. field. apply Hd; exact Hi.
Qed.

Lemma back_ok (a : mat R) n (rhs sol0 : vec R) :
  (0 < n)%nat -> exists x, back_substitution a n rhs sol0 = Ok x.
Proof. intro H. destruct n as [|m]; [lia|]. eexists. reflexivity. Qed.

(* uniqueness: a triangular matrix with non-zero diagonal has a trivial kernel *)
Lemma lower_kernel n (L : mat R) (z : vec R) :
  (forall i j, (i < n)%nat -> (j < n)%nat -> (i < j)%nat -> L i j = 0) ->
  (forall i, (i < n)%nat -> L i i <> 0) ->
  (forall i, (i < n)%nat -> msum 0 n (fun j => L i j * z j) = 0) ->
  forall i, (i < n)%nat -> z i = 0.
Proof.
  intros Hlow Hd Hz i. induction i as [i IH] using lt_wf_ind. intro Hi.
  pose proof (Hz i Hi) as E.
  rewrite (msum_trunc (S i) n) in E by (try lia; intros t Ht; rewrite Hlow by lia; ring).
  cbn [msum] in E. rewrite Nat.add_0_l in E.
  rewrite msum_zero in E by (intros t Ht; rewrite (IH t) by lia; ring).
  rewrite Rplus_0_l in E. apply Rmult_integral in E. destruct E as [E|E]; [|exact E].
  exfalso. exact (Hd i Hi E).
Qed.

Lemma upper_kernel n (U : mat R) (z : vec R) :
  (forall i j, (i < n)%nat -> (j < n)%nat -> (j < i)%nat -> U i j = 0) ->
  (forall i, (i < n)%nat -> U i i <> 0) ->
  (forall i, (i < n)%nat -> msum 0 n (fun j => U i j * z j) = 0) ->
  forall i, (i < n)%nat -> z i = 0.
Proof.
  intros Hup Hd Hz.
  assert (H : forall d i, (n - i <= d)%nat -> (i < n)%nat -> z i = 0).
  { induction d as [|d IH]; intros i Hdi Hi; [lia|].
    pose proof (Hz i Hi) as E.
    replace n with (i + (1 + (n - S i)))%nat in E at 1 by lia.
    rewrite msum_split, msum_split in E.
    rewrite (msum_zero 0 i) in E by (intros t Ht; rewrite Hup by lia; ring).
    rewrite (msum_zero (0 + i + 1)) in E by (intros t Ht; rewrite (IH t) by lia; ring).
    cbn [msum] in E. replace (0 + i + 0)%nat with i in E by lia.
    assert (E' : U i i * z i = 0) by lra.
    apply Rmult_integral in E'. destruct E' as [E'|E']; [|exact E'].
    exfalso. exact (Hd i Hi E'). }
  intros i Hi. apply (H (n - i)%nat i); [lia|exact Hi].
Qed.

(* ---------------------------------------------------------------------------
   Solvability of  (L U) x = b  and its consequence: no left null vector
   --------------------------------------------------------------------------- *)
Lemma mprod_assoc_vec k (L U : mat R) (x : vec R) r :
  msum 0 k (fun c => msum 0 k (fun t => L r t * U t c) * x c) =
  msum 0 k (fun t => L r t * msum 0 k (fun c => U t c * x c)).
Proof.
  rewrite (msum_ext 0 k _ (fun c => msum 0 k (fun t => L r t * U t c * x c)))
    by (intros c _; symmetry; apply msum_scal_r).
  rewrite msum_exchange. apply msum_ext. intros t _.
  rewrite <- msum_scal_l. apply msum_ext. intros c _. ring.
Qed.

Lemma tri_solvable k (L U : mat R) :
  unit_lower k L -> upper_tri k U -> (forall i, (i < k)%nat -> U i i <> 0) ->
  forall b : vec R, exists x : vec R,
    forall r, (r < k)%nat -> msum 0 k (fun c => msum 0 k (fun t => L r t * U t c) * x c) = b r.
Proof.
  intros HL HU Hd b.
  destruct k as [|m].
  - exists (fun _ => 0). intros r Hr. lia.
  - set (k := S m) in *.
    set (y := forward_substitution L k b (vconst 0)).
    destruct (back_ok U k y (vconst 0)) as [x Hx]; [unfold k; lia|].
    exists x. intros r Hr.
    rewrite mprod_assoc_vec.
    rewrite (msum_ext 0 k _ (fun t => L r t * y t)).
    + apply forward_solves; [| |exact Hr].
      * intros i j Hi Hj Hij. apply (HL i j Hi Hj); exact Hij.
      * intros i Hi. destruct (HL i i Hi Hi) as [H1 _]. rewrite H1 by reflexivity. lra.
    + intros t Ht. f_equal.
      apply (back_solves U k y (vconst 0) x Hx); [exact HU|exact Hd|lia].
Qed.

Lemma no_left_null k (M : mat R) :
  (forall b : vec R, exists x : vec R, forall r, (r < k)%nat -> msum 0 k (fun c => M r c * x c) = b r) ->
  forall w : vec R, (forall c, (c < k)%nat -> msum 0 k (fun r => w r * M r c) = 0) ->
  forall r, (r < k)%nat -> w r = 0.
Proof.
  intros Hsolv w Hw r0 Hr0.
  destruct (Hsolv (fun r => if (r =? r0)%nat then 1 else 0)) as [x Hx].
  assert (E1 : msum 0 k (fun r => w r * msum 0 k (fun c => M r c * x c)) = w r0).
  { rewrite (msum_delta 0 k _ r0).
    - rewrite Hx by exact Hr0. rewrite Nat.eqb_refl. ring.
    - lia.
    - intros t Ht Hne. rewrite Hx by lia. apply Nat.eqb_neq in Hne. rewrite Hne. ring. }
  assert (E2 : msum 0 k (fun r => w r * msum 0 k (fun c => M r c * x c)) = 0).
  { rewrite (msum_ext 0 k _ (fun r => msum 0 k (fun c => w r * M r c * x c))).
    - rewrite msum_exchange. apply msum_zero. intros c Hc.
      rewrite msum_scal_r, Hw by lia. ring.
    - intros r _. rewrite <- msum_scal_l. apply msum_ext. intros c _. ring. }
  lra.
Qed.

(* (L U) z = 0 forces z = 0 *)
Lemma tri_kernel k (L U : mat R) (z : vec R) :
  unit_lower k L -> upper_tri k U -> (forall i, (i < k)%nat -> U i i <> 0) ->
  (forall r, (r < k)%nat -> msum 0 k (fun c => msum 0 k (fun t => L r t * U t c) * z c) = 0) ->
  forall c, (c < k)%nat -> z c = 0.
Proof.
  intros HL HU Hd Hz.
  apply (upper_kernel k U z HU Hd).
  apply (lower_kernel k L (fun t => msum 0 k (fun c => U t c * z c))).
  - intros i j Hi Hj Hij. apply (HL i j Hi Hj); exact Hij.
  - intros i Hi. destruct (HL i i Hi Hi) as [H1 _]. rewrite H1 by reflexivity. lra.
  - intros i Hi. rewrite <- mprod_assoc_vec. apply Hz. exact Hi.
Qed.

(* ---------------------------------------------------------------------------
   Matrices equal below the dimension (what [retab] preserves)
   --------------------------------------------------------------------------- *)
Definition meq (n : nat) (A B : mat R) : Prop := forall r c, (r < n)%nat -> (c < n)%nat -> A r c = B r c.

Lemma meq_retab n (A : mat R) : meq n (retab n n A) A.
Proof. intros r c Hr Hc. apply retab_spec; assumption. Qed.

Lemma meq_sym n A B : meq n A B -> meq n B A.
Proof. intros H r c Hr Hc. symmetry. apply H; assumption. Qed.

(* ---------------------------------------------------------------------------
   Doolittle: closed forms of the two inner loops
   --------------------------------------------------------------------------- *)
Definition upper_body (i : nat) (a lo : mat R) : nat -> mat R -> mat R :=
  fun k up =>
    let total := sum_range n0 0 i (fun j => nmul (lo i j) (up j k)) in
    mset up i k (nsub (a i k) total).
Definition upper_row_len (i len : nat) (a lo up : mat R) : mat R := for_range i len (upper_body i a lo) up.

Lemma lu_upper_row_len n i a lo up : lu_upper_row n i a lo up = upper_row_len i (n - i) a lo up.
Proof. reflexivity. Qed.

Lemma upper_row_len_spec i len a lo up :
  (forall c, (i <= c < i + len)%nat ->
      upper_row_len i len a lo up i c = a i c - msum 0 i (fun j => lo i j * up j c)) /\
  (forall r c, ~ (r = i /\ (i <= c < i + len)%nat) -> upper_row_len i len a lo up r c = up r c).
Proof.
  induction len as [|len [IH1 IH2]].
  - split; [intros c Hc; lia|intros; reflexivity].
  - unfold upper_row_len in *. rewrite for_range_S.
    set (M := for_range i len (upper_body i a lo) up) in *.
    unfold upper_body at 1. unfold upper_body at 1. cbv zeta.
    split.
    + intros c Hc. destruct (Nat.eq_dec c (i + len)) as [->|Hne].
      * rewrite mset_same, sum_range_R. cbn [n0 nmul nsub RNum]. rewrite Rplus_0_l. f_equal.
        apply msum_ext. intros t Ht. rewrite IH2 by lia. reflexivity.
      * rewrite mset_other by (right; exact Hne). apply IH1. lia.
    + intros r c Hn. rewrite mset_other.
      * apply IH2. intros [H1 H2]. apply Hn. split; [exact H1|lia].
      * destruct (Nat.eq_dec r i) as [->|Hr]; [right|left; exact Hr].
        intro Hc. apply Hn. split; [reflexivity|lia].
Qed.

Definition lower_body (i : nat) (a up : mat R) : nat -> res (mat R) -> res (mat R) :=
  fun k acc =>
    match acc with
    | Ok lo =>
      if (k =? i)%nat then Ok (mset lo i i n1)
      else if neqb (up i i) n0 then Err ESingularMatrix
      else
        let total := sum_range n0 0 i (fun j => nmul (lo k j) (up j i)) in
        Ok (mset lo k i (ndiv (nsub (a k i) total) (up i i)))
    | e => e
    end.
Definition lower_col_len (i len : nat) (a up lo : mat R) : res (mat R) :=
  for_range i len (lower_body i a up) (Ok lo).

Lemma lu_lower_col_len n i a up lo : lu_lower_col n i a up lo = lower_col_len i (n - i) a up lo.
Proof. reflexivity. Qed.

Lemma lower_col_len_S i len a up lo :
  lower_col_len i (S len) a up lo = lower_body i a up (i + len)%nat (lower_col_len i len a up lo).
Proof. apply for_range_S. Qed.

Lemma lower_col_len_ok i len a up lo :
  ((len <= 1)%nat \/ up i i <> 0) ->
  exists M, lower_col_len i len a up lo = Ok M /\
    ((0 < len)%nat -> M i i = 1) /\
    (forall k, (i < k < i + len)%nat -> M k i = (a k i - msum 0 i (fun j => lo k j * up j i)) / up i i) /\
    (forall r c, ~ (c = i /\ (i <= r < i + len)%nat) -> M r c = lo r c).
Proof.
  induction len as [|len IH]; intro H.
  - exists lo. split; [reflexivity|]. split; [lia|]. split; [intros k Hk; lia|reflexivity].
  - destruct IH as [M [HM [H1 [H2 H3]]]]; [destruct H as [H|H]; [left; lia|right; exact H]|].
    rewrite lower_col_len_S, HM. unfold lower_body.
    destruct (Nat.eqb_spec (i + len) i) as [E|E].
    + assert (len = 0)%nat by lia. subst len.
      exists (mset M i i n1). split; [reflexivity|]. split; [|split].
      * intros _. apply mset_same.
      * intros k Hk. lia.
      * intros r c Hn. rewrite mset_other.
        -- apply H3. intros [Hc Hr]. lia.
        -- destruct (Nat.eq_dec c i) as [->|Hc]; [left|right; exact Hc].
           intro Hr. apply Hn. split; [reflexivity|lia].
    + assert (Hu : up i i <> 0) by (destruct H as [H|H]; [lia|exact H]).
      replace (neqb (up i i) n0) with false
        by (symmetry; cbn [neqb n0 RNum]; apply Reqb_false; exact Hu).
      cbv zeta.
      eexists. split; [reflexivity|]. split; [|split].
      * intros _. rewrite mset_other by (left; lia). apply H1. lia.
      * intros k Hk. destruct (Nat.eq_dec k (i + len)) as [->|Hne].
        -- rewrite mset_same, sum_range_R. cbn [n0 nmul nsub ndiv RNum]. rewrite Rplus_0_l.
           f_equal. f_equal. apply msum_ext. intros t Ht. rewrite H3 by lia. reflexivity.
        -- rewrite mset_other by (left; exact Hne). apply H2. lia.
      * intros r c Hn. rewrite mset_other.
        -- apply H3. intros [Hc Hr]. apply Hn. split; [exact Hc|lia].
        -- destruct (Nat.eq_dec c i) as [->|Hc]; [left|right; exact Hc].
           intro Hr. apply Hn. split; [reflexivity|lia].
Qed.

Lemma lower_col_len_err i len a up lo :
  (2 <= len)%nat -> up i i = 0 -> lower_col_len i len a up lo = Err ESingularMatrix.
Proof.
  induction len as [|len IH]; intros Hl Hu; [lia|].
  rewrite lower_col_len_S.
  destruct (le_lt_dec 2 len) as [H2|H2].
  - rewrite IH by assumption. reflexivity.
  - destruct (lower_col_len_ok i len a up lo) as [M [HM _]]; [left; lia|].
    rewrite HM. unfold lower_body.
    destruct (Nat.eqb_spec (i + len) i) as [E|E]; [lia|].
    replace (neqb (up i i) n0) with true
      by (symmetry; cbn [neqb n0 RNum]; apply Reqb_true; exact Hu).
    reflexivity.
Qed.

(* ---------------------------------------------------------------------------
   Doolittle: the loop invariant — after i outer iterations the first i rows of
   U and the first i columns of L satisfy the Doolittle recurrences, the rest is 0
   --------------------------------------------------------------------------- *)
Record LUInv (n : nat) (a : mat R) (i : nat) (lo up : mat R) : Prop := {
  inv_up : forall r c, (r < n)%nat -> (c < n)%nat -> (r < i)%nat -> (r <= c)%nat ->
             up r c = a r c - msum 0 r (fun j => lo r j * up j c);
  inv_up0 : forall r c, (r < n)%nat -> (c < n)%nat -> ((i <= r)%nat \/ (c < r)%nat) -> up r c = 0;
  inv_lo : forall r c, (r < n)%nat -> (c < n)%nat -> (c < i)%nat -> (c < r)%nat ->
             lo r c = (a r c - msum 0 c (fun j => lo r j * up j c)) / up c c;
  inv_lo1 : forall r, (r < n)%nat -> (r < i)%nat -> lo r r = 1;
  inv_lo0 : forall r c, (r < n)%nat -> (c < n)%nat -> ((i <= c)%nat \/ (r < c)%nat) -> lo r c = 0;
  inv_piv : forall c, (c < i)%nat -> (S c < n)%nat -> up c c <> 0
}.

Lemma LUInv_meq n a i lo up lo' up' :
  meq n lo lo' -> meq n up up' -> LUInv n a i lo up -> LUInv n a i lo' up'.
Proof.
  intros El Eu [H1 H2 H3 H4 H5 H6]. constructor.
  - intros r c Hr Hc Hri Hrc. rewrite <- Eu by assumption. rewrite H1 by assumption.
    f_equal. apply msum_ext. intros t Ht. rewrite El, Eu by lia. reflexivity.
  - intros r c Hr Hc H. rewrite <- Eu by assumption. apply H2; assumption.
  - intros r c Hr Hc Hci Hcr. rewrite <- El by assumption. rewrite H3 by assumption.
    rewrite (Eu c c) by assumption. f_equal. f_equal.
    apply msum_ext. intros t Ht. rewrite El, Eu by lia. reflexivity.
  - intros r Hr Hri. rewrite <- El by assumption. apply H4; assumption.
  - intros r c Hr Hc H. rewrite <- El by assumption. apply H5; assumption.
  - intros c Hci Hcn. rewrite <- Eu by lia. apply H6; assumption.
Qed.

Lemma LUInv_init n a : LUInv n a 0 (mconst 0) (mconst 0).
Proof. constructor; intros; try lia; reflexivity. Qed.

(* the step succeeds unless a multiplier has to be divided by a zero pivot *)
Lemma lu_inner_step_ok n a i lo up :
  (i < n)%nat -> LUInv n a i lo up ->
  let up1 := lu_upper_row n i a lo up in
  ((n - i <= 1)%nat \/ up1 i i <> 0) ->
  up1 i i = a i i - msum 0 i (fun j => lo i j * up j i) /\
  exists lo1, lu_lower_col n i a up1 lo = Ok lo1 /\ LUInv n a (S i) lo1 up1.
Proof.
  intros Hi [I1 I2 I3 I4 I5 I6]. cbv zeta.
  rewrite lu_upper_row_len, lu_lower_col_len.
  destruct (upper_row_len_spec i (n - i) a lo up) as [HU1 HU2].
  set (up1 := upper_row_len i (n - i) a lo up) in *.
  intros Hcase. split; [apply HU1; lia|].
  assert (Hpiv : (S i < n)%nat -> up1 i i <> 0) by (intro; destruct Hcase; [lia|assumption]).
  destruct (lower_col_len_ok i (n - i) a up1 lo Hcase) as [M [HM [HM1 [HM2 HM3]]]].
  exists M. split; [exact HM|].
  constructor.
  * intros r c Hr Hc Hri Hrc. destruct (Nat.eq_dec r i) as [->|Hne].
    -- rewrite HU1 by lia. f_equal. apply msum_ext. intros t Ht.
       rewrite HM3 by lia. rewrite HU2 by lia. reflexivity.
    -- rewrite HU2 by lia. rewrite I1 by lia. f_equal. apply msum_ext. intros t Ht.
       rewrite HM3 by lia. rewrite HU2 by lia. reflexivity.
  * intros r c Hr Hc H. rewrite HU2 by lia. apply I2; lia.
  * intros r c Hr Hc Hci Hcr. destruct (Nat.eq_dec c i) as [->|Hne].
    -- rewrite HM2 by lia. f_equal. f_equal. apply msum_ext. intros t Ht.
       rewrite HM3 by lia. reflexivity.
    -- rewrite HM3 by lia. rewrite I3 by lia. rewrite (HU2 c c) by lia. f_equal. f_equal.
       apply msum_ext. intros t Ht. rewrite HM3 by lia. rewrite HU2 by lia. reflexivity.
  * intros r Hr Hri. destruct (Nat.eq_dec r i) as [->|Hne]; [apply HM1; lia|].
    rewrite HM3 by lia. apply I4; lia.
  * intros r c Hr Hc H. rewrite HM3 by lia. apply I5; lia.
  * intros c Hci Hcn. destruct (Nat.eq_dec c i) as [->|Hne]; [apply Hpiv; exact Hcn|].
    rewrite HU2 by lia. apply I6; lia.
Qed.

Lemma lu_inner_step n a i lo up :
  (i < n)%nat -> LUInv n a i lo up ->
  let up1 := lu_upper_row n i a lo up in
  lu_lower_col n i a up1 lo = Err ESingularMatrix \/
  exists lo1, lu_lower_col n i a up1 lo = Ok lo1 /\ LUInv n a (S i) lo1 up1.
Proof.
  intros Hi Hinv. cbv zeta.
  destruct (le_lt_dec 2 (n - i)) as [H2|H2];
    [destruct (Req_EM_T (lu_upper_row n i a lo up i i) 0) as [Hz|Hnz]|].
  - left. rewrite lu_lower_col_len. apply lower_col_len_err; assumption.
  - right. apply (lu_inner_step_ok n a i lo up Hi Hinv). right; exact Hnz.
  - right. apply (lu_inner_step_ok n a i lo up Hi Hinv). left; lia.
Qed.

(* the same for one iteration of the outer loop *)
Lemma lu_step_ok n a i lo up :
  (i < n)%nat -> LUInv n a i lo up ->
  ((n - i <= 1)%nat \/ a i i - msum 0 i (fun j => lo i j * up j i) <> 0) ->
  exists lo' up', lu_step n a i (Ok (lo, up)) = Ok (lo', up') /\ LUInv n a (S i) lo' up'.
Proof.
  intros Hi Hinv Hcase.
  destruct (lu_inner_step_ok n a i lo up Hi Hinv) as [E [lo1 [Hlo1 Hinv1]]].
  - destruct Hcase as [H|H]; [left; exact H|right].
    destruct (lu_inner_step_ok n a i lo up Hi Hinv) as [E _]; [|cbv zeta in E; rewrite E; exact H].
    (* the value of the pivot does not depend on the case analysis: read it off the row loop *)
    right. intro Hz. apply H. rewrite lu_upper_row_len in Hz.
    destruct (upper_row_len_spec i (n - i) a lo up) as [HU1 _]. rewrite <- HU1 by lia. exact Hz.
  - cbv zeta in Hlo1. cbn [lu_step]. rewrite Hlo1. eexists _, _. split; [reflexivity|].
    eapply LUInv_meq; [| |exact Hinv1]; apply meq_sym, meq_retab.
Qed.

Definition lu_post (n : nat) (a : mat R) (i : nat) (acc : res (mat R * mat R)) : Prop :=
  match acc with
  | Ok (lo, up) => LUInv n a i lo up
  | Err e => e = ESingularMatrix
  | Panic _ => False
  end.

Lemma lu_step_post n a i acc :
  (i < n)%nat -> lu_post n a i acc -> lu_post n a (S i) (lu_step n a i acc).
Proof.
  intros Hi H. destruct acc as [[lo up]|e|w]; cbn [lu_step lu_post] in *; [|exact H|exact H].
  destruct (lu_inner_step n a i lo up Hi H) as [E|[lo1 [E Hinv]]]; cbv zeta in *; rewrite E.
  - reflexivity.
  - cbn [lu_post]. eapply LUInv_meq; [| |exact Hinv]; apply meq_sym, meq_retab.
Qed.

Lemma lu_loop_post n a : lu_post n a n (for_range 0 n (lu_step n a) (Ok (mconst n0, mconst n0))).
Proof.
  pose proof (for_range_inv (lu_post n a) 0 n (lu_step n a) (Ok (mconst n0, mconst n0))) as H.
  cbn [Nat.add] in H. apply H.
  - cbn [lu_post]. apply LUInv_init.
  - intros i acc Hi. apply lu_step_post. lia.
Qed.

Lemma lu_square n (a : mat R) : lu n n a = for_range 0 n (lu_step n a) (Ok (mconst n0, mconst n0)).
Proof. unfold lu. rewrite Nat.eqb_refl. reflexivity. Qed.

Lemma lu_ok_inv n a L U : lu n n a = Ok (L, U) -> LUInv n a n L U.
Proof.
  rewrite lu_square. intro H. pose proof (lu_loop_post n a) as P. rewrite H in P. exact P.
Qed.

(* ---- consequences of the final invariant ------------------------------------ *)
Lemma LUInv_unit_lower n a L U : LUInv n a n L U -> unit_lower n L.
Proof.
  intros [_ _ _ I4 I5 _] i j Hi Hj. split.
  - intros <-. apply I4; assumption.
  - intro Hij. apply I5; try assumption. right; exact Hij.
Qed.

Lemma LUInv_upper_tri n a L U : LUInv n a n L U -> upper_tri n U.
Proof. intros [_ I2 _ _ _ _] i j Hi Hj Hji. apply I2; try assumption. right; exact Hji. Qed.

Lemma LUInv_reconstruct n a L U : LUInv n a n L U ->
  forall i j, (i < n)%nat -> (j < n)%nat -> mprod n L U i j = a i j.
Proof.
  intros [I1 I2 I3 I4 I5 I6] i j Hi Hj. unfold mprod.
  destruct (le_lt_dec i j) as [Hij|Hji].
  - rewrite (msum_trunc (S i) n) by (try lia; intros t Ht; rewrite I5 by lia; ring).
    cbn [msum]. rewrite Nat.add_0_l, I4 by assumption.
    rewrite (I1 i j) by assumption. ring.
  - rewrite (msum_trunc (S j) n) by (try lia; intros t Ht; rewrite (I2 t j) by lia; ring).
    cbn [msum]. rewrite Nat.add_0_l. rewrite (I3 i j) by assumption.
    field. apply I6; lia.
Qed.

(* ---- the C09 statements about lu -------------------------------------------- *)
Lemma c09_nonsquare_lu : forall (h w : nat) (A : mat R), h <> w -> lu h w A = Err ENonSquareMatrix.
Proof.
  intros h w A H. unfold lu. apply Nat.eqb_neq in H. rewrite H. reflexivity.
Qed.

Lemma c09_lu_reconstruct : forall (n : nat) (A L U : mat R), lu n n A = Ok (L, U) ->
  unit_lower n L /\ upper_tri n U /\
  forall i j, (i < n)%nat -> (j < n)%nat -> mprod n L U i j = A i j.
Proof.
  intros n A L U H. apply lu_ok_inv in H. split; [|split].
  - eapply LUInv_unit_lower; exact H.
  - eapply LUInv_upper_tri; exact H.
  - apply LUInv_reconstruct; exact H.
Qed.

(* outcome: never a panic, the only error is SingularMatrix, and a returned U has
   non-zero pivots everywhere except possibly the last *)
Lemma c09_lu_pivots : forall (n : nat) (A : mat R),
  lu n n A = Err ESingularMatrix \/
  exists L U, lu n n A = Ok (L, U) /\ forall i, (S i < n)%nat -> U i i <> 0.
Proof.
  intros n A. rewrite lu_square. pose proof (lu_loop_post n A) as P.
  destruct (for_range 0 n (lu_step n A) (Ok (mconst n0, mconst n0))) as [[L U]|e|w]; cbn [lu_post] in P.
  - right. exists L, U. split; [reflexivity|]. intros i Hi. apply (inv_piv _ _ _ _ _ P); lia.
  - left. subst e. reflexivity.
  - contradiction.
Qed.

(* a vanishing leading principal minor of order k < n (the leading k x k block has
   a non-trivial left null vector) is refused *)
Lemma c09_lu_zero_minor : forall (n k : nat) (A : mat R) (w : nat -> R),
  (0 < k < n)%nat -> left_null k A w -> lu n n A = Err ESingularMatrix.
Proof.
  intros n k A w Hk [[i0 [Hi0 Hw0]] Hnull].
  destruct (c09_lu_pivots n A) as [E|[L [U [E Hpiv]]]]; [exact E|exfalso].
  pose proof (lu_ok_inv n A L U E) as Inv.
  pose proof (LUInv_unit_lower _ _ _ _ Inv) as HL.
  pose proof (LUInv_upper_tri _ _ _ _ Inv) as HU.
  pose proof (LUInv_reconstruct _ _ _ _ Inv) as HR.
  assert (HLk : unit_lower k L) by (intros i j Hi Hj; apply HL; lia).
  assert (HUk : upper_tri k U) by (intros i j Hi Hj; apply HU; lia).
  assert (Hdk : forall i, (i < k)%nat -> U i i <> 0) by (intros i Hi; apply Hpiv; lia).
  assert (Hblock : forall r c, (r < k)%nat -> (c < k)%nat -> msum 0 k (fun t => L r t * U t c) = A r c).
  { intros r c Hr Hc. rewrite <- (HR r c) by lia. unfold mprod. symmetry.
    apply msum_trunc; [lia|]. intros t Ht. destruct (HL r t) as [_ Hz]; try lia. rewrite Hz by lia. ring. }
  apply Hw0. apply (no_left_null k A); [|exact Hnull|exact Hi0].
  intro b. destruct (tri_solvable k L U HLk HUk Hdk b) as [x Hx]. exists x.
  intros r Hr. rewrite <- (Hx r Hr). apply msum_ext. intros c Hc. rewrite Hblock by lia. reflexivity.
Qed.

(* ---- a concrete successful run (non-vacuity of the hypotheses) ----------------- *)
Lemma lu_2x2_ok (a : mat R) : a 0%nat 0%nat <> 0 -> exists L U, lu 2 2 a = Ok (L, U).
Proof.
  intro Ha. rewrite lu_square. cbn [for_range].
  destruct (lu_step_ok 2 a 0 (mconst 0) (mconst 0)) as [lo1 [up1 [E1 I1]]];
    [lia|apply LUInv_init|right; cbn [msum]; lra|].
  change (@n0 R RNum) with 0. rewrite E1.
  destruct (lu_step_ok 2 a 1 lo1 up1) as [lo2 [up2 [E2 _]]]; [lia|exact I1|left; lia|].
  rewrite E2. exists lo2, up2. reflexivity.
Qed.

Definition ex_lu : mat R := mat_of_lists [[2; 1]; [4; 5]].
Lemma ex_lu_ok : exists L U, lu 2 2 ex_lu = Ok (L, U).
Proof. apply lu_2x2_ok. unfold ex_lu, mat_of_lists. cbn [nth]. lra. Qed.

(* [[0,1],[1,0]]: its leading minor of order 1 vanishes *)
Definition ex_swap : mat R := mat_of_lists [[0; 1]; [1; 0]].
Lemma ex_swap_left_null : left_null 1 ex_swap (fun _ => 1).
Proof.
  split.
  - exists O. split; [lia|lra].
  - intros j Hj. assert (j = O) by lia. subst j. cbn [msum]. unfold ex_swap, mat_of_lists. cbn [nth Nat.add]. ring.
Qed.

(* the same for a right null vector of the leading block (e.g. a zero column inside it) *)
Lemma c09_lu_zero_minor_right : forall (n k : nat) (A : mat R) (x : nat -> R),
  (0 < k < n)%nat -> right_null k A x -> lu n n A = Err ESingularMatrix.
Proof.
  intros n k A x Hk [[j0 [Hj0 Hx0]] Hnull].
  destruct (c09_lu_pivots n A) as [E|[L [U [E Hpiv]]]]; [exact E|exfalso].
  pose proof (lu_ok_inv n A L U E) as Inv.
  pose proof (LUInv_unit_lower _ _ _ _ Inv) as HL.
  pose proof (LUInv_upper_tri _ _ _ _ Inv) as HU.
  pose proof (LUInv_reconstruct _ _ _ _ Inv) as HR.
  assert (HLk : unit_lower k L) by (intros i j Hi Hj; apply HL; lia).
  assert (HUk : upper_tri k U) by (intros i j Hi Hj; apply HU; lia).
  assert (Hdk : forall i, (i < k)%nat -> U i i <> 0) by (intros i Hi; apply Hpiv; lia).
  apply Hx0. apply (tri_kernel k L U x HLk HUk Hdk); [|exact Hj0].
  intros r Hr. rewrite <- (Hnull r Hr). apply msum_ext. intros c Hc. f_equal.
  rewrite <- (HR r c) by lia. unfold mprod. symmetry.
  apply msum_trunc; [lia|]. intros t Ht. destruct (HL r t) as [_ Hz]; try lia. rewrite Hz by lia. ring.
Qed.

(* ---------------------------------------------------------------------------
   The converse: if the factorisation is refused, a leading block is singular
   --------------------------------------------------------------------------- *)
Lemma LUInv_restrict n k a i lo up : (k <= n)%nat -> LUInv n a i lo up -> LUInv k a i lo up.
Proof.
  intros Hk [I1 I2 I3 I4 I5 I6].
  constructor; intros; [apply I1|apply I2|apply I3|apply I4|apply I5|apply I6]; lia.
Qed.

(* a zero pivot at step i (with a multiplier still to compute) exhibits a left null vector
   of the leading (i+1) x (i+1) block: w^T = e_i^T L^-1 *)
Lemma lu_zero_pivot_null n a i lo up :
  (S i < n)%nat -> LUInv n a i lo up ->
  a i i - msum 0 i (fun j => lo i j * up j i) = 0 ->
  exists w, left_null (S i) a w.
Proof.
  intros Hi Hinv Hz.
  set (k := S i).
  assert (Hinvk : LUInv k a i lo up) by (apply (LUInv_restrict n k); [unfold k; lia|exact Hinv]).
  destruct (lu_inner_step_ok k a i lo up) as [E [lo1 [_ Hinv1]]]; [unfold k; lia|exact Hinvk|left; unfold k; lia|].
  cbv zeta in E, Hinv1.
  set (up1 := lu_upper_row k i a lo up) in *.
  fold k in Hinv1.
  pose proof (LUInv_unit_lower _ _ _ _ Hinv1) as HL.
  pose proof (LUInv_upper_tri _ _ _ _ Hinv1) as HU.
  pose proof (LUInv_reconstruct _ _ _ _ Hinv1) as HR.
  destruct (back_ok (mtranspose lo1) k (fun t => if (t =? i)%nat then 1 else 0) (vconst 0)) as [w Hw]; [unfold k; lia|].
  assert (Hsol : forall t, (t < k)%nat ->
            msum 0 k (fun j => lo1 j t * w j) = if (t =? i)%nat then 1 else 0).
  { intros t Ht.
    apply (back_solves (mtranspose lo1) k (fun t => if (t =? i)%nat then 1 else 0) (vconst 0) w Hw); [| |exact Ht].
    - intros r c Hr Hc Hcr. unfold mtranspose. apply (HL c r Hc Hr). exact Hcr.
    - intros r Hr. unfold mtranspose. destruct (HL r r Hr Hr) as [H1 _]. rewrite H1 by reflexivity. lra. }
  exists w. split.
  - exists i. split; [lia|].
    pose proof (Hsol i) as Hi1. rewrite Nat.eqb_refl in Hi1.
    rewrite (msum_delta 0 k _ i) in Hi1; [| unfold k; lia |].
    + destruct (HL i i) as [H1 _]; try (unfold k; lia). rewrite H1 in Hi1 by reflexivity.
      intro Hw0. rewrite Hw0 in Hi1. specialize (Hi1 ltac:(unfold k; lia)). lra.
    + intros t Ht Hne. destruct (HL t i) as [_ H0]; try (unfold k in *; lia).
      rewrite H0 by (unfold k in *; lia). ring.
  - intros c Hc. fold k in Hc |- *.
    rewrite (msum_ext 0 k _ (fun r => msum 0 k (fun t => w r * lo1 r t * up1 t c))).
    2:{ intros r Hr. rewrite <- (HR r c) by lia. unfold mprod. rewrite <- msum_scal_l.
        apply msum_ext. intros t _. ring. }
    rewrite msum_exchange.
    rewrite (msum_ext 0 k _ (fun t => (if (t =? i)%nat then 1 else 0) * up1 t c)).
    2:{ intros t Ht. rewrite <- (Hsol t) by lia. rewrite <- msum_scal_r.
        apply msum_ext. intros r _. ring. }
    rewrite (msum_delta 0 k _ i); [| unfold k; lia |].
    + rewrite Nat.eqb_refl, Rmult_1_l.
      destruct (Nat.eq_dec c i) as [->|Hne].
      * rewrite E. exact Hz.
      * apply HU; unfold k in *; lia.
    + intros t Ht Hne. apply Nat.eqb_neq in Hne. rewrite Hne. ring.
Qed.

Lemma c09_lu_ok_of_minors : forall (n : nat) (A : mat R),
  (forall k w, (0 < k < n)%nat -> ~ left_null k A w) -> exists L U, lu n n A = Ok (L, U).
Proof.
  intros n A Hreg. rewrite lu_square.
  pose proof (for_range_inv (fun i acc => exists lo up, acc = Ok (lo, up) /\ LUInv n A i lo up)
                0 n (lu_step n A) (Ok (mconst n0, mconst n0))) as H.
  cbn [Nat.add] in H. destruct H as [lo [up [E _]]].
  - exists (mconst 0), (mconst 0). split; [reflexivity|apply LUInv_init].
  - intros i acc Hi [lo [up [-> Hinv]]].
    destruct (lu_step_ok n A i lo up) as [lo' [up' [E Hinv']]]; [lia|exact Hinv| |].
    + destruct (le_lt_dec (n - i) 1) as [H1|H1]; [left; exact H1|right].
      intro Hz. destruct (lu_zero_pivot_null n A i lo up) as [w Hw]; [lia|exact Hinv|exact Hz|].
      apply (Hreg (S i) w); [lia|exact Hw].
    + exists lo', up'. split; [exact E|exact Hinv'].
  - exists lo, up. exact E.
Qed.

(* lu is refused exactly when some leading principal block of order < n is singular *)
Lemma c09_lu_err_iff_minor : forall (n : nat) (A : mat R),
  lu n n A = Err ESingularMatrix <-> exists k w, (0 < k < n)%nat /\ left_null k A w.
Proof.
  intros n A. split.
  - intro HE. apply Classical_Prop.NNPP. intro Hno.
    destruct (c09_lu_ok_of_minors n A) as [L [U E]].
    + intros k w Hk Hw. apply Hno. exists k, w. split; assumption.
    + rewrite E in HE. discriminate.
  - intros [k [w [Hk Hw]]]. exact (c09_lu_zero_minor n k A w Hk Hw).
Qed.
