(* Proofs/PolyLemmasWf.v — well-formed multivariate polynomials (what the repaired
   parser produces) are closed under the four derive / integrate entry points, and
   polynomials with at most one variable stay usable through the univariate entry
   points.  Shared by C03 (c03_closed) and C04 (c04_closed). *)
From Coq Require Import ZArith NArith List Bool Reals Lra Lia Permutation Sorted.
From Coquelicot Require Import Coquelicot.
From SV Require Import Base.Num Base.Outcome Model.Poly Proofs.PolyLemmas Proofs.Deriv.
Import ListNotations.
Local Open Scope R_scope.

Definition term_sorted (t : term R) : Prop := Sorted name_lt (keys (t_vars t)).

(* every term lists its variables strictly increasing by name (hence distinct); the
   variable list is strictly increasing; every variable used in a term is listed *)
Definition wf_poly (p : ipoly R) : Prop :=
  (forall t, In t (i_terms p) -> term_sorted t) /\
  Sorted name_lt (i_vars p) /\
  (forall t, In t (i_terms p) -> incl (keys (t_vars t)) (i_vars p)).

Lemma wf_poly_wf_terms (p : ipoly R) : wf_poly p -> wf_terms (i_terms p).
Proof. intros [H _] t Ht. apply sorted_lt_nodup. apply H. exact Ht. Qed.

Lemma var_set_sorted (ts : list (term R)) : Sorted name_lt (var_set ts).
Proof. unfold var_set. apply dedup_sorted_sorted. apply sort_names_sorted. Qed.

Lemma var_set_in (ts : list (term R)) (k : name) :
  In k (var_set ts) <-> exists t, In t ts /\ In k (keys (t_vars t)).
Proof.
  unfold var_set. rewrite dedup_sorted_in, sort_names_in, in_flat_map. reflexivity.
Qed.

Lemma sort_names_sorted_lt (l : list name) : Sorted name_lt l -> Sorted name_lt (sort_names l).
Proof. intro H. apply sort_names_nodup_sorted. apply sorted_lt_nodup. exact H. Qed.

(* the common tail of partial_derivative and inter_integral *)
Lemma mk_poly_wf (ds : list (term R)) :
  wf_terms ds -> wf_poly (sort_poly {| i_terms := ds; i_vars := var_set ds |}).
Proof.
  intro Hwf. unfold wf_poly. rewrite sort_poly_terms. cbn [sort_poly i_terms i_vars].
  split; [|split].
  - intros t Ht. apply in_map_iff in Ht. destruct Ht as [d [<- Hd]].
    unfold term_sorted, sort_term. cbn [t_vars]. apply sort_vars_sorted. apply Hwf. exact Hd.
  - apply sort_names_sorted_lt. apply var_set_sorted.
  - intros t Ht k Hk. apply in_map_iff in Ht. destruct Ht as [d [<- Hd]].
    apply sort_names_in. apply var_set_in. exists d. split; [exact Hd|].
    cbn [sort_term t_vars] in Hk.
    eapply Permutation_in; [apply keys_perm; apply sort_vars_perm|exact Hk].
Qed.

Lemma mk_poly_vars_in (ds : list (term R)) (k : name) :
  In k (i_vars (sort_poly {| i_terms := ds; i_vars := var_set ds |})) <->
  exists d, In d ds /\ In k (keys (t_vars d)).
Proof. cbn [sort_poly i_vars]. rewrite sort_names_in. apply var_set_in. Qed.

(** * Integration: shape of one term *)

Lemma integ_vars_shape (c : R) (v : name) : forall vs pre d,
  integ_vars c pre vs v = Some d ->
  exists post1 p post2, vs = post1 ++ (v, p) :: post2 /\ ~ In v (keys post1) /\
    t_coef d = c / (p + 1) /\ t_vars d = rev pre ++ post1 ++ (v, p + 1) :: post2.
Proof.
  induction vs as [|[k p] vs IH]; intros pre d H; cbn [integ_vars] in H; [discriminate|].
  destruct (name_eqb k v) eqn:Ek.
  - apply name_eqb_eq in Ek. subst k. injection H as <-.
    exists [], p, vs. cbn [app keys map In t_coef t_vars ndiv nadd n1 RNum].
    repeat split. intros [].
  - apply name_eqb_neq in Ek.
    destruct (IH _ _ H) as (post1 & q & post2 & -> & Hv & Hc & Hs).
    exists ((k, p) :: post1), q, post2. split; [reflexivity|].
    split. { cbn [keys map fst In]. intros [E|E]; [apply Ek; exact E|apply Hv; exact E]. }
    split; [exact Hc|]. cbn [rev] in Hs. rewrite <- !app_assoc in Hs. exact Hs.
Qed.

Lemma integ_vars_none (c : R) (v : name) : forall vs pre,
  integ_vars c pre vs v = None -> ~ In v (keys vs).
Proof.
  induction vs as [|[k p] vs IH]; intros pre H; cbn [integ_vars] in H; [intros []|].
  destruct (name_eqb k v) eqn:Ek; [discriminate|].
  apply name_eqb_neq in Ek. cbn [keys map fst In].
  intros [E|E]; [apply Ek; exact E|exact (IH _ H E)].
Qed.

(* the integrated term: same keys, or v appended when it was absent *)
Lemma integ_term_keys (t : term R) (v : name) :
  (keys (t_vars (integ_term t v)) = keys (t_vars t) /\ In v (keys (t_vars t))) \/
  (keys (t_vars (integ_term t v)) = keys (t_vars t) ++ [v] /\ ~ In v (keys (t_vars t))).
Proof.
  unfold integ_term. destruct (integ_vars (t_coef t) [] (t_vars t) v) as [d|] eqn:E.
  - left. destruct (integ_vars_shape _ _ _ _ _ E) as (post1 & p & post2 & Hvs & _ & _ & Hd).
    rewrite Hd, Hvs. cbn [rev app]. rewrite !keys_app. cbn [keys map fst].
    split; [reflexivity|]. apply in_or_app. right. left. reflexivity.
  - right. cbn [t_vars]. rewrite keys_app. cbn [keys map fst].
    split; [reflexivity|]. exact (integ_vars_none _ _ _ _ E).
Qed.

Lemma integ_term_has_var (t : term R) (v : name) : In v (keys (t_vars (integ_term t v))).
Proof.
  destruct (integ_term_keys t v) as [[-> H]|[-> _]]; [exact H|].
  apply in_or_app. right. left. reflexivity.
Qed.

Lemma integ_term_keys_in (t : term R) (v k : name) :
  In k (keys (t_vars (integ_term t v))) -> In k (keys (t_vars t)) \/ k = v.
Proof.
  destruct (integ_term_keys t v) as [[-> _]|[-> _]]; intro H; [left; exact H|].
  apply in_app_or in H. destruct H as [H|[H|[]]]; [left; exact H|right; symmetry; exact H].
Qed.

Lemma integ_term_wf (t : term R) (v : name) : wf_term t -> wf_term (integ_term t v).
Proof.
  unfold wf_term. intro H. destruct (integ_term_keys t v) as [[-> _]|[-> Hv]]; [exact H|].
  apply NoDup_rev in H. rewrite <- (rev_involutive (keys (t_vars t) ++ [v])).
  apply NoDup_rev. rewrite rev_app_distr. cbn [rev app]. constructor; [|exact H].
  rewrite <- in_rev. exact Hv.
Qed.

Lemma integ_terms_wf (ts : list (term R)) (v : name) :
  wf_terms ts -> wf_terms (map (fun t => integ_term t v) ts).
Proof.
  intros H d Hd. apply in_map_iff in Hd. destruct Hd as [t [<- Ht]].
  apply integ_term_wf. apply H. exact Ht.
Qed.

Lemma inter_integral_terms (ts : list (term R)) (v : name) :
  i_terms (inter_integral ts v) = map sort_term (map (fun t => integ_term t v) ts).
Proof. reflexivity. Qed.

(** * Closure *)

Lemma partial_derivative_wf (ts : list (term R)) (v : name) :
  wf_terms ts -> wf_poly (partial_derivative ts v).
Proof. intro H. unfold partial_derivative. apply mk_poly_wf. apply deriv_terms_wf. exact H. Qed.

Lemma inter_integral_wf (ts : list (term R)) (v : name) :
  wf_terms ts -> wf_poly (inter_integral ts v).
Proof. intro H. unfold inter_integral. apply mk_poly_wf. apply integ_terms_wf. exact H. Qed.

(* variables of the derivative are variables of the source *)
Lemma partial_derivative_keys (ts : list (term R)) (v : name) (d : term R) (k : name) :
  In d (i_terms (partial_derivative ts v)) -> In k (keys (t_vars d)) ->
  exists t, In t ts /\ In k (keys (t_vars t)).
Proof.
  rewrite partial_derivative_terms. intros Hd Hk.
  apply in_map_iff in Hd. destruct Hd as [d0 [<- Hd0]].
  destruct (deriv_terms_in v ts d0 Hd0) as [t [Ht E]].
  exists t. split; [exact Ht|].
  apply (proj1 (deriv_vars_keys _ _ _ _ E)).
  cbn [sort_term t_vars] in Hk.
  eapply Permutation_in; [apply keys_perm; apply sort_vars_perm|exact Hk].
Qed.

Lemma partial_derivative_vars_incl (p : ipoly R) (v : name) :
  wf_poly p -> incl (i_vars (partial_derivative (i_terms p) v)) (i_vars p).
Proof.
  intros (_ & _ & Hin) k Hk. unfold partial_derivative in Hk.
  apply mk_poly_vars_in in Hk. destruct Hk as [d [Hd Hk]].
  destruct (deriv_terms_in v _ d Hd) as [t [Ht E]].
  apply (Hin t Ht). apply (proj1 (deriv_vars_keys _ _ _ _ E)). exact Hk.
Qed.

Lemma nodup_all_eq_length (l : list name) (v : name) :
  NoDup l -> (forall k, In k l -> k = v) -> (length l <= 1)%nat.
Proof.
  intros Hn H. destruct l as [|a [|b l]]; cbn [length]; try lia.
  exfalso. inversion Hn as [|? ? Ha _]; subst. apply Ha. left.
  rewrite (H a), (H b); [reflexivity|right; left; reflexivity|left; reflexivity].
Qed.

Lemma nodup_incl_length_le1 (l l' : list name) :
  NoDup l -> incl l l' -> (length l' <= 1)%nat -> (length l <= 1)%nat.
Proof.
  intros Hn Hi Hl. pose proof (NoDup_incl_length Hn Hi). lia.
Qed.

Lemma c03_closed_derivate_multivariate : forall (p : ipoly R) (v : name),
  wf_poly p ->
  wf_poly (i_derivate_multivariate p v) /\ incl (i_vars (i_derivate_multivariate p v)) (i_vars p).
Proof.
  intros p v H. unfold i_derivate_multivariate. split.
  - apply partial_derivative_wf. apply wf_poly_wf_terms. exact H.
  - apply partial_derivative_vars_incl. exact H.
Qed.

Lemma c03_closed_integral_multivariate : forall (p : ipoly R) (v : name),
  wf_poly p ->
  wf_poly (i_integral_multivariate p v) /\
  (forall k, In k (i_vars (i_integral_multivariate p v)) -> In k (i_vars p) \/ k = v).
Proof.
  intros p v H. unfold i_integral_multivariate. split.
  - apply inter_integral_wf. apply wf_poly_wf_terms. exact H.
  - intros k Hk. unfold inter_integral in Hk. apply mk_poly_vars_in in Hk.
    destruct Hk as [d [Hd Hk]]. apply in_map_iff in Hd. destruct Hd as [t [<- Ht]].
    destruct (integ_term_keys_in t v k Hk) as [Hk'|Hk']; [left|right; exact Hk'].
    destruct H as (_ & _ & Hin). exact (Hin t Ht k Hk').
Qed.

Lemma c03_closed_derivate_univariate : forall (p d : ipoly R),
  wf_poly p -> i_derivate_univariate p = Ok d -> wf_poly d /\ i_vars d = i_vars p.
Proof.
  intros p d H E. unfold i_derivate_univariate in E.
  set (v := match i_vars p with [] => default_x | v :: _ => v end) in E.
  assert (E' : d = {| i_terms := i_terms (partial_derivative (i_terms p) v); i_vars := i_vars p |}).
  { destruct (i_vars p) as [|a [|b l]]; try discriminate; injection E as <-; reflexivity. }
  subst d. cbn [i_vars]. split; [|reflexivity].
  pose proof (partial_derivative_wf (i_terms p) v (wf_poly_wf_terms p H)) as (Hs & _ & _).
  destruct H as (_ & Hv & Hin).
  split; [exact Hs|]. split; [exact Hv|].
  cbn [i_terms i_vars]. intros t Ht k Hk.
  destruct (partial_derivative_keys _ _ _ _ Ht Hk) as [t0 [Ht0 Hk0]].
  exact (Hin t0 Ht0 k Hk0).
Qed.

Lemma c03_closed_integral_univariate : forall (p q : ipoly R),
  wf_poly p -> i_integral_univariate p = Ok q ->
  wf_poly q /\ (length (i_vars q) <= 1)%nat.
Proof.
  intros p q H E. unfold i_integral_univariate in E.
  set (v := match i_vars p with [] => default_x | v :: _ => v end) in E.
  assert (Hv : forall k, In k (i_vars p) -> k = v).
  { subst v. destruct (i_vars p) as [|a [|b l]]; try discriminate.
    - intros k [].
    - intros k [<-|[]]. reflexivity. }
  assert (E' : q = inter_integral (i_terms p) v).
  { destruct (i_vars p) as [|a [|b l]]; try discriminate; injection E as <-; reflexivity. }
  subst q.
  pose proof (c03_closed_integral_multivariate p v H) as [Hwf Hk].
  unfold i_integral_multivariate in *. split; [exact Hwf|].
  apply (nodup_all_eq_length _ v).
  - apply sorted_lt_nodup. apply Hwf.
  - intros k Hin. destruct (Hk k Hin) as [Hp|Hp]; [apply Hv; exact Hp|exact Hp].
Qed.

(* a well-formed polynomial with at most one variable can be evaluated, differentiated
   and integrated through the univariate entry points: each answers Ok (never Panic,
   never Err TooManyVariables), constant polynomials included; and the results are
   again well-formed with at most one variable *)
Lemma i_eval_univariate_ok (p : ipoly R) (x : R) :
  wf_poly p -> (length (i_vars p) <= 1)%nat -> exists y, i_eval_univariate p x = Ok y.
Proof.
  intros (_ & _ & Hin) Hl. unfold i_eval_univariate.
  destruct (i_vars p) as [|a [|b l]] eqn:E; [| |cbn [length] in Hl; lia].
  - eexists. apply eval_inter_ok. intros t Ht k Hk. destruct (Hin t Ht k Hk).
  - eexists. apply eval_inter_ok. intros t Ht k Hk.
    destruct (Hin t Ht k Hk) as [<-|[]]. cbn [lookup]. rewrite name_eqb_refl. discriminate.
Qed.

Lemma c03_closed_univariate : forall (p : ipoly R),
  wf_poly p -> (length (i_vars p) <= 1)%nat ->
  (forall x, exists y, i_eval_univariate p x = Ok y) /\
  (exists d, i_derivate_univariate p = Ok d /\ wf_poly d /\ (length (i_vars d) <= 1)%nat) /\
  (exists q, i_integral_univariate p = Ok q /\ wf_poly q /\ (length (i_vars q) <= 1)%nat).
Proof.
  intros p H Hl. split; [|split].
  - intro x. apply i_eval_univariate_ok; assumption.
  - assert (exists d, i_derivate_univariate p = Ok d) as [d Hd].
    { unfold i_derivate_univariate. destruct (i_vars p) as [|a [|b l]]; try (eexists; reflexivity).
      cbn [length] in Hl. lia. }
    exists d. split; [exact Hd|].
    destruct (c03_closed_derivate_univariate p d H Hd) as [Hw Hv]. split; [exact Hw|].
    rewrite Hv. exact Hl.
  - assert (exists q, i_integral_univariate p = Ok q) as [q Hq].
    { unfold i_integral_univariate. destruct (i_vars p) as [|a [|b l]]; try (eexists; reflexivity).
      cbn [length] in Hl. lia. }
    exists q. split; [exact Hq|]. exact (c03_closed_integral_univariate p q H Hq).
Qed.

(* by-name derivative of a polynomial with at most one variable has at most one variable *)
Lemma c03_closed_derivate_multivariate_le1 : forall (p : ipoly R) (v : name),
  wf_poly p -> (length (i_vars p) <= 1)%nat -> (length (i_vars (i_derivate_multivariate p v)) <= 1)%nat.
Proof.
  intros p v H Hl. destruct (c03_closed_derivate_multivariate p v H) as [Hw Hi].
  eapply nodup_incl_length_le1; [|exact Hi|exact Hl]. apply sorted_lt_nodup. apply Hw.
Qed.

(* the parser's output shape is an instance: sorted distinct one-letter names *)
Example wf_poly_example :
  wf_poly {| i_terms := [ {| t_coef := 3; t_vars := [([120%N], 2); ([121%N], -1)] |};
                          {| t_coef := 5; t_vars := [] |} ];
             i_vars := [[120%N]; [121%N]] |}.
Proof.
  unfold wf_poly, term_sorted. cbn [i_terms i_vars]. split; [|split].
  - intros t [<-|[<-|[]]]; cbn [t_vars keys map fst]; repeat constructor.
  - repeat constructor.
  - intros t [<-|[<-|[]]]; cbn [t_vars keys map fst]; intros k Hk; [exact Hk|destruct Hk].
Qed.

(* C03 closure, in one statement *)
Lemma c03_closed : forall (p : ipoly R),
  wf_poly p ->
  (forall v, wf_poly (i_derivate_multivariate p v) /\
             incl (i_vars (i_derivate_multivariate p v)) (i_vars p)) /\
  (forall v, wf_poly (i_integral_multivariate p v) /\
             (forall k, In k (i_vars (i_integral_multivariate p v)) -> In k (i_vars p) \/ k = v)) /\
  (forall d, i_derivate_univariate p = Ok d -> wf_poly d /\ i_vars d = i_vars p) /\
  (forall q, i_integral_univariate p = Ok q -> wf_poly q /\ (length (i_vars q) <= 1)%nat).
Proof.
  intros p H. split; [|split; [|split]].
  - intro v. apply c03_closed_derivate_multivariate. exact H.
  - intro v. apply c03_closed_integral_multivariate. exact H.
  - intros d Hd. exact (c03_closed_derivate_univariate p d H Hd).
  - intros q Hq. exact (c03_closed_integral_univariate p q H Hq).
Qed.

(* constant polynomial: no variable at all; still usable (the repaired F3) *)
Example wf_poly_constant : wf_poly {| i_terms := [ {| t_coef := 5; t_vars := [] |} ]; i_vars := [] |}
  /\ (length (@nil name) <= 1)%nat.
Proof.
  split; [|cbn; lia]. unfold wf_poly, term_sorted. cbn [i_terms i_vars]. split; [|split].
  - intros t [<-|[]]. cbn. constructor.
  - constructor.
  - intros t [<-|[]] k Hk. destruct Hk.
Qed.
