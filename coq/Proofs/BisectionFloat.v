(* Proofs/BisectionFloat.v — soundness of the bisection solver for the EXECUTED instance
   (Model/Solvers.v at T := float, Coq primitive binary64 = Rust f64), target [f] arbitrary.

   Bridge to the reals: Flocq's [Prim2B] followed by [B2R] ([FR], [ffin] of Proofs/StatsFloat.v).

   (1) midpoint_between        for finite a <= b with |a|, |b| < 2^1023 the computed midpoint
                               fl(fl(a+b)/2) is finite and a <= m <= b.  No rounding-error bound is
                               needed: rounding is monotone, 2a and 2b are representable, and
                               fl(2a/2) = a.  Subnormal midpoints are covered.
   (2) bis_float_bracket_inv   every result of [bis_loop] started in a state whose bracket is finite,
                               ordered and inside [lo, hi] has a finite ordered bracket inside [lo, hi]
                               and a finite candidate inside that bracket (whatever f returns, NaN
                               included: only the branch structure of the body matters).
   (3) bisection_float_sound   bisection f b tol cap = Ok x  ->  x finite, lo <= x <= hi, and the float
                               residual passed the gate: f x = Ok v, v finite, |v| < gate (= fl(1e-4)).
       No hypothesis on the initial guess: since the repair 5439521 the range test starts with
       `x_curr.is_nan()`, so an accepted guess is not a NaN, hence finite and inside, hence lo <= hi.
       (Before the repair the test was two `<` comparisons, both false on a NaN: a NaN guess was
       accepted even with a reversed bracket, lo = 5, hi = 1 returned Ok 5.  The hole was found while
       proving this theorem; nan_init_reversed_bracket_rejected is its regression.)
   (4) bisection_float_reversed_rejected / bisection_float_nan_init_rejected: a reversed finite
       bracket is rejected for EVERY initial guess, a NaN guess is rejected for any bounds.       *)
From Coq Require Import ZArith List Bool Arith Reals Floats Lia Lra.
From Flocq Require Import Core BinarySingleNaN PrimFloat.
From SV Require Import Base.Num Base.Outcome Model.Poly Model.Solvers Gen.Consts
                       Proofs.StatsFloat Proofs.PolyFloat Proofs.Bisect.
Import ListNotations.
Local Open Scope R_scope.

Local Notation pfloat := PrimFloat.float.
Local Notation B64 := (binary_float FloatOps.prec FloatOps.emax).
Local Notation Badd := (@Bplus FloatOps.prec FloatOps.emax Hprec Hmax mode_NE).
Local Notation Bquo := (@Bdiv FloatOps.prec FloatOps.emax Hprec Hmax mode_NE).
Local Notation fexp64 := (SpecFloat.fexp FloatOps.prec FloatOps.emax).
Local Notation rnd64 := (round radix2 fexp64 ZnearestE).

(* ---- rounding: monotone, identity on format points, doubling stays in the format ---------- *)
Lemma rnd64_le (x y : R) : x <= y -> rnd64 x <= rnd64 y.
Proof.
  apply (@round_le radix2 fexp64 (fexp_correct _ _ Hprec) ZnearestE (valid_rnd_N _) x y).
Qed.

Lemma rnd64_id (x : R) : generic_format radix2 fexp64 x -> rnd64 x = x.
Proof.
  apply (@round_generic radix2 fexp64 ZnearestE (valid_rnd_N _) x).
Qed.

Lemma format64_double (x : R) :
  generic_format radix2 fexp64 x -> generic_format radix2 fexp64 (x + x).
Proof.
  intros Hx.
  destruct (@FLT_format_generic radix2 (-1074) 53 (eq_refl : Prec_gt_0 53) x Hx) as [[m e] H1 H2 H3].
  cbn [Fnum Fexp] in H2, H3.
  apply (generic_format_FLT radix2 (-1074) 53).
  apply (FLT_spec radix2 (-1074) 53 (x + x) (Float radix2 m (e + 1))).
  - rewrite H1. unfold F2R. cbn [Fnum Fexp]. rewrite bpow_plus_1. cbn [radix_val radix2]. lra.
  - exact H2.
  - cbn [Fexp]. lia.
Qed.

(* ---- the constant 2.0 of the model ------------------------------------------------------- *)
Lemma FR_ntwo : FR (@ntwo pfloat FNum) = 2 /\ ffin (@ntwo pfloat FNum).
Proof.
  split.
  - rewrite FR_SF2R.
    replace (Prim2SF (@ntwo pfloat FNum)) with (S754_finite false 4503599627370496 (-51))
      by (vm_compute; reflexivity).
    unfold SF2R, F2R. cbn [cond_Zopp Fnum Fexp].
    change (IZR (Z.pos 4503599627370496)) with (IZR (radix2 ^ 52)).
    rewrite IZR_Zpower by lia. rewrite <- bpow_plus. reflexivity.
  - unfold ffin. rewrite <- is_finite_equiv. vm_compute. reflexivity.
Qed.

(* ---- (1) the midpoint ---------------------------------------------------------------------- *)
Definition fmid (a b : pfloat) : pfloat := PrimFloat.div (PrimFloat.add a b) (@ntwo pfloat FNum).

Lemma midpoint_between : forall a b : PrimFloat.float,
  is_finite (Prim2B a) = true -> is_finite (Prim2B b) = true ->
  Rabs (B2R (Prim2B a)) < bpow radix2 1023 -> Rabs (B2R (Prim2B b)) < bpow radix2 1023 ->
  B2R (Prim2B a) <= B2R (Prim2B b) ->
  is_finite (Prim2B (PrimFloat.div (PrimFloat.add a b) (@ntwo PrimFloat.float FNum))) = true /\
  B2R (Prim2B a) <= B2R (Prim2B (PrimFloat.div (PrimFloat.add a b) (@ntwo PrimFloat.float FNum)))
                 <= B2R (Prim2B b).
Proof.
  intros a b Fa Fb Ma Mb Hab.
  destruct FR_ntwo as [T2 F2]. unfold FR, ffin in T2, F2.
  set (A := B2R (Prim2B a)) in *. set (Bv := B2R (Prim2B b)) in *.
  assert (GA : generic_format radix2 fexp64 A) by apply generic_format_B2R.
  assert (GB : generic_format radix2 fexp64 Bv) by apply generic_format_B2R.
  assert (W : bpow radix2 1024 = 2 * bpow radix2 1023).
  { change 1024%Z with (1023 + 1)%Z. rewrite bpow_plus_1. reflexivity. }
  (* the sum *)
  assert (S1 : A + A <= rnd64 (A + Bv)).
  { rewrite <- (rnd64_id (A + A)) by (apply format64_double; exact GA). apply rnd64_le. lra. }
  assert (S2 : rnd64 (A + Bv) <= Bv + Bv).
  { rewrite <- (rnd64_id (Bv + Bv)) by (apply format64_double; exact GB). apply rnd64_le. lra. }
  assert (Sfin : is_finite (Badd (Prim2B a) (Prim2B b)) = true).
  { apply Badd_round_finite; [exact Fa|exact Fb|]. fold A Bv.
    apply Rabs_def1; [|]; apply Rabs_def2 in Ma; apply Rabs_def2 in Mb; lra. }
  pose proof (Badd_finite_round _ _ Fa Fb Sfin) as Sval. fold A Bv in Sval.
  (* the division by two *)
  rewrite div_equiv, add_equiv.
  set (S := Badd (Prim2B a) (Prim2B b)) in *.
  assert (H2 : B2R (Prim2B (@ntwo pfloat FNum)) <> 0) by (rewrite T2; lra).
  assert (D1 : A <= rnd64 (B2R S / 2)).
  { rewrite <- (rnd64_id A GA) at 1. apply rnd64_le. lra. }
  assert (D2 : rnd64 (B2R S / 2) <= Bv).
  { rewrite <- (rnd64_id Bv GB). apply rnd64_le. lra. }
  generalize (Bdiv_correct FloatOps.prec FloatOps.emax Hprec Hmax mode_NE S (Prim2B (@ntwo pfloat FNum)) H2).
  rewrite T2. rewrite Rlt_bool_true.
  - intros [Hv [Hf _]]. rewrite Hf, Hv. split; [exact Sfin|]. split; [exact D1|exact D2].
  - apply Rabs_def2 in Ma; apply Rabs_def2 in Mb.
    pose proof (bpow_gt_0 radix2 1023).
    apply Rabs_def1; change (round_mode mode_NE) with ZnearestE; change (bpow radix2 emax) with (bpow radix2 1024); lra.
Qed.

(* ---- float comparisons read over the reals -------------------------------------------------- *)
Lemma ltb_true_real (x y : pfloat) : ffin x -> ffin y -> PrimFloat.ltb x y = true -> FR x < FR y.
Proof.
  unfold ffin, FR. intros Fx Fy H. rewrite ltb_equiv in H. rewrite Bltb_correct in H by assumption.
  destruct (Rlt_bool_spec (B2R (Prim2B x)) (B2R (Prim2B y))) as [L|]; [exact L|discriminate H].
Qed.

Lemma ltb_false_real (x y : pfloat) : ffin x -> ffin y -> PrimFloat.ltb x y = false -> FR y <= FR x.
Proof.
  unfold ffin, FR. intros Fx Fy H. rewrite ltb_equiv in H. rewrite Bltb_correct in H by assumption.
  destruct (Rlt_bool_spec (B2R (Prim2B x)) (B2R (Prim2B y))) as [|L]; [discriminate H|exact L].
Qed.

(* x != x on floats is the NaN test *)
Lemma nneb_self_float (x : pfloat) : @nneb pfloat FNum x x = is_nan (Prim2B x).
Proof.
  unfold nneb. cbn [neqb FNum]. rewrite eqb_equiv, Beqb_refl. apply negb_involutive.
Qed.

(* what `!(init.is_nan() || init < lo || hi < init)` gives on floats: for finite ends the guess is
   finite (not a NaN, not an infinity) and inside *)
Lemma init_in_float (lo init hi : pfloat) :
  ffin lo -> ffin hi ->
  @init_out pfloat FNum {| b_lower := lo; b_init := init; b_upper := hi |} = false ->
  ffin init /\ FR lo <= FR init <= FR hi.
Proof.
  intros Flo Fhi H. unfold init_out in H. cbn [b_lower b_init b_upper nltb FNum] in H.
  apply orb_false_elim in H. destruct H as [H H2].
  apply orb_false_elim in H. destruct H as [Hn H1].
  rewrite nneb_self_float in Hn.
  assert (Fi : ffin init).
  { unfold ffin in *. rewrite ltb_equiv in H1, H2.
    destruct (Prim2B init) as [s|s| |s m e Hb]; try reflexivity; try discriminate Hn.
    destruct s.
    - destruct (Prim2B lo) as [s1|s1| |s1 m1 e1 Hb1]; try discriminate Flo; cbn in H1; discriminate H1.
    - destruct (Prim2B hi) as [s1|s1| |s1 m1 e1 Hb1]; try discriminate Fhi; cbn in H2; discriminate H2. }
  split; [exact Fi|]. split.
  - exact (ltb_false_real _ _ Fi Flo H1).
  - exact (ltb_false_real _ _ Fhi Fi H2).
Qed.

(* what `v.abs() < g` gives for a finite g: v is finite (not a NaN, not an infinity) and |v| < g *)
Lemma abs_ltb_real (v g : pfloat) : ffin g -> PrimFloat.ltb (PrimFloat.abs v) g = true ->
  ffin v /\ Rabs (FR v) < FR g.
Proof.
  unfold ffin, FR. intros Fg H. rewrite ltb_equiv, abs_equiv in H.
  assert (Fv : is_finite (Prim2B v) = true).
  { destruct (Prim2B v) as [s|s| |s m e Hb]; try reflexivity.
    - destruct (Prim2B g) as [s1|s1| |s1 m1 e1 Hb1]; try discriminate Fg; cbn in H; discriminate H.
    - cbn in H. discriminate H. }
  split; [exact Fv|].
  rewrite Bltb_correct in H; [|rewrite is_finite_Babs; exact Fv|exact Fg].
  rewrite B2R_Babs in H.
  destruct (Rlt_bool_spec (Rabs (B2R (Prim2B v))) (B2R (Prim2B g))) as [L|]; [exact L|discriminate H].
Qed.

(* the residual gate of the executed instance: the binary64 number nearest to 1e-4 *)
Lemma gate_float_value :
  is_finite (Prim2B (@gate PrimFloat.float FNum)) = true /\
  B2R (Prim2B (@gate PrimFloat.float FNum)) = IZR 7378697629483821 * bpow radix2 (-66) /\
  1 / 10000 < B2R (Prim2B (@gate PrimFloat.float FNum)) < 1 / 10000 + 1 / 10 ^ 20.
Proof.
  assert (E : B2R (Prim2B (@gate pfloat FNum)) = IZR 7378697629483821 * bpow radix2 (-66)).
  { fold (FR (@gate pfloat FNum)). rewrite FR_SF2R.
    replace (Prim2SF (@gate pfloat FNum)) with (S754_finite false 7378697629483821 (-66))
      by (vm_compute; reflexivity).
    reflexivity. }
  split; [rewrite <- is_finite_equiv; vm_compute; reflexivity|].
  split; [exact E|]. rewrite E.
  replace (bpow radix2 (-66)) with (/ IZR (2 ^ 66)).
  - change (2 ^ 66)%Z with 73786976294838206464%Z. lra.
  - change (-66)%Z with (Z.opp 66). rewrite bpow_opp. reflexivity.
Qed.

(* ---- (2) the bracket invariant of the float loop --------------------------------------------- *)
(* the bracket: finite ends, ordered, inside the caller's [lo, hi] *)
Definition bis_inv0 (lo hi : pfloat) (s : bstate pfloat) : Prop :=
  ffin (bs_lower s) /\ ffin (bs_upper s) /\
  FR lo <= FR (bs_lower s) /\ FR (bs_lower s) <= FR (bs_upper s) /\ FR (bs_upper s) <= FR hi.
(* ... and the candidate: finite, inside the bracket *)
Definition bis_inv (lo hi : pfloat) (s : bstate pfloat) : Prop :=
  bis_inv0 lo hi s /\ ffin (bs_x s) /\ FR (bs_lower s) <= FR (bs_x s) <= FR (bs_upper s).

Lemma bis_inv0_next lo hi s : bis_inv0 lo hi s -> bis_inv0 lo hi (bs_next s).
Proof. exact (fun H => H). Qed.

Section Loop.
  Variables (f : pfloat -> res pfloat) (tol : pfloat) (cap : nat) (lo hi : pfloat).
  Hypothesis Mlo : Rabs (FR lo) < bpow radix2 1023.
  Hypothesis Mhi : Rabs (FR hi) < bpow radix2 1023.

  (* one body, whatever f returns and whichever of the three branches is taken *)
  Lemma bis_body_float_inv s s' brk :
    bis_inv0 lo hi s -> bis_body f tol cap s = Ok (s', brk) -> bis_inv lo hi s'.
  Proof.
    intros (Fl & Fu & A & B & C) Hb.
    apply bis_body_ok in Hb. destruct Hb as (vl & vm & _ & _ & _ & _ & Hc).
    apply Rabs_def2 in Mlo. apply Rabs_def2 in Mhi.
    assert (Ml : Rabs (FR (bs_lower s)) < bpow radix2 1023) by (apply Rabs_def1; lra).
    assert (Mu : Rabs (FR (bs_upper s)) < bpow radix2 1023) by (apply Rabs_def1; lra).
    destruct (midpoint_between (bs_lower s) (bs_upper s) Fl Fu Ml Mu B) as [Fm [M1 M2]].
    change (PrimFloat.div (PrimFloat.add (bs_lower s) (bs_upper s)) ntwo) with (bis_mid s) in Fm, M1, M2.
    fold (ffin (bis_mid s)) in Fm. fold (FR (bs_lower s)) (FR (bs_upper s)) (FR (bis_mid s)) in M1, M2.
    unfold bis_inv, bis_inv0.
    destruct Hc as [(_ & L & U & X & _)|[(_ & _ & L & U & X & _)|(_ & _ & L & U & X & _)]];
      rewrite L, U, X.
    - repeat split; try assumption; lra.
    - repeat split; try assumption; lra.
    - destruct (neqb vl n0); repeat split; try assumption; lra.
  Qed.

  Lemma bis_loop_float_inv fuel s r :
    bis_inv0 lo hi s -> bis_loop f tol cap fuel s = Ok r -> bis_inv lo hi r.
  Proof.
    intros Hs Hl.
    destruct (bis_loop_last f tol cap (bis_inv0 lo hi)) with (fuel := fuel) (s := s) (r := r)
      as (s0 & Hs0 & Hb); [|exact Hs|exact Hl|].
    - intros t t' Ht Hb. apply bis_inv0_next. exact (proj1 (bis_body_float_inv t t' false Ht Hb)).
    - exact (bis_body_float_inv s0 r true Hs0 Hb).
  Qed.
End Loop.

(* pinned form: from the start state of the caller's bounds, any fuel *)
Theorem bis_float_bracket_inv : forall (f : PrimFloat.float -> res PrimFloat.float) lo init hi tol cap fuel r,
  is_finite (Prim2B lo) = true -> is_finite (Prim2B hi) = true ->
  Rabs (B2R (Prim2B lo)) < bpow radix2 1023 -> Rabs (B2R (Prim2B hi)) < bpow radix2 1023 ->
  B2R (Prim2B lo) <= B2R (Prim2B hi) ->
  @bis_loop PrimFloat.float FNum f tol cap fuel (bis_start {| b_lower := lo; b_init := init; b_upper := hi |}) = Ok r ->
  is_finite (Prim2B (bs_lower r)) = true /\ is_finite (Prim2B (bs_upper r)) = true /\
  is_finite (Prim2B (bs_x r)) = true /\
  B2R (Prim2B lo) <= B2R (Prim2B (bs_lower r)) /\
  B2R (Prim2B (bs_lower r)) <= B2R (Prim2B (bs_x r)) <= B2R (Prim2B (bs_upper r)) /\
  B2R (Prim2B (bs_upper r)) <= B2R (Prim2B hi).
Proof.
  intros f lo init hi tol cap fuel r Flo Fhi Mlo Mhi Hle Hl.
  destruct (bis_loop_float_inv f tol cap lo hi Mlo Mhi fuel
              (bis_start {| b_lower := lo; b_init := init; b_upper := hi |}) r) as ((F1 & F2 & A & B & C) & F3 & D & E);
    [|exact Hl|].
  - unfold bis_inv0, bis_start. cbn [bs_lower bs_upper b_lower b_upper]. unfold FR.
    repeat split; try assumption; lra.
  - unfold ffin, FR in *. repeat split; assumption.
Qed.

(* ---- (3) soundness of the executed solver --------------------------------------------------- *)
Theorem bisection_float_sound : forall (f : PrimFloat.float -> res PrimFloat.float) lo init hi tol cap x,
  is_finite (Prim2B lo) = true -> is_finite (Prim2B hi) = true ->
  Rabs (B2R (Prim2B lo)) < bpow radix2 1023 -> Rabs (B2R (Prim2B hi)) < bpow radix2 1023 ->
  @bisection PrimFloat.float FNum f {| b_lower := lo; b_init := init; b_upper := hi |} tol cap = Ok x ->
  is_finite (Prim2B x) = true /\
  B2R (Prim2B lo) <= B2R (Prim2B x) <= B2R (Prim2B hi) /\
  exists v, f x = Ok v /\
            PrimFloat.ltb (PrimFloat.abs v) (@gate PrimFloat.float FNum) = true /\
            is_finite (Prim2B v) = true /\
            Rabs (B2R (Prim2B v)) < B2R (Prim2B (@gate PrimFloat.float FNum)).
Proof.
  intros f lo init hi tol cap x Flo Fhi Mlo Mhi. unfold bisection.
  destruct (init_out _) eqn:Ei; [discriminate|].
  assert (Hle : B2R (Prim2B lo) <= B2R (Prim2B hi)).
  { destruct (init_in_float lo init hi Flo Fhi Ei) as [_ [A B]]. unfold FR in A, B. lra. }
  unfold bisect_run.
  destruct (bis_loop f tol cap cap _) as [r|e|w] eqn:El; cbn [bind]; try discriminate.
  destruct (Nat.leb cap (bs_iter r)); [discriminate|].
  destruct (f (bs_x r)) as [v|e|w] eqn:Ev; cbn [bind]; try discriminate.
  destruct (nltb (nabs v) gate) eqn:Eg; [|discriminate].
  intro H. injection H as <-.
  destruct (bis_float_bracket_inv f lo init hi tol cap cap r Flo Fhi Mlo Mhi Hle El)
    as (F1 & F2 & F3 & A & [B C] & D).
  split; [exact F3|]. split; [lra|].
  exists v. split; [exact Ev|]. cbn [nltb nabs FNum] in Eg. split; [exact Eg|].
  exact (abs_ltb_real v _ (proj1 gate_float_value) Eg).
Qed.

(* ---- (4) rejections on the float instance ------------------------------------------------------ *)
Theorem bisection_float_reversed_rejected : forall (f : PrimFloat.float -> res PrimFloat.float) lo init hi tol cap,
  is_finite (Prim2B lo) = true -> is_finite (Prim2B hi) = true ->
  B2R (Prim2B hi) < B2R (Prim2B lo) ->
  @bisection PrimFloat.float FNum f {| b_lower := lo; b_init := init; b_upper := hi |} tol cap = Err EXInitOutOfBounds.
Proof.
  intros f lo init hi tol cap Flo Fhi Hlt. unfold bisection.
  destruct (init_out _) eqn:Ei; [reflexivity|exfalso].
  destruct (init_in_float lo init hi Flo Fhi Ei) as [_ [A B]]. unfold FR in A, B. lra.
Qed.

Theorem bisection_float_nan_init_rejected : forall (f : PrimFloat.float -> res PrimFloat.float) lo init hi tol cap,
  is_nan (Prim2B init) = true ->
  @bisection PrimFloat.float FNum f {| b_lower := lo; b_init := init; b_upper := hi |} tol cap = Err EXInitOutOfBounds.
Proof.
  intros f lo init hi tol cap Hn. unfold bisection, init_out. cbn [b_lower b_init b_upper].
  rewrite nneb_self_float, Hn. reflexivity.
Qed.

(* regression of the NaN hole (repaired by 5439521): lo = 5, hi = 1, init = NaN, target constantly 0
   used to return Ok 5 *)
Lemma nan_init_reversed_bracket_rejected :
  @bisection PrimFloat.float FNum (fun _ => Ok 0%float)
     {| b_lower := 0x1.4p+2%float; b_init := PrimFloat.nan; b_upper := 0x1p+0%float |} 0x1p-20%float 100
  = Err EXInitOutOfBounds.
Proof. vm_compute. reflexivity. Qed.

(* ---- non-vacuity: x*x - 2 on [0, 2] from 1, tol 1e-6 %, cap 100 -------------------------------- *)
Definition ex_f (x : pfloat) : res pfloat := Ok (PrimFloat.sub (PrimFloat.mul x x) 0x1p+1%float).
Definition ex_tol : pfloat := 0x1.0c6f7a0b5ed8dp-20%float.
Definition ex_root : pfloat :=
  match @bisection pfloat FNum ex_f {| b_lower := 0%float; b_init := 0x1p+0%float; b_upper := 0x1p+1%float |} ex_tol 100 with
  | Ok x => x | _ => PrimFloat.nan end.

Lemma FR_small_finite (x : pfloat) s m e :
  Prim2SF x = S754_finite s m e -> (Z.pos m < 2 ^ 53)%Z -> (e <= 0)%Z ->
  ffin x /\ Rabs (FR x) < bpow radix2 1023.
Proof.
  intros E Hm He. split.
  - unfold ffin. rewrite <- B2SF_Prim2B in E. destruct (Prim2B x); try discriminate E. reflexivity.
  - rewrite FR_SF2R, E. unfold SF2R. rewrite <- F2R_Zabs, abs_cond_Zopp.
    unfold F2R. cbn [Fnum Fexp].
    apply Rlt_le_trans with (bpow radix2 53 * bpow radix2 e).
    + apply Rmult_lt_compat_r; [apply bpow_gt_0|].
      rewrite <- (IZR_Zpower radix2 53) by lia. apply IZR_lt. exact Hm.
    + rewrite <- bpow_plus. apply bpow_le. lia.
Qed.

Lemma bisection_float_example :
  @bisection PrimFloat.float FNum ex_f
     {| b_lower := 0%float; b_init := 0x1p+0%float; b_upper := 0x1p+1%float |} ex_tol 100 = Ok ex_root /\
  PrimFloat.ltb 0x1.6a09e6p+0%float ex_root = true /\ PrimFloat.ltb ex_root 0x1.6a09e8p+0%float = true /\
  is_finite (Prim2B 0%float) = true /\ is_finite (Prim2B 0x1p+1%float) = true /\
  Rabs (B2R (Prim2B 0%float)) < bpow radix2 1023 /\ Rabs (B2R (Prim2B 0x1p+1%float)) < bpow radix2 1023.
Proof.
  split; [vm_compute; reflexivity|]. split; [vm_compute; reflexivity|]. split; [vm_compute; reflexivity|].
  assert (Z0 : ffin 0%float /\ Rabs (FR 0%float) < bpow radix2 1023).
  { split; [unfold ffin; rewrite <- is_finite_equiv; vm_compute; reflexivity|].
    rewrite FR_SF2R. replace (Prim2SF 0%float) with (S754_zero false) by (vm_compute; reflexivity).
    cbn [SF2R]. rewrite Rabs_R0. apply bpow_gt_0. }
  assert (Z2 : ffin 0x1p+1%float /\ Rabs (FR 0x1p+1%float) < bpow radix2 1023).
  { apply (FR_small_finite _ false 4503599627370496 (-51)); [vm_compute; reflexivity|lia|lia]. }
  unfold ffin, FR in Z0, Z2. destruct Z0 as [A0 B0], Z2 as [A2 B2].
  repeat (split; [assumption|]). assumption.
Qed.
