(* Proofs/Macro.v — C20: the compile-time macros equal the runtime parsers.

   rustc's tokenizer/printer and `{:?}` on f64 are not modelled: they are Section
   variables with the two measured hypotheses
     R1  strip_ws (tokenize_print s) = strip_ws s        (re-spacing only, any Unicode whitespace)
     R2  reread x = Some x for every finite x, and reread never changes a value
   (tools/props/c20.py measures both with the compiler in the loop). *)
From Coq Require Import ZArith NArith List Bool Lia Floats Ascii String.
From SV Require Import Base.Num Base.Outcome Base.Str Model.Poly Model.Parse Model.Macro.
Import ListNotations.

(* ---- whitespace ------------------------------------------------------------ *)
Lemma c_at_not_ws : is_whitespace c_at = false.
Proof. reflexivity. Qed.

(* a non-whitespace character occurs in s iff it occurs in strip_ws s *)
Lemma contains_char_strip_ws (c : N) (s : str) :
  is_whitespace c = false -> contains_char c (strip_ws s) = contains_char c s.
Proof.
  intro Hc. unfold contains_char, strip_ws.
  induction s as [|a s IH]; [reflexivity|].
  cbn [filter existsb].
  destruct (is_whitespace a) eqn:Ea; cbn [negb existsb].
  - rewrite IH. destruct (N.eqb c a) eqn:E; [|reflexivity].
    apply N.eqb_eq in E. subst a. congruence.
  - rewrite IH. reflexivity.
Qed.

Lemma strip_ws_idem (s : str) : strip_ws (strip_ws s) = strip_ws s.
Proof.
  unfold strip_ws. induction s as [|a s IH]; [reflexivity|].
  cbn [filter]. destruct (negb (is_whitespace a)) eqn:E; [|exact IH].
  cbn [filter]. rewrite E, IH. reflexivity.
Qed.

Lemma strip_ws_app (a b : str) : strip_ws (a ++ b) = strip_ws a ++ strip_ws b.
Proof. apply filter_app. Qed.

(* ---- the parsers see their input only through strip_ws ---------------------- *)
Lemma c20_ws_invariant_simple :
  forall (T : Type) (NT : Num T) (U : UClass) (s s' : str),
    strip_ws s = strip_ws s' -> @parse_simple T NT U s = @parse_simple T NT U s'.
Proof.
  intros T NT U s s' H. unfold parse_simple. rewrite H. reflexivity.
Qed.

(* parse_inter looks for '@' BEFORE stripping: '@' is not whitespace, so that test
   commutes with every change of whitespace *)
Lemma c20_ws_invariant_inter :
  forall (T : Type) (NT : Num T) (U : UClass) (s s' : str),
    strip_ws s = strip_ws s' -> @parse_inter T NT U s = @parse_inter T NT U s'.
Proof.
  intros T NT U s s' H. unfold parse_inter.
  rewrite <- (contains_char_strip_ws c_at s c_at_not_ws).
  rewrite <- (contains_char_strip_ws c_at s' c_at_not_ws).
  rewrite H. reflexivity.
Qed.

(* the parsers equal themselves on the stripped text (the form used by the harness) *)
Lemma parse_simple_strip {T} {NT : Num T} U s : parse_simple U (strip_ws s) = @parse_simple T NT U s.
Proof. apply c20_ws_invariant_simple. apply strip_ws_idem. Qed.
Lemma parse_inter_strip {T} {NT : Num T} U s : parse_inter U (strip_ws s) = @parse_inter T NT U s.
Proof. apply c20_ws_invariant_inter. apply strip_ws_idem. Qed.

(* ---- the macros --------------------------------------------------------------- *)
Section MacroEq.
  Context {T : Type} {NT : Num T}.
  Variable U : UClass.
  Variable tokenize_print : str -> str.
  Hypothesis R1 : forall s, strip_ws (tokenize_print s) = strip_ws s.

  Lemma macro_sees_simple s : parse_simple U (tokenize_print s) = @parse_simple T NT U s.
  Proof. apply c20_ws_invariant_simple. apply R1. Qed.
  Lemma macro_sees_inter s : parse_inter U (tokenize_print s) = @parse_inter T NT U s.
  Proof. apply c20_ws_invariant_inter. apply R1. Qed.

  Lemma macro_eq_runtime :
    (forall s, parse_simple U (tokenize_print s) = @parse_simple T NT U s) /\
    (forall s, parse_inter U (tokenize_print s) = @parse_inter T NT U s).
  Proof. split; [exact macro_sees_simple | exact macro_sees_inter]. Qed.

  Lemma macro_error :
    (forall s e, @parse_simple T NT U s = Err e -> parse_simple U (tokenize_print s) = Err e) /\
    (forall s e, @parse_inter T NT U s = Err e -> parse_inter U (tokenize_print s) = Err e).
  Proof.
    split; intros s e H.
    - rewrite macro_sees_simple. exact H.
    - rewrite macro_sees_inter. exact H.
  Qed.

  (* -- emission -- *)
  Variable reread : T -> option T.
  Variable finite : T -> Prop.
  Hypothesis R2 : forall x, finite x -> reread x = Some x.
  Hypothesis R2s : forall x y, reread x = Some y -> y = x.

  Lemma reread_list_fin l : Forall finite l -> reread_list reread l = Some l.
  Proof.
    induction 1 as [|x l Hx Hl IH]; [reflexivity|].
    cbn [reread_list]. rewrite (R2 x Hx), IH. reflexivity.
  Qed.
  Lemma reread_list_sound l l' : reread_list reread l = Some l' -> l' = l.
  Proof.
    revert l'. induction l as [|x l IH]; intros l' H; cbn [reread_list] in H.
    - congruence.
    - destruct (reread x) as [y|] eqn:Ex; [|discriminate].
      destruct (reread_list reread l) as [ys|]; [|discriminate].
      injection H as <-. rewrite (R2s x y Ex), (IH ys eq_refl). reflexivity.
  Qed.

  Lemma reread_vars_fin (l : list (name * T)) :
    Forall finite (map snd l) -> reread_vars reread l = Some l.
  Proof.
    induction l as [|[v p] l IH]; intro H; [reflexivity|].
    cbn [map snd] in H. inversion H as [|? ? Hp Hl]; subst.
    cbn [reread_vars]. rewrite (R2 p Hp), (IH Hl). reflexivity.
  Qed.
  Lemma reread_vars_sound (l l' : list (name * T)) : reread_vars reread l = Some l' -> l' = l.
  Proof.
    revert l'. induction l as [|[v p] l IH]; intros l' H; cbn [reread_vars] in H.
    - congruence.
    - destruct (reread p) as [q|] eqn:Ep; [|discriminate].
      destruct (reread_vars reread l) as [qs|]; [|discriminate].
      injection H as <-. rewrite (R2s p q Ep), (IH qs eq_refl). reflexivity.
  Qed.

  Lemma emit_term_fin (t : term T) : Forall finite (floats_term t) -> emit_term reread t = Some t.
  Proof.
    intro H. unfold floats_term in H. inversion H as [|? ? Hc Hv]; subst.
    unfold emit_term. rewrite (R2 _ Hc), (reread_vars_fin _ Hv). destruct t; reflexivity.
  Qed.
  Lemma emit_term_sound (t t' : term T) : emit_term reread t = Some t' -> t' = t.
  Proof.
    unfold emit_term. intro H.
    destruct (reread (t_coef t)) as [c|] eqn:Ec; [|discriminate].
    destruct (reread_vars reread (t_vars t)) as [vs|] eqn:Ev; [|discriminate].
    injection H as <-. rewrite (R2s _ _ Ec), (reread_vars_sound _ _ Ev). destruct t; reflexivity.
  Qed.

  Lemma emit_terms_fin (l : list (term T)) :
    Forall finite (flat_map floats_term l) -> emit_terms reread l = Some l.
  Proof.
    induction l as [|t l IH]; intro H; [reflexivity|].
    cbn [flat_map] in H. apply Forall_app in H. destruct H as [Ht Hl].
    cbn [emit_terms]. rewrite (emit_term_fin t Ht), (IH Hl). reflexivity.
  Qed.
  Lemma emit_terms_sound (l l' : list (term T)) : emit_terms reread l = Some l' -> l' = l.
  Proof.
    revert l'. induction l as [|t l IH]; intros l' H; cbn [emit_terms] in H.
    - congruence.
    - destruct (emit_term reread t) as [u|] eqn:Et; [|discriminate].
      destruct (emit_terms reread l) as [us|]; [|discriminate].
      injection H as <-. rewrite (emit_term_sound _ _ Et), (IH us eq_refl). reflexivity.
  Qed.

  (* value half: a text the runtime parser accepts, all of whose numbers are finite,
     expands to exactly the runtime value *)
  Lemma expansion_value :
    (forall s p, parse_simple U s = Ok p -> Forall finite (floats_simple p) ->
                 macro_simple U tokenize_print reread s = XValue p) /\
    (forall s p, parse_inter U s = Ok p -> Forall finite (floats_inter p) ->
                 macro_inter U tokenize_print reread s = XValue p).
  Proof.
    split; intros s p Hp Hf.
    - unfold macro_simple. rewrite macro_sees_simple, Hp. unfold emit_simple.
      unfold floats_simple in Hf.
      rewrite (reread_list_fin _ Hf). destruct p; reflexivity.
    - unfold macro_inter. rewrite macro_sees_inter, Hp. unfold emit_inter.
      unfold floats_inter in Hf.
      rewrite (emit_terms_fin _ Hf). destruct p; reflexivity.
  Qed.

  (* error half: a text the runtime parser rejects expands to compile_error! of the same error *)
  Lemma expansion_error :
    (forall s e, @parse_simple T NT U s = Err e ->
                 macro_simple U tokenize_print reread s = XCompileError e) /\
    (forall s e, @parse_inter T NT U s = Err e ->
                 macro_inter U tokenize_print reread s = XCompileError e).
  Proof.
    split; intros s e H.
    - unfold macro_simple. rewrite macro_sees_simple, H. reflexivity.
    - unfold macro_inter. rewrite macro_sees_inter, H. reflexivity.
  Qed.

  (* never a silently different polynomial: an expansion that is a value is the runtime value *)
  Lemma expansion_sound :
    (forall s v, macro_simple U tokenize_print reread s = XValue v -> parse_simple U s = Ok v) /\
    (forall s v, macro_inter U tokenize_print reread s = XValue v -> parse_inter U s = Ok v).
  Proof.
    split; intros s v H.
    - unfold macro_simple in H. rewrite macro_sees_simple in H.
      destruct (parse_simple U s) as [p|e|w]; try discriminate.
      unfold emit_simple in H.
      destruct (reread_list reread (s_coefs p)) as [cs|] eqn:E; [|discriminate].
      injection H as <-. rewrite (reread_list_sound _ _ E). destruct p; reflexivity.
    - unfold macro_inter in H. rewrite macro_sees_inter in H.
      destruct (parse_inter U s) as [p|e|w]; try discriminate.
      unfold emit_inter in H.
      destruct (emit_terms reread (i_terms p)) as [ts|] eqn:E; [|discriminate].
      injection H as <-. rewrite (emit_terms_sound _ _ E). destruct p; reflexivity.
  Qed.
End MacroEq.

(* ---- an accepted polynomial has only finite numbers (repair 59b028d) ------------ *)
(* Every number the parsers let through passed [is_finite], except the constants they put in
   themselves: the 0.0 that fills the dense vector and the implicit coefficients / exponents
   1 and -1.  [Num] has no laws, so their finiteness is a hypothesis on the instance (it holds
   by computation for float, R and Z). *)
Section Finite.
  Context {T : Type} {NT : Num T}.
  Definition fin (x : T) : Prop := is_finite x = true.
  Definition fin_consts : Prop := fin n0 /\ fin n1 /\ fin (nneg n1).
  Hypothesis FC : fin_consts.

  Lemma parse_dec_finite_fin s v : parse_dec_finite s = Some v -> fin v.
  Proof.
    unfold parse_dec_finite. destruct (parse_dec s) as [x|]; [|discriminate].
    destruct (is_finite x) eqn:E; [|discriminate]. intros [= <-]. exact E.
  Qed.

  Lemma parse_fraction_fin s v : parse_fraction s = Some v -> fin v.
  Proof.
    unfold parse_fraction.
    destruct (split_on c_slash s) as [|a [|b [|c l]]]; try discriminate.
    destruct (parse_dec a) as [x|]; destruct (parse_dec b) as [y|]; try discriminate.
    destruct (nneb y n0 && is_finite y && is_finite (ndiv x y)) eqn:E; [|discriminate].
    intros [= <-]. apply andb_prop in E. exact (proj2 E).
  Qed.

  Lemma inter_coeff_fin cs c : inter_coeff cs = Ok c -> fin c.
  Proof.
    destruct FC as [_ [F1 Fm]]. unfold inter_coeff. destruct cs as [|c0 cs'].
    - intros [= <-]. exact F1.
    - destruct (str_eqb (c0 :: cs') [c_minus]); [intros [= <-]; exact Fm|].
      destruct (contains_char c_slash (c0 :: cs')).
      + destruct (parse_fraction (c0 :: cs')) eqn:E; [|discriminate].
        intros [= <-]. exact (parse_fraction_fin _ _ E).
      + destruct (parse_dec_finite (c0 :: cs')) eqn:E; [|discriminate].
        intros [= <-]. exact (parse_dec_finite_fin _ _ E).
  Qed.

  Lemma inter_term_fin U part t : inter_term U part = Ok t -> Forall fin (floats_term t).
  Proof.
    unfold inter_term. destruct (scan_coeff U true part) as [cs rest].
    destruct (inter_coeff cs) as [c|e|w] eqn:Ec; try discriminate.
    destruct (scan_vars (List.length rest) rest []) as [vs|e|w]; try discriminate.
    destruct (forallb (fun vp : name * T => is_finite (snd vp)) (merge_vars (sort_vars vs) [])) eqn:Ef;
      [|discriminate].
    intros [= <-]. unfold floats_term. cbn [t_coef t_vars]. constructor.
    - exact (inter_coeff_fin _ _ Ec).
    - rewrite forallb_forall in Ef. apply Forall_forall. intros x Hx.
      apply in_map_iff in Hx. destruct Hx as [vp [<- Hin]]. exact (Ef _ Hin).
  Qed.

  Lemma mapM_ok_forall {A B} (f : A -> res B) (P : B -> Prop) :
    (forall x y, f x = Ok y -> P y) -> forall l ys, mapM f l = Ok ys -> Forall P ys.
  Proof.
    intros Hf. induction l as [|a l IH]; intros ys H; cbn [mapM] in H.
    - injection H as <-. constructor.
    - destruct (f a) as [y|e|w] eqn:Ea; cbn [bind] in H; try discriminate.
      destruct (mapM f l) as [ys'|e|w]; cbn [bind] in H; try discriminate.
      injection H as <-. constructor; [exact (Hf _ _ Ea) | exact (IH _ eq_refl)].
  Qed.

  Lemma Forall_flat_map_intro {A} (f : A -> list T) (P : T -> Prop) l :
    Forall (fun a => Forall P (f a)) l -> Forall P (flat_map f l).
  Proof.
    induction 1 as [|a l Ha Hl IH]; cbn [flat_map]; [constructor|].
    apply Forall_app. split; assumption.
  Qed.

  Lemma parse_inter_finite U s p : parse_inter U s = Ok p -> Forall fin (floats_inter p).
  Proof.
    unfold parse_inter. destruct (contains_char c_at s); [discriminate|].
    destruct (existsb bad_part _); [discriminate|].
    destruct (mapM (inter_term U) _) as [ts|e|w] eqn:E; try discriminate.
    intros [= <-]. unfold floats_inter. cbn [i_terms].
    apply Forall_flat_map_intro.
    exact (mapM_ok_forall (inter_term U) _ (inter_term_fin U) _ _ E).
  Qed.

  (* the dense vector: every entry is 0.0 or a partial sum that passed the test *)
  Definition sf_step (st : list T * bool) (t : T * nat) : list T * bool :=
    let cs' := add_at (fst st) (snd t) (fst t) in
    (cs', snd st && is_finite (nth (snd t) cs' n0)).

  Lemma add_at_fin cs : forall p c,
    Forall fin cs -> fin (nth p (add_at cs p c) n0) -> Forall fin (add_at cs p c).
  Proof.
    induction cs as [|x cs IH]; intros p c Hcs Hn; [constructor|].
    inversion Hcs as [|? ? Hx Hcs']; subst. destruct p as [|p]; cbn [add_at nth] in *.
    - constructor; assumption.
    - constructor; [assumption|]. apply IH; assumption.
  Qed.

  Lemma sf_fold terms : forall cs0 b0,
    fst (fold_left sf_step terms (cs0, b0)) = fold_left (fun cs t => add_at cs (snd t) (fst t)) terms cs0 /\
    (snd (fold_left sf_step terms (cs0, b0)) = true ->
       b0 = true /\ (Forall fin cs0 -> Forall fin (fst (fold_left sf_step terms (cs0, b0))))).
  Proof.
    induction terms as [|t terms IH]; intros cs0 b0; cbn [fold_left].
    - cbn [fst snd]. split; [reflexivity|]. intro H. split; [exact H|auto].
    - unfold sf_step at 2 4 6. cbn [fst snd].
      destruct (IH (add_at cs0 (snd t) (fst t)) (b0 && is_finite (nth (snd t) (add_at cs0 (snd t) (fst t)) n0)))
        as [H1 H2].
      split; [exact H1|]. intro H. destruct (H2 H) as [Hb Hf].
      apply andb_prop in Hb. destruct Hb as [Hb0 Hn]. split; [exact Hb0|].
      intro Hcs. apply Hf. apply add_at_fin; assumption.
  Qed.

  Lemma repeat_fin k : Forall fin (repeat n0 k).
  Proof. destruct FC as [F0 _]. induction k; cbn [repeat]; constructor; assumption. Qed.

  Lemma dense_checked_fin terms cs : dense_coeffs_checked terms = Ok cs -> Forall fin cs.
  Proof.
    unfold dense_coeffs_checked.
    destruct (2 ^ 64 <=? Z.of_nat (max_power_of terms) + 1)%Z; [discriminate|].
    destruct (2 ^ 63 - 1 <? (Z.of_nat (max_power_of terms) + 1) * 8)%Z; [discriminate|].
    destruct (sums_finite terms) eqn:Es; [|discriminate]. intros [= <-].
    change (sums_finite terms) with
      (snd (fold_left sf_step terms (repeat n0 (S (max_power_of terms)), true))) in Es.
    destruct (sf_fold terms (repeat n0 (S (max_power_of terms))) true) as [H1 H2].
    destruct (H2 Es) as [_ Hf]. unfold dense_coeffs. rewrite <- H1. apply Hf. apply repeat_fin.
  Qed.

  Lemma parse_simple_finite U s p : parse_simple U s = Ok p -> Forall fin (floats_simple p).
  Proof.
    unfold parse_simple. destruct (existsb bad_part _); [discriminate|].
    destruct (mapM _ _) as [terms|e|w]; try discriminate.
    destruct (dense_coeffs_checked terms) as [cs|e|w] eqn:Ed; try discriminate.
    intros [= <-]. unfold floats_simple. cbn [s_coefs]. exact (dense_checked_fin _ _ Ed).
  Qed.

  (* the value half without a finiteness side condition *)
  Lemma expansion_value_total U (tokenize_print : str -> str) (reread : T -> option T) :
    (forall s, strip_ws (tokenize_print s) = strip_ws s) ->
    (forall x, is_finite x = true -> reread x = Some x) ->
    (forall s p, parse_simple U s = Ok p -> macro_simple U tokenize_print reread s = XValue p) /\
    (forall s p, parse_inter U s = Ok p -> macro_inter U tokenize_print reread s = XValue p).
  Proof.
    intros R1 R2. destruct (expansion_value U tokenize_print R1 reread fin R2) as [Hs Hi].
    split; intros s p Hp.
    - apply Hs; [exact Hp | exact (parse_simple_finite U s p Hp)].
    - apply Hi; [exact Hp | exact (parse_inter_finite U s p Hp)].
  Qed.
End Finite.

Lemma fin_consts_float : @fin_consts float FNum.
Proof. repeat split; vm_compute; reflexivity. Qed.

(* ---- non-vacuity: a printer that breaks the line after every character -------- *)
Definition of_string (s : string) : str := map N_of_ascii (list_ascii_of_string s).

Definition respace_lines (s : str) : str := flat_map (fun c => [c; 10%N]) s.

Lemma respace_lines_R1 : forall s, strip_ws (respace_lines s) = strip_ws s.
Proof.
  induction s as [|c s IH]; [reflexivity|].
  change (respace_lines (c :: s)) with ([c; 10%N] ++ respace_lines s).
  rewrite strip_ws_app, IH. unfold strip_ws at 1. cbn [filter].
  change (is_whitespace 10) with true. cbn [negb].
  unfold strip_ws. cbn [filter]. destruct (negb (is_whitespace c)); reflexivity.
Qed.

Lemma respace_lines_changes : respace_lines (of_string "2x+1") <> of_string "2x+1".
Proof. vm_compute. discriminate. Qed.

(* [float_reread] (Model/Macro.v) satisfies R2 and R2s *)
Lemma float_reread_R2 : forall x, float_finite x -> float_reread x = Some x.
Proof. intros x H. unfold float_reread. rewrite H. reflexivity. Qed.
Lemma float_reread_R2s : forall x y, float_reread x = Some y -> y = x.
Proof. intros x y. unfold float_reread. destruct (is_finite x); congruence. Qed.

(* concrete runs of the float instance under the line-breaking printer *)
Lemma example_simple :
  macro_simple uclass_tab respace_lines float_reread (of_string "2.5x^2 - x + 0.1")
  = XValue {| s_coefs := [0x1.999999999999ap-4; -0x1p+0; 0x1.4p+1]%float; s_var := Some 120%N |}
  /\ @parse_simple float FNum uclass_tab (of_string "2.5x^2 - x + 0.1")
  = Ok {| s_coefs := [0x1.999999999999ap-4; -0x1p+0; 0x1.4p+1]%float; s_var := Some 120%N |}.
Proof. split; vm_compute; reflexivity. Qed.

Lemma example_inter :
  exists p, @parse_inter float FNum uclass_tab (of_string "1/3x^-2y^1/2 - 7") = Ok p
         /\ macro_inter uclass_tab respace_lines float_reread (of_string "1/3x^-2y^1/2 - 7") = XValue p
         /\ List.length (i_terms p) = 2%nat /\ i_vars p = [[120%N]; [121%N]].
Proof. eexists. split; [vm_compute; reflexivity|]. repeat split; vm_compute; reflexivity. Qed.

Lemma example_error :
  @parse_simple float FNum uclass_tab (of_string "2x ++ 1") = Err EPolynomialSyntaxError
  /\ macro_simple uclass_tab respace_lines float_reread (of_string "2x ++ 1") = XCompileError EPolynomialSyntaxError
  /\ @parse_inter float FNum uclass_tab (of_string "x^1/0") = Err EInvalidFractionalExponent
  /\ macro_inter uclass_tab respace_lines float_reread (of_string "x^1/0") = XCompileError EInvalidFractionalExponent.
Proof. repeat split; vm_compute; reflexivity. Qed.

(* ---- the former gap F20a, closed by repair 59b028d ----------------------------- *)
(* A decimal of 310 digits overflows to +inf: the runtime parser now rejects it, and the macro
   (same parser, at compile time) expands to compile_error! with the same error. *)
Definition digits310 : str := repeat 57%N 310.
Lemma nonfinite_rejected :
  @parse_simple float FNum uclass_tab (digits310 ++ of_string "x") = Err EInvalidCoefficient
  /\ macro_simple uclass_tab respace_lines float_reread (digits310 ++ of_string "x") = XCompileError EInvalidCoefficient
  /\ @parse_inter float FNum uclass_tab (of_string "x^" ++ digits310) = Err EInvalidExponent
  /\ macro_inter uclass_tab respace_lines float_reread (of_string "x^" ++ digits310) = XCompileError EInvalidExponent
  /\ @parse_simple float FNum uclass_tab (of_string "2" ++ repeat 48%N 308 ++ of_string "x + 2" ++ repeat 48%N 308 ++ of_string "x")
     = Err EInvalidCoefficient.
Proof. repeat split; vm_compute; reflexivity. Qed.

(* the float instance, all hypotheses but R1 discharged *)
Lemma expansion_value_float (tokenize_print : str -> str) :
  (forall s, strip_ws (tokenize_print s) = strip_ws s) ->
  (forall s p, @parse_simple float FNum uclass_tab s = Ok p ->
               macro_simple uclass_tab tokenize_print float_reread s = XValue p) /\
  (forall s p, @parse_inter float FNum uclass_tab s = Ok p ->
               macro_inter uclass_tab tokenize_print float_reread s = XValue p).
Proof.
  intro R1. exact (expansion_value_total fin_consts_float uclass_tab tokenize_print float_reread R1 float_reread_R2).
Qed.
