(* Proofs/Macro.v — C20: the compile-time macros equal the runtime parsers.

   rustc's tokenizer/printer and `{:?}` on f64 are not modelled: they are Section
   variables with the two measured hypotheses
     R1  strip_ws (tokenize_print s) = strip_ws s        (re-spacing only, any Unicode whitespace)
     R2  reread x = Some x for every finite x, and reread never changes a value
   (tools/props/c20.py measures both with the compiler in the loop). *)
From Coq Require Import ZArith NArith List Bool Lia Floats Ascii String.
From SV Require Import Base.Num Base.Outcome Base.Str Model.Poly Model.Parse Model.Macro.
Import ListNotations.

(* ---- whitespace ------------------------------------------------------------ *)
Lemma c_at_not_ws : is_whitespace c_at = false.
Proof. reflexivity. Qed.

(* a non-whitespace character occurs in s iff it occurs in strip_ws s *)
Lemma contains_char_strip_ws (c : N) (s : str) :
  is_whitespace c = false -> contains_char c (strip_ws s) = contains_char c s.
Proof.
  intro Hc. unfold contains_char, strip_ws.
  induction s as [|a s IH]; [reflexivity|].
  cbn [filter existsb].
  destruct (is_whitespace a) eqn:Ea; cbn [negb existsb].
  - rewrite IH. destruct (N.eqb c a) eqn:E; [|reflexivity].
    apply N.eqb_eq in E. subst a. congruence.
  - rewrite IH. reflexivity.
Qed.

Lemma strip_ws_idem (s : str) : strip_ws (strip_ws s) = strip_ws s.
Proof.
  unfold strip_ws. induction s as [|a s IH]; [reflexivity|].
  cbn [filter]. destruct (negb (is_whitespace a)) eqn:E; [|exact IH].
  cbn [filter]. rewrite E, IH. reflexivity.
Qed.

Lemma strip_ws_app (a b : str) : strip_ws (a ++ b) = strip_ws a ++ strip_ws b.
Proof. apply filter_app. Qed.

(* ---- the parsers see their input only through strip_ws ---------------------- *)
Lemma c20_ws_invariant_simple :
  forall (T : Type) (NT : Num T) (U : UClass) (s s' : str),
    strip_ws s = strip_ws s' -> @parse_simple T NT U s = @parse_simple T NT U s'.
Proof.
  intros T NT U s s' H. unfold parse_simple. rewrite H. reflexivity.
Qed.

(* parse_inter looks for '@' BEFORE stripping: '@' is not whitespace, so that test
   commutes with every change of whitespace *)
Lemma c20_ws_invariant_inter :
  forall (T : Type) (NT : Num T) (U : UClass) (s s' : str),
    strip_ws s = strip_ws s' -> @parse_inter T NT U s = @parse_inter T NT U s'.
Proof.
  intros T NT U s s' H. unfold parse_inter.
  rewrite <- (contains_char_strip_ws c_at s c_at_not_ws).
  rewrite <- (contains_char_strip_ws c_at s' c_at_not_ws).
  rewrite H. reflexivity.
Qed.

(* the parsers equal themselves on the stripped text (the form used by the harness) *)
Lemma parse_simple_strip {T} {NT : Num T} U s : parse_simple U (strip_ws s) = @parse_simple T NT U s.
Proof. apply c20_ws_invariant_simple. apply strip_ws_idem. Qed.
Lemma parse_inter_strip {T} {NT : Num T} U s : parse_inter U (strip_ws s) = @parse_inter T NT U s.
Proof. apply c20_ws_invariant_inter. apply strip_ws_idem. Qed.

(* ---- the macros --------------------------------------------------------------- *)
Section MacroEq.
  Context {T : Type} {NT : Num T}.
  Variable U : UClass.
  Variable tokenize_print : str -> str.
  Hypothesis R1 : forall s, strip_ws (tokenize_print s) = strip_ws s.

  Lemma macro_sees_simple s : parse_simple U (tokenize_print s) = @parse_simple T NT U s.
  Proof. apply c20_ws_invariant_simple. apply R1. Qed.
  Lemma macro_sees_inter s : parse_inter U (tokenize_print s) = @parse_inter T NT U s.
  Proof. apply c20_ws_invariant_inter. apply R1. Qed.

  Lemma macro_eq_runtime :
    (forall s, parse_simple U (tokenize_print s) = @parse_simple T NT U s) /\
    (forall s, parse_inter U (tokenize_print s) = @parse_inter T NT U s).
  Proof. split; [exact macro_sees_simple | exact macro_sees_inter]. Qed.

  Lemma macro_error :
    (forall s e, @parse_simple T NT U s = Err e -> parse_simple U (tokenize_print s) = Err e) /\
    (forall s e, @parse_inter T NT U s = Err e -> parse_inter U (tokenize_print s) = Err e).
  Proof.
    split; intros s e H.
    - rewrite macro_sees_simple. exact H.
    - rewrite macro_sees_inter. exact H.
  Qed.

  (* -- emission -- *)
  Variable reread : T -> option T.
  Variable finite : T -> Prop.
  Hypothesis R2 : forall x, finite x -> reread x = Some x.
  Hypothesis R2s : forall x y, reread x = Some y -> y = x.

  Lemma reread_list_fin l : Forall finite l -> reread_list reread l = Some l.
  Proof.
    induction 1 as [|x l Hx Hl IH]; [reflexivity|].
    cbn [reread_list]. rewrite (R2 x Hx), IH. reflexivity.
  Qed.
  Lemma reread_list_sound l l' : reread_list reread l = Some l' -> l' = l.
  Proof.
    revert l'. induction l as [|x l IH]; intros l' H; cbn [reread_list] in H.
    - congruence.
    - destruct (reread x) as [y|] eqn:Ex; [|discriminate].
      destruct (reread_list reread l) as [ys|]; [|discriminate].
      injection H as <-. rewrite (R2s x y Ex), (IH ys eq_refl). reflexivity.
  Qed.

  Lemma reread_vars_fin (l : list (name * T)) :
    Forall finite (map snd l) -> reread_vars reread l = Some l.
  Proof.
    induction l as [|[v p] l IH]; intro H; [reflexivity|].
    cbn [map snd] in H. inversion H as [|? ? Hp Hl]; subst.
    cbn [reread_vars]. rewrite (R2 p Hp), (IH Hl). reflexivity.
  Qed.
  Lemma reread_vars_sound (l l' : list (name * T)) : reread_vars reread l = Some l' -> l' = l.
  Proof.
    revert l'. induction l as [|[v p] l IH]; intros l' H; cbn [reread_vars] in H.
    - congruence.
    - destruct (reread p) as [q|] eqn:Ep; [|discriminate].
      destruct (reread_vars reread l) as [qs|]; [|discriminate].
      injection H as <-. rewrite (R2s p q Ep), (IH qs eq_refl). reflexivity.
  Qed.

  Lemma emit_term_fin (t : term T) : Forall finite (floats_term t) -> emit_term reread t = Some t.
  Proof.
    intro H. unfold floats_term in H. inversion H as [|? ? Hc Hv]; subst.
    unfold emit_term. rewrite (R2 _ Hc), (reread_vars_fin _ Hv). destruct t; reflexivity.
  Qed.
  Lemma emit_term_sound (t t' : term T) : emit_term reread t = Some t' -> t' = t.
  Proof.
    unfold emit_term. intro H.
    destruct (reread (t_coef t)) as [c|] eqn:Ec; [|discriminate].
    destruct (reread_vars reread (t_vars t)) as [vs|] eqn:Ev; [|discriminate].
    injection H as <-. rewrite (R2s _ _ Ec), (reread_vars_sound _ _ Ev). destruct t; reflexivity.
  Qed.

  Lemma emit_terms_fin (l : list (term T)) :
    Forall finite (flat_map floats_term l) -> emit_terms reread l = Some l.
  Proof.
    induction l as [|t l IH]; intro H; [reflexivity|].
    cbn [flat_map] in H. apply Forall_app in H. destruct H as [Ht Hl].
    cbn [emit_terms]. rewrite (emit_term_fin t Ht), (IH Hl). reflexivity.
  Qed.
  Lemma emit_terms_sound (l l' : list (term T)) : emit_terms reread l = Some l' -> l' = l.
  Proof.
    revert l'. induction l as [|t l IH]; intros l' H; cbn [emit_terms] in H.
    - congruence.
    - destruct (emit_term reread t) as [u|] eqn:Et; [|discriminate].
      destruct (emit_terms reread l) as [us|]; [|discriminate].
      injection H as <-. rewrite (emit_term_sound _ _ Et), (IH us eq_refl). reflexivity.
  Qed.

  (* value half: a text the runtime parser accepts, all of whose numbers are finite,
     expands to exactly the runtime value *)
  Lemma expansion_value :
    (forall s p, parse_simple U s = Ok p -> Forall finite (floats_simple p) ->
                 macro_simple U tokenize_print reread s = XValue p) /\
    (forall s p, parse_inter U s = Ok p -> Forall finite (floats_inter p) ->
                 macro_inter U tokenize_print reread s = XValue p).
  Proof.
    split; intros s p Hp Hf.
    - unfold macro_simple. rewrite macro_sees_simple, Hp. unfold emit_simple.
      unfold floats_simple in Hf.
      rewrite (reread_list_fin _ Hf). destruct p; reflexivity.
    - unfold macro_inter. rewrite macro_sees_inter, Hp. unfold emit_inter.
      unfold floats_inter in Hf.
      rewrite (emit_terms_fin _ Hf). destruct p; reflexivity.
  Qed.

  (* error half: a text the runtime parser rejects expands to compile_error! of the same error *)
  Lemma expansion_error :
    (forall s e, @parse_simple T NT U s = Err e ->
                 macro_simple U tokenize_print reread s = XCompileError e) /\
    (forall s e, @parse_inter T NT U s = Err e ->
                 macro_inter U tokenize_print reread s = XCompileError e).
  Proof.
    split; intros s e H.
    - unfold macro_simple. rewrite macro_sees_simple, H. reflexivity.
    - unfold macro_inter. rewrite macro_sees_inter, H. reflexivity.
  Qed.

  (* never a silently different polynomial: an expansion that is a value is the runtime value *)
  Lemma expansion_sound :
    (forall s v, macro_simple U tokenize_print reread s = XValue v -> parse_simple U s = Ok v) /\
    (forall s v, macro_inter U tokenize_print reread s = XValue v -> parse_inter U s = Ok v).
  Proof.
    split; intros s v H.
    - unfold macro_simple in H. rewrite macro_sees_simple in H.
      destruct (parse_simple U s) as [p|e|w]; try discriminate.
      unfold emit_simple in H.
      destruct (reread_list reread (s_coefs p)) as [cs|] eqn:E; [|discriminate].
      injection H as <-. rewrite (reread_list_sound _ _ E). destruct p; reflexivity.
    - unfold macro_inter in H. rewrite macro_sees_inter in H.
      destruct (parse_inter U s) as [p|e|w]; try discriminate.
      unfold emit_inter in H.
      destruct (emit_terms reread (i_terms p)) as [ts|] eqn:E; [|discriminate].
      injection H as <-. rewrite (emit_terms_sound _ _ E). destruct p; reflexivity.
  Qed.
End MacroEq.

(* ---- non-vacuity: a printer that breaks the line after every character -------- *)
Definition of_string (s : string) : str := map N_of_ascii (list_ascii_of_string s).

Definition respace_lines (s : str) : str := flat_map (fun c => [c; 10%N]) s.

Lemma respace_lines_R1 : forall s, strip_ws (respace_lines s) = strip_ws s.
Proof.
  induction s as [|c s IH]; [reflexivity|].
  change (respace_lines (c :: s)) with ([c; 10%N] ++ respace_lines s).
  rewrite strip_ws_app, IH. unfold strip_ws at 1. cbn [filter].
  change (is_whitespace 10) with true. cbn [negb].
  unfold strip_ws. cbn [filter]. destruct (negb (is_whitespace c)); reflexivity.
Qed.

Lemma respace_lines_changes : respace_lines (of_string "2x+1") <> of_string "2x+1".
Proof. vm_compute. discriminate. Qed.

(* [float_reread] (Model/Macro.v) satisfies R2 and R2s *)
Lemma float_reread_R2 : forall x, float_finite x -> float_reread x = Some x.
Proof. intros x H. unfold float_reread. rewrite H. reflexivity. Qed.
Lemma float_reread_R2s : forall x y, float_reread x = Some y -> y = x.
Proof. intros x y. unfold float_reread. destruct (PrimFloat.is_finite x); congruence. Qed.

(* concrete runs of the float instance under the line-breaking printer *)
Lemma example_simple :
  macro_simple uclass_tab respace_lines float_reread (of_string "2.5x^2 - x + 0.1")
  = XValue {| s_coefs := [0x1.999999999999ap-4; -0x1p+0; 0x1.4p+1]%float; s_var := Some 120%N |}
  /\ @parse_simple float FNum uclass_tab (of_string "2.5x^2 - x + 0.1")
  = Ok {| s_coefs := [0x1.999999999999ap-4; -0x1p+0; 0x1.4p+1]%float; s_var := Some 120%N |}.
Proof. split; vm_compute; reflexivity. Qed.

Lemma example_inter :
  exists p, @parse_inter float FNum uclass_tab (of_string "1/3x^-2y^1/2 - 7") = Ok p
         /\ macro_inter uclass_tab respace_lines float_reread (of_string "1/3x^-2y^1/2 - 7") = XValue p
         /\ List.length (i_terms p) = 2%nat /\ i_vars p = [[120%N]; [121%N]].
Proof. eexists. split; [vm_compute; reflexivity|]. repeat split; vm_compute; reflexivity. Qed.

Lemma example_error :
  @parse_simple float FNum uclass_tab (of_string "2x ++ 1") = Err EPolynomialSyntaxError
  /\ macro_simple uclass_tab respace_lines float_reread (of_string "2x ++ 1") = XCompileError EPolynomialSyntaxError
  /\ @parse_inter float FNum uclass_tab (of_string "x^1/0") = Err EInvalidFractionalExponent
  /\ macro_inter uclass_tab respace_lines float_reread (of_string "x^1/0") = XCompileError EInvalidFractionalExponent.
Proof. repeat split; vm_compute; reflexivity. Qed.

(* ---- the gap the hypotheses exclude: a non-finite number ---------------------- *)
(* A decimal of 310 digits overflows to +inf at run time (parse returns Ok); the macro
   prints it as `inf`, which is not a literal: the expansion does not resolve (finding
   F-C20-NONFINITE, measured with rustc: error E0425 at the invocation). *)
Definition digits310 : str := repeat 57%N 310.
Lemma nonfinite_gap :
  exists p, @parse_simple float FNum uclass_tab (digits310 ++ of_string "x") = Ok p
         /\ s_coefs p = [0%float; infinity]
         /\ macro_simple uclass_tab respace_lines float_reread (digits310 ++ of_string "x") = XUnresolved.
Proof. eexists. split; [vm_compute; reflexivity|]. repeat split; vm_compute; reflexivity. Qed.
