(* Proofs/Quad.v — instance-independent facts about Model/Quad.v:
   bounds-checked tables, and the no-panic theorems (every instance of Num,
   the float instance in particular).  The exactness theorems for the real
   instance are in Proofs/QuadSimpson.v and Proofs/QuadRomberg.v. *)
From Coq Require Import ZArith NArith List Bool Arith Lia.
From SV Require Import Base.Num Base.Outcome Model.Quad.
Import ListNotations.
Local Open Scope res_scope.

(* ---- lset ------------------------------------------------------------------ *)
Lemma lset_inv {A : Type} (l : list A) : forall i v l',
  lset l i v = Some l' ->
  i < length l /\ length l' = length l /\
  forall k, nth_error l' k = if k =? i then Some v else nth_error l k.
Proof.
  induction l as [|x l IH]; intros i v l' H.
  - destruct i; discriminate H.
  - destruct i as [|i].
    + cbn [lset] in H. injection H as <-. cbn [length]. repeat split; try lia.
      intros [|k]; reflexivity.
    + cbn [lset] in H. destruct (lset l i v) as [l2|] eqn:E; [|discriminate H].
      cbn [option_map] in H. injection H as <-.
      destruct (IH i v l2 E) as (Hi & Hl & Hn). cbn [length]. repeat split; try lia.
      intros [|k]; [reflexivity|]. cbn [nth_error]. rewrite Hn. reflexivity.
Qed.

Lemma lset_some {A : Type} (l : list A) : forall i v, i < length l -> exists l', lset l i v = Some l'.
Proof.
  induction l as [|x l IH]; intros i v H; cbn [length] in H; [lia|].
  destruct i as [|i]; cbn [lset]; [eexists; reflexivity|].
  destruct (IH i v) as [l2 E]; [lia|]. rewrite E. eexists; reflexivity.
Qed.

Lemma lset_Forall {A : Type} (P : A -> Prop) (l : list A) : forall i v l',
  lset l i v = Some l' -> Forall P l -> P v -> Forall P l'.
Proof.
  induction l as [|x l IH]; intros i v l' H HF Hv.
  - destruct i; discriminate H.
  - inversion HF as [|? ? Hx Hl]; subst.
    destruct i as [|i]; cbn [lset] in H.
    + injection H as <-. constructor; assumption.
    + destruct (lset l i v) as [l2|] eqn:E; [|discriminate H].
      cbn [option_map] in H. injection H as <-. constructor; [exact Hx|].
      eapply IH; eassumption.
Qed.

Section Tables.
  Context {T : Type} {NT : Num T}.

  (* a square table of side n *)
  Definition dims (t : @table T) (n : nat) : Prop :=
    length t = n /\ Forall (fun r : list T => length r = n) t.

  Lemma dims_repeat (v : T) n : dims (repeat (repeat v n) n) n.
  Proof.
    split; [apply repeat_length|].
    apply Forall_forall. intros r Hr. apply repeat_spec in Hr. subst r. apply repeat_length.
  Qed.

  Lemma dims_row (t : @table T) n i : dims t n -> i < n -> exists row, nth_error t i = Some row /\ length row = n.
  Proof.
    intros [Hl HF] Hi.
    destruct (nth_error t i) as [row|] eqn:E.
    - exists row. split; [reflexivity|].
      rewrite Forall_forall in HF. apply HF. eapply nth_error_In; exact E.
    - apply nth_error_None in E. lia.
  Qed.

  Lemma tget_ok (t : @table T) n i j : dims t n -> i < n -> j < n -> exists v, tget t i j = Ok v.
  Proof.
    intros Hd Hi Hj. destruct (dims_row t n i Hd Hi) as (row & E & Hr).
    unfold tget. rewrite E.
    destruct (nth_error row j) as [v|] eqn:E2; [eexists; reflexivity|].
    apply nth_error_None in E2. lia.
  Qed.

  Lemma tset_ok (t : @table T) n i j v : dims t n -> i < n -> j < n ->
    exists t', tset t i j v = Ok t' /\ dims t' n.
  Proof.
    intros Hd Hi Hj. destruct (dims_row t n i Hd Hi) as (row & E & Hr).
    unfold tset. rewrite E.
    destruct (lset_some row j v) as [row' E1]; [lia|]. rewrite E1.
    destruct Hd as [Hl HF].
    destruct (lset_some t i row') as [t' E2]; [lia|]. rewrite E2.
    exists t'. split; [reflexivity|].
    destruct (lset_inv _ _ _ _ E1) as (_ & Hl1 & _).
    destruct (lset_inv _ _ _ _ E2) as (_ & Hl2 & _).
    split; [lia|]. eapply lset_Forall; [exact E2|exact HF|]. cbn beta. lia.
  Qed.

  (* reading after writing, whatever the bounds *)
  Lemma tget_tset (t t' : @table T) i j v : tset t i j v = Ok t' ->
    forall i' j', tget t' i' j' = if (i' =? i) && (j' =? j) then Ok v else tget t i' j'.
  Proof.
    unfold tset. intros H i' j'.
    destruct (nth_error t i) as [row|] eqn:E; [|discriminate H].
    destruct (lset row j v) as [row'|] eqn:E1; [|discriminate H].
    destruct (lset t i row') as [t2|] eqn:E2; [|discriminate H].
    injection H as <-.
    destruct (lset_inv _ _ _ _ E1) as (_ & _ & Hn1).
    destruct (lset_inv _ _ _ _ E2) as (_ & _ & Hn2).
    unfold tget. rewrite Hn2.
    destruct (i' =? i) eqn:Ei; cbn [andb].
    - apply Nat.eqb_eq in Ei. subst i'. rewrite Hn1, E.
      destruct (j' =? j); reflexivity.
    - reflexivity.
  Qed.
End Tables.

(* ---- no panic: every instance of Num ---------------------------------------- *)
Section Total.
  Context {T : Type} {NT : Num T}.
  Variable f : T -> res T.
  (* the integrand itself never panics: true of both polynomial types
     ([s_eval_univariate_total], [i_eval_univariate_total] below) *)
  Hypothesis f_total : forall x, no_panic (f x).

  Lemma no_panic_Ok {A} (a : A) : no_panic (Ok a).
  Proof. intros w; discriminate. Qed.
  Lemma no_panic_Err {A} e : no_panic (@Err A e).
  Proof. intros w; discriminate. Qed.

  Lemma loopN_no_panic {S : Type} n (body : S -> res S) s :
    (forall x, no_panic (body x)) -> no_panic (loopN n body s).
  Proof.
    intro H. unfold loopN. apply N.iter_invariant.
    - intros r Hr. apply bind_no_panic; [exact Hr|intros a _; apply H].
    - apply no_panic_Ok.
  Qed.

  Lemma trap_body_no_panic h st : no_panic (trap_body f h st).
  Proof.
    unfold trap_body. destruct st as [xi sum].
    apply bind_no_panic; [apply f_total|intros; apply no_panic_Ok].
  Qed.

  Lemma trapezoid_no_panic a b n : no_panic (trapezoid f a b n).
  Proof.
    unfold trapezoid.
    apply bind_no_panic; [apply f_total|intros s0 _].
    apply bind_no_panic; [apply loopN_no_panic; apply trap_body_no_panic|intros st _].
    apply bind_no_panic; [apply f_total|intros; apply no_panic_Ok].
  Qed.

  Lemma s13_body_no_panic h st : no_panic (s13_body f h st).
  Proof.
    unfold s13_body. destruct st as [xi sum].
    apply bind_no_panic; [apply f_total|intros vm _].
    apply bind_no_panic; [apply f_total|intros; apply no_panic_Ok].
  Qed.

  Lemma simpson13_no_panic h a n : no_panic (simpson13 f h a n).
  Proof.
    unfold simpson13.
    apply bind_no_panic; [apply f_total|intros s0 _].
    apply bind_no_panic; [apply loopN_no_panic; apply s13_body_no_panic|intros [xi sum] _].
    apply bind_no_panic; [apply f_total|intros vm _].
    apply bind_no_panic; [apply f_total|intros; apply no_panic_Ok].
  Qed.

  Lemma simpson38_no_panic h p0 p1 p2 p3 : no_panic (simpson38 f h p0 p1 p2 p3).
  Proof.
    unfold simpson38.
    do 4 (apply bind_no_panic; [apply f_total|intros ? _]).
    apply no_panic_Ok.
  Qed.

  (* definite_integral never panics, for every segment count including 0:
     the subtraction `remaining_segments -= 3` is only reached for odd counts
     other than 1 *)
  Lemma definite_integral_no_panic a b n : no_panic (definite_integral f a b n).
  Proof.
    unfold definite_integral.
    destruct (n =? 1)%N eqn:E1; [apply trapezoid_no_panic|].
    apply bind_no_panic.
    - destruct (N.even n) eqn:Ev; [apply no_panic_Ok|].
      apply bind_no_panic; [apply simpson38_no_panic|intros s _].
      destruct (n <? 3)%N eqn:E3; [|apply no_panic_Ok].
      exfalso. apply N.eqb_neq in E1. apply N.ltb_lt in E3.
      assert (Hn : n = 0%N \/ n = 2%N) by lia.
      destruct Hn; subst n; discriminate Ev.
    - intros [sum rem] _.
      destruct (1 <? rem)%N; [|apply no_panic_Ok].
      apply bind_no_panic; [apply simpson13_no_panic|intros; apply no_panic_Ok].
  Qed.

  Lemma richardson_ok n iter : forall cnt k (tbl : @table T),
    dims tbl n -> 2 <= k -> k + cnt = iter + 2 -> iter + 1 < n ->
    exists tbl', richardson cnt k iter tbl = Ok tbl' /\ dims tbl' n.
  Proof.
    induction cnt as [|cnt IH]; intros k tbl Hd Hk Hc Hn.
    - exists tbl. split; [reflexivity|exact Hd].
    - cbn [richardson].
      destruct (tget_ok tbl n (2 + iter - k + 1) (k - 1) Hd) as [x Ex]; [lia|lia|].
      destruct (tget_ok tbl n (2 + iter - k) (k - 1) Hd) as [y Ey]; [lia|lia|].
      rewrite Ex, Ey. cbn [bind].
      match goal with |- context [tset tbl ?i ?j ?v] =>
        destruct (tset_ok tbl n i j v Hd) as (tbl' & Es & Hd'); [lia|lia|] end.
      rewrite Es. cbn [bind]. apply IH; [exact Hd'|lia|lia|exact Hn].
  Qed.

  Lemma checked_pow2_some iter s : checked_pow2 iter = Some s -> iter < 64.
  Proof.
    unfold checked_pow2. destruct (iter <? 64) eqn:E; [|discriminate].
    intros _. apply Nat.ltb_lt. exact E.
  Qed.

  Lemma romberg_loop_no_panic a b cap tol :
    let c := N.to_nat (N.min (N.max cap 1) 64) in
    forall fuel (tbl : @table T) iter0,
      dims tbl (c + 2) -> iter0 < c -> c <= fuel + iter0 ->
      no_panic (romberg_loop fuel f a b cap tol tbl iter0).
  Proof.
    intro c. induction fuel as [|fuel IH]; intros tbl iter0 Hd Hi Hf; [lia|].
    cbn [romberg_loop].
    destruct (checked_pow2 (S iter0)) as [segs|] eqn:Ep; [|apply no_panic_Err].
    apply checked_pow2_some in Ep.
    apply bind_no_panic; [apply trapezoid_no_panic|intros t _].
    destruct (tset_ok tbl (c + 2) (S iter0 + 1) 1 t Hd) as (tbl1 & E1 & Hd1); [lia|lia|].
    rewrite E1. cbn [bind].
    destruct (richardson_ok (c + 2) (S iter0) (S iter0) 2 tbl1 Hd1) as (tbl2 & E2 & Hd2); [lia|lia|lia|].
    rewrite E2. cbn [bind].
    destruct (tget_ok tbl2 (c + 2) 1 (S iter0 + 1) Hd2) as [x Ex]; [lia|lia|].
    destruct (tget_ok tbl2 (c + 2) 2 (S iter0) Hd2) as [y Ey]; [lia|lia|].
    rewrite Ex, Ey. cbn [bind].
    destruct (cap <=? N.of_nat (S iter0))%N eqn:Ec; cbn [orb].
    - apply no_panic_Err.
    - match goal with |- context [nleb ?u ?v] => destruct (nleb u v) end.
      + apply no_panic_Ok.
      + apply IH; [exact Hd2| |lia].
        apply N.leb_gt in Ec. subst c. lia.
  Qed.

  Lemma romberg_no_panic a b cap tol : no_panic (romberg f a b cap tol).
  Proof.
    unfold romberg, table_size.
    set (c := N.to_nat (N.min (N.max cap 1) 64)).
    assert (Hc : 1 <= c) by (subst c; lia).
    apply bind_no_panic; [apply trapezoid_no_panic|intros t0 _].
    destruct (tset_ok (repeat (repeat n0 (c + 2)) (c + 2)) (c + 2) 1 1 t0 (dims_repeat n0 (c + 2)))
      as (tbl & E & Hd); [lia|lia|].
    rewrite E. cbn [bind].
    apply (romberg_loop_no_panic a b cap tol); [exact Hd|exact Hc|lia].
  Qed.
End Total.

(* ---- the two polynomial types never panic when evaluated ---------------------- *)
From SV Require Import Model.Poly.

Section PolyTotal.
  Context {T : Type} {NT : Num T}.

  Lemma s_eval_univariate_total (p : spoly T) x : no_panic (s_eval_univariate p x).
  Proof. intros w; discriminate. Qed.

  Lemma eval_term_vars_total vs : forall (acc : T) e, no_panic (eval_term_vars acc vs e).
  Proof.
    induction vs as [|[v p] vs IH]; intros acc e; cbn [eval_term_vars].
    - intros w; discriminate.
    - destruct (lookup v e); [apply IH|intros w; discriminate].
  Qed.

  Lemma eval_inter_from_total ts : forall (acc : T) e, no_panic (eval_inter_from acc ts e).
  Proof.
    induction ts as [|t ts IH]; intros acc e; cbn [eval_inter_from].
    - intros w; discriminate.
    - pose proof (eval_term_vars_total (t_vars t) (t_coef t) e) as H.
      destruct (eval_term_vars (t_coef t) (t_vars t) e) as [v|x|w'].
      + apply IH.
      + intros w; discriminate.
      + exfalso. apply (H w'). reflexivity.
  Qed.

  Lemma i_eval_univariate_total (p : ipoly T) x : no_panic (i_eval_univariate p x).
  Proof.
    unfold i_eval_univariate, eval_inter.
    destruct (i_vars p) as [|v [|v2 vs]]; try apply eval_inter_from_total.
    intros w; discriminate.
  Qed.
End PolyTotal.

(* ---- C05: no panic ------------------------------------------------------------ *)
Lemma c05_romberg_total : forall (T : Type) (NT : Num T) (f : T -> res T),
  (forall x, no_panic (f x)) ->
  forall (a b : T) (cap : N) (tol : T), no_panic (romberg f a b cap tol).
Proof. intros T NT f Hf a b cap tol. apply romberg_no_panic. exact Hf. Qed.

Lemma c05_romberg_total_polys : forall (T : Type) (NT : Num T) (a b : T) (cap : N) (tol : T),
  (forall p : spoly T, no_panic (romberg (s_eval_univariate p) a b cap tol)) /\
  (forall p : ipoly T, no_panic (romberg (i_eval_univariate p) a b cap tol)).
Proof.
  intros T NT a b cap tol. split; intro p; apply romberg_no_panic.
  - apply s_eval_univariate_total.
  - apply i_eval_univariate_total.
Qed.

Lemma c05_simpson_total : forall (T : Type) (NT : Num T) (f : T -> res T),
  (forall x, no_panic (f x)) ->
  forall (a b : T) (n : N), no_panic (definite_integral f a b n).
Proof. intros T NT f Hf a b n. apply definite_integral_no_panic. exact Hf. Qed.
