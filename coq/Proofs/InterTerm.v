(* Proofs/InterTerm.v — term-level part of Proofs/InterParse.v: the multivariate parser [parse_inter] of Model/Parse.v against
   the documented language of Model/GrammarI.v, and the evaluator of Model/Poly.v
   against the mathematical value of a polynomial.  (C02; C16 for parse_inter.) *)
From Coq Require Import ZArith NArith List Bool Lia Reals Lra Sorting.Sorted.
From SV Require Import Base.Num Base.Outcome Base.Str Model.Poly Model.Parse Model.GrammarI
  Proofs.StrLemmasI Proofs.InterCanon.
Import ListNotations.

Ltac cclia := unfold c_dot, c_slash, c_minus, c_caret, c_plus, c_at, c_space, c_zero; lia.

(* the only facts about the Unicode classification the acceptance theorem needs *)
Definition uclass_num_ok (U : UClass) : Prop :=
  (forall c, is_ascii_digit c = true -> u_numeric U c = true) /\
  (forall c, is_ascii_letter c = true -> u_numeric U c = false).

Lemma uclass_tab_num_ok : uclass_num_ok uclass_tab.
Proof.
  split; intros c H; unfold uclass_tab; cbn [u_numeric].
  - rewrite H. reflexivity.
  - rewrite (letter_not_digit c H). cbn [orb]. unfold in_tab, tab_numeric. cbn [existsb].
    unfold is_ascii_letter in H.
    repeat match goal with |- context [N.eqb c ?k] =>
      let E := fresh in destruct (N.eqb_spec c k) as [E|E]; [subst c; cbn in H; discriminate|] end.
    reflexivity.
Qed.

(* ============================================================================ *)
(*  1. totality: no input makes the parser panic                                 *)
(* ============================================================================ *)
Section Total.
  Context {T : Type} {NT : Num T}.

  Lemma mapM_no_panic {A B} (f : A -> res B) l : (forall x, no_panic (f x)) -> no_panic (mapM f l).
  Proof.
    intros Hf. induction l as [|x l IH]; cbn [mapM]; [intros w; discriminate|].
    apply bind_no_panic; [apply Hf|]. intros y _.
    apply bind_no_panic; [exact IH|]. intros ys _ w; discriminate.
  Qed.

  Lemma inter_pow_no_panic ps : no_panic (@inter_pow T NT ps).
  Proof.
    unfold inter_pow. intros w.
    destruct (contains_char c_slash ps); [destruct (parse_fraction ps)|destruct (parse_dec_finite ps)];
      discriminate.
  Qed.
  Lemma inter_coeff_no_panic cs : no_panic (@inter_coeff T NT cs).
  Proof.
    unfold inter_coeff. intros w. destruct cs; [discriminate|].
    destruct (str_eqb _ _); [discriminate|].
    destruct (contains_char _ _); [destruct (parse_fraction _)|destruct (parse_dec_finite _)]; discriminate.
  Qed.
  Lemma scan_vars_no_panic fuel : forall s acc, no_panic (@scan_vars T NT fuel s acc).
  Proof.
    induction fuel as [|fuel IH]; intros s acc w; cbn [scan_vars]; [discriminate|].
    destruct s as [|ch s']; [discriminate|].
    destruct (is_ascii_letter ch); [|discriminate].
    destruct s' as [|c2 s'']; [discriminate|].
    destruct (N.eqb c2 c_caret); [|apply IH].
    destruct (scan_pow s'') as [ps rest].
    pose proof (inter_pow_no_panic ps) as Hp.
    destruct (inter_pow ps) as [p|e|w']; [apply IH|discriminate|exfalso; exact (Hp w' eq_refl)].
  Qed.
  Lemma inter_term_no_panic U part : no_panic (@inter_term T NT U part).
  Proof.
    unfold inter_term. intros w. destruct (scan_coeff U true part) as [cs rest].
    pose proof (inter_coeff_no_panic cs) as Hc.
    destruct (inter_coeff cs) as [c|e|w']; [|discriminate|exfalso; exact (Hc w' eq_refl)].
    pose proof (scan_vars_no_panic (length rest) rest [] ) as Hv.
    destruct (scan_vars (length rest) rest []) as [vs|e|w']; [|discriminate|exfalso; exact (Hv w' eq_refl)].
    destruct (forallb _ _); discriminate.
  Qed.

  (* C16, multivariate half: every string, every character classification *)
  Theorem parse_inter_no_panic : forall (U : UClass) (s : str), no_panic (@parse_inter T NT U s).
  Proof.
    intros U s w. unfold parse_inter.
    destruct (contains_char c_at s); [discriminate|].
    destruct (existsb bad_part _); [discriminate|].
    pose proof (mapM_no_panic (@inter_term T NT U)
                  (drop_leading_empty (split_on c_plus (protect_minus false (strip_ws s))))
                  (inter_term_no_panic U)) as Hm.
    destruct (mapM _ _) as [ts|e|w']; [discriminate|discriminate|exfalso; exact (Hm w' eq_refl)].
  Qed.
End Total.

(* ============================================================================ *)
(*  2. evaluation                                                                *)
(* ============================================================================ *)
Section Missing.
  Context {T : Type} {NT : Num T}.

  (* some variable of some term has no binding *)
  Definition unbound_in (e : env T) (ts : list (term T)) : Prop :=
    exists t v p, In t ts /\ In (v, p) (t_vars t) /\ lookup v e = None.
  Definition all_bound (e : env T) (ts : list (term T)) : Prop :=
    forall t v p, In t ts -> In (v, p) (t_vars t) -> lookup v e <> None.

  Lemma eval_term_vars_cases (e : env T) vs : forall acc,
    (exists r, eval_term_vars acc vs e = Ok r /\ forall v p, In (v, p) vs -> lookup v e <> None)
    \/ (eval_term_vars acc vs e = Err EVariableNotFound /\ exists v p, In (v, p) vs /\ lookup v e = None).
  Proof.
    induction vs as [|[v p] vs IH]; intros acc; cbn [eval_term_vars].
    - left. eexists; split; [reflexivity|]. intros v p [].
    - destruct (lookup v e) as [x|] eqn:E.
      + destruct (IH (nmul acc (npowf x p))) as [[r [H1 H2]]|[H1 [v' [p' [H2 H3]]]]].
        * left. exists r. split; [exact H1|]. intros v' p' [H|H]; [|exact (H2 v' p' H)].
          injection H as <- <-. congruence.
        * right. split; [exact H1|]. exists v', p'. split; [right; exact H2|exact H3].
      + right. split; [reflexivity|]. exists v, p. split; [left; reflexivity|exact E].
  Qed.

  Lemma eval_inter_from_missing (e : env T) ts : forall acc, unbound_in e ts ->
    eval_inter_from acc ts e = Err EVariableNotFound.
  Proof.
    induction ts as [|t ts IH]; intros acc (t0 & v & p & Hin & Hv & Hl).
    - destruct Hin.
    - cbn [eval_inter_from].
      destruct (eval_term_vars_cases e (t_vars t) (t_coef t)) as [[r [H1 H2]]|[H1 _]].
      + rewrite H1. apply IH. destruct Hin as [<-|Hin].
        * exfalso. exact (H2 v p Hv Hl).
        * exists t0, v, p. auto.
      + rewrite H1. reflexivity.
  Qed.

  Theorem missing_var : forall (ts : list (term T)) (e : env T),
    unbound_in e ts -> eval_inter ts e = Err EVariableNotFound.
  Proof. intros ts e H. apply eval_inter_from_missing. exact H. Qed.

  Lemma eval_inter_from_ok (e : env T) ts : forall acc, all_bound e ts ->
    exists r, eval_inter_from acc ts e = Ok r.
  Proof.
    induction ts as [|t ts IH]; intros acc Hb; cbn [eval_inter_from]; [eauto|].
    destruct (eval_term_vars_cases e (t_vars t) (t_coef t)) as [[r [H1 H2]]|[H1 [v [p [H2 H3]]]]].
    - rewrite H1. apply IH. intros t' v p Ht. apply Hb. right; exact Ht.
    - exfalso. exact (Hb t v p (or_introl eq_refl) H2 H3).
  Qed.

  Lemma eval_inter_no_panic (ts : list (term T)) e : no_panic (eval_inter ts e).
  Proof.
    unfold eval_inter. generalize (@n0 T NT). induction ts as [|t ts IH]; intros acc w; cbn [eval_inter_from].
    - discriminate.
    - destruct (eval_term_vars_cases e (t_vars t) (t_coef t)) as [[r [H1 _]]|[H1 _]]; rewrite H1.
      + apply IH.
      + discriminate.
  Qed.

  (* a polynomial whose terms only use variables of its variable list *)
  Definition closed_poly (p : ipoly T) : Prop :=
    forall t v q, In t (i_terms p) -> In (v, q) (t_vars t) -> In v (i_vars p).

  Lemma lookup_single v (x : T) : lookup v [(v, x)] = Some x.
  Proof. cbn. rewrite name_eqb_refl. reflexivity. Qed.

  Theorem eval_univariate_total : forall (p : ipoly T) (x : T),
    no_panic (i_eval_univariate p x) /\
    ((2 <= length (i_vars p))%nat -> i_eval_univariate p x = Err ETooManyVariables) /\
    (closed_poly p -> (length (i_vars p) <= 1)%nat -> exists r, i_eval_univariate p x = Ok r).
  Proof.
    intros p x. unfold i_eval_univariate. split; [|split].
    - destruct (i_vars p) as [|v [|v' vs]]; [apply eval_inter_no_panic..|]. intros w; discriminate.
    - destruct (i_vars p) as [|v [|v' vs]]; cbn; intros H; try lia. reflexivity.
    - intros Hc Hl. unfold closed_poly in Hc.
      destruct (i_vars p) as [|v [|v' vs]]; cbn in Hl; try lia.
      + apply eval_inter_from_ok. intros t v q Ht Hv. exfalso. exact (Hc t v q Ht Hv).
      + apply eval_inter_from_ok. intros t v' q Ht Hv.
        destruct (Hc t v' q Ht Hv) as [<-|[]]. rewrite lookup_single. discriminate.
  Qed.
End Missing.

Local Open Scope R_scope.

(* the mathematical value of a term list under an assignment (R instance) *)
Definition env_val (e : env R) (v : name) : R := match lookup v e with Some x => x | None => 0 end.
Definition vars_prod (e : env R) (vs : list (name * R)) : R :=
  fold_right (fun ve acc => Rpowf (env_val e (fst ve)) (snd ve) * acc) 1 vs.
Definition term_value (e : env R) (t : term R) : R := t_coef t * vars_prod e (t_vars t).
Definition poly_value (e : env R) (ts : list (term R)) : R :=
  fold_right Rplus 0 (map (term_value e) ts).

Lemma eval_term_vars_R (e : env R) vs : forall acc,
  (forall v p, In (v, p) vs -> lookup v e <> None) ->
  eval_term_vars acc vs e = Ok (acc * vars_prod e vs).
Proof.
  induction vs as [|[v p] vs IH]; intros acc Hb; cbn [eval_term_vars vars_prod fold_right].
  - f_equal. ring.
  - pose proof (Hb v p (or_introl eq_refl)) as Hv. unfold env_val at 1. cbn [fst snd].
    destruct (lookup v e) as [x|]; [|congruence].
    rewrite IH by (intros v' p' H; apply (Hb v' p'); right; exact H).
    cbn [nmul npowf RNum]. f_equal. fold (vars_prod e vs). ring.
Qed.

Lemma eval_inter_from_R (e : env R) ts : forall acc, all_bound e ts ->
  eval_inter_from acc ts e = Ok (acc + poly_value e ts).
Proof.
  induction ts as [|t ts IH]; intros acc Hb; cbn [eval_inter_from].
  - unfold poly_value. cbn. f_equal. ring.
  - rewrite eval_term_vars_R by (intros v p H; exact (Hb t v p (or_introl eq_refl) H)).
    rewrite IH by (intros t' v p Ht; apply Hb; right; exact Ht).
    unfold poly_value. cbn [map fold_right nadd RNum]. unfold term_value. f_equal. ring.
Qed.

Theorem eval_value : forall (ts : list (term R)) (e : env R), all_bound e ts ->
  eval_inter ts e = Ok (poly_value e ts).
Proof.
  intros ts e Hb. unfold eval_inter. rewrite eval_inter_from_R by exact Hb.
  cbn [n0 RNum]. f_equal. ring.
Qed.

(* Rpowf IS value^exponent on the natural domain *)
Lemma Int_part_IZR (n : Z) : Int_part (IZR n) = n.
Proof.
  unfold Int_part. rewrite <- (tech_up (IZR n) (n + 1)).
  - lia.
  - rewrite plus_IZR. lra.
  - rewrite plus_IZR. lra.
Qed.
Theorem Rpowf_integral : forall (x : R) (n : Z), Rpowf x (IZR n) = powerRZ x n.
Proof.
  intros x n. unfold Rpowf. rewrite Int_part_IZR.
  destruct (Req_EM_T (IZR n) (IZR n)) as [_|N]; [reflexivity|congruence].
Qed.
Theorem Rpowf_positive : forall x p : R, 0 < x -> Rpowf x p = Rpower x p.
Proof.
  intros x p Hx. unfold Rpowf.
  destruct (Req_EM_T p (IZR (Int_part p))) as [E|_].
  - rewrite (powerRZ_Rpower x _ Hx), <- E. reflexivity.
  - destruct (Rlt_dec 0 x); [reflexivity|contradiction].
Qed.
Lemma Rpowf_nat (x : R) (n : nat) : Rpowf x (IZR (Z.of_nat n)) = x ^ n.
Proof. rewrite Rpowf_integral. symmetry. apply pow_powerRZ. Qed.
Lemma Rpowf_1 (x : R) : Rpowf x 1 = x.
Proof. rewrite (Rpowf_integral x 1). unfold powerRZ. rewrite Pos2Nat.inj_1. cbn [pow]. ring. Qed.

Local Close Scope R_scope.

(* the finiteness checks are no-ops in exact arithmetic *)
Lemma finite_R : forall x : R, @finite R RNum x = true.
Proof.
  intros x. unfold finite. cbn [neqb nsub n0 RNum]. apply Reqb_true. unfold Rminus. apply Rplus_opp_r.
Qed.
Lemma is_finite_R : forall x : R, @is_finite R RNum x = true.
Proof. exact finite_R. Qed.
Lemma is_finite_Z : forall x : Z, @is_finite Z ZNum x = true.
Proof. intros x. unfold is_finite. cbn [neqb nsub n0 ZNum]. rewrite Z.sub_diag. reflexivity. Qed.
Lemma parse_dec_finite_R (s : str) : @parse_dec_finite R RNum s = parse_dec s.
Proof. unfold parse_dec_finite. destruct (parse_dec s); [rewrite is_finite_R|]; reflexivity. Qed.

(* ============================================================================ *)
(*  3. character classes of the rendered language                                *)
(* ============================================================================ *)
Definition decch (c : N) : bool := is_ascii_digit c || N.eqb c c_dot.
Definition numch (c : N) : bool := decch c || N.eqb c c_slash.       (* coefficient text *)
Definition powch (c : N) : bool :=
  is_ascii_digit c || N.eqb c c_dot || N.eqb c c_slash || N.eqb c c_minus.
Definition tch (c : N) : bool :=                                      (* term text *)
  numch c || is_ascii_letter c || N.eqb c c_caret || N.eqb c c_minus.

Lemma forallb_flat_map {A} (P : N -> bool) (f : A -> str) l :
  (forall x, In x l -> forallb P (f x) = true) -> forallb P (flat_map f l) = true.
Proof.
  induction l as [|x l IH]; intros H; [reflexivity|].
  cbn [flat_map]. rewrite forallb_app, (H x (or_introl eq_refl)), IH; [reflexivity|].
  intros y Hy. apply H. right; exact Hy.
Qed.

Lemma wf_dec_parts d : wf_dec d = true ->
  all_digits (d_int d) = true /\
  match d_frac d with
  | None => d_int d <> []
  | Some f => all_digits f = true /\ (d_int d <> [] \/ f <> [])
  end.
Proof.
  unfold wf_dec. intros H. apply andb_prop in H as [H1 H2]. split; [exact H1|].
  destruct (d_frac d) as [f|].
  - apply andb_prop in H2 as [H2 H3]. split; [exact H2|].
    destruct (d_int d); [|left; discriminate]. destruct f; [discriminate|right; discriminate].
  - destruct (d_int d); [discriminate|discriminate].
Qed.

Lemma render_dec_decch d : wf_dec d = true -> forallb decch (render_dec d) = true.
Proof.
  intros H. apply wf_dec_parts in H as [H1 H2]. unfold render_dec.
  assert (Hd : forall s, all_digits s = true -> forallb decch s = true).
  { intros s. apply forallb_impl. intros x Hx. unfold decch. rewrite Hx. reflexivity. }
  rewrite forallb_app, (Hd _ H1). destruct (d_frac d) as [f|]; [|reflexivity].
  destruct H2 as [H2 _]. cbn. rewrite (Hd _ H2). reflexivity.
Qed.

Lemma render_dec_head d : wf_dec d = true ->
  exists c r, render_dec d = c :: r /\ decch c = true.
Proof.
  intros H. pose proof (render_dec_decch d H) as Hc.
  apply wf_dec_parts in H as [H1 H2]. unfold render_dec in *.
  destruct (d_int d) as [|c r].
  - destruct (d_frac d) as [f|]; [|congruence]. cbn. eexists _, _. split; reflexivity.
  - cbn in Hc |- *. apply andb_prop in Hc as [Hc _]. eexists _, _. split; [reflexivity|exact Hc].
Qed.

Lemma decch_not c d : decch c = true -> decch d = false -> N.eqb c d = false.
Proof. intros H1 H2. destruct (N.eqb_spec c d) as [->|]; [congruence|reflexivity]. Qed.

Lemma render_dec_lacks d c : wf_dec d = true -> decch c = false -> lacks c (render_dec d) = true.
Proof.
  intros H Hc. unfold lacks. generalize (render_dec_decch d H). apply forallb_impl.
  intros x Hx. rewrite (decch_not x c Hx Hc). reflexivity.
Qed.

Section Accept.
  Context {T : Type} {NT : Num T}.
  Variable U : UClass.

  (* ---- decimals ------------------------------------------------------------ *)
  Lemma parse_unsigned_render d : wf_dec d = true ->
    parse_unsigned_dec (render_dec d) = Some (@dec_val T NT d).
  Proof.
    intros H. apply wf_dec_parts in H as [H1 H2].
    unfold parse_unsigned_dec, render_dec, dec_val.
    destruct (d_frac d) as [f|].
    - destruct H2 as [H2 H3].
      rewrite split_on_app by (apply digits_lack; [exact H1|cbv; left; reflexivity]).
      rewrite split_on_lacks by (apply digits_lack; [exact H2|cbv; left; reflexivity]).
      rewrite H1, H2. cbn [andb].
      destruct (d_int d), f; cbn; try reflexivity. destruct H3; congruence.
    - rewrite app_nil_r.
      rewrite split_on_lacks by (apply digits_lack; [exact H1|cbv; left; reflexivity]).
      rewrite H1. destruct (d_int d); [congruence|reflexivity].
  Qed.

  Lemma parse_dec_render neg d : wf_dec d = true ->
    parse_dec (sign_str neg ++ render_dec d) = Some (@signed T NT neg (dec_val d)).
  Proof.
    intros H. destruct neg; cbn [sign_str app signed].
    - cbn [parse_dec]. change (N.eqb c_minus c_minus) with true. cbn iota.
      rewrite (parse_unsigned_render d H). reflexivity.
    - destruct (render_dec_head d H) as (c & r & E & Hc).
      pose proof (parse_unsigned_render d H) as P. rewrite E in P |- *.
      cbn [parse_dec]. rewrite (decch_not c c_minus Hc eq_refl). exact P.
  Qed.

  (* the model's finiteness test is the grammar's *)
  Lemma is_finite_finite (x : T) : is_finite x = finite x.
  Proof. reflexivity. Qed.

  Lemma wf_frac_parts neg a b : @wf_frac T NT neg a b = true ->
    wf_dec a = true /\ wf_dec b = true /\ nneb (@dec_val T NT b) n0 = true /\
    finite (@dec_val T NT b) = true /\ finite (ndiv (@signed T NT neg (dec_val a)) (dec_val b)) = true.
  Proof.
    unfold wf_frac. intros H. apply andb_prop in H as [H H5]. apply andb_prop in H as [H H4].
    apply andb_prop in H as [H H3]. apply andb_prop in H as [H1 H2]. auto.
  Qed.

  Lemma parse_dec_finite_render neg d : wf_dec d = true -> finite (@signed T NT neg (dec_val d)) = true ->
    parse_dec_finite (sign_str neg ++ render_dec d) = Some (@signed T NT neg (dec_val d)).
  Proof.
    intros H Hf. unfold parse_dec_finite, is_finite. unfold finite in Hf. rewrite (parse_dec_render neg d H), Hf. reflexivity.
  Qed.

  Lemma parse_fraction_render neg a b : @wf_frac T NT neg a b = true ->
    parse_fraction (sign_str neg ++ render_dec a ++ c_slash :: render_dec b)
    = Some (ndiv (@signed T NT neg (dec_val a)) (dec_val b)).
  Proof.
    intros H. apply wf_frac_parts in H as (Ha & Hb & Hn & Hfb & Hfq). unfold parse_fraction.
    rewrite app_assoc, split_on_app.
    - rewrite split_on_lacks by (apply render_dec_lacks; [exact Hb|reflexivity]).
      rewrite (parse_dec_render neg a Ha).
      pose proof (parse_dec_render false b Hb) as Pb. cbn [sign_str app signed] in Pb.
      unfold finite in Hfb, Hfq. unfold is_finite. rewrite Pb, Hn, Hfb, Hfq. reflexivity.
    - rewrite lacks_app, (render_dec_lacks a c_slash Ha eq_refl). destruct neg; reflexivity.
  Qed.

  (* ---- coefficient ---------------------------------------------------------- *)
  Definition coefch (c : N) : bool := u_numeric U c || N.eqb c c_dot || N.eqb c c_slash.
  Definition coef_stop (b : str) : Prop :=
    match b with [] => True | c :: _ => coefch c = false /\ N.eqb c c_minus = false end.

  Lemma scan_coeff_app a : forall f b, forallb coefch a = true -> coef_stop b ->
    scan_coeff U f (a ++ b) = (a, b).
  Proof.
    induction a as [|c a IH]; intros f b Ha Hb.
    - destruct b as [|c b]; [reflexivity|]. destruct Hb as [H1 H2]. cbn [app scan_coeff].
      unfold coefch in H1. apply orb_false_iff in H1 as [H1 H3]. apply orb_false_iff in H1 as [H1 H4].
      rewrite H1, H2, H3, H4, andb_false_r. reflexivity.
    - cbn in Ha. apply andb_prop in Ha as [Hc Ha]. cbn [app scan_coeff].
      rewrite (IH false b Ha Hb).
      unfold coefch in Hc.
      destruct (u_numeric U c), (N.eqb c c_dot), (N.eqb c c_slash), (f && N.eqb c c_minus);
        try reflexivity; discriminate.
  Qed.

  Lemma scan_coeff_signed neg a b : forallb coefch a = true -> coef_stop b ->
    scan_coeff U true (sign_str neg ++ a ++ b) = (sign_str neg ++ a, b).
  Proof.
    intros Ha Hb. destruct neg; cbn [sign_str app].
    - cbn [scan_coeff]. change (N.eqb c_minus c_minus) with true.
      rewrite (scan_coeff_app a false b Ha Hb), orb_true_r. reflexivity.
    - apply scan_coeff_app; assumption.
  Qed.

  Definition wf_ocoef (neg : bool) (oc : option coef) : bool :=
    match oc with None => true | Some c => @wf_coef T NT neg c end.

  Lemma inter_coeff_cons c r : @inter_coeff T NT (c :: r) =
    if str_eqb (c :: r) [c_minus] then Ok (nneg n1)
    else if contains_char c_slash (c :: r) then
      match parse_fraction (c :: r) with Some v => Ok v | None => Err EInvalidFraction end
    else match parse_dec_finite (c :: r) with Some v => Ok v | None => Err EInvalidCoefficient end.
  Proof. reflexivity. Qed.

  Lemma signed_dec_shape neg d : wf_dec d = true ->
    exists c r, sign_str neg ++ render_dec d = c :: r /\ str_eqb (c :: r) [c_minus] = false.
  Proof.
    intros H. destruct (render_dec_head d H) as (c & r & E & Hc). rewrite E.
    destruct neg; cbn [sign_str app].
    - eexists _, _. split; [reflexivity|]. cbn. reflexivity.
    - eexists _, _. split; [reflexivity|]. cbn. rewrite (decch_not c c_minus Hc eq_refl). reflexivity.
  Qed.

  Lemma inter_coeff_render neg oc : wf_ocoef neg oc = true ->
    inter_coeff (sign_str neg ++ render_coef oc) = Ok (@coef_val T NT neg oc).
  Proof.
    intros H. destruct oc as [[d|a b]|]; cbn [wf_ocoef wf_coef] in H; cbn [render_coef coef_val].
    - apply andb_prop in H as [H Hfd].
      destruct (signed_dec_shape neg d H) as (c & r & E & Hs).
      pose proof (parse_dec_finite_render neg d H Hfd) as P. rewrite E in P |- *.
      rewrite inter_coeff_cons, Hs, P.
      rewrite contains_lacks. rewrite <- E, lacks_app, (render_dec_lacks d c_slash H eq_refl).
      destruct neg; reflexivity.
    - pose proof (parse_fraction_render neg a b H) as P.
      apply wf_frac_parts in H as (Ha & Hb & Hn & _ & _).
      destruct (signed_dec_shape neg a Ha) as (c & r & E & Hs).
      rewrite app_assoc in P |- *. rewrite E in P |- *. cbn [app] in P |- *.
      rewrite inter_coeff_cons, P.
      replace (str_eqb (c :: r ++ c_slash :: render_dec b) [c_minus]) with false.
      + replace (contains_char c_slash (c :: r ++ c_slash :: render_dec b)) with true; [reflexivity|].
        change (c :: r ++ c_slash :: render_dec b) with ((c :: r) ++ c_slash :: render_dec b).
        rewrite contains_app. cbn. rewrite orb_true_r. reflexivity.
      + cbn in Hs |- *. destruct (N.eqb c c_minus); [|reflexivity]. cbn in Hs |- *.
        destruct r; [discriminate|reflexivity].
    - rewrite app_nil_r. destruct neg; reflexivity.
  Qed.

  (* ---- exponents and variables ----------------------------------------------- *)
  Lemma scan_pow_app a : forall b, forallb powch a = true ->
    match b with [] => True | c :: _ => powch c = false end -> scan_pow (a ++ b) = (a, b).
  Proof.
    induction a as [|c a IH]; intros b Ha Hb.
    - destruct b as [|c b]; [reflexivity|]. cbn [app scan_pow]. unfold powch in Hb. rewrite Hb. reflexivity.
    - cbn in Ha. apply andb_prop in Ha as [Hc Ha]. cbn [app scan_pow].
      unfold powch in Hc. rewrite Hc, (IH b Ha Hb). reflexivity.
  Qed.

  Lemma decch_powch s : forallb decch s = true -> forallb powch s = true.
  Proof.
    apply forallb_impl. intros x. unfold decch, powch. intros H. apply orb_prop in H as [H|H]; rewrite H;
      rewrite ?orb_true_r; reflexivity.
  Qed.

  Lemma render_expo_powch e : @wf_expo T NT e = true -> forallb powch (render_expo e) = true.
  Proof.
    destruct e as [neg [d|a b]]; unfold wf_expo, render_expo; cbn [fst snd render_emag]; intros H.
    - apply andb_prop in H as [H _].
      rewrite forallb_app, (decch_powch _ (render_dec_decch d H)). destruct neg; reflexivity.
    - apply wf_frac_parts in H as (Ha & Hb & _).
      rewrite !forallb_app. cbn [forallb].
      rewrite (decch_powch _ (render_dec_decch a Ha)), (decch_powch _ (render_dec_decch b Hb)).
      destruct neg; reflexivity.
  Qed.

  Lemma inter_pow_render e : @wf_expo T NT e = true -> inter_pow (render_expo e) = Ok (@expo_val T NT e).
  Proof.
    destruct e as [neg [d|a b]]; unfold wf_expo, render_expo, expo_val, inter_pow;
      cbn [fst snd render_emag]; intros H.
    - apply andb_prop in H as [H Hfd].
      rewrite contains_lacks, lacks_app, (render_dec_lacks d c_slash H eq_refl).
      replace (lacks c_slash (sign_str neg)) with true by (destruct neg; reflexivity). cbn [andb negb].
      rewrite (parse_dec_finite_render neg d H Hfd). reflexivity.
    - rewrite (parse_fraction_render neg a b H).
      rewrite app_assoc, contains_app. cbn. rewrite orb_true_r. reflexivity.
  Qed.

  Lemma scan_vars_S fuel ch s' (acc : list (name * T)) :
    scan_vars (S fuel) (ch :: s') acc =
    if is_ascii_letter ch then
      match s' with
      | c2 :: s'' =>
          if N.eqb c2 c_caret then
            let (ps, rest) := scan_pow s'' in
            match inter_pow ps with
            | Ok p => scan_vars fuel rest (([ch], p) :: acc)
            | Err e => Err e
            | Panic w => Panic w
            end
          else scan_vars fuel s' (([ch], n1) :: acc)
      | [] => Ok (rev (([ch], n1) :: acc))
      end
    else Err EUnexpectedChar.
  Proof. reflexivity. Qed.

  Lemma scan_vars_nil fuel (acc : list (name * T)) : scan_vars fuel [] acc = Ok (rev acc).
  Proof. destruct fuel; reflexivity. Qed.

  Lemma render_vars_cons l oe vs : render_vars ((l, oe) :: vs) =
    l :: match oe with None => [] | Some e => c_caret :: render_expo e end ++ render_vars vs.
  Proof. reflexivity. Qed.

  Lemma render_vars_head vs : forallb (@wf_var T NT) vs = true ->
    match render_vars vs with
    | [] => vs = []
    | c :: _ => is_ascii_letter c = true
    end.
  Proof.
    destruct vs as [|[l oe] vs]; [reflexivity|]. cbn. intros H.
    apply andb_prop in H as [H _]. unfold wf_var in H. cbn [fst] in H.
    apply andb_prop in H as [H _]. exact H.
  Qed.

  Lemma letter_stops c : is_ascii_letter c = true -> powch c = false /\ N.eqb c c_caret = false.
  Proof.
    intros H. unfold powch. rewrite (letter_not_digit c H).
    rewrite !(letter_not c _ H) by cclia. split; reflexivity.
  Qed.

  Lemma scan_vars_render vs : forall fuel acc, forallb (@wf_var T NT) vs = true ->
    (length (render_vars vs) <= fuel)%nat ->
    scan_vars fuel (render_vars vs) acc = Ok (rev acc ++ map named (map var_val vs)).
  Proof.
    induction vs as [|[l oe] vs IH]; intros fuel acc Hw Hl.
    - cbn. rewrite scan_vars_nil, app_nil_r. reflexivity.
    - cbn [forallb] in Hw. apply andb_prop in Hw as [Hv Hw].
      unfold wf_var in Hv. cbn [fst snd] in Hv. apply andb_prop in Hv as [Hlet He].
      pose proof (render_vars_head vs Hw) as Hh.
      rewrite render_vars_cons in Hl |- *.
      destruct fuel as [|fuel]; [cbn in Hl; lia|].
      rewrite scan_vars_S, Hlet. cbn [map]. unfold var_val at 1, named at 1. cbn [fst snd].
      destruct oe as [e|].
      + cbn [app] in Hl |- *. change (N.eqb c_caret c_caret) with true. cbn iota.
        rewrite scan_pow_app.
        * rewrite (inter_pow_render e He).
          rewrite IH; [|exact Hw|cbn [length] in Hl; rewrite app_length in Hl; lia].
          cbn [rev]. rewrite <- app_assoc. reflexivity.
        * apply render_expo_powch. exact He.
        * destruct (render_vars vs) as [|c r]; [exact I|]. apply letter_stops. exact Hh.
      + cbn [app] in Hl |- *. destruct (render_vars vs) as [|c r] eqn:E.
        * subst vs. reflexivity.
        * rewrite (proj2 (letter_stops c Hh)).
          rewrite IH; [|exact Hw|cbn in Hl |- *; lia].
          cbn [rev]. rewrite <- app_assoc. reflexivity.
  Qed.

  (* ---- one term ---------------------------------------------------------------- *)
  Hypothesis HU : uclass_num_ok U.

  Lemma decch_coefch s : forallb decch s = true -> forallb coefch s = true.
  Proof.
    apply forallb_impl. intros x. unfold decch, coefch. intros H. apply orb_prop in H as [H|H].
    - rewrite (proj1 HU x H). reflexivity.
    - rewrite H, orb_true_r. reflexivity.
  Qed.

  Lemma render_coef_coefch neg oc : wf_ocoef neg oc = true -> forallb coefch (render_coef oc) = true.
  Proof.
    destruct oc as [[d|a b]|]; cbn [wf_ocoef wf_coef render_coef]; intros H.
    - apply andb_prop in H as [H _]. apply decch_coefch, render_dec_decch, H.
    - apply wf_frac_parts in H as (Ha & Hb & _). rewrite forallb_app. cbn [forallb].
      rewrite (decch_coefch _ (render_dec_decch a Ha)), (decch_coefch _ (render_dec_decch b Hb)).
      unfold coefch at 1. change (N.eqb c_slash c_slash) with true. rewrite orb_true_r. reflexivity.
    - reflexivity.
  Qed.

  Lemma wf_term_parts x : @wf_term T NT x = true ->
    wf_ocoef (fst x) (fst (snd x)) = true /\ forallb (@wf_var T NT) (snd (snd x)) = true /\
    (fst (snd x) <> None \/ snd (snd x) <> []) /\
    forallb (fun vp => finite (snd vp)) (t_vars (@term_of T NT x)) = true.
  Proof.
    unfold wf_term. intros H. apply andb_prop in H as [H H4]. apply andb_prop in H as [H H3].
    apply andb_prop in H as [H1 H2].
    split; [exact H1|]. split; [exact H2|]. split; [|exact H4].
    destruct (fst (snd x)); [left; discriminate|]. destruct (snd (snd x)); [discriminate|right; discriminate].
  Qed.

  Lemma inter_term_render x : @wf_term T NT x = true ->
    inter_term U (render_signed x) = Ok (@term_of T NT x).
  Proof.
    intros H. apply wf_term_parts in H as (Hc & Hv & _ & Hfin).
    destruct x as [neg [oc vs]]. cbn [fst snd] in Hc, Hv.
    unfold inter_term, render_signed, render_term. cbn [fst snd].
    rewrite scan_coeff_signed.
    - rewrite (inter_coeff_render neg oc Hc).
      rewrite (scan_vars_render vs (length (render_vars vs)) [] Hv (le_n _)). cbn [rev app].
      rewrite merge_sort_canon. unfold term_of in Hfin. cbn [t_vars fst snd] in Hfin.
      replace (forallb (fun vp : name * T => is_finite (snd vp)) (canon_vars (map var_val vs))) with true
        by (symmetry; exact Hfin).
      reflexivity.
    - apply (render_coef_coefch neg). exact Hc.
    - pose proof (render_vars_head vs Hv) as Hh. unfold coef_stop.
      destruct (render_vars vs) as [|c r]; [exact I|].
      unfold coefch. rewrite (proj2 HU c Hh). rewrite !(letter_not c _ Hh) by cclia.
      split; reflexivity.
  Qed.
End Accept.
