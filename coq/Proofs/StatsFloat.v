(* Proofs/StatsFloat.v — rounding-error bounds for the FLOAT instance of Model/Stats.v.

   Everything here is about the functions that are extracted and run against the
   Rust code: [@sum_list float FNum] and [@arith_mean float FNum] (Coq primitive
   binary64 floats).  The bridge to real numbers is Flocq's [Prim2B] (primitive
   float -> binary64 datum) followed by [B2R].

     eps = 2^-53  (unit roundoff of binary64, round to nearest even)
     eta = 2^-1075 (half the smallest subnormal: absolute error of one rounding
                    that lands in the subnormal range)

   (1) sum_list_float_error      recursive summation: |fl(sum) - sum| <= ((1+eps)^n - 1) * sum |x_i|
                                 (purely relative: binary64 addition has no underflow error)
       sum_list_no_overflow      the real-number condition (1+eps)^n * sum|x_i| < 2^1024
                                 implies the "no partial sum overflows" hypothesis
       sum_list_float_error_bound = (1) under that real-number condition
   (2) arith_mean_float_error    mean = sum/n to within ((1+eps)^(n+1) - 1) * sum|x_i| / n + eta
       nofnat_float_exact        [nofnat n] is exact for n < 2^53 (proved in general through
                                 binary_normalize; no hypothesis left to the caller)
   (3) Examples on [0.1; 0.2; 0.3].                                                        *)
From Coq Require Import ZArith List Reals Floats Lia Lra.
From Flocq Require Import Core Plus_error Relative BinarySingleNaN PrimFloat.
From SV Require Import Base.Num Model.Stats Proofs.Stats.
Import ListNotations.
Local Open Scope R_scope.

Local Notation pfloat := PrimFloat.float.
Local Notation B64 := (binary_float FloatOps.prec FloatOps.emax).
Local Notation Badd := (@Bplus FloatOps.prec FloatOps.emax Hprec Hmax mode_NE).
Local Notation Bquo := (@Bdiv FloatOps.prec FloatOps.emax Hprec Hmax mode_NE).
Local Notation fexp64 := (SpecFloat.fexp FloatOps.prec FloatOps.emax).
Local Notation rnd64 := (round radix2 fexp64 ZnearestE).

(* real value / finiteness of a primitive float *)
Definition FR (x : pfloat) : R := B2R (Prim2B x).
Definition ffin (x : pfloat) : Prop := is_finite (Prim2B x) = true.
Definition feps : R := bpow radix2 (-53).
Definition feta : R := bpow radix2 (-1075).

Lemma feps_pos : 0 < feps.
Proof. apply bpow_gt_0. Qed.

Lemma u_ro_feps : u_ro radix2 53 = feps.
Proof.
  unfold u_ro, feps. change (- (53) + 1)%Z with (-52)%Z.
  change (-53)%Z with (-1 + -52)%Z. rewrite bpow_plus. reflexivity.
Qed.

Lemma half_emin_feta : / 2 * bpow radix2 (-1074) = feta.
Proof.
  unfold feta. change (-1075)%Z with (-1 + -1074)%Z. rewrite bpow_plus. reflexivity.
Qed.

(* ---- lists of reals ------------------------------------------------------ *)
Lemma Rsum_snoc (l : list R) x : Rsum (l ++ [x]) = Rsum l + x.
Proof.
  induction l as [|a l IH]; cbn [app].
  - rewrite !Rsum_cons. unfold Rsum; cbn [fold_right]. ring.
  - rewrite !Rsum_cons, IH. ring.
Qed.

Lemma Rsum_abs_le (l : list R) : Rabs (Rsum l) <= Rsum (map Rabs l).
Proof.
  induction l as [|a l IH]; cbn [map].
  - unfold Rsum; cbn [fold_right]. rewrite Rabs_R0. lra.
  - rewrite !Rsum_cons. eapply Rle_trans; [apply Rabs_triang|]. lra.
Qed.

Lemma Rsum_abs_nonneg (l : list R) : 0 <= Rsum (map Rabs l).
Proof. eapply Rle_trans; [apply Rabs_pos | apply Rsum_abs_le]. Qed.

Lemma pow1p_ge1 (u : R) (n : nat) : 0 <= u -> 1 <= (1 + u) ^ n.
Proof. intros Hu. apply pow_R1_Rle. lra. Qed.

(* one step of the classical recursive-summation analysis, over the reals *)
Lemma step_bound (u P Ab S s x d : R) :
  0 <= u -> 1 <= P -> Rabs d <= u -> Rabs S <= Ab -> Rabs (s - S) <= (P - 1) * Ab ->
  Rabs ((s + x) * (1 + d) - (S + x)) <= (P * (1 + u) - 1) * (Ab + Rabs x).
Proof.
  intros Hu HP Hd HS He.
  replace ((s + x) * (1 + d) - (S + x)) with ((s - S) * (1 + d) + (S + x) * d) by ring.
  eapply Rle_trans; [apply Rabs_triang|]. rewrite !Rabs_mult.
  assert (H1 : Rabs (1 + d) <= 1 + u).
  { eapply Rle_trans; [apply Rabs_triang|]. rewrite Rabs_R1. lra. }
  assert (H2 : Rabs (S + x) <= Ab + Rabs x).
  { eapply Rle_trans; [apply Rabs_triang|]. lra. }
  pose proof (Rabs_pos (s - S)) as P1. pose proof (Rabs_pos (1 + d)) as P2.
  pose proof (Rabs_pos d) as P3. pose proof (Rabs_pos (S + x)) as P4.
  pose proof (Rabs_pos x) as P5. pose proof (Rabs_pos S) as P6.
  assert (H3 : Rabs (s - S) * Rabs (1 + d) <= (P - 1) * Ab * (1 + u)).
  { apply Rmult_le_compat; lra. }
  assert (H4 : Rabs (S + x) * Rabs d <= (Ab + Rabs x) * u).
  { apply Rmult_le_compat; lra. }
  assert (H5 : 0 <= Rabs x * ((P - 1) * (1 + u))).
  { apply Rmult_le_pos; [lra|]. apply Rmult_le_pos; lra. }
  nra.
Qed.

(* ---- one binary64 addition (Flocq side) ---------------------------------- *)
Lemma Badd_finite_round (a x : B64) :
  is_finite a = true -> is_finite x = true -> is_finite (Badd a x) = true ->
  B2R (Badd a x) = rnd64 (B2R a + B2R x).
Proof.
  intros Fa Fx Fs.
  generalize (Bplus_correct FloatOps.prec FloatOps.emax Hprec Hmax mode_NE a x Fa Fx).
  destruct (Rlt_bool _ _).
  - intros [H _]. exact H.
  - intros [H _]. rewrite <- is_finite_SF_B2SF, H in Fs. discriminate Fs.
Qed.

Lemma Badd_round_finite (a x : B64) :
  is_finite a = true -> is_finite x = true ->
  Rabs (rnd64 (B2R a + B2R x)) < bpow radix2 1024 ->
  is_finite (Badd a x) = true.
Proof.
  intros Fa Fx Hlt.
  generalize (Bplus_correct FloatOps.prec FloatOps.emax Hprec Hmax mode_NE a x Fa Fx).
  rewrite Rlt_bool_true by exact Hlt.
  intros [_ [H _]]. exact H.
Qed.

(* rounding a sum of two binary64 numbers: purely relative error, even in the subnormal range *)
Lemma rnd64_plus_rel (a x : B64) :
  exists d, Rabs d <= feps /\ rnd64 (B2R a + B2R x) = (B2R a + B2R x) * (1 + d).
Proof.
  destruct (@FLT_plus_error_N_ex radix2 (-1074) 53 (eq_refl : Prec_gt_0 53)
              (fun t => negb (Z.even t)) (B2R a) (B2R x)
              (generic_format_B2R _ _ a) (generic_format_B2R _ _ x)) as [d [Hd Hr]].
  exists d. split; [|exact Hr].
  eapply Rle_trans; [exact Hd|]. rewrite <- u_ro_feps. apply u_rod1pu_ro_le_u_ro.
Qed.

(* ---- transport to primitive floats --------------------------------------- *)
Lemma sum_list_snoc (l : list pfloat) (x : pfloat) :
  sum_list (l ++ [x]) = PrimFloat.add (sum_list l) x.
Proof. unfold sum_list. rewrite fold_left_app. reflexivity. Qed.

Lemma FR_neg_zero : FR PrimFloat.neg_zero = 0 /\ ffin PrimFloat.neg_zero.
Proof.
  unfold FR, ffin. rewrite neg_zero_equiv, Prim2B_B2Prim. split; reflexivity.
Qed.

Lemma add_finite_rel (s x : pfloat) :
  ffin s -> ffin x -> ffin (PrimFloat.add s x) ->
  exists d, Rabs d <= feps /\ FR (PrimFloat.add s x) = (FR s + FR x) * (1 + d).
Proof.
  unfold ffin, FR. intros Fs Fx Fa. rewrite add_equiv in *.
  rewrite (Badd_finite_round _ _ Fs Fx Fa). apply rnd64_plus_rel.
Qed.

(* "no partial sum overflows": every prefix of l has a finite computed sum *)
Definition prefixes_finite (l : list pfloat) : Prop :=
  forall k, (k <= length l)%nat -> ffin (sum_list (firstn k l)).

Lemma prefixes_finite_snoc_inv (l : list pfloat) x :
  prefixes_finite (l ++ [x]) -> prefixes_finite l /\ ffin (PrimFloat.add (sum_list l) x).
Proof.
  intros H. split.
  - intros k Hk. specialize (H k). rewrite app_length in H. cbn [length] in H.
    rewrite firstn_app in H. replace (k - length l)%nat with 0%nat in H by lia.
    cbn [firstn] in H. rewrite app_nil_r in H. apply H. lia.
  - specialize (H (length (l ++ [x])) (le_n _)).
    rewrite firstn_all in H. rewrite sum_list_snoc in H. exact H.
Qed.

Definition absFR (x : pfloat) : R := Rabs (FR x).

Lemma map_absFR l : map absFR l = map Rabs (map FR l).
Proof. rewrite map_map. reflexivity. Qed.

(* (1) core form *)
Lemma sum_list_float_error_core (l : list pfloat) :
  (forall x, In x l -> ffin x) -> prefixes_finite l ->
  ffin (sum_list l) /\
  Rabs (FR (sum_list l) - Rsum (map FR l)) <=
    ((1 + feps) ^ length l - 1) * Rsum (map absFR l).
Proof.
  induction l as [|x l IH] using rev_ind; intros Hfin Hpre.
  - destruct FR_neg_zero as [Z0 F0]. split; [exact F0|].
    cbn [length map pow]. change (sum_list (@nil pfloat)) with PrimFloat.neg_zero.
    rewrite Z0. unfold Rsum; cbn [fold_right]. rewrite Rminus_0_r, Rabs_R0. lra.
  - destruct (prefixes_finite_snoc_inv _ _ Hpre) as [Hpl Hfa].
    assert (Hfl : forall y, In y l -> ffin y).
    { intros y Hy. apply Hfin, in_or_app. left; exact Hy. }
    assert (Hfx : ffin x). { apply Hfin, in_or_app. right; left; reflexivity. }
    destruct (IH Hfl Hpl) as [Fs Es].
    rewrite sum_list_snoc. split; [exact Hfa|].
    destruct (add_finite_rel _ _ Fs Hfx Hfa) as [d [Hd Hr]].
    rewrite Hr, !map_app, app_length. cbn [map length].
    rewrite !Rsum_snoc. replace (length l + 1)%nat with (S (length l)) by lia.
    rewrite <- tech_pow_Rmult. rewrite (Rmult_comm (1 + feps)).
    apply step_bound.
    + apply Rlt_le, feps_pos.
    + apply pow1p_ge1, Rlt_le, feps_pos.
    + exact Hd.
    + rewrite map_absFR. apply Rsum_abs_le.
    + exact Es.
Qed.

Lemma sum_list_abs_bound (l : list pfloat) :
  (forall x, In x l -> ffin x) -> prefixes_finite l ->
  Rabs (FR (sum_list l)) <= (1 + feps) ^ length l * Rsum (map absFR l).
Proof.
  intros Hfin Hpre. destruct (sum_list_float_error_core l Hfin Hpre) as [_ E].
  pose proof (Rsum_abs_le (map FR l)) as HS. rewrite <- map_absFR in HS.
  replace (FR (sum_list l)) with ((FR (sum_list l) - Rsum (map FR l)) + Rsum (map FR l)) by ring.
  eapply Rle_trans; [apply Rabs_triang|]. lra.
Qed.

(* the real-number condition is sufficient for the absence of overflow *)
Lemma sum_list_no_overflow_core (l : list pfloat) :
  (forall x, In x l -> ffin x) ->
  (1 + feps) ^ length l * Rsum (map absFR l) < bpow radix2 1024 ->
  prefixes_finite l.
Proof.
  induction l as [|x l IH] using rev_ind; intros Hfin Hb.
  - intros k Hk. cbn [length] in Hk. replace k with 0%nat by lia. cbn [firstn].
    apply FR_neg_zero.
  - assert (Hfl : forall y, In y l -> ffin y).
    { intros y Hy. apply Hfin, in_or_app. left; exact Hy. }
    assert (Hfx : ffin x). { apply Hfin, in_or_app. right; left; reflexivity. }
    rewrite map_app, app_length in Hb. cbn [map length] in Hb. rewrite Rsum_snoc in Hb.
    replace (length l + 1)%nat with (S (length l)) in Hb by lia.
    rewrite <- tech_pow_Rmult in Hb.
    pose proof feps_pos as He.
    pose proof (pow1p_ge1 feps (length l) (Rlt_le _ _ He)) as HP.
    pose proof (Rsum_abs_nonneg (map FR l)) as HA. rewrite <- map_absFR in HA.
    pose proof (Rabs_pos (FR x)) as HX. fold (absFR x) in HX.
    set (P := (1 + feps) ^ length l) in *. set (Ab := Rsum (map absFR l)) in *.
    assert (Hmono : P * Ab <= (1 + feps) * P * (Ab + absFR x)).
    { assert (0 <= P * Ab) by (apply Rmult_le_pos; lra).
      assert (0 <= P * absFR x) by (apply Rmult_le_pos; lra).
      assert (0 <= feps * (P * (Ab + absFR x))).
      { apply Rmult_le_pos; [lra|]. apply Rmult_le_pos; lra. }
      nra. }
    assert (Hpl : prefixes_finite l).
    { apply IH; [exact Hfl|]. fold P Ab. lra. }
    pose proof (sum_list_abs_bound l Hfl Hpl) as Hs. fold P Ab in Hs.
    assert (Hlast : ffin (PrimFloat.add (sum_list l) x)).
    { unfold ffin. rewrite add_equiv.
      apply Badd_round_finite.
      - specialize (Hpl (length l) (le_n _)). rewrite firstn_all in Hpl. exact Hpl.
      - exact Hfx.
      - destruct (rnd64_plus_rel (Prim2B (sum_list l)) (Prim2B x)) as [d [Hd Hr]].
        rewrite Hr. fold (FR (sum_list l)) (FR x).
        eapply Rle_lt_trans; [|exact Hb].
        rewrite Rabs_mult.
        assert (H1 : Rabs (1 + d) <= 1 + feps).
        { eapply Rle_trans; [apply Rabs_triang|]. rewrite Rabs_R1. lra. }
        assert (H2 : Rabs (FR (sum_list l) + FR x) <= P * Ab + absFR x).
        { eapply Rle_trans; [apply Rabs_triang|]. unfold absFR. lra. }
        assert (H3 : Rabs (FR (sum_list l) + FR x) * Rabs (1 + d) <= (P * Ab + absFR x) * (1 + feps)).
        { apply Rmult_le_compat; try apply Rabs_pos; assumption. }
        assert (H4 : 0 <= (P - 1) * absFR x * (1 + feps)).
        { apply Rmult_le_pos; [apply Rmult_le_pos|]; lra. }
        nra. }
    intros k Hk. rewrite app_length in Hk. cbn [length] in Hk.
    destruct (Nat.eq_dec k (length l + 1)) as [->|Hne].
    + rewrite firstn_all2 by (rewrite app_length; cbn [length]; lia).
      rewrite sum_list_snoc. exact Hlast.
    + rewrite firstn_app. replace (k - length l)%nat with 0%nat by lia.
      cbn [firstn]. rewrite app_nil_r. apply Hpl. lia.
Qed.

(* ---- nofnat is exact below 2^53 ------------------------------------------ *)
Lemma nofnat_float_exact_core (n : nat) : (Z.of_nat n < 2 ^ 53)%Z ->
  ffin (nofnat n) /\ FR (nofnat n) = INR n.
Proof.
  intros Hn. unfold ffin, FR.
  assert (E : @nofnat pfloat FNum n = Z2float (Z.of_nat n)).
  { unfold nofnat. cbn [nofZ FNum]. destruct (Z.of_nat n) eqn:En; try reflexivity. lia. }
  rewrite E. unfold Z2float.
  change (SpecFloat.binary_normalize prec53 emax1024 (Z.of_nat n) 0 false)
    with (SpecFloat.binary_normalize FloatOps.prec FloatOps.emax (Z.of_nat n) 0 false).
  rewrite binary_normalize_equiv.
  change (SF2Prim (B2SF ?b)) with (B2Prim b).
  rewrite Prim2B_B2Prim.
  generalize (binary_normalize_correct FloatOps.prec FloatOps.emax Hprec Hmax mode_NE (Z.of_nat n) 0 false).
  cbv zeta.
  assert (EF : F2R (Float radix2 (Z.of_nat n) 0) = IZR (Z.of_nat n)).
  { unfold F2R; cbn [Fnum Fexp bpow]. ring. }
  rewrite EF.
  assert (G : generic_format radix2 fexp64 (IZR (Z.of_nat n))).
  { apply (generic_format_FLT radix2 (-1074) 53).
    apply (FLT_spec radix2 (-1074) 53 _ (Float radix2 (Z.of_nat n) 0)).
    - symmetry; exact EF.
    - cbn [Fnum]. rewrite Z.abs_eq by lia. exact Hn.
    - cbn [Fexp]. lia. }
  rewrite round_generic; [|apply valid_rnd_N|exact G].
  rewrite Rlt_bool_true.
  - intros [H1 [H2 _]]. split; [exact H2|]. rewrite H1. symmetry; apply INR_IZR_INZ.
  - rewrite Rabs_pos_eq by (apply IZR_le; lia).
    apply Rlt_trans with (bpow radix2 53).
    + rewrite <- IZR_Zpower by lia. apply IZR_lt. exact Hn.
    + apply bpow_lt. reflexivity.
Qed.

(* ---- one binary64 division by a count ------------------------------------ *)
Lemma div_by_count (s c : pfloat) (n : nat) :
  (0 < n)%nat -> ffin s -> FR c = INR n ->
  ffin (PrimFloat.div s c) /\
  exists d e, Rabs d <= feps /\ Rabs e <= feta /\
    FR (PrimFloat.div s c) = FR s / INR n * (1 + d) + e.
Proof.
  unfold ffin, FR. intros Hn Fs Ec. rewrite div_equiv.
  assert (Hn1 : 1 <= INR n). { change 1 with (INR 1). apply le_INR. lia. }
  assert (Hc0 : B2R (Prim2B c) <> 0) by (rewrite Ec; lra).
  generalize (Bdiv_correct FloatOps.prec FloatOps.emax Hprec Hmax mode_NE (Prim2B s) (Prim2B c) Hc0).
  rewrite Ec. set (q := B2R (Prim2B s) / INR n).
  rewrite Rlt_bool_true.
  - intros [H1 [H2 _]]. split; [rewrite H2; exact Fs|].
    destruct (error_N_FLT radix2 (-1074) 53 eq_refl (fun t => negb (Z.even t)) q)
      as [d [e [Hd [He [_ Hr]]]]].
    exists d, e. change (/ 2 * bpow radix2 (- (53) + 1)) with (u_ro radix2 53) in Hd.
    rewrite u_ro_feps in Hd. rewrite half_emin_feta in He.
    split; [exact Hd|]. split; [exact He|]. rewrite H1. exact Hr.
  - eapply Rle_lt_trans; [|apply (abs_B2R_lt_emax _ _ (Prim2B s))].
    apply abs_round_le_generic.
    + apply fexp_correct. reflexivity.
    + apply valid_rnd_N.
    + apply generic_format_abs, generic_format_B2R.
    + unfold q, Rdiv. rewrite Rabs_mult, Rabs_inv, (Rabs_pos_eq (INR n)) by lra.
      pose proof (Rabs_pos (B2R (Prim2B s))) as Hp.
      assert (Hi : / INR n <= 1).
      { rewrite <- Rinv_1. apply Rinv_le_contravar; lra. }
      assert (Hi0 : 0 < / INR n) by (apply Rinv_0_lt_compat; lra).
      nra.
Qed.

(* ======================================================================== *)
(* Final statements, written with Flocq's [B2R (Prim2B x)] / [is_finite (Prim2B x)]
   only (no local abbreviations), as pinned in Properties/C18.v.              *)

(* (1) *)
Theorem sum_list_float_error : forall l : list PrimFloat.float,
  (forall x, In x l -> is_finite (Prim2B x) = true) ->
  (forall k, (k <= length l)%nat -> is_finite (Prim2B (sum_list (firstn k l))) = true) ->
  is_finite (Prim2B (sum_list l)) = true /\
  Rabs (B2R (Prim2B (sum_list l)) - Rsum (map (fun x => B2R (Prim2B x)) l)) <=
    ((1 + bpow radix2 (-53)) ^ length l - 1) * Rsum (map (fun x => Rabs (B2R (Prim2B x))) l).
Proof. exact sum_list_float_error_core. Qed.

(* the no-overflow hypothesis of (1) follows from a bound on the data *)
Theorem sum_list_no_overflow : forall l : list PrimFloat.float,
  (forall x, In x l -> is_finite (Prim2B x) = true) ->
  (1 + bpow radix2 (-53)) ^ length l * Rsum (map (fun x => Rabs (B2R (Prim2B x))) l) < bpow radix2 1024 ->
  forall k, (k <= length l)%nat -> is_finite (Prim2B (sum_list (firstn k l))) = true.
Proof. exact sum_list_no_overflow_core. Qed.

Theorem sum_list_float_error_bound : forall l : list PrimFloat.float,
  (forall x, In x l -> is_finite (Prim2B x) = true) ->
  (1 + bpow radix2 (-53)) ^ length l * Rsum (map (fun x => Rabs (B2R (Prim2B x))) l) < bpow radix2 1024 ->
  is_finite (Prim2B (sum_list l)) = true /\
  Rabs (B2R (Prim2B (sum_list l)) - Rsum (map (fun x => B2R (Prim2B x)) l)) <=
    ((1 + bpow radix2 (-53)) ^ length l - 1) * Rsum (map (fun x => Rabs (B2R (Prim2B x))) l).
Proof.
  intros l Hfin Hb. apply sum_list_float_error; [exact Hfin|].
  apply sum_list_no_overflow; assumption.
Qed.

Theorem nofnat_float_exact : forall n : nat, (Z.of_nat n < 2 ^ 53)%Z ->
  is_finite (Prim2B (nofnat n)) = true /\ B2R (Prim2B (nofnat n)) = INR n.
Proof. exact nofnat_float_exact_core. Qed.

(* (2) *)
Theorem arith_mean_float_error : forall l : list PrimFloat.float,
  l <> [] -> (Z.of_nat (length l) < 2 ^ 53)%Z ->
  (forall x, In x l -> is_finite (Prim2B x) = true) ->
  (forall k, (k <= length l)%nat -> is_finite (Prim2B (sum_list (firstn k l))) = true) ->
  exists m, arith_mean l = Some m /\ is_finite (Prim2B m) = true /\
  Rabs (B2R (Prim2B m) - Rsum (map (fun x => B2R (Prim2B x)) l) / INR (length l)) <=
    ((1 + bpow radix2 (-53)) ^ S (length l) - 1)
      * Rsum (map (fun x => Rabs (B2R (Prim2B x))) l) / INR (length l)
    + bpow radix2 (-1075).
Proof.
  intros l Hne Hlen Hfin Hpre.
  destruct (sum_list_float_error_core l Hfin Hpre) as [Fs Es].
  destruct (nofnat_float_exact_core (length l) Hlen) as [_ Ec].
  assert (Hpos : (0 < length l)%nat). { destruct l; [contradiction|cbn [length]; lia]. }
  destruct (div_by_count (sum_list l) (nofnat (length l)) (length l) Hpos Fs Ec)
    as [Fm [d [e [Hd [He Hm]]]]].
  exists (PrimFloat.div (sum_list l) (nofnat (length l))).
  split; [destruct l; [contradiction|reflexivity]|].
  split; [exact Fm|].
  fold (FR (PrimFloat.div (sum_list l) (nofnat (length l)))).
  change (fun x : pfloat => B2R (Prim2B x)) with FR.
  change (fun x : pfloat => Rabs (B2R (Prim2B x))) with absFR.
  fold feps feta. rewrite Hm.
  assert (Hn1 : 1 <= INR (length l)). { change 1 with (INR 1). apply le_INR. lia. }
  set (N := INR (length l)) in *. set (s := FR (sum_list l)) in *.
  set (S := Rsum (map FR l)) in *. set (Ab := Rsum (map absFR l)) in *.
  pose proof feps_pos as Hu.
  assert (HB : Rabs ((s + 0) * (1 + d) - (S + 0)) <=
               ((1 + feps) ^ length l * (1 + feps) - 1) * (Ab + Rabs 0)).
  { apply step_bound.
    - lra.
    - apply pow1p_ge1; lra.
    - exact Hd.
    - unfold S, Ab. rewrite map_absFR. apply Rsum_abs_le.
    - exact Es. }
  rewrite Rabs_R0, !Rplus_0_r in HB.
  rewrite <- tech_pow_Rmult. rewrite (Rmult_comm (1 + feps)).
  replace (s / N * (1 + d) + e - S / N) with ((s * (1 + d) - S) / N + e) by (field; lra).
  eapply Rle_trans; [apply Rabs_triang|].
  apply Rplus_le_compat; [|exact He].
  unfold Rdiv at 1. rewrite Rabs_mult, Rabs_inv, (Rabs_pos_eq N) by lra.
  unfold Rdiv. apply Rmult_le_compat_r; [|exact HB].
  apply Rlt_le, Rinv_0_lt_compat; lra.
Qed.

(* (3) non-vacuity: [0.1; 0.2; 0.3] (nearest binary64 values, hex literals) *)
Definition ex_data : list PrimFloat.float :=
  [0x1.999999999999ap-4%float; 0x1.999999999999ap-3%float; 0x1.3333333333333p-2%float].

Example ex_data_finite : forall x, In x ex_data -> is_finite (Prim2B x) = true.
Proof.
  intros x [<-|[<-|[<-|[]]]]; rewrite <- is_finite_equiv; vm_compute; reflexivity.
Qed.

Example ex_data_prefixes : forall k, (k <= length ex_data)%nat ->
  is_finite (Prim2B (sum_list (firstn k ex_data))) = true.
Proof.
  intros k Hk. cbn [length ex_data] in Hk.
  destruct k as [|[|[|[|k]]]]; try lia; rewrite <- is_finite_equiv; vm_compute; reflexivity.
Qed.

Example ex_data_sum_error :
  Rabs (B2R (Prim2B (sum_list ex_data)) - Rsum (map (fun x => B2R (Prim2B x)) ex_data)) <=
    ((1 + bpow radix2 (-53)) ^ 3 - 1) * Rsum (map (fun x => Rabs (B2R (Prim2B x))) ex_data).
Proof. exact (proj2 (sum_list_float_error ex_data ex_data_finite ex_data_prefixes)). Qed.

Example ex_data_mean_error : exists m, arith_mean ex_data = Some m /\ is_finite (Prim2B m) = true /\
  Rabs (B2R (Prim2B m) - Rsum (map (fun x => B2R (Prim2B x)) ex_data) / INR 3) <=
    ((1 + bpow radix2 (-53)) ^ 4 - 1) * Rsum (map (fun x => Rabs (B2R (Prim2B x))) ex_data) / INR 3
    + bpow radix2 (-1075).
Proof.
  apply (arith_mean_float_error ex_data); [discriminate | cbn [length ex_data]; lia | exact ex_data_finite | exact ex_data_prefixes].
Qed.
