(* Proofs/InterAgree.v — C02, agreement clause: on the common univariate sub-language
   (one ASCII letter, decimal coefficients, exponents written as digit strings <= 65535)
   the univariate parser [parse_simple] and the multivariate parser [parse_inter] accept
   the same text and the two polynomials take the same value at every point.
   Contains the small acceptance lemma for [parse_simple] restricted to this sub-language. *)
From Coq Require Import ZArith NArith List Bool Lia Reals Lra Sorting.Sorted.
From SV Require Import Base.Num Base.Outcome Base.Str Model.Poly Model.Parse Model.GrammarI
  Proofs.StrLemmasI Proofs.InterCanon Proofs.InterTerm Proofs.InterParse.
Import ListNotations.

(* what the univariate parser needs from the Unicode tables: ASCII letters are alphabetic,
   the other characters of the sub-language are not *)
Definition uclass_alpha_ok (U : UClass) : Prop :=
  (forall c, is_ascii_letter c = true -> u_alphabetic U c = true) /\
  (forall c, decch c = true \/ c = c_caret \/ c = c_plus \/ c = c_minus -> u_alphabetic U c = false).

Lemma uclass_tab_alpha_ok : uclass_alpha_ok uclass_tab.
Proof.
  split; intros c H; unfold uclass_tab; cbn [u_alphabetic].
  - rewrite H. reflexivity.
  - assert (Hc : (c < 65)%N \/ c = c_caret).
    { destruct H as [H | [-> | [-> | ->]]]; [|right; reflexivity|left; cclia|left; cclia].
      left. unfold decch, is_ascii_digit in H. apply orb_prop in H as [H|H].
      - apply andb_prop in H as [_ H]. apply N.leb_le in H. lia.
      - apply N.eqb_eq in H. subst c. cclia. }
    assert (E1 : is_ascii_letter c = false).
    { unfold is_ascii_letter. destruct Hc as [Hc | ->]; [|reflexivity].
      apply orb_false_iff. split; apply andb_false_iff; left; apply N.leb_gt; lia. }
    assert (E2 : (192 <=? c)%N = false) by (apply N.leb_gt; destruct Hc as [Hc | ->]; [lia|cclia]).
    rewrite E1, E2. cbn [orb andb]. unfold in_tab, tab_alphabetic. cbn [existsb].
    repeat match goal with |- context [N.eqb c ?k] =>
      let E := fresh in destruct (N.eqb_spec c k) as [E|E];
        [exfalso; destruct Hc as [Hc|Hc]; [subst c; lia|rewrite Hc in E; discriminate E]|] end.
    reflexivity.
Qed.

(* ---- the text of a sub-language term ------------------------------------------- *)
Definition ucoef_text (c : option dec) : str := match c with None => [] | Some d => render_dec d end.
Definition upow_text (e : option str) : str := match e with None => [] | Some ds => c_caret :: ds end.
Definition uterm_text (v : N) (t : uterm) : str :=
  match t with
  | UConst d => render_dec d
  | UVar c e => ucoef_text c ++ v :: upow_text e
  end.

Lemma render_to_mterm v t : render_term (to_mterm v t) = uterm_text v t.
Proof.
  destruct t as [d|[d|] [ds|]]; unfold render_term, to_mterm, uterm_text, ucoef_text, upow_text, render_vars, render_var,
    render_expo, render_emag, render_dec; cbn [fst snd option_map flat_map render_coef sign_str d_int d_frac app];
    rewrite ?app_nil_r; reflexivity.
Qed.

Lemma firstn_len {A} (a b : list A) : firstn (length a) (a ++ b) = a.
Proof. induction a as [|x a IH]; cbn; [destruct b; reflexivity|rewrite IH; reflexivity]. Qed.
Lemma skipn_len {A} (a : list A) c b : skipn (S (length a)) (a ++ c :: b) = b.
Proof. induction a as [|x a IH]; cbn; [reflexivity|exact IH]. Qed.

Section Agree.
  Variable U : UClass.
  Hypothesis HN : uclass_num_ok U.
  Hypothesis HA : uclass_alpha_ok U.
  Variable v : N.
  Hypothesis Hv : is_ascii_letter v = true.

  Lemma v_not_decch : decch v = false.
  Proof. unfold decch. rewrite (letter_not_digit v Hv), (letter_not v c_dot Hv) by cclia. reflexivity. Qed.

  (* ---- well-formedness transfers ------------------------------------------------ *)
  Lemma wf_uterm_parts t : wf_uterm t = true ->
    match t with
    | UConst d => wf_dec d = true
    | UVar c e =>
        match c with None => True | Some d => wf_dec d = true end /\
        match e with None => True
                | Some ds => all_digits ds = true /\ ds <> [] /\ (digits_val ds <= 65535)%Z end
    end.
  Proof.
    destruct t as [d|c e]; cbn [wf_uterm]; intros H; [exact H|].
    apply andb_prop in H as [H1 H2]. split; [destruct c; [exact H1|exact I]|].
    destruct e as [ds|]; [|exact I]. apply andb_prop in H2 as [H2 H4]. apply andb_prop in H2 as [H2 H3].
    split; [exact H2|]. split; [destruct ds; [discriminate|discriminate]|apply Z.leb_le; exact H4].
  Qed.

  Lemma forallb_finite_R (l : list (name * R)) : forallb (fun vp => finite (snd vp)) l = true.
  Proof. induction l as [|x l IH]; cbn [forallb]; [reflexivity|]. rewrite finite_R, IH. reflexivity. Qed.

  Lemma to_mterm_wf neg t : wf_uterm t = true -> @wf_term R RNum (neg, to_mterm v t) = true.
  Proof.
    intros H. apply wf_uterm_parts in H. unfold wf_term. rewrite forallb_finite_R, andb_true_r.
    destruct t as [d|c e]; unfold to_mterm; cbn [fst snd].
    - cbn [wf_coef forallb andb]. rewrite H, finite_R. reflexivity.
    - destruct H as [Hc He]. cbn [forallb]. unfold wf_var. cbn [fst snd]. rewrite Hv.
      replace (match option_map CDec c with Some c0 => @wf_coef R RNum neg c0 | None => true end) with true
        by (destruct c; cbn [option_map wf_coef]; [rewrite Hc, finite_R|]; reflexivity).
      destruct e as [ds|]; cbn [option_map]; [|destruct c; reflexivity].
      destruct He as (H1 & H2 & _). unfold wf_expo, wf_dec. cbn [fst snd d_int d_frac]. rewrite H1, finite_R.
      destruct ds; [congruence|]. destruct c; reflexivity.
  Qed.

  Lemma to_msrc_wf u : wf_usrc u = true -> @wf_src R RNum (to_msrc v u) = true.
  Proof.
    unfold wf_usrc, wf_src, to_msrc. intros H. rewrite forallb_forall in H |- *.
    intros y Hy. apply in_map_iff in Hy as [x [<- Hx]]. apply to_mterm_wf, H, Hx.
  Qed.

  Lemma uterm_text_lacks_minus t : wf_uterm t = true -> lacks c_minus (uterm_text v t) = true.
  Proof.
    intros H. apply wf_uterm_parts in H. destruct t as [d|c e]; cbn [uterm_text].
    - apply render_dec_lacks; [exact H|reflexivity].
    - destruct H as [Hc He]. rewrite lacks_app. apply andb_true_intro. split.
      + unfold ucoef_text. destruct c; [apply render_dec_lacks; [exact Hc|reflexivity]|reflexivity].
      + unfold lacks, upow_text. cbn [forallb]. rewrite (letter_not v c_minus Hv) by cclia. cbn [negb andb].
        destruct e as [ds|]; [|reflexivity]. destruct He as (H1 & _). cbn [forallb].
        change (N.eqb c_caret c_minus) with false. cbn [negb andb].
        apply (digits_lack c_minus ds H1). left; cclia.
  Qed.

  (* ---- the "-" -> "+-" rewrite of the univariate parser --------------------------- *)
  Lemma m2pm_app a b : minus_to_plusminus (a ++ b) = minus_to_plusminus a ++ minus_to_plusminus b.
  Proof. unfold minus_to_plusminus. apply flat_map_app. Qed.
  Lemma m2pm_lacks a : lacks c_minus a = true -> minus_to_plusminus a = a.
  Proof.
    unfold minus_to_plusminus, lacks. induction a as [|c a IH]; cbn [flat_map forallb]; [reflexivity|].
    intros H. apply andb_prop in H as [H1 H2].
    destruct (N.eqb c c_minus); [discriminate|]. cbn [app]. rewrite (IH H2). reflexivity.
  Qed.

  Definition minus_free (src : msrc) : Prop :=
    Forall (fun x : bool * mterm => lacks c_minus (render_term (snd x)) = true) src.

  Lemma m2pm_tail rest : minus_free rest ->
    minus_to_plusminus (render_tail rest) = flat_map (fun q => c_plus :: q) (map render_signed rest).
  Proof.
    induction rest as [|[n t] rest IH]; intros H; [reflexivity|].
    inversion H as [|? ? Ht Hr]; subst. cbn [snd] in Ht.
    cbn [render_tail flat_map map fst snd]. fold (render_tail rest).
    change (((if n then c_minus else c_plus) :: render_term t) ++ render_tail rest)
      with ([if n then c_minus else c_plus] ++ render_term t ++ render_tail rest).
    rewrite !m2pm_app, (m2pm_lacks _ Ht), (IH Hr). unfold render_signed. cbn [fst snd].
    destruct n; cbn; rewrite <- ?app_assoc; reflexivity.
  Qed.

  Lemma m2pm_render lead src : minus_free src ->
    minus_to_plusminus (render lead src)
    = (if lead_plus lead src then [c_plus] else []) ++ join c_plus (map render_signed src).
  Proof.
    destruct src as [|[n t] rest]; intros H; [reflexivity|].
    inversion H as [|? ? Ht Hr]; subst. cbn [snd] in Ht.
    rewrite render_cons. cbn [map lead_plus]. rewrite join_flat.
    rewrite !m2pm_app, (m2pm_lacks _ Ht), (m2pm_tail rest Hr). unfold render_signed at 1. cbn [fst snd].
    destruct n; [|destruct lead]; cbn; rewrite <- ?app_assoc; reflexivity.
  Qed.

  Lemma to_msrc_minus_free u : wf_usrc u = true -> minus_free (to_msrc v u).
  Proof.
    unfold wf_usrc, minus_free, to_msrc. intros H. rewrite Forall_forall. intros x Hx.
    apply in_map_iff in Hx as [y [<- Hy]]. cbn [snd]. rewrite render_to_mterm.
    apply uterm_text_lacks_minus. rewrite forallb_forall in H. exact (H y Hy).
  Qed.

  (* ---- one part through simple_term ------------------------------------------------- *)
  Definition ucoef (neg : bool) (c : option dec) : R :=
    signed neg (match c with None => 1%R | Some d => dec_val d end).
  Definition upow (e : option str) : nat :=
    match e with None => 1%nat | Some ds => Z.to_nat (digits_val ds) end.
  Definition uterm_cp (x : bool * uterm) : R * nat :=
    match snd x with
    | UConst d => (signed (fst x) (dec_val d), O)
    | UVar c e => (ucoef (fst x) c, upow e)
    end.
  Definition is_var (x : bool * uterm) : bool := match snd x with UVar _ _ => true | UConst _ => false end.

  Lemma part_text x : render_signed (fst x, to_mterm v (snd x)) = sign_str (fst x) ++ uterm_text v (snd x).
  Proof. unfold render_signed. cbn [fst snd]. rewrite render_to_mterm. reflexivity. Qed.

  Lemma sign_lacks_v neg : lacks v (sign_str neg) = true.
  Proof.
    destruct neg; [|reflexivity]. unfold lacks. cbn [sign_str forallb].
    rewrite (N.eqb_sym c_minus v), (letter_not v c_minus Hv) by cclia. reflexivity.
  Qed.

  Lemma simple_term_const var neg d : wf_dec d = true -> (var = None \/ var = Some v) ->
    @simple_term R RNum var (sign_str neg ++ render_dec d) = Ok (signed neg (dec_val d), O).
  Proof.
    intros Hd Hvar. unfold simple_term. rewrite parse_dec_finite_R, (parse_dec_render neg d Hd).
    destruct Hvar as [-> | ->]; [reflexivity|].
    rewrite find_char_lacks; [reflexivity|].
    rewrite lacks_app, (render_dec_lacks d v Hd v_not_decch), sign_lacks_v. reflexivity.
  Qed.

  Lemma simple_term_var neg c e : wf_uterm (UVar c e) = true ->
    @simple_term R RNum (Some v) (sign_str neg ++ uterm_text v (UVar c e)) = Ok (ucoef neg c, upow e).
  Proof.
    intros H. apply wf_uterm_parts in H as [Hc He]. cbn [uterm_text].
    set (rc := ucoef_text c). set (rest := upow_text e).
    assert (Hl : lacks v (sign_str neg ++ rc) = true).
    { rewrite lacks_app, sign_lacks_v. unfold rc, ucoef_text.
      destruct c; [apply render_dec_lacks; [exact Hc|exact v_not_decch]|reflexivity]. }
    unfold simple_term. rewrite app_assoc, (find_char_app v _ rest Hl), firstn_len, skipn_len.
    assert (Ecoef :
      match sign_str neg ++ rc with
      | [] => Ok n1
      | [ch] => if N.eqb ch c_plus then Ok n1 else if N.eqb ch c_minus then Ok (nneg n1)
                else match parse_dec (sign_str neg ++ rc) with Some c0 => Ok c0 | None => Err EInvalidCoefficient end
      | _ :: _ :: _ => match parse_dec (sign_str neg ++ rc) with Some c0 => Ok c0 | None => Err EInvalidCoefficient end
      end = Ok (ucoef neg c)).
    { unfold rc, ucoef_text, ucoef. destruct c as [d|].
      - pose proof (parse_dec_render (T:=R) neg d Hc) as P.
        destruct (signed_dec_shape neg d Hc) as (ch & r & E & Hs). rewrite E in P |- *.
        destruct r as [|ch2 r]; [|rewrite P; reflexivity].
        destruct neg; cbn [sign_str app] in E.
        + destruct (render_dec_head d Hc) as (c0 & r0 & E0 & _). rewrite E0 in E. discriminate.
        + destruct (render_dec_head d Hc) as (c0 & r0 & E0 & Hd0). rewrite E0 in E. injection E as -> ->.
          rewrite (decch_not ch c_plus Hd0 eq_refl), (decch_not ch c_minus Hd0 eq_refl), P. reflexivity.
      - rewrite app_nil_r. destruct neg; reflexivity. }
    rewrite !parse_dec_finite_R, Ecoef. unfold rest, upow_text, upow. destruct e as [ds|]; [|reflexivity].
    destruct He as (H1 & H2 & H3). change (N.eqb c_caret c_caret) with true. cbn iota.
    unfold parse_nat_text. rewrite H1. destruct ds as [|d0 ds]; [congruence|].
    unfold MAX_POWER. destruct (Z.leb_spec (digits_val (d0 :: ds)) 65535); [reflexivity|lia].
  Qed.

  (* the variable found by the univariate parser: v, or none when no term has a variable *)
  Lemma find_pred_only w : (forall c, In c w -> c = v \/ u_alphabetic U c = false) ->
    find_pred (u_alphabetic U) w = if contains_char v w then Some v else None.
  Proof.
    induction w as [|c w IH]; intros H; [reflexivity|]. cbn [find_pred contains_char existsb].
    fold (contains_char v w).
    destruct (H c (or_introl eq_refl)) as [-> | Hc].
    - rewrite (proj1 HA v Hv), N.eqb_refl. reflexivity.
    - rewrite Hc. destruct (N.eqb_spec v c) as [-> | _].
      + rewrite (proj1 HA c Hv) in Hc. discriminate.
      + apply IH. intros c' Hc'. apply H. right; exact Hc'.
  Qed.

  Definition okch (c : N) : Prop := c = v \/ u_alphabetic U c = false.

  Lemma okch_decch s : forallb decch s = true -> forall c, In c s -> okch c.
  Proof.
    intros H c Hc. rewrite forallb_forall in H. right. apply (proj2 HA). left. exact (H c Hc).
  Qed.
  Lemma okch_digits s : all_digits s = true -> forall c, In c s -> okch c.
  Proof.
    intros H c Hc. unfold all_digits in H. rewrite forallb_forall in H. right. apply (proj2 HA). left.
    unfold decch. rewrite (H c Hc). reflexivity.
  Qed.

  Lemma okch_part x : wf_uterm (snd x) = true ->
    forall c, In c (render_signed (fst x, to_mterm v (snd x))) -> okch c.
  Proof.
    intros H c Hc. rewrite part_text in Hc. apply in_app_or in Hc as [Hc|Hc].
    - destruct (fst x); [|destruct Hc]. destruct Hc as [<-|[]]. right. apply (proj2 HA). auto.
    - apply wf_uterm_parts in H. destruct (snd x) as [d|c0 e]; cbn [uterm_text] in Hc.
      + exact (okch_decch _ (render_dec_decch d H) c Hc).
      + destruct H as [H1 H2]. apply in_app_or in Hc as [Hc|[<-|Hc]].
        * destruct c0 as [d|]; [|destruct Hc]. exact (okch_decch _ (render_dec_decch d H1) c Hc).
        * left; reflexivity.
        * destruct e as [ds|]; [|destruct Hc]. destruct Hc as [<-|Hc].
          -- right. apply (proj2 HA). auto.
          -- destruct H2 as [H2 _]. exact (okch_digits ds H2 c Hc).
  Qed.

  Lemma okch_join ps : (forall p, In p ps -> forall c, In c p -> okch c) ->
    forall c, In c (join c_plus ps) -> okch c.
  Proof.
    induction ps as [|p ps IH]; intros H c Hc; [destruct Hc|].
    destruct ps as [|q ps].
    - cbn in Hc. exact (H p (or_introl eq_refl) c Hc).
    - rewrite join_cons2 in Hc. apply in_app_or in Hc as [Hc|[<-|Hc]].
      + exact (H p (or_introl eq_refl) c Hc).
      + right. apply (proj2 HA). auto.
      + apply IH; [|exact Hc]. intros p' Hp'. apply H. right; exact Hp'.
  Qed.

  Lemma contains_join c ps : contains_char c (join c_plus ps) = false ->
    forall p, In p ps -> contains_char c p = false.
  Proof.
    induction ps as [|q ps IH]; intros H p Hp; [destruct Hp|].
    destruct ps as [|q' ps].
    - cbn in H. destruct Hp as [<-|[]]. exact H.
    - rewrite join_cons2, contains_app in H. apply orb_false_iff in H as [H1 H2].
      cbn [contains_char existsb] in H2. apply orb_false_iff in H2 as [_ H2].
      destruct Hp as [<-|Hp]; [exact H1|]. exact (IH H2 p Hp).
  Qed.

  (* ---- all parts ---------------------------------------------------------------------- *)
  Lemma simple_terms u (var : option N) : wf_usrc u = true ->
    (var = Some v \/ (var = None /\ forallb (fun x => negb (is_var x)) u = true)) ->
    mapM (@simple_term R RNum var) (map render_signed (to_msrc v u)) = Ok (map uterm_cp u).
  Proof.
    intros Hw Hvar. unfold to_msrc. rewrite map_map.
    apply (mapM_map_ok (@simple_term R RNum var) (fun x => render_signed (fst x, to_mterm v (snd x))) uterm_cp).
    intros x Hx. unfold wf_usrc in Hw. rewrite forallb_forall in Hw. specialize (Hw x Hx).
    rewrite part_text. unfold uterm_cp. destruct x as [neg t]. cbn [fst snd] in *.
    destruct t as [d|c e].
    - cbn [uterm_text]. apply simple_term_const; [exact Hw|]. destruct Hvar as [-> | [-> _]]; auto.
    - destruct Hvar as [-> | [_ Hn]].
      + apply simple_term_var. exact Hw.
      + rewrite forallb_forall in Hn. specialize (Hn _ Hx). discriminate Hn.
  Qed.

  (* ---- dense coefficients: value of the univariate polynomial ---------------------------- *)
  Local Open Scope R_scope.

  Fixpoint psum (x : R) (i : nat) (cs : list R) : R :=
    match cs with [] => 0 | c :: cs' => c * x ^ i + psum x (S i) cs' end.
  Definition tsum (x : R) (ts : list (R * nat)) : R :=
    fold_right Rplus 0 (map (fun t => fst t * x ^ snd t) ts).

  Lemma fold_left_Rplus_acc l : forall a, fold_left Rplus l a = a + fold_right Rplus 0 l.
  Proof.
    induction l as [|y l IH]; intros a; cbn; [ring|]. rewrite IH. ring.
  Qed.
  Lemma eval_terms_from_psum x cs : forall i,
    fold_right Rplus 0 (eval_terms_from x i cs) = psum x i cs.
  Proof.
    induction cs as [|c cs IH]; intros i; cbn [eval_terms_from fold_right psum]; [reflexivity|].
    rewrite IH, npowi_R_nat. reflexivity.
  Qed.
  Lemma eval_simple_psum (p : spoly R) x : eval_simple p x = psum x 0 (s_coefs p).
  Proof.
    unfold eval_simple. cbn [nadd nsum0 RNum]. rewrite fold_left_Rplus_acc, eval_terms_from_psum. ring.
  Qed.

  Lemma psum_add_at x cs : forall i p c, (p < length cs)%nat ->
    psum x i (add_at cs p c) = psum x i cs + c * x ^ (i + p).
  Proof.
    induction cs as [|y cs IH]; intros i p c Hp; [cbn in Hp; lia|].
    destruct p as [|p]; cbn [add_at psum].
    - cbn [nadd RNum]. rewrite Nat.add_0_r. ring.
    - rewrite IH by (cbn in Hp; lia). replace (S i + p)%nat with (i + S p)%nat by lia. ring.
  Qed.
  Lemma add_at_length (cs : list R) : forall p c, length (add_at cs p c) = length cs.
  Proof.
    induction cs as [|y cs IH]; intros p c; [reflexivity|]. destruct p; cbn; [reflexivity|].
    rewrite IH. reflexivity.
  Qed.
  Lemma psum_repeat0 x n : forall i, psum x i (repeat 0 n) = 0.
  Proof. induction n as [|n IH]; intros i; cbn; [reflexivity|]. rewrite IH. ring. Qed.

  Lemma psum_fold x (ts : list (R * nat)) : forall cs,
    (forall t, In t ts -> (snd t < length cs)%nat) ->
    psum x 0 (fold_left (fun cs t => add_at cs (snd t) (fst t)) ts cs) = psum x 0 cs + tsum x ts.
  Proof.
    induction ts as [|t ts IH]; intros cs H; cbn [fold_left].
    - unfold tsum. cbn. ring.
    - rewrite IH.
      + rewrite psum_add_at by (apply H; left; reflexivity). unfold tsum. cbn [map fold_right plus]. ring.
      + intros t' Ht'. rewrite add_at_length. apply H. right; exact Ht'.
  Qed.

  Lemma max_power_ge (ts : list (R * nat)) : forall m t, In t ts ->
    (snd t <= fold_left (fun m t => Nat.max m (snd t)) ts m)%nat.
  Proof.
    induction ts as [|y ts IH]; intros m t Ht; [destruct Ht|]. cbn [fold_left].
    destruct Ht as [-> | Ht]; [|exact (IH _ t Ht)].
    clear IH. generalize (Nat.max m (snd t)) (Nat.le_max_r m (snd t)). revert ts.
    induction ts as [|z ts IH]; intros k Hk; cbn [fold_left]; [exact Hk|].
    apply IH. lia.
  Qed.
  Lemma max_power_le (ts : list (R * nat)) b : forall m, (m <= b)%nat ->
    (forall t, In t ts -> (snd t <= b)%nat) -> (fold_left (fun m t => Nat.max m (snd t)) ts m <= b)%nat.
  Proof.
    induction ts as [|y ts IH]; intros m Hm H; cbn [fold_left]; [exact Hm|].
    apply IH; [|intros t Ht; apply H; right; exact Ht].
    pose proof (H y (or_introl eq_refl)). lia.
  Qed.

  Lemma dense_value x (ts : list (R * nat)) : psum x 0 (dense_coeffs ts) = tsum x ts.
  Proof.
    unfold dense_coeffs. rewrite psum_fold.
    - rewrite (psum_repeat0 x). ring.
    - intros t Ht. rewrite repeat_length. unfold max_power_of.
      pose proof (max_power_ge ts 0%nat t Ht). lia.
  Qed.

  Lemma upow_le x : wf_uterm (snd x) = true -> (snd (uterm_cp x) <= Z.to_nat 65535)%nat.
  Proof.
    intros H. apply wf_uterm_parts in H. unfold uterm_cp. destruct (snd x) as [d|c e]; cbn [snd]; [lia|].
    destruct H as [_ H]. destruct e as [ds|]; cbn [upow]; [|lia].
    destruct H as (H1 & _ & H3). pose proof (digits_val_nonneg ds H1). lia.
  Qed.

  Lemma sums_finite_R (ts : list (R * nat)) : sums_finite ts = true.
  Proof.
    unfold sums_finite. generalize (repeat (@n0 R RNum) (S (max_power_of ts))).
    assert (G : forall (l : list (R * nat)) (st : list R * bool), snd st = true ->
      snd (fold_left (fun (st : list R * bool) t =>
             let cs' := add_at (fst st) (snd t) (fst t) in
             (cs', snd st && is_finite (nth (snd t) cs' n0))) l st) = true).
    { induction l as [|t l IH]; intros st Hst; cbn [fold_left]; [exact Hst|].
      apply IH. cbn [snd]. rewrite Hst, is_finite_R. reflexivity. }
    intros cs. apply G. reflexivity.
  Qed.

  Lemma dense_checked u : wf_usrc u = true ->
    dense_coeffs_checked (map uterm_cp u) = Ok (dense_coeffs (map uterm_cp u)).
  Proof.
    intros Hw. unfold dense_coeffs_checked.
    assert (Hm : (max_power_of (map uterm_cp u) <= Z.to_nat 65535)%nat).
    { unfold max_power_of. apply max_power_le; [lia|]. intros t Ht.
      apply in_map_iff in Ht as [x [<- Hx]]. apply upow_le.
      unfold wf_usrc in Hw. rewrite forallb_forall in Hw. exact (Hw x Hx). }
    set (m := max_power_of (map uterm_cp u)) in *.
    change (2 ^ 64)%Z with 18446744073709551616%Z. change (2 ^ 63 - 1)%Z with 9223372036854775807%Z.
    destruct (Z.leb_spec 18446744073709551616 (Z.of_nat m + 1)); [lia|].
    destruct (Z.ltb_spec 9223372036854775807 ((Z.of_nat m + 1) * 8)); [lia|].
    rewrite sums_finite_R. reflexivity.
  Qed.

  (* ---- the multivariate side ------------------------------------------------------------- *)
  Definition has_var (u : usrc) : bool := existsb is_var u.

  Lemma letters_to_msrc u :
    letter_set (letters_of (to_msrc v u)) = if has_var u then [v] else [].
  Proof.
    induction u as [|[neg t] u IH]; [reflexivity|].
    unfold letters_of, to_msrc in *. cbn [map flat_map fst snd]. unfold letter_set in *.
    rewrite fold_right_app, IH. unfold has_var. cbn [existsb]. fold (has_var u).
    destruct t as [d|c e]; cbn [to_mterm snd map fold_right is_var orb]; [reflexivity|].
    destruct (has_var u); cbn [insert_letter]; rewrite ?N.ltb_irrefl, ?N.eqb_refl; reflexivity.
  Qed.

  Definition uenv (u : usrc) (x : R) : env R := if has_var u then [([v], x)] else [].

  Lemma i_eval_to_msrc u x :
    i_eval_univariate {| i_terms := @terms_of R RNum (to_msrc v u); i_vars := vars_of (to_msrc v u) |} x
    = eval_inter (@terms_of R RNum (to_msrc v u)) (uenv u x).
  Proof.
    unfold i_eval_univariate, vars_of, uenv. cbn [i_vars i_terms]. rewrite letters_to_msrc.
    destruct (has_var u); reflexivity.
  Qed.

  Lemma canon_single (e : R) : canon_vars [(v, e)] = [([v], e)].
  Proof.
    unfold canon_vars, letter_set, exps_of. cbn [map fst fold_right insert_letter filter].
    rewrite N.eqb_refl. reflexivity.
  Qed.

  Lemma term_of_to_mterm neg t :
    @term_of R RNum (neg, to_mterm v t) =
    match t with
    | UConst d => {| t_coef := signed neg (dec_val d); t_vars := [] |}
    | UVar c e => {| t_coef := ucoef neg c;
                     t_vars := [([v], match e with None => 1 | Some ds => IZR (digits_val ds) end)] |}
    end.
  Proof.
    destruct t as [d|c e]; unfold term_of, to_mterm; cbn [fst snd map].
    - reflexivity.
    - unfold var_val. cbn [fst snd]. rewrite canon_single. f_equal.
      + destruct c; reflexivity.
      + destruct e as [ds|]; cbn [option_map]; [|reflexivity].
        unfold expo_val, dec_val. cbn [fst snd signed d_int d_frac nofdec RNum powerRZ]. rewrite Rmult_1_r. reflexivity.
  Qed.

  Lemma term_value_to_mterm u x y : In y u -> wf_uterm (snd y) = true ->
    term_value (uenv u x) (@term_of R RNum (fst y, to_mterm v (snd y)))
    = fst (uterm_cp y) * x ^ snd (uterm_cp y).
  Proof.
    intros Hy Hw. destruct y as [neg t]. cbn [fst snd]. rewrite term_of_to_mterm.
    unfold term_value, uterm_cp, vars_prod. cbn [fst snd]. destruct t as [d|c e]; cbn [t_coef t_vars fold_right].
    - cbn [fst snd pow]. ring.
    - assert (Hh : has_var u = true).
      { unfold has_var. apply existsb_exists. exists (neg, UVar c e). split; [exact Hy|reflexivity]. }
      unfold uenv. rewrite Hh. unfold env_val. cbn [fst snd]. rewrite lookup_single.
      apply wf_uterm_parts in Hw as [_ He]. destruct e as [ds|]; cbn [upow].
      + destruct He as (H1 & _). pose proof (digits_val_nonneg ds H1) as Hn.
        rewrite <- (Z2Nat.id (digits_val ds) Hn) at 1. rewrite Rpowf_nat. ring.
      + rewrite Rpowf_1. cbn [pow]. ring.
  Qed.

  Lemma all_bound_to_msrc u x : all_bound (uenv u x) (@terms_of R RNum (to_msrc v u)).
  Proof.
    intros t w q Ht Hq. unfold terms_of, to_msrc in Ht. rewrite map_map in Ht.
    apply in_map_iff in Ht as [[neg ut] [<- Hy]]. cbn [fst snd] in Hq. rewrite term_of_to_mterm in Hq.
    destruct ut as [d|c e]; cbn [t_vars] in Hq; [destruct Hq|]. destruct Hq as [Hq|[]]. injection Hq as <- _.
    assert (Hh : has_var u = true).
    { unfold has_var. apply existsb_exists. exists (neg, UVar c e). split; [exact Hy|reflexivity]. }
    unfold uenv. rewrite Hh, lookup_single. discriminate.
  Qed.

  Lemma poly_value_to_msrc u x : wf_usrc u = true ->
    poly_value (uenv u x) (@terms_of R RNum (to_msrc v u)) = tsum x (map uterm_cp u).
  Proof.
    intros Hw. unfold poly_value, tsum, terms_of, to_msrc. rewrite !map_map. f_equal.
    apply map_ext_in. intros y Hy. cbn [fst snd]. apply term_value_to_mterm; [exact Hy|].
    unfold wf_usrc in Hw. rewrite forallb_forall in Hw. exact (Hw y Hy).
  Qed.

  (* =========================== C02: agreement ============================================ *)
  Theorem agree_univariate : forall (u : usrc) (lead : bool) (s : str) (x : R),
    wf_usrc u = true -> strip_ws s = render lead (to_msrc v u) ->
    exists (p : spoly R) (q : ipoly R),
      parse_simple U s = Ok p /\ parse_inter U s = Ok q /\
      i_eval_univariate q x = Ok (eval_simple p x) /\ eval_simple p x = tsum x (map uterm_cp u).
  Proof.
    intros u lead s x Hw Hs.
    pose proof (to_msrc_wf u Hw) as Hwf.
    set (src := to_msrc v u) in *.
    set (var := find_pred (u_alphabetic U) (minus_to_plusminus (strip_ws s))).
    set (terms := map uterm_cp u).
    assert (Enorm : minus_to_plusminus (strip_ws s)
                    = (if lead_plus lead src then [c_plus] else []) ++ join c_plus (map render_signed src)).
    { rewrite Hs. apply m2pm_render, to_msrc_minus_free, Hw. }
    assert (Hvar : var = Some v \/ (var = None /\ forallb (fun y => negb (is_var y)) u = true)).
    { unfold var. rewrite find_pred_only.
      - destruct (contains_char v (minus_to_plusminus (strip_ws s))) eqn:Ec; [left; reflexivity|right].
        split; [reflexivity|]. apply forallb_forall. intros y Hy.
        destruct y as [neg [d|c e]]; [reflexivity|]. exfalso.
        rewrite Enorm, contains_app in Ec. apply orb_false_iff in Ec as [_ Ec].
        pose proof (contains_join v _ Ec (render_signed (neg, to_mterm v (UVar c e)))) as Hc.
        pose proof (part_text (neg, UVar c e)) as Pt. cbn [fst snd] in Pt.
        assert (Ht : contains_char v (render_signed (neg, to_mterm v (UVar c e))) = true).
        { rewrite Pt. cbn [uterm_text]. unfold contains_char. apply existsb_exists. exists v.
          split; [|apply N.eqb_refl]. apply in_or_app; right. apply in_or_app; right. left; reflexivity. }
        rewrite Hc in Ht; [discriminate|].
        unfold src, to_msrc. rewrite map_map. apply in_map_iff. exists (neg, UVar c e). split; [reflexivity|exact Hy].
      - rewrite Enorm. intros c Hc. apply in_app_or in Hc as [Hc|Hc].
        + destruct (lead_plus lead src); [|destruct Hc]. destruct Hc as [<-|[]]. right. apply (proj2 HA). auto.
        + revert c Hc. apply okch_join. intros p Hp. unfold src, to_msrc in Hp. rewrite map_map in Hp.
          apply in_map_iff in Hp as [y [<- Hy]]. apply okch_part.
          unfold wf_usrc in Hw. rewrite forallb_forall in Hw. exact (Hw y Hy). }
    assert (Eparts : drop_leading_empty (split_on c_plus (minus_to_plusminus (strip_ws s))) = map render_signed src).
    { rewrite Enorm. apply (parts_of_normal (T:=R)); [exact Hwf|intros ->; reflexivity]. }
    assert (Eb : existsb bad_part (map render_signed src) = false).
    { pose proof (proj1 (wf_src_Forall src) Hwf) as HF. rewrite Forall_forall in HF.
      destruct (existsb bad_part (map render_signed src)) eqn:E; [|reflexivity].
      apply existsb_exists in E as [p [Hp Hb]]. apply in_map_iff in Hp as [y [<- Hy]].
      rewrite (render_signed_good y (HF y Hy)) in Hb. discriminate. }
    exists {| s_coefs := dense_coeffs terms; s_var := var |},
           {| i_terms := @terms_of R RNum src; i_vars := vars_of src |}.
    assert (Hev : eval_simple {| s_coefs := dense_coeffs terms; s_var := var |} x = tsum x terms).
    { rewrite eval_simple_psum. cbn [s_coefs]. apply dense_value. }
    split; [|split; [|split]].
    - unfold parse_simple. fold var. rewrite Eparts, Eb.
      unfold src. rewrite (simple_terms u var Hw Hvar). fold terms.
      unfold terms. rewrite (dense_checked u Hw). reflexivity.
    - apply (accept_canonical (T:=R) U src lead s HN Hwf Hs).
    - unfold src. rewrite i_eval_to_msrc, (eval_value _ _ (all_bound_to_msrc u x)), (poly_value_to_msrc u x Hw).
      fold terms. rewrite Hev. reflexivity.
    - exact Hev.
  Qed.
End Agree.
