(* Proofs/HessenReflector.v — C14, layers 1 and 2:
   finite sums on R, pointwise matrix algebra below a dimension, the abstract
   Householder reflector  I - tau w w^T  with  tau (w^T w) = 2, and the facts
   about the (v, tau) that the code computes. *)
From Coq Require Import ZArith List Bool Arith Reals Lra Lia Morphisms Setoid.
From SV Require Import Base.Num Base.Outcome Base.Mat Model.Hessen.
Import ListNotations.
Local Open Scope R_scope.

(* ---------------- finite sums ------------------------------------------------ *)
Fixpoint Rsum (f : nat -> R) (n : nat) : R :=
  match n with
  | O => 0
  | S n' => Rsum f n' + f n'
  end.

Lemma Rsum_ext f g n : (forall i, (i < n)%nat -> f i = g i) -> Rsum f n = Rsum g n.
Proof.
  induction n as [|n IH]; intro H; [reflexivity|].
  cbn [Rsum]. rewrite IH by (intros i Hi; apply H; lia). rewrite (H n) by lia. reflexivity.
Qed.

Lemma Rsum_zero f n : (forall i, (i < n)%nat -> f i = 0) -> Rsum f n = 0.
Proof.
  induction n as [|n IH]; intro H; [reflexivity|].
  cbn [Rsum]. rewrite IH by (intros i Hi; apply H; lia). rewrite (H n) by lia. ring.
Qed.

Lemma Rsum_plus f g n : Rsum (fun i => f i + g i) n = Rsum f n + Rsum g n.
Proof. induction n as [|n IH]; cbn [Rsum]; [ring|rewrite IH; ring]. Qed.

Lemma Rsum_minus f g n : Rsum (fun i => f i - g i) n = Rsum f n - Rsum g n.
Proof. induction n as [|n IH]; cbn [Rsum]; [ring|rewrite IH; ring]. Qed.

Lemma Rsum_scal c f n : Rsum (fun i => c * f i) n = c * Rsum f n.
Proof. induction n as [|n IH]; cbn [Rsum]; [ring|rewrite IH; ring]. Qed.

Lemma Rsum_scal_r c f n : Rsum (fun i => f i * c) n = Rsum f n * c.
Proof. induction n as [|n IH]; cbn [Rsum]; [ring|rewrite IH; ring]. Qed.

Lemma Rsum_swap (f : nat -> nat -> R) n m :
  Rsum (fun i => Rsum (fun j => f i j) m) n = Rsum (fun j => Rsum (fun i => f i j) n) m.
Proof.
  induction n as [|n IH]; cbn [Rsum].
  - symmetry. apply Rsum_zero. reflexivity.
  - rewrite IH, <- Rsum_plus. reflexivity.
Qed.

Lemma Rsum_split f a b : Rsum f (a + b) = Rsum f a + Rsum (fun i => f (a + i)%nat) b.
Proof.
  induction b as [|b IH].
  - rewrite Nat.add_0_r. cbn [Rsum]. ring.
  - replace (a + S b)%nat with (S (a + b)) by lia. cbn [Rsum]. rewrite IH. ring.
Qed.

Lemma Rsum_delta i f n : (i < n)%nat ->
  Rsum (fun t => (if i =? t then 1 else 0) * f t) n = f i.
Proof.
  induction n as [|n IH]; intro Hi; [lia|].
  cbn [Rsum]. destruct (Nat.eqb_spec i n) as [E|E].
  - subst n. rewrite Rsum_zero; [ring|].
    intros t Ht. destruct (Nat.eqb_spec i t); [lia|ring].
  - rewrite IH by lia. ring.
Qed.

Lemma Rsum_delta_r j f n : (j < n)%nat ->
  Rsum (fun t => f t * (if t =? j then 1 else 0)) n = f j.
Proof.
  intro Hj. rewrite <- (Rsum_delta j f n Hj). apply Rsum_ext. intros t _.
  rewrite (Nat.eqb_sym t j). ring.
Qed.

Lemma Rsum_sq_nonneg f n : 0 <= Rsum (fun i => f i * f i) n.
Proof.
  induction n as [|n IH]; cbn [Rsum]; [lra|].
  pose proof (Rle_0_sqr (f n)) as H. unfold Rsqr in H. lra.
Qed.

Lemma Rsum_sq_zero f n : Rsum (fun i => f i * f i) n = 0 -> forall i, (i < n)%nat -> f i = 0.
Proof.
  induction n as [|n IH]; intros H i Hi; [lia|].
  cbn [Rsum] in H.
  pose proof (Rsum_sq_nonneg f n) as H1.
  pose proof (Rle_0_sqr (f n)) as H2. unfold Rsqr in H2.
  assert (E1 : Rsum (fun i => f i * f i) n = 0) by lra.
  assert (E2 : f n * f n = 0) by lra.
  destruct (Nat.eq_dec i n) as [->|Hne].
  - apply Rmult_integral in E2. destruct E2; assumption.
  - apply IH; [exact E1|lia].
Qed.

(* the model's accumulation loops are these sums *)
Lemma sum_range_R (init : R) lo len (f : nat -> R) :
  sum_range init lo len f = init + Rsum (fun i => f (lo + i)%nat) len.
Proof.
  unfold sum_range. induction len as [|len IH].
  - cbn. ring.
  - rewrite for_range_S, IH. cbn [Rsum nadd RNum]. ring.
Qed.

(* ---------------- pointwise matrix algebra below dimension n ----------------- *)
Definition Rmm (n : nat) (A B : mat R) : mat R := fun i j => Rsum (fun t => A i t * B t j) n.
Definition meq (n : nat) (A B : mat R) : Prop :=
  forall i j, (i < n)%nat -> (j < n)%nat -> A i j = B i j.
Definition RI : mat R := midentity.
Definition Rtr (A : mat R) : mat R := mtranspose A.

Lemma RI_eq i j : RI i j = if i =? j then 1 else 0.
Proof. reflexivity. Qed.

#[export] Instance meq_equiv n : Equivalence (meq n).
Proof.
  split.
  - intros A i j _ _. reflexivity.
  - intros A B H i j Hi Hj. symmetry. now apply H.
  - intros A B C H1 H2 i j Hi Hj. rewrite H1 by assumption. now apply H2.
Qed.

#[export] Instance Rmm_proper n : Proper (meq n ==> meq n ==> meq n) (Rmm n).
Proof.
  intros A A' HA B B' HB i j Hi Hj. unfold Rmm. apply Rsum_ext. intros t Ht.
  rewrite HA, HB by assumption. reflexivity.
Qed.

#[export] Instance Rtr_proper n : Proper (meq n ==> meq n) Rtr.
Proof. intros A A' HA i j Hi Hj. unfold Rtr, mtranspose. now apply HA. Qed.

Lemma Rmm_assoc n A B C : meq n (Rmm n (Rmm n A B) C) (Rmm n A (Rmm n B C)).
Proof.
  intros i j _ _. unfold Rmm.
  transitivity (Rsum (fun t => Rsum (fun s => A i s * B s t * C t j) n) n).
  - apply Rsum_ext. intros t _. rewrite <- Rsum_scal_r. reflexivity.
  - rewrite Rsum_swap. apply Rsum_ext. intros s _. rewrite <- Rsum_scal.
    apply Rsum_ext. intros t _. ring.
Qed.

Lemma Rmm_I_l n A : meq n (Rmm n RI A) A.
Proof. intros i j Hi _. unfold Rmm. apply (Rsum_delta i (fun t => A t j) n Hi). Qed.

Lemma Rmm_I_r n A : meq n (Rmm n A RI) A.
Proof. intros i j _ Hj. unfold Rmm. apply (Rsum_delta_r j (fun t => A i t) n Hj). Qed.

Lemma Rtr_mm n A B : meq n (Rtr (Rmm n A B)) (Rmm n (Rtr B) (Rtr A)).
Proof.
  intros i j _ _. unfold Rtr, mtranspose, Rmm. apply Rsum_ext. intros t _. ring.
Qed.

Lemma Rtr_tr n A : meq n (Rtr (Rtr A)) A.
Proof. intros i j _ _. reflexivity. Qed.

Lemma Rtr_I n : meq n (Rtr RI) RI.
Proof. intros i j _ _. unfold Rtr, mtranspose. rewrite !RI_eq, Nat.eqb_sym. reflexivity. Qed.

(* trace *)
Definition Rtrace (n : nat) (A : mat R) : R := Rsum (fun i => A i i) n.

#[export] Instance Rtrace_proper n : Proper (meq n ==> eq) (Rtrace n).
Proof. intros A B H. unfold Rtrace. apply Rsum_ext. intros i Hi. now apply H. Qed.

Lemma Rtrace_comm n A B : Rtrace n (Rmm n A B) = Rtrace n (Rmm n B A).
Proof.
  unfold Rtrace, Rmm. rewrite Rsum_swap. apply Rsum_ext. intros i _.
  apply Rsum_ext. intros t _. ring.
Qed.

(* ---------------- the abstract reflector  I - tau w w^T ---------------------- *)
Definition refl (tau : R) (w : nat -> R) : mat R := fun i j => RI i j - tau * w i * w j.

Lemma refl_sym tau w i j : refl tau w i j = refl tau w j i.
Proof. unfold refl. rewrite !RI_eq, (Nat.eqb_sym i j). ring. Qed.

Lemma refl_tr n tau w : meq n (Rtr (refl tau w)) (refl tau w).
Proof. intros i j _ _. unfold Rtr, mtranspose. apply refl_sym. Qed.

Lemma refl_mul_l n tau w M i j : (i < n)%nat ->
  Rmm n (refl tau w) M i j = M i j - tau * w i * Rsum (fun t => w t * M t j) n.
Proof.
  intro Hi. unfold Rmm, refl.
  transitivity (Rsum (fun t => (if i =? t then 1 else 0) * M t j - (tau * w i) * (w t * M t j)) n).
  - apply Rsum_ext. intros t _. rewrite RI_eq. ring.
  - rewrite Rsum_minus, Rsum_scal, (Rsum_delta i (fun t => M t j) n Hi). ring.
Qed.

Lemma refl_mul_r n tau w M i j : (j < n)%nat ->
  Rmm n M (refl tau w) i j = M i j - tau * Rsum (fun t => M i t * w t) n * w j.
Proof.
  intro Hj. unfold Rmm, refl.
  transitivity (Rsum (fun t => M i t * (if t =? j then 1 else 0) - (M i t * w t) * (tau * w j)) n).
  - apply Rsum_ext. intros t _. rewrite RI_eq. ring.
  - rewrite Rsum_minus, Rsum_scal_r, (Rsum_delta_r j (fun t => M i t) n Hj). ring.
Qed.

Lemma refl_invol n tau w :
  tau * Rsum (fun t => w t * w t) n = 2 -> meq n (Rmm n (refl tau w) (refl tau w)) RI.
Proof.
  intros Htau i j Hi Hj. rewrite refl_mul_l by exact Hi.
  assert (E : Rsum (fun t => w t * refl tau w t j) n = w j - tau * w j * Rsum (fun t => w t * w t) n).
  { unfold refl.
    transitivity (Rsum (fun t => w t * (if t =? j then 1 else 0) - (w t * w t) * (tau * w j)) n).
    - apply Rsum_ext. intros t _. rewrite RI_eq. ring.
    - rewrite Rsum_minus, Rsum_scal_r, (Rsum_delta_r j w n Hj). ring. }
  rewrite E. unfold refl.
  set (S := Rsum (fun t => w t * w t) n) in *.
  replace (RI i j - tau * w i * w j - tau * w i * (w j - tau * w j * S))
    with (RI i j - tau * w i * w j * (2 - tau * S)) by ring.
  rewrite Htau. ring.
Qed.

(* an orthogonal similarity by an involutive symmetric P keeps the two identities *)
Section Similarity.
  Variables (n : nat) (P : mat R).
  Hypothesis Ptr : meq n (Rtr P) P.
  Hypothesis PP : meq n (Rmm n P P) RI.

  Lemma PP_cancel X : meq n (Rmm n P (Rmm n P X)) X.
  Proof. rewrite <- Rmm_assoc, PP. apply Rmm_I_l. Qed.

  Lemma sim_orth q q' :
    meq n (Rmm n (Rtr q) q) RI -> meq n q' (Rmm n q P) -> meq n (Rmm n (Rtr q') q') RI.
  Proof.
    intros Hq Hq'. rewrite Hq', Rtr_mm, Ptr.
    rewrite Rmm_assoc. rewrite <- (Rmm_assoc n (Rtr q) q P). rewrite Hq, Rmm_I_l. exact PP.
  Qed.

  Lemma sim_sim q h A q' h' :
    meq n (Rmm n (Rmm n q h) (Rtr q)) A ->
    meq n q' (Rmm n q P) -> meq n h' (Rmm n (Rmm n P h) P) ->
    meq n (Rmm n (Rmm n q' h') (Rtr q')) A.
  Proof.
    intros HA Hq' Hh'. rewrite Hq', Hh', Rtr_mm, Ptr.
    rewrite !Rmm_assoc. rewrite !PP_cancel. rewrite <- !Rmm_assoc. exact HA.
  Qed.
End Similarity.

(* ---------------- the reflector computed by the code ------------------------- *)
Lemma hh_sign_R a : hh_sign a = if Rle_dec 0 a then -1 else 1.
Proof.
  unfold hh_sign, ngeb. cbn [nleb n0 n1 nneg RNum]. unfold Rleb.
  destruct (Rle_dec 0 a); reflexivity.
Qed.

Section Computed.
  Variables (m : nat) (x : nat -> R).
  Let s := Rsum (fun i => x i * x i) m.
  Let nu := sqrt s.
  Let a := x 0%nat.
  Let sg := hh_sign a.
  Let u1 := hh_u1 a nu.
  Let v := fun i : nat => if i =? 0 then 1 else x i / u1.
  Let tau := hh_tau a nu.
  Hypothesis Hnz : nu <> 0.

  Lemma cmp_m_pos : (0 < m)%nat.
  Proof.
    destruct (Nat.eq_dec m 0) as [E|E]; [|lia].
    exfalso. apply Hnz. unfold nu, s. rewrite E. cbn [Rsum]. apply sqrt_0.
  Qed.

  Lemma cmp_nu_pos : 0 < nu.
  Proof. pose proof (sqrt_pos s). unfold nu in *. lra. Qed.

  Lemma cmp_nu_sq : nu * nu = s.
  Proof. unfold nu. apply sqrt_sqrt. apply Rsum_sq_nonneg. Qed.

  Let S' := Rsum (fun i => x (1 + i)%nat * x (1 + i)%nat) (m - 1).

  Lemma cmp_s_split : s = a * a + S'.
  Proof.
    unfold s, S', a. pose proof cmp_m_pos as Hm.
    replace m with (1 + (m - 1))%nat at 1 by lia.
    rewrite Rsum_split. cbn [Rsum]. ring.
  Qed.

  Lemma cmp_sg_cases : (0 <= a /\ sg = -1) \/ (a < 0 /\ sg = 1).
  Proof.
    unfold sg. rewrite hh_sign_R. destruct (Rle_dec 0 a) as [H|H]; [left|right]; split; try reflexivity; lra.
  Qed.

  Lemma cmp_u1_eq : u1 = a - sg * nu.
  Proof. reflexivity. Qed.

  Lemma cmp_tau_eq : tau = - sg * u1 / nu.
  Proof. reflexivity. Qed.

  Lemma cmp_u1_nz : u1 <> 0.
  Proof.
    rewrite cmp_u1_eq. pose proof cmp_nu_pos. destruct cmp_sg_cases as [[H1 ->]|[H1 ->]]; lra.
  Qed.

  Lemma cmp_vv : Rsum (fun i => v i * v i) m = 1 + S' / (u1 * u1).
  Proof.
    pose proof cmp_m_pos as Hm. pose proof cmp_u1_nz as Hu.
    replace m with (1 + (m - 1))%nat at 1 by lia.
    rewrite Rsum_split. cbn [Rsum]. unfold v at 1 2. cbn [Nat.eqb].
    unfold S'. unfold Rdiv. rewrite <- Rsum_scal_r.
    replace (0 + 1 * 1) with 1 by ring. f_equal.
    apply Rsum_ext. intros i _. unfold v. cbn [Nat.add Nat.eqb]. field. exact Hu.
  Qed.

  Lemma cmp_vx : Rsum (fun i => v i * x i) m = a + S' / u1.
  Proof.
    pose proof cmp_m_pos as Hm. pose proof cmp_u1_nz as Hu.
    replace m with (1 + (m - 1))%nat at 1 by lia.
    rewrite Rsum_split. cbn [Rsum]. unfold v at 1. cbn [Nat.eqb].
    unfold S'. unfold Rdiv. rewrite <- Rsum_scal_r. fold a.
    replace (0 + 1 * a) with a by ring. f_equal.
    apply Rsum_ext. intros i _. unfold v. cbn [Nat.add Nat.eqb]. field. exact Hu.
  Qed.

  Lemma cmp_S'_eq : S' = nu * nu - a * a.
  Proof. rewrite cmp_nu_sq, cmp_s_split. ring. Qed.

  (* tau = 2 / (v^T v) *)
  Lemma cmp_tau_vv : tau * Rsum (fun i => v i * v i) m = 2.
  Proof.
    rewrite cmp_vv, cmp_S'_eq, cmp_tau_eq. pose proof cmp_u1_nz as Hu. rewrite cmp_u1_eq in *.
    pose proof cmp_nu_pos as Hn.
    destruct cmp_sg_cases as [[H1 E]|[H1 E]]; rewrite E in *; field; split; lra.
  Qed.

  (* tau (v^T x) = u1 *)
  Lemma cmp_tau_vx : tau * Rsum (fun i => v i * x i) m = u1.
  Proof.
    rewrite cmp_vx, cmp_S'_eq, cmp_tau_eq. pose proof cmp_u1_nz as Hu. rewrite cmp_u1_eq in *.
    pose proof cmp_nu_pos as Hn.
    destruct cmp_sg_cases as [[H1 E]|[H1 E]]; rewrite E in *; field; split; lra.
  Qed.

  (* (H x)_i = x_i - tau v_i (v^T x):  first entry sg*nu, the others 0 *)
  Lemma cmp_Hx_first : x 0%nat - tau * v 0%nat * Rsum (fun i => v i * x i) m = sg * nu.
  Proof.
    replace (x 0%nat - tau * v 0%nat * Rsum (fun i => v i * x i) m)
      with (x 0%nat - v 0%nat * (tau * Rsum (fun i => v i * x i) m)) by ring.
    rewrite cmp_tau_vx. unfold v. cbn [Nat.eqb]. rewrite cmp_u1_eq. fold a. ring.
  Qed.

  Lemma cmp_Hx_rest i : (0 < i)%nat -> x i - tau * v i * Rsum (fun t => v t * x t) m = 0.
  Proof.
    intro Hi.
    replace (x i - tau * v i * Rsum (fun t => v t * x t) m)
      with (x i - v i * (tau * Rsum (fun t => v t * x t) m)) by ring.
    rewrite cmp_tau_vx. unfold v. destruct (Nat.eqb_spec i 0) as [E|_]; [lia|].
    field. exact cmp_u1_nz.
  Qed.
End Computed.
