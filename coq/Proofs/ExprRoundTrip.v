(* Proofs/ExprRoundTrip.v — C19, clause 4: Display (Expr::render) inverts the parser.
   For every number-free tree e of the shape the parser produces ([wf]: one-letter variables other than
   e / E, constants, functions, prefix minus, postfix !, + - * / % ^ with ANY paren flags), the printed text
   is accepted by lexer and parser and the tree read back has the same value as e at every point.
   (Exact tree equality does not hold: the re-read tree carries paren flags where render put parentheses,
   and (-a)*b is printed -a * b, which reads back as -(a*b).) *)
From Coq Require Import ZArith NArith List Bool Reals Lra Lia.
From SV Require Import Base.Num Base.Outcome Base.Str Model.Expr Model.RefExpr
  Proofs.ExprTotal Proofs.ExprFold Proofs.ExprRead Proofs.ExprReadJuxt Proofs.ExprDisplay.
Import ListNotations.
Local Open Scope res_scope.

Notation tok := (token R).
Notation tree := (expr R).

Definition deq (a b : tree) : Prop := forall rho, denote a rho = denote b rho.
Definition dneg (b a : tree) : Prop := forall rho, denote b rho = option_map Ropp (denote a rho).

Lemma deq_refl a : deq a a. Proof. intros rho; reflexivity. Qed.
Lemma deq_sym a b : deq a b -> deq b a. Proof. intros H rho; symmetry; apply H. Qed.
Lemma deq_trans a b c : deq a b -> deq b c -> deq a c.
Proof. intros H1 H2 rho. rewrite H1. apply H2. Qed.

Lemma deq_bin o a a' x x' p p' : deq a a' -> deq x x' -> deq (EBin o a x p) (EBin o a' x' p').
Proof. intros H1 H2 rho. cbn [denote]. rewrite H1, H2. reflexivity. Qed.
Lemma deq_pre o a a' : deq a a' -> deq (EPre o a) (EPre o a').
Proof. intros H rho. cbn [denote]. rewrite H. reflexivity. Qed.
Lemma deq_post o a a' : deq a a' -> deq (EPost o a) (EPost o a').
Proof. intros H rho. cbn [denote]. rewrite H. reflexivity. Qed.
Lemma deq_fun f a a' : deq a a' -> deq (EFun f a) (EFun f a').
Proof. intros H rho. cbn [denote]. rewrite H. reflexivity. Qed.
Lemma deq_set_paren a : deq (set_paren a) a.
Proof. destruct a; intros rho; reflexivity. Qed.

Lemma dneg_bin o b a x x' p p' : prodo o -> dneg b a -> deq x x' -> dneg (EBin o b x p) (EBin o a x' p').
Proof.
  intros Ho H Hx rho. cbn [denote]. rewrite H, Hx.
  destruct (denote a rho) as [va|]; [|reflexivity]. cbn [option_map obind].
  destruct (denote x' rho) as [vb|]; [|reflexivity]. cbn [obind]. apply bin_val_opp. exact Ho.
Qed.

(* ---- 1. surplus fuel changes nothing ------------------------------------------------------------------- *)
Definition settled {A} (r : res A) : Prop := forall w, r <> Panic w.

Lemma bin_loop_mono (rec rec' : list tok -> nat -> res (tree * list tok)) :
  (forall ts bp, settled (rec ts bp) -> rec' ts bp = rec ts bp) ->
  forall n n' l ts bp, settled (bin_loop rec n l ts bp) -> n <= n' -> bin_loop rec' n' l ts bp = bin_loop rec n l ts bp.
Proof.
  intros Hrec. induction n as [|n IH]; intros n' l ts bp Hs Hn.
  { exfalso. apply (Hs WFuel). reflexivity. }
  destruct n' as [|n']; [lia|]. cbn [bin_loop] in *.
  destruct ts as [|t ts']; [reflexivity|]. destruct t; try reflexivity.
  destruct (binding_pow o <? bp)%nat; [reflexivity|].
  assert (Hs1 : settled (rec ts' (binding_pow o + 1))).
  { intros w E. rewrite E in Hs. apply (Hs w). reflexivity. }
  rewrite (Hrec _ _ Hs1). destruct (rec ts' (binding_pow o + 1)) as [[rg r']|e|w]; cbn [bind] in *; try reflexivity.
  apply IH; [exact Hs|lia].
Qed.

Lemma parse_expr_mono : forall f f' (ts : list tok) bp,
  settled (parse_expr f ts bp) -> f <= f' -> parse_expr f' ts bp = parse_expr f ts bp.
Proof.
  induction f as [|f IH]; intros f' ts bp Hs Hf.
  { exfalso. apply (Hs WFuel). reflexivity. }
  destruct f' as [|f']; [lia|]. rewrite !parse_expr_unfold in *.
  assert (Hp : settled (prefix_part f ts bp) -> prefix_part f' ts bp = prefix_part f ts bp).
  { intros Hsp. unfold prefix_part in *.
    destruct ts as [|t ts']; [reflexivity|]. destruct t as [x|v|o|fn|c| |]; try reflexivity.
    - destruct (oper_eqb o OSub); [|reflexivity].
      assert (H1 : settled (parse_expr f ts' (Nat.max bp BP_PREFIX_MINUS))).
      { intros w E. rewrite E in Hsp. apply (Hsp w). reflexivity. }
      rewrite (IH f' _ _ H1) by lia. reflexivity.
    - destruct ts' as [|t2 ts2]; [reflexivity|]. destruct t2; try reflexivity.
      assert (H1 : settled (parse_expr f ts2 0)).
      { intros w E. rewrite E in Hsp. apply (Hsp w). reflexivity. }
      rewrite (IH f' _ _ H1) by lia. reflexivity.
    - assert (H1 : settled (parse_expr f ts' 0)).
      { intros w E. rewrite E in Hsp. apply (Hsp w). reflexivity. }
      rewrite (IH f' _ _ H1) by lia. reflexivity. }
  assert (Hsp : settled (prefix_part f ts bp)).
  { intros w E. rewrite E in Hs. apply (Hs w). reflexivity. }
  rewrite (Hp Hsp). destruct (prefix_part f ts bp) as [[l r]|e|w]; cbn [bind] in *; try reflexivity.
  destruct (strip_fac l r) as [l' r'].
  apply bin_loop_mono; [|exact Hs|lia].
  intros ts0 bp0 H0. apply IH; [exact H0|lia].
Qed.

Lemma settled_ok {A} (r : res A) v : r = Ok v -> settled r.
Proof. intros -> w. discriminate. Qed.

Lemma parse_expr_more f f' (ts : list tok) bp v : parse_expr f ts bp = Ok v -> f <= f' -> parse_expr f' ts bp = Ok v.
Proof. intros H Hf. rewrite (parse_expr_mono f f' ts bp (settled_ok _ _ H) Hf). exact H. Qed.

(* ---- 2. the binary-operator loop as a function of its left tree ------------------------------------------- *)
Section Loop.
  Variable f : nat.
  Notation rec := (@parse_expr R f).

  Lemma loop_congr : forall n (B A : tree) ts bp Y r,
    deq B A -> bin_loop rec n B ts bp = Ok (Y, r) ->
    exists YA, bin_loop rec n A ts bp = Ok (YA, r) /\ deq Y YA.
  Proof.
    induction n as [|n IH]; intros B A ts bp Y r HBA H; [discriminate|].
    cbn [bin_loop] in *. destruct ts as [|t ts']; [injection H as <- <-; eauto|].
    destruct t; try (injection H as <- <-; eauto).
    destruct (binding_pow o <? bp)%nat; [injection H as <- <-; eauto|].
    destruct (rec ts' (binding_pow o + 1)) as [[rg r']|e|w]; cbn [bind] in *; try discriminate.
    apply (IH _ (EBin (if oper_eqb o OCDot then OMul else o) A rg false) _ _ _ _ (deq_bin _ _ _ _ _ _ _ HBA (deq_refl rg)) H).
  Qed.

  Definition hd_le (m : nat) (ts : list tok) : Prop :=
    match ts with TOp o :: _ => binding_pow o <= m | _ => True end.

  Lemma head_ok_hd_le bp (r : list tok) : head_ok bp r -> hd_le (bp - 1) r.
  Proof. destruct r as [|[| |o| | | |] r]; cbn; auto. intros (_ & H). lia. Qed.

  (* a minus in front of the left tree passes through products *)
  Lemma loop_neg : forall n (B A : tree) ts bp Y r,
    dneg B A -> 2 <= bp ->
    match ts with TOp o :: _ => binding_pow o <= 4 \/ binding_pow o < bp | _ => True end ->
    bin_loop rec n B ts bp = Ok (Y, r) ->
    exists YA, bin_loop rec n A ts bp = Ok (YA, r) /\ dneg Y YA.
  Proof.
    induction n as [|n IH]; intros B A ts bp Y r HBA Hbp Hhd H; [discriminate|].
    cbn [bin_loop] in *. destruct ts as [|t ts']; [injection H as <- <-; eauto|].
    destruct t; try (injection H as <- <-; eauto).
    destruct (binding_pow o <? bp)%nat eqn:Eb; [injection H as <- <-; eauto|].
    apply Nat.ltb_ge in Eb. assert (Hhd' : binding_pow o <= 4) by lia.
    destruct (rec ts' (binding_pow o + 1)) as [[rg r']|e|w] eqn:E; cbn [bind] in *; try discriminate.
    pose proof (parse_expr_head f _ _ _ _ E) as Hh.
    assert (Ho : prodo (if oper_eqb o OCDot then OMul else o)).
    { unfold prodo. destruct o; cbn in *; auto; lia. }
    apply (IH _ (EBin (if oper_eqb o OCDot then OMul else o) A rg false) _ _ _ _
              (dneg_bin _ _ _ _ _ false false Ho HBA (deq_refl rg)) Hbp); [|exact H].
    pose proof (head_ok_hd_le _ _ Hh) as H4. destruct r' as [|[| |o'| | | |] r'']; cbn in *; auto. left. lia.
  Qed.

  Lemma loop_split : forall n (l : tree) ts bp c Y r,
    bp <= c -> bin_loop rec n l ts bp = Ok (Y, r) ->
    exists Y1 r1, bin_loop rec n l ts c = Ok (Y1, r1) /\ bin_loop rec n Y1 r1 bp = Ok (Y, r).
  Proof.
    induction n as [|n IH]; intros l ts bp c Y r Hc H; [discriminate|].
    assert (Hself : bin_loop rec (S n) l ts c = Ok (l, ts) ->
                    exists Y1 r1, bin_loop rec (S n) l ts c = Ok (Y1, r1) /\ bin_loop rec (S n) Y1 r1 bp = Ok (Y, r)).
    { intros E. exists l, ts. split; [exact E|exact H]. }
    destruct ts as [|t ts']; [apply Hself; reflexivity|].
    destruct t; try (apply Hself; reflexivity).
    destruct (binding_pow o <? c)%nat eqn:Ec; [apply Hself; cbn [bin_loop]; rewrite Ec; reflexivity|].
    cbn [bin_loop] in H.
    pose proof Ec as Ec'. apply Nat.ltb_ge in Ec'.
    replace (binding_pow o <? bp)%nat with false in H by (symmetry; apply Nat.ltb_ge; lia).
    destruct (rec ts' (binding_pow o + 1)) as [[rg r']|e|w] eqn:Erec; cbn [bind] in H; try discriminate.
    destruct (IH _ _ _ _ _ _ Hc H) as (Y1 & r1 & E1 & E2).
    exists Y1, r1. split; [cbn [bin_loop]; rewrite Ec, Erec; exact E1|].
    rewrite <- E2. apply bin_loop_mono; [intros; reflexivity|rewrite E2; intros w; discriminate|lia].
  Qed.

  (* the continuation of parse_expr after its first operand *)
  Definition K (l : tree) (ts : list tok) (bp : nat) : res (tree * list tok) :=
    let (l', r') := strip_fac l ts in bin_loop rec f l' r' bp.

  Lemma strip_fac_congr : forall (ts : list tok) (B A : tree), deq B A ->
    snd (strip_fac B ts) = snd (strip_fac A ts) /\ deq (fst (strip_fac B ts)) (fst (strip_fac A ts)).
  Proof.
    induction ts as [|t ts IH]; intros B A H; cbn; [split; [reflexivity|exact H]|].
    destruct t; cbn; try (split; [reflexivity|exact H]).
    destruct o; cbn; try (split; [reflexivity|exact H]).
    apply IH. apply deq_post. exact H.
  Qed.

  Lemma K_congr (B A : tree) ts bp Y r : deq B A -> K B ts bp = Ok (Y, r) ->
    exists YA, K A ts bp = Ok (YA, r) /\ deq Y YA.
  Proof.
    unfold K. intros HBA H. destruct (strip_fac_congr ts B A HBA) as (E1 & E2).
    destruct (strip_fac B ts) as [b rb]. destruct (strip_fac A ts) as [a ra]. cbn [fst snd] in *. subst ra.
    apply (loop_congr _ _ _ _ _ _ _ E2 H).
  Qed.
End Loop.

Lemma parse_expr_K f (ts : list tok) bp :
  parse_expr (S f) ts bp = (let* (l, r) := prefix_part f ts bp in K f l r bp).
Proof. rewrite parse_expr_unfold. reflexivity. Qed.

(* ---- 3. the tokens of Expr::render, and the parser on them --------------------------------------------- *)
Definition binop_okR (o : oper) : bool :=
  match o with OAdd | OSub | ODiv | OMul | ORem | OCaret => true | _ => false end.
Definition is_preR (e : tree) : bool := match e with EPre _ _ => true | _ => false end.

(* number-free trees of the shape the parser produces *)
Fixpoint wf (e : tree) : bool :=
  match e with
  | ENum _ => false
  | EVar v => var_ok v
  | EConst _ => true
  | EFun _ i => wf i
  | EPre o v => oper_eqb o OSub && wf v
  | EPost o v => oper_eqb o OFac && wf v
  | EBin o l r _ => binop_okR o && wf l && wf r
  end.

Definition primary (e : tree) : bool :=
  match e with EPre _ _ => false | EBin _ _ _ p => p | _ => true end.
Definition needs_group (v : tree) : bool :=
  match v with EPre _ _ => true | EBin _ _ _ false => true | _ => false end.
Definition lhs_group (o : oper) (l : tree) : bool := is_preR l && (2 <? binding_pow o)%nat.

Fixpoint rt (e : tree) (m : nat) : list tok :=
  match e with
  | ENum x => [TNum x]
  | EVar v => [TVar v]
  | EConst c => [TConst c]
  | EFun fn i => TFun fn :: TLParen :: rt i 0 ++ [TRParen]
  | EPre o v => TOp o :: rt v (Nat.max m 2)
  | EPost o v => wrapt (needs_group v) (rt v 0) ++ [TOp o]
  | EBin o l r p =>
    wrapt (p || (binding_pow o <? m)%nat)
          (wrapt (lhs_group o l) (rt l (if lhs_group o l then 0 else binding_pow o))
           ++ [TOp o] ++ rt r (binding_pow o + 1))
  end.

Definition follows (m : nat) (rest : list tok) : Prop :=
  match rest with
  | [] => True
  | TRParen :: _ => True
  | TOp o :: _ => binding_pow o <= m
  | _ => False
  end.
Definition hd_eq (m : nat) (rest : list tok) : Prop :=
  match rest with TOp o :: _ => binding_pow o = m | _ => False end.

Lemma K_more f f' (l : tree) ts bp v : K f l ts bp = Ok v -> f <= f' -> K f' l ts bp = Ok v.
Proof.
  unfold K. intros H Hf. destruct (strip_fac l ts) as [l' r'].
  rewrite <- H. apply bin_loop_mono; [|rewrite H; intros w; discriminate|exact Hf].
  intros ts0 bp0 H0. apply parse_expr_mono; assumption.
Qed.

Lemma K_nofac f (l : tree) ts bp : head_not_fac ts -> K f l ts bp = bin_loop (parse_expr f) f l ts bp.
Proof. intros H. unfold K. rewrite (strip_fac_nonfac_head l ts H). reflexivity. Qed.

Lemma follows_head_ok m (rest : list tok) : follows m rest -> head_not_fac rest -> head_ok (m + 1) rest.
Proof.
  destruct rest as [|[| |o| | | |] r]; cbn; auto. intros H Hf. split; [intros ->; exact Hf|lia].
Qed.

Lemma K_stop f (e : tree) rest m : follows m rest -> head_not_fac rest -> K (S f) e rest (m + 1) = Ok (e, rest).
Proof.
  intros H Hf. rewrite (K_nofac _ _ _ _ Hf). apply bin_loop_exit. apply follows_head_ok; assumption.
Qed.

Definition Gs (e : tree) : Prop :=
  forall m m' rest f Y r',
    m' <= m -> follows m rest ->
    (primary e = false -> head_not_fac rest) ->
    (is_preR e = true -> (m' = m \/ m <= 2) /\ (hd_eq m rest -> m <= 2)) ->
    K f e rest m' = Ok (Y, r') ->
    exists F X, parse_expr F (rt e m ++ rest) m' = Ok (X, r') /\ deq X Y.

(* a parenthesised group *)
Lemma group (v : tree) rest : Gs v ->
  exists F X, parse_expr F (rt v 0 ++ TRParen :: rest) 0 = Ok (X, TRParen :: rest) /\ deq X v.
Proof.
  intros HG.
  destruct (HG 0 0 (TRParen :: rest) 1 v (TRParen :: rest) (le_n _) I (fun _ => I)) as (F & X & HP & HX).
  - intros _. split; [left; reflexivity|intros []].
  - apply (K_stop 0 v (TRParen :: rest) 0 I I) || (change 0 with (0 + 0) at 2).
  - exists F, X. split; assumption.
Qed.

Lemma paren_phrase F (v X : tree) rest bp :
  parse_expr F (rt v 0 ++ TRParen :: rest) 0 = Ok (X, TRParen :: rest) ->
  prefix_part F (TLParen :: rt v 0 ++ TRParen :: rest) bp = Ok (set_paren X, rest).
Proof. intros H. cbn [prefix_part]. rewrite H. reflexivity. Qed.

Lemma parse_from_prefix F ts bp (l : tree) r v :
  prefix_part F ts bp = Ok (l, r) -> K F l r bp = Ok v -> parse_expr (S F) ts bp = Ok v.
Proof. intros H1 H2. rewrite parse_expr_K, H1. exact H2. Qed.

Lemma rt_primary (v : tree) m : needs_group v = false -> rt v m = rt v 0.
Proof.
  destruct v as [x|s|c|fn i|o s|o s|o l r p]; cbn [needs_group rt]; try reflexivity; try discriminate.
  destruct p; [reflexivity|discriminate].
Qed.

Lemma needs_group_primary (v : tree) : needs_group v = false -> primary v = true /\ is_preR v = false.
Proof. destruct v as [x|s|c|fn i|o s|o s|o l r p]; cbn; auto; try discriminate. destruct p; auto; discriminate. Qed.

(* the core of a binary operation, printed without parentheses *)
Lemma bin_core o (l r : tree) : Gs l -> Gs r -> binop_okR o = true ->
  forall m0 m0' rest0 f Y r',
    m0' <= m0 -> m0 <= binding_pow o -> follows m0 rest0 -> head_not_fac rest0 ->
    K f (EBin o l r false) rest0 m0' = Ok (Y, r') ->
    exists F X,
      parse_expr F ((wrapt (lhs_group o l) (rt l (if lhs_group o l then 0 else binding_pow o))
                     ++ [TOp o] ++ rt r (binding_pow o + 1)) ++ rest0) m0' = Ok (X, r') /\ deq X Y.
Proof.
  intros Gl Gr Ho m0 m0' rest0 f Y r' Hm' Hm Hfo Hnf HK.
  set (c := binding_pow o) in *.
  rewrite (K_nofac _ _ _ _ Hnf) in HK.
  (* the right operand *)
  assert (Hfo' : follows (c + 1) rest0).
  { destruct rest0 as [|[| |o'| | | |] r0]; cbn in *; auto. lia. }
  destruct (Gr (c + 1) (c + 1) rest0 1 r rest0 (le_n _) Hfo' (fun _ => Hnf)) as (Fr & Xr & HPr & HXr).
  { intros _. split; [left; reflexivity|].
    destruct rest0 as [|[| |o'| | | |] r0]; cbn in *; try contradiction. lia. }
  { assert (Hc : follows c rest0) by (destruct rest0 as [|[| |o'| | | |] r0]; cbn in *; auto; lia).
    apply (K_stop 0 r rest0 c Hc Hnf). }
  (* the loop from l over [o r ...] *)
  destruct (loop_congr f _ _ (EBin o l Xr false) _ _ _ _
              (deq_bin o l l r Xr false false (deq_refl l) (deq_sym _ _ HXr)) HK) as (Y2 & HK2 & HY2).
  set (F1 := Nat.max f Fr).
  set (restL := TOp o :: rt r (c + 1) ++ rest0).
  assert (HKl : K (S F1) l restL m0' = Ok (Y2, r')).
  { assert (Hnfl : head_not_fac restL) by (unfold restL; destruct o; try exact I; discriminate).
    rewrite (K_nofac _ _ _ _ Hnfl). unfold restL. cbn [bin_loop]. fold c.
    replace (c <? m0')%nat with false by (symmetry; apply Nat.ltb_ge; lia).
    rewrite (parse_expr_more _ (S F1) _ _ _ HPr) by (unfold F1; lia). cbn [bind].
    replace (if oper_eqb o OCDot then OMul else o) with o by (destruct o; try discriminate; reflexivity).
    rewrite <- HK2. apply bin_loop_mono; [|rewrite HK2; intros w; discriminate|unfold F1; lia].
    intros ts0 bp0 H0. apply parse_expr_mono; [exact H0|unfold F1; lia]. }
  (* the left operand *)
  destruct (lhs_group o l) eqn:Eg; cbn [wrapt].
  - (* a prefix minus in parentheses *)
    destruct (group l restL Gl) as (Fl & Xl & HPl & HXl).
    destruct (K_congr (S F1) l (set_paren Xl) restL m0' Y2 r'
                (deq_sym _ _ (deq_trans _ _ _ (deq_set_paren Xl) HXl)) HKl) as (Y3 & HK3 & HY3).
    set (F2 := Nat.max (S F1) Fl).
    exists (S F2), Y3. split; [|apply (deq_trans _ _ _ (deq_sym _ _ HY3) (deq_sym _ _ HY2))].
    repeat rewrite <- app_assoc. cbn [app]. fold c restL.
    apply (parse_from_prefix F2 _ _ (set_paren Xl) restL).
    + apply paren_phrase. apply (parse_expr_more _ F2 _ _ _ HPl). unfold F2; lia.
    + apply (K_more _ F2 _ _ _ _ HK3). unfold F2; lia.
  - (* printed as it is *)
    destruct (Gl c m0' restL (S F1) Y2 r') as (F & X & HP & HX); try assumption.
    + lia.
    + unfold restL. cbn. fold c. lia.
    + intros _. unfold restL. destruct o; try exact I; discriminate.
    + intros Hp. unfold lhs_group in Eg. rewrite Hp in Eg. cbn [andb] in Eg. fold c in Eg.
      apply Nat.ltb_ge in Eg. split; [right; exact Eg|intros _; exact Eg].
    + exists F, X. split; [|apply (deq_trans _ _ _ HX (deq_sym _ _ HY2))].
      repeat rewrite <- app_assoc. cbn [app]. fold c restL. exact HP.
Qed.

Lemma hd_ok_for_neg m m' (rest : list tok) :
  follows m rest -> (m' = m \/ m <= 2) -> (hd_eq m rest -> m <= 2) ->
  match rest with TOp o :: _ => binding_pow o <= 4 \/ binding_pow o < Nat.max m' 2 | _ => True end.
Proof.
  intros Hf Hm Hh. destruct rest as [|[| |o| | | |] r]; auto. cbn in Hf, Hh.
  destruct (Nat.le_gt_cases (binding_pow o) 4) as [H4|H4]; [left; exact H4|right].
  assert (binding_pow o = 5) by (destruct o; cbn in *; lia).
  destruct Hm as [->|Hm]; [|lia].
  destruct (Nat.eq_dec m 5) as [->|Hne]; [specialize (Hh H); lia|lia].
Qed.

Lemma render_inverse : forall e : tree, wf e = true -> Gs e.
Proof.
  induction e as [x|v|c|fn i IH|o s IH|o s IH|o l IHl r IHr p]; intros Hwf; try discriminate;
    intros m m' rest f Y r' Hm Hfo Hprim Hpre HK.
  - (* variable *)
    destruct f as [|f]; [unfold K in HK; destruct (strip_fac (EVar v) rest); discriminate|].
    exists (S (S f)), Y. split; [|apply deq_refl]. apply (parse_from_prefix (S f) _ _ (EVar v) rest); [reflexivity|exact HK].
  - (* constant *)
    destruct f as [|f]; [unfold K in HK; destruct (strip_fac (EConst c) rest); discriminate|].
    exists (S (S f)), Y. split; [|apply deq_refl]. apply (parse_from_prefix (S f) _ _ (EConst c) rest); [reflexivity|exact HK].
  - (* function *)
    cbn [wf] in Hwf. destruct (group i rest (IH Hwf)) as (Fi & Xi & HPi & HXi).
    destruct (K_congr f (EFun fn i) (EFun fn Xi) rest m' Y r' (deq_fun fn _ _ (deq_sym _ _ HXi)) HK) as (Y2 & HK2 & HY2).
    set (F := Nat.max f Fi). exists (S F), Y2. split; [|apply deq_sym; exact HY2].
    cbn [rt app]. rewrite <- app_assoc. cbn [app].
    apply (parse_from_prefix F _ _ (EFun fn Xi) rest).
    + cbn [prefix_part]. rewrite (parse_expr_more _ F _ _ _ HPi) by (unfold F; lia). reflexivity.
    + apply (K_more _ F _ _ _ _ HK2). unfold F; lia.
  - (* prefix minus *)
    cbn [wf] in Hwf. apply andb_prop in Hwf as [Ho Hs]. destruct o; try discriminate. clear Ho.
    specialize (Hprim eq_refl). destruct (Hpre eq_refl) as (Hmm & Hhd). clear Hpre.
    rewrite (K_nofac _ _ _ _ Hprim) in HK.
    set (M := Nat.max m 2). set (M' := Nat.max m' 2).
    destruct (loop_split f f (EPre OSub s) rest m' M' Y r' (Nat.le_max_l m' 2) HK) as (Y1 & r1 & HL1 & HL2).
    destruct (loop_neg f f (EPre OSub s) s rest M' Y1 r1 (fun rho => eq_refl) (Nat.le_max_r m' 2)
                (hd_ok_for_neg m m' rest Hfo Hmm Hhd) HL1) as (YA & HLA & HYA).
    assert (HKs : K f s rest M' = Ok (YA, r1)) by (rewrite (K_nofac _ _ _ _ Hprim); exact HLA).
    destruct (IH Hs M M' rest f YA r1) as (F & X1 & HP1 & HX1); try assumption.
    + unfold M, M'. lia.
    + destruct rest as [|[| |o'| | | |] r0]; cbn in *; auto. unfold M. lia.
    + intros _. exact Hprim.
    + intros _. split.
      * unfold M, M'. destruct Hmm as [->|Hle]; [left; reflexivity|right; lia].
      * intros He. assert (Hm2 : 2 <= m).
        { destruct rest as [|[| |o'| | | |] r0]; cbn in *; try contradiction. unfold M in He. lia. }
        assert (He' : hd_eq m rest).
        { destruct rest as [|[| |o'| | | |] r0]; cbn in *; try contradiction. unfold M in He. lia. }
        specialize (Hhd He'). unfold M. lia.
    + pose proof (parse_expr_head _ _ _ _ _ HP1) as Hh1.
      assert (Hd : deq Y1 (EPre OSub X1)).
      { intros rho. rewrite HYA. cbn [denote]. rewrite (HX1 rho). reflexivity. }
      destruct (loop_congr f _ Y1 (EPre OSub X1) r1 m' Y r' Hd HL2) as (Y3 & HL3 & HY3).
      set (F' := Nat.max f F). exists (S F'), Y3. split; [|apply deq_sym; exact HY3].
      cbn [rt]. fold M. cbn [app].
      apply (parse_from_prefix F' _ _ (EPre OSub X1) r1).
      * cbn [prefix_part oper_eqb]. unfold BP_PREFIX_MINUS. fold M'.
        rewrite (parse_expr_more _ F' _ _ _ HP1) by (unfold F'; lia). reflexivity.
      * rewrite (K_nofac _ _ _ _ (head_ok_not_fac _ _ Hh1)).
        rewrite <- HL3. apply bin_loop_mono; [|rewrite HL3; intros w; discriminate|unfold F'; lia].
        intros ts0 bp0 H0. apply parse_expr_mono; [exact H0|unfold F'; lia].
  - (* factorial *)
    cbn [wf] in Hwf. apply andb_prop in Hwf as [Ho Hs]. destruct o; try discriminate. clear Ho.
    cbn [rt]. destruct (needs_group s) eqn:Eg; cbn [wrapt].
    + (* (...)! *)
      destruct (group s (TOp OFac :: rest) (IH Hs)) as (Fs & Xs & HPs & HXs).
      assert (HK' : forall g, K g (set_paren Xs) (TOp OFac :: rest) m' = K g (EPost OFac (set_paren Xs)) rest m') by (intros; reflexivity).
      destruct (K_congr f (EPost OFac s) (EPost OFac (set_paren Xs)) rest m' Y r'
                  (deq_post _ _ _ (deq_sym _ _ (deq_trans _ _ _ (deq_set_paren Xs) HXs))) HK) as (Y2 & HK2 & HY2).
      set (F := Nat.max f Fs). exists (S F), Y2. split; [|apply deq_sym; exact HY2].
      repeat rewrite <- app_assoc. cbn [app].
      apply (parse_from_prefix F _ _ (set_paren Xs) (TOp OFac :: rest)).
      * apply paren_phrase. apply (parse_expr_more _ F _ _ _ HPs). unfold F; lia.
      * rewrite HK'. apply (K_more _ F _ _ _ _ HK2). unfold F; lia.
    + (* a primary in front of the ! *)
      destruct (needs_group_primary s Eg) as (Hp1 & Hp2).
      rewrite <- app_assoc. cbn [app]. rewrite <- (rt_primary s m' Eg).
      apply (IH Hs m' m' (TOp OFac :: rest) f Y r' (le_n _)).
      * cbn. lia.
      * rewrite Hp1. discriminate.
      * rewrite Hp2. discriminate.
      * exact HK.
  - (* binary operation *)
    cbn [wf] in Hwf. apply andb_prop in Hwf as [Hwf Hr]. apply andb_prop in Hwf as [Ho Hl].
    cbn [rt]. destruct (p || (binding_pow o <? m)%nat) eqn:Epar; cbn [wrapt].
    + (* in parentheses *)
      destruct (bin_core o l r (IHl Hl) (IHr Hr) Ho 0 0 (TRParen :: rest) 1 (EBin o l r false) (TRParen :: rest)
                  (le_n _) (Nat.le_0_l _) I I eq_refl) as (F0 & X0 & HP0 & HX0).
      destruct (K_congr f (EBin o l r p) (set_paren X0) rest m' Y r'
                  (deq_sym _ _ (deq_trans _ _ _ (deq_set_paren X0)
                     (deq_trans _ _ _ HX0 (deq_bin o l l r r false p (deq_refl l) (deq_refl r))))) HK) as (Y2 & HK2 & HY2).
      set (F := Nat.max f F0). exists (S F), Y2. split; [|apply deq_sym; exact HY2].
      repeat rewrite <- app_assoc. cbn [app].
      apply (parse_from_prefix F _ _ (set_paren X0) rest).
      * cbn [prefix_part]. repeat rewrite <- app_assoc in HP0. cbn [app] in HP0.
        rewrite (parse_expr_more _ F _ _ _ HP0) by (unfold F; lia). reflexivity.
      * apply (K_more _ F _ _ _ _ HK2). unfold F; lia.
    + (* as it is *)
      apply orb_false_elim in Epar as [-> Ec]. apply Nat.ltb_ge in Ec.
      apply (bin_core o l r (IHl Hl) (IHr Hr) Ho m m' rest f Y r' Hm Ec Hfo (Hprim eq_refl) HK).
Qed.

(* ---- 4. the whole token list -------------------------------------------------------------------------------- *)
Lemma parse_rendered (e : tree) : wf e = true ->
  exists F X, parse_expr F (rt e 0) 0 = Ok (X, []) /\ deq X e.
Proof.
  intros Hwf.
  destruct (render_inverse e Hwf 0 0 [] 1 e [] (le_n _) I (fun _ => I)) as (F & X & HP & HX).
  - intros _. split; [left; reflexivity|intros []].
  - unfold K. rewrite (strip_fac_nonfac_head e [] I). reflexivity.
  - exists F, X. rewrite app_nil_r in HP. split; assumption.
Qed.

(* no number among the tokens: no number in the tree, and fold leaves it alone *)
Definition not_tnum (t : tok) : bool := match t with TNum _ => false | _ => true end.
Fixpoint nonum (e : tree) : bool :=
  match e with
  | ENum _ => false
  | EVar _ | EConst _ => true
  | EFun _ i => nonum i
  | EPre _ v | EPost _ v => nonum v
  | EBin _ l r _ => nonum l && nonum r
  end.

Lemma strip_fac_nonum : forall (ts : list tok) (l : tree), nonum l = true -> forallb not_tnum ts = true ->
  nonum (fst (strip_fac l ts)) = true /\ forallb not_tnum (snd (strip_fac l ts)) = true.
Proof.
  induction ts as [|t ts IH]; intros l Hl Hts; cbn; [auto|].
  cbn [forallb] in Hts. apply andb_prop in Hts as [Ht Hts'].
  destruct t as [x|v|o|fn|c| |]; cbn; try (split; [exact Hl|cbn; rewrite ?Ht, Hts'; reflexivity]); try discriminate.
  destruct o; cbn; try (split; [exact Hl|exact Hts']).
  apply IH; assumption.
Qed.

Lemma bin_loop_nonum (rec : list tok -> nat -> res (tree * list tok)) :
  (forall ts bp X r, forallb not_tnum ts = true -> rec ts bp = Ok (X, r) -> nonum X = true /\ forallb not_tnum r = true) ->
  forall n l ts bp X r, nonum l = true -> forallb not_tnum ts = true ->
    bin_loop rec n l ts bp = Ok (X, r) -> nonum X = true /\ forallb not_tnum r = true.
Proof.
  intros Hrec. induction n as [|n IH]; intros l ts bp X r Hl Hts H; [discriminate|].
  cbn [bin_loop] in H. destruct ts as [|t ts']; [injection H as <- <-; auto|].
  destruct t; try (injection H as <- <-; auto).
  destruct (binding_pow o <? bp)%nat; [injection H as <- <-; auto|].
  cbn [forallb not_tnum andb] in Hts.
  destruct (rec ts' (binding_pow o + 1)) as [[rg r']|e|w] eqn:E; cbn [bind] in H; try discriminate.
  destruct (Hrec _ _ _ _ Hts E) as (Hrg & Hr').
  refine (IH _ _ _ _ _ _ Hr' H). cbn [nonum]. rewrite Hl, Hrg. reflexivity.
Qed.

Lemma parse_expr_nonum : forall f (ts : list tok) bp X r,
  forallb not_tnum ts = true -> parse_expr f ts bp = Ok (X, r) -> nonum X = true /\ forallb not_tnum r = true.
Proof.
  induction f as [|f IH]; intros ts bp X r Hts H; [discriminate|].
  rewrite parse_expr_unfold in H.
  destruct (prefix_part f ts bp) as [[l r0]|e|w] eqn:E; cbn [bind] in H; try discriminate.
  assert (Hp : nonum l = true /\ forallb not_tnum r0 = true).
  { unfold prefix_part in E. destruct ts as [|t ts']; [discriminate|].
    cbn [forallb] in Hts. apply andb_prop in Hts as [Ht Hts'].
    destruct t as [x|v|o|fn|c| |]; try discriminate; try (injection E as <- <-; auto).
    - destruct (oper_eqb o OSub); [|discriminate].
      destruct (parse_expr f ts' (Nat.max bp BP_PREFIX_MINUS)) as [[v r1]|e0|w0] eqn:E1; cbn [bind] in E; try discriminate.
      injection E as <- <-. apply (IH _ _ _ _ Hts' E1).
    - destruct ts' as [|t2 ts2]; [discriminate|]. destruct t2; try discriminate.
      cbn [forallb not_tnum andb] in Hts'.
      destruct (parse_expr f ts2 0) as [[v r1]|e0|w0] eqn:E1; cbn [bind] in E; try discriminate.
      destruct (IH _ _ _ _ Hts' E1) as (Hv & Hr1).
      destruct r1 as [|t1 r2]; [discriminate|]. destruct t1; try discriminate.
      injection E as <- <-. split; [exact Hv|exact Hr1].
    - destruct (parse_expr f ts' 0) as [[v r1]|e0|w0] eqn:E1; cbn [bind] in E; try discriminate.
      destruct (IH _ _ _ _ Hts' E1) as (Hv & Hr1).
      destruct r1 as [|t1 r2]; [discriminate|]. destruct t1; try discriminate.
      injection E as <- <-. split; [destruct v; exact Hv|exact Hr1]. }
  destruct Hp as (Hl & Hr0).
  destruct (strip_fac_nonum r0 l Hl Hr0) as (Hl' & Hr').
  destruct (strip_fac l r0) as [l' r'']. cbn [fst snd] in *.
  apply (bin_loop_nonum _ (IH) _ _ _ _ _ _ Hl' Hr' H).
Qed.

Lemma nonum_is_num c (e : tree) : nonum e = true -> is_num c e = false /\ is_number e = false.
Proof. destruct e; cbn; try discriminate; auto. Qed.

Lemma foldS_nonum : forall e : tree, nonum e = true -> foldS e = e.
Proof.
  induction e as [x|v|c|fn i IH|o s IH|o s IH|o l IHl r IHr p]; intros H; try reflexivity.
  cbn [nonum] in H. apply andb_prop in H as [Hl Hr].
  cbn [foldS]. rewrite (IHl Hl), (IHr Hr).
  destruct (nonum_is_num n0 l Hl) as (E1 & _). destruct (nonum_is_num n0 r Hr) as (E2 & E3).
  destruct (nonum_is_num n1 r Hr) as (E4 & _).
  rewrite E1, E2, ?E4. cbn [andb]. destruct o; reflexivity.
Qed.

Lemma rt_nonum : forall e m, wf e = true -> forallb not_tnum (rt e m) = true.
Proof.
  induction e as [x|v|c|fn i IH|o s IH|o s IH|o l IHl r IHr p]; intros m H; try discriminate; try reflexivity.
  - cbn [wf] in H. cbn [rt forallb not_tnum andb]. rewrite forallb_app, (IH _ H). reflexivity.
  - cbn [wf] in H. apply andb_prop in H as [_ H]. cbn [rt forallb not_tnum andb]. apply IH; exact H.
  - cbn [wf] in H. apply andb_prop in H as [_ H]. cbn [rt]. rewrite forallb_app.
    destruct (needs_group s); cbn [wrapt]; rewrite ?forallb_app, (IH _ H); reflexivity.
  - cbn [wf] in H. apply andb_prop in H as [H Hr]. apply andb_prop in H as [_ Hl]. cbn [rt].
    destruct (p || (binding_pow o <? m)%nat); destruct (lhs_group o l); cbn [wrapt];
      rewrite ?forallb_app; cbn [forallb not_tnum andb]; rewrite ?forallb_app, (IHl _ Hl), (IHr _ Hr); reflexivity.
Qed.

(* ---- 5. implied_mul inserts nothing, the lexer reads the text ------------------------------------------- *)
Lemma im_rt : forall e m, wf e = true ->
  forall rest : list tok, quiet rest -> implied_mul (rt e m ++ rest) = rt e m ++ implied_mul rest.
Proof.
  induction e as [x|v|c|fn i IH|o s IH|o s IH|o l IHl r IHr p]; intros m H rest Hq; try discriminate.
  - cbn [rt app]. apply im_atom; [exact Hq|]. intros b Hb. cbn. exact Hb.
  - cbn [rt app]. apply im_atom; [exact Hq|]. intros b Hb. cbn. exact Hb.
  - cbn [wf] in H. cbn [rt app]. rewrite im_inert by reflexivity. rewrite im_inert by reflexivity.
    rewrite <- !app_assoc. rewrite (IH _ H) by reflexivity. cbn [app]. rewrite im_inert by reflexivity. reflexivity.
  - cbn [wf] in H. apply andb_prop in H as [_ H]. cbn [rt app]. rewrite im_inert by reflexivity.
    rewrite (IH _ H _ Hq). reflexivity.
  - cbn [wf] in H. apply andb_prop in H as [_ H]. cbn [rt]. rewrite <- !app_assoc.
    rewrite im_wrap; [|intros; apply (IH _ H); assumption|reflexivity].
    cbn [app]. rewrite im_inert by reflexivity. reflexivity.
  - cbn [wf] in H. apply andb_prop in H as [H Hr]. apply andb_prop in H as [_ Hl]. cbn [rt].
    apply im_wrap; [|exact Hq]. intros rest' Hq'. repeat rewrite <- app_assoc.
    rewrite im_wrap; [|intros; apply (IHl _ Hl); assumption|reflexivity].
    cbn [app]. rewrite im_inert by reflexivity. rewrite (IHr _ Hr _ Hq'). reflexivity.
Qed.

Section Lex.
  Variable fmt : R -> str.

  Lemma wf_not_num (e : tree) : wf e = true -> not_num e.
  Proof. destruct e; cbn; try discriminate; auto. Qed.

  Lemma filter_wrap_if (b : bool) (s : str) :
    filter nsp (if b then [40%N] ++ s ++ [41%N] else s) = wrapc b (filter nsp s).
  Proof. destruct b; cbn [wrapc]; [|reflexivity]. rewrite !filter_app. reflexivity. Qed.

  Lemma lexes_fun fn rest (r : list tok) : Lexes rest r -> Lexes (func_str fn ++ [40%N] ++ rest) (TFun fn :: TLParen :: r).
  Proof.
    intros Hr g Hg.
    assert (Hp : Lexes (40%N :: rest) (TLParen :: r)) by (apply lexes_char; try reflexivity; exact Hr).
    destruct g as [|g]; [cbn in Hg; lia|].
    destruct fn; cbn [func_str app length] in Hg |- *;
      (assert (Hg' : length (40%N :: rest) < g) by (cbn [length]; lia));
      specialize (Hp g Hg'); cbn; cbn in Hp; rewrite Hp; reflexivity.
  Qed.

  Lemma filter_render_post o (s : tree) m :
    filter nsp (render fmt (EPost o s) m) = wrapc (needs_group s) (filter nsp (render fmt s 0)) ++ filter nsp (oper_str o).
  Proof.
    destruct s as [y|w|d|g j|o2 t|o2 t|o2 r1 r2 p2]; cbn [render needs_group wrapc]; rewrite ?filter_app; try reflexivity.
    - rewrite <- !app_assoc. reflexivity.
    - destruct p2; cbn [wrapc]; rewrite ?filter_app; [reflexivity|rewrite <- !app_assoc; reflexivity].
  Qed.

  Lemma lex_render : forall e m, wf e = true ->
    forall rest r, boundary rest -> Lexes rest r ->
      Lexes (filter nsp (render fmt e m) ++ rest) (rt e m ++ r).
  Proof.
    induction e as [x|v|c|fn i IH|o s IH|o s IH|o l IHl r0 IHr p]; intros m H rest r Hb Hr; try discriminate.
    - cbn [render rt wf] in *. rewrite (filter_var _ H). apply lexes_var; assumption.
    - cbn [render rt]. rewrite filter_cnst. apply lexes_cnst; assumption.
    - cbn [wf] in H. cbn [render rt]. rewrite !filter_app. repeat rewrite <- app_assoc.
      replace (filter nsp (func_str fn)) with (func_str fn) by (destruct fn; reflexivity).
      change (filter nsp [40%N]) with [40%N]. change (filter nsp [41%N]) with [41%N].
      cbn [app]. apply (lexes_fun fn). rewrite <- app_assoc.
      apply (IH _ H); [reflexivity|]. apply lexes_char; try reflexivity. exact Hr.
    - cbn [wf] in H. apply andb_prop in H as [Ho H]. destruct o; try discriminate.
      cbn [render rt]. rewrite filter_app, filter_oper. rewrite <- app_assoc. cbn [app].
      apply (lexes_oper OSub). apply (IH _ H); assumption.
    - cbn [wf] in H. apply andb_prop in H as [Ho H]. destruct o; try discriminate.
      rewrite filter_render_post. cbn [rt]. repeat rewrite <- app_assoc.
      apply lexes_wrap; [intros; apply (IH _ H); assumption|reflexivity|].
      change (filter nsp (oper_str OFac)) with (oper_str OFac). apply (lexes_oper OFac). exact Hr.
    - cbn [wf] in H. apply andb_prop in H as [H Hr0]. apply andb_prop in H as [Ho Hl].
      rewrite (render_bin fmt _ _ _ _ _ (wf_not_num _ Hl) (wf_not_num _ Hr0)). cbn [rt].
      rewrite filter_wrap_if.
      apply lexes_wrap; [|assumption|assumption].
      intros rest' r' Hb' Hr'. unfold bin_text. rewrite !filter_app, filter_oper.
      change (filter nsp [32%N]) with (@nil N). cbn [app]. repeat rewrite <- app_assoc.
      assert (El : filter nsp (lhs_text fmt o l)
                   = wrapc (lhs_group o l) (filter nsp (render fmt l (if lhs_group o l then 0 else binding_pow o)))).
      { unfold lhs_text, lhs_group.
        destruct l as [y|w|d|g j|o2 t|o2 t|o2 r1 r2 p2]; cbn [is_preR andb wrapc]; try reflexivity.
        destruct (2 <? binding_pow o)%nat; cbn [wrapc]; [rewrite !filter_app; reflexivity|reflexivity]. }
      rewrite El.
      apply lexes_wrap; [intros; apply (IHl _ Hl); assumption|apply boundary_oper|].
      apply lexes_oper. apply (IHr _ Hr0); assumption.
  Qed.

  (* ---- 6. the round trip ---------------------------------------------------------------------------------- *)
  Lemma c19_display_roundtrip_lemma : forall e : tree, wf e = true ->
    exists e', reread fmt e = Ok e' /\ forall rho, denote e' rho = denote e rho.
  Proof.
    intros e Hwf. unfold reread.
    assert (Hlex : lexer (display fmt e) = Ok (rt e 0)).
    { apply lexer_of_Lexes. unfold display.
      rewrite <- (app_nil_r (filter nsp (render fmt e 0))), <- (app_nil_r (rt e 0)).
      apply (lex_render e 0 Hwf); [exact I|apply lexes_nil]. }
    rewrite Hlex. cbn [bind].
    destruct (parse_rendered e Hwf) as (F & X & HP & HX).
    pose proof (im_rt e 0 Hwf [] I) as Him. rewrite !app_nil_r in Him. cbn [implied_mul] in Him.
    assert (HP' : parse_expr (S (length (rt e 0))) (rt e 0) 0 = Ok (X, [])).
    { destruct (Nat.le_ge_cases F (S (length (rt e 0)))) as [Hle|Hge].
      - apply (parse_expr_more _ _ _ _ _ HP Hle).
      - rewrite <- HP. symmetry. apply parse_expr_mono; [|exact Hge].
        apply (parse_expr_no_panic (S (length (rt e 0))) (rt e 0) 0). lia. }
    exists X. split; [|exact HX].
    unfold parser, parse_unfolded. rewrite Him, HP'. cbn [bind].
    rewrite fold_operations_foldS.
    destruct (parse_expr_nonum _ _ _ _ _ (rt_nonum e 0 Hwf) HP') as (Hn & _).
    rewrite (foldS_nonum X Hn). reflexivity.
  Qed.
End Lex.

(* ---- 7. the parser's image (number-free text) consists of such trees ---------------------------------------- *)
Definition tok_ok (t : tok) : bool := match t with TNum _ => false | TVar v => var_ok v | _ => true end.

Lemma span_all (p : N -> bool) : forall s a b, span p s = (a, b) -> forallb p a = true.
Proof.
  induction s as [|c s IH]; intros a b H; cbn in H; [injection H as <- <-; reflexivity|].
  destruct (p c) eqn:E; [|injection H as <- <-; reflexivity].
  destruct (span p s) as [a' b'] eqn:Es. injection H as <- <-. cbn. rewrite E, (IH a' b' eq_refl). reflexivity.
Qed.

Lemma letter_token_ok c : is_ascii_letter c = true ->
  tok_ok (match cnst_of_str [c] with Some k => TConst k | None => TVar [c] end) = true.
Proof.
  intros Hl. destruct (cnst_of_str [c]) eqn:E; [reflexivity|]. cbn [tok_ok var_ok]. rewrite Hl. cbn [andb].
  unfold cnst_of_str in E. cbn [map str_eqb] in E.
  destruct (to_lower c =? 101)%N eqn:E1; [cbn in E; rewrite ?andb_false_r in E; cbn in E|].
  { destruct (to_lower c =? 112)%N; discriminate. }
  assert (c <> 101%N /\ c <> 69%N).
  { split; intros ->; cbn in E1; discriminate. }
  destruct H as (H1 & H2). apply N.eqb_neq in H1. apply N.eqb_neq in H2. rewrite H1, H2. reflexivity.
Qed.

Lemma word_tokens_ok (w : str) : forallb is_ascii_letter w = true -> forallb tok_ok (@word_tokens R w) = true.
Proof.
  intros Hw. unfold word_tokens.
  assert (Hall : forallb tok_ok (map (fun c => match cnst_of_str [c] with Some k => TConst k | None => @TVar R [c] end) w) = true).
  { induction w as [|c w IH]; [reflexivity|]. cbn [forallb] in Hw. apply andb_prop in Hw as [Hc Hw].
    cbn [map forallb]. rewrite (letter_token_ok c Hc), (IH Hw). reflexivity. }
  destruct w as [|c [|d w]].
  - reflexivity.
  - cbn [forallb] in Hw. apply andb_prop in Hw as [Hc _].
    pose proof (letter_token_ok c Hc) as H. destruct (cnst_of_str [c]); cbn [forallb]; rewrite ?H; reflexivity.
  - destruct (func_of_str (c :: d :: w)); [reflexivity|].
    destruct (cnst_of_str (c :: d :: w)); [reflexivity|]. exact Hall.
Qed.

Lemma lex_loop_ok : forall f (s : str) ts, @lex_loop R RNum f s = Ok ts -> forallb not_tnum ts = true -> forallb tok_ok ts = true.
Proof.
  induction f as [|f IH]; intros s ts H Hn; [discriminate|].
  cbn [lex_loop] in H. destruct s as [|ch rest]; [injection H as <-; reflexivity|].
  destruct (is_num_char ch).
  { destruct (span is_num_char (ch :: rest)) as [num rest'].
    destruct (parse_unsigned_dec num) as [xnum|]; [|discriminate].
    destruct (lex_loop f rest') as [rr| |]; cbn [bind] in H; try discriminate. injection H as <-. discriminate. }
  destruct (is_ascii_letter ch) eqn:El.
  { destruct (span is_ascii_letter (ch :: rest)) as [w rest'] eqn:Es.
    destruct (lex_loop f rest') as [r| |] eqn:Er; cbn [bind] in H; try discriminate. injection H as <-.
    rewrite forallb_app in Hn |- *. apply andb_prop in Hn as [_ Hn].
    rewrite (word_tokens_ok w (span_all _ _ _ _ Es)), (IH _ _ Er Hn). reflexivity. }
  assert (Hstep : forall t, tok_ok t = true -> forall r, lex_loop f rest = Ok r -> Ok (t :: r) = Ok ts -> forallb tok_ok ts = true).
  { intros t Ht r Er E. injection E as <-. cbn [forallb] in Hn |- *. apply andb_prop in Hn as [_ Hn].
    rewrite Ht, (IH _ _ Er Hn). reflexivity. }
  destruct (ch =? 960)%N; [destruct (lex_loop f rest) eqn:Er; cbn [bind] in H; try discriminate; eapply Hstep; [|reflexivity|exact H]; reflexivity|].
  destruct (ch =? 964)%N; [destruct (lex_loop f rest) eqn:Er; cbn [bind] in H; try discriminate; eapply Hstep; [|reflexivity|exact H]; reflexivity|].
  destruct (ch =? 981)%N; [destruct (lex_loop f rest) eqn:Er; cbn [bind] in H; try discriminate; eapply Hstep; [|reflexivity|exact H]; reflexivity|].
  destruct (ch =? 40)%N; [destruct (lex_loop f rest) eqn:Er; cbn [bind] in H; try discriminate; eapply Hstep; [|reflexivity|exact H]; reflexivity|].
  destruct (ch =? 41)%N; [destruct (lex_loop f rest) eqn:Er; cbn [bind] in H; try discriminate; eapply Hstep; [|reflexivity|exact H]; reflexivity|].
  destruct (oper_of_char ch); [|discriminate].
  destruct (lex_loop f rest) eqn:Er; cbn [bind] in H; try discriminate. eapply Hstep; [|reflexivity|exact H]; reflexivity.
Qed.

Lemma strip_fac_wf : forall (ts : list tok) (l : tree), wf l = true -> forallb tok_ok ts = true ->
  wf (fst (strip_fac l ts)) = true /\ forallb tok_ok (snd (strip_fac l ts)) = true.
Proof.
  induction ts as [|t ts IH]; intros l Hl Hts; cbn; [auto|].
  cbn [forallb] in Hts. apply andb_prop in Hts as [Ht Hts'].
  destruct t as [x|v|o|fn|c| |]; cbn in Ht |- *; try discriminate; try (split; [exact Hl|cbn; rewrite ?Ht, Hts'; reflexivity]).
  destruct o; cbn; try (split; [exact Hl|exact Hts']).
  apply IH; [cbn; exact Hl|exact Hts'].
Qed.

Lemma bin_loop_wf (rec : list tok -> nat -> res (tree * list tok)) :
  leaves_ok rec ->
  (forall ts bp X r, forallb tok_ok ts = true -> rec ts bp = Ok (X, r) -> wf X = true /\ forallb tok_ok r = true) ->
  forall n l ts bp X r, wf l = true -> forallb tok_ok ts = true -> head_not_fac ts ->
    bin_loop rec n l ts bp = Ok (X, r) -> wf X = true /\ forallb tok_ok r = true.
Proof.
  intros Hlv Hrec. induction n as [|n IH]; intros l ts bp X r Hl Hts Hnf H; [discriminate|].
  cbn [bin_loop] in H. destruct ts as [|t ts']; [injection H as <- <-; auto|].
  destruct t; try (injection H as <- <-; auto).
  destruct (binding_pow o <? bp)%nat; [injection H as <- <-; auto|].
  cbn [forallb tok_ok andb] in Hts.
  destruct (rec ts' (binding_pow o + 1)) as [[rg r']|e|w] eqn:E; cbn [bind] in H; try discriminate.
  destruct (Hrec _ _ _ _ Hts E) as (Hrg & Hr').
  refine (IH _ _ _ _ _ _ Hr' (head_ok_not_fac _ _ (Hlv _ _ _ _ E)) H).
  cbn [wf]. rewrite Hl, Hrg. destruct o; try reflexivity. contradiction.
Qed.

Lemma parse_expr_wf : forall f (ts : list tok) bp X r,
  forallb tok_ok ts = true -> parse_expr f ts bp = Ok (X, r) -> wf X = true /\ forallb tok_ok r = true.
Proof.
  induction f as [|f IH]; intros ts bp X r Hts H; [discriminate|].
  rewrite parse_expr_unfold in H.
  destruct (prefix_part f ts bp) as [[l r0]|e|w] eqn:E; cbn [bind] in H; try discriminate.
  assert (Hp : wf l = true /\ forallb tok_ok r0 = true).
  { unfold prefix_part in E. destruct ts as [|t ts']; [discriminate|].
    cbn [forallb] in Hts. apply andb_prop in Hts as [Ht Hts'].
    destruct t as [x|v|o|fn|c| |]; try discriminate; try (injection E as <- <-; auto).
    - destruct (oper_eqb o OSub) eqn:Eo; [|discriminate].
      destruct (parse_expr f ts' (Nat.max bp BP_PREFIX_MINUS)) as [[v r1]|e0|w0] eqn:E1; cbn [bind] in E; try discriminate.
      injection E as <- <-. destruct (IH _ _ _ _ Hts' E1) as (Hv & Hr1). cbn [wf]. rewrite Eo, Hv. auto.
    - destruct ts' as [|t2 ts2]; [discriminate|]. destruct t2; try discriminate.
      cbn [forallb tok_ok andb] in Hts'.
      destruct (parse_expr f ts2 0) as [[v r1]|e0|w0] eqn:E1; cbn [bind] in E; try discriminate.
      destruct (IH _ _ _ _ Hts' E1) as (Hv & Hr1).
      destruct r1 as [|t1 r2]; [discriminate|]. destruct t1; try discriminate.
      injection E as <- <-. split; [exact Hv|exact Hr1].
    - destruct (parse_expr f ts' 0) as [[v r1]|e0|w0] eqn:E1; cbn [bind] in E; try discriminate.
      destruct (IH _ _ _ _ Hts' E1) as (Hv & Hr1).
      destruct r1 as [|t1 r2]; [discriminate|]. destruct t1; try discriminate.
      injection E as <- <-. split; [destruct v; exact Hv|exact Hr1]. }
  destruct Hp as (Hl & Hr0).
  destruct (strip_fac_wf r0 l Hl Hr0) as (Hl' & Hr').
  pose proof (strip_fac_head r0 l) as Hsf.
  destruct (strip_fac l r0) as [l' r'']. cbn [fst snd] in *.
  apply (bin_loop_wf _ (parse_expr_head f) (IH) _ _ _ _ _ _ Hl' Hr' Hsf H).
Qed.

Lemma implied_mul_ok : forall ts : list tok, forallb tok_ok ts = true -> forallb tok_ok (implied_mul ts) = true.
Proof.
  induction ts as [|a r IH]; intros H; [reflexivity|].
  cbn [forallb] in H. apply andb_prop in H as [Ha Hr].
  cbn [implied_mul]. destruct r as [|b r']; [cbn; rewrite Ha; reflexivity|].
  destruct (needs_cdot a b); cbn [forallb tok_ok]; rewrite Ha, (IH Hr); reflexivity.
Qed.

Section Image.
  Variable fmt : R -> str.

  (* the statement about the parser's image: text without digits *)
  Lemma c19_display_roundtrip_image_lemma : forall (s : str) (ts : list tok) (e : tree),
    lexer s = Ok ts -> forallb not_tnum ts = true -> parse_unfolded ts = Ok e ->
    (exists e', reread fmt e = Ok e' /\ forall rho, denote e' rho = denote e rho) /\ parser ts = Ok e.
  Proof.
    intros s ts e Hlex Hn Hp.
    assert (Hok : forallb tok_ok ts = true) by (apply (lex_loop_ok _ _ _ Hlex Hn)).
    assert (Hwf : wf e = true).
    { unfold parse_unfolded in Hp.
      destruct (parse_expr (S (length (implied_mul ts))) (implied_mul ts) 0) as [[e1 r]|e1|w] eqn:E; cbn [bind] in Hp; try discriminate.
      destruct r; [|discriminate]. injection Hp as <-.
      apply (parse_expr_wf _ _ _ _ _ (implied_mul_ok ts Hok) E). }
    split; [apply c19_display_roundtrip_lemma; exact Hwf|].
    unfold parser. rewrite Hp. cbn [bind]. rewrite fold_operations_foldS.
    assert (Hnn : nonum e = true).
    { clear -Hwf. induction e as [x|v|c|fn i IH|o s IH|o s IH|o l IHl r IHr p]; try discriminate; try reflexivity; cbn [wf nonum] in *.
      - apply IH; exact Hwf.
      - apply andb_prop in Hwf as [_ H]. apply IH; exact H.
      - apply andb_prop in Hwf as [_ H]. apply IH; exact H.
      - apply andb_prop in Hwf as [H Hr]. apply andb_prop in H as [_ Hl]. rewrite (IHl Hl), (IHr Hr). reflexivity. }
    rewrite (foldS_nonum e Hnn). reflexivity.
  Qed.
End Image.
