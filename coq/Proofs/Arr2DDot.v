(* Proofs/Arr2DDot.v — C11: products of Arr2D follow the algebraic definition.
   Everything is proved for an arbitrary commutative ring presented through the
   [Num] interface ([NumRing]); Z (ZNum) and R (RNum) are instances. *)
From Coq Require Import ZArith NArith List Bool Arith Lia Reals Ring.
From Coq Require Import setoid_ring.RealField.
From SV Require Import Base.Num Base.Outcome Model.Arr2D Proofs.Arr2D.
Import ListNotations.
Local Open Scope res_scope.

Class NumRing (T : Type) {NT : Num T} : Prop :=
  { nr_ring : ring_theory (@n0 T NT) n1 nadd nmul nsub nneg (@eq T) }.

#[export] Instance ZRing : @NumRing Z ZNum := @Build_NumRing Z ZNum Zth.
#[export] Instance RRing : @NumRing R RNum := @Build_NumRing R RNum RTheory.

(* the specification sums, independent of the loops of the model *)
Definition lsum {T : Type} {NT : Num T} (f : nat -> T) (l : list nat) : T :=
  fold_right (fun k s => nadd (f k) s) n0 l.
Definition rsum {T : Type} {NT : Num T} (n : nat) (f : nat -> T) : T := lsum f (seq 0 n).
(* entry (i,j) of the algebraic product: sum over k of A_ik * B_kj *)
Definition dot_entry {T : Type} {NT : Num T} (a b : arr T) (i j : nat) : T :=
  rsum (width a) (fun k => nmul (get n0 a i k) (get n0 b k j)).

Section Ring.
  Context {T : Type} {NT : Num T} {NR : NumRing T}.
  Add Ring tring : nr_ring.
  Implicit Types a b c : arr T.
  Notation "x + y" := (nadd x y).
  Notation "x * y" := (nmul x y).
  Notation g := (get (@n0 T NT)).

  (* ---- finite sums ------------------------------------------------------------- *)
  Lemma lsum_cons f x l : lsum f (x :: l) = f x + lsum f l.
  Proof. reflexivity. Qed.

  Lemma lsum_nil f : lsum f [] = n0.
  Proof. reflexivity. Qed.

  Lemma lsum_app f l1 l2 : lsum f (l1 ++ l2) = lsum f l1 + lsum f l2.
  Proof.
    induction l1 as [|x l1 IH].
    - cbn [app]. rewrite lsum_nil. ring.
    - rewrite <- app_comm_cons, !lsum_cons, IH. ring.
  Qed.

  Lemma lsum_ext f f' l : (forall k, In k l -> f k = f' k) -> lsum f l = lsum f' l.
  Proof.
    induction l as [|x l IH]; intro H; [reflexivity|].
    rewrite !lsum_cons, (H x (or_introl eq_refl)), IH; [reflexivity|].
    intros k Hk. apply H. right. exact Hk.
  Qed.

  Lemma lsum_zero l : lsum (fun _ => n0) l = n0.
  Proof. induction l as [|x l IH]; [reflexivity|]. rewrite lsum_cons, IH. ring. Qed.

  Lemma lsum_add f f' l : lsum (fun k => f k + f' k) l = lsum f l + lsum f' l.
  Proof. induction l as [|x l IH]; [rewrite !lsum_nil; ring|]. rewrite !lsum_cons, IH. ring. Qed.

  Lemma lsum_mul_l x f l : lsum (fun k => x * f k) l = x * lsum f l.
  Proof. induction l as [|y l IH]; [rewrite !lsum_nil; ring|]. rewrite !lsum_cons, IH. ring. Qed.

  Lemma lsum_mul_r x f l : lsum (fun k => f k * x) l = lsum f l * x.
  Proof. induction l as [|y l IH]; [rewrite !lsum_nil; ring|]. rewrite !lsum_cons, IH. ring. Qed.

  Lemma lsum_swap (f : nat -> nat -> T) l1 l2 :
    lsum (fun k => lsum (fun m => f k m) l2) l1 = lsum (fun m => lsum (fun k => f k m) l1) l2.
  Proof.
    induction l1 as [|x l1 IH].
    - rewrite lsum_nil. symmetry. apply lsum_zero.
    - rewrite lsum_cons, IH, <- lsum_add. apply lsum_ext. intros m _. reflexivity.
  Qed.

  Lemma rsum_S n f : rsum (S n) f = rsum n f + f n.
  Proof.
    unfold rsum. rewrite seq_S, lsum_app. cbn [plus]. rewrite lsum_cons, lsum_nil. ring.
  Qed.

  Lemma rsum_ext n f f' : (forall k, k < n -> f k = f' k) -> rsum n f = rsum n f'.
  Proof. intro H. apply lsum_ext. intros k Hk. apply in_seq in Hk. apply H. lia. Qed.

  Lemma rsum_delta n i (f : nat -> T) :
    rsum n (fun k => if k =? i then f k else n0) = if i <? n then f i else n0.
  Proof.
    induction n as [|n IH]; [reflexivity|].
    rewrite rsum_S, IH.
    destruct (Nat.eq_dec n i) as [->|Hne].
    - rewrite Nat.eqb_refl, Nat.ltb_irrefl.
      replace (i <? S i) with true by (symmetry; apply Nat.ltb_lt; lia). ring.
    - replace (n =? i) with false by (symmetry; apply Nat.eqb_neq; exact Hne).
      destruct (i <? n) eqn:E1.
      + apply Nat.ltb_lt in E1. replace (i <? S n) with true by (symmetry; apply Nat.ltb_lt; lia). ring.
      + apply Nat.ltb_ge in E1. replace (i <? S n) with false by (symmetry; apply Nat.ltb_ge; lia). ring.
  Qed.

  (* the accumulation loop `let mut sum = 0; for k in 0..n { sum += x_k * y_k }` *)
  Lemma acc_loop n (fx fy : nat -> res T) (x y : nat -> T) :
    (forall k, k < n -> fx k = Ok (x k)) -> (forall k, k < n -> fy k = Ok (y k)) ->
    forM n (fun k sum => let* u := fx k in let* v := fy k in Ok (sum + u * v)) n0
    = Ok (rsum n (fun k => x k * y k)).
  Proof.
    intros Hx Hy.
    destruct (forM_inv (fun k s => s = rsum k (fun k => x k * y k))
               (fun k sum => let* u := fx k in let* v := fy k in Ok (sum + u * v)) n n0) as [s [E P]].
    - reflexivity.
    - intros i s Hi ->. rewrite (Hx i Hi), (Hy i Hi). cbn [bind].
      eexists. split; [reflexivity|]. rewrite rsum_S. reflexivity.
    - rewrite E, P. reflexivity.
  Qed.

  (* ---- dot ------------------------------------------------------------------------ *)
  Lemma is_1x1_true a : is_1x1 a = true <-> height a = 1 /\ width a = 1.
  Proof.
    unfold is_1x1. rewrite andb_true_iff, !Nat.eqb_eq. tauto.
  Qed.

  Lemma dot_scalar_left a b :
    Inv a -> Inv b -> is_1x1 a = true ->
    exists c, dot a b = Ok c /\ Inv c /\ height c = height b /\ width c = width b /\
      forall i j, i < height b -> j < width b -> g c i j = g a 0 0 * g b i j.
  Proof.
    intros Ia Ib H1. unfold dot. rewrite H1. cbn [orb].
    apply is_1x1_true in H1. destruct H1 as [Hh Hw].
    rewrite (get_rc_ok n0 a 0 0 Ia) by lia. cbn [bind].
    apply (fill_loop_spec n0 (height b) (width b) _ (fun i j => g a 0 0 * g b i j)).
    - apply full_inv.
    - reflexivity.
    - reflexivity.
    - intros i j Hi Hj. rewrite (get_rc_ok n0 b i j Ib Hi Hj). reflexivity.
  Qed.

  Lemma dot_scalar_right a b :
    Inv a -> Inv b -> is_1x1 a = false -> is_1x1 b = true ->
    exists c, dot a b = Ok c /\ Inv c /\ height c = height a /\ width c = width a /\
      forall i j, i < height a -> j < width a -> g c i j = g b 0 0 * g a i j.
  Proof.
    intros Ia Ib H0 H1. unfold dot. rewrite H0, H1. cbn [orb].
    apply is_1x1_true in H1. destruct H1 as [Hh Hw].
    rewrite (get_rc_ok n0 b 0 0 Ib) by lia. cbn [bind].
    apply (fill_loop_spec n0 (height a) (width a) _ (fun i j => g b 0 0 * g a i j)).
    - apply full_inv.
    - reflexivity.
    - reflexivity.
    - intros i j Hi Hj. rewrite (get_rc_ok n0 a i j Ia Hi Hj). reflexivity.
  Qed.

  Lemma dot_plain a b :
    Inv a -> Inv b -> is_1x1 a = false -> is_1x1 b = false -> width a = height b ->
    exists c, dot a b = Ok c /\ Inv c /\ height c = height a /\ width c = width b /\
      forall i j, i < height a -> j < width b -> g c i j = dot_entry a b i j.
  Proof.
    intros Ia Ib H0 H1 Hc. unfold dot. rewrite H0, H1. cbn [orb].
    rewrite Hc, Nat.eqb_refl. cbn [negb]. rewrite <- Hc.
    apply (fill_loop_spec n0 (height a) (width b) _ (dot_entry a b)).
    - apply full_inv.
    - reflexivity.
    - reflexivity.
    - intros i j Hi Hj. unfold dot_entry.
      apply (acc_loop (width a) (fun k => get_rc a i k) (fun k => get_rc b k j)
                      (fun k => g a i k) (fun k => g b k j)).
      + intros k Hk. apply get_rc_ok; auto.
      + intros k Hk. apply get_rc_ok; auto. lia.
  Qed.

  Lemma rsum_1 f : rsum 1 f = f 0.
  Proof. unfold rsum. cbn [seq]. rewrite lsum_cons, lsum_nil. ring. Qed.

  (* C11: conforming shapes, every shape *)
  Lemma c11_conforming a b :
    Inv a -> Inv b -> width a = height b ->
    exists c, dot a b = Ok c /\ Inv c /\ height c = height a /\ width c = width b /\
      forall i j, i < height a -> j < width b -> g c i j = dot_entry a b i j.
  Proof.
    intros Ia Ib Hc.
    destruct (is_1x1 a) eqn:Ea.
    - destruct (dot_scalar_left a b Ia Ib Ea) as [c [E [Ic [Hh [Hw G]]]]].
      apply is_1x1_true in Ea. destruct Ea as [Ha1 Ha2].
      exists c. split; [exact E|]. split; [exact Ic|].
      split; [lia|]. split; [exact Hw|].
      intros i j Hi Hj. rewrite G by lia. unfold dot_entry. rewrite Ha2, rsum_1.
      replace i with 0 by lia. reflexivity.
    - destruct (is_1x1 b) eqn:Eb.
      + destruct (dot_scalar_right a b Ia Ib Ea Eb) as [c [E [Ic [Hh [Hw G]]]]].
        apply is_1x1_true in Eb. destruct Eb as [Hb1 Hb2].
        exists c. split; [exact E|]. split; [exact Ic|].
        split; [exact Hh|]. split; [lia|].
        intros i j Hi Hj. rewrite G by lia. unfold dot_entry.
        replace (width a) with 1 by lia. rewrite rsum_1.
        replace j with 0 by lia. ring.
      + apply dot_plain; auto.
  Qed.

  (* C11: a 1x1 left operand scales the other operand, whatever its shape *)
  Lemma c11_scalar_left a b :
    Inv a -> Inv b -> height a = 1 -> width a = 1 ->
    exists c, dot a b = Ok c /\ Inv c /\ height c = height b /\ width c = width b /\
      forall i j, i < height b -> j < width b -> g c i j = g a 0 0 * g b i j.
  Proof.
    intros Ia Ib Hh Hw. apply dot_scalar_left; auto. apply is_1x1_true. auto.
  Qed.

  (* ... and so does a 1x1 right operand (the property also allows a rejection there) *)
  Lemma c11_scalar_right a b :
    Inv a -> Inv b -> height b = 1 -> width b = 1 ->
    exists c, dot a b = Ok c /\ Inv c /\ height c = height a /\ width c = width a /\
      forall i j, i < height a -> j < width a -> g c i j = g a i j * g b 0 0.
  Proof.
    intros Ia Ib Hh Hw.
    assert (Eb : is_1x1 b = true) by (apply is_1x1_true; auto).
    destruct (is_1x1 a) eqn:Ea.
    - destruct (dot_scalar_left a b Ia Ib Ea) as [c [E [Ic [Hh' [Hw' G]]]]].
      apply is_1x1_true in Ea. destruct Ea as [Ha1 Ha2].
      exists c. split; [exact E|]. split; [exact Ic|]. split; [lia|]. split; [lia|].
      intros i j Hi Hj. rewrite G by lia.
      replace i with 0 by lia. replace j with 0 by lia. reflexivity.
    - destruct (dot_scalar_right a b Ia Ib Ea Eb) as [c [E [Ic [Hh' [Hw' G]]]]].
      exists c. split; [exact E|]. split; [exact Ic|]. split; [exact Hh'|]. split; [exact Hw'|].
      intros i j Hi Hj. rewrite G by lia. ring.
  Qed.

  (* C11: every other pair is a shape error; dot never panics on well-formed arrays *)
  Lemma c11_shape_error a b :
    (~ (height a = 1 /\ width a = 1) -> ~ (height b = 1 /\ width b = 1) -> width a <> height b ->
       dot a b = Err EInvalidDotShape) /\
    (Inv a -> Inv b -> no_panic (dot a b)).
  Proof.
    split.
    - intros Ha Hb Hc. unfold dot.
      destruct (is_1x1 a) eqn:Ea; [apply is_1x1_true in Ea; tauto|].
      destruct (is_1x1 b) eqn:Eb; [apply is_1x1_true in Eb; tauto|].
      cbn [orb]. apply Nat.eqb_neq in Hc. rewrite Hc. reflexivity.
    - intros Ia Ib w.
      destruct (is_1x1 a) eqn:Ea.
      + destruct (dot_scalar_left a b Ia Ib Ea) as [c [E _]]. rewrite E. discriminate.
      + destruct (is_1x1 b) eqn:Eb.
        * destruct (dot_scalar_right a b Ia Ib Ea Eb) as [c [E _]]. rewrite E. discriminate.
        * destruct (Nat.eq_dec (width a) (height b)) as [Hc|Hc].
          -- destruct (dot_plain a b Ia Ib Ea Eb Hc) as [c [E _]]. rewrite E. discriminate.
          -- unfold dot. rewrite Ea, Eb. cbn [orb]. apply Nat.eqb_neq in Hc. rewrite Hc. discriminate.
  Qed.

  (* C11: the four operator forms *)
  Lemma c11_operator a b :
    forall f, In f [mul_ref_ref; mul_own_own; mul_own_ref; mul_ref_own] ->
      (forall c, dot a b = Ok c -> f a b = Ok c) /\
      (forall e, dot a b = Err e -> f a b = Ok (mkArr [] 0 0)) /\
      (forall w, dot a b = Panic w -> f a b = Panic w).
  Proof.
    intros f Hf. cbn [In] in Hf.
    destruct Hf as [<-|[<-|[<-|[<-|[]]]]];
      unfold mul_ref_ref, mul_own_own, mul_own_ref, mul_ref_own, unwrap_or_default;
      (repeat split; intros x E; rewrite E; reflexivity).
  Qed.

  (* C11: scalar multiply / divide are elementwise *)
  Lemma smul_spec a k : Inv a ->
    exists c, smul a k = Ok c /\ Inv c /\ height c = height a /\ width c = width a /\
      forall i j, i < height a -> j < width a -> g c i j = g a i j * k.
  Proof.
    intro Ia. unfold smul.
    apply (fill_loop_spec n0 (height a) (width a) _ (fun i j => g a i j * k)).
    - apply full_inv.
    - reflexivity.
    - reflexivity.
    - intros i j Hi Hj. rewrite (get_rc_ok n0 a i j Ia Hi Hj). reflexivity.
  Qed.

  Lemma sdiv_spec int_div a k : Inv a -> int_div && neqb k n0 = false ->
    exists c, sdiv int_div a k = Ok c /\ Inv c /\ height c = height a /\ width c = width a /\
      forall i j, i < height a -> j < width a -> g c i j = ndiv (g a i j) k.
  Proof.
    intros Ia Hk. unfold sdiv. rewrite Hk.
    apply (fill_loop_spec n0 (height a) (width a) _ (fun i j => ndiv (g a i j) k)).
    - apply full_inv.
    - reflexivity.
    - reflexivity.
    - intros i j Hi Hj. rewrite (get_rc_ok n0 a i j Ia Hi Hj). reflexivity.
  Qed.

  Lemma foldM_id {A S : Type} (l : list A) (s : S) : foldM l (fun _ r => Ok r) s = Ok s.
  Proof. induction l as [|x l IH]; [reflexivity|]. cbn [foldM bind]. exact IH. Qed.

  Lemma sdiv_zero a k : Inv a -> neqb k n0 = true ->
    sdiv true a k = if is_empty a then Ok (full n0 (height a) (width a)) else Panic WDivZero.
  Proof.
    intros Ia Hk. unfold sdiv. rewrite Hk. cbn [andb]. unfold is_empty.
    destruct (height a =? 0) eqn:Eh; [|destruct (width a =? 0) eqn:Ew]; cbn [orb].
    - apply Nat.eqb_eq in Eh. rewrite Eh. reflexivity.
    - apply Nat.eqb_eq in Ew. rewrite Ew. unfold fill_loop, forM.
      cbn [seq foldM]. apply foldM_id.
    - apply Nat.eqb_neq in Eh. apply Nat.eqb_neq in Ew.
      apply fill_loop_panic; [lia|lia|].
      rewrite (get_rc_ok n0 a 0 0 Ia) by lia. reflexivity.
  Qed.

  Lemma c11_scalar_ops a k : Inv a ->
    (exists c, smul a k = Ok c /\ Inv c /\ height c = height a /\ width c = width a /\
       forall i j, i < height a -> j < width a -> g c i j = g a i j * k) /\
    (forall int_div, int_div && neqb k n0 = false ->
     exists c, sdiv int_div a k = Ok c /\ Inv c /\ height c = height a /\ width c = width a /\
       forall i j, i < height a -> j < width a -> g c i j = ndiv (g a i j) k) /\
    (neqb k n0 = true ->
     sdiv true a k = if is_empty a then Ok (full n0 (height a) (width a)) else Panic WDivZero).
  Proof.
    intro Ia. split; [apply smul_spec; exact Ia|].
    split; [intros; apply sdiv_spec; auto|apply sdiv_zero; exact Ia].
  Qed.

End Ring.

Section Laws.
  Context {T : Type} {NT : Num T} {NR : NumRing T}.
  Add Ring tring2 : nr_ring.
  Implicit Types a b : arr T.
  Notation "x + y" := (nadd x y).
  Notation "x * y" := (nmul x y).
  Notation g := (get (@n0 T NT)).

  Lemma identity_spec n :
    exists m, identity n = Ok m /\ Inv m /\ height m = n /\ width m = n /\
      forall i j, i < n -> j < n -> g m i j = if i =? j then n1 else n0.
  Proof.
    unfold identity.
    destruct (forM_inv (fun i (m : arr T) => Inv m /\ height m = n /\ width m = n /\
        forall r c, r < n -> c < n -> g m r c = if (r =? c) && (r <? i) then n1 else n0)
      (fun i m => set_rc m i i n1) n (full n0 n n)) as [m [E [Im [Hh [Hw G]]]]].
    - split; [apply full_inv|]. split; [reflexivity|]. split; [reflexivity|].
      intros r c Hr Hc. rewrite full_get by auto.
      replace (r <? 0) with false by (symmetry; apply Nat.ltb_ge; lia).
      rewrite andb_false_r. reflexivity.
    - intros i s Hi [Is [Hh [Hw G]]].
      destruct (set_rc_spec n0 s i i n1 Is) as [s' [Es [Is' [Hh' [Hw' G']]]]]; [lia|lia|].
      exists s'. split; [exact Es|]. split; [exact Is'|]. split; [lia|]. split; [lia|].
      intros r c Hr Hc. rewrite G' by lia. rewrite G by auto.
      destruct (Nat.eqb_spec r i), (Nat.eqb_spec c i), (Nat.eqb_spec r c),
               (Nat.ltb_spec r i), (Nat.ltb_spec r (S i)); cbn [andb]; try reflexivity; lia.
    - exists m. split; [exact E|]. split; [exact Im|]. split; [exact Hh|]. split; [exact Hw|].
      intros i j Hi Hj. rewrite G by auto.
      replace (i <? n) with true by (symmetry; apply Nat.ltb_lt; lia).
      rewrite andb_true_r. reflexivity.
  Qed.

  (* C11 laws: identity, transpose of a product, associativity *)
  Lemma c11_identity_left a : Inv a ->
    exists e, identity (height a) = Ok e /\ dot e a = Ok a.
  Proof.
    intro Ia. destruct (identity_spec (height a)) as [e [E [Ie [Hh [Hw G]]]]].
    exists e. split; [exact E|].
    destruct (c11_conforming e a Ie Ia Hw) as [c [Ec [Ic [Hch [Hcw Gc]]]]].
    rewrite Ec. f_equal. apply (arr_ext n0 c a Ic Ia); [lia|lia|].
    intros r c' Hr Hc'. rewrite Gc by lia. unfold dot_entry. rewrite Hw.
    rewrite (rsum_ext _ _ (fun k => if k =? r then g a k c' else n0)).
    - rewrite rsum_delta. replace (r <? height a) with true by (symmetry; apply Nat.ltb_lt; lia). reflexivity.
    - intros k Hk. rewrite G by lia. rewrite (Nat.eqb_sym k r).
      destruct (r =? k) eqn:Erk; [apply Nat.eqb_eq in Erk; subst; ring|ring].
  Qed.

  Lemma c11_identity_right a : Inv a ->
    exists e, identity (width a) = Ok e /\ dot a e = Ok a.
  Proof.
    intro Ia. destruct (identity_spec (width a)) as [e [E [Ie [Hh [Hw G]]]]].
    exists e. split; [exact E|].
    destruct (c11_conforming a e Ia Ie (eq_sym Hh)) as [c [Ec [Ic [Hch [Hcw Gc]]]]].
    rewrite Ec. f_equal. apply (arr_ext n0 c a Ic Ia); [lia|lia|].
    intros r c' Hr Hc'. rewrite Gc by lia. unfold dot_entry.
    rewrite (rsum_ext _ _ (fun k => if k =? c' then g a r k else n0)).
    - rewrite rsum_delta. replace (c' <? width a) with true by (symmetry; apply Nat.ltb_lt; lia). reflexivity.
    - intros k Hk. rewrite G by lia.
      destruct (k =? c') eqn:Ekc; ring.
  Qed.

  Lemma c11_transpose_product a b : Inv a -> Inv b -> width a = height b ->
    exists c ct at_ bt, dot a b = Ok c /\ transpose c = Ok ct /\
      transpose a = Ok at_ /\ transpose b = Ok bt /\ dot bt at_ = Ok ct.
  Proof.
    intros Ia Ib Hc.
    destruct (c11_conforming a b Ia Ib Hc) as [c [Ec [Ic [Hch [Hcw Gc]]]]].
    destruct (transpose_spec n0 c Ic) as [ct [Ect [Ict [Hcth [Hctw Gct]]]]].
    destruct (transpose_spec n0 a Ia) as [ta [Eta [Ita [Htah [Htaw Gta]]]]].
    destruct (transpose_spec n0 b Ib) as [tb [Etb [Itb [Htbh [Htbw Gtb]]]]].
    assert (Hc' : width tb = height ta) by lia.
    destruct (c11_conforming tb ta Itb Ita Hc') as [p [Ep [Ip [Hph [Hpw Gp]]]]].
    exists c, ct, ta, tb. repeat split; auto.
    rewrite Ep. f_equal. apply (arr_ext n0 p ct Ip Ict); [lia|lia|].
    intros i j Hi Hj. rewrite Gp by lia. rewrite Gct by lia. rewrite Gc by lia.
    unfold dot_entry. rewrite Htbw, <- Hc. apply rsum_ext. intros k Hk.
    rewrite Gtb by lia. rewrite Gta by lia. ring.
  Qed.

  Lemma c11_assoc a b (c : arr T) : Inv a -> Inv b -> Inv c -> width a = height b -> width b = height c ->
    exists ab bc l, dot a b = Ok ab /\ dot b c = Ok bc /\ dot ab c = Ok l /\ dot a bc = Ok l.
  Proof.
    intros Ia Ib Ic H1 H2.
    destruct (c11_conforming a b Ia Ib H1) as [ab [Eab [Iab [Habh [Habw Gab]]]]].
    destruct (c11_conforming b c Ib Ic H2) as [bc [Ebc [Ibc [Hbch [Hbcw Gbc]]]]].
    assert (H3 : width ab = height c) by lia.
    assert (H4 : width a = height bc) by lia.
    destruct (c11_conforming ab c Iab Ic H3) as [l [El [Il [Hlh [Hlw Gl]]]]].
    destruct (c11_conforming a bc Ia Ibc H4) as [r [Er [Ir [Hrh [Hrw Gr]]]]].
    exists ab, bc, l. repeat split; auto.
    rewrite Er. f_equal. apply (arr_ext n0 r l Ir Il); [lia|lia|].
    intros i j Hi Hj. rewrite Gr by lia. rewrite Gl by lia.
    unfold dot_entry. rewrite Habw.
    (* sum_k a_ik (sum_m b_km c_mj) = sum_m (sum_k a_ik b_km) c_mj *)
    rewrite (rsum_ext (width a) _ (fun k => rsum (width b) (fun m => g a i k * (g b k m * g c m j)))).
    2:{ intros k Hk. rewrite Gbc by lia. unfold dot_entry, rsum. rewrite lsum_mul_l. reflexivity. }
    rewrite (rsum_ext (width b) _ (fun m => rsum (width a) (fun k => g a i k * (g b k m * g c m j)))).
    2:{ intros m Hm. rewrite Gab by lia. unfold dot_entry, rsum. rewrite <- lsum_mul_r.
        apply lsum_ext. intros k _. ring. }
    unfold rsum. apply lsum_swap.
  Qed.

  Lemma c11_laws a b (c : arr T) :
    (Inv a -> exists e, identity (height a) = Ok e /\ dot e a = Ok a) /\
    (Inv a -> exists e, identity (width a) = Ok e /\ dot a e = Ok a) /\
    (Inv a -> Inv b -> width a = height b ->
       exists p pt at_ bt, dot a b = Ok p /\ transpose p = Ok pt /\
         transpose a = Ok at_ /\ transpose b = Ok bt /\ dot bt at_ = Ok pt) /\
    (Inv a -> Inv b -> Inv c -> width a = height b -> width b = height c ->
       exists ab bc l, dot a b = Ok ab /\ dot b c = Ok bc /\ dot ab c = Ok l /\ dot a bc = Ok l).
  Proof.
    split; [apply c11_identity_left|]. split; [apply c11_identity_right|].
    split; [apply c11_transpose_product|apply c11_assoc].
  Qed.
End Laws.
