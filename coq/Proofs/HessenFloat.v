(* Proofs/HessenFloat.v — C14 at the floating-point level: the rounding error of ONE application
   of a Householder reflector  H = I - tau v v^T  to a vector x, as the model (Model/Hessen.v)
   performs it in binary64 (Coq primitive floats = Rust f64), through Flocq ([Prim2B], [B2R]).

   The model (hh_dot_col / hh_upd_col, hh_dot_row / hh_upd_row) computes, for data v_0..v_(m-1), tau,
   x_0..x_(m-1):
       sh   = (((+0.0 + v_0*x_0) + v_1*x_1) + ...) + v_(m-1)*x_(m-1)      (left to right, from n0 = +0.0)
       yh_i = x_i - ((tau * v_i) * sh)                                     (this association)
   [refl_upd tau v x m i] is that expression.  Roundings on the way to yh_i: the dot product
   ((1+eps)^m: one per product, one per addition except the first, +0.0 + v_0*x_0, which is exact:
   facc_error_sharp), tau*v_i, (tau v_i)*sh, the subtraction: exponent m + 3.

       |yh_i - (x_i - tau v_i s)| <= ((1+eps)^(m+3) - 1) * (|x_i| + |tau| |v_i| sum_t |v_t x_t|)

   with s = sum_t v_t x_t the exact dot product of the float data.  Hypotheses: every product is
   [okmul] (finite; exact value zero or of magnitude >= 2^-1022), every partial sum of the dot
   product and the final subtraction are finite.

   Part B connects this to the loops of [hess_step]: by HessenStep.left_spec / right_spec (valid in
   every Num instance) the entries of [hh_left n k m tau v h] in rows k+1..k+m, columns k..n-1, and the
   entries of [hh_right n k m tau v a] in rows 0..n-1, columns k+1..k+m (used for h and for q), are
   exactly [refl_upd] of a column, resp. a row, of the matrix BEFORE the loop. *)
From Coq Require Import ZArith List Bool Arith Reals Floats Lia Lra.
From Flocq Require Import Core Plus_error Relative BinarySingleNaN PrimFloat.
From SV Require Import Base.Num Base.Outcome Base.Mat Model.Hessen Proofs.HessenReflector Proofs.HessenStep
                       Proofs.Stats Proofs.StatsFloat Proofs.Arr2DFloat Proofs.PolyFloat Proofs.SubstFloat.
Import ListNotations.

Local Open Scope R_scope.
Local Notation pfloat := PrimFloat.float.
Local Notation fexp64 := (SpecFloat.fexp FloatOps.prec FloatOps.emax).
Local Notation rnd64 := (round radix2 fexp64 ZnearestE).

(* ---- the update expression, exactly as the model writes it ---------------------------------- *)
Definition refl_upd (tau : pfloat) (v x : nat -> pfloat) (m i : nat) : pfloat :=
  PrimFloat.sub (x i) (PrimFloat.mul (PrimFloat.mul tau (v i)) (facc v x m)).

(* ---- one finite subtraction, forward form ---------------------------------------------------- *)
Lemma sub_finite_rel (u v : pfloat) :
  ffin u -> ffin v -> ffin (PrimFloat.sub u v) ->
  exists d, Rabs d <= feps /\ FR (PrimFloat.sub u v) = (FR u - FR v) * (1 + d).
Proof.
  unfold ffin, FR. intros Fu Fv Fs. rewrite sub_equiv in *.
  generalize (Bminus_correct FloatOps.prec FloatOps.emax Hprec Hmax mode_NE (Prim2B u) (Prim2B v) Fu Fv).
  destruct (Rlt_bool _ _).
  - intros [H _]. rewrite H. unfold Rminus.
    destruct (@FLT_plus_error_N_ex radix2 (-1074) 53 (eq_refl : Prec_gt_0 53)
                (fun t => negb (Z.even t)) (B2R (Prim2B u)) (- B2R (Prim2B v))
                (generic_format_B2R _ _ (Prim2B u))
                (generic_format_opp _ _ _ (generic_format_B2R _ _ (Prim2B v)))) as [d [Hd Hr]].
    exists d. split; [|exact Hr].
    eapply Rle_trans; [exact Hd|]. rewrite <- u_ro_feps. apply u_rod1pu_ro_le_u_ro.
  - intros [H _]. rewrite <- is_finite_SF_B2SF, H in Fs. discriminate Fs.
Qed.

Lemma feps_le_half : feps <= / 2.
Proof. unfold feps. change (/ 2) with (bpow radix2 (-1)). apply bpow_le. lia. Qed.

(* three roundings *)
Lemma prod3_bound (d1 d2 d3 : R) :
  Rabs d1 <= feps -> Rabs d2 <= feps -> Rabs d3 <= feps ->
  Rabs ((1 + d1) * (1 + d2) * (1 + d3) - 1) <= (1 + feps) ^ 3 - 1.
Proof.
  intros H1 H2 H3. pose proof feps_pos as Hu. pose proof feps_le_half as Hh.
  apply Rabs_le_inv in H1. apply Rabs_le_inv in H2. apply Rabs_le_inv in H3.
  set (u := feps) in *.
  assert (U12 : (1 + d1) * (1 + d2) <= (1 + u) * (1 + u)) by (apply Rmult_le_compat; lra).
  assert (L12 : (1 - u) * (1 - u) <= (1 + d1) * (1 + d2)) by (apply Rmult_le_compat; lra).
  assert (P0 : 0 <= (1 - u) * (1 - u)) by (apply Rmult_le_pos; lra).
  set (P := (1 + d1) * (1 + d2)) in *.
  assert (U : P * (1 + d3) <= (1 + u) * (1 + u) * (1 + u)) by (apply Rmult_le_compat; lra).
  assert (L : (1 - u) * (1 - u) * (1 - u) <= P * (1 + d3)) by (apply Rmult_le_compat; lra).
  assert (Huu : 0 <= u * u) by (apply Rmult_le_pos; lra).
  apply Rabs_le. cbn [pow]. rewrite Rmult_1_r. split; nra.
Qed.

(* ---- the dot product from +0.0: the first addition is exact ------------------------------ *)
(* +0.0 + x is exact *)
Lemma add_zero_exact (x : pfloat) : ffin x -> ffin (PrimFloat.add PrimFloat.zero x) ->
  FR (PrimFloat.add PrimFloat.zero x) = FR x.
Proof.
  intros Fx Fa. pose proof FR_zero as [Z0 Fz]. unfold ffin, FR in *. rewrite add_equiv in *.
  rewrite (Badd_finite_round _ _ Fz Fx Fa), Z0, Rplus_0_l.
  apply round_generic; [apply valid_rnd_N|apply generic_format_B2R].
Qed.

(* recursive summation from +0.0: the first addition is exact, m terms cost m - 1 roundings *)
Lemma fsumN_error_sharp (p : nat -> pfloat) (n : nat) :
  (forall k, (k < n)%nat -> ffin (p k)) ->
  (forall m, (m <= n)%nat -> ffin (fsumN p m)) ->
  forall m, (S m <= n)%nat ->
  Rabs (FR (fsumN p (S m)) - RsumN (fun k => FR (p k)) (S m)) <=
    ((1 + feps) ^ m - 1) * RsumN (fun k => Rabs (FR (p k))) (S m).
Proof.
  intros Hp Hs. induction m as [|m IH]; intros Hm.
  - rewrite fsumN_S, !RsumN_S, !RsumN_0. change (fsumN p 0) with PrimFloat.zero.
    rewrite add_zero_exact.
    + replace (FR (p 0%nat) - (0 + FR (p 0%nat))) with 0 by ring. rewrite Rabs_R0. cbn [pow]. lra.
    + apply Hp. lia.
    + change (ffin (PrimFloat.add (fsumN p 0) (p 0%nat))). rewrite <- fsumN_S. apply Hs. exact Hm.
  - rewrite fsumN_S, (RsumN_S _ (S m)), (RsumN_S _ (S m)).
    assert (Fs : ffin (fsumN p (S m))) by (apply Hs; lia).
    assert (Fp : ffin (p (S m))) by (apply Hp; lia).
    assert (Fa : ffin (PrimFloat.add (fsumN p (S m)) (p (S m)))).
    { rewrite <- fsumN_S. apply Hs. exact Hm. }
    destruct (add_finite_rel _ _ Fs Fp Fa) as [d [Hd ->]].
    rewrite <- tech_pow_Rmult, (Rmult_comm (1 + feps)).
    pose proof feps_pos as Hu.
    apply step_bound.
    + lra.
    + apply pow1p_ge1; lra.
    + exact Hd.
    + apply RsumN_abs_le.
    + apply IH. lia.
Qed.

(* the accumulation of m products without underflow: exponent m *)
Lemma facc_error_sharp (x y : nat -> pfloat) (n : nat) :
  (forall k, (k < n)%nat -> okmul (x k) (y k)) ->
  (forall m, (m <= n)%nat -> ffin (facc x y m)) ->
  Rabs (FR (facc x y n) - RsumN (fun k => FR (x k) * FR (y k)) n) <=
    ((1 + feps) ^ n - 1) * RsumN (fun k => Rabs (FR (x k) * FR (y k))) n.
Proof.
  intros Hok Hs. destruct n as [|n].
  - rewrite !RsumN_0. change (facc x y 0) with PrimFloat.zero.
    rewrite (proj1 FR_zero), Rminus_0_r, Rabs_R0. cbn [pow]. lra.
  - rewrite facc_fsumN.
    set (p := fun k => PrimFloat.mul (x k) (y k)).
    set (t := fun k => FR (x k) * FR (y k)).
    assert (Hp : forall k, (k < S n)%nat -> ffin (p k)) by (intros k Hk; apply (Hok k Hk)).
    pose proof (fsumN_error_sharp p (S n) Hp Hs n (le_n _)) as E1.
    destruct (RsumN_perturb (fun k => FR (p k)) t feps 0 (S n)) as [E2 E3].
    { intros k Hk. rewrite Rplus_0_r. destruct (okmul_rel _ _ (Hok k Hk)) as [_ [d [Hd E]]].
      unfold p, t. rewrite E. replace (FR (x k) * FR (y k) * (1 + d) - FR (x k) * FR (y k))
        with (d * (FR (x k) * FR (y k))) by ring.
      rewrite Rabs_mult. apply Rmult_le_compat_r; [apply Rabs_pos|exact Hd]. }
    rewrite Rmult_0_r, Rplus_0_r in E2, E3.
    pose proof feps_pos as Hu.
    pose proof (pow1p_ge1 feps n (Rlt_le _ _ Hu)) as HQ.
    pose proof (RsumN_abs_nonneg t (S n)) as HA.
    change (RsumN (fun k => Rabs (FR (x k) * FR (y k))) (S n)) with (RsumN (fun k => Rabs (t k)) (S n)).
    set (Q := (1 + feps) ^ n) in *.
    set (A := RsumN (fun k => Rabs (t k)) (S n)) in *.
    set (SP := RsumN (fun k => Rabs (FR (p k))) (S n)) in *.
    rewrite <- tech_pow_Rmult. fold Q.
    replace (FR (fsumN p (S n)) - RsumN t (S n))
      with ((FR (fsumN p (S n)) - RsumN (fun k => FR (p k)) (S n))
            + (RsumN (fun k => FR (p k)) (S n) - RsumN t (S n))) by ring.
    eapply Rle_trans; [apply Rabs_triang|].
    assert (E4 : (Q - 1) * SP <= (Q - 1) * ((1 + feps) * A)) by (apply Rmult_le_compat_l; lra).
    nra.
Qed.

(* ======================================================================================== *)
(* Part A — the bound on the expression                                                     *)
Lemma refl_upd_error (tau : pfloat) (v x : nat -> pfloat) (m i : nat) :
  (forall t, (t < m)%nat -> okmul (v t) (x t)) ->
  (forall t, (t <= m)%nat -> ffin (facc v x t)) ->
  okmul tau (v i) ->
  okmul (PrimFloat.mul tau (v i)) (facc v x m) ->
  ffin (x i) ->
  ffin (refl_upd tau v x m i) ->
  Rabs (FR (refl_upd tau v x m i)
        - (FR (x i) - FR tau * FR (v i) * RsumN (fun t => FR (v t) * FR (x t)) m))
  <= ((1 + feps) ^ (m + 3) - 1)
     * (Rabs (FR (x i)) + Rabs (FR tau) * Rabs (FR (v i)) * RsumN (fun t => Rabs (FR (v t) * FR (x t))) m).
Proof.
  intros Hok Hs O1 O2 Fx Fy. unfold refl_upd in *.
  pose proof (facc_error_sharp v x m Hok Hs) as Es.
  destruct (okmul_rel _ _ O1) as [F1 [d1 [Hd1 E1]]].
  destruct (okmul_rel _ _ O2) as [F2 [d2 [Hd2 E2]]].
  destruct (sub_finite_rel _ _ Fx F2 Fy) as [d3 [Hd3 E3]].
  rewrite E3, E2, E1.
  pose proof (RsumN_abs_le (fun t => FR (v t) * FR (x t)) m) as HsA.
  pose proof (RsumN_abs_nonneg (fun t => FR (v t) * FR (x t)) m) as HA.
  set (s := RsumN (fun t => FR (v t) * FR (x t)) m) in *.
  set (A := RsumN (fun t => Rabs (FR (v t) * FR (x t))) m) in *.
  set (sh := FR (facc v x m)) in *.
  set (xi := FR (x i)). set (c := FR tau * FR (v i)).
  rewrite <- (Rabs_mult (FR tau) (FR (v i))). fold c.
  pose proof (prod3_bound d1 d2 d3 Hd1 Hd2 Hd3) as Hth.
  set (th := (1 + d1) * (1 + d2) * (1 + d3) - 1) in *.
  set (e := sh - s) in *.
  replace ((xi - c * (1 + d1) * sh * (1 + d2)) * (1 + d3) - (xi - c * s))
    with (xi * d3 + - (c * (e * (1 + th) + s * th))) by (unfold th, e; ring).
  rewrite pow_add.
  pose proof feps_pos as Hu.
  pose proof (pow1p_ge1 feps m (Rlt_le _ _ Hu)) as HQ.
  pose proof (pow1p_ge1 feps 3 (Rlt_le _ _ Hu)) as HG.
  assert (HG1 : 1 + feps <= (1 + feps) ^ 3).
  { pose proof (gam_mono 1 3 ltac:(lia)) as G. cbn [pow] in G. cbn [pow]. lra. }
  set (Q := (1 + feps) ^ m) in *. set (G := (1 + feps) ^ 3) in *.
  eapply Rle_trans; [apply Rabs_triang|]. rewrite Rabs_Ropp, !Rabs_mult.
  pose proof (Rabs_pos xi) as Pxi. pose proof (Rabs_pos c) as Pc.
  pose proof (Rabs_pos e) as Pe. pose proof (Rabs_pos s) as Ps. pose proof (Rabs_pos th) as Pth.
  pose proof (Rabs_pos d3) as Pd3.
  assert (T1 : Rabs (e * (1 + th) + s * th) <= Rabs e * (1 + Rabs th) + Rabs s * Rabs th).
  { eapply Rle_trans; [apply Rabs_triang|]. rewrite !Rabs_mult.
    assert (Rabs (1 + th) <= 1 + Rabs th).
    { eapply Rle_trans; [apply Rabs_triang|]. rewrite Rabs_R1. lra. }
    assert (Rabs e * Rabs (1 + th) <= Rabs e * (1 + Rabs th)) by (apply Rmult_le_compat_l; lra).
    lra. }
  assert (T2 : Rabs e * (1 + Rabs th) <= ((Q - 1) * A) * G).
  { apply Rmult_le_compat; lra. }
  assert (T3 : Rabs s * Rabs th <= A * (G - 1)).
  { apply Rmult_le_compat; lra. }
  assert (T4 : Rabs c * Rabs (e * (1 + th) + s * th) <= Rabs c * ((Q * G - 1) * A)).
  { apply Rmult_le_compat_l; [exact Pc|]. lra. }
  assert (HQG : feps <= Q * G - 1).
  { assert (1 * G <= Q * G) by (apply Rmult_le_compat_r; lra). lra. }
  assert (T5 : Rabs xi * Rabs d3 <= Rabs xi * (Q * G - 1)).
  { apply Rmult_le_compat_l; lra. }
  lra.
Qed.

(* Flocq vocabulary only *)
Theorem reflector_apply_float_error :
  forall (tau : PrimFloat.float) (v x : nat -> PrimFloat.float) (m i : nat),
  (forall t, (t < m)%nat -> okmul (v t) (x t)) ->
  (forall t, (t <= m)%nat -> is_finite (Prim2B (facc v x t)) = true) ->
  okmul tau (v i) ->
  okmul (PrimFloat.mul tau (v i)) (facc v x m) ->
  is_finite (Prim2B (x i)) = true ->
  is_finite (Prim2B (refl_upd tau v x m i)) = true ->
  Rabs (B2R (Prim2B (refl_upd tau v x m i))
        - (B2R (Prim2B (x i))
           - B2R (Prim2B tau) * B2R (Prim2B (v i))
             * Rsum (map (fun t => B2R (Prim2B (v t)) * B2R (Prim2B (x t))) (seq 0 m))))
  <= ((1 + bpow radix2 (-53)) ^ (m + 3) - 1)
     * (Rabs (B2R (Prim2B (x i)))
        + Rabs (B2R (Prim2B tau)) * Rabs (B2R (Prim2B (v i)))
          * Rsum (map (fun t => Rabs (B2R (Prim2B (v t)) * B2R (Prim2B (x t)))) (seq 0 m))).
Proof. exact refl_upd_error. Qed.

(* ======================================================================================== *)
(* Part B — the loops of hess_step compute [refl_upd], in the float instance                 *)

Lemma dot_col_facc (k m : nat) (v : vec pfloat) (h : mat pfloat) (c : nat) :
  @hh_dot_col pfloat FNum k m v h c = facc v (fun t => h (k + 1 + t)%nat c) m.
Proof.
  unfold hh_dot_col. exact (sum_range_facc_f 0 m v (fun t => h (k + 1 + t)%nat c)).
Qed.

Lemma dot_row_facc (k m : nat) (v : vec pfloat) (a : mat pfloat) (r : nat) :
  @hh_dot_row pfloat FNum k m v a r = facc v (fun t => a r (k + 1 + t)%nat) m.
Proof.
  unfold hh_dot_row. exact (sum_range_facc_f 0 m v (fun t => a r (k + 1 + t)%nat)).
Qed.

(* left application H*h (first loop of hess_step), entry (k+1+i, c), k <= c < n, i < m *)
Theorem hh_left_entry : forall (n k m : nat) (tau : PrimFloat.float) (v : vec PrimFloat.float)
    (h : mat PrimFloat.float) (i c : nat),
  (k <= c < n)%nat -> (i < m)%nat ->
  @hh_left PrimFloat.float FNum n k m tau v h (k + 1 + i)%nat c
  = refl_upd tau v (fun t => h (k + 1 + t)%nat c) m i.
Proof.
  intros n k m tau v h i c Hc Hi.
  rewrite (left_spec n k m tau v h ltac:(lia)).
  replace (k <=? c)%nat with true by (symmetry; apply Nat.leb_le; lia).
  replace (c <? n)%nat with true by (symmetry; apply Nat.ltb_lt; lia).
  replace (in_rows k m (k + 1 + i)) with true by (symmetry; apply in_rows_true; lia).
  cbn [andb]. replace (k + 1 + i - (k + 1))%nat with i by lia.
  rewrite dot_col_facc. reflexivity.
Qed.

(* right application a*H (second and third loops of hess_step: a = h1, a = q),
   entry (r, k+1+i), r < n, i < m *)
Theorem hh_right_entry : forall (n k m : nat) (tau : PrimFloat.float) (v : vec PrimFloat.float)
    (a : mat PrimFloat.float) (r i : nat),
  (r < n)%nat -> (i < m)%nat ->
  @hh_right PrimFloat.float FNum n k m tau v a r (k + 1 + i)%nat
  = refl_upd tau v (fun t => a r (k + 1 + t)%nat) m i.
Proof.
  intros n k m tau v a r i Hr Hi.
  rewrite (right_spec n k m tau v a).
  replace (r <? n)%nat with true by (symmetry; apply Nat.ltb_lt; lia).
  replace (in_rows k m (k + 1 + i)) with true by (symmetry; apply in_rows_true; lia).
  cbn [andb]. replace (k + 1 + i - (k + 1))%nat with i by lia.
  rewrite dot_row_facc. reflexivity.
Qed.

(* the left application, entry by entry, with its error bound *)
Theorem hh_left_float_error : forall (n k m : nat) (tau : PrimFloat.float) (v : vec PrimFloat.float)
    (h : mat PrimFloat.float) (i c : nat),
  (k <= c < n)%nat -> (i < m)%nat ->
  let x := fun t => h (k + 1 + t)%nat c in
  let y := @hh_left PrimFloat.float FNum n k m tau v h (k + 1 + i)%nat c in
  (forall t, (t < m)%nat -> okmul (v t) (x t)) ->
  (forall t, (t <= m)%nat -> is_finite (Prim2B (facc v x t)) = true) ->
  okmul tau (v i) ->
  okmul (PrimFloat.mul tau (v i)) (facc v x m) ->
  is_finite (Prim2B (x i)) = true ->
  is_finite (Prim2B y) = true ->
  Rabs (B2R (Prim2B y)
        - (B2R (Prim2B (x i))
           - B2R (Prim2B tau) * B2R (Prim2B (v i))
             * Rsum (map (fun t => B2R (Prim2B (v t)) * B2R (Prim2B (x t))) (seq 0 m))))
  <= ((1 + bpow radix2 (-53)) ^ (m + 3) - 1)
     * (Rabs (B2R (Prim2B (x i)))
        + Rabs (B2R (Prim2B tau)) * Rabs (B2R (Prim2B (v i)))
          * Rsum (map (fun t => Rabs (B2R (Prim2B (v t)) * B2R (Prim2B (x t)))) (seq 0 m))).
Proof.
  intros n k m tau v h i c Hc Hi x y. unfold y. rewrite (hh_left_entry n k m tau v h i c Hc Hi).
  fold x. apply reflector_apply_float_error.
Qed.

(* the right application (to h and to q), entry by entry, with its error bound *)
Theorem hh_right_float_error : forall (n k m : nat) (tau : PrimFloat.float) (v : vec PrimFloat.float)
    (a : mat PrimFloat.float) (r i : nat),
  (r < n)%nat -> (i < m)%nat ->
  let x := fun t => a r (k + 1 + t)%nat in
  let y := @hh_right PrimFloat.float FNum n k m tau v a r (k + 1 + i)%nat in
  (forall t, (t < m)%nat -> okmul (v t) (x t)) ->
  (forall t, (t <= m)%nat -> is_finite (Prim2B (facc v x t)) = true) ->
  okmul tau (v i) ->
  okmul (PrimFloat.mul tau (v i)) (facc v x m) ->
  is_finite (Prim2B (x i)) = true ->
  is_finite (Prim2B y) = true ->
  Rabs (B2R (Prim2B y)
        - (B2R (Prim2B (x i))
           - B2R (Prim2B tau) * B2R (Prim2B (v i))
             * Rsum (map (fun t => B2R (Prim2B (v t)) * B2R (Prim2B (x t))) (seq 0 m))))
  <= ((1 + bpow radix2 (-53)) ^ (m + 3) - 1)
     * (Rabs (B2R (Prim2B (x i)))
        + Rabs (B2R (Prim2B tau)) * Rabs (B2R (Prim2B (v i)))
          * Rsum (map (fun t => Rabs (B2R (Prim2B (v t)) * B2R (Prim2B (x t)))) (seq 0 m))).
Proof.
  intros n k m tau v a r i Hr Hi x y. unfold y. rewrite (hh_right_entry n k m tau v a r i Hr Hi).
  fold x. apply reflector_apply_float_error.
Qed.

(* ---- non-vacuity: m = 3, by computation ------------------------------------------------------ *)
(* v = (1, 0.5, -0.25), tau = 1.5, x = (0.1, 3, -2)  (nearest binary64 values) *)
Definition ex_v : nat -> PrimFloat.float := vec_of_list [0x1p+0; 0x1p-1; -0x1p-2]%float.
Definition ex_x : nat -> PrimFloat.float := vec_of_list [0x1.999999999999ap-4; 0x1.8p+1; -0x1p+1]%float.
Definition ex_tau : PrimFloat.float := 0x1.8p+0%float.

Ltac okmul_compute := apply okmul_by_leb; vm_compute; reflexivity.
Ltac fin_compute := rewrite <- is_finite_equiv; vm_compute; reflexivity.

Example ex_reflector_hyps : forall i, (i < 3)%nat ->
  (forall t, (t < 3)%nat -> okmul (ex_v t) (ex_x t)) /\
  (forall t, (t <= 3)%nat -> is_finite (Prim2B (facc ex_v ex_x t)) = true) /\
  okmul ex_tau (ex_v i) /\
  okmul (PrimFloat.mul ex_tau (ex_v i)) (facc ex_v ex_x 3) /\
  is_finite (Prim2B (ex_x i)) = true /\
  is_finite (Prim2B (refl_upd ex_tau ex_v ex_x 3 i)) = true.
Proof.
  intros i Hi. split; [|split].
  - intros t Ht. destruct t as [|[|[|t]]]; try lia; okmul_compute.
  - intros t Ht. destruct t as [|[|[|[|t]]]]; try lia; fin_compute.
  - destruct i as [|[|[|i]]]; try lia;
      (split; [okmul_compute|]; split; [okmul_compute|]; split; fin_compute).
Qed.
