(* Proofs/Newton.v — lemmas about Model/Solvers.v (Newton-Raphson). *)
From Coq Require Import ZArith List Reals Lra Lia Bool Arith Psatz.
From Coquelicot Require Import Coquelicot.
From SV Require Import Base.Num Base.Outcome Model.Poly Model.Solvers Proofs.Bisect.
Import ListNotations.
Local Open Scope R_scope.

(* ------------------------------------------------------------------------- *)
(* generic facts (every Num instance)                                         *)
(* ------------------------------------------------------------------------- *)
Section Generic.
  Context {T : Type} {NT : Num T}.
  Variables (f f' : T -> res T) (tol : T) (cap : nat).

  Definition nr_err1 (s : nstate T) (x : T) : option T :=
    if nneb x n0 then Some (nmul (ndiv (nabs (nsub x (ns_x s))) x) c100) else None.

  Lemma nr_body_ok s s' b : nr_body f f' tol cap s = Ok (s', b) ->
    exists v d, f (ns_x s) = Ok v /\ f' (ns_x s) = Ok d /\
      ns_x s' = nsub (ns_x s) (ndiv v d) /\ ns_old s' = ns_x s /\ ns_iter s' = S (ns_iter s) /\
      b = (err_small (ns_err s') tol || Nat.leb cap (S (ns_iter s))) /\
      ( (nfinite (ns_x s') = true /\ exists vx, f (ns_x s') = Ok vx /\
           ns_err s' = if neqb vx n0 then Some n0 else nr_err1 s (ns_x s'))
     \/ (nfinite (ns_x s') = false /\ ns_err s' = nr_err1 s (ns_x s')) ).
  Proof.
    unfold nr_body.
    destruct (f (ns_x s)) as [v|e|w]; cbn [bind]; try discriminate.
    destruct (f' (ns_x s)) as [d|e|w]; cbn [bind]; try discriminate.
    set (x := nsub (ns_x s) (ndiv v d)).
    fold (nr_err1 s x).
    destruct (nfinite x) eqn:Ef.
    - destruct (f x) as [vx|e|w] eqn:Ex; cbn [bind]; try discriminate.
      intro H. injection H as <- <-. exists v, d. cbn [ns_x ns_old ns_iter ns_err].
      repeat (split; [reflexivity|]). left. split; [exact Ef|]. exists vx. split; [exact Ex|reflexivity].
    - cbn [bind]. intro H. injection H as <- <-. exists v, d. cbn [ns_x ns_old ns_iter ns_err].
      repeat (split; [reflexivity|]). right. split; [exact Ef|reflexivity].
  Qed.

  Lemma nr_body_no_panic s : (forall x, no_panic (f x)) -> (forall x, no_panic (f' x)) ->
    no_panic (nr_body f f' tol cap s).
  Proof.
    intros Hf Hf' w. unfold nr_body.
    destruct (f (ns_x s)) as [v|e|w'] eqn:E1; cbn [bind]; try discriminate.
    2:{ intros _. exact (Hf _ w' E1). }
    destruct (f' (ns_x s)) as [d|e|w'] eqn:E2; cbn [bind]; try discriminate.
    2:{ intros _. exact (Hf' _ w' E2). }
    destruct (nfinite _); cbn [bind]; [|discriminate].
    destruct (f (nsub (ns_x s) (ndiv v d))) as [vx|e|w'] eqn:E3; cbn [bind]; try discriminate.
    intros _. exact (Hf _ w' E3).
  Qed.

  Lemma nr_body_err s e : nr_body f f' tol cap s = Err e -> (exists x, f x = Err e) \/ (exists x, f' x = Err e).
  Proof.
    unfold nr_body.
    destruct (f (ns_x s)) as [v|e1|w'] eqn:E1; cbn [bind]; try discriminate.
    2:{ intro H. injection H as <-. left. eauto. }
    destruct (f' (ns_x s)) as [d|e1|w'] eqn:E2; cbn [bind]; try discriminate.
    2:{ intro H. injection H as <-. right. eauto. }
    destruct (nfinite _); cbn [bind]; [|discriminate].
    destruct (f (nsub (ns_x s) (ndiv v d))) as [vx|e1|w'] eqn:E3; cbn [bind]; try discriminate.
    intro H. injection H as <-. left. eauto.
  Qed.

  Lemma nr_loop_last (I : nstate T -> Prop) :
    (forall s s', I s -> nr_body f f' tol cap s = Ok (s', false) -> I s') ->
    forall fuel s r, I s -> nr_loop f f' tol cap fuel s = Ok r ->
    exists s0, I s0 /\ nr_body f f' tol cap s0 = Ok (r, true).
  Proof.
    intros Hstep. induction fuel as [|k IH]; intros s r Hs; cbn [nr_loop];
      destruct (nr_body f f' tol cap s) as [[s' brk]|e|w] eqn:Eb; try discriminate; destruct brk.
    - intro H. injection H as <-. exists s. split; assumption.
    - discriminate.
    - intro H. injection H as <-. exists s. split; assumption.
    - intro H. apply (IH s' r); [|exact H]. apply (Hstep s s'); assumption.
  Qed.

  Lemma nr_loop_no_panic : (forall x, no_panic (f x)) -> (forall x, no_panic (f' x)) ->
    forall fuel s, (cap <= ns_iter s + fuel)%nat -> no_panic (nr_loop f f' tol cap fuel s).
  Proof.
    intros Hf Hf'. induction fuel as [|k IH]; intros s Hc w; cbn [nr_loop];
      destruct (nr_body f f' tol cap s) as [[s' brk]|e|w'] eqn:Eb; try discriminate.
    - destruct brk; [discriminate|]. exfalso.
      apply nr_body_ok in Eb. destruct Eb as (v & d & _ & _ & _ & _ & _ & Hb & _).
      symmetry in Hb. apply orb_false_elim in Hb. destruct Hb as [_ Hb].
      apply Nat.leb_gt in Hb. lia.
    - intros _. exact (nr_body_no_panic s Hf Hf' w' Eb).
    - destruct brk; [discriminate|].
      apply nr_body_ok in Eb. destruct Eb as (v & d & _ & _ & _ & _ & Hi & Hb & _).
      symmetry in Hb. apply orb_false_elim in Hb. destruct Hb as [_ Hb].
      apply Nat.leb_gt in Hb. apply IH. lia.
    - intros _. exact (nr_body_no_panic s Hf Hf' w' Eb).
  Qed.

  Lemma nr_loop_err fuel : forall s e, nr_loop f f' tol cap fuel s = Err e ->
    (exists x, f x = Err e) \/ (exists x, f' x = Err e).
  Proof.
    induction fuel as [|k IH]; intros s e; cbn [nr_loop];
      destruct (nr_body f f' tol cap s) as [[s' brk]|e1|w'] eqn:Eb; try discriminate.
    - destruct brk; discriminate.
    - intro H. injection H as <-. exact (nr_body_err s e1 Eb).
    - destruct brk; [discriminate|]. apply IH.
    - intro H. injection H as <-. exact (nr_body_err s e1 Eb).
  Qed.

  (* the loop counter: every body adds one; at the exit it is at most max cap 1 *)
  Lemma nr_loop_iter_le fuel : forall s r,
    (ns_iter s < cap \/ ns_iter s = 0)%nat -> nr_loop f f' tol cap fuel s = Ok r ->
    (ns_iter s < ns_iter r <= Nat.max cap 1)%nat.
  Proof.
    induction fuel as [|k IH]; intros s r Hs; cbn [nr_loop];
      destruct (nr_body f f' tol cap s) as [[s' brk]|e|w'] eqn:Eb; try discriminate;
      apply nr_body_ok in Eb; destruct Eb as (v & d & _ & _ & _ & _ & Hi & Hb & _); destruct brk; try discriminate.
    - intro H. injection H as <-. lia.
    - intro H. injection H as <-. lia.
    - symmetry in Hb. apply orb_false_elim in Hb. destruct Hb as [_ Hb]. apply Nat.leb_gt in Hb.
      intro H. apply IH in H; lia.
  Qed.
End Generic.

Lemma c07_total : forall (T : Type) (NT : Num T) (f f' : T -> res T) (x0 : T) (cap : nat) (tol : T),
  (forall x, no_panic (f x)) -> (forall x, no_panic (f' x)) ->
  no_panic (nrm f f' x0 cap tol) /\
  no_panic (nr_loop f f' tol cap cap (nr_start x0)) /\
  (forall r, nr_loop f f' tol cap cap (nr_start x0) = Ok r -> (1 <= ns_iter r <= Nat.max cap 1)%nat) /\
  (forall e, nrm f f' x0 cap tol = Err e ->
     e = EMaxIterationsReached \/ (exists x, f x = Err e) \/ (exists x, f' x = Err e)).
Proof.
  intros T NT f f' x0 cap tol Hf Hf'.
  assert (Hl : no_panic (nr_loop f f' tol cap cap (nr_start x0))).
  { apply nr_loop_no_panic; try assumption. cbn. lia. }
  split; [|split; [exact Hl|split]].
  - unfold nrm. apply bind_no_panic; [exact Hl|].
    intros s _. destruct (Nat.leb cap (ns_iter s)); discriminate.
  - intros r H. apply nr_loop_iter_le in H; cbn in *; lia.
  - intros e. unfold nrm.
    destruct (nr_loop f f' tol cap cap (nr_start x0)) as [s|e1|w] eqn:El; cbn [bind]; try discriminate.
    + destruct (Nat.leb cap (ns_iter s)); [|discriminate]. intro H. injection H as <-. left. reflexivity.
    + intro H. injection H as <-. right. exact (nr_loop_err f f' tol cap cap _ _ El).
Qed.

Lemma nrm_poly_no_panic {T} {NT : Num T} {P} (evalu : P -> T -> res T) (deriv : P -> res P) p x0 cap tol mode :
  (forall q x, no_panic (evalu q x)) -> (forall q, no_panic (deriv q)) ->
  no_panic (nrm_poly evalu deriv p x0 cap tol mode).
Proof.
  intros He Hd. unfold nrm_poly. apply bind_no_panic.
  - unfold target. destruct mode; [apply Hd|discriminate].
  - intros q _. apply bind_no_panic; [apply Hd|]. intros dq _.
    apply (c07_total T NT (evalu q) (evalu dq) x0 cap tol); intro x; apply He.
Qed.

Lemma c07_total_poly : forall (T : Type) (NT : Num T) (x0 : T) (cap : nat) (tol : T) (mode : bool),
  (forall p : spoly T, no_panic (s_nrm p x0 cap tol mode)) /\
  (forall p : ipoly T, no_panic (i_nrm p x0 cap tol mode)).
Proof.
  intros. split; intro p; apply nrm_poly_no_panic.
  - intros q x. discriminate.
  - intros q. discriminate.
  - intros q x. apply i_eval_no_panic.
  - intros q. apply i_deriv_no_panic.
Qed.

(* ------------------------------------------------------------------------- *)
(* the R instance: what the exit test gives                                   *)
(* ------------------------------------------------------------------------- *)
Lemma nfinite_R (x : R) : nfinite x = true.
Proof. unfold nfinite. cbn [neqb nsub n0 RNum]. apply Reqb_true. ring. Qed.

Lemma nr_body_R (f f' : R -> res R) tol cap s s' b : nr_body f f' tol cap s = Ok (s', b) ->
  exists v d vx, f (ns_x s) = Ok v /\ f' (ns_x s) = Ok d /\ f (ns_x s') = Ok vx /\
    ns_x s' = ns_x s - v / d /\ ns_old s' = ns_x s /\ ns_iter s' = S (ns_iter s) /\
    b = (err_small (ns_err s') tol || Nat.leb cap (S (ns_iter s))) /\
    ( (vx = 0 /\ ns_err s' = Some 0)
   \/ (vx <> 0 /\ ns_x s' <> 0 /\ ns_err s' = Some (Rabs (ns_x s' - ns_x s) / ns_x s' * 100))
   \/ (vx <> 0 /\ ns_x s' = 0 /\ ns_err s' = None) ).
Proof.
  intro H. apply nr_body_ok in H.
  destruct H as (v & d & Hv & Hd & Hx & Ho & Hi & Hb & [(_ & vx & Hvx & He)|(Hf & _)]).
  2:{ rewrite nfinite_R in Hf. discriminate. }
  exists v, d, vx. repeat (split; [assumption|]).
  cbn [neqb n0 RNum] in He. unfold nr_err1, nneb in He. cbn [neqb nmul ndiv nabs nsub n0 RNum] in He.
  rewrite c100_R in He.
  destruct (Reqb vx 0) eqn:E0.
  - apply Reqb_true in E0. left. tauto.
  - apply Reqb_false in E0. right.
    destruct (Reqb (ns_x s') 0) eqn:E1; cbn [negb] in He.
    + apply Reqb_true in E1. right. tauto.
    + apply Reqb_false in E1. left. tauto.
Qed.

(* what an Ok gives.  As of 8dfb6bc an iterate 0 that is no root carries the error INFINITY,
   so no hypothesis on the tolerance is needed any more. *)
Lemma c07_sound : forall (f f' : R -> res R) x0 cap tol x,
  nrm f f' x0 cap tol = Ok x ->
  exists x' v d, f x' = Ok v /\ f' x' = Ok d /\ x = x' - v / d /\
    (f x = Ok 0 \/ (x <> 0 /\ Rabs (x - x') * 100 < tol * Rabs x)).
Proof.
  intros f f' x0 cap tol x. unfold nrm.
  destruct (nr_loop f f' tol cap cap (nr_start x0)) as [r|e|w] eqn:El; cbn [bind]; try discriminate.
  destruct (Nat.leb cap (ns_iter r)) eqn:Ec; [discriminate|].
  intro H. injection H as <-.
  destruct (nr_loop_last f f' tol cap (fun _ => True)) with (fuel := cap) (s := nr_start x0) (r := r) as (s0 & _ & Hb).
  - intros; exact I.
  - exact I.
  - exact El.
  - apply nr_body_R in Hb. destruct Hb as (v & d & vx & Hv & Hd & Hvx & Hx & _ & Hi & Hb & Hcase).
    exists (ns_x s0), v, d. repeat (split; [assumption|]).
    rewrite <- Hi, Ec, orb_false_r in Hb. symmetry in Hb.
    destruct Hcase as [(Z & _)|[(_ & Nz & He)|(_ & _ & He)]].
    + left. rewrite Hvx, Z. reflexivity.
    + right. split; [exact Nz|]. rewrite He in Hb. cbn [err_small nltb nabs RNum] in Hb. apply Rltb_true in Hb.
      assert (Hp : 0 < Rabs (ns_x r)) by (apply Rabs_pos_lt; exact Nz).
      unfold Rdiv in Hb. rewrite !Rabs_mult, Rabs_Rabsolu, Rabs_inv in Hb.
      rewrite (Rabs_pos_eq 100) in Hb by lra.
      apply (Rmult_lt_compat_r (Rabs (ns_x r))) in Hb; [|exact Hp].
      replace (Rabs (ns_x r - ns_x s0) * / Rabs (ns_x r) * 100 * Rabs (ns_x r))
        with (Rabs (ns_x r - ns_x s0) * 100) in Hb by (field; lra).
      exact Hb.
    + exfalso. rewrite He in Hb. discriminate.
Qed.

(* ------------------------------------------------------------------------- *)
(* Taylor-Lagrange of order 2, both directions                                *)
(* ------------------------------------------------------------------------- *)
Lemma taylor2 (g g1 g2 : R -> R) :
  (forall t, is_derive g t (g1 t)) -> (forall t, is_derive g1 t (g2 t)) ->
  forall a b, exists xi, Rmin a b <= xi <= Rmax a b /\
    g b = g a + g1 a * (b - a) + g2 xi / 2 * (b - a) ^ 2.
Proof.
  intros Hg Hg1 a b.
  destruct (Req_dec a b) as [E|N].
  { subst b. exists a. rewrite Rmin_left, Rmax_left by lra. split; [lra|ring]. }
  set (K := (g b - g a - g1 a * (b - a)) / (b - a) ^ 2).
  set (phi := fun t => g t + g1 t * (b - t) + K * (b - t) ^ 2).
  set (dphi := fun t => (b - t) * (g2 t - 2 * K)).
  assert (Hphi : forall c, derivable_pt_lim phi c (dphi c)).
  { intro c. apply is_derive_Reals. unfold phi, dphi.
    auto_derive.
    - repeat split; try exact I; eexists; [apply Hg|apply Hg1].
    - replace (Derive (fun x : R => g x) c) with (g1 c) by (symmetry; apply is_derive_unique; apply Hg).
      replace (Derive (fun x : R => g1 x) c) with (g2 c) by (symmetry; apply is_derive_unique; apply Hg1).
      ring. }
  assert (Hba : phi b = g b) by (unfold phi; ring).
  assert (Haa : phi a = g b).
  { unfold phi, K. field. intro Hz. apply N. nra. }
  assert (Hkey : forall c, c <> b -> dphi c * (b - a) = 0 -> g2 c = 2 * K).
  { intros c Hc H0. unfold dphi in H0.
    assert (Hne : b - a <> 0) by lra. assert (Hne2 : b - c <> 0) by lra.
    apply Rmult_integral in H0. destruct H0 as [H0|H0]; [|contradiction].
    apply Rmult_integral in H0. destruct H0 as [H0|H0]; [contradiction|]. lra. }
  assert (Hfin : forall c, g2 c = 2 * K -> g b = g a + g1 a * (b - a) + g2 c / 2 * (b - a) ^ 2).
  { intros c Hc. rewrite Hc. unfold K. field. intro Hz. apply N. nra. }
  destruct (Rlt_le_dec a b) as [Hlt|Hge].
  - destruct (MVT_cor2 phi dphi a b Hlt (fun c _ => Hphi c)) as (c & Hc & Hin).
    exists c. rewrite Rmin_left, Rmax_right by lra. split; [lra|].
    apply Hfin. apply Hkey; [lra|]. rewrite <- Hc, Hba, Haa. ring.
  - assert (Hlt : b < a) by lra.
    destruct (MVT_cor2 phi dphi b a Hlt (fun c _ => Hphi c)) as (c & Hc & Hin).
    exists c. rewrite Rmin_right, Rmax_left by lra. split; [lra|].
    apply Hfin. apply Hkey; [lra|].
    replace (dphi c * (b - a)) with (- (dphi c * (a - b))) by ring.
    rewrite <- Hc, Hba, Haa. ring.
Qed.

(* ------------------------------------------------------------------------- *)
(* SimplePolynomial targets: the second-order residual bound                  *)
(* ------------------------------------------------------------------------- *)
Definition sd (p : spoly R) : spoly R := simple_derivative p.

Lemma nrm_poly_inv {P} (evalu : P -> R -> res R) (deriv : P -> res P) p x0 cap tol mode x :
  nrm_poly evalu deriv p x0 cap tol mode = Ok x ->
  exists q dq, target deriv p mode = Ok q /\ deriv q = Ok dq /\ nrm (evalu q) (evalu dq) x0 cap tol = Ok x.
Proof.
  unfold nrm_poly.
  destruct (target deriv p mode) as [q|e|w]; cbn [bind]; try discriminate.
  destruct (deriv q) as [dq|e|w] eqn:Ed; cbn [bind]; try discriminate.
  intro H. exists q, dq. repeat split; [exact Ed|exact H].
Qed.

Lemma c07_sound_simple : forall (p : spoly R) x0 cap tol mode x,
  s_nrm p x0 cap tol mode = Ok x ->
  let g := eval_simple (s_target p mode) in
  let g1 := eval_simple (sd (s_target p mode)) in
  let g2 := eval_simple (sd (sd (s_target p mode))) in
  exists x', x = x' - g x' / g1 x' /\
    (g x = 0 \/ (x <> 0 /\ Rabs (x - x') * 100 < tol * Rabs x)) /\
    (g1 x' <> 0 ->
       (exists xi, Rmin x' x <= xi <= Rmax x' x /\ g x = g2 xi / 2 * (x - x') ^ 2) /\
       (forall M, (forall t, Rmin x' x <= t <= Rmax x' x -> Rabs (g2 t) <= M) ->
          g x = 0 \/ Rabs (g x) <= M / 2 * (tol / 100 * Rabs x) ^ 2)).
Proof.
  intros p x0 cap tol mode x H g g1 g2.
  apply nrm_poly_inv in H. destruct H as (q & dq & Hq & Hdq & H).
  assert (Eq : q = s_target p mode).
  { destruct mode; cbn [target s_derivate_univariate s_target] in *; injection Hq as <-; reflexivity. }
  subst q. unfold s_derivate_univariate in Hdq. injection Hdq as <-.
  apply c07_sound in H.
  destruct H as (x' & v & d & Hv & Hd & Hx & Hex).
  unfold s_eval_univariate in Hv, Hd. injection Hv as <-. injection Hd as <-.
  fold g in Hx, Hex. fold (sd (s_target p mode)) in Hx. fold g1 in Hx.
  exists x'. split; [exact Hx|].
  assert (Hex' : g x = 0 \/ x <> 0 /\ Rabs (x - x') * 100 < tol * Rabs x).
  { destruct Hex as [Z|S]; [left|right; exact S].
    unfold s_eval_univariate in Z. injection Z as Z. exact Z. }
  split; [exact Hex'|].
  intro Hne.
  destruct (taylor2 g g1 g2) with (a := x') (b := x) as (xi & Hxi & Ht).
  { intro t. apply eval_simple_is_derive. }
  { intro t. apply eval_simple_is_derive. }
  assert (Hres : g x = g2 xi / 2 * (x - x') ^ 2).
  { rewrite Ht. replace (x - x') with (- (g x' / g1 x')) by lra. field. exact Hne. }
  split; [exists xi; split; assumption|].
  intros M HM. destruct Hex' as [Z|(Nz & Hs)]; [left; exact Z|right].
  rewrite Hres. pose proof (HM xi Hxi) as Hb.
  assert (H0 : 0 <= Rabs (g2 xi)) by apply Rabs_pos.
  unfold Rdiv. rewrite !Rabs_mult. rewrite (Rabs_pos_eq (/ 2)) by lra.
  rewrite <- RPow_abs.
  assert (Hd : Rabs (x - x') <= tol / 100 * Rabs x) by lra.
  assert (Hd0 : 0 <= Rabs (x - x')) by apply Rabs_pos.
  assert (Hsq : Rabs (x - x') ^ 2 <= (tol / 100 * Rabs x) ^ 2) by (apply pow_incr; lra).
  assert (Hsq0 : 0 <= Rabs (x - x') ^ 2) by (apply pow_le; lra).
  nra.
Qed.

(* ------------------------------------------------------------------------- *)
(* a root that is hit exactly is returned                                     *)
(* ------------------------------------------------------------------------- *)
Fixpoint newton_from (f f' : R -> res R) (x : R) (k : nat) : res R :=
  match k with
  | O => Ok x
  | S k' => bind (f x) (fun v => bind (f' x) (fun d => newton_from f f' (x - v / d) k'))
  end.

Lemma nr_loop_reaches (f f' : R -> res R) tol cap : 0 < tol ->
  forall m s fuel xk, (1 <= m)%nat ->
    newton_from f f' (ns_x s) m = Ok xk -> f xk = Ok 0 ->
    (ns_iter s + m < cap)%nat -> (cap <= ns_iter s + fuel)%nat ->
    exists j xj r, (1 <= j <= m)%nat /\ newton_from f f' (ns_x s) j = Ok xj /\
      nr_loop f f' tol cap fuel s = Ok r /\ ns_x r = xj /\ ns_iter r = (ns_iter s + j)%nat.
Proof.
  intros Htol. induction m as [|m IH]; intros s fuel xk Hm Hn Hroot Hcap Hfuel; [lia|].
  cbn [newton_from] in Hn.
  destruct (f (ns_x s)) as [v|e|w] eqn:Ev; cbn [bind] in Hn; try discriminate.
  destruct (f' (ns_x s)) as [d|e|w] eqn:Ed; cbn [bind] in Hn; try discriminate.
  set (x1 := ns_x s - v / d) in *.
  (* the value of f at the new iterate is defined *)
  assert (Hfx1 : exists vx, f x1 = Ok vx).
  { destruct m as [|m'].
    - cbn [newton_from] in Hn. injection Hn as <-. eauto.
    - cbn [newton_from] in Hn. destruct (f x1) as [vx|e|w]; cbn [bind] in Hn; try discriminate. eauto. }
  destruct Hfx1 as (vx & Hvx).
  (* run the body *)
  assert (Hbody : exists s' b, nr_body f f' tol cap s = Ok (s', b) /\ ns_x s' = x1 /\ ns_iter s' = S (ns_iter s) /\
                    (vx = 0 -> b = true)).
  { unfold nr_body. rewrite Ev, Ed. cbn [bind]. change (nsub (ns_x s) (ndiv v d)) with x1.
    rewrite nfinite_R, Hvx. cbn [bind]. eexists. eexists. split; [reflexivity|].
    cbn [ns_x ns_iter ns_err]. repeat split.
    intro Z. subst vx. cbn [neqb n0 RNum].
    replace (Reqb 0 0) with true by (symmetry; apply Reqb_true; reflexivity).
    cbn [err_small nltb nabs RNum].
    rewrite Rabs_R0. replace (Rltb 0 tol) with true by (symmetry; apply Rltb_true; exact Htol).
    reflexivity. }
  destruct Hbody as (s' & b & Hb & Hx' & Hi' & Hz).
  destruct b.
  - (* the loop leaves here: j = 1 *)
    exists 1%nat, x1, s'. split; [lia|]. split.
    { cbn [newton_from]. rewrite Ev, Ed. reflexivity. }
    split; [|split; [exact Hx'|lia]].
    destruct fuel; cbn [nr_loop]; rewrite Hb; reflexivity.
  - (* it goes on: at least one more step is available *)
    destruct m as [|m'].
    { exfalso. cbn [newton_from] in Hn. injection Hn as Hn. subst xk.
      rewrite Hvx in Hroot. injection Hroot as Hroot. specialize (Hz Hroot). discriminate. }
    destruct fuel as [|fuel']; [lia|].
    destruct (IH s' fuel' xk) as (j & xj & r & Hj & Hnj & Hl & Hxr & Hir); try lia.
    { rewrite Hx'. exact Hn. }
    { exact Hroot. }
    exists (S j), xj, r. split; [lia|]. split.
    { cbn [newton_from]. rewrite Ev, Ed. cbn [bind]. fold x1. rewrite <- Hx'. exact Hnj. }
    split; [|split; [exact Hxr|lia]].
    cbn [nr_loop]. rewrite Hb. exact Hl.
Qed.

Lemma c07_zero_root : forall (f f' : R -> res R) x0 cap tol k xk,
  0 < tol -> (1 <= k < cap)%nat ->
  newton_from f f' x0 k = Ok xk -> f xk = Ok 0 ->
  exists j xj, (1 <= j <= k)%nat /\ newton_from f f' x0 j = Ok xj /\ nrm f f' x0 cap tol = Ok xj.
Proof.
  intros f f' x0 cap tol k xk Htol Hk Hn Hroot.
  destruct (nr_loop_reaches f f' tol cap Htol k (nr_start x0) cap xk) as (j & xj & r & Hj & Hnj & Hl & Hx & Hi);
    cbn [nr_start ns_x ns_iter]; try lia; try assumption.
  exists j, xj. split; [exact Hj|]. split; [exact Hnj|].
  unfold nrm. rewrite Hl. cbn [bind].
  replace (Nat.leb cap (ns_iter r)) with false.
  - rewrite Hx. reflexivity.
  - symmetry. apply Nat.leb_gt. cbn [nr_start ns_iter] in Hi. lia.
Qed.

(* ------------------------------------------------------------------------- *)
(* one-step monotonicity to the right of the largest root                     *)
(* ------------------------------------------------------------------------- *)
Lemma newton_step_monotone (g g1 g2 : R -> R) r x :
  (forall t, is_derive g t (g1 t)) -> (forall t, is_derive g1 t (g2 t)) ->
  g r = 0 -> (forall t, r < t -> 0 < g t /\ 0 < g1 t) -> (forall t, r <= t -> 0 <= g2 t) ->
  r < x -> r <= x - g x / g1 x < x.
Proof.
  intros Hg Hg1 Hr Hpos Hconv Hx.
  destruct (Hpos x Hx) as [Gx G1x].
  assert (Hq : 0 < g x / g1 x) by (apply Rdiv_lt_0_compat; assumption).
  split; [|lra].
  destruct (taylor2 g g1 g2 Hg Hg1 x r) as (xi & Hxi & Ht).
  rewrite Rmin_right, Rmax_left in Hxi by lra.
  assert (H2 : 0 <= g2 xi) by (apply Hconv; lra).
  rewrite Hr in Ht.
  assert (Hsq : 0 <= (r - x) ^ 2) by apply pow2_ge_0.
  assert (Hle : g x + g1 x * (r - x) <= 0) by nra.
  (* divide by g1 x > 0 *)
  assert (Hd : g x / g1 x + (r - x) <= 0).
  { apply (Rmult_le_reg_l (g1 x)); [exact G1x|].
    replace (g1 x * (g x / g1 x + (r - x))) with (g x + g1 x * (r - x)) by (field; lra). lra. }
  lra.
Qed.

(* PARTIAL (convergence half of C07).  Proved: to the right of a root r beyond which the
   polynomial target and its derivative are positive and it is convex (the situation to the
   right of the largest root of a real-rooted polynomial with positive leading coefficient),
   every body of the model's loop moves the iterate to the left without crossing r.
   Missing: that the relative stopping rule fires within the budget and that the returned
   iterate is within degree*tol of r; both are checked by the oracle of the correspondence
   check only. *)
Lemma c07_monotone_partial : forall (p : spoly R) r tol cap (s s' : nstate R) b,
  let g := eval_simple p in let g1 := eval_simple (sd p) in let g2 := eval_simple (sd (sd p)) in
  g r = 0 -> (forall t, r < t -> 0 < g t /\ 0 < g1 t) -> (forall t, r <= t -> 0 <= g2 t) ->
  r < ns_x s ->
  nr_body (s_eval_univariate p) (s_eval_univariate (sd p)) tol cap s = Ok (s', b) ->
  r <= ns_x s' < ns_x s.
Proof.
  intros p r tol cap s s' b g g1 g2 Hr Hpos Hconv Hx Hb.
  apply nr_body_R in Hb. destruct Hb as (v & d & vx & Hv & Hd & _ & Hx' & _).
  unfold s_eval_univariate in Hv, Hd. injection Hv as <-. injection Hd as <-.
  rewrite Hx'. apply (newton_step_monotone g g1 g2); try assumption;
    intro t; apply eval_simple_is_derive.
Qed.

(* ------------------------------------------------------------------------- *)
(* witnesses                                                                  *)
(* ------------------------------------------------------------------------- *)
Definition p2x : spoly R := {| s_coefs := [0; 2]; s_var := Some 120%N |}.

Lemma p2x_eval x : eval_simple p2x x = 2 * x.
Proof. rewrite eval_simple_R. cbn. ring. Qed.
Lemma p2x_deval x : eval_simple (sd p2x) x = 2.
Proof. rewrite eval_simple_R. cbn. ring. Qed.

(* 2x from 3: the first iterate is the root 0 and is returned (repair b6ae3a9) *)
Lemma c07_example_zero_root : s_nrm p2x 3 100 (1 / 10000) false = Ok 0.
Proof.
  unfold s_nrm, nrm_poly. cbn [target bind s_derivate_univariate].
  destruct (c07_zero_root (s_eval_univariate p2x) (s_eval_univariate (simple_derivative p2x)) 3 100 (1 / 10000) 1 0)
    as (j & xj & Hj & Hn & Hr); try lra; try lia.
  - cbn [newton_from]. unfold s_eval_univariate. cbn [bind]. fold (sd p2x).
    rewrite p2x_eval, p2x_deval. f_equal. field.
  - unfold s_eval_univariate. rewrite p2x_eval. f_equal. ring.
  - assert (j = 1)%nat by lia. subst j.
    cbn [newton_from] in Hn. unfold s_eval_univariate in Hn. cbn [bind] in Hn. fold (sd p2x) in Hn.
    rewrite p2x_eval, p2x_deval in Hn. injection Hn as Hn.
    rewrite Hr. f_equal. rewrite <- Hn. field.
Qed.

(* x^2 - 1 to the right of its largest root 1: the hypotheses of c07_monotone_partial hold *)
Definition px2m1 : spoly R := {| s_coefs := [-1; 0; 1]; s_var := Some 120%N |}.
Lemma px2m1_eval x : eval_simple px2m1 x = x * x - 1.
Proof. rewrite eval_simple_R. cbn. ring. Qed.
Lemma px2m1_d1 x : eval_simple (sd px2m1) x = 2 * x.
Proof. rewrite eval_simple_R. cbn. ring. Qed.
Lemma px2m1_d2 x : eval_simple (sd (sd px2m1)) x = 2.
Proof. rewrite eval_simple_R. cbn. ring. Qed.

Lemma c07_example_monotone_hyps :
  eval_simple px2m1 1 = 0 /\
  (forall t, 1 < t -> 0 < eval_simple px2m1 t /\ 0 < eval_simple (sd px2m1) t) /\
  (forall t, 1 <= t -> 0 <= eval_simple (sd (sd px2m1)) t).
Proof.
  split; [rewrite px2m1_eval; ring|]. split.
  - intros t Ht. rewrite px2m1_eval, px2m1_d1. split; nra.
  - intros t _. rewrite px2m1_d2. lra.
Qed.

(* ------------------------------------------------------------------------- *)
(* regression of finding F-C07-STALE-100 (repaired by 8dfb6bc): x^2 + 1 from 1 *)
(* with tol = 200.  The first iterate is 0 and no root; its relative change is *)
(* now INFINITY, so the loop does not stop there (before the repair: Ok 0).    *)
(* ------------------------------------------------------------------------- *)
Lemma c07_stale_100_repaired :
  exists s', nr_body (fun x => Ok (x * x + 1)) (fun x => Ok (2 * x)) 200 100 (nr_start 1) = Ok (s', false) /\
             ns_x s' = 0 /\ ns_err s' = None.
Proof.
  eexists. split.
  - unfold nr_body, nr_start, nfinite, nneb.
    cbn [ns_x ns_iter ns_err bind nsub ndiv nmul nabs neqb nltb n0 RNum].
    replace (1 - (1 * 1 + 1) / (2 * 1)) with 0 by field.
    replace (Reqb (0 - 0) 0) with true by (symmetry; apply Reqb_true; lra).
    cbn [bind].
    replace (Reqb (0 * 0 + 1) 0) with false by (symmetry; apply Reqb_false; lra).
    replace (Reqb 0 0) with true by (symmetry; apply Reqb_true; reflexivity).
    cbn [negb err_small orb]. reflexivity.
  - split; reflexivity.
Qed.

Lemma nr_loop_break {T} {NT : Num T} (f f' : T -> res T) tol cap fuel s s' :
  nr_body f f' tol cap s = Ok (s', true) -> nr_loop f f' tol cap fuel s = Ok s'.
Proof. intro H. destruct fuel; cbn [nr_loop]; rewrite H; reflexivity. Qed.

(* ------------------------------------------------------------------------- *)
(* convergence half in exact arithmetic: real-rooted target, start to the     *)
(* right of the largest root R > 0                                            *)
(* ------------------------------------------------------------------------- *)
Fixpoint rprod (rs : list R) (x : R) : R :=
  match rs with [] => 1 | r :: rs' => (x - r) * rprod rs' x end.
(* derivative of rprod: sum over j of the product without the j-th factor *)
Fixpoint rdprod (rs : list R) (x : R) : R :=
  match rs with [] => 0 | r :: rs' => rprod rs' x + (x - r) * rdprod rs' x end.
Fixpoint rsum (rs : list R) (x : R) : R :=
  match rs with [] => 0 | r :: rs' => / (x - r) + rsum rs' x end.

Lemma rprod_is_derive rs x : is_derive (rprod rs) x (rdprod rs x).
Proof.
  induction rs as [|r rs IH]; cbn [rprod rdprod].
  - apply (is_derive_const (V := R_NormedModule) 1 x).
  - replace (rprod rs x + (x - r) * rdprod rs x)
      with (plus (mult 1 (rprod rs x)) (mult (x - r) (rdprod rs x))) by (unfold plus, mult; cbn; ring).
    apply (is_derive_mult (fun y : R => y - r) (rprod rs) x 1 (rdprod rs x)).
    + auto_derive; [exact I|ring].
    + exact IH.
    + intros a b. apply Rmult_comm.
Qed.

Lemma rprod_root rs r : In r rs -> rprod rs r = 0.
Proof.
  induction rs as [|r' l IH]; intro H; [contradiction|]. cbn [rprod].
  destruct H as [->|H]; [ring|]. rewrite (IH H). ring.
Qed.

Lemma rprod_pos rs x : (forall r, In r rs -> r < x) -> 0 < rprod rs x.
Proof.
  induction rs as [|r rs IH]; intro H; cbn [rprod]; [lra|].
  apply Rmult_lt_0_compat.
  - pose proof (H r (or_introl eq_refl)). lra.
  - apply IH. intros r' Hr. apply H. right. exact Hr.
Qed.

Lemma rdprod_rsum rs x : (forall r, In r rs -> r < x) -> rdprod rs x = rprod rs x * rsum rs x.
Proof.
  induction rs as [|r rs IH]; intro H; cbn [rprod rdprod rsum]; [ring|].
  rewrite IH by (intros r' Hr; apply H; right; exact Hr).
  pose proof (H r (or_introl eq_refl)). field. lra.
Qed.

Lemma rsum_nonneg rs x : (forall r, In r rs -> r < x) -> 0 <= rsum rs x.
Proof.
  induction rs as [|r rs IH]; intro H; cbn [rsum]; [lra|].
  pose proof (H r (or_introl eq_refl)) as Hr.
  assert (0 < / (x - r)) by (apply Rinv_0_lt_compat; lra).
  assert (0 <= rsum rs x) by (apply IH; intros r' Hr'; apply H; right; exact Hr').
  lra.
Qed.

Lemma rsum_lower rs x Rm : In Rm rs -> (forall r, In r rs -> r < x) -> / (x - Rm) <= rsum rs x.
Proof.
  induction rs as [|r rs IH]; intros Hin H; [contradiction|]. cbn [rsum].
  pose proof (H r (or_introl eq_refl)) as Hr.
  assert (Hrest : forall r', In r' rs -> r' < x) by (intros r' Hr'; apply H; right; exact Hr').
  destruct Hin as [->|Hin].
  - pose proof (rsum_nonneg rs x Hrest). lra.
  - assert (0 < / (x - r)) by (apply Rinv_0_lt_compat; lra).
    pose proof (IH Hin Hrest). lra.
Qed.

Lemma rsum_upper rs x Rm : (forall r, In r rs -> r <= Rm) -> Rm < x -> rsum rs x <= INR (length rs) * / (x - Rm).
Proof.
  induction rs as [|r rs IH]; intros H Hx.
  - cbn. lra.
  - cbn [rsum]. change (length (r :: rs)) with (S (length rs)). rewrite S_INR.
    pose proof (H r (or_introl eq_refl)) as Hr.
    assert (/ (x - r) <= / (x - Rm)) by (apply Rinv_le_contravar; lra).
    assert (rsum rs x <= INR (length rs) * / (x - Rm)) by (apply IH; [intros r' Hr'; apply H; right; exact Hr'|exact Hx]).
    lra.
Qed.

(* the Newton step s = g/g' to the right of the largest root Rm of an n-fold product:
   (x - Rm)/n <= s <= x - Rm *)
Lemma newton_step_real_rooted c rs Rm x :
  c <> 0 -> In Rm rs -> (forall r, In r rs -> r <= Rm) -> Rm < x ->
  let s := (c * rprod rs x) / (c * rdprod rs x) in
  0 < s /\ s <= x - Rm /\ x - Rm <= INR (length rs) * s.
Proof.
  intros Hc Hin Hmax Hx s.
  assert (Hlt : forall r, In r rs -> r < x) by (intros r Hr; pose proof (Hmax r Hr); lra).
  pose proof (rprod_pos rs x Hlt) as HP.
  pose proof (rsum_lower rs x Rm Hin Hlt) as HSl.
  pose proof (rsum_upper rs x Rm Hmax Hx) as HSu.
  assert (Hi : 0 < / (x - Rm)) by (apply Rinv_0_lt_compat; lra).
  assert (HS : 0 < rsum rs x) by lra.
  assert (Hs : s = / rsum rs x).
  { unfold s. rewrite (rdprod_rsum rs x Hlt). field. repeat split; lra. }
  assert (Hs0 : 0 < s) by (rewrite Hs; apply Rinv_0_lt_compat; exact HS).
  assert (HsS : s * rsum rs x = 1) by (rewrite Hs; field; lra).
  assert (H1 : 1 <= rsum rs x * (x - Rm)).
  { apply (Rmult_le_compat_r (x - Rm)) in HSl; [|lra].
    replace (/ (x - Rm) * (x - Rm)) with 1 in HSl by (field; lra). exact HSl. }
  assert (H2 : rsum rs x * (x - Rm) <= INR (length rs)).
  { apply (Rmult_le_compat_r (x - Rm)) in HSu; [|lra].
    replace (INR (length rs) * / (x - Rm) * (x - Rm)) with (INR (length rs)) in HSu by (field; lra). exact HSu. }
  split; [exact Hs0|]. split.
  - (* s = s * 1 <= s * (S (x - Rm)) = x - Rm *)
    replace (x - Rm) with (s * rsum rs x * (x - Rm)) by (rewrite HsS; ring).
    rewrite Rmult_assoc. rewrite <- (Rmult_1_r s) at 1. apply Rmult_le_compat_l; lra.
  - replace (x - Rm) with (s * (rsum rs x * (x - Rm))) by (rewrite <- Rmult_assoc, HsS; ring).
    rewrite (Rmult_comm (INR (length rs)) s). apply Rmult_le_compat_l; lra.
Qed.

Section Converges.
  Variables (f f' : R -> res R) (c : R) (rs : list R) (Rm x0 tol : R) (cap K : nat).
  Hypothesis Hf : forall x, f x = Ok (c * rprod rs x).
  Hypothesis Hf' : forall x, f' x = Ok (c * rdprod rs x).
  Hypothesis Hc : c <> 0.
  Hypothesis Hin : In Rm rs.
  Hypothesis Hmax : forall r, In r rs -> r <= Rm.
  Hypothesis HRpos : 0 < Rm.
  Hypothesis Htol : 0 < tol.
  Hypothesis Hx0 : Rm < x0.
  Hypothesis HK : (S K < cap)%nat.
  Let N := INR (length rs).
  Hypothesis Hbudget : 100 * (N - 1) ^ K * (x0 - Rm) < tol * Rm * N ^ K.

  Let Inv (s : nstate R) : Prop :=
    Rm < ns_x s /\ (ns_x s - Rm) * N ^ ns_iter s <= (N - 1) ^ ns_iter s * (x0 - Rm).

  Lemma N_ge_1 : 1 <= N.
  Proof.
    unfold N. destruct rs as [|r l]; [contradiction|].
    change (length (r :: l)) with (S (length l)). rewrite S_INR. pose proof (pos_INR (length l)). lra.
  Qed.

  Lemma g_nonzero_right x : Rm < x -> c * rprod rs x <> 0.
  Proof.
    intro Hx. assert (0 < rprod rs x).
    { apply rprod_pos. intros r Hr. pose proof (Hmax r Hr). lra. }
    intro Z. apply Rmult_integral in Z. destruct Z; [contradiction|lra].
  Qed.

  Lemma nr_converges_loop : forall fuel s,
    Inv s -> (ns_iter s <= K)%nat -> (cap <= ns_iter s + fuel)%nat ->
    exists r, nr_loop f f' tol cap fuel s = Ok r /\ (ns_iter r <= S K)%nat /\
              Rm <= ns_x r /\ (ns_x r - Rm) * 100 <= (N - 1) * tol * ns_x r.
  Proof.
    pose proof N_ge_1 as HN.
    induction fuel as [|fuel IH]; intros s (Hx & HD) Hi Hfuel; [lia|].
    (* the body runs *)
    assert (Hbody : exists s' b, nr_body f f' tol cap s = Ok (s', b)).
    { unfold nr_body. rewrite Hf, Hf'. cbn [bind]. rewrite nfinite_R, Hf. cbn [bind].
      eexists. eexists. reflexivity. }
    destruct Hbody as (s' & b & Hb).
    pose proof Hb as Hb'. apply nr_body_R in Hb'.
    destruct Hb' as (v & d & vx & Hv & Hd & Hvx & Hx' & _ & Hit & Hbrk & Hcase).
    rewrite Hf in Hv, Hvx. rewrite Hf' in Hd. injection Hv as <-. injection Hd as <-. injection Hvx as <-.
    destruct (newton_step_real_rooted c rs Rm (ns_x s) Hc Hin Hmax Hx) as (Hs0 & Hs1 & Hs2).
    set (st := c * rprod rs (ns_x s) / (c * rdprod rs (ns_x s))) in *.
    fold N in Hs2.
    assert (Hx'R : Rm <= ns_x s') by (rewrite Hx'; lra).
    assert (Hx'pos : 0 < ns_x s') by lra.
    assert (Hnear : ns_x s' - Rm <= (N - 1) * st) by (rewrite Hx'; lra).
    assert (Hleb : Nat.leb cap (S (ns_iter s)) = false) by (apply Nat.leb_gt; lia).
    rewrite Hleb, orb_false_r in Hbrk.
    (* the state after the body, if the loop leaves here, satisfies the conclusion *)
    assert (Hdone : b = true -> Rm <= ns_x s' /\ (ns_x s' - Rm) * 100 <= (N - 1) * tol * ns_x s').
    { intro Eb. split; [exact Hx'R|].
      destruct Hcase as [(Z & _)|[(_ & _ & He)|(_ & Z & _)]].
      - (* exact root: the iterate is Rm itself *)
        destruct (Rle_lt_or_eq_dec _ _ Hx'R) as [Hgt|Heq].
        + exfalso. exact (g_nonzero_right _ Hgt Z).
        + rewrite <- Heq. replace (Rm - Rm) with 0 by ring.
          assert (0 <= (N - 1) * tol * Rm) by (apply Rmult_le_pos; [apply Rmult_le_pos|]; lra). lra.
      - rewrite Eb, He in Hbrk. cbn [err_small nltb nabs RNum] in Hbrk. symmetry in Hbrk. apply Rltb_true in Hbrk.
        replace (Rabs (ns_x s' - ns_x s)) with st in Hbrk
          by (rewrite Hx'; replace (ns_x s - st - ns_x s) with (- st) by ring; rewrite Rabs_Ropp, Rabs_pos_eq; lra).
        rewrite Rabs_pos_eq in Hbrk.
        2:{ apply Rmult_le_pos; [|lra]. apply Rmult_le_pos; [lra|]. left. apply Rinv_0_lt_compat. exact Hx'pos. }
        assert (Hst : st * 100 < tol * ns_x s').
        { apply (Rmult_lt_compat_r (ns_x s')) in Hbrk; [|exact Hx'pos].
          replace (st / ns_x s' * 100 * ns_x s') with (st * 100) in Hbrk by (field; lra). exact Hbrk. }
        assert (0 <= N - 1) by lra.
        assert ((N - 1) * (st * 100) <= (N - 1) * (tol * ns_x s')) by (apply Rmult_le_compat_l; lra).
        nra.
      - lra. }
    destruct b.
    - exists s'. split; [apply nr_loop_break; exact Hb|]. split; [lia|]. apply Hdone. reflexivity.
    - (* the loop goes on: the iterate is not a root and the step is not yet small *)
      assert (Hne : c * rprod rs (ns_x s') <> 0 /\ tol * ns_x s' <= st * 100).
      { destruct Hcase as [(Z & He)|[(Nz & _ & He)|(_ & Z & _)]].
        - exfalso. rewrite He in Hbrk. cbn [err_small nltb nabs RNum] in Hbrk. rewrite Rabs_R0 in Hbrk.
          symmetry in Hbrk. apply Rltb_false in Hbrk. lra.
        - split; [exact Nz|]. rewrite He in Hbrk. cbn [err_small nltb nabs RNum] in Hbrk.
          symmetry in Hbrk. apply Rltb_false in Hbrk.
          replace (Rabs (ns_x s' - ns_x s)) with st in Hbrk
            by (rewrite Hx'; replace (ns_x s - st - ns_x s) with (- st) by ring; rewrite Rabs_Ropp, Rabs_pos_eq; lra).
          rewrite Rabs_pos_eq in Hbrk.
          2:{ apply Rmult_le_pos; [|lra]. apply Rmult_le_pos; [lra|]. left. apply Rinv_0_lt_compat. exact Hx'pos. }
          apply (Rmult_le_compat_r (ns_x s')) in Hbrk; [|lra].
          replace (st / ns_x s' * 100 * ns_x s') with (st * 100) in Hbrk by (field; lra). exact Hbrk.
        - lra. }
      destruct Hne as (Hnz & Hbig).
      assert (Hgt : Rm < ns_x s').
      { destruct (Rle_lt_or_eq_dec _ _ Hx'R) as [Hgt|Heq]; [exact Hgt|exfalso].
        apply Hnz. rewrite <- Heq.
        rewrite (rprod_root rs Rm Hin). ring. }
      pose proof (pow_lt N (ns_iter s) ltac:(lra)) as HNk.
      assert (HNm : 0 <= (N - 1) ^ ns_iter s) by (apply pow_le; lra).
      (* the contraction  N (x' - Rm) <= (N - 1) (x - Rm) *)
      assert (Hcontr : N * (ns_x s' - Rm) <= (N - 1) * (ns_x s - Rm)) by (rewrite Hx'; lra).
      assert (HD' : (ns_x s' - Rm) * N ^ S (ns_iter s) <= (N - 1) ^ S (ns_iter s) * (x0 - Rm)).
      { cbn [pow].
        assert (N * (ns_x s' - Rm) * N ^ ns_iter s <= (N - 1) * (ns_x s - Rm) * N ^ ns_iter s)
          by (apply Rmult_le_compat_r; lra).
        assert ((N - 1) * ((ns_x s - Rm) * N ^ ns_iter s) <= (N - 1) * ((N - 1) ^ ns_iter s * (x0 - Rm)))
          by (apply Rmult_le_compat_l; lra).
        lra. }
      (* iter < K, otherwise the step is already below the tolerance *)
      assert (Hlt : (ns_iter s < K)%nat).
      { destruct (Nat.lt_ge_cases (ns_iter s) K) as [|Hge]; [assumption|exfalso].
        assert (Ek : ns_iter s = K) by lia. rewrite Ek in HD, HNk.
        assert (100 * ((ns_x s - Rm) * N ^ K) < tol * Rm * N ^ K) by lra.
        assert (100 * (ns_x s - Rm) < tol * Rm).
        { apply (Rmult_lt_reg_r (N ^ K)); [exact HNk|]. lra. }
        assert (tol * Rm <= tol * ns_x s') by (apply Rmult_le_compat_l; lra).
        lra. }
      destruct fuel as [|fuel']; [lia|].
      cbn [nr_loop]. rewrite Hb.
      destruct (IH s') as (r & Hl & Hir & HrR & Hrb).
      + split; [exact Hgt|]. rewrite Hit. exact HD'.
      + lia.
      + lia.
      + exists r. repeat split; assumption.
  Qed.

  Lemma nr_converges : exists x, nrm f f' x0 cap tol = Ok x /\ Rm <= x /\ (x - Rm) * 100 <= (N - 1) * tol * x.
  Proof.
    destruct (nr_converges_loop cap (nr_start x0)) as (r & Hl & Hir & HrR & Hrb).
    - split; cbn [nr_start ns_x ns_iter pow]; lra.
    - cbn. lia.
    - cbn. lia.
    - exists (ns_x r). split; [|split; assumption].
      unfold nrm. rewrite Hl. cbn [bind].
      replace (Nat.leb cap (ns_iter r)) with false by (symmetry; apply Nat.leb_gt; lia). reflexivity.
  Qed.
End Converges.

Lemma c07_converges_to_extreme_root : forall (f f' : R -> res R) (c : R) (rs : list R) (Rm x0 tol : R) (cap K : nat),
  (forall x, f x = Ok (c * rprod rs x)) -> (forall x, f' x = Ok (c * rdprod rs x)) ->
  c <> 0 -> In Rm rs -> (forall r, In r rs -> r <= Rm) -> 0 < Rm -> 0 < tol -> Rm < x0 ->
  (S K < cap)%nat ->
  100 * (INR (length rs) - 1) ^ K * (x0 - Rm) < tol * Rm * INR (length rs) ^ K ->
  exists x, nrm f f' x0 cap tol = Ok x /\ Rm <= x /\ (x - Rm) * 100 <= (INR (length rs) - 1) * tol * x.
Proof. intros. eapply nr_converges; eassumption. Qed.

(* non-vacuity: (x-1)(x-2)(x-4) from x0 = 10, tol = 1e-3 (percent), cap 100, K = 30 *)
Lemma c07_example_converges :
  exists x, nrm (fun x => Ok (1 * rprod [1; 2; 4] x)) (fun x => Ok (1 * rdprod [1; 2; 4] x)) 10 100 (1 / 1000) = Ok x /\
            4 <= x /\ (x - 4) * 100 <= 2 * (1 / 1000) * x.
Proof.
  destruct (c07_converges_to_extreme_root (fun x => Ok (1 * rprod [1; 2; 4] x)) (fun x => Ok (1 * rdprod [1; 2; 4] x))
              1 [1; 2; 4] 4 10 (1 / 1000) 100 30) as (x & Hx & H4 & Hb); try reflexivity; try lra; try lia.
  - cbn. tauto.
  - intros r [<-|[<-|[<-|[]]]]; lra.
  - cbn [length INR]. replace (1 + 1 + 1 - 1) with 2 by ring. replace (1 + 1 + 1) with 3 by ring. lra.
  - exists x. split; [exact Hx|]. split; [exact H4|].
    cbn [length INR] in Hb. replace (1 + 1 + 1 - 1) with 2 in Hb by ring. exact Hb.
Qed.
