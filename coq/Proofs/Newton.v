From Coq Require Import ZArith List Reals Lra Lia Bool.
From SV Require Import Base.Num Base.Outcome Model.Poly Model.Solvers.
Import ListNotations.
Local Open Scope R_scope.

Lemma c07_tmp : forall (f f' : R -> res R) x0 tol x, nrm f f' x0 0 tol <> Ok x.
Proof.
  intros. unfold nrm. destruct (nr_loop _ _ _ _ _ _); cbn; congruence.
Qed.
