(* Proofs/HessenStep.v — C14, layers 2 and 3:
   what the update loops of the model compute (entry by entry), their reading
   as products with the reflector, and preservation of the invariant by one
   iteration of the outer loop. *)
From Coq Require Import ZArith List Bool Arith Reals Lra Lia Morphisms Setoid.
From SV Require Import Base.Num Base.Outcome Base.Mat Model.Hessen Proofs.HessenReflector.
Import ListNotations.

(* ---------------- loop characterisation, any arithmetic ---------------------- *)
Section Loops.
  Context {T : Type} {NT : Num T}.

  Lemma sum_range_ext (init : T) lo len (f g : nat -> T) :
    (forall i, lo <= i < lo + len -> f i = g i) -> sum_range init lo len f = sum_range init lo len g.
  Proof.
    intro H. unfold sum_range. apply for_range_ext. intros i a Hi. now rewrite H.
  Qed.

  Definition in_rows (k m r : nat) : bool := (k + 1 <=? r) && (r <? k + 1 + m).

  Lemma in_rows_true k m r : in_rows k m r = true <-> k + 1 <= r < k + 1 + m.
  Proof.
    unfold in_rows. rewrite andb_true_iff, Nat.leb_le, Nat.ltb_lt. tauto.
  Qed.
  Lemma in_rows_false k m r : in_rows k m r = false <-> ~ (k + 1 <= r < k + 1 + m).
  Proof. rewrite <- in_rows_true. destruct (in_rows k m r); split; congruence. Qed.

  (* one column of the left update *)
  Lemma upd_col_spec k m tau v dot col (h : mat T) r c :
    hh_upd_col k m tau v dot col h r c =
    if (c =? col) && in_rows k m r
    then nsub (h r col) (nmul (nmul tau (v (r - (k + 1)))) dot)
    else h r c.
  Proof.
    unfold hh_upd_col. induction m as [|m IH].
    - cbn [for_range]. replace (in_rows k 0 r) with false; [now rewrite andb_false_r|].
      symmetry. apply in_rows_false. lia.
    - rewrite for_range_S. cbn [Nat.add].
      set (prev := for_range 0 m _ h) in *.
      destruct (Nat.eq_dec r (k + 1 + m)) as [Er|Er]; destruct (Nat.eq_dec c col) as [Ec|Ec].
      + subst r c. rewrite mset_same.
        rewrite Nat.eqb_refl. replace (in_rows k (S m) (k + 1 + m)) with true
          by (symmetry; apply in_rows_true; lia).
        cbn [andb].
        assert (Ep : prev (k + 1 + m) col = h (k + 1 + m) col).
        { rewrite IH. replace (in_rows k m (k + 1 + m)) with false
            by (symmetry; apply in_rows_false; lia).
          now rewrite andb_false_r. }
        rewrite Ep. replace (k + 1 + m - (k + 1)) with m by lia. reflexivity.
      + rewrite mset_other by (right; exact Ec). rewrite IH.
        apply Nat.eqb_neq in Ec. rewrite Ec. reflexivity.
      + rewrite mset_other by (left; exact Er). rewrite IH.
        replace (in_rows k (S m) r) with (in_rows k m r); [reflexivity|].
        destruct (in_rows k m r) eqn:E; symmetry.
        * apply in_rows_true in E. apply in_rows_true. lia.
        * apply in_rows_false in E. apply in_rows_false. lia.
      + rewrite mset_other by (left; exact Er). rewrite IH.
        apply Nat.eqb_neq in Ec. rewrite Ec. reflexivity.
  Qed.

  (* one row of the right update *)
  Lemma upd_row_spec k m tau v dot row (a : mat T) r c :
    hh_upd_row k m tau v dot row a r c =
    if (r =? row) && in_rows k m c
    then nsub (a row c) (nmul (nmul tau (v (c - (k + 1)))) dot)
    else a r c.
  Proof.
    unfold hh_upd_row. induction m as [|m IH].
    - cbn [for_range]. replace (in_rows k 0 c) with false; [now rewrite andb_false_r|].
      symmetry. apply in_rows_false. lia.
    - rewrite for_range_S. cbn [Nat.add].
      set (prev := for_range 0 m _ a) in *.
      destruct (Nat.eq_dec c (k + 1 + m)) as [Ec|Ec]; destruct (Nat.eq_dec r row) as [Er|Er].
      + subst r c. rewrite mset_same.
        rewrite Nat.eqb_refl. replace (in_rows k (S m) (k + 1 + m)) with true
          by (symmetry; apply in_rows_true; lia).
        cbn [andb].
        assert (Ep : prev row (k + 1 + m) = a row (k + 1 + m)).
        { rewrite IH. replace (in_rows k m (k + 1 + m)) with false
            by (symmetry; apply in_rows_false; lia).
          now rewrite andb_false_r. }
        rewrite Ep. replace (k + 1 + m - (k + 1)) with m by lia. reflexivity.
      + rewrite mset_other by (left; exact Er). rewrite IH.
        apply Nat.eqb_neq in Er. rewrite Er. reflexivity.
      + rewrite mset_other by (right; exact Ec). rewrite IH.
        replace (in_rows k (S m) c) with (in_rows k m c); [reflexivity|].
        destruct (in_rows k m c) eqn:E; symmetry.
        * apply in_rows_true in E. apply in_rows_true. lia.
        * apply in_rows_false in E. apply in_rows_false. lia.
      + rewrite mset_other by (left; exact Er). rewrite IH.
        apply Nat.eqb_neq in Er. rewrite Er. reflexivity.
  Qed.

  (* the whole left update: columns k..n-1, rows k+1..k+m *)
  Lemma left_spec n k m tau v (h : mat T) : k <= n -> forall r c,
    hh_left n k m tau v h r c =
    if (k <=? c) && (c <? n) && in_rows k m r
    then nsub (h r c) (nmul (nmul tau (v (r - (k + 1)))) (hh_dot_col k m v h c))
    else h r c.
  Proof.
    intro Hkn. unfold hh_left.
    pose (P := fun (idx : nat) (a : mat T) => forall r c,
      a r c = if (k <=? c) && (c <? idx) && in_rows k m r
              then nsub (h r c) (nmul (nmul tau (v (r - (k + 1)))) (hh_dot_col k m v h c))
              else h r c).
    assert (HP : P (k + (n - k)) (for_range k (n - k)
              (fun col a => hh_upd_col k m tau v (hh_dot_col k m v a col) col a) h)).
    { apply (for_range_inv P).
      - intros r c. replace ((k <=? c) && (c <? k)) with false; [reflexivity|].
        symmetry. apply andb_false_iff. destruct (Nat.leb_spec k c); [right|left; reflexivity].
        apply Nat.ltb_ge. lia.
      - intros col a Hcol Ha r c. rewrite upd_col_spec.
        assert (Edot : hh_dot_col k m v a col = hh_dot_col k m v h col).
        { unfold hh_dot_col. apply sum_range_ext. intros i _. rewrite Ha.
          replace (col <? col) with false by (symmetry; apply Nat.ltb_irrefl).
          now rewrite andb_false_r. }
        rewrite Edot.
        destruct (Nat.eqb_spec c col) as [Ec|Ec].
        + subst c. cbn [andb].
          replace (k <=? col) with true by (symmetry; apply Nat.leb_le; lia).
          replace (col <? S col) with true by (symmetry; apply Nat.ltb_lt; lia).
          cbn [andb]. destruct (in_rows k m r); [|].
          * rewrite Ha. replace (col <? col) with false by (symmetry; apply Nat.ltb_irrefl).
            now rewrite andb_false_r.
          * rewrite Ha. replace (col <? col) with false by (symmetry; apply Nat.ltb_irrefl).
            now rewrite andb_false_r.
        + cbn [andb]. rewrite Ha.
          replace (c <? S col) with (c <? col); [reflexivity|].
          destruct (Nat.ltb_spec c col); symmetry; [apply Nat.ltb_lt|apply Nat.ltb_ge]; lia. }
    replace (k + (n - k)) with n in HP by lia. exact HP.
  Qed.

  (* the whole right update: rows 0..n-1, columns k+1..k+m *)
  Lemma right_spec n k m tau v (a : mat T) : forall r c,
    hh_right n k m tau v a r c =
    if (r <? n) && in_rows k m c
    then nsub (a r c) (nmul (nmul tau (v (c - (k + 1)))) (hh_dot_row k m v a r))
    else a r c.
  Proof.
    unfold hh_right.
    pose (P := fun (idx : nat) (b : mat T) => forall r c,
      b r c = if (r <? idx) && in_rows k m c
              then nsub (a r c) (nmul (nmul tau (v (c - (k + 1)))) (hh_dot_row k m v a r))
              else a r c).
    assert (HP : P (0 + n) (for_range 0 n
              (fun row b => hh_upd_row k m tau v (hh_dot_row k m v b row) row b) a)).
    { apply (for_range_inv P).
      - intros r c. reflexivity.
      - intros row b Hrow Hb r c. rewrite upd_row_spec.
        assert (Edot : hh_dot_row k m v b row = hh_dot_row k m v a row).
        { unfold hh_dot_row. apply sum_range_ext. intros j _. rewrite Hb.
          replace (row <? row) with false by (symmetry; apply Nat.ltb_irrefl).
          reflexivity. }
        rewrite Edot.
        destruct (Nat.eqb_spec r row) as [Er|Er].
        + subst r. cbn [andb].
          replace (row <? S row) with true by (symmetry; apply Nat.ltb_lt; lia).
          cbn [andb]. destruct (in_rows k m c);
            (rewrite Hb; replace (row <? row) with false by (symmetry; apply Nat.ltb_irrefl);
             reflexivity).
        + cbn [andb]. rewrite Hb.
          replace (r <? S row) with (r <? row); [reflexivity|].
          destruct (Nat.ltb_spec r row); symmetry; [apply Nat.ltb_lt|apply Nat.ltb_ge]; lia. }
    exact HP.
  Qed.
End Loops.

Local Open Scope R_scope.

(* ---------------- the loops are products with the reflector (R) --------------- *)
(* the vector v of length m placed at rows k+1 .. k+m *)
Definition embed (k : nat) (v : nat -> R) : nat -> R :=
  fun i => if (i <? k + 1)%nat then 0 else v (i - (k + 1))%nat.

Lemma embed_low k v i : (i < k + 1)%nat -> embed k v i = 0.
Proof. intro H. unfold embed. apply Nat.ltb_lt in H. now rewrite H. Qed.
Lemma embed_high k v i : embed k v (k + 1 + i) = v i.
Proof.
  unfold embed. replace (k + 1 + i <? k + 1)%nat with false by (symmetry; apply Nat.ltb_ge; lia).
  f_equal. lia.
Qed.

Lemma embed_ge k v i : (k + 1 <= i)%nat -> embed k v i = v (i - (k + 1))%nat.
Proof.
  intro H. unfold embed. replace (i <? k + 1)%nat with false by (symmetry; apply Nat.ltb_ge; lia).
  reflexivity.
Qed.

Lemma Rsum_embed k m v (f : nat -> R) :
  Rsum (fun t => embed k v t * f t) (k + 1 + m) = Rsum (fun i => v i * f (k + 1 + i)%nat) m.
Proof.
  rewrite Rsum_split. rewrite Rsum_zero.
  - rewrite Rplus_0_l. apply Rsum_ext. intros i _. now rewrite embed_high.
  - intros i Hi. rewrite embed_low by exact Hi. ring.
Qed.

Lemma dot_col_R k m (v : nat -> R) (h : mat R) c :
  hh_dot_col k m v h c = Rsum (fun i => v i * h (k + 1 + i)%nat c) m.
Proof.
  unfold hh_dot_col. rewrite sum_range_R. cbn [n0 nmul RNum Nat.add]. apply Rplus_0_l.
Qed.

Lemma dot_row_R k m (v : nat -> R) (a : mat R) r :
  hh_dot_row k m v a r = Rsum (fun j => v j * a r (k + 1 + j)%nat) m.
Proof.
  unfold hh_dot_row. rewrite sum_range_R. cbn [n0 nmul RNum Nat.add]. apply Rplus_0_l.
Qed.

(* left update = P * h, provided the columns left of k are already reduced *)
Lemma left_is_mul n k tau (v : nat -> R) (h : mat R) :
  (k + 1 <= n)%nat ->
  (forall i j, (j < k)%nat -> (i < n)%nat -> (j + 1 < i)%nat -> h i j = 0) ->
  meq n (hh_left n k (n - (k + 1)) tau v h) (Rmm n (refl tau (embed k v)) h).
Proof.
  intros Hk Hz i j Hi Hj. set (m := (n - (k + 1))%nat).
  rewrite refl_mul_l by exact Hi. rewrite left_spec by lia.
  assert (E : Rsum (fun t => embed k v t * h t j) n = Rsum (fun t => v t * h (k + 1 + t)%nat j) m).
  { replace n with (k + 1 + m)%nat at 1 by (unfold m; lia).
    apply (Rsum_embed k m v (fun t => h t j)). }
  rewrite E.
  replace (j <? n)%nat with true by (symmetry; apply Nat.ltb_lt; exact Hj).
  rewrite andb_true_r.
  destruct (in_rows k m i) eqn:Ei.
  - apply in_rows_true in Ei.
    rewrite embed_ge by lia.
    destruct (Nat.leb_spec k j) as [Hkj|Hkj]; cbn [andb].
    + rewrite dot_col_R. cbn [nsub nmul RNum]. ring.
    + rewrite Rsum_zero; [ring|]. intros t Ht. rewrite Hz; [ring|lia|unfold m in *; lia|lia].
  - apply in_rows_false in Ei. rewrite andb_false_r.
    rewrite embed_low by (unfold m in *; lia). ring.
Qed.

(* right update = a * P *)
Lemma right_is_mul n k tau (v : nat -> R) (a : mat R) :
  (k + 1 <= n)%nat ->
  meq n (hh_right n k (n - (k + 1)) tau v a) (Rmm n a (refl tau (embed k v))).
Proof.
  intros Hk i j Hi Hj. set (m := (n - (k + 1))%nat).
  rewrite refl_mul_r by exact Hj. rewrite right_spec.
  replace (i <? n)%nat with true by (symmetry; apply Nat.ltb_lt; exact Hi).
  cbn [andb].
  assert (E : Rsum (fun t => a i t * embed k v t) n = Rsum (fun t => v t * a i (k + 1 + t)%nat) m).
  { replace n with (k + 1 + m)%nat at 1 by (unfold m; lia).
    rewrite <- (Rsum_embed k m v (fun t => a i t)). apply Rsum_ext. intros t _. ring. }
  rewrite E.
  destruct (in_rows k m j) eqn:Ej.
  - apply in_rows_true in Ej.
    rewrite embed_ge by lia.
    rewrite dot_row_R. cbn [nsub nmul RNum]. ring.
  - apply in_rows_false in Ej. rewrite embed_low by (unfold m in *; lia). ring.
Qed.

(* ---------------- the invariant and one iteration ---------------------------- *)
Definition hess_inv (n : nat) (A : mat R) (k : nat) (h q : mat R) : Prop :=
  meq n (Rmm n (Rtr q) q) RI /\
  meq n (Rmm n (Rmm n q h) (Rtr q)) A /\
  (forall i j, (j < k)%nat -> (i < n)%nat -> (j + 1 < i)%nat -> h i j = 0).

Lemma sqnorm_R n k (h : mat R) :
  hh_sqnorm n k h = Rsum (fun i => h (k + 1 + i)%nat k * h (k + 1 + i)%nat k) (n - (k + 1)).
Proof. unfold hh_sqnorm. rewrite sum_range_R. cbn [n0 nmul RNum]. apply Rplus_0_l. Qed.

Lemma Rsum_embed_sq k m v :
  Rsum (fun t => embed k v t * embed k v t) (k + 1 + m) = Rsum (fun i => v i * v i) m.
Proof.
  rewrite (Rsum_embed k m v (embed k v)). apply Rsum_ext. intros i _. now rewrite embed_high.
Qed.

Lemma hess_step_inv n A k h q :
  hess_inv n A k h q ->
  hess_inv n A (S k) (fst (hess_step n k (h, q))) (snd (hess_step n k (h, q))).
Proof.
  intros (Hqq & Hsim & Hz).
  unfold hess_step. cbn [fst snd].
  set (m := (n - (k + 1))%nat).
  set (x := fun i : nat => h (k + 1 + i)%nat k).
  assert (Es : hh_sqnorm n k h = Rsum (fun i => x i * x i) m) by apply sqnorm_R.
  rewrite Es. cbn [nsqrt neqb n0 RNum].
  set (nu := sqrt (Rsum (fun i => x i * x i) m)).
  destruct (Reqb nu 0) eqn:Enu.
  - (* skip: the sub-column is zero *)
    apply Reqb_true in Enu. cbn [fst snd].
    split; [exact Hqq|]. split; [exact Hsim|].
    intros i j Hj Hi Hij.
    destruct (Nat.eq_dec j k) as [->|Hjk]; [|apply Hz; lia].
    assert (E0 : Rsum (fun i => x i * x i) m = 0).
    { apply sqrt_eq_0; [apply Rsum_sq_nonneg|exact Enu]. }
    pose proof (Rsum_sq_zero x m E0 (i - (k + 1))%nat) as Hx.
    unfold x in Hx. replace (k + 1 + (i - (k + 1)))%nat with i in Hx by lia.
    apply Hx. unfold m. lia.
  - (* a reflector is applied *)
    apply Reqb_false in Enu. cbn [fst snd].
    replace (h (k + 1)%nat k) with (x 0%nat) by (unfold x; f_equal; lia).
    set (u1 := hh_u1 (x 0%nat) nu).
    set (tau := hh_tau (x 0%nat) nu).
    set (v := hh_v k h u1).
    assert (Ev : forall i, v i = if (i =? 0)%nat then 1 else x i / u1) by reflexivity.
    pose proof (cmp_m_pos m x Enu) as Hm.
    assert (Hk : (k + 1 <= n)%nat) by (unfold m in Hm; lia).
    assert (Hn : (k + 1 + m)%nat = n) by (unfold m; lia).
    pose proof (cmp_tau_vv m x Enu) as Htv. fold nu u1 tau in Htv.
    set (w := embed k v).
    set (P := refl tau w).
    assert (Htw : tau * Rsum (fun t => w t * w t) n = 2).
    { rewrite <- Hn. unfold w. rewrite Rsum_embed_sq. exact Htv. }
    assert (PP : meq n (Rmm n P P) RI) by (apply refl_invol; exact Htw).
    assert (Ptr : meq n (Rtr P) P) by apply refl_tr.
    set (h1 := retab n n (hh_left n k m tau v h)).
    set (h2 := retab n n (hh_right n k m tau v h1)).
    set (q1 := retab n n (hh_right n k m tau v q)).
    assert (Hh1 : meq n h1 (Rmm n P h)).
    { intros i j Hi Hj. unfold h1. rewrite retab_spec by assumption.
      apply left_is_mul; assumption. }
    assert (Hh2 : meq n h2 (Rmm n (Rmm n P h) P)).
    { transitivity (Rmm n h1 P).
      - intros i j Hi Hj. unfold h2. rewrite retab_spec by assumption.
        apply right_is_mul; assumption.
      - rewrite Hh1. reflexivity. }
    assert (Hq1 : meq n q1 (Rmm n q P)).
    { intros i j Hi Hj. unfold q1. rewrite retab_spec by assumption.
      apply right_is_mul; assumption. }
    split; [exact (sim_orth n P Ptr PP q q1 Hqq Hq1)|].
    split; [exact (sim_sim n P Ptr PP q h A q1 h2 Hsim Hq1 Hh2)|].
    (* zeros below the sub-diagonal in columns 0..k *)
    intros i j Hj Hi Hij.
    assert (E2 : h2 i j = h1 i j).
    { unfold h2. rewrite retab_spec by lia. rewrite right_spec.
      replace (in_rows k m j) with false by (symmetry; apply in_rows_false; lia).
      now rewrite andb_false_r. }
    rewrite E2. unfold h1. rewrite retab_spec by lia. rewrite left_spec by lia.
    destruct (Nat.eq_dec j k) as [->|Hjk].
    + replace (k <=? k)%nat with true by (symmetry; apply Nat.leb_le; lia).
      replace (k <? n)%nat with true by (symmetry; apply Nat.ltb_lt; lia).
      replace (in_rows k m i) with true by (symmetry; apply in_rows_true; lia).
      cbn [andb]. rewrite dot_col_R. cbn [nsub nmul RNum].
      pose proof (cmp_Hx_rest m x Enu (i - (k + 1))%nat) as Hr.
      fold nu u1 tau in Hr.
      assert (Exi : x (i - (k + 1))%nat = h i k) by (unfold x; f_equal; lia).
      rewrite Exi in Hr. rewrite <- Hr by lia.
      reflexivity.
    + replace (k <=? j)%nat with false by (symmetry; apply Nat.leb_gt; lia).
      cbn [andb]. apply Hz; lia.
Qed.
