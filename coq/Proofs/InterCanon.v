(* Proofs/InterCanon.v — the canonical form computed by the multivariate parser
   (stable sort by name, merge equal names, sorted set of all names) equals the
   declarative reading of Model/GrammarI.v (one entry per distinct letter in
   alphabetical order, exponents summed in source order). *)
From Coq Require Import ZArith NArith List Bool Lia Sorting.Sorted.
From SV Require Import Base.Num Base.Outcome Base.Str Model.Poly Model.Parse Model.GrammarI
  Proofs.StrLemmasI.
Import ListNotations.

(* ---- names ------------------------------------------------------------------- *)
Lemma name_eqb_eq a : forall b, name_eqb a b = true <-> a = b.
Proof.
  induction a as [|x a IH]; intros [|y b]; cbn; split; intros H; try congruence; try reflexivity.
  - apply andb_prop in H as [H1 H2]. apply N.eqb_eq in H1. apply IH in H2. congruence.
  - injection H as -> ->. rewrite N.eqb_refl. apply IH. reflexivity.
Qed.
Lemma name_eqb_refl a : name_eqb a a = true.
Proof. apply name_eqb_eq. reflexivity. Qed.

Lemma name_leb_single a b : name_leb [a] [b] = (a <=? b)%N.
Proof.
  cbn. destruct (N.ltb_spec a b), (N.ltb_spec b a), (N.leb_spec a b); try reflexivity; lia.
Qed.
Lemma name_eqb_single a b : name_eqb [a] [b] = (a =? b)%N.
Proof. cbn. apply andb_true_r. Qed.

Definition single (l : N) : name := [l].

(* ---- strictly sorted lists of letters ---------------------------------------- *)
Definition ssN := StronglySorted N.lt.

Lemma insert_letter_In x l y : In y (insert_letter x l) <-> y = x \/ In y l.
Proof.
  induction l as [|z l IH]; cbn.
  - intuition.
  - destruct (N.ltb_spec x z); [cbn; intuition|].
    destruct (N.eqb_spec x z) as [->|Hn]; cbn; [intuition|].
    rewrite IH. intuition.
Qed.

Lemma insert_letter_sorted x l : ssN l -> ssN (insert_letter x l).
Proof.
  induction l as [|z l IH]; cbn; intros H.
  - repeat constructor.
  - apply StronglySorted_inv in H as [Hs Hf].
    destruct (N.ltb_spec x z) as [Hlt|Hge].
    + constructor; [constructor; assumption|].
      constructor; [exact Hlt|]. rewrite Forall_forall in Hf |- *. intros y Hy.
      specialize (Hf y Hy). lia.
    + destruct (N.eqb_spec x z) as [->|Hn]; [constructor; assumption|].
      constructor; [apply IH; exact Hs|].
      rewrite Forall_forall in Hf |- *. intros y Hy. apply insert_letter_In in Hy as [->|Hy].
      * lia.
      * exact (Hf y Hy).
Qed.

Lemma letter_set_In ls y : In y (letter_set ls) <-> In y ls.
Proof.
  induction ls as [|x ls IH]; cbn; [tauto|].
  rewrite insert_letter_In, IH. intuition.
Qed.

Lemma letter_set_sorted ls : ssN (letter_set ls).
Proof.
  induction ls as [|x ls IH]; cbn; [constructor|]. apply insert_letter_sorted. exact IH.
Qed.

Lemma insert_letter_idem x l : insert_letter x (insert_letter x l) = insert_letter x l.
Proof.
  induction l as [|z l IH]; cbn.
  - rewrite N.ltb_irrefl, N.eqb_refl. reflexivity.
  - destruct (N.ltb_spec x z) as [Hlt|Hge].
    + cbn. rewrite N.ltb_irrefl, N.eqb_refl. reflexivity.
    + destruct (N.eqb_spec x z) as [->|Hn].
      * cbn. rewrite N.ltb_irrefl, N.eqb_refl. reflexivity.
      * cbn. destruct (N.ltb_spec x z); [lia|]. destruct (N.eqb_spec x z); [lia|].
        rewrite IH. reflexivity.
Qed.

Lemma insert_letter_lt x l : (forall y, In y l -> (x < y)%N) -> insert_letter x l = x :: l.
Proof.
  destruct l as [|z l]; cbn; intros H; [reflexivity|].
  destruct (N.ltb_spec x z) as [_|Hge]; [reflexivity|].
  specialize (H z (or_introl eq_refl)). lia.
Qed.

Lemma ssN_unique l1 : forall l2, ssN l1 -> ssN l2 -> (forall x, In x l1 <-> In x l2) -> l1 = l2.
Proof.
  induction l1 as [|a l1 IH]; intros [|b l2] H1 H2 Hin.
  - reflexivity.
  - exfalso. apply (Hin b). left; reflexivity.
  - exfalso. apply (Hin a). left; reflexivity.
  - apply StronglySorted_inv in H1 as [Hs1 Hf1]. apply StronglySorted_inv in H2 as [Hs2 Hf2].
    rewrite Forall_forall in Hf1, Hf2.
    assert (a = b) as ->.
    { destruct (proj1 (Hin a) (or_introl eq_refl)) as [E|Ha]; [congruence|].
      destruct (proj2 (Hin b) (or_introl eq_refl)) as [E|Hb]; [congruence|].
      specialize (Hf1 b Hb). specialize (Hf2 a Ha). lia. }
    f_equal. apply IH; [assumption..|].
    intros x. split; intros Hx.
    + destruct (proj1 (Hin x) (or_intror Hx)) as [E|Hx']; [|exact Hx'].
      subst x. specialize (Hf1 b Hx). lia.
    + destruct (proj2 (Hin x) (or_intror Hx)) as [E|Hx']; [|exact Hx'].
      subst x. specialize (Hf2 b Hx). lia.
Qed.

(* weakly sorted list of letters, adjacent duplicates removed *)
Fixpoint insL (x : N) (l : list N) : list N :=
  match l with
  | [] => [x]
  | y :: l' => if (y <=? x)%N then y :: insL x l' else x :: y :: l'
  end.
Definition sortL (l : list N) : list N := fold_left (fun acc x => insL x acc) l [].
Fixpoint dedupL (l : list N) : list N :=
  match l with
  | [] => []
  | x :: l' =>
      match l' with
      | [] => [x]
      | y :: _ => if (x =? y)%N then dedupL l' else x :: dedupL l'
      end
  end.

Lemma insL_In x l y : In y (insL x l) <-> y = x \/ In y l.
Proof.
  induction l as [|z l IH]; cbn; [intuition|].
  destruct (z <=? x)%N; cbn; [rewrite IH|]; intuition.
Qed.
Lemma insL_sorted x l : StronglySorted N.le l -> StronglySorted N.le (insL x l).
Proof.
  induction l as [|z l IH]; cbn; intros H; [repeat constructor|].
  apply StronglySorted_inv in H as [Hs Hf].
  destruct (N.leb_spec z x) as [Hle|Hgt].
  - constructor; [apply IH; exact Hs|].
    rewrite Forall_forall in Hf |- *. intros y Hy. apply insL_In in Hy as [->|Hy]; [exact Hle|exact (Hf y Hy)].
  - constructor; [constructor; assumption|].
    constructor; [lia|]. rewrite Forall_forall in Hf |- *. intros y Hy. specialize (Hf y Hy). lia.
Qed.
Lemma sortL_gen l : forall acc, StronglySorted N.le acc ->
  StronglySorted N.le (fold_left (fun acc x => insL x acc) l acc) /\
  (forall y, In y (fold_left (fun acc x => insL x acc) l acc) <-> In y acc \/ In y l).
Proof.
  induction l as [|x l IH]; intros acc Ha; cbn [fold_left].
  - split; [exact Ha|]. intros y; cbn; tauto.
  - destruct (IH (insL x acc) (insL_sorted x acc Ha)) as [H1 H2]. split; [exact H1|].
    intros y. rewrite H2, insL_In. cbn. intuition congruence.
Qed.
Lemma sortL_sorted l : StronglySorted N.le (sortL l).
Proof. apply sortL_gen. constructor. Qed.
Lemma sortL_In l y : In y (sortL l) <-> In y l.
Proof. unfold sortL. rewrite (proj2 (sortL_gen l [] (SSorted_nil _))). cbn. tauto. Qed.

Lemma dedupL_In l : forall y, In y (dedupL l) <-> In y l.
Proof.
  induction l as [|x l IH]; intros y; [cbn; tauto|].
  destruct l as [|z l]; [cbn; tauto|].
  change (dedupL (x :: z :: l)) with (if (x =? z)%N then dedupL (z :: l) else x :: dedupL (z :: l)).
  destruct (N.eqb_spec x z) as [->|Hn].
  - rewrite IH. cbn. tauto.
  - cbn [In]. rewrite IH. cbn. tauto.
Qed.
Lemma dedupL_sorted l : StronglySorted N.le l -> ssN (dedupL l).
Proof.
  induction l as [|x l IH]; intros H; [constructor|].
  apply StronglySorted_inv in H as [Hs Hf].
  destruct l as [|z l]; [repeat constructor|].
  change (dedupL (x :: z :: l)) with (if (x =? z)%N then dedupL (z :: l) else x :: dedupL (z :: l)).
  destruct (N.eqb_spec x z) as [->|Hn]; [apply IH; exact Hs|].
  constructor; [apply IH; exact Hs|].
  rewrite Forall_forall in Hf |- *. intros y Hy. rewrite dedupL_In in Hy.
  pose proof (Hf z (or_introl eq_refl)) as Hz.
  apply StronglySorted_inv in Hs as [_ Hfz]. rewrite Forall_forall in Hfz.
  destruct Hy as [<-|Hy]; [lia|]. specialize (Hfz y Hy). lia.
Qed.

(* ---- general names: membership in var_set ----------------------------------- *)
Lemma insert_name_In x l y : In y (insert_name x l) <-> y = x \/ In y l.
Proof.
  induction l as [|z l IH]; cbn; [intuition|].
  destruct (name_leb z x); cbn; [rewrite IH|]; intuition.
Qed.
Lemma sort_names_gen l : forall acc y,
  In y (fold_left (fun acc x => insert_name x acc) l acc) <-> In y acc \/ In y l.
Proof.
  induction l as [|x l IH]; intros acc y; cbn [fold_left]; [cbn; tauto|].
  rewrite IH, insert_name_In. cbn. intuition congruence.
Qed.
Lemma sort_names_In l y : In y (sort_names l) <-> In y l.
Proof. unfold sort_names. rewrite sort_names_gen. cbn. tauto. Qed.
Lemma dedup_sorted_In l : forall y, In y (dedup_sorted l) <-> In y l.
Proof.
  induction l as [|x l IH]; intros y; [cbn; tauto|].
  destruct l as [|z l]; [cbn; tauto|].
  change (dedup_sorted (x :: z :: l))
    with (if name_eqb x z then dedup_sorted (z :: l) else x :: dedup_sorted (z :: l)).
  destruct (name_eqb x z) eqn:E.
  - apply name_eqb_eq in E. subst z. rewrite IH. cbn. tauto.
  - cbn [In]. rewrite IH. cbn. tauto.
Qed.

Section Canon.
  Context {T : Type} {NT : Num T}.

  Lemma var_set_In (ts : list (term T)) v :
    In v (var_set ts) <-> exists t, In t ts /\ In v (map fst (t_vars t)).
  Proof.
    unfold var_set. rewrite dedup_sorted_In, sort_names_In, in_flat_map. reflexivity.
  Qed.

  (* ---- transfer to letter-keyed lists ---------------------------------------- *)
  Definition named (p : N * T) : name * T := ([fst p], snd p).

  Fixpoint insN (x : N * T) (l : list (N * T)) : list (N * T) :=
    match l with
    | [] => [x]
    | y :: l' => if (fst y <=? fst x)%N then y :: insN x l' else x :: y :: l'
    end.
  Definition sortN (l : list (N * T)) : list (N * T) := fold_left (fun acc x => insN x acc) l [].
  Fixpoint mergeN (l acc : list (N * T)) : list (N * T) :=
    match l with
    | [] => rev acc
    | (v, p) :: l' =>
        match acc with
        | (w, q) :: acc' => if (w =? v)%N then mergeN l' ((w, nadd q p) :: acc')
                            else mergeN l' ((v, p) :: acc)
        | [] => mergeN l' [(v, p)]
        end
    end.

  Lemma insert_var_named x l : insert_var (named x) (map named l) = map named (insN x l).
  Proof.
    induction l as [|y l IH]; [reflexivity|].
    cbn [map insert_var insN]. unfold named at 1 2. cbn [fst].
    rewrite name_leb_single. destruct (fst y <=? fst x)%N; cbn [map]; [rewrite <- IH|]; reflexivity.
  Qed.
  Lemma sort_vars_named_gen l : forall acc,
    fold_left (fun acc x => insert_var x acc) (map named l) (map named acc)
    = map named (fold_left (fun acc x => insN x acc) l acc).
  Proof.
    induction l as [|x l IH]; intros acc; [reflexivity|].
    cbn [map fold_left]. rewrite insert_var_named. apply IH.
  Qed.
  Lemma sort_vars_named l : sort_vars (map named l) = map named (sortN l).
  Proof. exact (sort_vars_named_gen l []). Qed.

  Lemma merge_vars_named l : forall acc,
    merge_vars (map named l) (map named acc) = map named (mergeN l acc).
  Proof.
    induction l as [|[v p] l IH]; intros acc.
    - cbn. symmetry. apply map_rev.
    - destruct acc as [|[w q] acc].
      + cbn [map named fst snd merge_vars mergeN]. exact (IH [(v, p)]).
      + cbn [map named fst snd merge_vars mergeN]. rewrite name_eqb_single.
        destruct (w =? v)%N.
        * exact (IH ((w, nadd q p) :: acc)).
        * exact (IH ((v, p) :: (w, q) :: acc)).
  Qed.

  (* ---- the stable sort ----------------------------------------------------------- *)
  Definition leK (a b : N * T) : Prop := (fst a <= fst b)%N.
  Definition SS := StronglySorted leK.

  Lemma insN_In x l y : In y (insN x l) <-> y = x \/ In y l.
  Proof.
    induction l as [|z l IH]; cbn; [intuition|].
    destruct (fst z <=? fst x)%N; cbn; [rewrite IH|]; intuition.
  Qed.
  Lemma insN_sorted x l : SS l -> SS (insN x l).
  Proof.
    induction l as [|z l IH]; cbn; intros H; [repeat constructor|].
    apply StronglySorted_inv in H as [Hs Hf].
    destruct (N.leb_spec (fst z) (fst x)) as [Hle|Hgt].
    - constructor; [apply IH; exact Hs|].
      rewrite Forall_forall in Hf |- *. intros y Hy.
      apply insN_In in Hy as [->|Hy]; [exact Hle|exact (Hf y Hy)].
    - constructor; [constructor; assumption|].
      constructor; [unfold leK; lia|]. rewrite Forall_forall in Hf |- *. intros y Hy.
      specialize (Hf y Hy). unfold leK in *. lia.
  Qed.

  Lemma exps_of_none k (l : list (N * T)) : (forall y, In y l -> fst y <> k) -> exps_of k l = [].
  Proof.
    induction l as [|z l IH]; intros H; [reflexivity|].
    unfold exps_of in *. cbn [filter].
    destruct (N.eqb_spec (fst z) k) as [E|_]; [exfalso; exact (H z (or_introl eq_refl) E)|].
    apply IH. intros y Hy. apply H. right; exact Hy.
  Qed.
  Lemma exps_of_cons k (z : N * T) l :
    exps_of k (z :: l) = if (fst z =? k)%N then snd z :: exps_of k l else exps_of k l.
  Proof. unfold exps_of. cbn [filter]. destruct (fst z =? k)%N; reflexivity. Qed.
  Lemma exps_of_app k (a b : list (N * T)) : exps_of k (a ++ b) = exps_of k a ++ exps_of k b.
  Proof. unfold exps_of. rewrite filter_app, map_app. reflexivity. Qed.

  Lemma insN_exps k x l : SS l -> exps_of k (insN x l) = exps_of k l ++ exps_of k [x].
  Proof.
    induction l as [|z l IH]; intros H; [reflexivity|].
    apply StronglySorted_inv in H as [Hs Hf]. cbn [insN].
    destruct (N.leb_spec (fst z) (fst x)) as [Hle|Hgt].
    - rewrite (exps_of_cons k z (insN x l)), (exps_of_cons k z l), (IH Hs).
      destruct (fst z =? k)%N; reflexivity.
    - rewrite (exps_of_cons k x (z :: l)). rewrite (exps_of_cons k x []).
      destruct (N.eqb_spec (fst x) k) as [E|_]; [|cbn; rewrite app_nil_r; reflexivity].
      rewrite (exps_of_none k (z :: l)); [reflexivity|].
      rewrite Forall_forall in Hf. intros y [<-|Hy]; [lia|].
      specialize (Hf y Hy). unfold leK in Hf. lia.
  Qed.

  Lemma sortN_gen l : forall acc, SS acc ->
    SS (fold_left (fun acc x => insN x acc) l acc) /\
    (forall y, In y (fold_left (fun acc x => insN x acc) l acc) <-> In y acc \/ In y l) /\
    (forall k, exps_of k (fold_left (fun acc x => insN x acc) l acc) = exps_of k acc ++ exps_of k l).
  Proof.
    induction l as [|x l IH]; intros acc Ha; cbn [fold_left].
    - split; [exact Ha|]. split; [intros y; cbn; tauto|]. intros k. rewrite app_nil_r. reflexivity.
    - destruct (IH (insN x acc) (insN_sorted x acc Ha)) as (H1 & H2 & H3).
      split; [exact H1|]. split.
      + intros y. rewrite H2, insN_In. cbn. intuition congruence.
      + intros k. rewrite H3, (insN_exps k x acc Ha), <- app_assoc.
        change (x :: l) with ([x] ++ l). rewrite (exps_of_app k [x] l). reflexivity.
  Qed.
  Lemma sortN_sorted l : SS (sortN l).
  Proof. apply sortN_gen. constructor. Qed.
  Lemma sortN_In l y : In y (sortN l) <-> In y l.
  Proof. unfold sortN. rewrite (proj1 (proj2 (sortN_gen l [] (SSorted_nil _)))). cbn. tauto. Qed.
  Lemma sortN_exps l k : exps_of k (sortN l) = exps_of k l.
  Proof. unfold sortN. rewrite (proj2 (proj2 (sortN_gen l [] (SSorted_nil _)))). reflexivity. Qed.

  (* ---- merging a sorted list ------------------------------------------------------ *)
  Lemma mergeN_acc l : forall w q acc, mergeN l ((w, q) :: acc) = rev acc ++ mergeN l [(w, q)].
  Proof.
    induction l as [|[v p] l IH]; intros w q acc.
    - cbn. reflexivity.
    - cbn [mergeN]. destruct (w =? v)%N.
      + apply IH.
      + rewrite (IH v p ((w, q) :: acc)), (IH v p [(w, q)]). cbn [rev app].
        rewrite <- app_assoc. reflexivity.
  Qed.

  Lemma mergeN_group l : forall w q, Forall (fun y => (w <= fst y)%N) l -> SS l ->
    mergeN l [(w, q)]
    = map (fun k => (k, if (k =? w)%N then fold_left nadd (exps_of k l) q else sum_exps (exps_of k l)))
          (insert_letter w (letter_set (map fst l))).
  Proof.
    induction l as [|[v p] l IH]; intros w q Hlb Hs.
    - cbn. rewrite N.eqb_refl. reflexivity.
    - apply StronglySorted_inv in Hs as [Hs Hf].
      assert (Hlbv : Forall (fun y => (v <= fst y)%N) l) by exact Hf.
      pose proof (Forall_inv Hlb) as Hwv. cbn [fst] in Hwv.
      pose proof (Forall_inv_tail Hlb) as Hlb'.
      cbn [mergeN]. destruct (N.eqb_spec w v) as [<-|Hn].
      + rewrite (IH w (nadd q p) Hlb' Hs). cbn [map fst letter_set fold_right].
        fold (letter_set (map fst l)). rewrite insert_letter_idem.
        apply map_ext. intros k. rewrite exps_of_cons. cbn [fst snd].
        rewrite (N.eqb_sym w k). destruct (k =? w)%N; reflexivity.
      + rewrite mergeN_acc. cbn [rev app].
        rewrite (IH v p Hlbv Hs). cbn [map fst letter_set fold_right].
        fold (letter_set (map fst l)).
        set (X := insert_letter v (letter_set (map fst l))).
        assert (HX : forall y, In y X -> (w < y)%N).
        { intros y Hy. unfold X in Hy. apply insert_letter_In in Hy as [->|Hy]; [lia|].
          rewrite letter_set_In in Hy. apply in_map_iff in Hy as [z [<- Hz]].
          rewrite Forall_forall in Hlbv. specialize (Hlbv z Hz). lia. }
        rewrite (insert_letter_lt w X HX). cbn [map]. f_equal.
        * rewrite N.eqb_refl. rewrite (exps_of_none w ((v, p) :: l)); [reflexivity|].
          rewrite Forall_forall in Hlbv. intros y [<-|Hy]; cbn [fst]; [lia|].
          specialize (Hlbv y Hy). lia.
        * apply map_ext_in. intros k Hk. specialize (HX k Hk).
          destruct (N.eqb_spec k w) as [E|_]; [lia|].
          rewrite exps_of_cons. cbn [fst snd]. rewrite (N.eqb_sym v k).
          destruct (k =? v)%N; reflexivity.
  Qed.

  Lemma mergeN_canon S : SS S ->
    mergeN S [] = map (fun k => (k, sum_exps (exps_of k S))) (letter_set (map fst S)).
  Proof.
    destruct S as [|[w q] l]; intros Hs; [reflexivity|].
    apply StronglySorted_inv in Hs as [Hs Hf].
    cbn [mergeN]. rewrite (mergeN_group l w q Hf Hs).
    cbn [map fst letter_set fold_right]. apply map_ext. intros k.
    rewrite exps_of_cons. cbn [fst snd]. rewrite (N.eqb_sym w k).
    destruct (k =? w)%N; reflexivity.
  Qed.

  (* the parser's per-term canonicalisation is the declarative one *)
  Lemma merge_sort_canon (vs : list (N * T)) :
    merge_vars (sort_vars (map named vs)) [] = canon_vars vs.
  Proof.
    rewrite sort_vars_named. change (@nil (name * T)) with (map named []).
    rewrite merge_vars_named, (mergeN_canon (sortN vs) (sortN_sorted vs)), map_map.
    unfold canon_vars.
    replace (letter_set (map fst (sortN vs))) with (letter_set (map fst vs)).
    - apply map_ext. intros k. unfold named. cbn [fst snd]. rewrite sortN_exps. reflexivity.
    - apply ssN_unique; [apply letter_set_sorted..|].
      intros x. rewrite !letter_set_In, !in_map_iff. split; intros [z [E Hz]]; exists z; split;
        try exact E; [rewrite sortN_In|rewrite sortN_In in Hz]; exact Hz.
  Qed.

  Lemma canon_vars_keys (vs : list (N * T)) :
    map fst (canon_vars vs) = map single (letter_set (map fst vs)).
  Proof. unfold canon_vars. rewrite map_map. reflexivity. Qed.

  (* ---- the polynomial's variable list ---------------------------------------------- *)
  Lemma insert_name_single x l : insert_name (single x) (map single l) = map single (insL x l).
  Proof.
    induction l as [|y l IH]; [reflexivity|].
    cbn [map insert_name insL]. unfold single at 1 2. rewrite name_leb_single.
    destruct (y <=? x)%N; cbn [map]; [rewrite <- IH|]; reflexivity.
  Qed.
  Lemma sort_names_single_gen l : forall acc,
    fold_left (fun acc x => insert_name x acc) (map single l) (map single acc)
    = map single (fold_left (fun acc x => insL x acc) l acc).
  Proof.
    induction l as [|x l IH]; intros acc; [reflexivity|].
    cbn [map fold_left]. rewrite insert_name_single. apply IH.
  Qed.
  Lemma sort_names_single l : sort_names (map single l) = map single (sortL l).
  Proof. exact (sort_names_single_gen l []). Qed.
  Lemma dedup_sorted_single l : dedup_sorted (map single l) = map single (dedupL l).
  Proof.
    induction l as [|x l IH]; [reflexivity|].
    destruct l as [|z l]; [reflexivity|].
    change (dedupL (x :: z :: l)) with (if (x =? z)%N then dedupL (z :: l) else x :: dedupL (z :: l)).
    change (dedup_sorted (map single (x :: z :: l)))
      with (if name_eqb [x] [z] then dedup_sorted (map single (z :: l))
            else single x :: dedup_sorted (map single (z :: l))).
    rewrite name_eqb_single, IH. destruct (x =? z)%N; reflexivity.
  Qed.

  Lemma var_set_terms_of (src : msrc) : var_set (@terms_of T NT src) = vars_of src.
  Proof.
    unfold var_set, vars_of, terms_of.
    assert (E : flat_map (fun t : term T => map fst (t_vars t)) (map term_of src)
                = map single (flat_map (fun x : bool * mterm => letter_set (map fst (snd (snd x)))) src)).
    { induction src as [|x src IH]; [reflexivity|].
      cbn [map flat_map]. rewrite IH, map_app. f_equal.
      unfold term_of. cbn [t_vars]. rewrite canon_vars_keys, map_map. reflexivity. }
    rewrite E, sort_names_single, dedup_sorted_single. f_equal.
    apply ssN_unique.
    - apply dedupL_sorted, sortL_sorted.
    - apply letter_set_sorted.
    - intros k. rewrite dedupL_In, sortL_In, letter_set_In. unfold letters_of.
      rewrite !in_flat_map. split; intros [x [Hx Hk]]; exists x; split; try exact Hx.
      + rewrite letter_set_In in Hk. exact Hk.
      + rewrite letter_set_In. exact Hk.
  Qed.
End Canon.
