(* Proofs/ExprExamples.v — C19: the inputs on which the parser, the fold and Display of the earlier tree
   were refuted (findings F16a-g) now behave as the property demands — positive witnesses by computation. *)
From Coq Require Import ZArith NArith List Bool Reals Lra Lia.
From SV Require Import Base.Num Base.Outcome Base.Str Model.Expr Model.RefExpr Proofs.ExprFold Proofs.ExprDisplay.
Import ListNotations.
Local Open Scope R_scope.

Definition tx : token R := TVar [120%N].
Definition ty : token R := TVar [121%N].
Definition tz : token R := TVar [122%N].
Definition ex : expr R := EVar [120%N].
Definition ey : expr R := EVar [121%N].
Definition ez : expr R := EVar [122%N].

(* x / - y * z is (x / (-y)) * z, which is also the tree of the reference reader *)
Lemma unary_minus_factor_only :
  parser [tx; TOp ODiv; TOp OSub; ty; TOp OMul; tz] = Ok (EBin OMul (EBin ODiv ex (EPre OSub ey) false) ez false)
  /\ ref_read [tx; TOp ODiv; TOp OSub; ty; TOp OMul; tz] = Some (EBin OMul (EBin ODiv ex (EPre OSub ey) false) ez false).
Proof. split; reflexivity. Qed.

(* sin(x)^2 is (sin x)^2 and sin(x)! is (sin x)! *)
Lemma function_argument_only :
  parse_unfolded [TFun FSin; TLParen; tx; TRParen; TOp OCaret; ty] = Ok (EBin OCaret (EFun FSin ex) ey false)
  /\ ref_read [TFun FSin; TLParen; tx; TRParen; TOp OCaret; ty] = Some (EBin OCaret (EFun FSin ex) ey false)
  /\ parse_unfolded [TFun FSin; TLParen; tx; TRParen; TOp OFac] = Ok (EPost OFac (EFun FSin ex)).
Proof. repeat split; reflexivity. Qed.

(* 0^x is not folded any more; 0^2 still folds to 0 and x^0, 0^0 to 1 *)
Lemma zero_power_fold :
  fold_operations (EBin OCaret (ENum 0) ex false) = Ok (EBin OCaret (ENum 0) ex false)
  /\ fold_operations (EBin OCaret (ENum 0) (ENum 2) false) = Ok (ENum 0)
  /\ fold_operations (EBin OCaret (ENum 0) (ENum 0) false) = Ok (ENum 1).
Proof.
  repeat split; rewrite fold_operations_foldS; cbn [foldS is_num is_number neqb n0 n1 RNum andb].
  - rewrite Reqb_refl. destruct (Reqb 0 0); reflexivity.
  - rewrite Reqb_refl. assert (E : Reqb 2 0 = false) by (apply Reqb_false; lra). rewrite E. reflexivity.
  - rewrite Reqb_refl. reflexivity.
Qed.

(* (0 + x*y)^z keeps its parentheses through the fold, and the printed text reads back *)
Lemma fold_keeps_paren : forall fmt : R -> str,
  let e := EBin OCaret (EBin OMul ex ey true) ez false in
  parser [TLParen; TNum 0; TOp OAdd; tx; TOp OMul; ty; TRParen; TOp OCaret; tz] = Ok e /\ reread fmt e = Ok e.
Proof.
  intros fmt e. split.
  - unfold parser.
    change (parse_unfolded [TLParen; TNum 0; TOp OAdd; tx; TOp OMul; ty; TRParen; TOp OCaret; tz])
      with (Ok (EBin OCaret (EBin OAdd (ENum 0) (EBin OMul ex ey false) true) ez false)).
    cbn [bind]. rewrite fold_operations_foldS.
    cbn [foldS is_num is_number neqb n0 n1 RNum keep_paren ex ey ez andb]. rewrite Reqb_refl. reflexivity.
  - apply c19_display_roundtrip_partial_lemma. reflexivity.
Qed.

(* (-x)^y, (-x)! and the constants read back *)
Lemma display_prefix_and_constants : forall fmt : R -> str,
  reread fmt (EBin OCaret (EPre OSub ex) ey false) = Ok (EBin OCaret (EPre OSub ex) ey false)
  /\ reread fmt (EPost OFac (EPre OSub ex)) = Ok (EPost OFac (EPre OSub ex))
  /\ reread fmt (EBin OAdd (EConst KPi) (EBin OMul (EConst KTau) (EConst KPhi) true) false)
     = Ok (EBin OAdd (EConst KPi) (EBin OMul (EConst KTau) (EConst KPhi) true) false).
Proof. intros fmt. repeat split; apply c19_display_roundtrip_partial_lemma; reflexivity. Qed.
