(* Proofs/DecFloat.v — correctness of the decimal reading of the float instance.

   [dec2float m e] (Base/Num.v, the [nofdec] of [FNum]) is meant to be
   "m * 10^e correctly rounded to binary64, round to nearest even", which is what
   Rust's [str::parse::<f64>] specifies.  Here this is PROVED:

     dec_val m e                 the exact real m * 10^e  (= IZR m * powerRZ 10 e)
     dec2float_correct           for m > 0, if the rounded value does not overflow, the result is
                                 finite and its real value is  round_NE_binary64 (dec_val m e)
     dec2float_rel_error         above the subnormal range: |fl - v| <= 2^-53 * v

   e >= 0: the input is the integer m*10^e, [binary_normalize_correct] applies directly.
   e <  0: the model divides m*2^k by d = 10^-e with k such that the quotient q has
           at least 65 bits ([dec_quot_ge] : 2^64 <= q), appends a sticky bit and rounds
           mm * 2^(-k-1).  [dec_sticky_is_round_odd]: mm * 2^(-k-1) is the rounding to odd
           of m/d in the format FLT(min(-1076,-k-1), log2 q + 2) (>= 66 bits of precision),
           and Flocq's [round_N_odd] (rounding to nearest of a rounding to odd with at least
           two more bits = rounding to nearest) concludes.                                  *)
From Coq Require Import ZArith Reals Floats Lia Lra.
From Flocq Require Import Core Relative BinarySingleNaN PrimFloat Round_odd.
From SV Require Import Base.Num.
Local Open Scope R_scope.

Local Notation fexp64 := (FLT_exp (-1074) 53).
Local Notation rnd64 := (round radix2 fexp64 ZnearestE).

Definition dec_val (m e : Z) : R := IZR m * powerRZ 10 e.

Lemma dec_val_eq (m e : Z) : dec_val m e = IZR m * powerRZ 10 e.
Proof. reflexivity. Qed.

Definition radix10 : radix := Build_radix 10 eq_refl.

Lemma dec_val_nonneg_exp (m e : Z) : (0 <= e)%Z -> dec_val m e = IZR (m * 10 ^ e).
Proof.
  intros He. unfold dec_val. rewrite mult_IZR. f_equal.
  change 10%Z with (radix_val radix10). rewrite (IZR_Zpower radix10 e He).
  rewrite bpow_powerRZ. reflexivity.
Qed.

Lemma dec_val_neg_exp (m e : Z) : (e < 0)%Z -> dec_val m e = IZR m / IZR (10 ^ (- e)).
Proof.
  intros He. unfold dec_val, Rdiv. f_equal.
  change 10%Z with (radix_val radix10). rewrite (IZR_Zpower radix10 (- e)) by lia.
  rewrite <- bpow_opp. rewrite Z.opp_involutive. rewrite bpow_powerRZ. reflexivity.
Qed.

(* ---- the bridge: SpecFloat.binary_normalize then SF2Prim, read through Prim2B ------------- *)
Lemma norm_prim_correct (mz ez : Z) :
  Rabs (rnd64 (F2R (Float radix2 mz ez))) < bpow radix2 1024 ->
  is_finite (Prim2B (SF2Prim (SpecFloat.binary_normalize prec53 emax1024 mz ez false))) = true /\
  B2R (Prim2B (SF2Prim (SpecFloat.binary_normalize prec53 emax1024 mz ez false)))
    = rnd64 (F2R (Float radix2 mz ez)).
Proof.
  intros Hov.
  change (SpecFloat.binary_normalize prec53 emax1024 mz ez false)
    with (SpecFloat.binary_normalize FloatOps.prec FloatOps.emax mz ez false).
  rewrite binary_normalize_equiv.
  change (SF2Prim (B2SF ?b)) with (B2Prim b).
  rewrite Prim2B_B2Prim.
  generalize (binary_normalize_correct FloatOps.prec FloatOps.emax Hprec Hmax mode_NE mz ez false).
  cbv zeta.
  change (round radix2 (SpecFloat.fexp FloatOps.prec FloatOps.emax) (round_mode mode_NE))
    with rnd64.
  change (bpow radix2 FloatOps.emax) with (bpow radix2 1024).
  rewrite Rlt_bool_true by exact Hov.
  intros [H1 [H2 _]]. split; [exact H2|exact H1].
Qed.

(* ---- e >= 0 ------------------------------------------------------------------------------- *)
Theorem dec2float_correct_nonneg_exp (m e : Z) :
  (0 < m)%Z -> (0 <= e)%Z ->
  Rabs (rnd64 (dec_val m e)) < bpow radix2 1024 ->
  is_finite (Prim2B (dec2float m e)) = true /\
  B2R (Prim2B (dec2float m e)) = rnd64 (dec_val m e).
Proof.
  intros Hm He Hov.
  assert (EF : F2R (Float radix2 (m * 10 ^ e) 0) = dec_val m e).
  { rewrite dec_val_nonneg_exp by exact He. unfold F2R; cbn [Fnum Fexp bpow]. ring. }
  unfold dec2float. destruct m as [|p|p]; try lia.
  apply Z.leb_le in He. rewrite He.
  rewrite <- EF in Hov |- *.
  apply norm_prim_correct. exact Hov.
Qed.

(* ---- e < 0 : the quotient, the sticky bit ----------------------------------------------- *)
Definition dec_k (m d : Z) : Z := Z.max 0 (64 + Z.log2 d + 1 - Z.log2 m).

Lemma dec_quot_ge (m d : Z) : (0 < m)%Z -> (0 < d)%Z ->
  (2 ^ 64 <= (m * 2 ^ dec_k m d) / d)%Z.
Proof.
  intros Hm Hd. set (k := dec_k m d).
  assert (Hk0 : (0 <= k)%Z) by (unfold k, dec_k; lia).
  assert (Hk : (64 + Z.log2 d + 1 - Z.log2 m <= k)%Z) by (unfold k, dec_k; lia).
  pose proof (Z.log2_nonneg m) as Lm0. pose proof (Z.log2_nonneg d) as Ld0.
  destruct (Z.log2_spec m Hm) as [Lm _]. destruct (Z.log2_spec d Hd) as [_ Ld].
  apply Z.div_le_lower_bound; [exact Hd|].
  apply Z.le_trans with (2 ^ (Z.log2 d + 1) * 2 ^ 64)%Z.
  { apply Z.mul_le_mono_nonneg_r; [apply Z.pow_nonneg; lia|].
    replace (Z.log2 d + 1)%Z with (Z.succ (Z.log2 d)) by lia. lia. }
  rewrite <- Z.pow_add_r by lia.
  apply Z.le_trans with (2 ^ (Z.log2 m) * 2 ^ k)%Z.
  - rewrite <- Z.pow_add_r by lia. apply Z.pow_le_mono_r; lia.
  - apply Z.mul_le_mono_nonneg_r; [apply Z.pow_nonneg; lia|exact Lm].
Qed.

(* the value that is handed to binary_normalize is the rounding to odd of m/d at
   cexp -k-1 in a format with log2 q + 2 >= 66 bits *)
Lemma dec_sticky_is_round_odd (m d k : Z) :
  (0 < m)%Z -> (0 < d)%Z -> (0 <= k)%Z ->
  let num := (m * 2 ^ k)%Z in
  let q := (num / d)%Z in
  let r := (num mod d)%Z in
  let mm := (2 * q + (if (r =? 0)%Z then 0 else 1))%Z in
  (1 <= q)%Z ->
  round radix2 (FLT_exp (Z.min (-1076) (- k - 1)) (Z.log2 q + 2)) Zrnd_odd (IZR m / IZR d)
    = F2R (Float radix2 mm (- k - 1)).
Proof.
  intros Hm Hd Hk num q r mm Hq1.
  set (x := IZR m / IZR d).
  set (Q := Z.log2 q).
  assert (HQ0 : (0 <= Q)%Z) by apply Z.log2_nonneg.
  destruct (Z.log2_spec q ltac:(lia)) as [HQl HQu]. fold Q in HQl, HQu.
  assert (Hdiv : num = (d * q + r)%Z) by (apply Z_div_mod_eq_full).
  assert (Hr : (0 <= r < d)%Z) by (apply Z.mod_pos_bound; exact Hd).
  assert (HdR : 0 < IZR d) by (apply IZR_lt; exact Hd).
  set (P := bpow radix2 k).
  assert (HP : 0 < P) by apply bpow_gt_0.
  assert (HnumR : IZR num = IZR m * P).
  { unfold num, P. rewrite mult_IZR. f_equal.
    change 2%Z with (radix_val radix2). apply IZR_Zpower. exact Hk. }
  set (t := IZR num / IZR d).
  assert (Ht : t = IZR q + IZR r / IZR d).
  { unfold t. rewrite Hdiv, plus_IZR, mult_IZR. field. lra. }
  assert (Hrd : 0 <= IZR r / IZR d < 1).
  { split.
    - apply Rmult_le_pos; [apply IZR_le; lia|]. apply Rlt_le, Rinv_0_lt_compat; exact HdR.
    - apply Rmult_lt_reg_r with (IZR d); [exact HdR|]. unfold Rdiv.
      rewrite Rmult_assoc, Rinv_l by lra. rewrite Rmult_1_r, Rmult_1_l. apply IZR_lt; lia. }
  assert (Hxt : x = t * bpow radix2 (- k)).
  { unfold x, t. rewrite HnumR. rewrite bpow_opp. fold P. field. lra. }
  assert (Hxpos : 0 < x).
  { unfold x. apply Rmult_lt_0_compat; [apply IZR_lt; lia|apply Rinv_0_lt_compat; exact HdR]. }
  (* magnitude of x *)
  assert (HQlR : bpow radix2 Q <= IZR q).
  { rewrite <- (IZR_Zpower radix2 Q HQ0). apply IZR_le. exact HQl. }
  assert (HQuR : IZR q + 1 <= bpow radix2 (Q + 1)).
  { rewrite <- (IZR_Zpower radix2 (Q + 1)) by lia. rewrite <- (plus_IZR q 1). apply IZR_le.
    change (radix_val radix2) with 2%Z. replace (Q + 1)%Z with (Z.succ Q) by lia. lia. }
  assert (Hmag : mag radix2 x = (Q + 1 - k)%Z :> Z).
  { apply mag_unique. rewrite Rabs_pos_eq by lra. rewrite Hxt.
    replace (Q + 1 - k - 1)%Z with (Q + - k)%Z by lia.
    replace (Q + 1 - k)%Z with ((Q + 1) + - k)%Z by lia.
    rewrite 2!bpow_plus.
    pose proof (bpow_gt_0 radix2 (- k)) as Hb.
    split.
    - apply Rmult_le_compat_r; [lra|]. lra.
    - apply Rmult_lt_compat_r; [exact Hb|]. lra. }
  assert (Hcexp : cexp radix2 (FLT_exp (Z.min (-1076) (- k - 1)) (Q + 2)) x = (- k - 1)%Z).
  { unfold cexp. rewrite Hmag. unfold FLT_exp. lia. }
  unfold round, scaled_mantissa. rewrite Hcexp.
  f_equal. f_equal.
  (* the scaled mantissa is 2 t *)
  assert (Hs : x * bpow radix2 (- (- k - 1)) = 2 * t).
  { replace (- (- k - 1))%Z with (k + 1)%Z by lia. rewrite bpow_plus_1.
    change (IZR (radix_val radix2)) with 2. fold P. unfold x, t. rewrite HnumR. field. lra. }
  rewrite Hs.
  unfold mm. destruct (Z.eqb_spec r 0) as [Hr0|Hr0].
  - (* exact quotient *)
    assert (E : 2 * t = IZR (2 * q)).
    { rewrite Ht, Hr0, mult_IZR. unfold Rdiv. lra. }
    rewrite E. unfold Zrnd_odd. rewrite Zfloor_IZR.
    destruct (Req_EM_T (IZR (2 * q)) (IZR (2 * q))) as [_|N]; [lia|contradiction N; reflexivity].
  - assert (Hrd0 : 0 < IZR r / IZR d).
    { apply Rmult_lt_0_compat; [apply IZR_lt; lia|apply Rinv_0_lt_compat; exact HdR]. }
    destruct (Rlt_dec (2 * t) (IZR (2 * q + 1))) as [Hlt|Hge].
    + (* floor = 2q, even, not exact: ceil *)
      assert (Hfl : Zfloor (2 * t) = (2 * q)%Z).
      { apply Zfloor_imp. split; [rewrite mult_IZR; lra|exact Hlt]. }
      unfold Zrnd_odd. rewrite Hfl.
      destruct (Req_EM_T (2 * t) (IZR (2 * q))) as [Eq|_].
      * rewrite mult_IZR in Eq. lra.
      * replace (Z.even (2 * q)) with true by (symmetry; rewrite Z.even_mul; reflexivity).
        rewrite Zceil_floor_neq; [rewrite Hfl; lia|].
        rewrite Hfl, mult_IZR. lra.
    + (* floor = 2q+1, odd *)
      assert (Hfl : Zfloor (2 * t) = (2 * q + 1)%Z).
      { apply Zfloor_imp. split; [lra|].
        rewrite plus_IZR, plus_IZR, mult_IZR. lra. }
      unfold Zrnd_odd. rewrite Hfl.
      destruct (Req_EM_T (2 * t) (IZR (2 * q + 1))) as [_|_]; [lia|].
      replace (Z.even (2 * q + 1)) with false; [lia|].
      symmetry. rewrite Z.add_comm. rewrite Z.even_add_mul_2. reflexivity.
Qed.

Lemma dec_round_sticky (m d : Z) :
  (0 < m)%Z -> (0 < d)%Z ->
  let k := dec_k m d in
  let num := (m * 2 ^ k)%Z in
  let q := (num / d)%Z in
  let r := (num mod d)%Z in
  let mm := (2 * q + (if (r =? 0)%Z then 0 else 1))%Z in
  rnd64 (F2R (Float radix2 mm (- k - 1))) = rnd64 (IZR m / IZR d).
Proof.
  intros Hm Hd. cbv zeta. set (k := dec_k m d). set (q := (m * 2 ^ k / d)%Z).
  assert (Hk : (0 <= k)%Z) by (unfold k, dec_k; lia).
  assert (Hq : (2 ^ 64 <= q)%Z) by (apply dec_quot_ge; assumption).
  assert (HQ : (64 <= Z.log2 q)%Z).
  { rewrite <- (Z.log2_pow2 64) by lia. apply Z.log2_le_mono. exact Hq. }
  assert (Hq1 : (1 <= q)%Z) by lia.
  pose proof (dec_sticky_is_round_odd m d k Hm Hd Hk) as HS. cbv zeta in HS.
  change (m * 2 ^ k / d)%Z with q in HS. specialize (HS Hq1).
  rewrite <- HS. clear HS.
  set (pe := (Z.log2 q + 2)%Z). set (ee := Z.min (-1076) (- k - 1)).
  assert (Hpe : Prec_gt_0 pe) by (unfold Prec_gt_0, pe; lia).
  assert (Hpe1 : (1 < pe)%Z) by (unfold pe; lia).
  apply (@round_N_odd radix2 eq_refl fexp64 (FLT_exp ee pe) (fun t => negb (Z.even t))
           (@FLT_exp_valid (-1074) 53 eq_refl)
           (exists_NE_FLT radix2 (-1074) 53 (or_intror eq_refl))
           (@FLT_exp_valid ee pe Hpe)
           (exists_NE_FLT radix2 ee pe (or_intror Hpe1))).
  intros e0. unfold FLT_exp, ee, pe. lia.
Qed.

Theorem dec2float_correct_neg_exp (m e : Z) :
  (0 < m)%Z -> (e < 0)%Z ->
  Rabs (rnd64 (dec_val m e)) < bpow radix2 1024 ->
  is_finite (Prim2B (dec2float m e)) = true /\
  B2R (Prim2B (dec2float m e)) = rnd64 (dec_val m e).
Proof.
  intros Hm He Hov.
  assert (Hd : (0 < 10 ^ (- e))%Z) by (apply Z.pow_pos_nonneg; lia).
  pose proof (dec_round_sticky m (10 ^ (- e)) Hm Hd) as HR. cbv zeta in HR.
  rewrite <- dec_val_neg_exp in HR by exact He.
  unfold dec2float. destruct m as [|p|p]; try lia.
  assert (Hle : (0 <=? e)%Z = false) by (apply Z.leb_gt; exact He).
  rewrite Hle. cbv zeta.
  fold (dec_k (Z.pos p) (10 ^ (- e))).
  rewrite <- HR in Hov |- *.
  apply norm_prim_correct. exact Hov.
Qed.

(* ---- the theorem --------------------------------------------------------------------------- *)
Theorem dec2float_correct (m e : Z) :
  (0 < m)%Z ->
  Rabs (round radix2 (FLT_exp (-1074) 53) ZnearestE (dec_val m e)) < bpow radix2 1024 ->
  is_finite (Prim2B (dec2float m e)) = true /\
  B2R (Prim2B (dec2float m e)) = round radix2 (FLT_exp (-1074) 53) ZnearestE (dec_val m e).
Proof.
  intros Hm Hov. destruct (Z_lt_le_dec e 0) as [He|He].
  - apply dec2float_correct_neg_exp; assumption.
  - apply dec2float_correct_nonneg_exp; assumption.
Qed.

Theorem dec2float_rel_error (m e : Z) :
  (0 < m)%Z ->
  Rabs (round radix2 (FLT_exp (-1074) 53) ZnearestE (dec_val m e)) < bpow radix2 1024 ->
  bpow radix2 (-1022) <= dec_val m e ->
  Rabs (B2R (Prim2B (dec2float m e)) - dec_val m e) <= bpow radix2 (-53) * dec_val m e.
Proof.
  intros Hm Hov Hn.
  destruct (dec2float_correct m e Hm Hov) as [_ ->].
  assert (Hpos : 0 < dec_val m e).
  { eapply Rlt_le_trans; [apply (bpow_gt_0 radix2 (-1022))|exact Hn]. }
  pose proof (relative_error_N_FLT radix2 (-1074) 53 eq_refl (fun t => negb (Z.even t)) (dec_val m e)) as H.
  rewrite (Rabs_pos_eq (dec_val m e)) in H by lra.
  specialize (H Hn).
  replace (bpow radix2 (-53)) with (/ 2 * bpow radix2 (- (53) + 1)); [exact H|].
  change (- (53) + 1)%Z with (-53 + 1)%Z. rewrite bpow_plus_1.
  change (IZR (radix_val radix2)) with 2. field.
Qed.

(* ---- the side conditions are satisfiable / dischargeable ------------------------------------ *)
Lemma dec_no_overflow (v : R) :
  0 <= v <= bpow radix2 1023 ->
  Rabs (round radix2 (FLT_exp (-1074) 53) ZnearestE v) < bpow radix2 1024.
Proof.
  intros [H0 H1].
  assert (V : Valid_exp fexp64) by (apply FLT_exp_valid; reflexivity).
  assert (G : generic_format radix2 fexp64 (bpow radix2 1023)).
  { apply generic_format_bpow. unfold FLT_exp. lia. }
  assert (Hle : rnd64 v <= bpow radix2 1023).
  { apply round_le_generic; [exact V|apply valid_rnd_N|exact G|exact H1]. }
  assert (Hge : 0 <= rnd64 v).
  { apply round_ge_generic; [exact V|apply valid_rnd_N|apply generic_format_0|exact H0]. }
  rewrite Rabs_pos_eq by exact Hge.
  eapply Rle_lt_trans; [exact Hle|]. apply bpow_lt. lia.
Qed.

(* 0.1 = dec_val 1 (-1) satisfies every hypothesis of the two theorems *)
Lemma ex_dec_hyps :
  (0 < 1)%Z /\
  Rabs (round radix2 (FLT_exp (-1074) 53) ZnearestE (dec_val 1 (-1))) < bpow radix2 1024 /\
  bpow radix2 (-1022) <= dec_val 1 (-1).
Proof.
  assert (E : dec_val 1 (-1) = / 10).
  { rewrite dec_val_neg_exp by lia. change (10 ^ (- (-1)))%Z with 10%Z. unfold Rdiv. lra. }
  rewrite E.
  assert (L : bpow radix2 (-1022) <= / 10).
  { apply Rle_trans with (bpow radix2 (-4)); [apply bpow_le; lia|].
    change (bpow radix2 (-4)) with (/ 16). lra. }
  split; [lia|]. split; [|exact L].
  apply dec_no_overflow. split; [lra|].
  apply Rle_trans with (bpow radix2 0); [cbn [bpow]; lra|apply bpow_le; lia].
Qed.
