(* Proofs/StrLemmasI.v — facts about the string functions of Base/Str.v used by the
   multivariate-parser proofs (C02, C16).  Nothing here mentions a parser. *)
From Coq Require Import ZArith NArith List Bool Lia.
From SV Require Import Base.Num Base.Str.
Import ListNotations.

(* ---- characters ------------------------------------------------------------ *)
Lemma Neqb_sym (a b : N) : N.eqb a b = N.eqb b a.
Proof. apply N.eqb_sym. Qed.

Lemma digit_not c d : is_ascii_digit c = true -> (d < 48 \/ 57 < d)%N -> N.eqb c d = false.
Proof.
  unfold is_ascii_digit. intros H Hd. apply andb_prop in H as [H1 H2].
  apply N.leb_le in H1. apply N.leb_le in H2. apply N.eqb_neq. lia.
Qed.

Lemma letter_not c d : is_ascii_letter c = true ->
  (d < 65 \/ (90 < d /\ d < 97) \/ 122 < d)%N -> N.eqb c d = false.
Proof.
  unfold is_ascii_letter. intros H Hd. apply N.eqb_neq.
  apply orb_prop in H as [H|H]; apply andb_prop in H as [H1 H2];
    apply N.leb_le in H1; apply N.leb_le in H2; lia.
Qed.

Lemma letter_not_digit c : is_ascii_letter c = true -> is_ascii_digit c = false.
Proof.
  unfold is_ascii_letter, is_ascii_digit. intros H.
  apply orb_prop in H as [H|H]; apply andb_prop in H as [H1 H2];
    apply N.leb_le in H1; apply N.leb_le in H2; apply andb_false_iff; right; apply N.leb_gt; lia.
Qed.

Lemma forallb_impl {A} (P Q : A -> bool) (l : list A) :
  (forall x, P x = true -> Q x = true) -> forallb P l = true -> forallb Q l = true.
Proof.
  intros H. induction l as [|x l IH]; cbn; [reflexivity|].
  intros E. apply andb_prop in E as [E1 E2]. rewrite (H x E1), (IH E2). reflexivity.
Qed.

(* ---- lacks / contains ------------------------------------------------------- *)
Definition lacks (c : N) (s : str) : bool := forallb (fun x => negb (N.eqb x c)) s.

Lemma lacks_app c a b : lacks c (a ++ b) = lacks c a && lacks c b.
Proof. apply forallb_app. Qed.

Lemma contains_lacks c s : contains_char c s = negb (lacks c s).
Proof.
  unfold contains_char, lacks. induction s as [|x s IH]; cbn; [reflexivity|].
  rewrite IH, (N.eqb_sym c x). destruct (N.eqb x c); reflexivity.
Qed.

Lemma contains_app c a b : contains_char c (a ++ b) = contains_char c a || contains_char c b.
Proof. apply existsb_app. Qed.

Lemma digits_lack c s : all_digits s = true -> (c < 48 \/ 57 < c)%N -> lacks c s = true.
Proof.
  intros H Hc. unfold lacks. revert H. apply forallb_impl. intros x Hx.
  rewrite (digit_not x c Hx Hc). reflexivity.
Qed.

Lemma contains_strip c s : is_whitespace c = false -> contains_char c (strip_ws s) = contains_char c s.
Proof.
  intros Hc. unfold contains_char, strip_ws. induction s as [|x s IH]; cbn; [reflexivity|].
  destruct (is_whitespace x) eqn:Ex; cbn.
  - rewrite IH. destruct (N.eqb_spec c x) as [->|]; [congruence|reflexivity].
  - rewrite IH. reflexivity.
Qed.

Lemma str_eqb_eq a : forall b, str_eqb a b = true <-> a = b.
Proof.
  induction a as [|x a IH]; intros [|y b]; cbn; split; intros H; try congruence; try reflexivity.
  - apply andb_prop in H as [H1 H2]. apply N.eqb_eq in H1. apply IH in H2. congruence.
  - injection H as -> ->. rewrite N.eqb_refl. apply IH. reflexivity.
Qed.

(* ---- split / join ----------------------------------------------------------- *)
Lemma split_on_nonnil c s : split_on c s <> [].
Proof.
  destruct s as [|x s]; cbn; [discriminate|].
  destruct (split_on c s); [discriminate|]. destruct (N.eqb x c); discriminate.
Qed.

Lemma split_on_lacks c s : lacks c s = true -> split_on c s = [s].
Proof.
  induction s as [|x s IH]; cbn; [reflexivity|].
  intros H. apply andb_prop in H as [H1 H2]. rewrite (IH H2).
  destruct (N.eqb x c); [discriminate|reflexivity].
Qed.

Lemma split_on_app c a b : lacks c a = true -> split_on c (a ++ c :: b) = a :: split_on c b.
Proof.
  induction a as [|x a IH]; cbn [app]; intros H.
  - cbn [split_on]. destruct (split_on c b) eqn:E; [exfalso; exact (split_on_nonnil c b E)|].
    rewrite N.eqb_refl. reflexivity.
  - cbn in H. apply andb_prop in H as [H1 H2]. cbn [split_on]. rewrite (IH H2).
    destruct (N.eqb x c); [discriminate|reflexivity].
Qed.

(* the inverse of split: pieces joined by the separator *)
Fixpoint join (c : N) (ps : list str) : str :=
  match ps with
  | [] => []
  | p :: ps' => match ps' with [] => p | _ :: _ => p ++ c :: join c ps' end
  end.

Lemma join_cons2 c p q ps : join c (p :: q :: ps) = p ++ c :: join c (q :: ps).
Proof. reflexivity. Qed.

Lemma join_split c s : join c (split_on c s) = s.
Proof.
  induction s as [|x s IH]; [reflexivity|].
  cbn [split_on]. destruct (split_on c s) as [|p ps] eqn:E; [exfalso; exact (split_on_nonnil c s E)|].
  destruct (N.eqb_spec x c) as [->|Hx].
  - rewrite join_cons2, IH. reflexivity.
  - destruct ps as [|q ps].
    + cbn in IH |- *. rewrite IH. reflexivity.
    + rewrite join_cons2 in IH |- *. cbn [app]. rewrite IH. reflexivity.
Qed.

Lemma split_join c ps : ps <> [] -> Forall (fun p => lacks c p = true) ps ->
  split_on c (join c ps) = ps.
Proof.
  induction ps as [|p ps IH]; [congruence|]. intros _ HF.
  inversion HF as [|? ? Hp HF']; subst.
  destruct ps as [|q ps].
  - cbn. apply split_on_lacks. exact Hp.
  - rewrite join_cons2, split_on_app by exact Hp. rewrite IH; [reflexivity|discriminate|exact HF'].
Qed.

Lemma split_pieces_lack c s : Forall (fun p => lacks c p = true) (split_on c s).
Proof.
  induction s as [|x s IH]; cbn [split_on]; [repeat constructor|].
  destruct (split_on c s) as [|p ps]; [repeat constructor|].
  inversion IH as [|? ? Hp Hps]; subst.
  destruct (N.eqb x c) eqn:E.
  - constructor; [reflexivity|assumption].
  - constructor; [cbn; rewrite E; exact Hp|exact Hps].
Qed.

(* ---- digits ------------------------------------------------------------------ *)
Lemma all_digits_app a b : all_digits (a ++ b) = all_digits a && all_digits b.
Proof. apply forallb_app. Qed.

Lemma digits_val_nonneg_acc s : forall acc, (0 <= acc)%Z -> all_digits s = true ->
  (0 <= fold_left (fun a c => a * 10 + digit_val c) s acc)%Z.
Proof.
  induction s as [|x s IH]; cbn; intros acc Ha H; [exact Ha|].
  apply andb_prop in H as [H1 H2]. apply IH; [|exact H2].
  unfold is_ascii_digit in H1. apply andb_prop in H1 as [H3 H4].
  apply N.leb_le in H3. unfold digit_val. lia.
Qed.

Lemma digits_val_nonneg s : all_digits s = true -> (0 <= digits_val s)%Z.
Proof. intros H. apply digits_val_nonneg_acc; [lia|exact H]. Qed.

(* ---- find -------------------------------------------------------------------- *)
Lemma find_char_lacks c s : lacks c s = true -> find_char c s = None.
Proof.
  induction s as [|x s IH]; cbn; [reflexivity|]. intros H. apply andb_prop in H as [H1 H2].
  destruct (N.eqb x c); [discriminate|]. rewrite (IH H2). reflexivity.
Qed.

Lemma find_char_app c a b : lacks c a = true -> find_char c (a ++ c :: b) = Some (length a).
Proof.
  induction a as [|x a IH]; cbn; intros H.
  - rewrite N.eqb_refl. reflexivity.
  - apply andb_prop in H as [H1 H2]. destruct (N.eqb x c); [discriminate|].
    rewrite (IH H2). reflexivity.
Qed.

Lemma find_pred_none p s : forallb (fun c => negb (p c)) s = true -> find_pred p s = None.
Proof.
  induction s as [|x s IH]; cbn; [reflexivity|]. intros H. apply andb_prop in H as [H1 H2].
  destruct (p x); [discriminate|]. exact (IH H2).
Qed.

Lemma find_pred_app p a c b : forallb (fun x => negb (p x)) a = true -> p c = true ->
  find_pred p (a ++ c :: b) = Some c.
Proof.
  induction a as [|x a IH]; cbn; intros H Hc.
  - rewrite Hc. reflexivity.
  - apply andb_prop in H as [H1 H2]. destruct (p x); [discriminate|]. exact (IH H2 Hc).
Qed.
